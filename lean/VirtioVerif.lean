-- root of the library: every model, generated fragment and property file
import VirtioVerif.Model.Proto
import VirtioVerif.Model.Layout
import VirtioVerif.Props.C06
import VirtioVerif.Model.PciBus
import VirtioVerif.Props.C12
import VirtioVerif.Model.PciCap
import VirtioVerif.Props.C11
