-- root of the library: every model, generated fragment and property file
import VirtioVerif.Model.Proto
import VirtioVerif.Model.Layout
import VirtioVerif.Props.C06
import VirtioVerif.Model.Mmio
import VirtioVerif.Model.Config
import VirtioVerif.Spec.MmioRegs
import VirtioVerif.Props.C10
import VirtioVerif.Props.C13
