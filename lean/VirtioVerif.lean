-- root of the library: every model, generated fragment and property file
import VirtioVerif.Model.Proto
import VirtioVerif.Model.Layout
import VirtioVerif.Props.C06
import VirtioVerif.Model.Wire
import VirtioVerif.Model.CmdQueue
import VirtioVerif.Model.Edid
import VirtioVerif.Model.Gpu
import VirtioVerif.Model.Sound
import VirtioVerif.Model.SmallDevs
import VirtioVerif.Props.C20
