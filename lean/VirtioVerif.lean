-- root of the library: every model, generated fragment and property file
import VirtioVerif.Model.Proto
import VirtioVerif.Model.Layout
import VirtioVerif.Model.EvQueue
import VirtioVerif.Model.Console
import VirtioVerif.Model.EventQueues
import VirtioVerif.Props.C06
import VirtioVerif.Lemmas.EvQueue
import VirtioVerif.Props.C15
import VirtioVerif.Props.C19Drivers
