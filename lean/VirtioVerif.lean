-- root of the library: every model, generated fragment and property file
import VirtioVerif.Model.Proto
import VirtioVerif.Model.Layout
import VirtioVerif.Props.C06
import VirtioVerif.Model.DropPlan
import VirtioVerif.Model.Init
import VirtioVerif.Props.C08
import VirtioVerif.Props.C09
