-- root of the library: every model, generated fragment and property file
import VirtioVerif.Model.Proto
import VirtioVerif.Model.Layout
import VirtioVerif.Props.C06
import VirtioVerif.Model.VsockSpec
import VirtioVerif.Model.Vsock
import VirtioVerif.Model.VsockConn
import VirtioVerif.Lemmas.VsockRing
import VirtioVerif.Lemmas.VsockTable
import VirtioVerif.Lemmas.VsockTable2
import VirtioVerif.Props.C17
import VirtioVerif.Props.C18
