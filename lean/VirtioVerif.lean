-- root of the library: every model, generated fragment and property file
import VirtioVerif.Model.Proto
import VirtioVerif.Model.Layout
import VirtioVerif.Props.C06
import VirtioVerif.Model.Queue
import VirtioVerif.Lemmas.QueueFrame
import VirtioVerif.Props.C05
import VirtioVerif.Model.AbsQueue
import VirtioVerif.Model.Bytes
import VirtioVerif.Model.Blk
import VirtioVerif.Lemmas.AbsQueue
import VirtioVerif.Spec.Blk
import VirtioVerif.Props.C14
import VirtioVerif.Model.Net
import VirtioVerif.Spec.Net
import VirtioVerif.Props.C16
