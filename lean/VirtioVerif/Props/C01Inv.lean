import VirtioVerif.Lemmas.QueueReach
import VirtioVerif.Props.C01
import VirtioVerif.Props.C03
/-!
# C01, part B — the chain the device reaches from the new ring entry

`devParse` is the *device's* parser of a split-virtqueue chain (VirtIO 1.x §2.7.5, §2.7.5.3),
written from the specification: it reads only device-visible memory (`q.dv`, the descriptor table
as the device sees it; for an indirect descriptor the table it points to), checks every index
against the queue size, bounds the walk by the queue size (so a cycle is rejected), rejects
nested/ill-flagged indirect descriptors, and rejects a device-readable element after a
device-writable one.

Modelling note: the contents of an indirect table as seen by the device are the contents of the
boxed table at the time it was shared (`indirectLists[head]`); it is shared device-readable and
never written between `add` and `pop_used`.
-/
namespace VirtioVerif.Props.C01Inv
open VirtioVerif VirtioVerif.Queue

structure Seg where
  addr : Nat
  len : Nat
  write : Bool
deriving DecidableEq, Repr

def segOf (d : Desc) : Seg := ⟨d.addr, d.len, hasFlag d.flags fWRITE⟩

/-- readable-before-writable -/
def orderOk : List Seg → Bool
  | [] => true
  | s :: rest => (if s.write then rest.all (·.write) else true) && orderOk rest

/-- walk of a direct chain in the device-visible table, at most `fuel` elements -/
def parseDirect (q : Q) : Nat → Nat → Option (List Seg)
  | 0, _ => none
  | fuel + 1, i =>
    if q.n ≤ i then none else
    let d := q.dv i
    if hasFlag d.flags fINDIRECT then none else
    if hasFlag d.flags fNEXT then (parseDirect q fuel d.next).map (segOf d :: ·) else some [segOf d]

/-- walk inside an indirect table of `t.length` entries -/
def parseTable (t : List Desc) : Nat → Nat → Option (List Seg)
  | 0, _ => none
  | fuel + 1, i =>
    match t[i]? with
    | none => none
    | some d =>
      if hasFlag d.flags fINDIRECT then none else
      if hasFlag d.flags fNEXT then (parseTable t fuel d.next).map (segOf d :: ·) else some [segOf d]

def devParse (q : Q) (head : Nat) : Option (List Seg) :=
  if q.n ≤ head then none else
  let d := q.dv head
  let r :=
    if hasFlag d.flags fINDIRECT then
      if hasFlag d.flags fNEXT || hasFlag d.flags fWRITE then none
      else match q.indirectLists.getD head none with
        | none => none
        | some t => if d.len = 16 * t.length ∧ 0 < t.length then parseTable t t.length 0 else none
    else parseDirect q q.n head
  match r with
  | some segs => if orderOk segs then some segs else none
  | none => none

/-- what the caller submitted, as the device should see it: the address `share` returned, the
length and the direction of each buffer, inputs first -/
def expectedSegs (s : Nat) : List (Buf × Bool) → List Seg
  | [] => []
  | (b, w) :: rest => ⟨shareAddr s, b.len, w⟩ :: expectedSegs (s + 1) rest

theorem hasFlag_write (e w : Bool) :
    hasFlag ((if e then 0 else fNEXT) ||| (if w then fWRITE else 0)) fWRITE = w := by
  cases e <;> cases w <;> decide

theorem parseDirect_enc (q : Q) : ∀ (ds : List Nat) (d : Nat) (s : Nat) (bufs : List (Buf × Bool)) (fuel : Nat),
    (∀ x ∈ d :: ds, x < q.n) → Linked q.nextFn d (d :: ds) → EncOk q s (d :: ds) bufs →
    (d :: ds).length ≤ fuel → parseDirect q fuel d = some (expectedSegs s bufs) := by
  intro ds
  induction ds with
  | nil =>
    intro d s bufs fuel hlt hl he hf
    cases bufs with
    | nil => simp [EncOk] at he
    | cons bw bs =>
      obtain ⟨b, w⟩ := bw
      simp only [EncOk] at he
      obtain ⟨e1, e2, e3, e4, e5⟩ := he
      cases bs with
      | cons _ _ => simp [EncOk] at e5
      | nil =>
        cases fuel with
        | zero => simp at hf
        | succ f =>
          have hdn : ¬ q.n ≤ d := by have := hlt d (by simp); omega
          simp only [parseDirect, hdn, if_false, e4, e3]
          have h1 := hasFlag_indirect_direct true w
          have h2 := hasFlag_next true w
          simp only [List.isEmpty_nil, if_true] at *
          simp only [h1, h2, Bool.false_eq_true, if_false, Bool.not_true]
          simp [segOf, expectedSegs, e1, e2, e3, e4]
          simpa using hasFlag_write true w
  | cons d2 ds' ih =>
    intro d s bufs fuel hlt hl he hf
    cases bufs with
    | nil => simp [EncOk] at he
    | cons bw bs =>
      obtain ⟨b, w⟩ := bw
      simp only [EncOk] at he
      obtain ⟨e1, e2, e3, e4, e5⟩ := he
      cases fuel with
      | zero => simp at hf
      | succ f =>
        have hdn : ¬ q.n ≤ d := by have := hlt d (by simp); omega
        have hnext : (q.get d).next = d2 := by
          have := hl.2
          simp only [Linked] at this
          exact this.1
        have ih' := ih d2 (s + 1) bs f (fun x hx => hlt x (by simp [hx]))
          (by have := hl.2; rw [show q.nextFn d = d2 from hnext] at this; exact this) e5
          (by simp at hf ⊢; omega)
        simp only [parseDirect, hdn, if_false, e4, e3]
        have h1 := hasFlag_indirect_direct false w
        have h2 := hasFlag_next false w
        simp only [List.isEmpty_cons, Bool.false_eq_true, if_false] at *
        simp only [h1, h2, Bool.false_eq_true, if_false, Bool.not_false, if_true, hnext, ih', Option.map_some]
        simp [segOf, expectedSegs, e1, e2, e3]
        simpa using hasFlag_write false w

theorem orderOk_expected (s : Nat) (ins outs : List Buf) : orderOk (expectedSegs s (tagBufs ins outs)) = true := by
  unfold tagBufs
  induction ins generalizing s with
  | nil =>
    simp only [List.map_nil, List.nil_append]
    induction outs generalizing s with
    | nil => rfl
    | cons o os ih =>
      simp only [List.map_cons, expectedSegs, orderOk, if_true, Bool.and_eq_true, List.all_eq_true]
      refine ⟨?_, ih (s + 1)⟩
      intro x hx
      clear ih
      induction os generalizing s with
      | nil => simp [expectedSegs] at hx
      | cons o2 os2 ih2 =>
        simp only [List.map_cons, expectedSegs, List.mem_cons] at hx
        rcases hx with hx | hx
        · rw [hx]
        · exact ih2 (s + 1) hx
  | cons i is ih =>
    simp only [List.map_cons, List.cons_append, expectedSegs, orderOk, Bool.false_eq_true, if_false, Bool.true_and]
    exact ih (s + 1)

/-- **Every outstanding direct chain, as the device parses it from device-visible memory, is a
valid chain describing exactly the caller's buffers** (addresses returned by `share`, lengths,
directions, inputs before outputs). -/
theorem direct_chain_parses (q : Q) (h : Inv q) (c : Chain) (hc : c ∈ q.out) (hdir : c.table = none) :
    devParse q c.head = some (expectedSegs c.firstShare (tagBufs c.ins c.outs)) := by
  have hok := h.chains c hc
  unfold ChainOk at hok
  rw [hdir] at hok
  obtain ⟨hne, hlk, henc⟩ := hok
  obtain ⟨free, _, hnd, hlt, hlen⟩ := h.free
  cases hds : c.descs with
  | nil => exact absurd hds hne
  | cons d ds =>
    rw [hds] at hlk henc
    have hhd : c.head = d := hlk.1
    have hmem : ∀ x ∈ d :: ds, x < q.n := by
      intro x hx
      exact hlt x (by simp only [List.mem_append]; right; exact mem_chainDescs hc (hds ▸ hx))
    have hlenle : (d :: ds).length ≤ q.n := by
      have h1 : (chainDescs q.out).length ≤ q.n := by
        simp only [List.length_append] at hlen; omega
      have h2 : c.descs.length ≤ (chainDescs q.out).length := by
        have hheads : ∀ x ∈ q.out, x.head ∈ x.descs := fun x hx => chainOk_head_mem q x (h.chains x hx)
        have := (filter_head_perm q.out c hc (List.nodup_append.mp hnd).2.1 hheads).length_eq
        rw [this]; simp
      rw [hds] at h2; omega
    have hp := parseDirect_enc q ds d c.firstShare (tagBufs c.ins c.outs) q.n hmem (hhd ▸ hlk) henc hlenle
    have hdn : ¬ q.n ≤ c.head := by rw [hhd]; have := hmem d (by simp); omega
    -- the head is not an indirect descriptor
    have hflag : hasFlag (q.dv c.head).flags fINDIRECT = false := by
      rw [hhd]
      cases hb : tagBufs c.ins c.outs with
      | nil => rw [hb] at henc; simp [EncOk] at henc
      | cons bw bs =>
        obtain ⟨b, w⟩ := bw
        rw [hb] at henc
        simp only [EncOk] at henc
        rw [henc.2.2.2.1, henc.2.2.1]
        exact hasFlag_indirect_direct _ _
    unfold devParse
    simp only [hdn, if_false, hflag, Bool.false_eq_true]
    rw [hhd, hp]
    simp [orderOk_expected]

/-! ### indirect chains -/

theorem mkTable_getElem (ctr : Nat) : ∀ (bufs : List (Buf × Bool)) (j i : Nat),
    (mkTable ctr j bufs)[i]? = (bufs[i]?).map fun bw =>
      ({ addr := shareAddr (ctr + (j + i)), len := bw.1.len,
         flags := (if i + 1 = bufs.length then 0 else fNEXT) ||| (if bw.2 then fWRITE else 0),
         next := j + i + 1 } : Desc) := by
  intro bufs
  induction bufs with
  | nil => intro j i; simp [mkTable]
  | cons bw rest ih =>
    intro j i
    obtain ⟨b, w⟩ := bw
    cases i with
    | zero =>
      cases rest with
      | nil => simp [mkTable]
      | cons r rs => simp [mkTable]
    | succ i' =>
      simp only [mkTable, List.getElem?_cons_succ, ih (j + 1) i', List.length_cons]
      have e1 : j + 1 + i' = j + (i' + 1) := by omega
      have e2 : (i' + 1 + 1 = rest.length + 1) = (i' + 1 = rest.length) := by simp
      simp only [e1, e2]

theorem parseTable_mkTable (ctr : Nat) (bufs : List (Buf × Bool)) :
    ∀ (m i fuel : Nat), i + m = bufs.length → 0 < m → m ≤ fuel →
      parseTable (mkTable ctr 0 bufs) fuel i = some (expectedSegs (ctr + i) (bufs.drop i)) := by
  intro m
  induction m with
  | zero => intro i fuel _ h; omega
  | succ m' ih =>
    intro i fuel him _ hf
    cases fuel with
    | zero => omega
    | succ f =>
      have hi : i < bufs.length := by omega
      have hget := mkTable_getElem ctr bufs 0 i
      rw [List.getElem?_eq_getElem hi] at hget
      simp only [Option.map_some, Nat.zero_add] at hget
      generalize hbw : bufs[i] = bw at hget
      obtain ⟨b, w⟩ := bw
      have hdrop : bufs.drop i = (b, w) :: bufs.drop (i + 1) := by
        rw [List.drop_eq_getElem_cons hi, hbw]
      simp only [parseTable, hget]
      by_cases hlast : i + 1 = bufs.length
      · have hm : m' = 0 := by omega
        simp only [hlast, if_true]
        have h1 := hasFlag_indirect_direct true w
        have h2 := hasFlag_next true w
        simp only [if_true] at h1 h2
        simp only [h1, h2, Bool.false_eq_true, if_false, Bool.not_true]
        rw [hdrop]
        have : bufs.drop (i + 1) = [] := by rw [List.drop_eq_nil_iff]; omega
        rw [this]
        simp [segOf, expectedSegs]
        simpa using hasFlag_write true w
      · simp only [hlast, if_false]
        have h1 := hasFlag_indirect_direct false w
        have h2 := hasFlag_next false w
        simp only [Bool.false_eq_true, if_false] at h1 h2
        simp only [h1, h2, Bool.false_eq_true, if_false, Bool.not_false, if_true]
        have a1 : i + 1 + m' = bufs.length := by omega
        have a2 : 0 < m' := by omega
        have a3 : m' ≤ f := by omega
        rw [ih (i + 1) f a1 a2 a3, hdrop]
        simp [segOf, expectedSegs]
        refine ⟨?_, by rw [Nat.add_assoc]⟩
        simpa using hasFlag_write false w

/-- Every outstanding indirect chain parses to exactly the caller's buffers as well: the head
descriptor carries `INDIRECT` and no other flag, its length is `16·k`, and the table is a
well-formed chain `0 → 1 → … → k-1`. -/
theorem indirect_chain_parses (q : Q) (h : Inv q) (c : Chain) (hc : c ∈ q.out) (tid : Nat)
    (hind : c.table = some tid) :
    devParse q c.head = some (expectedSegs c.firstShare (tagBufs c.ins c.outs)) := by
  have hok := h.chains c hc
  unfold ChainOk at hok
  rw [hind] at hok
  obtain ⟨k1, k2, k3, k4, k5, k6, k7, k8⟩ := hok
  obtain ⟨free, _, hnd, hlt, hlen⟩ := h.free
  have hhm : c.head ∈ c.descs := by rw [k1]; simp
  have hhn : c.head < q.n := hlt c.head (by simp only [List.mem_append]; right; exact mem_chainDescs hc hhm)
  have hdn : ¬ q.n ≤ c.head := by omega
  unfold devParse
  simp only [hdn, if_false, k7, k6, k8, k5, mkTable_length]
  have f1 : hasFlag fINDIRECT fINDIRECT = true := by decide
  have f2 : hasFlag fINDIRECT fNEXT = false := by decide
  have f3 : hasFlag fINDIRECT fWRITE = false := by decide
  simp only [f1, f2, f3, Bool.or_self, Bool.false_eq_true, if_false, if_true, true_and]
  have hpos : 0 < (tagBufs c.ins c.outs).length := by omega
  simp only [hpos, if_true]
  have := parseTable_mkTable c.firstShare (tagBufs c.ins c.outs) (tagBufs c.ins c.outs).length 0
    (tagBufs c.ins c.outs).length (by simp) hpos (Nat.le_refl _)
  simp only [Nat.add_zero, List.drop_zero] at this
  rw [this]
  simp [orderOk_expected]

/-- **Whenever the driver makes buffers available**, in any reachable state and for any buffers
(non-empty, as the API demands): the submission is accepted or refused without effect; if
accepted, the new ring entry (the slot designated by the previous available index) holds the
returned token, and the chain the device reaches from it is a valid chain whose elements give, in
order, exactly the device address, length and direction of each buffer supplied; an indirect table
is used only if enabled; and no descriptor belongs to two outstanding chains. -/
theorem add_publishes (q : Q) (h : Inv q) (ins outs : List Buf) (hz : ∀ b ∈ ins ++ outs, b.len ≠ 0)
    (q' : Q) (t : Nat) (evs : List Ev) (hadd : q.add ins outs = (q', .token t, evs)) :
    Inv q'
      ∧ devParse q' t = some (expectedSegs q.shareCtr (tagBufs ins outs))
      ∧ q'.availRing = q.availRing.setIfInBounds (slotOf q.n q.availIdx) t
      ∧ q'.availIdxMem = (q.availIdx + 1) % U16
      ∧ (chainDescs q'.out).Nodup := by
  have hinv : Inv q' := by
    have := (add_inv q ins outs h hz).1
    rw [hadd] at this
    exact this
  obtain ⟨_, _, _, _, _, c, hout, hct, hci, hco⟩ := VirtioVerif.Props.C03.add_ok q q' ins outs t evs hadd
  have hcm : c ∈ q'.out := by rw [hout]; simp
  obtain ⟨q1, c', evs1, hb, hq, _, _, _, _⟩ := add_token_inv hadd
  obtain ⟨_, _, hfs⟩ := buildChain_events _ _ _ _ _ _ hb
  have hcc : c = c' := by
    have f : Frame q q1 := frame_buildChain _ _ _ _ hb
    rw [hq] at hout
    simp only [publish, f.out] at hout
    have := List.append_cancel_left hout
    simpa using this.symm
  obtain ⟨r1, r2, _⟩ := VirtioVerif.Props.C01.add_fills_designated_slot q q' ins outs t evs hadd
  refine ⟨hinv, ?_, r1, r2, ?_⟩
  · rw [← hct, ← hci, ← hco, ← hfs, ← hcc]
    cases htab : c.table with
    | none => exact direct_chain_parses q' hinv c hcm htab
    | some tid => exact indirect_chain_parses q' hinv c hcm tid htab
  · obtain ⟨free, _, hnd, _, _⟩ := hinv.free
    exact (List.nodup_append.mp hnd).2.1

end VirtioVerif.Props.C01Inv
