import VirtioVerif.Model.PciBus
/-!
# C12 — PCI bus helpers size BARs without side effects and address config space uniquely

Reference (`Spec`) side: `PciBus.Fn`, `BarReg`, `BarDecl`, `mkFn` — a PCI function written from the
PCI specification.  Model side: `barInfo`, `bars`, `camOffset`, `enumerate`, `capWalk`.

Main statements (all for arbitrary states; no bound on anything that is not bounded by the type in the code):
* `barInfo_decodes`      decoded kind / address / prefetchability / size = the declaration, every kind,
                         exponent, address, slot 0..5, **every** command and status value;
* `barInfo_restores`     final configuration state = initial state (command + all BARs), on every path
                         including the `InvalidBarType` paths (64-bit BAR in slot 5: nothing was written);
* `barInfo_trace_replays`, `barInfo_decode_off`  the access list is an execution of the reference
                         function and every BAR write in it happens with both decode bits clear;
* `bars_restores`, `bars_decode_off`             the same for the `bars` loop;
* `cam_*`                offsets in the window, word aligned, injective, defined exactly on valid tuples;
* `enumerate_exact`      enumeration = exactly the present functions with decoded identity;
* `capWalk_chain`, `capWalk_length_le`           a well-formed list is yielded once, in order; any
                         list (cyclic, malformed) yields at most `TTL = 48` entries (termination is by
                         construction: the walk is structurally recursive on the time-to-live).

Assumption made explicit in the statements: `CmdOk f.cmd` — the function implements only the
command bits the PCI specification defines (bits 7 and 11–15 hard-wired to zero).  `bar_info`
restores the command register through `Command::from_bits_truncate`, so a function with a
writable reserved bit set *and* decoding enabled would get that bit cleared.
-/
namespace VirtioVerif.Props.C12
open VirtioVerif VirtioVerif.PciBus

theorem ones_div (e : Nat) (h : e ≤ 32) : 4294967295 / 2 ^ e * 2 ^ e = 4294967296 - 2 ^ e := by
  have : ∀ e, e < 33 → 4294967295 / 2 ^ e * 2 ^ e = 4294967296 - 2 ^ e := by decide
  exact this e (by omega)

theorem clear_low (a f s : Nat) (ha : a % s = 0) (hf : f < s) : (a + f) / s * s = a := by
  have hs : 0 < s := by omega
  obtain ⟨q, rfl⟩ := Nat.dvd_of_mod_eq_zero ha
  rw [Nat.mul_add_div hs, Nat.div_eq_of_lt hf, Nat.add_zero, Nat.mul_comm]

theorem BarReg.restore (r : BarReg) (h : r.Ok) (d : Nat) : (r.write d).write r.read = r := by
  obtain ⟨h1, h2, h3, h4⟩ := h
  cases r with
  | mk e fl v =>
    simp only [BarReg.write, BarReg.read] at *
    congr 1
    exact clear_low v fl (2 ^ e) h3 h2

theorem BarReg.read_ones (r : BarReg) (h : r.Ok) : (r.write 0xffffffff).read = W32 - 2 ^ r.exp + r.flags := by
  obtain ⟨h1, h2, h3, h4⟩ := h
  simp only [BarReg.write, BarReg.read, W32]
  rw [ones_div _ h1]
theorem Fn.ext' {f g : Fn} (h1 : f.cmd = g.cmd) (h2 : f.status = g.status) (h3 : ∀ i, f.bars i = g.bars i)
    (h4 : ∀ o, f.other o = g.other o) : f = g := by
  cases f; cases g; simp only at h1 h2; subst h1 h2
  have := funext h3; have := funext h4; simp_all

theorem isBarOff_slot (i : Nat) (h : i < 6) : isBarOff (16 + 4 * i) = true := by
  simp [isBarOff]; omega

theorem read_bar (f : Fn) (i : Nat) (h : i < 6) : f.read (16 + 4 * i) = (f.bars i).read := by
  have h4 : ¬ (16 + 4 * i = 4) := by omega
  have hi : (16 + 4 * i - 16) / 4 = i := by omega
  simp [Fn.read, h4, isBarOff_slot i h, hi]

theorem write_bar (f : Fn) (i d : Nat) (h : i < 6) : f.write (16 + 4 * i) d = f.setBar i ((f.bars i).write d) := by
  have h4 : ¬ (16 + 4 * i = 4) := by omega
  have hi : (16 + 4 * i - 16) / 4 = i := by omega
  simp [Fn.write, h4, isBarOff_slot i h, hi]

theorem read_4 (f : Fn) : f.read 4 = f.status * W16 + f.cmd := by simp [Fn.read]
theorem write_4 (f : Fn) (d : Nat) : f.write 4 d = f.setCmdStatus d := by simp [Fn.write]

/-- the command register holds only implemented bits -/
def CmdOk (c : Nat) : Prop := cmdWritable c = c

theorem setCmd_small (f : Fn) (d : Nat) (hd : d < W16) (hc : cmdWritable d = d) :
    f.setCmdStatus d = { f with cmd := d } := by
  have : d / W16 = 0 := Nat.div_eq_of_lt hd
  have h2 : d % W16 = d := Nat.mod_eq_of_lt hd
  simp [Fn.setCmdStatus, this, h2, hc]


theorem cmdOk_facts (c : Nat) (h : CmdOk c) : c < 2048 ∧ truncCmd c = c ∧ cmdWritable (c - c % 4) = c - c % 4 := by
  unfold CmdOk cmdWritable at h; unfold truncCmd cmdWritable
  refine ⟨by omega, by omega, by omega⟩

theorem setBar_bars (f : Fn) (i : Nat) (r : BarReg) (j : Nat) : (f.setBar i r).bars j = if j = i then r else f.bars j := rfl
theorem setBar_cmd (f : Fn) (i : Nat) (r : BarReg) : (f.setBar i r).cmd = f.cmd := rfl
theorem setBar_status (f : Fn) (i : Nat) (r : BarReg) : (f.setBar i r).status = f.status := rfl
theorem setBar_other (f : Fn) (i : Nat) (r : BarReg) : (f.setBar i r).other = f.other := rfl

/-- **No side effects.** On every path (success, `InvalidBarType` before or after sizing) the
    function's configuration state after `bar_info` is exactly the state before: command register,
    status, all six BAR registers, everything else. -/
theorem barInfo_restores (f : Fn) (slot : Nat) (hs : slot < 6) (hb : ∀ i, i < 6 → (f.bars i).Ok)
    (hc : CmdOk f.cmd) : (barInfo f slot).fin = f := by
  obtain ⟨c1, c2, c3⟩ := cmdOk_facts _ hc
  have hsc : (f.status * W16 + f.cmd) % W16 = f.cmd := by simp only [W16]; omega
  have hp : ¬ (255 < 16 + 4 * slot) := by omega
  have hdl : f.cmd - f.cmd % 4 < W16 := by simp only [W16]; omega
  have hcl : f.cmd < W16 := by simp only [W16]; omega
  have hs1 : 16 + 4 * slot + 4 = 16 + 4 * (slot + 1) := by omega
  by_cases h6 : (f.bars slot).read % 8 = 4
  · by_cases h5 : 5 ≤ slot
    · simp [barInfo, hp, read_bar _ _ hs, h6, h5]
    · have hs5 : slot + 1 < 6 := by omega
      have hne : ¬ (slot = slot + 1) := by omega
      have r1 := BarReg.restore _ (hb slot hs) 4294967295
      have r2 := BarReg.restore _ (hb (slot + 1) hs5) 4294967295
      by_cases hd : f.cmd - f.cmd % 4 = f.cmd
      · simp only [barInfo, hp, if_false, read_4, hsc, c2, hs1, read_bar _ _ hs, h6, h5, and_false, hd,
          ne_eq, not_true_eq_false, if_true, write_bar _ _ _ hs, write_bar _ _ _ hs5, read_bar _ _ hs5, setBar_bars, hne]
        apply Fn.ext' <;> simp only [setBar_bars, setBar_cmd, setBar_status, setBar_other, implies_true]
        intro i
        by_cases e1 : i = slot
        · subst e1; simp [hne, r1]
        · by_cases e2 : i = slot + 1
          · subst e2; simp [r2]
          · simp [e1, e2]
      · simp only [barInfo, hp, if_false, read_4, hsc, c2, hs1, read_bar _ _ hs, h6, h5, and_false, hd,
          ne_eq, not_false_eq_true, if_true, write_4, setCmd_small _ _ hdl c3, setCmd_small _ _ hcl hc,
          write_bar _ _ _ hs, write_bar _ _ _ hs5, read_bar _ _ hs5, setBar_bars, hne]
        apply Fn.ext' <;> simp only [setBar_bars, setBar_cmd, setBar_status, setBar_other, implies_true]
        intro i
        by_cases e1 : i = slot
        · subst e1; simp [hne, r1]
        · by_cases e2 : i = slot + 1
          · subst e2; simp [r2]
          · simp [e1, e2]
  · have r1 := BarReg.restore _ (hb slot hs) 4294967295
    by_cases hd : f.cmd - f.cmd % 4 = f.cmd
    · simp only [barInfo, hp, if_false, read_4, hsc, c2, hs1, read_bar _ _ hs, h6, false_and, hd,
        ne_eq, not_true_eq_false, if_true, write_bar _ _ _ hs, setBar_bars]
      apply Fn.ext' <;> simp only [setBar_bars, setBar_cmd, setBar_status, setBar_other, implies_true]
      intro i
      by_cases e1 : i = slot
      · subst e1; simp [r1]
      · simp [e1]
    · simp only [barInfo, hp, if_false, read_4, hsc, c2, hs1, read_bar _ _ hs, h6, false_and, hd,
        ne_eq, not_false_eq_true, if_true, write_4, setCmd_small _ _ hdl c3, setCmd_small _ _ hcl hc,
        write_bar _ _ _ hs, setBar_bars]
      apply Fn.ext' <;> simp only [setBar_bars, setBar_cmd, setBar_status, setBar_other, implies_true]
      intro i
      by_cases e1 : i = slot
      · subst e1; simp [r1]
      · simp [e1]

/-- The access list of `bar_info` is an execution of the reference function from the initial state
    (every read returns what the function holds at that moment) ending in the reported final state. -/
theorem barInfo_trace_replays (f : Fn) (slot : Nat) :
    replay f (barInfo f slot).trace = some (barInfo f slot).fin := by
  by_cases hp : 255 < 16 + 4 * slot
  · simp [barInfo, hp, replay]
  · by_cases h6 : f.read (16 + 4 * slot) % 8 = 4 <;> by_cases h5 : 5 ≤ slot <;>
    by_cases hd : truncCmd (f.read 4 % W16) - truncCmd (f.read 4 % W16) % 4 = truncCmd (f.read 4 % W16) <;>
    simp [barInfo, hp, replay, h6, h5, hd]

theorem write_cmd_of_ne (f : Fn) (off d : Nat) (h : off ≠ 4) : (f.write off d).cmd = f.cmd := by
  unfold Fn.write; simp only [h, if_false]; split <;> rfl

theorem truncCmd_mod4 (v : Nat) : truncCmd v % 4 = v % 4 := by unfold truncCmd; omega
theorem cmdWritable_mod4 (v : Nat) : cmdWritable v % 4 = v % 4 := by unfold cmdWritable; omega

/-- **Decode disabled while sizing**: every write to a BAR register happens while both decode bits of
    the command register are clear — for every function state, slot and path. -/
theorem barInfo_decode_off (f : Fn) (slot : Nat) :
    decodeOffAtBarWrites f (barInfo f slot).trace = true := by
  by_cases hp : 255 < 16 + 4 * slot
  · simp [barInfo, hp, decodeOffAtBarWrites]
  · have o1 : 16 + 4 * slot ≠ 4 := by omega
    have o2 : 16 + 4 * slot + 4 ≠ 4 := by omega
    have hb4 : isBarOff 4 = false := by decide
    have k : ∀ v, (v - v % 4) % W16 % 4 = 0 := by intro v; simp only [W16]; omega
    have k2 : ∀ v, v - v % 4 = v → v % 4 = 0 := by intro v h; omega
    have k3 : f.read 4 % W16 % 4 = f.cmd % 4 := by simp only [read_4, W16]; omega
    by_cases h6 : f.read (16 + 4 * slot) % 8 = 4 <;> by_cases h5 : 5 ≤ slot <;>
    by_cases hd : truncCmd (f.read 4 % W16) - truncCmd (f.read 4 % W16) % 4 = truncCmd (f.read 4 % W16)
    all_goals
      simp only [barInfo, hp, decodeOffAtBarWrites, h6, h5, hd, ne_eq, not_true_eq_false, not_false_eq_true, if_true, if_false,
        and_true, and_false, false_and, true_and,
        List.append_nil, List.cons_append, List.nil_append, hb4, write_cmd_of_ne _ _ _ o1, write_cmd_of_ne _ _ _ o2,
        Bool.not_false, Bool.true_or, Bool.true_and, Bool.and_true, write_4, Fn.setCmdStatus, cmdWritable_mod4, k]
    all_goals first
      | (have := k2 _ hd; rw [truncCmd_mod4, k3] at this; simp [this])
      | simp
theorem memType_congr (a fl : Nat) (ha : a % 16 = 0) (hfl : fl < 16) : memType (a + fl) = memType fl := by
  unfold memType
  have : (a + fl) / 2 % 4 = fl / 2 % 4 := by omega
  rw [this]

theorem decode32 (a s fl : Nat) (ha : a % 16 = 0) (haw : a < W32) (hs16 : s % 16 = 0) (hs1 : 16 ≤ s)
    (hs2 : s ≤ 2147483648) (hfl : fl < 16) (hfl2 : fl % 2 = 0) (hfl8 : fl % 8 ≠ 4) (t u : Nat) :
    decode (a + fl) (W32 - s + fl) t u =
      match memType fl with
      | some ty => .ok (some (.mem ty (fl / 8 % 2 == 1) a s))
      | none => .error .invalidBarType := by
  simp only [W32] at *
  have h1 : ¬ ((a + fl) % 2 = 1) := by omega
  have h2 : ¬ ((a + fl) % 8 = 4) := by omega
  have h3 : ¬ (4294967296 - s + fl = 0) := by omega
  have h4 : ¬ (4294967296 - s + fl + 4294967295 * 4294967296 = 0) := by omega
  have h5 : (W64 - (4294967296 - s + fl + 4294967295 * 4294967296 - (4294967296 - s + fl + 4294967295 * 4294967296) % 16)) % W64 = s := by
    simp only [W64]; omega
  have h6 : (a + fl) / 8 % 2 = fl / 8 % 2 := by omega
  have h7 : a + fl - (a + fl) % 16 + 0 * 4294967296 = a := by omega
  simp only [decode, W32, h1, h2, h3, h4, h5, h6, h7, if_false, memType_congr a fl ha hfl]
  try rfl

theorem decodeIo (a s : Nat) (ha : a % 4 = 0) (haw : a < W32) (hs4 : s % 4 = 0) (hs1 : 4 ≤ s)
    (hs2 : s ≤ 2147483648) (t u : Nat) :
    decode (a + 1) (W32 - s + 1) t u = .ok (some (.io a s)) := by
  simp only [W32] at *
  have h1 : (a + 1) % 2 = 1 := by omega
  have h2 : ¬ ((a + 1) % 8 = 4) := by omega
  have h3 : ¬ (4294967296 - s + 1 = 0) := by omega
  have h4 : ¬ (4294967296 - s + 1 + 4294967295 * 4294967296 = 0) := by omega
  have h5 : (W64 - (4294967296 - s + 1 + 4294967295 * 4294967296 - (4294967296 - s + 1 + 4294967295 * 4294967296) % 4)) % W64 % 4294967296 = s := by
    simp only [W64]; omega
  have h7 : a + 1 - (a + 1) % 4 = a := by omega
  simp only [decode, W32, h1, h2, h3, h4, h5, h7, if_false, if_true]

theorem decode64lo (al ah s fl : Nat) (ha : al % 16 = 0) (haw : al < W32) (hs16 : s % 16 = 0) (hs1 : 16 ≤ s)
    (hs2 : s ≤ 2147483648) (hfl : fl = 4 ∨ fl = 12) :
    decode (al + fl) (W32 - s + fl) ah 4294967295 = .ok (some (.mem .w64 (fl / 8 % 2 == 1) (al + ah * W32) s)) := by
  simp only [W32] at *
  have h1 : ¬ ((al + fl) % 2 = 1) := by omega
  have h2 : (al + fl) % 8 = 4 := by omega
  have h4 : ¬ (4294967296 - s + fl + 4294967295 * 4294967296 = 0) := by omega
  have h5 : (W64 - (4294967296 - s + fl + 4294967295 * 4294967296 - (4294967296 - s + fl + 4294967295 * 4294967296) % 16)) % W64 = s := by
    simp only [W64]; omega
  have h6 : (al + fl) / 8 % 2 = fl / 8 % 2 := by omega
  have h7 : al + fl - (al + fl) % 16 = al := by omega
  have h8 : memType (al + fl) = some .w64 := by
    unfold memType
    have : (al + fl) / 2 % 4 = 2 := by omega
    simp only [this]
  simp only [decode, W32, h1, h2, h4, h5, h6, h7, h8, if_false, if_true]

theorem decode64hi (ah t fl : Nat) (ht1 : 1 ≤ t) (ht2 : t ≤ 2147483648) (hfl : fl = 4 ∨ fl = 12) :
    decode fl fl ah (W32 - t) = .ok (some (.mem .w64 (fl / 8 % 2 == 1) (ah * W32) (t * W32))) := by
  simp only [W32] at *
  have h1 : ¬ (fl % 2 = 1) := by omega
  have h2 : fl % 8 = 4 := by omega
  have h4 : ¬ (fl + (4294967296 - t) * 4294967296 = 0) := by omega
  have h5 : (W64 - (fl + (4294967296 - t) * 4294967296 - (fl + (4294967296 - t) * 4294967296) % 16)) % W64 = t * 4294967296 := by
    simp only [W64]; omega
  have h7 : fl - fl % 16 = 0 := by omega
  have h8 : memType fl = some .w64 := by
    rcases hfl with h | h <;> subst h <;> rfl
  simp only [decode, W32, h1, h2, h4, h5, h7, h8, if_false, if_true, Nat.zero_add]


/-- what the declaration of a BAR says `bar_info` must report -/
def expected (d : BarDecl) (slot : Nat) : Except BErr (Option BarInfo) :=
  match d.kind with
  | .none => .ok none
  | .io => .ok (some (.io d.addr (2 ^ d.exp)))
  | .mem32 => .ok (some (.mem .w32 d.pf d.addr (2 ^ d.exp)))
  | .below1M => .ok (some (.mem .below1M d.pf d.addr (2 ^ d.exp)))
  | .mem64 => if slot < 5 then .ok (some (.mem .w64 d.pf d.addr (2 ^ d.exp))) else .error .invalidBarType
  | .memRsvd => .error .invalidBarType

theorem setCmdStatus_bars (f : Fn) (d : Nat) : (f.setCmdStatus d).bars = f.bars := rfl
theorem setCmdStatus_setBar (f : Fn) (d i : Nat) (r : BarReg) :
    (f.setCmdStatus d).setBar i r = (f.setBar i r).setCmdStatus d := rfl
theorem setCmdStatus_read (f : Fn) (d off : Nat) (h : off ≠ 4) : (f.setCmdStatus d).read off = f.read off := by
  simp [Fn.read, h, Fn.setCmdStatus]
theorem setCmdStatus_write (f : Fn) (d off v : Nat) (h : off ≠ 4) :
    (f.setCmdStatus d).write off v = (f.write off v).setCmdStatus d := by
  simp only [Fn.write, h, if_false]
  split
  · rfl
  · rfl

/-- the four values `bar_info` reads do not depend on the command register path -/
theorem barInfo_res (f : Fn) (slot : Nat) (hs : slot < 6)
    (h5 : ¬ ((f.bars slot).read % 8 = 4 ∧ 5 ≤ slot)) :
    (barInfo f slot).res =
      decode (f.bars slot).read ((f.bars slot).write 4294967295).read
        ((f.setBar slot ((f.bars slot).write 4294967295)).read (16 + 4 * slot + 4))
        (((f.setBar slot ((f.bars slot).write 4294967295)).write (16 + 4 * slot + 4) 4294967295).read (16 + 4 * slot + 4)) := by
  have hp : ¬ (255 < 16 + 4 * slot) := by omega
  have o2 : 16 + 4 * slot + 4 ≠ 4 := by omega
  by_cases hd : truncCmd (f.read 4 % W16) - truncCmd (f.read 4 % W16) % 4 = truncCmd (f.read 4 % W16)
  · simp only [barInfo, hp, if_false, read_bar _ _ hs, h5, hd, ne_eq, not_true_eq_false, write_bar _ _ _ hs,
      setBar_bars, if_true]
  · simp only [barInfo, hp, if_false, read_bar _ _ hs, h5, hd, ne_eq, not_false_eq_true, write_bar _ _ _ hs,
      setBar_bars, if_true, write_4, setCmdStatus_bars, setCmdStatus_setBar, setCmdStatus_write _ _ _ _ o2,
      setCmdStatus_read _ _ _ o2]

theorem pow_facts_mem : ∀ e, e < 32 → 4 ≤ e → (2 ^ e % 16 = 0 ∧ 16 ≤ 2 ^ e ∧ 2 ^ e ≤ 2147483648) := by decide
theorem pow_facts_io : ∀ e, e < 32 → 2 ≤ e → (2 ^ e % 4 = 0 ∧ 4 ≤ 2 ^ e ∧ 2 ^ e ≤ 2147483648) := by decide
theorem pow_facts_hi : ∀ e, e < 32 → (1 ≤ 2 ^ e ∧ 2 ^ e ≤ 2147483648) := by decide

theorem mod_of_dvd_mod (a m k : Nat) (hk : m % k = 0) (ha : a % m = 0) : a % k = 0 := by
  have := Nat.mod_mod_of_dvd a (Nat.dvd_of_mod_eq_zero hk)
  rw [ha] at this; simpa using this.symm


theorem W32_pow : W32 = 2 ^ 32 := by decide

theorem unimpl_write_read (d : Nat) (hd : d < W32) : (BarReg.unimpl.write d).read = 0 := by
  simp only [BarReg.unimpl, BarReg.write, BarReg.read]
  have : d / 2 ^ 32 = 0 := Nat.div_eq_of_lt (by rw [← W32_pow]; exact hd)
  simp [this]

theorem decode_none (t u : Nat) : decode 0 0 t u = .ok none := by
  simp [decode]

theorem res_mem32like (f : Fn) (slot : Nat) (hs : slot < 6) (fl e a : Nat) (hfl : fl < 16) (hfl2 : fl % 2 = 0)
    (hfl8 : fl % 8 ≠ 4) (h1 : 4 ≤ e) (h2 : e ≤ 31) (h3 : a % 2 ^ e = 0) (h4 : a < W32)
    (hlow : f.bars slot = ⟨e, fl, a⟩) :
    (barInfo f slot).res =
      match memType fl with
      | some ty => .ok (some (.mem ty (fl / 8 % 2 == 1) a (2 ^ e)))
      | none => .error .invalidBarType := by
  obtain ⟨p1, p2, p3⟩ := pow_facts_mem e (by omega) h1
  have ha : a % 16 = 0 := mod_of_dvd_mod a _ 16 p1 h3
  have hok : (BarReg.mk e fl a).Ok := ⟨by simp only; omega, by simp only; omega, h3, h4⟩
  have h5 : ¬ ((f.bars slot).read % 8 = 4 ∧ 5 ≤ slot) := by
    rw [hlow]; simp only [BarReg.read]; omega
  rw [barInfo_res f slot hs h5, hlow, BarReg.read_ones _ hok]
  simp only [BarReg.read]
  exact decode32 a (2 ^ e) fl ha h4 p1 p2 p3 hfl hfl2 hfl8 _ _

theorem barInfo_res_err (f : Fn) (slot : Nat) (hs : slot < 6)
    (h5 : (f.bars slot).read % 8 = 4 ∧ 5 ≤ slot) : (barInfo f slot).res = .error .invalidBarType := by
  have hp : ¬ (255 < 16 + 4 * slot) := by omega
  simp [barInfo, hp, read_bar _ _ hs, h5.1, h5.2]

theorem res_mem64 (f : Fn) (slot : Nat) (hs : slot < 5) (lo hi : BarReg)
    (hlow : f.bars slot = lo) (hhigh : f.bars (slot + 1) = hi) (h4 : lo.read % 8 = 4) :
    (barInfo f slot).res = decode lo.read (lo.write 4294967295).read hi.read (hi.write 4294967295).read := by
  have hs1 : 16 + 4 * slot + 4 = 16 + 4 * (slot + 1) := by omega
  have hs6 : slot < 6 := by omega
  have hs5 : slot + 1 < 6 := by omega
  have hne : ¬ (slot + 1 = slot) := by omega
  have h5 : ¬ ((f.bars slot).read % 8 = 4 ∧ 5 ≤ slot) := by omega
  rw [barInfo_res f slot hs6 h5]
  simp only [hs1, read_bar _ _ hs5, write_bar _ _ _ hs5, setBar_bars, hne, if_false, if_true, hlow, hhigh]

theorem pow_split (e : Nat) (h : 32 ≤ e) : 2 ^ e = 2 ^ (e - 32) * W32 := by
  rw [W32_pow, ← Nat.pow_add]; congr 1; omega

/-- **Decoding.** For every declared BAR (every kind, prefetchability, size exponent, assigned
    address), every slot 0..5 and *every* command/status value: `bar_info` reports exactly the
    declaration — kind, address, prefetchability, and size `2^exp` (taken across both halves for a
    64-bit BAR); a 64-bit BAR in the last slot and the reserved memory type give `InvalidBarType`. -/
theorem barInfo_decodes (f : Fn) (slot : Nat) (hs : slot < 6) (d : BarDecl) (hd : d.Ok)
    (hlow : f.bars slot = d.lowReg)
    (hhigh : d.kind = .mem64 → slot < 5 → f.bars (slot + 1) = d.highReg) :
    (barInfo f slot).res = expected d slot := by
  have hs1 : 16 + 4 * slot + 4 = 16 + 4 * (slot + 1) := by omega
  obtain ⟨kind, pf, e, a⟩ := d
  cases kind
  case none =>
    have h5 : ¬ ((f.bars slot).read % 8 = 4 ∧ 5 ≤ slot) := by
      rw [hlow]; simp [BarDecl.lowReg, BarReg.unimpl, BarReg.read]
    rw [barInfo_res f slot hs h5, hlow]
    simp only [BarDecl.lowReg, expected]
    rw [unimpl_write_read _ (by decide)]
    simp [BarReg.unimpl, BarReg.read, decode_none]
  case io =>
    simp only [BarDecl.Ok] at hd
    obtain ⟨h1, h2, h3, h4⟩ := hd
    obtain ⟨p1, p2, p3⟩ := pow_facts_io e (by omega) h1
    have ha4 : a % 4 = 0 := mod_of_dvd_mod a _ 4 p1 h3
    have hok : (BarReg.mk e 1 a).Ok := ⟨by simp only; omega, by simp only; omega, h3, h4⟩
    have hl : f.bars slot = ⟨e, 1, a⟩ := by rw [hlow]; rfl
    have h5 : ¬ ((f.bars slot).read % 8 = 4 ∧ 5 ≤ slot) := by
      rw [hl]; simp only [BarReg.read]; omega
    rw [barInfo_res f slot hs h5, hl, BarReg.read_ones _ hok]
    simp only [BarReg.read, expected]
    exact decodeIo a (2 ^ e) ha4 h4 p1 p2 p3 _ _
  case mem32 =>
    simp only [BarDecl.Ok] at hd
    obtain ⟨h1, h2, h3, h4⟩ := hd
    cases pf
    · have hl : f.bars slot = ⟨e, 0, a⟩ := by rw [hlow]; rfl
      rw [res_mem32like f slot hs 0 e a (by omega) (by omega) (by omega) h1 h2 h3 h4 hl]
      simp [expected, memType]
    · have hl : f.bars slot = ⟨e, 8, a⟩ := by rw [hlow]; rfl
      rw [res_mem32like f slot hs 8 e a (by omega) (by omega) (by omega) h1 h2 h3 h4 hl]
      simp [expected, memType]
  case below1M =>
    simp only [BarDecl.Ok] at hd
    obtain ⟨h1, h2, h3, h4⟩ := hd
    cases pf
    · have hl : f.bars slot = ⟨e, 2, a⟩ := by rw [hlow]; rfl
      rw [res_mem32like f slot hs 2 e a (by omega) (by omega) (by omega) h1 h2 h3 h4 hl]
      simp [expected, memType]
    · have hl : f.bars slot = ⟨e, 10, a⟩ := by rw [hlow]; rfl
      rw [res_mem32like f slot hs 10 e a (by omega) (by omega) (by omega) h1 h2 h3 h4 hl]
      simp [expected, memType]
  case memRsvd =>
    simp only [BarDecl.Ok] at hd
    obtain ⟨h1, h2, h3, h4⟩ := hd
    cases pf
    · have hl : f.bars slot = ⟨e, 6, a⟩ := by rw [hlow]; rfl
      rw [res_mem32like f slot hs 6 e a (by omega) (by omega) (by omega) h1 h2 h3 h4 hl]
      simp [expected, memType]
    · have hl : f.bars slot = ⟨e, 14, a⟩ := by rw [hlow]; rfl
      rw [res_mem32like f slot hs 14 e a (by omega) (by omega) (by omega) h1 h2 h3 h4 hl]
      simp [expected, memType]
  case mem64 =>
    simp only [BarDecl.Ok] at hd
    obtain ⟨h1, h2, h3, h4⟩ := hd
    have hfl : BarDecl.flags ⟨.mem64, pf, e, a⟩ = 4 ∨ BarDecl.flags ⟨.mem64, pf, e, a⟩ = 12 := by
      cases pf <;> simp [BarDecl.flags, pfBit]
    have hpf : (BarDecl.flags ⟨.mem64, pf, e, a⟩ / 8 % 2 == 1) = pf := by
      cases pf <;> simp [BarDecl.flags, pfBit]
    generalize hflg : BarDecl.flags ⟨.mem64, pf, e, a⟩ = fl at hfl hpf
    by_cases he : e < 32
    · obtain ⟨p1, p2, p3⟩ := pow_facts_mem e he h1
      have ha : a % 16 = 0 := mod_of_dvd_mod a _ 16 p1 h3
      have hl : f.bars slot = ⟨e, fl, a % W32⟩ := by rw [hlow]; simp [BarDecl.lowReg, he, hflg]
      have hlo4 : (BarReg.mk e fl (a % W32)).read % 8 = 4 := by
        simp only [BarReg.read, W32]; omega
      have hdvd : W32 % 2 ^ e = 0 := by
        rw [W32_pow]; exact Nat.mod_eq_zero_of_dvd (Nat.pow_dvd_pow 2 (by omega))
      have hmod : a % W32 % 2 ^ e = 0 := by
        rw [Nat.mod_mod_of_dvd a (Nat.dvd_of_mod_eq_zero hdvd)]; exact h3
      have hokl : (BarReg.mk e fl (a % W32)).Ok :=
        ⟨by simp only; omega, by simp only; omega, hmod, Nat.mod_lt _ (by decide)⟩
      by_cases h5s : slot < 5
      · have hh : f.bars (slot + 1) = ⟨0, 0, a / W32⟩ := by rw [hhigh rfl h5s]; simp [BarDecl.highReg, he]
        have hokh : (BarReg.mk 0 0 (a / W32)).Ok :=
          ⟨by simp, by simp, by simp [Nat.mod_one], by simp only [W32, W64] at *; omega⟩
        rw [res_mem64 f slot h5s _ _ hl hh hlo4, BarReg.read_ones _ hokl, BarReg.read_ones _ hokh]
        simp only [BarReg.read, Nat.add_zero, Nat.pow_zero]
        have : W32 - 1 = 4294967295 := by decide
        rw [this, decode64lo (a % W32) (a / W32) (2 ^ e) fl (by simp only [W32]; omega) (Nat.mod_lt _ (by decide)) p1 p2 p3 hfl]
        have : a % W32 + a / W32 * W32 = a := by simp only [W32]; omega
        simp [expected, h5s, this, hpf]
      · have : (f.bars slot).read % 8 = 4 ∧ 5 ≤ slot := ⟨by rw [hl]; exact hlo4, by omega⟩
        rw [barInfo_res_err f slot hs this]
        simp [expected, h5s]
    · have hl : f.bars slot = ⟨32, fl, 0⟩ := by rw [hlow]; simp [BarDecl.lowReg, he, hflg]
      have hlo4 : (BarReg.mk 32 fl 0).read % 8 = 4 := by simp only [BarReg.read]; omega
      by_cases h5s : slot < 5
      · have hh : f.bars (slot + 1) = ⟨e - 32, 0, a / W32⟩ := by rw [hhigh rfl h5s]; simp [BarDecl.highReg, he]
        obtain ⟨q1, q2⟩ := pow_facts_hi (e - 32) (by omega)
        have hsplit := pow_split e (by omega)
        have haW : a % W32 = 0 := by
          apply mod_of_dvd_mod a (2 ^ e) W32 _ h3
          rw [hsplit]; exact Nat.mul_mod_left _ _
        have hhm : a / W32 % 2 ^ (e - 32) = 0 := by
          obtain ⟨q, hq⟩ := Nat.dvd_of_mod_eq_zero h3
          rw [hq, hsplit, Nat.mul_comm (2 ^ (e - 32)) W32, Nat.mul_assoc, Nat.mul_div_cancel_left _ (by decide : 0 < W32)]
          exact Nat.mul_mod_right _ _
        have hokl : (BarReg.mk 32 fl 0).Ok := ⟨by simp, by simp only; omega, by simp, by simp [W32]⟩
        have hokh : (BarReg.mk (e - 32) 0 (a / W32)).Ok :=
          ⟨by simp only; omega, by simp only; omega, hhm, by simp only [W32, W64] at *; omega⟩
        rw [res_mem64 f slot h5s _ _ hl hh hlo4, BarReg.read_ones _ hokl, BarReg.read_ones _ hokh]
        simp only [BarReg.read, Nat.add_zero, Nat.zero_add]
        have : W32 - 2 ^ 32 + fl = fl := by simp [W32]
        rw [this, decode64hi (a / W32) (2 ^ (e - 32)) fl q1 q2 hfl]
        have : a / W32 * W32 = a := by simp only [W32] at *; omega
        simp [expected, h5s, this, hpf, hsplit]
      · have : (f.bars slot).read % 8 = 4 ∧ 5 ≤ slot := ⟨by rw [hl]; exact hlo4, by omega⟩
        rw [barInfo_res_err f slot hs this]
        simp [expected, h5s]

/-! ### register-level well-formedness of declared BARs -/

theorem lowReg_ok (d : BarDecl) (hd : d.Ok) : d.lowReg.Ok := by
  obtain ⟨kind, pf, e, a⟩ := d
  cases kind <;> simp only [BarDecl.Ok] at hd
  case none => simp only [BarDecl.lowReg]; exact ⟨by decide, by decide, by decide, by decide⟩
  case io =>
    obtain ⟨h1, h2, h3, h4⟩ := hd
    obtain ⟨p1, p2, p3⟩ := pow_facts_io e (by omega) h1
    exact ⟨by simp only [BarDecl.lowReg]; omega, by simp only [BarDecl.lowReg, BarDecl.flags]; omega, h3, h4⟩
  case mem64 =>
    obtain ⟨h1, h2, h3, h4⟩ := hd
    have hfl : BarDecl.flags ⟨.mem64, pf, e, a⟩ < 16 := by cases pf <;> simp [BarDecl.flags, pfBit]
    by_cases he : e < 32
    · obtain ⟨p1, p2, p3⟩ := pow_facts_mem e he h1
      have hdvd : W32 % 2 ^ e = 0 := by
        rw [W32_pow]; exact Nat.mod_eq_zero_of_dvd (Nat.pow_dvd_pow 2 (by omega))
      have hmod : a % W32 % 2 ^ e = 0 := by
        rw [Nat.mod_mod_of_dvd a (Nat.dvd_of_mod_eq_zero hdvd)]; exact h3
      simp only [BarDecl.lowReg, he, if_true]
      exact ⟨by simp only; omega, by simp only; omega, hmod, Nat.mod_lt _ (by decide)⟩
    · simp only [BarDecl.lowReg, he, if_false]
      exact ⟨by simp, by simp only; omega, by simp, by simp [W32]⟩
  all_goals
    obtain ⟨h1, h2, h3, h4⟩ := hd
    obtain ⟨p1, p2, p3⟩ := pow_facts_mem e (by omega) h1
    refine ⟨by simp only [BarDecl.lowReg]; omega, ?_, h3, h4⟩
    cases pf <;> simp only [BarDecl.lowReg, BarDecl.flags, pfBit] <;> simp <;> omega

theorem highReg_ok (d : BarDecl) (hd : d.Ok) (hk : d.kind = .mem64) : d.highReg.Ok := by
  obtain ⟨kind, pf, e, a⟩ := d
  simp only at hk; subst hk
  simp only [BarDecl.Ok] at hd
  obtain ⟨h1, h2, h3, h4⟩ := hd
  by_cases he : e < 32
  · simp only [BarDecl.highReg, he, if_true]
    exact ⟨by simp, by simp, by simp [Nat.mod_one], by simp only [W32, W64] at *; omega⟩
  · have hsplit := pow_split e (by omega)
    have hhm : a / W32 % 2 ^ (e - 32) = 0 := by
      obtain ⟨q, hq⟩ := Nat.dvd_of_mod_eq_zero h3
      rw [hq, hsplit, Nat.mul_comm (2 ^ (e - 32)) W32, Nat.mul_assoc, Nat.mul_div_cancel_left _ (by decide : 0 < W32)]
      exact Nat.mul_mod_right _ _
    obtain ⟨q1, q2⟩ := pow_facts_hi (e - 32) (by omega)
    simp only [BarDecl.highReg, he, if_false]
    exact ⟨by simp only; omega, by simp only; omega, hhm, by simp only [W32, W64] at *; omega⟩

theorem unimpl_ok : BarReg.unimpl.Ok := ⟨by decide, by decide, by decide, by decide⟩

theorem regAt_ok (decl : Nat → BarDecl) (hd : ∀ i, (decl i).Ok) (i : Nat) : (regAt decl i).Ok := by
  cases i with
  | zero => exact lowReg_ok _ (hd 0)
  | succ j =>
    simp only [regAt]
    split
    · rename_i h
      simp only [isHigh, Bool.and_eq_true, beq_iff_eq] at h
      exact highReg_ok _ (hd j) h.2
    · exact lowReg_ok _ (hd (j + 1))

theorem mkFn_bars_ok (decl : Nat → BarDecl) (hd : ∀ i, (decl i).Ok) (cmd st : Nat) (other : Nat → Nat) :
    ∀ i, i < 6 → ((mkFn decl cmd st other).bars i).Ok := by
  intro i hi
  simp only [mkFn, hi, if_true]
  exact regAt_ok decl hd i

/-- **Decoding, for a function given by its BAR declarations**: probing any slot that is not the
    upper half of a 64-bit BAR reports that slot's declaration. -/
theorem barInfo_mkFn (decl : Nat → BarDecl) (hd : ∀ i, (decl i).Ok) (cmd st : Nat) (other : Nat → Nat)
    (slot : Nat) (hs : slot < 6) (hh : isHigh decl slot = false) :
    (barInfo (mkFn decl cmd st other) slot).res = expected (decl slot) slot := by
  apply barInfo_decodes _ slot hs (decl slot) (hd slot)
  · simp only [mkFn, hs, if_true]
    cases slot with
    | zero => rfl
    | succ j => simp only [regAt, hh]; rfl
  · intro hk h5
    have h6 : slot + 1 < 6 := by omega
    simp only [mkFn, h6, if_true, regAt, isHigh, hh, hk]
    simp

/-! ### `bars` -/

theorem replay_append (f : Fn) (t1 t2 : List Acc) (g : Fn) (h : replay f t1 = some g) :
    replay f (t1 ++ t2) = replay g t2 := by
  induction t1 generalizing f with
  | nil => simp only [replay] at h; cases h; rfl
  | cons a t ih =>
    cases a with
    | rd off v =>
      simp only [replay, List.cons_append] at h ⊢
      split at h
      · rename_i hv; simp only [hv, if_true]; exact ih _ h
      · cases h
    | wr off v => simp only [replay, List.cons_append] at h ⊢; exact ih _ h
    | p2v p s => simp only [replay, List.cons_append] at h ⊢; exact ih _ h

theorem decodeOff_append (f : Fn) (t1 t2 : List Acc) (g : Fn) (h : replay f t1 = some g) :
    decodeOffAtBarWrites f (t1 ++ t2) = (decodeOffAtBarWrites f t1 && decodeOffAtBarWrites g t2) := by
  induction t1 generalizing f with
  | nil => simp only [replay] at h; cases h; simp [decodeOffAtBarWrites]
  | cons a t ih =>
    cases a with
    | rd off v =>
      simp only [replay] at h
      split at h
      · simp only [decodeOffAtBarWrites, List.cons_append]; exact ih _ h
      · cases h
    | wr off v =>
      simp only [replay] at h
      simp only [decodeOffAtBarWrites, List.cons_append, ih _ h, Bool.and_assoc]
    | p2v p s =>
      simp only [replay] at h
      simp only [decodeOffAtBarWrites, List.cons_append]; exact ih _ h

/-- invariant of the `bars` loop: accumulated trace is an execution from `f0` ending in the current
    state, decode-off at all BAR writes, and the current state is `f0` again -/
theorem barsLoop_inv (fuel : Nat) (f0 : Fn) (hb : ∀ i, i < 6 → (f0.bars i).Ok) (hc : CmdOk f0.cmd)
    (idx : Nat) (acc : List (Option BarInfo)) (tr : List Acc)
    (h1 : replay f0 tr = some f0) (h2 : decodeOffAtBarWrites f0 tr = true) :
    (barsLoop fuel f0 idx acc tr).fin = f0
      ∧ replay f0 (barsLoop fuel f0 idx acc tr).trace = some f0
      ∧ decodeOffAtBarWrites f0 (barsLoop fuel f0 idx acc tr).trace = true := by
  induction fuel generalizing idx acc tr with
  | zero => exact ⟨rfl, h1, h2⟩
  | succ n ih =>
    simp only [barsLoop]
    split
    · exact ⟨rfl, h1, h2⟩
    · rename_i h6
      have hi : idx < 6 := by omega
      have r1 := barInfo_restores f0 idx hi hb hc
      have r2 := barInfo_trace_replays f0 idx
      have r3 := barInfo_decode_off f0 idx
      rw [r1] at r2
      have t1 : replay f0 (tr ++ (barInfo f0 idx).trace) = some f0 := by rw [replay_append _ _ _ _ h1]; exact r2
      have t2 : decodeOffAtBarWrites f0 (tr ++ (barInfo f0 idx).trace) = true := by
        rw [decodeOff_append _ _ _ _ h1, h2, r3]; rfl
      split
      · exact ⟨r1, t1, t2⟩
      · rw [r1]; exact ih _ _ _ t1 t2

/-- **`bars` has no side effects**: final state = initial state, on success and on error. -/
theorem bars_restores (f : Fn) (hb : ∀ i, i < 6 → (f.bars i).Ok) (hc : CmdOk f.cmd) : (bars f).fin = f :=
  (barsLoop_inv 6 f hb hc 0 _ [] rfl rfl).1

/-- every BAR write of `bars` happens with both decode bits clear, and its access list is an
    execution of the reference function -/
theorem bars_decode_off (f : Fn) (hb : ∀ i, i < 6 → (f.bars i).Ok) (hc : CmdOk f.cmd) :
    replay f (bars f).trace = some f ∧ decodeOffAtBarWrites f (bars f).trace = true :=
  (barsLoop_inv 6 f hb hc 0 _ [] rfl rfl).2

/-! ### configuration addresses -/

def camSize (ecam : Bool) : Nat := if ecam then 0x10000000 else 0x1000000

def camAddr (ecam : Bool) (bus dev fn reg : Nat) : Nat :=
  (bus * 256 + dev * 8 + fn) * (if ecam then 4096 else 256) + reg

/-- closed form of `cam_offset`: defined iff the three assertions hold, and then the
    specification's address layout -/
theorem cam_eq (ecam : Bool) (bus dev fn reg : Nat) :
    camOffset ecam bus dev fn reg =
      if dev < 32 ∧ fn < 8 ∧ camAddr ecam bus dev fn reg < camSize ecam ∧ camAddr ecam bus dev fn reg % 4 = 0
      then some (camAddr ecam bus dev fn reg) else none := by
  cases ecam <;> simp only [camOffset, camAddr, camSize, if_true, if_false, Bool.false_eq_true] <;>
    split <;> split <;> simp_all <;> omega

/-- a returned offset is inside the window and word aligned (the two trailing `assert!`s) -/
theorem cam_in_window (ecam : Bool) (bus dev fn reg x : Nat) (h : camOffset ecam bus dev fn reg = some x) :
    x < camSize ecam ∧ x % 4 = 0 := by
  rw [cam_eq] at h
  split at h
  · rename_i hc; cases h; exact ⟨hc.2.2.1, hc.2.2.2⟩
  · cases h

/-- `cam_offset` is defined (no assertion fires) exactly on valid tuples: device < 32, function < 8,
    word-aligned register offset (bus and register offset are `u8` in the code). -/
theorem cam_defined_iff (ecam : Bool) (bus dev fn reg : Nat) (hb : bus < 256) (hr : reg < 256) :
    (camOffset ecam bus dev fn reg).isSome ↔ (dev < 32 ∧ fn < 8 ∧ reg % 4 = 0) := by
  rw [cam_eq]
  cases ecam <;> simp only [camAddr, camSize, if_true, if_false, Bool.false_eq_true] <;> split <;> simp_all <;> omega

theorem cam_some (ecam : Bool) (b d f r x : Nat) (h : camOffset ecam b d f r = some x) :
    x = camAddr ecam b d f r ∧ d < 32 ∧ f < 8 := by
  rw [cam_eq] at h
  split at h
  · rename_i c; cases h; exact ⟨rfl, c.1, c.2.1⟩
  · cases h

/-- **Injectivity**: distinct (bus, device, function, register) tuples get distinct offsets, under
    both mechanisms. -/
theorem cam_injective (ecam : Bool) (b d f r b' d' f' r' x : Nat) (hr : r < 256) (hr' : r' < 256)
    (h : camOffset ecam b d f r = some x) (h' : camOffset ecam b' d' f' r' = some x) :
    b = b' ∧ d = d' ∧ f = f' ∧ r = r' := by
  obtain ⟨e1, d1, f1⟩ := cam_some _ _ _ _ _ _ h
  obtain ⟨e2, d2, f2⟩ := cam_some _ _ _ _ _ _ h'
  cases ecam <;> simp only [camAddr, if_true, if_false, Bool.false_eq_true] at e1 e2 <;> omega

/-! ### enumeration -/

/-- identity registers of a present function -/
structure FnId where
  vendor : Nat
  device : Nat
  cls : Nat
  subclass : Nat
  progIf : Nat
  revision : Nat
  /-- header type byte (bit 7 = multi-function) -/
  headerByte : Nat
  cacheLine : Nat
  latency : Nat
  bist : Nat

def FnId.Ok (x : FnId) : Prop :=
  x.vendor < 65535 ∧ x.device < W16 ∧ x.cls < 256 ∧ x.subclass < 256 ∧ x.progIf < 256 ∧ x.revision < 256
    ∧ x.headerByte < 256 ∧ x.cacheLine < 256 ∧ x.latency < 256 ∧ x.bist < 256

/-- a bus populated by `pop` (index = device*8 + function); absent functions read all-ones
    (master abort), as the PCI specification prescribes -/
def busOf (pop : Nat → Option FnId) (dev fn off : Nat) : Nat :=
  match pop (dev * 8 + fn) with
  | none => 0xffffffff
  | some x =>
    if off = 0 then x.vendor + x.device * W16
    else if off = 8 then x.revision + x.progIf * 256 + x.subclass * W16 + x.cls * 16777216
    else if off = 12 then x.cacheLine + x.latency * 256 + x.headerByte * W16 + x.bist * 16777216
    else 0

def foundOf (i : Nat) (x : FnId) : Found :=
  ⟨i / 8, i % 8, x.vendor, x.device, x.cls, x.subclass, x.progIf, x.revision, x.headerByte % 128⟩

theorem filterMap_congr' {α β : Type} (f g : α → Option β) (l : List α) (h : ∀ x ∈ l, f x = g x) :
    l.filterMap f = l.filterMap g := by
  induction l with
  | nil => rfl
  | cons a t ih =>
    simp only [List.filterMap_cons, h a (List.mem_cons_self ..)]
    rw [ih (fun x hx => h x (List.mem_cons_of_mem _ hx))]

theorem busOf_some (pop : Nat → Option FnId) (dev fn : Nat) (x : FnId) (hp : pop (dev * 8 + fn) = some x) :
    busOf pop dev fn 0 = x.vendor + x.device * W16
      ∧ busOf pop dev fn 8 = x.revision + x.progIf * 256 + x.subclass * W16 + x.cls * 16777216
      ∧ busOf pop dev fn 12 = x.cacheLine + x.latency * 256 + x.headerByte * W16 + x.bist * 16777216 := by
  simp [busOf, hp]

/-- **Enumeration** yields exactly the present functions, in order, with correctly decoded identity
    fields — for every population of the bus. -/
theorem enumerate_exact (pop : Nat → Option FnId) (hok : ∀ i x, pop i = some x → x.Ok) :
    enumerate (busOf pop) = (List.range 256).filterMap (fun i => (pop i).map (foundOf i)) := by
  unfold enumerate
  apply filterMap_congr'
  intro i _
  have hi : i / 8 * 8 + i % 8 = i := by omega
  cases hp : pop i with
  | none =>
    have : busOf pop (i / 8) (i % 8) 0 = 4294967295 := by simp [busOf, hi, hp]
    simp [probe, this]
  | some x =>
    obtain ⟨h1, h2, h3, h4, h5, h6, h7, h8, h9, h10⟩ := hok i x hp
    obtain ⟨b0, b8, b12⟩ := busOf_some pop (i / 8) (i % 8) x (by rw [hi]; exact hp)
    have hne : ¬ (x.vendor + x.device * W16 = 4294967295) := by simp only [W16] at *; omega
    simp only [probe, b0, b8, b12, hne, if_false, Option.map_some, foundOf, Option.some.injEq, Found.mk.injEq, true_and]
    simp only [W16] at *
    refine ⟨by omega, by omega, by omega, by omega, by omega, by omega, by omega⟩

/-! ### capability list -/

/-- `cs` is laid out in configuration space as a well-formed list starting at `start`: each header
    holds the id, the private header and a next pointer that is the next capability's (valid)
    offset, the last one ending the list. -/
def Chain (rd : Nat → Nat) : Option Nat → List Cap → Prop
  | start, [] => start = none
  | start, c :: rest => start = some c.off ∧ c.id < 256 ∧ c.priv < W16 ∧
      ∃ nxt, nxt < 256 ∧ rd c.off = c.id + 256 * nxt + W16 * c.priv ∧ Chain rd (capNext nxt) rest

/-- **Walk of a well-formed list**: each capability once, in order (for any time-to-live at least
    the list's length; 48 is the number of 4-aligned offsets in 0x40..0xfc, so every list that fits
    in configuration space without repetition qualifies). -/
theorem capWalk_chain (rd : Nat → Nat) (start : Option Nat) (cs : List Cap) (ttl : Nat)
    (h : Chain rd start cs) (hl : cs.length ≤ ttl) : capWalk rd start ttl = cs := by
  induction cs generalizing start ttl with
  | nil => simp only [Chain] at h; subst h; cases ttl <;> rfl
  | cons c rest ih =>
    obtain ⟨hs, hid, hpr, nxt, hn, hrd, hch⟩ := h
    subst hs
    cases ttl with
    | zero => simp at hl
    | succ t =>
      simp only [capWalk, hrd]
      have e1 : (c.id + 256 * nxt + W16 * c.priv) % 256 = c.id := by simp only [W16] at *; omega
      have e2 : (c.id + 256 * nxt + W16 * c.priv) / 256 % 256 = nxt := by simp only [W16] at *; omega
      have e3 : (c.id + 256 * nxt + W16 * c.priv) / W16 % W16 = c.priv := by simp only [W16] at *; omega
      rw [e1, e2, e3, ih _ _ hch (by simpa using hl)]

theorem capabilities_wellformed (rd : Nat → Nat) (cs : List Cap) (hbit : rd 4 / W16 / 16 % 2 = 1)
    (h : Chain rd (some (rd 0x34 % 256 / 4 * 4)) cs) (hl : cs.length ≤ TTL) : capabilities rd = cs := by
  simp only [capabilities, capStart, hbit, if_true]
  exact capWalk_chain rd _ cs TTL h hl

/-- **Termination / boundedness**: whatever configuration space contains (cyclic or malformed lists
    included), the walk yields at most `ttl` capabilities (and so performs at most `ttl` header reads). -/
theorem capWalk_length_le (rd : Nat → Nat) (start : Option Nat) (ttl : Nat) :
    (capWalk rd start ttl).length ≤ ttl := by
  induction ttl generalizing start with
  | zero => cases start <;> simp [capWalk]
  | succ t ih =>
    cases start with
    | none => simp [capWalk]
    | some off => simp only [capWalk, List.length_cons]; exact Nat.succ_le_succ (ih _)

theorem capabilities_length_le (rd : Nat → Nat) : (capabilities rd).length ≤ 48 :=
  capWalk_length_le rd _ TTL

/-- yielded offsets after the first are valid: at least 0x40 and 4-aligned -/
theorem capNext_valid (nxt off : Nat) (h : capNext nxt = some off) : off = nxt ∧ 64 ≤ off ∧ off % 4 = 0 := by
  unfold capNext at h
  split at h
  · cases h
  · split at h
    · cases h
    · cases h; omega

/-! ### non-vacuity and witnesses -/

/-- a concrete function: 64-bit prefetchable 1 MiB BAR at 0xfe_0000_0000 in slots 0/1, 4 KiB 32-bit
    BAR in slot 2, 32-byte I/O BAR in slot 3, 64-bit BAR in slot 5 -/
def exDecl : Nat → BarDecl
  | 0 => ⟨.mem64, true, 20, 0xfe00000000⟩
  | 2 => ⟨.mem32, false, 12, 0xfebf1000⟩
  | 3 => ⟨.io, false, 5, 0xc000⟩
  | 5 => ⟨.mem64, false, 14, 0xfe000000⟩
  | _ => ⟨.none, false, 0, 0⟩

def exFn : Fn := mkFn exDecl 0x7 0x10 (fun _ => 0)

theorem exDecl_ok : ∀ i, (exDecl i).Ok := by
  intro i; unfold exDecl; split <;> simp [BarDecl.Ok, W32, W64]

/-- the hypotheses of the decoding theorem are satisfiable, and it computes the expected values -/
example : (barInfo exFn 0).res = .ok (some (.mem .w64 true 0xfe00000000 0x100000)) := by
  have := barInfo_mkFn exDecl exDecl_ok 0x7 0x10 (fun _ => 0) 0 (by omega) rfl
  simpa [expected, exDecl, exFn] using this
example : (barInfo exFn 0).trace.length = 11 := by decide
example : (barInfo exFn 3).res = .ok (some (.io 0xc000 32)) := by
  have := barInfo_mkFn exDecl exDecl_ok 0x7 0x10 (fun _ => 0) 3 (by omega) rfl
  simpa [expected, exDecl, exFn] using this
example : (barInfo exFn 0).fin = exFn :=
  barInfo_restores exFn 0 (by omega) (mkFn_bars_ok exDecl exDecl_ok _ _ _) (by rfl)
/-- the 64-bit BAR in slot 5: error, and the only access is the read of the BAR itself -/
example : (barInfo exFn 5).res = .error .invalidBarType ∧ (barInfo exFn 5).trace = [.rd 0x24 0xfe000004] := ⟨by rfl, by rfl⟩
example : CmdOk exFn.cmd := by rfl

/-- why `CmdOk` is needed: a (non-conforming) function whose command register keeps reserved bit 7
    would lose it — modelled here by feeding `bar_info`'s own arithmetic: truncation drops bit 7 -/
example : truncCmd 0x83 = 0x03 := by decide

/-- CAM: the last valid tuple maps to the last word of each window -/
example : camOffset false 255 31 7 252 = some 0xfffffc ∧ camOffset true 255 31 7 252 = some 0xffff0fc := by decide
example : camOffset true 0 32 0 0 = none ∧ camOffset false 0 0 8 0 = none ∧ camOffset false 0 0 0 2 = none := by decide

/-- a well-formed two-entry list at 0x40 → 0x50 -/
def exCfg : Nat → Nat
  | 4 => 0x00100000
  | 0x34 => 0x40
  | 0x40 => 0x10145009
  | 0x50 => 0x00000005
  | _ => 0

example : capabilities exCfg = [⟨0x40, 0x09, 0x1014⟩, ⟨0x50, 0x05, 0⟩] := by decide
example : Chain exCfg (some 0x40) [⟨0x40, 0x09, 0x1014⟩, ⟨0x50, 0x05, 0⟩] := by
  refine ⟨rfl, by decide, by decide, 0x50, by decide, by decide, rfl, by decide, by decide, 0, by decide, by decide, ?_⟩
  rfl

/-- a cyclic list (capability at 0x40 whose next pointer is 0x40): the walk stops after 48 entries -/
def cyc : Nat → Nat
  | 4 => 0x00100000
  | 0x34 => 0x40
  | 0x40 => 0x00004009
  | _ => 0

example : (capabilities cyc).length = 48 := by decide

end VirtioVerif.Props.C12
