import VirtioVerif.Model.VsockConn
import VirtioVerif.Lemmas.VsockRing
import VirtioVerif.Lemmas.VsockTable2
/-!
# C17 — socket streams are loss-free and obey credit-based flow control both ways

Everything is stated for *all* 32-bit counter states, all capacities `0 < cap < 2^32`, all
packetisations and read sizes, all operation sequences.  The model is the tree after fix 770e6c2
(`Arith.wrapping`); the pre-fix arithmetic (`Arith.checked`) is kept for the negation witnesses.
-/
namespace VirtioVerif.Props.C17
open VirtioVerif VirtioVerif.Vsock VirtioVerif.VsockConn VirtioVerif.Lemmas

/-! ## 1. The ring buffer refines a FIFO byte queue (DESIGN Appendix B shapes) -/

theorem add_ok (r : Ring) (h : r.Wf) (bytes : List Byte) (hb : bytes.length ≤ r.free) :
    (r.add bytes).1.contents = r.contents ++ bytes :=
  (VsockRing.add_ok r h bytes hb).2.2.2.2.2

theorem add_full (r : Ring) (bytes : List Byte) (h : bytes.length > r.free) : r.add bytes = (r, false) :=
  VsockRing.add_full r bytes h

theorem drain_eq (r : Ring) (h : r.Wf) (n : Nat) :
    (r.drain n).2 = r.contents.take n ∧ (r.drain n).1.contents = r.contents.drop n :=
  ⟨(VsockRing.drain_eq r h n).1, (VsockRing.drain_eq r h n).2.1⟩

/-- `add`/`drain` never panic on a well-formed ring (capacity > 0), and keep it well-formed. -/
theorem ring_panic_free (r : Ring) (h : r.Wf) (bytes : List Byte) (n : Nat) :
    r.add? bytes = some (r.add bytes) ∧ r.drain? n = some (r.drain n)
      ∧ (r.add bytes).1.Wf ∧ (r.drain n).1.Wf := by
  refine ⟨VsockRing.add?_some r h bytes, VsockRing.drain?_some r h n, ?_, (VsockRing.drain_eq r h n).2.2.1⟩
  by_cases hb : bytes.length ≤ r.free
  · exact (VsockRing.add_ok r h bytes hb).2.1
  · rw [VsockRing.add_full r bytes (by omega)]; exact h

theorem add_cap (r : Ring) (h : r.Wf) (bytes : List Byte) : (r.add bytes).1.cap = r.cap := by
  by_cases hb : bytes.length ≤ r.free
  · exact (VsockRing.add_ok r h bytes hb).2.2.1
  · rw [VsockRing.add_full r bytes (by omega)]

/-- operations on the ring / on the specification FIFO -/
inductive ROp
  | add (b : List Byte)
  | drain (n : Nat)

/-- what an operation answers: (accepted?, bytes read) -/
abbrev RAns := Bool × List Byte

def ringStep (r : Ring) : ROp → Ring × RAns
  | .add b => ((r.add b).1, ((r.add b).2, []))
  | .drain n => ((r.drain n).1, (true, (r.drain n).2))

/-- the specification: a bounded FIFO queue of bytes -/
def fifoStep (cap : Nat) (q : List Byte) : ROp → List Byte × RAns
  | .add b => if b.length ≤ cap - q.length then (q ++ b, (true, [])) else (q, (false, []))
  | .drain n => (q.drop n, (true, q.take n))

def ringRun (r : Ring) : List ROp → Ring × List RAns
  | [] => (r, [])
  | op :: ops => let s := ringStep r op; let t := ringRun s.1 ops; (t.1, s.2 :: t.2)

def fifoRun (cap : Nat) (q : List Byte) : List ROp → List Byte × List RAns
  | [] => (q, [])
  | op :: ops => let s := fifoStep cap q op; let t := fifoRun cap s.1 ops; (t.1, s.2 :: t.2)

theorem ring_step_refines (r : Ring) (h : r.Wf) (op : ROp) :
    (ringStep r op).2 = (fifoStep r.cap r.contents op).2
      ∧ (ringStep r op).1.contents = (fifoStep r.cap r.contents op).1
      ∧ (ringStep r op).1.Wf ∧ (ringStep r op).1.cap = r.cap := by
  cases op with
  | add b =>
    have hl := VsockRing.contents_length r
    by_cases hb : b.length ≤ r.free
    · have := VsockRing.add_ok r h b hb
      have hb' : b.length ≤ r.cap - r.contents.length := by rw [hl]; exact hb
      simp [ringStep, fifoStep, hb', this]
    · have hf := VsockRing.add_full r b (by omega)
      have hb' : ¬ b.length ≤ r.cap - r.contents.length := by rw [hl]; exact hb
      simp [ringStep, fifoStep, hb', hf, h]
  | drain n =>
    have := VsockRing.drain_eq r h n
    simp [ringStep, fifoStep, this]

/-- **Refinement**: for every capacity > 0, every sequence of adds and drains of any sizes (so across
    any number of wrap-arounds of `start`), the ring answers exactly like the FIFO and represents it. -/
theorem ring_refines_fifo (ops : List ROp) (r : Ring) (h : r.Wf) :
    (ringRun r ops).2 = (fifoRun r.cap r.contents ops).2
      ∧ (ringRun r ops).1.contents = (fifoRun r.cap r.contents ops).1
      ∧ (ringRun r ops).1.Wf := by
  induction ops generalizing r with
  | nil => simp [ringRun, fifoRun, h]
  | cons op ops ih =>
    obtain ⟨h1, h2, h3, h4⟩ := ring_step_refines r h op
    have := ih (ringStep r op).1 h3
    simp only [ringRun, fifoRun]
    rw [h4, h2] at this
    refine ⟨?_, this.2.1, this.2.2⟩
    rw [h1, this.1]

/-- one receive cycle on an empty ring (used by the > 4 GiB soak): the packet comes out unchanged
    and the ring is empty again, wherever `start` is -/
theorem rx_cycle (r : Ring) (h : r.Wf) (hu : r.used = 0) (b : List Byte) (hb : b.length ≤ r.cap) (n : Nat)
    (hn : b.length ≤ n) :
    (r.add b).2 = true ∧ ((r.add b).1.drain n).2 = b ∧ ((r.add b).1.drain n).1.used = 0
      ∧ ((r.add b).1.drain n).1.Wf := by
  have hf : b.length ≤ r.free := by simp [Ring.free, hu]; exact hb
  obtain ⟨a1, a2, a3, a4, a5, a6⟩ := VsockRing.add_ok r h b hf
  obtain ⟨d1, d2, d3, d4, d5, d6⟩ := VsockRing.drain_eq (r.add b).1 a2 n
  have hc : r.contents = [] := by
    have := VsockRing.contents_length r
    rw [hu] at this
    exact List.eq_nil_of_length_eq_zero this
  refine ⟨a1, ?_, ?_, d3⟩
  · rw [d1, a6, hc, List.nil_append, List.take_of_length_le hn]
  · rw [d5, a4, hu]; omega

/-! ## 2. Counter arithmetic: panic-freedom for all 32-bit states (repaired F4) -/

/-- the current tree's arithmetic never panics and is the total model used everywhere else -/
theorem arith_panic_free (i : Info) (srcCid len : Nat) :
    doneForwardingA .wrapping i len = some (i.doneForwarding len)
      ∧ peerFreeA .wrapping i = some i.peerFree
      ∧ sendA .wrapping i srcCid len = some (i.send srcCid len) := by
  refine ⟨rfl, rfl, ?_⟩
  have hp : peerFreeA .wrapping i = some i.peerFree := rfl
  unfold sendA Info.send
  rw [hp]
  by_cases h1 : i.peerFree ≥ len <;> by_cases h2 : i.pendingCreditReq = true <;> simp [cntAdd, h1, h2]

/-- counters stay 32-bit values -/
theorem counters_in_range (i : Info) (h : i.InRange) (srcCid len n : Nat) :
    (i.doneForwarding n).InRange ∧ (i.send srcCid len).info.InRange := by
  obtain ⟨h1, h2, h3, h4, h5⟩ := h
  refine ⟨⟨h1, h2, h3, h4, ?_⟩, ?_⟩
  · simp only [Info.doneForwarding, U32] at *; omega
  · unfold Info.send
    split
    · refine ⟨h1, h2, ?_, h4, h5⟩; simp only [U32] at *; omega
    · split <;> exact ⟨h1, h2, h3, h4, h5⟩

/-- negation witnesses for the arithmetic before fix 770e6c2 (checked `+` / `-`): each panics -/
example : doneForwardingA .checked { dst := ⟨2, 1⟩, srcPort := 1, fwdCnt := 4294967295 } 1 = none := by decide
example : peerFreeA .checked { dst := ⟨2, 1⟩, srcPort := 1, txCnt := 5, peerFwdCnt := 6, peerBufAlloc := 10 } = none := by decide
example : peerFreeA .checked { dst := ⟨2, 1⟩, srcPort := 1, txCnt := 50, peerFwdCnt := 0, peerBufAlloc := 10 } = none := by decide
example : sendA .checked { dst := ⟨2, 1⟩, srcPort := 1, txCnt := 4294967290, peerFwdCnt := 4294967290, peerBufAlloc := 100 } 3 10 = none := by decide
theorem checked_arith_panics : ∃ (i : Info) (g len : Nat), i.InRange ∧ sendA .checked i g len = none :=
  ⟨{ dst := ⟨2, 1⟩, srcPort := 1, txCnt := 4294967290, peerFwdCnt := 4294967290, peerBufAlloc := 100 }, 3, 10,
   ⟨by decide, by decide, by decide, by decide, by decide⟩, by decide⟩

/-- the modular difference of two free-running 32-bit counters is the true difference, however
    often they have wrapped, as long as the true difference fits in 32 bits -/
theorem inflight_true (T F : Nat) (h1 : F ≤ T) (h2 : T - F < U32) :
    (T % U32 + U32 - (F % U32) % U32) % U32 = T - F := by
  simp only [U32] at *; omega

/-! ## 3. Send guard -/

/-- an accepted send fits in the free space the peer last advertised -/
theorem send_accept_guard (i : Info) (g len : Nat) (h : (i.send g len).accepted = true) :
    len ≤ i.peerFree := by
  unfold Info.send at h
  split at h
  · assumption
  · split at h <;> simp at h

/-- accepted sends keep `(tx_cnt − peer_fwd_cnt) mod 2^32 ≤ peer_buf_alloc` -/
theorem send_keeps_window (i : Info) (hr : i.InRange) (g len : Nat)
    (hinv : i.inFlight ≤ i.peerBufAlloc) (h : (i.send g len).accepted = true) :
    (i.send g len).info.inFlight = i.inFlight + len
      ∧ (i.send g len).info.inFlight ≤ (i.send g len).info.peerBufAlloc := by
  have hg := send_accept_guard i g len h
  obtain ⟨h1, h2, h3, h4, h5⟩ := hr
  unfold Info.send at *
  split
  · simp only [Info.inFlight, Info.peerFree, U32] at *
    omega
  · rename_i hn; exact absurd hg hn

/-- the same with true (unbounded) byte counts `T` sent and `F` forwarded: the bytes really in
    flight never exceed the peer's allocation, also after `tx_cnt` has wrapped any number of times -/
theorem send_true_window (i : Info) (hr : i.InRange) (g len T F : Nat)
    (ht : i.txCnt = T % U32) (hf : i.peerFwdCnt = F % U32) (hFT : F ≤ T)
    (hinv : T - F ≤ i.peerBufAlloc) (h : (i.send g len).accepted = true) :
    (T + len) - F ≤ i.peerBufAlloc ∧ (i.send g len).info.txCnt = (T + len) % U32 := by
  have hg := send_accept_guard i g len h
  obtain ⟨h1, h2, h3, h4, h5⟩ := hr
  unfold Info.send at *
  split
  · simp only [Info.inFlight, Info.peerFree, U32] at *
    omega
  · rename_i hn; exact absurd hg hn

/-- a refused send changes no counter; it issues a credit request iff none is pending, and leaves
    one pending -/
theorem send_refused (i : Info) (g len : Nat) (h : (i.send g len).accepted = false) :
    (i.send g len).info = { i with pendingCreditReq := true }
      ∧ (i.send g len).tx = (if i.pendingCreditReq then [] else [i.ctlHeader g VsockSpec.OP_CREDIT_REQUEST])
      ∧ i.peerFree < len := by
  unfold Info.send at *
  split at h
  · simp at h
  · rename_i hn
    rw [if_neg hn]
    cases hp : i.pendingCreditReq
    · simp; omega
    · simp
      refine ⟨?_, by omega⟩
      cases i; simp_all

/-- operations on one `ConnectionInfo` between two credit updates -/
inductive LOp
  | send (len : Nat)
  | event (bufAlloc fwdCnt : Nat)      -- any packet other than CREDIT_UPDATE
  | fwd (n : Nat)

def lStep (g : Nat) (i : Info) : LOp → Info × List Hdr
  | .send len => ((i.send g len).info, (i.send g len).tx)
  | .event ba fc => (i.updateForEvent ba fc false, [])
  | .fwd n => (i.doneForwarding n, [])

def lRun (g : Nat) (i : Info) : List LOp → Info × List Hdr
  | [] => (i, [])
  | op :: ops => let s := lStep g i op; let t := lRun g s.1 ops; (t.1, s.2 ++ t.2)

def creditRequests (l : List Hdr) : Nat := (l.filter (·.op == VsockSpec.OP_CREDIT_REQUEST)).length

theorem lStep_credit (g : Nat) (i : Info) (op : LOp) :
    (creditRequests (lStep g i op).2 = (if i.pendingCreditReq then 0 else 1)
          ∧ (lStep g i op).1.pendingCreditReq = true)
      ∨ (creditRequests (lStep g i op).2 = 0 ∧ (lStep g i op).1.pendingCreditReq = i.pendingCreditReq) := by
  cases op with
  | send len =>
    cases ha : (i.send g len).accepted
    · obtain ⟨e1, e2, _⟩ := send_refused i g len ha
      left
      simp only [lStep, e1, e2]
      cases i.pendingCreditReq <;> simp [creditRequests, Info.ctlHeader, VsockSpec.OP_CREDIT_REQUEST]
    · right
      have hg := send_accept_guard i g len ha
      simp only [lStep]
      unfold Info.send
      rw [if_pos hg]
      simp [creditRequests, Info.rwHeader, VsockSpec.OP_RW, VsockSpec.OP_CREDIT_REQUEST]
  | event ba fc => right; simp [lStep, creditRequests, Info.updateForEvent]
  | fwd n => right; simp [lStep, creditRequests, Info.doneForwarding]

/-- **At most one credit request until the next credit update**: over any sequence of sends (accepted
    or refused, any sizes), other events and forwards, at most one CREDIT_REQUEST is emitted, and none
    at all if one is already pending. -/
theorem one_credit_request (g : Nat) (ops : List LOp) (i : Info) :
    creditRequests (lRun g i ops).2 ≤ (if i.pendingCreditReq then 0 else 1) := by
  induction ops generalizing i with
  | nil => simp [lRun, creditRequests]
  | cons op ops ih =>
    have hs := lStep_credit g i op
    have ht := ih (lStep g i op).1
    have hsplit : creditRequests (lRun g i (op :: ops)).2
        = creditRequests (lStep g i op).2 + creditRequests (lRun g (lStep g i op).1 ops).2 := by
      simp [lRun, creditRequests, List.filter_append]
    rw [hsplit]
    rcases hs with ⟨h1, h2⟩ | ⟨h1, h2⟩
    · rw [h2] at ht; simp at ht; rw [h1, ht]; simp
    · rw [h2] at ht; rw [h1]; simpa using ht

/-! ## 4. Packet headers against the specification's `virtio_vsock_hdr` -/

theorem spec_layout : VsockSpec.layoutContiguous VsockSpec.hdrFields 0 = true := by decide

theorem encode_length (h : Hdr) : h.encode.length = VsockSpec.hdrSize := by
  simp [Hdr.encode, VsockSpec.leBytes, VsockSpec.hdrSize]

/-- field at (offset, size) of a wire image -/
def field (bs : List Nat) (off size : Nat) : Nat := VsockSpec.leValue ((bs.drop off).take size)

/-- every field sits at the offset and width the specification's table gives and round-trips -/
theorem encode_fields (h : Hdr) :
    field h.encode 0 8 = h.srcCid % 2 ^ 64 ∧ field h.encode 8 8 = h.dstCid % 2 ^ 64
      ∧ field h.encode 16 4 = h.srcPort % 2 ^ 32 ∧ field h.encode 20 4 = h.dstPort % 2 ^ 32
      ∧ field h.encode 24 4 = h.len % 2 ^ 32 ∧ field h.encode 28 2 = h.type % 2 ^ 16
      ∧ field h.encode 30 2 = h.op % 2 ^ 16 ∧ field h.encode 32 4 = h.flags % 2 ^ 32
      ∧ field h.encode 36 4 = h.bufAlloc % 2 ^ 32 ∧ field h.encode 40 4 = h.fwdCnt % 2 ^ 32 := by
  simp only [field, Hdr.encode, VsockSpec.leBytes, List.cons_append, List.nil_append, List.drop_succ_cons,
    List.drop_zero, List.take_succ_cons, List.take_zero, VsockSpec.leValue]
  refine ⟨?_, ?_, ?_, ?_, ?_, ?_, ?_, ?_, ?_, ?_⟩ <;> omega

/-- control packets (`connect`, `accept`, `force_close`, `credit_update`, `request_credit`):
    addressing of the connection, no payload, stream type, no flags, the driver's current
    `buf_alloc` and `fwd_cnt` -/
theorem ctl_header (i : Info) (g op : Nat) :
    i.ctlHeader g op =
      { srcCid := g, dstCid := i.dst.cid, srcPort := i.srcPort, dstPort := i.dst.port,
        len := 0, type := VsockSpec.TYPE_STREAM, op := op, flags := 0, bufAlloc := i.bufAlloc, fwdCnt := i.fwdCnt } := rfl

theorem shutdown_header (i : Info) (g : Nat) :
    i.shutdownHeader g =
      { srcCid := g, dstCid := i.dst.cid, srcPort := i.srcPort, dstPort := i.dst.port,
        len := 0, type := VsockSpec.TYPE_STREAM, op := VsockSpec.OP_SHUTDOWN, flags := 3,
        bufAlloc := i.bufAlloc, fwdCnt := i.fwdCnt } := rfl

/-- an accepted send emits exactly one RW packet whose `len` is the payload length and which
    carries the credit fields as they were before the send -/
theorem send_header (i : Info) (hr : i.InRange) (g len : Nat) (h : (i.send g len).accepted = true) :
    (i.send g len).tx =
      [{ srcCid := g, dstCid := i.dst.cid, srcPort := i.srcPort, dstPort := i.dst.port,
         len := len, type := VsockSpec.TYPE_STREAM, op := VsockSpec.OP_RW, flags := 0,
         bufAlloc := i.bufAlloc, fwdCnt := i.fwdCnt }] := by
  have hg := send_accept_guard i g len h
  have : len % U32 = len := by
    have := hr.pba
    simp only [Info.peerFree, U32] at *; omega
  unfold Info.send
  split
  · simp [Info.rwHeader, Info.newHeader, this]
  · rename_i hn; exact absurd hg hn

/-! ## 5. Receive path: advertised credit never overstates free space; no loss for honest peers -/

/-- one connection's receive path with ghost history -/
structure Rx where
  info : Info
  ring : Ring
  /-- every payload byte the peer has put on the wire, in order -/
  sent : List Byte
  /-- every byte `recv` has returned, in order -/
  delivered : List Byte
  /-- data packets completed by the device and not yet polled, oldest first -/
  wire : List (List Byte)

inductive RxOp
  | peerSend (b : List Byte)
  | poll
  | recv (n : Nat)

/-- `poll` does what `dispatch` does for `Received` (`ring.add`; a refused add is the
    `OutputBufferTooShort` error and the packet is gone); `recv` does what `VsockConn.recv` does
    (`ring.drain`, `done_forwarding(bytes_read)`) -/
def Rx.step (s : Rx) : RxOp → Rx
  | .peerSend b => { s with sent := s.sent ++ b, wire := s.wire ++ [b] }
  | .poll =>
    match s.wire with
    | [] => s
    | b :: w => if (s.ring.add b).2 then { s with ring := (s.ring.add b).1, wire := w } else { s with wire := w }
  | .recv n =>
    { s with ring := (s.ring.drain n).1, info := s.info.doneForwarding (s.ring.drain n).2.length,
             delivered := s.delivered ++ (s.ring.drain n).2 }

/-- the peer honours the credit: after sending `b`, what it has sent in total does not exceed what
    some earlier `fwd_cnt` advertisement (`adv` ≤ bytes delivered so far) plus `buf_alloc` allows -/
def Rx.Honest (s : Rx) : RxOp → Prop
  | .peerSend b => ∃ adv, adv ≤ s.delivered.length ∧ s.sent.length + b.length ≤ adv + s.info.bufAlloc
  | _ => True

structure Rx.Inv (s : Rx) : Prop where
  wf : s.ring.Wf
  alloc : s.info.bufAlloc = s.ring.cap
  /-- nothing lost, nothing reordered -/
  stream : s.delivered ++ s.ring.contents ++ s.wire.flatten = s.sent
  /-- `fwd_cnt` is the free-running count of delivered bytes -/
  fwd : s.info.fwdCnt = s.delivered.length % U32
  /-- outstanding data fits in the buffer -/
  window : s.sent.length ≤ s.delivered.length + s.ring.cap

def Rx.init (peer : Addr) (port cap : Nat) : Rx :=
  { info := Info.new peer port cap, ring := Ring.new cap, sent := [], delivered := [], wire := [] }

theorem rx_init_inv (peer : Addr) (port cap : Nat) (h0 : 0 < cap) (h1 : cap < U32) :
    (Rx.init peer port cap).Inv := by
  obtain ⟨w, c, u, e⟩ := VsockRing.new_wf cap h0 h1
  exact ⟨w, by simp [Rx.init, Info.new, c], by simp [Rx.init, e], by simp [Rx.init, Info.new], by simp [Rx.init]⟩

theorem rx_step_inv (s : Rx) (h : s.Inv) (op : RxOp) (hh : s.Honest op) : (s.step op).Inv := by
  obtain ⟨wf, alloc, stream, fwd, window⟩ := h
  have hlen := congrArg List.length stream
  simp only [List.length_append, VsockRing.contents_length] at hlen
  cases op with
  | peerSend b =>
    obtain ⟨adv, ha, hb⟩ := hh
    refine ⟨wf, alloc, ?_, fwd, ?_⟩
    · simp [Rx.step, ← stream]
    · simp only [Rx.step, List.length_append]; rw [alloc] at hb; omega
  | poll =>
    simp only [Rx.step]
    cases hw : s.wire with
    | nil => exact ⟨wf, alloc, stream, fwd, window⟩
    | cons b w =>
      rw [hw] at stream hlen
      simp only [List.flatten_cons, List.length_append] at hlen
      have hfit : b.length ≤ s.ring.free := by simp only [Ring.free]; omega
      obtain ⟨a1, a2, a3, a4, a5, a6⟩ := VsockRing.add_ok s.ring wf b hfit
      simp only [a1, if_true]
      refine ⟨a2, by rw [a3]; exact alloc, ?_, fwd, by rw [a3]; exact window⟩
      simp only [a6]
      rw [← stream]; simp
  | recv n =>
    obtain ⟨d1, d2, d3, d4, d5, d6⟩ := VsockRing.drain_eq s.ring wf n
    refine ⟨d3, by simp [Rx.step, Info.doneForwarding, d4, alloc], ?_, ?_, ?_⟩
    · simp only [Rx.step, d1, d2]
      rw [← stream]
      simp [List.append_assoc, List.take_append_drop]
    · simp only [Rx.step, Info.doneForwarding, List.length_append, fwd, U32]; omega
    · simp only [Rx.step, List.length_append, d4]; omega

def Rx.run (s : Rx) : List RxOp → Rx
  | [] => s
  | op :: ops => (s.step op).run ops

/-- every operation of the sequence is honest in the state it is applied to -/
def Rx.HonestRun (s : Rx) : List RxOp → Prop
  | [] => True
  | op :: ops => s.Honest op ∧ (s.step op).HonestRun ops

/-- **Loss-freedom**: for a peer honouring the advertised credit, for any packetisation, any poll
    schedule and any read sizes: `delivered ++ ringContents ++ inFlight = sent` throughout. -/
theorem lossfree (ops : List RxOp) (s : Rx) (h : s.Inv) (hh : s.HonestRun ops) : (s.run ops).Inv := by
  induction ops generalizing s with
  | nil => exact h
  | cons op ops ih => exact ih (s.step op) (rx_step_inv s h op hh.1) hh.2

/-- once everything has been polled and read, the bytes read are exactly the bytes sent, in order -/
theorem lossfree_drained (s : Rx) (h : s.Inv) (hw : s.wire = []) (hu : s.ring.used = 0) :
    s.delivered = s.sent := by
  have hc : s.ring.contents = [] := by
    have := VsockRing.contents_length s.ring
    rw [hu] at this; exact List.eq_nil_of_length_eq_zero this
  have := h.stream
  rw [hw, hc] at this; simpa using this

/-- no data packet of an honest peer is ever refused (`OutputBufferTooShort` cannot happen) -/
theorem honest_never_refused (s : Rx) (h : s.Inv) (b : List Byte) (w : List (List Byte)) (hw : s.wire = b :: w) :
    (s.ring.add b).2 = true := by
  have hlen := congrArg List.length h.stream
  rw [hw] at hlen
  simp only [List.length_append, VsockRing.contents_length, List.flatten_cons] at hlen
  have hfit : b.length ≤ s.ring.free := by simp only [Ring.free]; have := h.window; omega
  exact (VsockRing.add_ok s.ring h.wf b hfit).1

/-- **The advertised credit never overstates the free receive space**: what a peer computes from
    the advertised `(buf_alloc, fwd_cnt)` and its own count `rx` of bytes the driver has taken off
    the wire, in wrapping 32-bit arithmetic, is exactly the free ring space — for every state
    reachable with an honest peer, also after `fwd_cnt` has wrapped. -/
theorem advertised_credit_exact (s : Rx) (h : s.Inv) :
    s.info.bufAlloc - (((s.delivered.length + s.ring.used) % U32 + U32 - s.info.fwdCnt % U32) % U32)
      = s.ring.free := by
  have := h.wf.cap_lt
  have := h.wf.used_le
  rw [h.fwd, h.alloc]
  simp only [Ring.free, U32] at *
  omega

/-! ## 6. Tie to the connection-manager model: `recv` is drain + done_forwarding -/

theorem mgr_recv (m : Mgr) (k : Key) (c : Conn) (n : Nat) (hl : m.lookup k = some c) (hw : c.ring.Wf)
    (hs : c.peerShutdown = false) :
    (recv m k n).2 = { res := .bytes (c.ring.drain n).2 }
      ∧ (recv m k n).1.lookup k
          = some { c with info := c.info.doneForwarding (c.ring.drain n).2.length, ring := (c.ring.drain n).1 } := by
  have hd := VsockRing.drain?_some c.ring hw n
  unfold recv
  simp only [hl, hd, hs, Bool.false_and, Bool.false_eq_true, if_false]
  refine ⟨trivial, ?_⟩
  simp only [Mgr.lookup] at *
  have hk := (VsockTable.find_some_key hl).2
  rw [VsockTable.find_updFirst_same_k m.conns k _ c
    (fun c' hc' => by simp only [Conn.key, Info.doneForwarding] at *; exact hk) hl]
  simp [hs]

/-! ## Non-vacuity -/

example : (Ring.new 3).Wf := (VsockRing.new_wf 3 (by decide) (by decide)).1

-- wrap-around inside a 3-byte buffer: contents stay in order while `start` moves
example : (((((Ring.new 3).add [1, 2]).1.drain 1).1.add [3, 4]).1.drain 5).2 = [2, 3, 4] := by decide
example : (((((Ring.new 3).add [1, 2]).1.drain 1).1.add [3, 4]).1).start = 1 := by decide
example : ((Ring.new 2).add [1, 2, 3]).2 = false := by decide

-- tx_cnt wraps and the window arithmetic keeps working
example : (({ dst := ⟨2, 1⟩, srcPort := 1, txCnt := 4294967290, peerFwdCnt := 4294967280, peerBufAlloc := 100 } : Info).send 3 90).accepted = true := by decide
example : (({ dst := ⟨2, 1⟩, srcPort := 1, txCnt := 4294967290, peerFwdCnt := 4294967280, peerBufAlloc := 100 } : Info).send 3 90).info.txCnt = 84 := by decide
example : (({ dst := ⟨2, 1⟩, srcPort := 1, txCnt := 4294967290, peerFwdCnt := 4294967280, peerBufAlloc := 100 } : Info).send 3 91).accepted = false := by decide

end VirtioVerif.Props.C17
