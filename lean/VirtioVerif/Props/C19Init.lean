import VirtioVerif.Props.C19
/-!
# C19 (queue level) — a fresh queue hands out tokens 0, 1, 2, … in order

`OwningQueue::new`, `VirtIOInput::new` and `VirtIONet::new` stock a fresh queue with one-buffer
chains and `assert_eq!(token, i)`.  This file proves that assertion for the concrete queue model:
the j-th submission on a fresh queue (any size, any mode) of a single non-empty buffer, with no
completion consumed in between, returns token j (for j < n), so the stocked queue holds buffer i
under token i.
-/
namespace VirtioVerif.Props.C19Init
open VirtioVerif VirtioVerif.Queue

/-- state of a fresh queue after `j` single-buffer submissions -/
structure Stocked (n j : Nat) (q : Q) : Prop where
  inv : Inv q
  hn : q.n = n
  fh : j < n → q.freeHead = j
  nu : q.numUsed = j
  next : ∀ i, j ≤ i → i + 1 < n → q.nextFn i = i + 1

theorem stocked_init (n : Nat) (ind ev ap : Bool) (hn : 0 < n) (hle : n ≤ 32768) :
    Stocked n 0 (Q.init n ind ev ap) := by
  refine ⟨inv_init n ind ev ap hn hle, rfl, fun _ => rfl, rfl, ?_⟩
  intro i _ hi
  simp only [Q.nextFn]
  rw [init_get n ind ev ap i (by omega)]
  simp [hi]

/-- one more single-buffer submission on a stocked-so-far queue returns the next token -/
theorem stocked_step (n j : Nat) (q : Q) (h : Stocked n j q) (hj : j < n)
    (ins outs : List Buf) (hone : ins.length + outs.length = 1) (hz : ∀ b ∈ ins ++ outs, b.len ≠ 0) :
    (q.add ins outs).2.1 = .token j ∧ Stocked n (j + 1) (q.add ins outs).1 := by
  obtain ⟨hinv, hn, fh', nu, nx⟩ := h
  have fh := fh' hj
  have href : addRefused q (ins.length + outs.length) = false := by
    simp only [addRefused, hone, nu, hn]
    simp; omega
  have hcap : q.numUsed + (ins.length + outs.length) ≤ q.n := by rw [nu, hn, hone]; omega
  obtain ⟨q3, c, evs, e, i3, f, hch, _, _, _, _, _, _, hnf, hnu, hfh⟩ :=
    addDirect_inv q q.out ins outs hinv (by omega) hz hcap
  have hbuild : buildChain q ins outs = some (q3, c, evs) := by
    unfold buildChain
    have : ¬ ((q.indirect && decide (ins.length + outs.length > 1)) = true) := by simp [hone]
    rw [if_neg this]; exact e
  have hadd : q.add ins outs = ((publish q3 c).1, .token c.head, evs ++ (publish q3 c).2) := by
    unfold Q.add
    rw [if_neg (by omega), href]
    simp only [Bool.false_eq_true, if_false, hbuild]
  -- the free list starts at j
  obtain ⟨free, hl, _, _, hlen⟩ := hinv.free
  have hfne : free ≠ [] := by
    intro e0
    rw [e0] at hlen
    have := hinv.numUsed
    simp only [List.nil_append] at hlen
    omega
  obtain ⟨a, rest, hfr⟩ := List.exists_cons_of_ne_nil hfne
  rw [hfr] at hl
  have ha : a = j := by rw [← hl.1, fh]
  rw [hadd]
  refine ⟨by rw [hch, fh], ?_⟩
  have hinv' : Inv (q.add ins outs).1 := (add_inv q ins outs hinv hz).1
  rw [hadd] at hinv'
  refine ⟨hinv', by simp [publish, f.n, hn], ?_, by simp [publish, hnu, nu, hone], ?_⟩
  · intro hlast
    show q3.freeHead = j + 1
    rw [hfh a rest hl hone, ha]
    exact nx j (Nat.le_refl j) hlast
  · intro i hi hin
    show q3.nextFn i = i + 1
    rw [hnf]
    exact nx i (by omega) hin

/-- **Tokens of a fresh queue come out as 0, 1, 2, …**: after any `j ≤ n` single-buffer
submissions (each with a non-empty buffer; device-readable or device-writable) the results were
`token 0, …, token (j-1)`. -/
theorem fresh_tokens_in_order (n : Nat) :
    ∀ (subs : List (List Buf × List Buf)), subs.length ≤ n →
      (∀ s ∈ subs, s.1.length + s.2.length = 1 ∧ ∀ b ∈ s.1 ++ s.2, b.len ≠ 0) →
      ∀ (q : Q) (j : Nat), Stocked n j q → j + subs.length ≤ n →
        (subs.foldl (fun (acc : Q × List Res) s => let r := acc.1.add s.1 s.2; (r.1, acc.2 ++ [r.2.1])) (q, [])).2
          = (List.range' j subs.length).map Res.token := by
  intro subs
  induction subs with
  | nil => intro _ _ q j _ _; rfl
  | cons s rest ih =>
    intro hl hs q j hst hj
    obtain ⟨h1, h2⟩ := hs s (by simp)
    obtain ⟨r1, r2⟩ := stocked_step n j q hst (by simp at hj; omega) s.1 s.2 h1 h2
    simp only [List.foldl_cons, List.nil_append, List.length_cons, List.range'_succ, List.map_cons]
    -- push the accumulated result through the fold
    have hacc : ∀ (l : List (List Buf × List Buf)) (q0 : Q) (pre : List Res),
        (l.foldl (fun (acc : Q × List Res) s => let r := acc.1.add s.1 s.2; (r.1, acc.2 ++ [r.2.1])) (q0, pre)).2
          = pre ++ (l.foldl (fun (acc : Q × List Res) s => let r := acc.1.add s.1 s.2; (r.1, acc.2 ++ [r.2.1])) (q0, [])).2 := by
      intro l
      induction l with
      | nil => intro q0 pre; simp
      | cons x xs ihx =>
        intro q0 pre
        simp only [List.foldl_cons, List.nil_append]
        rw [ihx _ (pre ++ [_]), ihx _ [_]]
        simp
    rw [hacc rest _ [_], r1]
    have := ih (by simp at hl; omega) (fun x hx => hs x (by simp [hx])) (q.add s.1 s.2).1 (j + 1) r2
      (by simp at hj; omega)
    rw [this]
    rfl

/-- Stocking a fresh queue of size `n` (any mode) with `m ≤ n` one-buffer chains yields the tokens
`0 … m-1` in order: the assertions `assert_eq!(token, i)` of `OwningQueue::new`, `VirtIOInput::new`
and `VirtIONet::new` cannot fire. -/
theorem stocking_fresh_queue (n : Nat) (ind ev ap : Bool) (hn : 0 < n) (hle : n ≤ 32768)
    (subs : List (List Buf × List Buf)) (hm : subs.length ≤ n)
    (hs : ∀ s ∈ subs, s.1.length + s.2.length = 1 ∧ ∀ b ∈ s.1 ++ s.2, b.len ≠ 0) :
    (subs.foldl (fun (acc : Q × List Res) s => let r := acc.1.add s.1 s.2; (r.1, acc.2 ++ [r.2.1]))
        (Q.init n ind ev ap, [])).2 = (List.range subs.length).map Res.token := by
  have := fresh_tokens_in_order n subs hm hs (Q.init n ind ev ap) 0 (stocked_init n ind ev ap hn hle) (by omega)
  rw [this, List.range_eq_range']

end VirtioVerif.Props.C19Init
