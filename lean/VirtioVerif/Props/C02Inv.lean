import VirtioVerif.Lemmas.QueueReach
import VirtioVerif.Props.C02
/-!
# C02, part B — what the device can see between any two stores of a submission

For a submission accepted in any reachable state, after ANY prefix of its device-visible stores:
the available index still has its old value unless the prefix is the whole sequence; every
descriptor belonging to an already outstanding chain is untouched (so everything below the index the
device can read stays completely written, and chains it has fetched but not returned stay intact);
and no ring slot other than the one designated by the old index has changed.
-/
namespace VirtioVerif.Props.C02Inv
open VirtioVerif VirtioVerif.Queue

/-- device-visible driver-owned memory after one store -/
def applyStore (v : Vis) : Store → Vis
  | .desc i d => { v with descTable := v.descTable.setIfInBounds i d }
  | .ring s x => { v with availRing := v.availRing.setIfInBounds s x }
  | .idx x => { v with idx := x }
  | .flags x => { v with flags := x }
  | .usedEvent x => { v with usedEvent := x }

def applyStores (v : Vis) (l : List Store) : Vis := l.foldl applyStore v

/-- the descriptor index a store targets, if it is a descriptor store -/
def descTarget : Store → Option Nat
  | .desc i _ => some i
  | _ => none

/-- every store of the `add_direct` loop targets a descriptor it has taken from the free list -/
theorem addDirectLoop_targets (bufs : List (Buf × Bool)) :
    ∀ (q : Q) (last : Nat) (taken : List Nat) (evs : List Ev) (r : Q × Nat × List Nat × List Ev),
      addDirectLoop q last taken bufs evs = some r →
      (∀ s ∈ stores evs, ∃ i, descTarget s = some i ∧ i ∈ taken) →
      (∀ s ∈ stores r.2.2.2, ∃ i, descTarget s = some i ∧ i ∈ r.2.2.1) ∧ (∀ i ∈ taken, i ∈ r.2.2.1) := by
  induction bufs with
  | nil =>
    intro q last taken evs r h hs
    simp [addDirectLoop] at h
    subst h
    exact ⟨hs, fun i hi => hi⟩
  | cons bw rest ih =>
    intro q last taken evs r h hs
    obtain ⟨b, w⟩ := bw
    simp only [addDirectLoop] at h
    split at h
    · simp at h
    · split at h
      · simp at h
      · obtain ⟨h1, h2⟩ := ih _ _ _ _ _ h (by
          intro s hsm
          simp only [Q.writeDesc, stores_append, stores_cons_hal, stores_cons_st, stores_nil,
            List.mem_append, List.mem_singleton] at hsm
          rcases hsm with hsm | hsm
          · obtain ⟨i, e1, e2⟩ := hs s hsm
            exact ⟨i, e1, by simp [e2]⟩
          · subst hsm
            exact ⟨q.freeHead, rfl, by simp⟩)
        exact ⟨h1, fun i hi => h2 i (by simp [hi])⟩

theorem applyStores_desc_untouched (l : List Store) : ∀ (v : Vis) (d : Nat),
    (∀ s ∈ l, descTarget s ≠ some d) → (applyStores v l).descTable.getD d default = v.descTable.getD d default := by
  induction l with
  | nil => intro v d _; rfl
  | cons s rest ih =>
    intro v d h
    simp only [applyStores, List.foldl_cons]
    have h1 := ih (applyStore v s) d (fun x hx => h x (by simp [hx]))
    simp only [applyStores] at h1
    rw [h1]
    have hs := h s (by simp)
    cases s with
    | desc i dd =>
      have hid : i ≠ d := by intro e; subst e; simp [descTarget] at hs
      simp [applyStore, Array.getD_eq_getD_getElem?, Array.getElem?_setIfInBounds, hid]
    | ring _ _ => rfl
    | idx _ => rfl
    | flags _ => rfl
    | usedEvent _ => rfl

theorem applyStores_desc_only (l : List Store) : ∀ (v : Vis), (∀ s ∈ l, isDescStore s = true) →
    (applyStores v l).idx = v.idx ∧ (applyStores v l).availRing = v.availRing := by
  induction l with
  | nil => intro v _; exact ⟨rfl, rfl⟩
  | cons s rest ih =>
    intro v h
    simp only [applyStores, List.foldl_cons]
    obtain ⟨a, b⟩ := ih (applyStore v s) (fun x hx => h x (by simp [hx]))
    simp only [applyStores] at a b
    rw [a, b]
    have hs := h s (by simp)
    cases s <;> simp_all [applyStore, isDescStore]

theorem addDirectLoop_last_mem (bufs : List (Buf × Bool)) :
    ∀ (q : Q) (last : Nat) (taken : List Nat) (evs : List Ev) (r : Q × Nat × List Nat × List Ev),
      addDirectLoop q last taken bufs evs = some r → (last ∈ taken ∨ bufs ≠ []) → r.2.1 ∈ r.2.2.1 := by
  induction bufs with
  | nil =>
    intro q last taken evs r h hl
    simp [addDirectLoop] at h
    subst h
    rcases hl with hl | hl
    · exact hl
    · exact absurd rfl hl
  | cons bw rest ih =>
    intro q last taken evs r h _
    obtain ⟨b, w⟩ := bw
    simp only [addDirectLoop] at h
    split at h
    · simp at h
    · split at h
      · simp at h
      · exact ih _ _ _ _ _ h (Or.inl (by simp))

/-- every store of the chain construction targets a descriptor of the new chain -/
theorem buildChain_targets (q : Q) (ins outs : List Buf) (q1 : Q) (c : Chain) (evs : List Ev)
    (hk : ins.length + outs.length ≠ 0) (h : buildChain q ins outs = some (q1, c, evs)) :
    ∀ s ∈ stores evs, ∃ i, descTarget s = some i ∧ i ∈ c.descs := by
  unfold buildChain at h
  split at h
  · unfold addIndirect at h
    simp only at h
    split at h
    · simp at h
    · split at h
      · simp at h
      · split at h
        · simp at h
        · simp only [Option.some.injEq, Prod.mk.injEq] at h
          obtain ⟨_, h2, h3⟩ := h
          subst h2 h3
          intro s hs
          simp [stores_shareEvs, Q.writeDesc] at hs
          subst hs
          exact ⟨q.freeHead, rfl, by simp⟩
  · unfold addDirect at h
    split at h
    · simp at h
    · rename_i q2 last taken evs2 hl
      simp only at h
      split at h
      · simp at h
      · split at h
        · simp at h
        · simp only [Option.some.injEq, Prod.mk.injEq] at h
          obtain ⟨_, h2, h3⟩ := h
          subst h2 h3
          obtain ⟨t1, _⟩ := addDirectLoop_targets _ _ _ _ _ _ hl (by simp)
          have hne : tagBufs ins outs ≠ [] := by
            intro e
            have := congrArg List.length e
            rw [tagBufs_length] at this
            exact hk (by simpa using this)
          have hlast := addDirectLoop_last_mem _ _ _ _ _ _ hl (Or.inr hne)
          intro s hs
          simp only [Q.writeDesc, stores_append, stores_cons_st, stores_nil, List.mem_append,
            List.mem_singleton] at hs
          rcases hs with hs | hs
          · exact t1 s hs
          · subst hs; exact ⟨last, rfl, hlast⟩

/-- **Prefix safety.** -/
theorem prefix_safe (q : Q) (h : Inv q) (ins outs : List Buf) (hz : ∀ b ∈ ins ++ outs, b.len ≠ 0)
    (q' : Q) (t : Nat) (evs : List Ev) (hadd : q.add ins outs = (q', .token t, evs)) (m : Nat) :
    let v := applyStores q.vis ((stores evs).take m)
    (m < (stores evs).length → v.idx = q.availIdxMem)
      ∧ (∀ d ∈ chainDescs q.out, v.descTable.getD d default = q.descTable.getD d default)
      ∧ (∀ s, s ≠ slotOf q.n q.availIdx → v.availRing.getD s 0 = q.availRing.getD s 0) := by
  obtain ⟨q1, c, evs1, hb, hq, ht, he, hk, _⟩ := add_token_inv hadd
  have f : Frame q q1 := frame_buildChain _ _ _ _ hb
  obtain ⟨_, hdesc, _⟩ := buildChain_events _ _ _ _ _ _ hb
  have htg := buildChain_targets q ins outs q1 c evs1 hk hb
  -- the new chain's descriptors are disjoint from every outstanding chain's
  have hinv' : Inv q' := by
    have := (add_inv q ins outs h hz).1
    rw [hadd] at this; exact this
  have hout : q'.out = q.out ++ [c] := by subst hq; simp [publish, f.out]
  have hdis : ∀ d ∈ chainDescs q.out, d ∉ c.descs := by
    intro d hd hc
    obtain ⟨free, _, hnd, _, _⟩ := hinv'.free
    rw [hout, chainDescs_append] at hnd
    have := (List.nodup_append.mp (List.nodup_append.mp hnd).2.1).2.2 d hd d (by simp [chainDescs, hc])
    exact this rfl
  have hss : stores evs = stores evs1 ++ [.ring (slotOf q.n q.availIdx) t, .idx ((q.availIdx + 1) % U16)] := by
    subst he ht; simp [publish, f.n, f.availIdx]
  intro v
  -- split the prefix into its descriptor-store part and what it has of the tail
  have hvdesc : ∀ d ∈ chainDescs q.out, v.descTable.getD d default = q.descTable.getD d default := by
    intro d hd
    show (applyStores q.vis ((stores evs).take m)).descTable.getD d default = _
    rw [applyStores_desc_untouched]
    · rfl
    · intro s hs
      have hs' : s ∈ stores evs := List.mem_of_mem_take hs
      rw [hss] at hs'
      simp only [List.mem_append, List.mem_cons, List.mem_singleton, List.not_mem_nil, or_false] at hs'
      rcases hs' with hs' | hs' | hs'
      · obtain ⟨i, e1, e2⟩ := htg s hs'
        rw [e1]
        intro e
        simp at e
        subst e
        exact hdis i hd e2
      · subst hs'; simp [descTarget]
      · subst hs'; simp [descTarget]
  refine ⟨?_, hvdesc, ?_⟩
  · intro hm
    show (applyStores q.vis ((stores evs).take m)).idx = _
    rw [hss] at hm ⊢
    simp only [List.length_append, List.length_cons, List.length_nil] at hm
    -- the prefix stops before the final index store
    have hle : m ≤ (stores evs1).length + 1 := by omega
    have : List.take m (stores evs1 ++ [Store.ring (slotOf q.n q.availIdx) t, Store.idx ((q.availIdx + 1) % U16)])
        = List.take m (stores evs1 ++ [Store.ring (slotOf q.n q.availIdx) t]) := by
      rw [show stores evs1 ++ [Store.ring (slotOf q.n q.availIdx) t, Store.idx ((q.availIdx + 1) % U16)]
            = (stores evs1 ++ [Store.ring (slotOf q.n q.availIdx) t]) ++ [Store.idx ((q.availIdx + 1) % U16)] by simp]
      rw [List.take_append_of_le_length (by simp; omega)]
    rw [this]
    -- no store in that prefix is an index store
    have hnoidx : ∀ s ∈ List.take m (stores evs1 ++ [Store.ring (slotOf q.n q.availIdx) t]), ∀ x, s ≠ .idx x := by
      intro s hs x e
      have hs' := List.mem_of_mem_take hs
      simp only [List.mem_append, List.mem_singleton] at hs'
      rcases hs' with hs' | hs'
      · have := hdesc s hs'; rw [e] at this; simp [isDescStore] at this
      · rw [e] at hs'; simp at hs'
    clear this hm hle
    generalize List.take m (stores evs1 ++ [Store.ring (slotOf q.n q.availIdx) t]) = l at hnoidx
    show (applyStores q.vis l).idx = q.availIdxMem
    have : ∀ (v0 : Vis), (applyStores v0 l).idx = v0.idx := by
      induction l with
      | nil => intro v0; rfl
      | cons s rest ih =>
        intro v0
        simp only [applyStores, List.foldl_cons]
        have := ih (fun x hx => hnoidx x (by simp [hx])) (applyStore v0 s)
        simp only [applyStores] at this
        rw [this]
        have hs := hnoidx s (by simp)
        cases s with
        | idx x => exact absurd rfl (hs x)
        | desc _ _ => rfl
        | ring _ _ => rfl
        | flags _ => rfl
        | usedEvent _ => rfl
    rw [this]; rfl
  · intro s hs
    show (applyStores q.vis ((stores evs).take m)).availRing.getD s 0 = _
    have : ∀ (l : List Store) (v0 : Vis), (∀ x ∈ l, ∀ sl y, x = .ring sl y → sl = slotOf q.n q.availIdx) →
        (applyStores v0 l).availRing.getD s 0 = v0.availRing.getD s 0 := by
      intro l
      induction l with
      | nil => intro v0 _; rfl
      | cons x rest ih =>
        intro v0 hx
        simp only [applyStores, List.foldl_cons]
        have := ih (applyStore v0 x) (fun y hy => hx y (by simp [hy]))
        simp only [applyStores] at this
        rw [this]
        cases x with
        | ring sl y =>
          have e := hx _ (by simp) sl y rfl
          subst e
          simp [applyStore, Array.getD_eq_getD_getElem?, Array.getElem?_setIfInBounds, Ne.symm hs]
        | desc _ _ => rfl
        | idx _ => rfl
        | flags _ => rfl
        | usedEvent _ => rfl
    rw [this]
    · rfl
    · intro x hx sl y e
      have hx' : x ∈ stores evs := List.mem_of_mem_take hx
      rw [hss] at hx'
      simp only [List.mem_append, List.mem_cons, List.mem_singleton, List.not_mem_nil, or_false] at hx'
      rcases hx' with hx' | hx' | hx'
      · have := hdesc x hx'; rw [e] at this; simp [isDescStore] at this
      · rw [e] at hx'; simp at hx'; exact hx'.1
      · rw [e] at hx'; simp at hx'

end VirtioVerif.Props.C02Inv
