import VirtioVerif.Model.Blk
import VirtioVerif.Lemmas.AbsQueue
import VirtioVerif.Spec.Blk
/-!
# C14 — block requests carry the caller's data intact and match the right completion

The statements are about the executable model `Model/Blk.lean` (tied to `src/device/blk.rs` by the
correspondence run) over the abstract queue `Model/AbsQueue.lean`.  They quantify over every
sector, every buffer length, every status byte, every queue state reachable by any history and
every completion order chosen by the device.
-/
namespace VirtioVerif.Props.C14
open VirtioVerif VirtioVerif.AbsQueue VirtioVerif.Blk VirtioVerif.Bytes

theorem le_length (n v : Nat) : (le n v).length = n := by
  induction n generalizing v with
  | zero => rfl
  | succ n ih => simp [le, ih]

theorem unle_le (n v : Nat) : unle (le n v) = v % 256 ^ n := by
  induction n generalizing v with
  | zero => simp [le, unle, Nat.mod_one]
  | succ n ih =>
    simp only [le, unle, ih]
    rw [Nat.pow_succ, Nat.mul_comm (256 ^ n) 256, Nat.mod_mul]
    
theorem le_lt (n v : Nat) : ∀ b ∈ le n v, b < 256 := by
  induction n generalizing v with
  | zero => simp [le]
  | succ n ih =>
    intro b hb
    simp only [le, List.mem_cons] at hb
    rcases hb with rfl | hb
    · exact Nat.mod_lt _ (by decide)
    · exact ih _ b hb

theorem take_app {α} (a b : List α) (n : Nat) (h : a.length = n) : (a ++ b).take n = a := by
  subst h; simp

theorem drop_app {α} (a b : List α) (n : Nat) (h : a.length = n) : (a ++ b).drop n = b := by
  subst h; simp

theorem encodeReq_length (r : Req) : (encodeReq r).length = 16 := by
  simp [encodeReq, le_length]

theorem decode_encode (r : Req) (ht : r.type < 2 ^ 32) (hr : r.reserved < 2 ^ 32) (hs : r.sector < 2 ^ 64) :
    decodeReq (encodeReq r) = r := by
  have a : (encodeReq r).take 4 = le 4 r.type := by
    rw [encodeReq, List.append_assoc]; exact take_app _ _ 4 (le_length _ _)
  have b : ((encodeReq r).drop 4).take 4 = le 4 r.reserved := by
    rw [encodeReq, List.append_assoc, drop_app _ _ 4 (le_length _ _)]; exact take_app _ _ 4 (le_length _ _)
  have c : ((encodeReq r).drop 8).take 8 = le 8 r.sector := by
    rw [encodeReq, drop_app _ _ 8 (by simp [le_length])]
    have := take_app (le 8 r.sector) [] 8 (le_length _ _)
    simpa using this
  simp only [decodeReq, a, b, c, unle_le]
  cases r
  simp only [Req.mk.injEq]
  refine ⟨Nat.mod_eq_of_lt ?_, Nat.mod_eq_of_lt ?_, Nat.mod_eq_of_lt ?_⟩ <;> simp_all <;> omega

/-! ## wire format against the specification's table -/

/-- the bytes of a named header field, cut out at the position the specification's table gives -/
def fieldBytes (b : Bytes) (name : String) : Option Bytes :=
  (Spec.Blk.reqHeader.find? (·.1 == name)).map fun f => (b.drop f.2.1).take f.2.2

/-- Every header field sits at the offset and has the size and little-endian encoding the
    specification prescribes; the header is 16 bytes of values `< 256`. -/
theorem encode_matches_spec (r : Req) :
    (encodeReq r).length = Spec.Blk.reqHeaderSize
    ∧ fieldBytes (encodeReq r) "type" = some (le 4 r.type)
    ∧ fieldBytes (encodeReq r) "reserved" = some (le 4 r.reserved)
    ∧ fieldBytes (encodeReq r) "sector" = some (le 8 r.sector)
    ∧ ∀ b ∈ encodeReq r, b < 256 := by
  refine ⟨encodeReq_length r, ?_, ?_, ?_, ?_⟩
  · simp only [fieldBytes, Spec.Blk.reqHeader, List.find?, beq_self_eq_true, Option.map_some, List.drop_zero]
    rw [encodeReq, List.append_assoc]; rw [take_app _ _ 4 (le_length _ _)]
  · have : (Spec.Blk.reqHeader.find? (·.1 == "reserved")) = some ("reserved", 4, 4) := by decide
    simp only [fieldBytes, this, Option.map_some]
    rw [encodeReq, List.append_assoc, drop_app _ _ 4 (le_length _ _), take_app _ _ 4 (le_length _ _)]
  · have : (Spec.Blk.reqHeader.find? (·.1 == "sector")) = some ("sector", 8, 8) := by decide
    simp only [fieldBytes, this, Option.map_some]
    rw [encodeReq, drop_app _ _ 8 (by simp [le_length])]
    have := take_app (le 8 r.sector) [] 8 (le_length _ _)
    simpa using congrArg some this
  · intro b hb
    simp only [encodeReq, List.mem_append] at hb
    rcases hb with (hb | hb) | hb <;> exact le_lt _ _ b hb

/-- request type and status codes are the specification's -/
theorem codes_match_spec :
    T_IN = Spec.Blk.VIRTIO_BLK_T_IN ∧ T_OUT = Spec.Blk.VIRTIO_BLK_T_OUT
    ∧ T_FLUSH = Spec.Blk.VIRTIO_BLK_T_FLUSH ∧ T_GET_ID = Spec.Blk.VIRTIO_BLK_T_GET_ID
    ∧ F_RO = Spec.Blk.VIRTIO_BLK_F_RO ∧ F_FLUSH = Spec.Blk.VIRTIO_BLK_F_FLUSH
    ∧ SECTOR_SIZE = Spec.Blk.sectorSize := by decide

/-! ## chain shapes, for every sector and every length -/

/-- read: [16-byte header: IN, 0, sector] device-readable; [caller's buffer, 1 status byte] device-writable -/
theorem readChain_shape (sector len : Nat) (hs : sector < 2 ^ 64) :
    ∃ hdr, (readChain sector len).rd = [hdr] ∧ hdr.length = 16
      ∧ decodeReq hdr = ⟨Spec.Blk.VIRTIO_BLK_T_IN, 0, sector⟩
      ∧ (readChain sector len).wr = [len, 1] :=
  ⟨_, rfl, encodeReq_length _, decode_encode _ (by simp [T_IN, T_OUT]) (by simp) hs, rfl⟩

/-- write: [header: OUT, 0, sector ; exactly the caller's bytes] device-readable; [1 status byte] device-writable -/
theorem writeChain_shape (sector : Nat) (data : Bytes) (hs : sector < 2 ^ 64) :
    ∃ hdr, (writeChain sector data).rd = [hdr, data] ∧ hdr.length = 16
      ∧ decodeReq hdr = ⟨Spec.Blk.VIRTIO_BLK_T_OUT, 0, sector⟩
      ∧ (writeChain sector data).wr = [1] :=
  ⟨_, rfl, encodeReq_length _, decode_encode _ (by simp [T_IN, T_OUT]) (by simp) hs, rfl⟩

theorem flushChain_shape :
    ∃ hdr, flushChain.rd = [hdr] ∧ hdr.length = 16
      ∧ decodeReq hdr = ⟨Spec.Blk.VIRTIO_BLK_T_FLUSH, 0, 0⟩ ∧ flushChain.wr = [1] :=
  ⟨_, rfl, encodeReq_length _, decode_encode _ (by decide) (by decide) (by decide), rfl⟩

theorem idChain_shape :
    ∃ hdr, idChain.rd = [hdr] ∧ hdr.length = 16
      ∧ decodeReq hdr = ⟨Spec.Blk.VIRTIO_BLK_T_GET_ID, 0, 0⟩
      ∧ idChain.wr = [Spec.Blk.VIRTIO_BLK_ID_BYTES, 1] :=
  ⟨_, rfl, encodeReq_length _, decode_encode _ (by decide) (by decide) (by decide), rfl⟩

/-- every chain the driver builds ends in a one-byte device-writable status -/
theorem status_last (sector len : Nat) (data : Bytes) :
    (readChain sector len).wr.getLast? = some 1 ∧ (writeChain sector data).wr.getLast? = some 1
    ∧ flushChain.wr.getLast? = some 1 ∧ idChain.wr.getLast? = some 1 := by
  simp [readChain, writeChain, flushChain, idChain]

/-! ## status byte ↦ result, total over all status values -/

theorem statusResult_total (s : Nat) :
    (s = Spec.Blk.VIRTIO_BLK_S_OK → statusResult s = .ok ())
    ∧ (s = Spec.Blk.VIRTIO_BLK_S_IOERR → statusResult s = .error .ioError)
    ∧ (s = Spec.Blk.VIRTIO_BLK_S_UNSUPP → statusResult s = .error .unsupported)
    ∧ (s = 3 → statusResult s = .error .notReady)
    ∧ (3 < s → statusResult s = .error .ioError) := by
  refine ⟨?_, ?_, ?_, ?_, ?_⟩ <;> intro h
  · subst h; rfl
  · subst h; rfl
  · subst h; rfl
  · subst h; rfl
  · unfold statusResult
    have : s ≠ 0 ∧ s ≠ 1 ∧ s ≠ 2 ∧ s ≠ 3 := by omega
    simp [this]

/-- success is reported for status OK and for nothing else -/
theorem statusResult_ok_iff (s : Nat) : statusResult s = .ok () ↔ s = 0 := by
  unfold statusResult
  constructor
  · intro h
    by_cases h0 : s = 0
    · exact h0
    · simp only [h0, if_false] at h
      split at h; · cases h
      split at h; · cases h
      split at h <;> cases h
  · intro h; simp [h]

/-! ## configuration and features -/

theorem supported_testBit (i : Nat) :
    SUPPORTED.testBit i = (i == 5 || i == 9 || i == 28 || i == 29 || i == 32 || i == 33) := by
  by_cases h : i < 34
  · have : ∀ j, j < 34 → SUPPORTED.testBit j = (j == 5 || j == 9 || j == 28 || j == 29 || j == 32 || j == 33) := by decide
    exact this i h
  · have hi : 34 ≤ i := by omega
    have h1 : SUPPORTED < 2 ^ i := Nat.lt_of_lt_of_le (by decide : SUPPORTED < 2 ^ 34) (Nat.pow_le_pow_right (by decide) hi)
    rw [Nat.testBit_lt_two_pow h1]
    have : i ≠ 5 ∧ i ≠ 9 ∧ i ≠ 28 ∧ i ≠ 29 ∧ i ≠ 32 ∧ i ≠ 33 := by omega
    simp [this]

/-- capacity = low word + 2^32 · high word, for all 32-bit words -/
theorem capacity_formula (offered lo hi : Nat) (hl : lo < 2 ^ 32) :
    (new offered lo hi).capacity = lo + hi * 2 ^ 32 := by
  simp only [new]
  rw [Nat.or_comm, ← Nat.shiftLeft_add_eq_or_of_lt hl, Nat.shiftLeft_eq]
  omega

/-- read-only ⇔ the device offered `VIRTIO_BLK_F_RO` -/
theorem readonly_iff (offered lo hi : Nat) :
    (new offered lo hi).readonly = offered.testBit Spec.Blk.VIRTIO_BLK_F_RO := by
  simp [new, State.readonly, Nat.testBit_and, supported_testBit, F_RO, Spec.Blk.VIRTIO_BLK_F_RO]

theorem flushOk_iff (offered lo hi : Nat) :
    (new offered lo hi).flushOk = offered.testBit Spec.Blk.VIRTIO_BLK_F_FLUSH := by
  simp [new, State.flushOk, Nat.testBit_and, supported_testBit, F_FLUSH, Spec.Blk.VIRTIO_BLK_F_FLUSH]

/-- nothing the device did not offer, and nothing the driver does not know, is negotiated -/
theorem negotiated_subset (offered lo hi i : Nat) :
    (new offered lo hi).features.testBit i = (offered.testBit i && SUPPORTED.testBit i) := by
  simp [new, Nat.testBit_and]

/-! ## flush is sent only when negotiated -/

/-- without `VIRTIO_BLK_F_FLUSH`: `Ok(())`, no chain submitted, state untouched -/
theorem flush_not_negotiated (st : State) (tok : Nat) (dev : DevResp) (h : st.flushOk = false) :
    flush st tok dev = (st, { res := .ok () }, false) := by
  simp [flush, h]

/-- with the feature: the chain submitted (if the queue accepts it) is the flush chain -/
theorem flush_negotiated (st : State) (tok : Nat) (dev : DevResp) (h : st.flushOk = true) :
    (flush st tok dev).2.2 = true
    ∧ (flush st tok dev).1 = (blocking st tok flushChain dev).1 := by
  simp [flush, h]

/-! ## parameter validation -/

/-- an empty or non-sector-multiple buffer: the `assert`s fire before anything is submitted -/
theorem bad_length_panics (st : State) (tok sector len : Nat) (data : Bytes) (dev : DevResp)
    (h : lenOk len = false) (hd : lenOk data.length = false) :
    readNb st tok sector len = (st, .error .panic)
    ∧ writeNb st tok sector data = (st, .error .panic)
    ∧ (readBlocks st tok sector len dev).1 = st ∧ isPanic (readBlocks st tok sector len dev).2.res = true
    ∧ (writeBlocks st tok sector data dev).1 = st ∧ isPanic (writeBlocks st tok sector data dev).2.res = true := by
  simp [readNb, writeNb, readBlocks, writeBlocks, h, hd, isPanic]

theorem lenOk_iff (len : Nat) : lenOk len = true ↔ len ≠ 0 ∧ len % 512 = 0 := by
  simp [lenOk, SECTOR_SIZE]

/-- a valid length never trips the queue's "buffer must not be empty" assertion -/
theorem add_no_panic (q : Q) (tok sector len : Nat) (data : Bytes) (h : lenOk len = true) (hd : lenOk data.length = true) :
    q.add tok (readChain sector len) ≠ .error .panic ∧ q.add tok (writeChain sector data) ≠ .error .panic
    ∧ q.add tok flushChain ≠ .error .panic ∧ q.add tok idChain ≠ .error .panic := by
  have hl : len ≠ 0 := ((lenOk_iff len).1 h).1
  have hdl : data ≠ [] := by
    intro e; subst e; simp [lenOk] at hd
  have he : ∀ r, (encodeReq r).isEmpty = false := by
    intro r
    have := encodeReq_length r
    cases hh : encodeReq r with
    | nil => rw [hh] at this; cases this
    | cons a b => rfl
  have hde : data.isEmpty = false := by
    cases data with
    | nil => exact absurd rfl hdl
    | cons a b => rfl
  refine ⟨?_, ?_, ?_, ?_⟩ <;> intro hp <;> have := add_panic hp
  · simp [readChain, he, hl] at this
  · simp [writeChain, he, hde] at this
  · simp [flushChain, he] at this
  · simp [idChain, he] at this

/-! ## the non-blocking interface -/

/-- `read_blocks_nb` submits exactly the read chain under the returned token and nothing else -/
theorem readNb_ok {st st' : State} {tok sector len t : Nat} (h : readNb st tok sector len = (st', .ok t)) :
    t = tok ∧ st.q.add tok (readChain sector len) = .ok st'.q
    ∧ st'.q.out = st.q.out ++ [(tok, readChain sector len)] ∧ st'.q.used = st.q.used
    ∧ st'.features = st.features ∧ st'.capacity = st.capacity := by
  unfold readNb at h
  split at h; · cases h
  split at h; · cases h
  rename_i q hq
  injection h with h1 h2
  injection h2 with h2
  subst h1 h2
  obtain ⟨rfl, _⟩ := add_ok hq
  exact ⟨rfl, hq, rfl, rfl, rfl, rfl⟩

/-- `write_blocks_nb` submits the write chain: header, then exactly the caller's bytes, device-readable -/
theorem writeNb_ok {st st' : State} {tok sector t : Nat} {data : Bytes} (h : writeNb st tok sector data = (st', .ok t)) :
    t = tok ∧ st.q.add tok (writeChain sector data) = .ok st'.q
    ∧ st'.q.out = st.q.out ++ [(tok, writeChain sector data)] ∧ st'.q.used = st.q.used := by
  unfold writeNb at h
  split at h; · cases h
  split at h; · cases h
  rename_i q hq
  injection h with h1 h2
  injection h2 with h2
  subst h1 h2
  obtain ⟨rfl, _⟩ := add_ok hq
  exact ⟨rfl, hq, rfl, rfl⟩

/-- a refused completion (`NotReady`: nothing completed yet; `WrongToken`: another request is next
    in used-ring order) changes nothing -/
theorem complete_refused (st : State) (tok : Nat) (e : Err) (h : st.q.pop tok = .error e) :
    completeRead st tok = (st, { res := .error e }) ∧ completeWrite st tok = (st, { res := .error e }) := by
  simp [completeRead, completeWrite, h]

/-- **Each completion returns the status and data of its own request.**  In any well-formed
    (= reachable, see `wf_run`) state, a `complete_read_blocks(tok)` that is accepted returns the
    status byte and the data of the one record `d` the device published for `tok`. -/
theorem completeRead_own (st : State) (tok : Nat) (hw : WF st.q) {q' : Q} {d : Done}
    (h : st.q.pop tok = .ok (q', d)) :
    completeRead st tok = ({ st with q := q' }, { res := statusResult (Done.status d), buf := Done.rdata d })
    ∧ d ∈ st.q.used ∧ d.tok = tok ∧ (∀ d' ∈ st.q.used, d'.tok = tok → d' = d) := by
  refine ⟨by simp [completeRead, h, ioOfDone], pop_own hw h⟩

theorem completeWrite_own (st : State) (tok : Nat) (hw : WF st.q) {q' : Q} {d : Done}
    (h : st.q.pop tok = .ok (q', d)) :
    completeWrite st tok = ({ st with q := q' }, { res := statusResult (Done.status d), buf := none })
    ∧ d ∈ st.q.used ∧ d.tok = tok ∧ (∀ d' ∈ st.q.used, d'.tok = tok → d' = d) := by
  refine ⟨by simp [completeWrite, h, ioOfDone], pop_own hw h⟩

theorem shape2 {data : List Bytes} {a b : Nat} (h : data.map List.length = [a, b]) :
    ∃ x y, data = [x, y] ∧ x.length = a ∧ y.length = b := by
  match data, h with
  | [x, y], h => simp at h; exact ⟨x, y, rfl, h.1, h.2⟩

theorem shape1 {data : List Bytes} {a : Nat} (h : data.map List.length = [a]) :
    ∃ x, data = [x] ∧ x.length = a := by
  match data, h with
  | [x], h => simp at h; exact ⟨x, rfl, h⟩

theorem len1 {y : Bytes} (h : y.length = 1) : ∃ s, y = [s] := by
  match y, h with
  | [s], _ => exact ⟨s, rfl⟩

/-- **Reads return exactly the bytes the device supplied for that request**, all `len` of them,
    together with the mapping of the status byte the device wrote for that request. -/
theorem read_returns_device_bytes (st : State) (tok sector len : Nat) (hw : WF st.q)
    (hout : (tok, readChain sector len) ∈ st.q.out) {q' : Q} {d : Done} (h : st.q.pop tok = .ok (q', d)) :
    ∃ bytes s, d.data = [bytes, [s]] ∧ bytes.length = len
      ∧ (completeRead st tok).2.res = statusResult s ∧ (completeRead st tok).2.buf = some bytes := by
  have hs := pop_shape hw hout h
  obtain ⟨x, y, hd, hx, hy⟩ := shape2 (a := len) (b := 1) hs
  obtain ⟨s, rfl⟩ := len1 hy
  refine ⟨x, s, hd, hx, ?_, ?_⟩
  · rw [(completeRead_own st tok hw h).1]; simp [Done.status, hd]
  · rw [(completeRead_own st tok hw h).1]; simp [Done.rdata, hd]

/-- **Writes deliver exactly the caller's bytes**: from submission until its own completion is
    consumed, the chain outstanding under the token consists of the header for (OUT, sector) and
    the caller's bytes; the completion carries just the status byte of that request. -/
theorem write_delivers_caller_bytes (st : State) (tok sector : Nat) (data : Bytes) (hw : WF st.q)
    (hout : (tok, writeChain sector data) ∈ st.q.out) {q' : Q} {d : Done} (h : st.q.pop tok = .ok (q', d)) :
    (writeChain sector data).rd = [encodeReq ⟨T_OUT, 0, sector⟩, data]
    ∧ ∃ s, d.data = [[s]] ∧ (completeWrite st tok).2.res = statusResult s := by
  refine ⟨rfl, ?_⟩
  have hs := pop_shape hw hout h
  obtain ⟨y, hd, hy⟩ := shape1 (a := 1) hs
  obtain ⟨s, rfl⟩ := len1 hy
  refine ⟨s, hd, ?_⟩
  rw [(completeWrite_own st tok hw h).1]; simp [Done.status, hd]

/-- complete the given tokens one after the other -/
def completeMany (st : State) : List Nat → State × List IoOut
  | [] => (st, [])
  | t :: ts =>
    let r := completeRead st t
    let r2 := completeMany r.1 ts
    (r2.1, r.2 :: r2.2)

def ownOut (d : Done) : IoOut := { res := statusResult (Done.status d), buf := Done.rdata d }

theorem completeMany_used (st : State) (ds rest : List Done) (hu : st.q.used = ds ++ rest) :
    (completeMany st (ds.map (·.tok))).2 = ds.map ownOut
    ∧ (completeMany st (ds.map (·.tok))).1.q.used = rest
    ∧ (completeMany st (ds.map (·.tok))).1.q.out = st.q.out.filter (fun p => !(ds.map (·.tok)).contains p.1) := by
  induction ds generalizing st with
  | nil => exact ⟨rfl, by simpa [completeMany] using hu, by simpa [completeMany] using (List.filter_eq_self.2 (by simp)).symm⟩
  | cons d ds ih =>
    have hu' : st.q.used = d :: (ds ++ rest) := by simpa using hu
    have hp := pop_head hu'
    have hc : completeRead st d.tok = ({ st with q := { st.q with out := st.q.out.filter (fun p => p.1 != d.tok), used := ds ++ rest } }, ownOut d) := by
      simp [completeRead, hp, ioOfDone, ownOut]
    obtain ⟨h1, h2, h3⟩ := ih { st with q := { st.q with out := st.q.out.filter (fun p => p.1 != d.tok), used := ds ++ rest } } rfl
    simp only [List.map_cons, completeMany, hc]
    refine ⟨by rw [h1], h2, ?_⟩
    rw [h3]
    simp only [List.filter_filter]
    congr 1
    funext p
    rw [List.contains_cons]
    by_cases hpd : p.1 = d.tok
    · simp [hpd]
    · have : (p.1 == d.tok) = false := by simpa using hpd
      simp [this, bne, Bool.and_comm]

/-- **Any completion order.**  With any number of requests outstanding and nothing yet completed,
    let the device complete any of them (`ds`: any subset, any order — a permutation when all are
    completed — any status bytes, any data).  Completing them then returns, request by request,
    the status and data the device supplied for *that* request; afterwards the used ring is empty
    and exactly the completed requests have left the queue. -/
theorem any_completion_order (st : State) (hu : st.q.used = []) (ds : List Done) {q1 : Q}
    (h : st.q.completeAll ds = some q1) :
    (completeMany { st with q := q1 } (ds.map (·.tok))).2 = ds.map ownOut
    ∧ (completeMany { st with q := q1 } (ds.map (·.tok))).1.q.used = []
    ∧ (completeMany { st with q := q1 } (ds.map (·.tok))).1.q.out
        = st.q.out.filter (fun p => !(ds.map (·.tok)).contains p.1) := by
  obtain ⟨a, b, _, _⟩ := completeAll_used h
  have := completeMany_used { st with q := q1 } ds [] (by simp [a, hu])
  simpa [b] using this

/-! ## blocking calls -/

/-- A blocking call on an idle queue (nothing completed and unconsumed — the precondition the
    crate documents) whose chain the queue accepts: the device's answer for *this* chain comes
    back, and the queue is as before. -/
theorem blocking_idle (st : State) (tok : Nat) (c : Chain) (dev : DevResp)
    (hu : st.q.used = []) {q1 : Q} (ha : st.q.add tok c = .ok q1)
    (hs : dev.data.map List.length = c.wr) :
    (blocking st tok c dev).2 = .ok ⟨tok, dev.len, dev.data⟩
    ∧ (blocking st tok c dev).1.q.used = [] ∧ (blocking st tok c dev).1.q.out = st.q.out := by
  obtain ⟨rfl, _, _, _, hfresh⟩ := add_ok ha
  have hnot := hasTok_false hfresh
  have hfind : (st.q.out ++ [(tok, c)]).find? (fun p => p.1 == tok) = some (tok, c) := by
    rw [List.find?_append]
    have : st.q.out.find? (fun p => p.1 == tok) = none := by
      rw [List.find?_eq_none]
      intro p hp he
      exact hnot (List.mem_map.2 ⟨p, hp, by simpa using he⟩)
    simp [this]
  have hfilter : (st.q.out ++ [(tok, c)]).filter (fun p => p.1 != tok) = st.q.out := by
    rw [List.filter_append]
    have : st.q.out.filter (fun p => p.1 != tok) = st.q.out := by
      rw [List.filter_eq_self]
      intro p hp
      have : p.1 ≠ tok := fun he => hnot (List.mem_map.2 ⟨p, hp, he⟩)
      simpa using this
    simp [this]
  simp [blocking, ha, hu, Q.complete, hfind, hs, Q.pop, hfilter]

/-- `read_blocks` on an idle queue returns exactly the device's bytes and the mapped status -/
theorem readBlocks_idle (st : State) (tok sector len : Nat) (dev : DevResp)
    (hl : lenOk len = true) (hu : st.q.used = []) {q1 : Q} (ha : st.q.add tok (readChain sector len) = .ok q1)
    (bytes : Bytes) (s : Nat) (hd : dev.data = [bytes, [s]]) (hb : bytes.length = len) :
    (readBlocks st tok sector len dev).2.res = statusResult s
    ∧ (readBlocks st tok sector len dev).2.buf = some bytes
    ∧ (readBlocks st tok sector len dev).1.q.out = st.q.out := by
  have hb := blocking_idle st tok (readChain sector len) dev hu ha (by simp [hd, hb, readChain])
  simp only [readBlocks, hl, Bool.not_true, Bool.false_eq_true, if_false]
  refine ⟨?_, ?_, hb.2.2⟩
  · rw [hb.1]; simp [ioOfDone, Done.status, hd]
  · rw [hb.1]; simp [ioOfDone, Done.rdata, hd]

/-- `write_blocks` on an idle queue: the device sees header ++ the caller's bytes; the result is
    the mapped status of this request -/
theorem writeBlocks_idle (st : State) (tok sector : Nat) (data : Bytes) (dev : DevResp)
    (hl : lenOk data.length = true) (hu : st.q.used = []) {q1 : Q}
    (ha : st.q.add tok (writeChain sector data) = .ok q1) (s : Nat) (hd : dev.data = [[s]]) :
    (writeBlocks st tok sector data dev).2.res = statusResult s
    ∧ q1.out = st.q.out ++ [(tok, writeChain sector data)]
    ∧ (writeBlocks st tok sector data dev).1.q.out = st.q.out := by
  have hb := blocking_idle st tok (writeChain sector data) dev hu ha (by simp [hd, writeChain])
  simp only [writeBlocks, hl, Bool.not_true, Bool.false_eq_true, if_false]
  refine ⟨?_, ?_, hb.2.2⟩
  · rw [hb.1]; simp [ioOfDone, Done.status, hd]
  · obtain ⟨rfl, _⟩ := add_ok ha; rfl

/-! ## all histories -/

inductive Op
  | readNb (tok sector len : Nat)
  | writeNb (tok sector : Nat) (data : Bytes)
  | dev (d : Done)
  | completeRead (tok : Nat)
  | completeWrite (tok : Nat)
  | read (tok sector len : Nat) (dev : DevResp)
  | write (tok sector : Nat) (data : Bytes) (dev : DevResp)
  | flush (tok : Nat) (dev : DevResp)
  | id (tok : Nat) (dev : DevResp)

def step (st : State) : Op → State
  | .readNb t s l => (readNb st t s l).1
  | .writeNb t s d => (writeNb st t s d).1
  | .dev d => (devComplete st d).getD st
  | .completeRead t => (completeRead st t).1
  | .completeWrite t => (completeWrite st t).1
  | .read t s l dv => (readBlocks st t s l dv).1
  | .write t s d dv => (writeBlocks st t s d dv).1
  | .flush t dv => (flush st t dv).1
  | .id t dv => (deviceId st t dv).1

def run (st : State) (ops : List Op) : State := ops.foldl step st

theorem wf_blocking (st : State) (tok : Nat) (c : Chain) (dev : DevResp) (hw : WF st.q) :
    WF (blocking st tok c dev).1.q := by
  unfold blocking
  split
  · exact hw
  · rename_i q1 ha
    have w1 := wf_add hw ha
    split
    · exact w1
    · rename_i q2 hc
      have w2 : WF q2 := by
        split at hc
        · exact wf_complete w1 hc
        · injection hc with hc; subst hc; exact w1
      split
      · exact w2
      · rename_i q3 d hp
        exact wf_pop w2 hp

theorem wf_step (st : State) (op : Op) (hw : WF st.q) : WF (step st op).q := by
  cases op with
  | readNb t s l =>
    simp only [step, readNb]
    split; · exact hw
    split
    · exact hw
    · rename_i q hq; exact wf_add hw hq
  | writeNb t s d =>
    simp only [step, writeNb]
    split; · exact hw
    split
    · exact hw
    · rename_i q hq; exact wf_add hw hq
  | dev d =>
    simp only [step, devComplete]
    cases hc : st.q.complete d with
    | none => simpa using hw
    | some q => simpa using wf_complete hw hc
  | completeRead t =>
    simp only [step, completeRead]
    split
    · exact hw
    · rename_i q d hp; exact wf_pop hw hp
  | completeWrite t =>
    simp only [step, completeWrite]
    split
    · exact hw
    · rename_i q d hp; exact wf_pop hw hp
  | read t s l dv =>
    simp only [step, readBlocks]
    split; · exact hw
    exact wf_blocking st t _ dv hw
  | write t s d dv =>
    simp only [step, writeBlocks]
    split; · exact hw
    exact wf_blocking st t _ dv hw
  | flush t dv =>
    simp only [step, flush]
    split
    · exact wf_blocking st t _ dv hw
    · exact hw
  | id t dv =>
    have := wf_blocking st t idChain dv hw
    simp only [step, deviceId]
    split <;> exact this

/-- every state reachable from a freshly constructed driver by any sequence of driver calls and
    device completions is well-formed — so `completeRead_own`, `read_returns_device_bytes`,
    `write_delivers_caller_bytes`, `blocking_idle` apply at every point of every history -/
theorem wf_run (offered lo hi : Nat) (ops : List Op) : WF (run (new offered lo hi) ops).q := by
  have : ∀ st, WF st.q → WF (run st ops).q := by
    induction ops with
    | nil => intro st h; exact h
    | cons op ops ih => intro st h; exact ih _ (wf_step st op h)
  exact this _ (wf_init _ _)

/-- at most `QUEUE_SIZE` requests are ever outstanding, under pairwise distinct tokens -/
theorem outstanding_bounded (offered lo hi : Nat) (ops : List Op) :
    let q := (run (new offered lo hi) ops).q
    (q.out.map (·.1)).Nodup ∧ ∀ p ∈ q.out, p.1 < q.size :=
  ⟨(wf_run offered lo hi ops).outNodup, (wf_run offered lo hi ops).tokLt⟩

/-! ## non-vacuity -/

/-- three requests outstanding (two reads, one write) … -/
def exQ : Q :=
  { size := 16, indirect := false,
    out := [(0, ⟨[[9]], [2, 1]⟩), (1, ⟨[[9]], [2, 1]⟩), (2, ⟨[[9], [5, 5]], [1]⟩)], used := [] }

/-- … completed by the device in the order 2, 0, 1 with statuses IOERR, OK, 77 -/
def exDs : List Done := [⟨2, 1, [[1]]⟩, ⟨0, 3, [[7, 8], [0]]⟩, ⟨1, 0, [[1, 2], [77]]⟩]

example : WF exQ := ⟨by decide, by decide, by simp [exQ], by decide⟩

example : ∃ q1, exQ.completeAll exDs = some q1
    ∧ (completeMany ⟨q1, 0, 0⟩ [2, 0, 1]).2.map (·.buf) = [none, some [7, 8], some [1, 2]]
    ∧ (completeMany ⟨q1, 0, 0⟩ [2, 0, 1]).2.map (fun o => o.res.toOption.isSome) = [false, true, false]
    ∧ (completeMany ⟨q1, 0, 0⟩ [2, 0, 1]).1.q.out = [] := by
  refine ⟨_, rfl, ?_, ?_, ?_⟩ <;> decide

/-- completing in an order different from the used ring's is refused and changes nothing -/
example : ∃ q1, exQ.completeAll exDs = some q1
    ∧ (completeRead ⟨q1, 0, 0⟩ 0).2.buf = none ∧ (completeRead ⟨q1, 0, 0⟩ 0).1.q.used.length = 3 := by
  refine ⟨_, rfl, ?_, ?_⟩ <;> decide

set_option maxRecDepth 100000 in
/-- a history from `new` with real 512-byte requests reaches a state with two requests outstanding -/
example : ((run (new (2 ^ 9 ||| 2 ^ 32) 8 0)
    [.readNb 0 1 512, .writeNb 1 (2 ^ 40) (List.replicate 512 3), .readNb 1 0 512]).q.out.map (·.1)) = [0, 1] := by
  decide

/-- header bytes of a read of sector 0x0102: type 0, reserved 0, sector little-endian -/
example : encodeReq ⟨T_IN, 0, 0x0102⟩ = [0,0,0,0, 0,0,0,0, 2,1,0,0,0,0,0,0] := by decide

example : (new (2 ^ 64 - 1) 0xffffffff 0xffffffff).capacity = 2 ^ 64 - 1 := by decide

end VirtioVerif.Props.C14
