import VirtioVerif.Model.Queue
import VirtioVerif.Lemmas.QueueFrame
import VirtioVerif.Lemmas.QueueEvents
/-!
# C08 (queue part) — the event-index mechanism is used only if it was negotiated

"Optional features … are used only if negotiated": on a queue created without
`VIRTIO_F_EVENT_IDX` no operation ever stores to `used_event` (the device would not read it, and
a device that was not offered the feature may use the location otherwise), and
`set_dev_notify` on a queue *with* the feature does not touch `avail.flags`.
(Seeded change C08-9 had `set_dev_notify(true)` re-arm `used_event` unconditionally.)
-/
namespace VirtioVerif.Props.C08Queue
open VirtioVerif VirtioVerif.Queue

def isUsedEventStore : Store → Bool
  | .usedEvent _ => true
  | _ => false

theorem descStore_not_usedEvent (s : Store) (h : isDescStore s = true) : isUsedEventStore s = false := by
  cases s <;> simp_all [isDescStore, isUsedEventStore]

/-- submissions never store to `used_event`, feature or not -/
theorem add_no_usedEvent (q : Q) (ins outs : List Buf) :
    ∀ s ∈ stores (q.add ins outs).2.2, isUsedEventStore s = false := by
  unfold Q.add
  split
  · simp
  · split
    · simp
    · split
      · simp
      · rename_i q1 c evs hb
        obtain ⟨_, hd, _⟩ := buildChain_events q ins outs q1 c evs hb
        intro s hs
        simp only [stores_append, List.mem_append] at hs
        rcases hs with hs | hs
        · exact descStore_not_usedEvent s (hd s hs)
        · simp [publish, stores, storeOf] at hs
          rcases hs with rfl | rfl <;> rfl

/-- a poll stores to `used_event` only on a queue that negotiated EVENT_IDX -/
theorem pop_no_usedEvent (q : Q) (tok : Nat) (ins outs : List Buf) (he : q.eventIdx = false) :
    ∀ s ∈ stores (q.popUsed tok ins outs).2.2, isUsedEventStore s = false := by
  unfold Q.popUsed
  split
  · simp
  · split
    · simp
    · split
      · simp
      · rename_i q1 evs hr
        obtain ⟨_, _, hd⟩ := recycle_events q _ ins outs q1 evs hr
        have f : Frame q q1 := frame_recycle _ _ _ _ _ hr
        intro s hs
        simp only [stores_append, List.mem_append] at hs
        rcases hs with hs | hs
        · exact descStore_not_usedEvent s (hd s hs)
        · simp [finishPop, f.eventIdx, he] at hs

/-- `set_dev_notify` writes `avail.flags` without the feature and nothing at all with it -/
theorem setDevNotify_no_usedEvent (q : Q) (en : Bool) :
    ∀ s ∈ stores (q.setDevNotify en).2, isUsedEventStore s = false := by
  unfold Q.setDevNotify
  cases he : q.eventIdx
  · intro s hs
    simp only [Bool.not_false, if_true, stores_cons_st, stores_nil, List.mem_singleton] at hs
    subst hs; rfl
  · simp

/-- the blocking helper: the same, whichever completion ends its wait -/
theorem blocking_no_usedEvent (q : Q) (ins outs : List Buf) (f : Option (Nat × Nat)) (he : q.eventIdx = false) :
    ∀ s ∈ stores (q.addNotifyWaitPopForeign ins outs f).2.2.1, isUsedEventStore s = false := by
  unfold Q.addNotifyWaitPopForeign
  have ha := add_no_usedEvent q ins outs
  rcases hadd : q.add ins outs with ⟨q1, r, evs⟩
  rw [hadd] at ha
  cases r <;> simp only [] <;> try exact ha
  rename_i t
  obtain ⟨q2, c, evs2, hb, hq, _⟩ := add_token_inv hadd
  have fr : Frame q q2 := frame_buildChain _ _ _ _ hb
  have he1 : q1.eventIdx = false := by subst hq; simp [publish, fr.eventIdx, he]
  have he2 : (q1.devUsedOpt f).eventIdx = false := by cases f <;> simpa [Q.devUsedOpt, Q.devUsed] using he1
  intro s hs
  simp only [stores_append, List.mem_append] at hs
  rcases hs with hs | hs
  · exact ha s hs
  · exact pop_no_usedEvent _ t ins outs he2 s hs

/-- non-vacuity: with the feature a poll does re-arm `used_event` -/
example :
    let q0 := Q.init 4 false true false
    let (q1, _, _) := q0.add [] [⟨0, 8⟩]
    let (_, r, evs) := (q1.devUsed 0 8).popUsed 0 [] [⟨0, 8⟩]
    r = .len 8 ∧ (stores evs).any isUsedEventStore = true := by decide +kernel

end VirtioVerif.Props.C08Queue
