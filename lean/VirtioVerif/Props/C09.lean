import VirtioVerif.Model.Init
namespace VirtioVerif.Props.C09
end VirtioVerif.Props.C09
