import VirtioVerif.Model.Init
/-!
# C09 — teardown and failed construction free each resource once, after quiescing

Objects: the ordered event list of a constructor run (`Init.constructN`, composed from the
*regenerated* skeletons, field orders and `Drop` bodies of `Generated.DropPlan` by the drop-rule
interpreter of `Model.DropPlan`) followed by the events of dropping the constructed driver.

Two decidable predicates, written from the property text:

* `Balanced l` — ledger: every `dma_dealloc` names a region that is live, with the page count and
  access-platform flag it was allocated with; at the end nothing is live (no leak, no double free,
  nothing foreign released);
* `Quiesced resetOnDrop l` — no queue region is released, and no heap buffer still posted to the
  device is freed, while the device is live on a queue: DRIVER_OK set ∧ queue registered and not
  disabled (`queue_unset`) ∧ no reset since (status 0; or the transport value being dropped when
  `resetOnDrop`, which is what `MmioTransport`, `PciTransport` and the model transport do).

All tables are finite (11 drivers × 2 layouts × 8 flag combinations × fault position), so the
theorems are decided by kernel evaluation; the fault position `k` ranges over *every* allocation
of the run (`1 ≤ k ≤ totalAllocs`; a larger `k` names no allocation).

**Drivers relying on the transport's reset-on-drop** (`needs_reset_on_drop` below): `VirtIOSound`
and `VirtIO9p` have no `Drop` calling `queue_unset`; their queue memory is released after the
`transport` field (declared first) has been dropped, which is safe only because the transports
reset the device in their own `Drop`. The other nine disable their queues explicitly first
(`no_reset_needed`), the buffered network driver through the raw driver it wraps.
-/
namespace VirtioVerif.Props.C09
open VirtioVerif VirtioVerif.Init VirtioVerif.Generated.DropPlan

/-! ### ledger -/

structure Ledger where
  next : Nat := 0                          -- regions are numbered by successful allocation
  live : List (Nat × Nat × Bool) := []     -- (region, pages, access_platform)
  ok : Bool := true
deriving Repr

def ledgerStep (s : Ledger) : TEv → Ledger
  | .lay (.alloc pg _ ap true) => { s with next := s.next + 1, live := s.live ++ [(s.next, pg, ap)] }
  | .lay (.dealloc r pg ap) =>
    if s.live.contains (r, pg, ap) then { s with live := s.live.filter (· != (r, pg, ap)) }
    else { s with ok := false }
  | _ => s

def Balanced (l : List TEv) : Bool :=
  let s := l.foldl ledgerStep {}
  s.ok && s.live.isEmpty

/-- regions still allocated after a prefix (used for "earlier regions are released") -/
def allocatedOk (l : List TEv) : Nat := (l.foldl ledgerStep {}).next

/-! ### device liveness -/

structure Dev where
  driverOk : Bool := false
  queues : List (Nat × List Nat) := []     -- registered queue ↦ regions of its three areas
  ok : Bool := true
deriving Repr

def devReset (s : Dev) : Dev := { s with driverOk := false, queues := [] }

def devStep (resetOnDrop : Bool) (s : Dev) : TEv → Dev
  | .status v => if v = 0 then devReset s else { s with driverOk := v &&& DRIVER_OK != 0 }
  | .lay (.queueSet q _ a b c) => { s with queues := (q, [a.region, b.region, c.region]) :: s.queues.filter (·.1 != q) }
  | .queueUnset q => { s with queues := s.queues.filter (·.1 != q) }
  | .dropped => if resetOnDrop then devReset s else s
  | .lay (.dealloc r _ _) =>
    if s.driverOk && s.queues.any (·.2.contains r) then { s with ok := false } else s
  | .freePosted => if s.driverOk && !s.queues.isEmpty then { s with ok := false } else s
  | _ => s

def Quiesced (resetOnDrop : Bool) (l : List TEv) : Bool := (l.foldl (devStep resetOnDrop) {}).ok

/-! ### runs -/

def dropEvs (o : Outcome) : List TEv :=
  match o.result with
  | .ok acts => actsEvs acts
  | .error _ => []

/-- construction followed by dropping the driver -/
def lifecycle (i : Nat) (n : Neg) (p : Params) : List TEv :=
  let o := constructN i n p
  o.evs ++ dropEvs o

def totalAllocs (i : Nat) (n : Neg) (legacy : Bool) : Nat :=
  allocatedOk (constructN i n { offered := 0, legacy := legacy }).evs

def isErr (e : Err) : Except Err (List DropPlan.Act) → Bool
  | .error x => x == e
  | .ok _ => false

def isOk : Except Err (List DropPlan.Act) → Bool
  | .ok _ => true
  | .error _ => false

def allNeg : List Neg := [⟨false, false, false⟩, ⟨false, false, true⟩, ⟨false, true, false⟩, ⟨false, true, true⟩,
  ⟨true, false, false⟩, ⟨true, false, true⟩, ⟨true, true, false⟩, ⟨true, true, true⟩]

theorem mem_allNeg (n : Neg) : n ∈ allNeg := by
  obtain ⟨a, b, c⟩ := n
  cases a <;> cases b <;> cases c <;> decide

def allCfg : List (Nat × Neg × Bool) :=
  (List.range 11).flatMap fun i => allNeg.flatMap fun n => [(i, n, false), (i, n, true)]

theorem mem_allCfg (i : Nat) (hi : i < 11) (n : Neg) (legacy : Bool) : (i, n, legacy) ∈ allCfg := by
  simp only [allCfg, List.mem_flatMap, List.mem_range]
  refine ⟨i, hi, n, mem_allNeg n, ?_⟩
  cases legacy <;> simp

/-! ### failed construction: the k-th DMA allocation fails -/

/-- what must hold when allocation `k` fails -/
def failCheck (i : Nat) (n : Neg) (legacy : Bool) (k : Nat) : Bool :=
  let o := constructN i n { offered := 0, legacy := legacy, failAt := k }
  isErr .dma o.result            -- reported as `Error::DmaError`, not a panic
  && allocatedOk o.evs == k - 1  -- exactly the earlier allocations had succeeded
  && Balanced o.evs              -- each of them released once, with its original triple; nothing else
  && Quiesced true o.evs         -- and not while the device is live on the queue
  && Quiesced false o.evs        -- (not even relying on the transport's reset: DRIVER_OK is not yet set)

def failTable : Bool :=
  allCfg.all fun (i, n, legacy) => (List.range (totalAllocs i n legacy)).all fun j => failCheck i n legacy (j + 1)

theorem failTable_ok : failTable = true := by decide +kernel

/-- **Failed construction.** For every driver, layout, flag combination and every allocation `k`
    of the run: failing it yields `DmaError`, the `k-1` earlier regions are released exactly once
    with their original page count and flag, nothing else is released or leaked, and nothing is
    released while the device is live. -/
theorem fail_kth (i : Nat) (hi : i < 11) (n : Neg) (legacy : Bool) (k : Nat)
    (hk : 1 ≤ k ∧ k ≤ totalAllocs i n legacy) : failCheck i n legacy k = true := by
  have h := failTable_ok
  simp only [failTable, List.all_eq_true] at h
  have h2 := h (i, n, legacy) (mem_allCfg i hi n legacy) (k - 1) (by simp only [List.mem_range]; omega)
  have : k - 1 + 1 = k := by omega
  rw [this] at h2; exact h2

/-- every driver allocates at least one region per layout, at most eight -/
theorem totalAllocs_bounds : allCfg.all (fun (i, n, legacy) => 1 ≤ totalAllocs i n legacy ∧ totalAllocs i n legacy ≤ 8) = true := by
  decide +kernel

/-! ### failed construction: configuration space, queue refusal, receive-buffer length -/

def cfgErrs : List Err := [.cfgMissing, .cfgTooSmall, .invalidParam]

/-- a failing config read either does not occur in this constructor (construction succeeds) or
    is propagated as that error; either way the ledger balances and nothing is released while live -/
def cfgCheck (i : Nat) (n : Neg) (legacy : Bool) (e : Err) : Bool :=
  let p : Params := { offered := 0, legacy := legacy, cfgFail := 1, cfgErr := e }
  let o := constructN i n p
  (isErr e o.result || isOk o.result) && Balanced (lifecycle i n p) && Quiesced true (lifecycle i n p)
  && (isOk o.result || Quiesced false o.evs)

theorem cfg_fail_table : (allCfg.all fun (i, n, legacy) => cfgErrs.all fun e => cfgCheck i n legacy e) = true := by
  decide +kernel

theorem cfg_fail (i : Nat) (hi : i < 11) (n : Neg) (legacy : Bool) (e : Err) (he : e ∈ cfgErrs) :
    cfgCheck i n legacy e = true := by
  have h := cfg_fail_table
  simp only [List.all_eq_true] at h
  exact h (i, n, legacy) (mem_allCfg i hi n legacy) e he

/-- the 9p constructor reads its mount tag before any queue exists: a failure there releases
    nothing but the transport (the pre-fix order released queue memory after DRIVER_OK) -/
theorem p9_cfg_fail_before_queue :
    allNeg.all (fun n => [false, true].all fun legacy =>
      (constructN 10 n { offered := 0, legacy := legacy, cfgFail := 1, cfgErr := .invalidParam }).evs
        = beginInitEvs ++ [.cfg true, .dropped]) = true := by decide +kernel

def maxAnswers : List Nat := [0, 1, 2, 4, 8, 16, 31, 32, 64]

/-- the transport refuses a queue size (`max_queue_size` answer too small at some queue) -/
def refuseCheck (i : Nat) (n : Neg) (legacy : Bool) (m : Nat) : Bool :=
  let p : Params := { offered := 0, legacy := legacy, maxQ := m }
  let o := constructN i n p
  (isErr .invalidParam o.result || isOk o.result) && Balanced (lifecycle i n p) && Quiesced true (lifecycle i n p)
  && (isOk o.result || Quiesced false o.evs)

theorem refuse_table : (allCfg.all fun (i, n, legacy) => maxAnswers.all fun m => refuseCheck i n legacy m) = true := by
  decide +kernel

/-- buffered network driver: receive buffers shorter than the minimum ⇒ `InvalidParam` after the
    raw driver is live; the raw driver is dropped as a struct (queues disabled, device reset) before
    its queue memory is released -/
theorem net_post_fail :
    allNeg.all (fun n => [false, true].all fun legacy =>
      let o := constructN 5 n { offered := 0, legacy := legacy, postFail := true }
      isErr .invalidParam o.result && Balanced o.evs && Quiesced true o.evs && Quiesced false o.evs) = true := by
  decide +kernel

/-! ### drop after construction -/

def dropCheck (resetOnDrop : Bool) (i : Nat) (n : Neg) (legacy : Bool) : Bool :=
  let p : Params := { offered := 0, legacy := legacy }
  isOk (constructN i n p).result && Balanced (lifecycle i n p) && Quiesced resetOnDrop (lifecycle i n p)

theorem drop_table : (allCfg.all fun (i, n, legacy) => dropCheck true i n legacy) = true := by decide +kernel

/-- **Teardown.** Dropping a constructed driver releases every region exactly once with its
    original triple, leaks nothing, and releases queue memory and posted driver-owned buffers only
    after the device stopped being live on the queue (queue disabled or device reset), for
    transports that reset on drop. -/
theorem drop_after_construct (i : Nat) (hi : i < 11) (n : Neg) (legacy : Bool) : dropCheck true i n legacy = true := by
  have h := drop_table
  simp only [List.all_eq_true] at h
  exact h (i, n, legacy) (mem_allCfg i hi n legacy)

/-- drivers that stay safe even on a transport that does *not* reset on drop: all but sound (9)
    and 9p (10) -/
theorem no_reset_needed :
    (allCfg.all fun (i, n, legacy) => i == 9 || i == 10 || dropCheck false i n legacy) = true := by decide +kernel

/-- sound and 9p release queue memory while the device would still be live if the transport did
    not reset on drop (no `Drop` calling `queue_unset`) -/
theorem needs_reset_on_drop :
    (allNeg.all fun n => [false, true].all fun legacy => !dropCheck false 9 n legacy && !dropCheck false 10 n legacy) = true := by
  decide +kernel

/-- GPU with a frame buffer allocated by later use (`Option<Dma>` field declared after the
    transport, before the queues): released once, after the queues were disabled and the device reset -/
theorem gpu_framebuffer_drop :
    (allNeg.all fun n => [false, true].all fun legacy => [1, 3, 2048].all fun pages =>
      let p : Params := { offered := 0, legacy := legacy }
      let o := constructN 2 n p
      match o.result, driverAt 2 with
      | .ok acts, some (d, _) =>
        let l := o.evs ++ [TEv.lay (.alloc pages .toDevice n.ap true)]
          ++ actsEvs (withFrameBuffer d acts (some (allocatedOk o.evs, pages, n.ap)))
        Balanced l && Quiesced true l && Quiesced false l
      | _, _ => false) = true := by decide +kernel

/-! ### the predicates are not vacuous -/

-- releasing a queue region while DRIVER_OK is set and the queue registered is rejected
example : Quiesced true [.status 15, .lay (.queueSet 0 16 ⟨0, 0⟩ ⟨0, 256⟩ ⟨1, 0⟩), .lay (.dealloc 1 1 false)] = false := by decide
example : Quiesced true [.lay (.queueSet 0 16 ⟨0, 0⟩ ⟨0, 256⟩ ⟨1, 0⟩), .status 15, .queueUnset 0, .lay (.dealloc 1 1 false)] = true := by decide
example : Quiesced true [.lay (.queueSet 0 16 ⟨0, 0⟩ ⟨0, 256⟩ ⟨1, 0⟩), .status 15, .dropped, .lay (.dealloc 1 1 false)] = true := by decide
example : Quiesced false [.lay (.queueSet 0 16 ⟨0, 0⟩ ⟨0, 256⟩ ⟨1, 0⟩), .status 15, .dropped, .lay (.dealloc 1 1 false)] = false := by decide
example : Quiesced true [.lay (.queueSet 0 16 ⟨0, 0⟩ ⟨0, 256⟩ ⟨1, 0⟩), .status 15, .freePosted] = false := by decide
-- double free, wrong page count, leak
example : Balanced [.lay (.alloc 2 .both false true), .lay (.dealloc 0 2 false), .lay (.dealloc 0 2 false)] = false := by decide
example : Balanced [.lay (.alloc 2 .both false true), .lay (.dealloc 0 1 false)] = false := by decide
example : Balanced [.lay (.alloc 2 .both false true)] = false := by decide
example : Balanced [.lay (.alloc 2 .both false true), .lay (.dealloc 0 2 false)] = true := by decide
-- sound, modern layout: 8 regions; failing the 5th releases D3, D2 (owning queue) … D0 and then the transport
example : totalAllocs 9 ⟨false, false, false⟩ false = 8 := by decide +kernel
example : (constructN 9 ⟨false, false, false⟩ { offered := 0, failAt := 5 }).evs.reverse.take 6 =
    [.dropped, .lay (.dealloc 1 1 false), .lay (.dealloc 0 1 false), .lay (.dealloc 3 1 false), .lay (.dealloc 2 1 false), .freePosted] := by
  decide +kernel

end VirtioVerif.Props.C09
