import VirtioVerif.Model.AbsQueue
import VirtioVerif.Model.CmdQueue
/-!
# The command drivers' queue (`CmdQueue`) is the abstract queue (`AbsQueue`) up to token names

`Model/CmdQueue.lean` (used by the GPU / sound / entropy / clock / 9P models of C20) names a chain by
the ordinal of its `add` call and keeps the not-yet-completed chains and the completed ones in two
lists; `Model/AbsQueue.lean` — the specification the concrete queue of `queue.rs` is proved to refine
(`Props/QueueRefines.lean`) — names a chain by its real token and keeps one list in submission order.
This file closes the chain: under a naming `name : ordinal → token` that gives fresh in-range tokens
(which is what the concrete queue's `add` provides, `QueueRefines.add_refines`), every `CmdQueue`
operation is matched by the `AbsQueue` operation with the same outcome, and the relation `R` is kept.
-/
namespace VirtioVerif.Props.CmdQueueRefines
open VirtioVerif

abbrev CQ := CmdQueue.Q
abbrev AQ := AbsQueue.Q

def absChain (c : CmdQueue.Chain) : AbsQueue.Chain := { rd := c.rd, wr := c.wr }

/-- every chain the device may still access or whose completion is unconsumed -/
def live (c : CQ) : List CmdQueue.Chain := c.used.map (·.chain) ++ c.outstanding

def nm (name : Nat → Nat) (ch : CmdQueue.Chain) : Nat × AbsQueue.Chain := (name ch.tok, absChain ch)

structure R (name : Nat → Nat) (c : CQ) (a : AQ) : Prop where
  size : a.size = c.size
  ind : a.indirect = c.indirect
  out : a.out.Perm ((live c).map (nm name))
  used : a.used.map (fun d => (d.tok, d.len)) = c.used.map (fun u => (name u.chain.tok, u.len))
  nused : c.numUsed = a.numUsed
  ndesc : ∀ ch ∈ live c, ch.ndesc = AbsQueue.cost c.indirect (absChain ch)
  nodup : ((live c).map (·.tok)).Nodup
  lt : ∀ ch ∈ live c, ch.tok < c.nextTok
  inj : ∀ x ∈ live c, ∀ y ∈ live c, name x.tok = name y.tok → x.tok = y.tok

theorem nodup_map_inj {α β : Type} (f : α → β) : ∀ (l : List α), (l.map f).Nodup → ∀ a ∈ l, ∀ b ∈ l, f a = f b → a = b := by
  intro l
  induction l with
  | nil => intro _ a ha; simp at ha
  | cons c l ih =>
    intro hn a ha b hb hab
    simp only [List.map_cons, List.nodup_cons, List.mem_map, not_exists, not_and] at hn
    simp only [List.mem_cons] at ha hb
    rcases ha with rfl | ha <;> rcases hb with rfl | hb
    · rfl
    · exact absurd hab.symm (hn.1 b hb)
    · exact absurd hab (hn.1 a ha)
    · exact ih hn.2 a ha b hb hab

theorem perm_eraseIdx {α : Type} : ∀ (l : List α) (i : Nat) (a : α), l[i]? = some a → l.Perm (a :: l.eraseIdx i) := by
  intro l
  induction l with
  | nil => intro i a h; simp at h
  | cons b l ih =>
    intro i a h
    cases i with
    | zero => simp at h; subst h; simp
    | succ n =>
      simp only [List.getElem?_cons_succ] at h
      simp only [List.eraseIdx_cons_succ]
      exact ((ih n a h).cons b).trans (List.Perm.swap a b _)

theorem sum_perm {l1 l2 : List Nat} (h : l1.Perm l2) : l1.sum = l2.sum := by
  induction h with
  | nil => rfl
  | cons x _ ih => simp [ih]
  | swap x y l => simp; omega
  | trans _ _ ih1 ih2 => exact ih1.trans ih2

/-- two live chains with names that coincide are the same chain -/
theorem live_eq {name c a} (r : R name c a) (x y : CmdQueue.Chain) (hx : x ∈ live c) (hy : y ∈ live c)
    (h : name x.tok = name y.tok) : x = y :=
  nodup_map_inj (·.tok) _ r.nodup x hx y hy (r.inj x hx y hy h)

theorem init_R (name : Nat → Nat) (size : Nat) (ind : Bool) :
    R name { size := size, indirect := ind } (AbsQueue.Q.init size ind) := by
  refine ⟨rfl, rfl, ?_, rfl, ?_, ?_, ?_, ?_, ?_⟩
  · simp [live, AbsQueue.Q.init]
  · simp [AbsQueue.Q.numUsed, AbsQueue.Q.init]
  · intro ch h; simp [live] at h
  · simp [live]
  · intro ch h; simp [live] at h
  · intro x h; simp [live] at h

/-- refusals agree: the capacity rule is the same function of the same numbers -/
theorem full_iff {name c a} (r : R name c a) (k : Nat) :
    a.full k = true ↔ (c.numUsed + 1 > c.size ∨ k > c.size ∨ (c.indirect = false ∧ c.numUsed + k > c.size)) := by
  simp only [AbsQueue.Q.full, Bool.or_eq_true, decide_eq_true_eq, Bool.and_eq_true, Bool.not_eq_true', r.size, r.ind,
    ← r.nused]
  constructor
  · rintro ((h | h) | ⟨h1, h2⟩)
    · left; omega
    · right; left; omega
    · right; right; exact ⟨h1, by omega⟩
  · rintro (h | h | ⟨h1, h2⟩)
    · left; left; omega
    · left; right; omega
    · right; exact ⟨h1, by omega⟩

/-- transfer of the membership-based clauses along a permutation of the live chains -/
theorem R_of_perm {name : Nat → Nat} {c c' : CQ} {a a' : AQ} (r : R name c a)
    (hsz : c'.size = c.size) (hind : c'.indirect = c.indirect) (hnt : c'.nextTok = c.nextTok)
    (hasz : a'.size = a.size) (haind : a'.indirect = a.indirect)
    (hlive : (live c').Perm (live c)) (hout : a'.out = a.out)
    (hused : a'.used.map (fun d => (d.tok, d.len)) = c'.used.map (fun u => (name u.chain.tok, u.len)))
    (hnu : c'.numUsed = c.numUsed) : R name c' a' := by
  refine ⟨by rw [hasz, hsz, r.size], by rw [haind, hind, r.ind], ?_, hused, ?_, ?_, ?_, ?_, ?_⟩
  · rw [hout]; exact r.out.trans (hlive.symm.map _)
  · rw [hnu, r.nused]; simp [AbsQueue.Q.numUsed, hout, haind]
  · intro ch hch; rw [hind]; exact r.ndesc ch (hlive.subset hch)
  · exact (hlive.map _).nodup_iff.2 r.nodup
  · intro ch hch; rw [hnt]; exact r.lt ch (hlive.subset hch)
  · intro x hx y hy; exact r.inj x (hlive.subset hx) y (hlive.subset hy)

/-- **add**: an accepted submission is accepted by the abstract queue under the fresh in-range token
the concrete queue hands out, and the relation is kept -/
theorem add_sim {name c a} (r : R name c a) (rd : List Wire.Bytes) (wr : List Nat) (c' : CQ) (tok : Nat)
    (h : CmdQueue.add c rd wr = .ok (c', tok))
    (hne : rd.any (·.isEmpty) = false ∧ wr.any (· == 0) = false)
    (hrange : name c.nextTok < c.size)
    (hfresh : ∀ ch ∈ live c, name ch.tok ≠ name c.nextTok) :
    tok = c.nextTok ∧ ∃ a', AbsQueue.Q.add a (name tok) ⟨rd, wr⟩ = .ok a' ∧ R name c' a' := by
  simp only [CmdQueue.add] at h
  split at h
  · simp at h
  · rename_i hk
    split at h
    · simp at h
    · rename_i hfull
      simp only [Except.ok.injEq, Prod.mk.injEq] at h
      obtain ⟨rfl, rfl⟩ := h
      refine ⟨rfl, ?_⟩
      have hnf : a.full (rd.length + wr.length) = false := by
        cases hf : a.full (rd.length + wr.length) with
        | false => rfl
        | true => exact absurd ((full_iff r _).1 hf) hfull
      have hnt : a.hasTok (name c.nextTok) = false := by
        simp only [AbsQueue.Q.hasTok, List.any_eq_false, beq_iff_eq]
        intro p hp
        obtain ⟨ch, hch, rfl⟩ := List.mem_map.1 (r.out.subset hp)
        exact hfresh ch hch
      have hseg : (⟨rd, wr⟩ : AbsQueue.Chain).segs = rd.length + wr.length := rfl
      simp only [AbsQueue.Q.add, hseg, hk, ↓reduceIte, hnf, Bool.false_eq_true, hne.1, hne.2, Bool.or_self, r.size,
        hnt, Bool.or_false, decide_eq_true_eq, Nat.not_le.2 hrange]
      refine ⟨_, rfl, ?_⟩
      have hcost : CmdQueue.descsFor c (rd.length + wr.length) = AbsQueue.cost c.indirect ⟨rd, wr⟩ := by
        simp [CmdQueue.descsFor, AbsQueue.cost, hseg]
      have lx : ∀ z, (z ∈ c.used.map (·.chain) ∨ z ∈ c.outstanding) → z ∈ live c := by
        intro z hz; simp only [live, List.mem_append]; exact hz
      refine ⟨rfl, by simpa using r.ind, ?_, r.used, ?_, ?_, ?_, ?_, ?_⟩
      · simp only [live, List.map_append, List.map_cons, List.map_nil, ← List.append_assoc]
        refine List.Perm.append ?_ (by simp [nm, absChain])
        simpa [live] using r.out
      · simp only [AbsQueue.Q.numUsed, List.map_append, List.map_cons, List.map_nil, List.sum_append, List.sum_cons,
          List.sum_nil, Nat.add_zero, r.ind]
        have := r.nused
        simp only [AbsQueue.Q.numUsed, r.ind] at this
        rw [this, hcost]
      · intro ch hch
        simp only [live, List.mem_append, List.mem_singleton] at hch
        rcases hch with h1 | h1 | rfl
        · exact r.ndesc ch (lx ch (Or.inl h1))
        · exact r.ndesc ch (lx ch (Or.inr h1))
        · simp [hcost, absChain]
      · have h0 := r.nodup
        simp only [live, List.map_append, List.map_cons, List.map_nil, ← List.append_assoc] at h0 ⊢
        refine List.nodup_append.2 ⟨h0, by simp, ?_⟩
        intro t ht u hu
        simp only [List.mem_singleton] at hu
        subst hu
        rcases List.mem_append.1 ht with ht | ht
        · obtain ⟨z, hz, rfl⟩ := List.mem_map.1 ht
          have := r.lt z (lx z (Or.inl hz)); omega
        · obtain ⟨z, hz, rfl⟩ := List.mem_map.1 ht
          have := r.lt z (lx z (Or.inr hz)); omega
      · intro ch hch
        simp only [live, List.mem_append, List.mem_singleton] at hch
        rcases hch with h1 | h1 | rfl
        · have := r.lt ch (lx ch (Or.inl h1)); simp only; omega
        · have := r.lt ch (lx ch (Or.inr h1)); simp only; omega
        · simp
      · intro x hx y hy hxy
        simp only [live, List.mem_append, List.mem_singleton] at hx hy
        rcases hx with hx | hx | rfl <;> rcases hy with hy | hy | rfl
        · exact r.inj x (lx x (Or.inl hx)) y (lx y (Or.inl hy)) hxy
        · exact r.inj x (lx x (Or.inl hx)) y (lx y (Or.inr hy)) hxy
        · exact absurd hxy (hfresh x (lx x (Or.inl hx)))
        · exact r.inj x (lx x (Or.inr hx)) y (lx y (Or.inl hy)) hxy
        · exact r.inj x (lx x (Or.inr hx)) y (lx y (Or.inr hy)) hxy
        · exact absurd hxy (hfresh x (lx x (Or.inr hx)))
        · exact absurd hxy.symm (hfresh y (lx y (Or.inl hy)))
        · exact absurd hxy.symm (hfresh y (lx y (Or.inr hy)))
        · rfl

/-- **add refused**: the two queues refuse the same submissions with the same error -/
theorem add_refused {name c a} (r : R name c a) (rd : List Wire.Bytes) (wr : List Nat) (e : CmdQueue.Err) (t : Nat)
    (h : CmdQueue.add c rd wr = .error e) :
    (e = .invalidParam ∧ AbsQueue.Q.add a t ⟨rd, wr⟩ = .error .invalidParam) ∨
    (e = .queueFull ∧ AbsQueue.Q.add a t ⟨rd, wr⟩ = .error .queueFull) := by
  have hseg : (⟨rd, wr⟩ : AbsQueue.Chain).segs = rd.length + wr.length := rfl
  simp only [CmdQueue.add] at h
  split at h
  · rename_i hk
    left
    simp only [Except.error.injEq] at h
    have hk' : (⟨rd, wr⟩ : AbsQueue.Chain).segs = 0 := by rw [hseg]; exact hk
    exact ⟨h.symm, by simp only [AbsQueue.Q.add, hk', ↓reduceIte]⟩
  · rename_i hk
    split at h
    · rename_i hfull
      right
      simp only [Except.error.injEq] at h
      have := (full_iff r _).2 hfull
      have hk' : ¬ ((⟨rd, wr⟩ : AbsQueue.Chain).segs = 0) := by rw [hseg]; exact hk
      exact ⟨h.symm, by simp only [AbsQueue.Q.add, hseg, hk, ↓reduceIte, this]⟩
    · simp at h

/-- **device completion**: completing the `i`-th not yet completed chain is the abstract completion
of its token (with any device data of the right shape), in any order -/
theorem complete_sim {name c a} (r : R name c a) (i : Nat) (written : Wire.Bytes) (len : Nat) (ch : CmdQueue.Chain)
    (hi : c.outstanding[i]? = some ch) (data : List AbsQueue.Bytes) (hd : data.map List.length = ch.wr) :
    ∃ a', a.complete ⟨name ch.tok, len, data⟩ = some a' ∧ R name (CmdQueue.complete c i written len) a' := by
  have hmem : ch ∈ c.outstanding := List.mem_of_getElem? hi
  have hlive : ch ∈ live c := by simp [live, hmem]
  have hin : nm name ch ∈ a.out := r.out.symm.subset (List.mem_map.2 ⟨ch, hlive, rfl⟩)
  have hfind : a.out.find? (fun p => p.1 == name ch.tok) = some (nm name ch) := by
    cases hf : a.out.find? (fun p => p.1 == name ch.tok) with
    | none =>
      have := List.find?_eq_none.1 hf _ hin
      simp [nm] at this
    | some p =>
      have hp := List.mem_of_find?_eq_some hf
      have hp1 : p.1 = name ch.tok := by simpa using List.find?_some hf
      obtain ⟨y, hy, rfl⟩ := List.mem_map.1 (r.out.subset hp)
      rw [live_eq r y ch hy hlive hp1]
  have hnot : a.used.any (fun u => u.tok == name ch.tok) = false := by
    simp only [List.any_eq_false, beq_iff_eq]
    intro u hu heq
    have : (u.tok, u.len) ∈ a.used.map (fun d => (d.tok, d.len)) := List.mem_map.2 ⟨u, hu, rfl⟩
    rw [r.used] at this
    obtain ⟨v, hv, hvv⟩ := List.mem_map.1 this
    simp only [Prod.mk.injEq] at hvv
    have hvu : v.chain ∈ c.used.map (·.chain) := List.mem_map.2 ⟨v, hv, rfl⟩
    have hvl : v.chain ∈ live c := by simp only [live, List.mem_append]; exact Or.inl hvu
    have e := r.inj v.chain hvl ch hlive (by rw [hvv.1, heq])
    have hn := r.nodup
    simp only [live, List.map_append] at hn
    exact (List.nodup_append.1 hn).2.2 _ (List.mem_map.2 ⟨_, hvu, rfl⟩) _ (List.mem_map.2 ⟨_, hmem, rfl⟩) e
  have hshape : (data.map List.length != (absChain ch).wr) = false := by simp [absChain, hd]
  simp only [AbsQueue.Q.complete, hfind, nm, hnot, Bool.false_eq_true, ↓reduceIte, hshape]
  refine ⟨_, rfl, ?_⟩
  simp only [CmdQueue.complete, hi]
  refine R_of_perm r rfl rfl rfl rfl rfl ?_ rfl ?_ rfl
  · simp only [live, List.map_append, List.map_cons, List.map_nil, List.append_assoc, List.singleton_append]
    exact List.Perm.append_left _ (perm_eraseIdx _ _ _ hi).symm
  · simp only [List.map_append, List.map_cons, List.map_nil, r.used]

/-- **pop**: consuming the oldest completion is the abstract pop of its token; the reported length
is the one the device recorded -/
theorem pop_sim {name c a} (r : R name c a) (tok : Nat) (c' : CQ) (u : CmdQueue.Used)
    (h : CmdQueue.popUsed c tok = .ok (c', u)) :
    ∃ a' d, a.pop (name tok) = .ok (a', d) ∧ d.len = u.len ∧ d.tok = name tok ∧ u.chain.tok = tok ∧ R name c' a' := by
  simp only [CmdQueue.popUsed] at h
  cases hu : c.used with
  | nil => simp [hu] at h
  | cons u0 rest =>
    simp only [hu] at h
    split at h
    · simp at h
    · rename_i htok
      simp only [ne_eq, Decidable.not_not] at htok
      simp only [Except.ok.injEq, Prod.mk.injEq] at h
      obtain ⟨rfl, rfl⟩ := h
      have hused := r.used
      rw [hu] at hused
      cases hau : a.used with
      | nil => simp [hau] at hused
      | cons d drest =>
        simp only [hau, List.map_cons, List.cons.injEq, Prod.mk.injEq] at hused
        obtain ⟨⟨hdt, hdl⟩, hrest⟩ := hused
        have hne : (d.tok != name tok) = false := by simp [hdt, htok]
        simp only [AbsQueue.Q.pop, hau, hne, Bool.false_eq_true, ↓reduceIte]
        refine ⟨_, d, rfl, hdl, by rw [hdt, htok], htok, ?_⟩
        have hl : live c = u0.chain :: (rest.map (·.chain) ++ c.outstanding) := by simp [live, hu]
        have hu0l : u0.chain ∈ live c := by rw [hl]; simp
        -- filtering the abstract `out` removes exactly the popped chain
        have hfilter : ((live c).map (nm name)).filter (fun p => p.1 != name tok)
            = (rest.map (·.chain) ++ c.outstanding).map (nm name) := by
          rw [hl, List.map_cons, List.filter_cons]
          have h1 : ((nm name u0.chain).1 != name tok) = false := by simp [nm, htok]
          simp only [h1, Bool.false_eq_true, ↓reduceIte]
          apply List.filter_eq_self.2
          intro p hp
          obtain ⟨y, hy, rfl⟩ := List.mem_map.1 hp
          have hyl : y ∈ live c := by rw [hl]; exact List.mem_cons_of_mem _ hy
          simp only [nm, bne_iff_ne, ne_eq]
          intro hcontra
          have e := live_eq r y u0.chain hyl hu0l (by rw [hcontra, htok])
          have hn := r.nodup
          rw [hl, List.map_cons, List.nodup_cons] at hn
          exact hn.1 (List.mem_map.2 ⟨y, hy, by rw [e]⟩)
        refine ⟨r.size, r.ind, ?_, ?_, ?_, ?_, ?_, ?_, ?_⟩
        · show (a.out.filter (fun p => p.1 != name tok)).Perm ((live { c with used := rest, numUsed := c.numUsed - u0.chain.ndesc }).map (nm name))
          have := r.out.filter (fun p => p.1 != name tok)
          rw [hfilter] at this
          simpa [live] using this
        · exact hrest
        · -- descriptor accounting
          have hsum : a.numUsed = AbsQueue.cost a.indirect (absChain u0.chain)
              + ((rest.map (·.chain) ++ c.outstanding).map (fun ch => AbsQueue.cost a.indirect (absChain ch))).sum := by
            have := sum_perm ((r.out.map (fun p => AbsQueue.cost a.indirect p.2)))
            simp only [AbsQueue.Q.numUsed]
            rw [this, hl]
            simp [nm, List.map_map, Function.comp_def]
          have hnd := r.ndesc u0.chain hu0l
          have hfs : AbsQueue.Q.numUsed { a with out := a.out.filter (fun p => p.1 != name tok), used := drest }
              = ((rest.map (·.chain) ++ c.outstanding).map (fun ch => AbsQueue.cost a.indirect (absChain ch))).sum := by
            have := sum_perm (((r.out.filter (fun p => p.1 != name tok)).map (fun p => AbsQueue.cost a.indirect p.2)))
            simp only [AbsQueue.Q.numUsed]
            rw [this, hfilter]
            simp [nm, List.map_map, Function.comp_def]
          show c.numUsed - u0.chain.ndesc = _
          rw [hfs, r.nused, hsum, hnd, r.ind]
          omega
        · intro ch hch
          exact r.ndesc ch (by rw [hl]; exact List.mem_cons_of_mem _ (by simpa [live] using hch))
        · have hn := r.nodup
          rw [hl, List.map_cons, List.nodup_cons] at hn
          simpa [live] using hn.2
        · intro ch hch
          exact r.lt ch (by rw [hl]; exact List.mem_cons_of_mem _ (by simpa [live] using hch))
        · intro x hx y hy
          exact r.inj x (by rw [hl]; exact List.mem_cons_of_mem _ (by simpa [live] using hx))
            y (by rw [hl]; exact List.mem_cons_of_mem _ (by simpa [live] using hy))

/-- **pop, nothing ready**: both queues answer `NotReady` -/
theorem pop_notReady {name c a} (r : R name c a) (tok t : Nat) (h : CmdQueue.popUsed c tok = .error .notReady) :
    a.pop t = .error .notReady := by
  simp only [CmdQueue.popUsed] at h
  cases hu : c.used with
  | nil =>
    have := r.used
    rw [hu] at this
    have ha : a.used = [] := by simpa using this
    simp [AbsQueue.Q.pop, ha]
  | cons u0 rest =>
    simp only [hu] at h
    split at h <;> simp at h

/-- **pop with the token of another live chain**: both queues answer `WrongToken` and change nothing -/
theorem pop_wrongToken {name c a} (r : R name c a) (tok : Nat) (x : CmdQueue.Chain) (hx : x ∈ live c) (hxt : x.tok = tok)
    (h : CmdQueue.popUsed c tok = .error .wrongToken) :
    a.pop (name tok) = .error .wrongToken := by
  simp only [CmdQueue.popUsed] at h
  cases hu : c.used with
  | nil => simp [hu] at h
  | cons u0 rest =>
    simp only [hu] at h
    split at h
    · rename_i htok
      have hused := r.used
      rw [hu] at hused
      cases hau : a.used with
      | nil => simp [hau] at hused
      | cons d drest =>
        simp only [hau, List.map_cons, List.cons.injEq, Prod.mk.injEq] at hused
        have hu0 : u0.chain ∈ live c := by simp [live, hu]
        have hne : (d.tok != name tok) = true := by
          simp only [bne_iff_ne, ne_eq, hused.1.1]
          intro hcontra
          exact htok (by rw [← hxt]; exact r.inj u0.chain hu0 x hx (by rw [hcontra, hxt]))
        simp [AbsQueue.Q.pop, hau, hne]
    · simp at h

/-- non-vacuity: the hypotheses of `add_sim` are met by the empty queue with the identity naming, and
both queues accept the submission -/
example :
    R id { size := 4, indirect := false } (AbsQueue.Q.init 4 false)
    ∧ (∃ c' tok, CmdQueue.add { size := 4, indirect := false } [[1, 2]] [8] = .ok (c', tok))
    ∧ (∃ a', AbsQueue.Q.add (AbsQueue.Q.init 4 false) 0 ⟨[[1, 2]], [8]⟩ = .ok a') :=
  ⟨init_R id 4 false, ⟨_, _, rfl⟩, ⟨_, rfl⟩⟩

end VirtioVerif.Props.CmdQueueRefines
