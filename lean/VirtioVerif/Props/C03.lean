import VirtioVerif.Model.Queue
import VirtioVerif.Lemmas.QueueFrame
import VirtioVerif.Lemmas.QueueEvents
/-!
# C03 — completions are consumed exactly once in any order; descriptor counts stay exact

Part A (this file, unconditional: holds in *every* state, reachable or not, hence for every
history, every device behaviour and every value of the 16-bit indices): outcome and frame of
`pop_used` and `add`.  Part B (`Props/C03Inv.lean`): the accounting invariant over all histories.
-/
namespace VirtioVerif.Props.C03
open VirtioVerif VirtioVerif.Queue

/-- Nothing ready ⇒ `NotReady`, and nothing changes (state, memory, platform). -/
theorem pop_notReady (q : Q) (tok : Nat) (ins outs : List Buf) (h : q.canPop = false) :
    q.popUsed tok ins outs = (q, .err .notReady, []) := by
  simp [Q.popUsed, h]

/-- A token other than the one at the head of the used ring ⇒ `WrongToken`, nothing changes:
completions are consumed strictly in used-ring order and only by the caller presenting the token. -/
theorem pop_wrongToken (q : Q) (tok : Nat) (ins outs : List Buf) (h : q.canPop = true)
    (ht : q.usedElem.1 % U16 ≠ tok) : q.popUsed tok ins outs = (q, .err .wrongToken, []) := by
  simp [Q.popUsed, h, ht]

/-- A blocking request whose wait is ended by **another** chain's completion (reported during the
wait, or already pending when the call was made) returns `WrongToken` and leaves everything exactly
as its own submission left it: the chain it published stays outstanding with its descriptors and its
shared buffers, because the device still owns it.  (Seeded change C01-7 recycled it here.) -/
theorem anwp_foreign_first (q q1 : Q) (ins outs : List Buf) (t : Nat) (evs : List Ev)
    (f : Option (Nat × Nat)) (h : q.add ins outs = (q1, .token t, evs))
    (hc : (q1.devUsedOpt f).canPop = true) (hne : (q1.devUsedOpt f).usedElem.1 % U16 ≠ t) :
    q.addNotifyWaitPopForeign ins outs f
      = (q1.devUsedOpt f, .err .wrongToken, evs, q1.shouldNotify) := by
  unfold Q.addNotifyWaitPopForeign
  rw [h]
  simp only []
  rw [pop_wrongToken _ t ins outs hc hne]
  simp

/-- Any failing poll changes nothing. -/
theorem pop_err_changes_nothing (q q' : Q) (tok : Nat) (ins outs : List Buf) (e : Err) (evs : List Ev)
    (h : q.popUsed tok ins outs = (q', .err e, evs)) : q' = q ∧ evs = [] :=
  pop_err_unchanged h

/-- A successful poll: the token is the id the device put at the head of the used ring, the
returned length is the length the device recorded there, the consumption index advances by exactly
one modulo 2^16 (so this keeps holding across wrap-around), and the submission side is untouched. -/
theorem pop_ok (q q' : Q) (tok : Nat) (ins outs : List Buf) (l : Nat) (evs : List Ev)
    (h : q.popUsed tok ins outs = (q', .len l, evs)) :
    q.canPop = true ∧ q.usedElem.1 % U16 = tok ∧ l = q.usedElem.2
      ∧ q'.lastUsedIdx = (q.lastUsedIdx + 1) % U16
      ∧ q'.availIdx = q.availIdx ∧ q'.availIdxMem = q.availIdxMem ∧ q'.availRing = q.availRing
      ∧ q'.usedIdx = q.usedIdx ∧ q'.usedRing = q.usedRing := by
  obtain ⟨q1, evs1, hr, hq, _, hc, ht, hl⟩ := pop_len_inv h
  have f : Frame q q1 := frame_recycle _ _ _ _ _ hr
  subst hq
  obtain ⟨a1, _, a3, a4, a5, a6, a7, _⟩ := finishPop_spec q1 tok
  exact ⟨hc, ht, hl, by rw [a1, f.lastUsedIdx], by rw [a3, f.availIdx], by rw [a4, f.availIdxMem],
    by rw [a5, f.availRing], by rw [a6, f.usedIdx], by rw [a7, f.usedRing]⟩

/-- A consumed completion removes exactly the chains with that token from the outstanding set. -/
theorem pop_ok_outstanding (q q' : Q) (tok : Nat) (ins outs : List Buf) (l : Nat) (evs : List Ev)
    (h : q.popUsed tok ins outs = (q', .len l, evs)) :
    q'.out = q.out.filter fun c => c.head != tok := by
  obtain ⟨q1, evs1, hr, hq, _, _, _, _⟩ := pop_len_inv h
  have f : Frame q q1 := frame_recycle _ _ _ _ _ hr
  subst hq
  rw [(finishPop_spec q1 tok).2.1, f.out]

/-- A submission is refused with `InvalidParam` exactly when no buffers are given… -/
theorem add_invalid_iff (q : Q) (ins outs : List Buf) :
    (q.add ins outs).2.1 = .err .invalidParam ↔ ins.length + outs.length = 0 := by
  unfold Q.add
  split
  · simp_all
  · split
    · simp_all
    · split <;> simp_all

/-- …and with `QueueFull` exactly when buffers are given but the capacity test fails. -/
theorem add_full_iff (q : Q) (ins outs : List Buf) :
    (q.add ins outs).2.1 = .err .queueFull
      ↔ ins.length + outs.length ≠ 0 ∧ addRefused q (ins.length + outs.length) = true := by
  unfold Q.add
  split
  · simp_all
  · split
    · simp_all
    · split <;> simp_all

/-- The capacity test is "not enough free descriptors": in direct mode a chain needs one
descriptor per buffer, in indirect mode one descriptor (and at most `n` buffers). -/
theorem addRefused_direct (q : Q) (k : Nat) (hi : q.indirect = false) (hk : 1 ≤ k) (hu : q.numUsed ≤ q.n) :
    addRefused q k = true ↔ q.availableDesc < k := by
  simp [addRefused, Q.availableDesc, hi]; omega

theorem addRefused_indirect (q : Q) (k : Nat) (hi : q.indirect = true) (hk : 1 ≤ k) (hu : q.numUsed ≤ q.n) :
    addRefused q k = true ↔ (q.availableDesc = 0 ∨ q.n < k) := by
  simp only [addRefused, Q.availableDesc, hi, Bool.not_true, Bool.false_and, Bool.or_false, Bool.or_eq_true,
    decide_eq_true_eq, if_true]
  split <;> omega

/-- A chain with more buffers than the queue has entries is refused whatever its length — the count
is a natural number here, and the driver must not judge it modulo 2^16 (seeded change C03-10 did:
65 537 buffers looked like one) — and nothing changes. -/
theorem add_longer_than_queue_refused (q : Q) (ins outs : List Buf) (h : q.n < ins.length + outs.length) :
    q.add ins outs = (q, .err .queueFull, []) := by
  unfold Q.add
  have h0 : ¬ (ins.length + outs.length = 0) := by omega
  rw [if_neg h0]
  have h1 : addRefused q (ins.length + outs.length) = true := by simp [addRefused, h]
  rw [if_pos h1]

/-- A refused submission has no side effects at all. -/
theorem add_refused_changes_nothing (q q' : Q) (ins outs : List Buf) (e : Err) (evs : List Ev)
    (h : q.add ins outs = (q', .err e, evs)) : q' = q ∧ evs = [] :=
  add_err_unchanged h

/-- An accepted submission advances the available index by exactly one modulo 2^16 and leaves the
completion side untouched. -/
theorem add_ok (q q' : Q) (ins outs : List Buf) (t : Nat) (evs : List Ev)
    (h : q.add ins outs = (q', .token t, evs)) :
    q'.availIdx = (q.availIdx + 1) % U16 ∧ q'.availIdxMem = (q.availIdx + 1) % U16
      ∧ q'.lastUsedIdx = q.lastUsedIdx ∧ q'.usedIdx = q.usedIdx ∧ q'.usedRing = q.usedRing
      ∧ ∃ c, q'.out = q.out ++ [c] ∧ c.head = t ∧ c.ins = ins ∧ c.outs = outs := by
  obtain ⟨q1, c, evs1, hb, hq, ht, _, _, _⟩ := add_token_inv h
  have f : Frame q q1 := frame_buildChain _ _ _ _ hb
  subst hq
  refine ⟨by simp [publish, f.availIdx], by simp [publish, f.availIdx], by simp [publish, f.lastUsedIdx],
    by simp [publish, f.usedIdx], by simp [publish, f.usedRing], c, by simp [publish, f.out], ht.symm, ?_⟩
  -- the ghost record carries the caller's buffers
  unfold buildChain at hb
  split at hb
  · unfold addIndirect at hb
    simp only at hb
    split at hb
    · simp at hb
    · split at hb
      · simp at hb
      · split at hb
        · simp at hb
        · simp only [Option.some.injEq, Prod.mk.injEq] at hb
          obtain ⟨_, h2, _⟩ := hb
          subst h2; exact ⟨rfl, rfl⟩
  · unfold addDirect at hb
    split at hb
    · simp at hb
    · simp only at hb
      split at hb
      · simp at hb
      · split at hb
        · simp at hb
        · simp only [Option.some.injEq, Prod.mk.injEq] at hb
          obtain ⟨_, h2, _⟩ := hb
          subst h2; exact ⟨rfl, rfl⟩

/-- The device may complete outstanding chains in *any* order: its writes do not touch anything the
driver trusts, whatever id and length it reports. -/
theorem devUsed_private_unchanged (q : Q) (id len : Nat) :
    let q' := q.devUsed id len
    q'.numUsed = q.numUsed ∧ q'.freeHead = q.freeHead ∧ q'.shadow = q.shadow ∧ q'.availIdx = q.availIdx
      ∧ q'.lastUsedIdx = q.lastUsedIdx ∧ q'.indirectLists = q.indirectLists ∧ q'.out = q.out := by
  simp [Q.devUsed]

/-! ### Non-vacuity: a history across the 16-bit wrap, out-of-order completion -/

example :
    let q0 := { Q.init 4 false false false with availIdx := 65535, availIdxMem := 65535, lastUsedIdx := 65535, usedIdx := 65535 }
    let (q1, r1, _) := q0.add [⟨0, 4⟩] [⟨1, 8⟩]
    let (q2, r2, _) := q1.add [] [⟨2, 8⟩]
    let q3 := (q2.devUsed 2 8).devUsed 0 5          -- device completes the second chain first
    let (q4, r4, _) := q3.popUsed 0 [⟨0, 4⟩] [⟨1, 8⟩]  -- wrong order for the caller of chain 0
    let (q5, r5, _) := q4.popUsed 2 [] [⟨2, 8⟩]
    let (q6, r6, _) := q5.popUsed 0 [⟨0, 4⟩] [⟨1, 8⟩]
    (r1, r2, r4, r5, r6) = (.token 0, .token 2, .err .wrongToken, .len 8, .len 5)
      ∧ q2.availIdx = 1 ∧ q6.lastUsedIdx = 1 ∧ q6.numUsed = 0 ∧ q6.availableDesc = 4 := by
  decide +kernel

/-- the hypotheses of `anwp_foreign_first` are met: an earlier chain is reported during the wait of a
blocking request; the blocking request's own chain (head 1) stays outstanding, two descriptors in use -/
example :
    let q0 := Q.init 4 false false false
    let (q1, _, _) := q0.add [] [⟨0, 8⟩]
    let (q2, r2, _, _) := q1.addNotifyWaitPopForeign [⟨1, 4⟩] [] (some (0, 8))
    r2 = .err .wrongToken ∧ q2.numUsed = 2 ∧ q2.availIdx = 2 ∧ q2.canPop = true
      ∧ (q2.popUsed 0 [] [⟨0, 8⟩]).2.1 = .len 8 := by
  decide +kernel

end VirtioVerif.Props.C03
