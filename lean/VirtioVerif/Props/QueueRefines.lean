import VirtioVerif.Lemmas.QueueReach
import VirtioVerif.Props.C03Inv
import VirtioVerif.Model.AbsQueue
import VirtioVerif.Props.C01
/-!
# The concrete queue refines the abstract queue of the driver models

`Model/AbsQueue.lean` is the specification the block and network driver models (C14, C16) are
written against (and `EvQueue` / `CmdQueue` are instances of the same shape): a map
*token ↦ outstanding chain* in submission order plus the FIFO of published, not yet consumed
completions.  This file relates it to the concrete model of `queue.rs` (`Model/Queue.lean`):
an abstraction function `absOf`, and for each driver operation a simulation lemma — the concrete
step yields the abstract step's outcome and commutes with `absOf`.

What is abstracted away: buffer *contents* (the concrete model names buffers, the abstract one
carries their bytes: a content environment `mem` supplies them) and completion *data* (supplied by
`dat`); everything about tokens, capacity, order and reported lengths is related exactly.
-/
namespace VirtioVerif.Props.QueueRefines
open VirtioVerif VirtioVerif.Queue

abbrev AQ := AbsQueue.Q

/-- content environment for device-readable buffers -/
structure Env where
  mem : Nat → List Nat
  ok : ∀ (b : Buf), (mem b.id).length = b.len → True := fun _ _ => trivial

def absChain (mem : Nat → List Nat) (ins outs : List Buf) : AbsQueue.Chain :=
  { rd := ins.map (fun b => mem b.id), wr := outs.map (·.len) }

def absOut (mem : Nat → List Nat) (out : List Chain) : List (Nat × AbsQueue.Chain) :=
  out.map fun c => (c.head, absChain mem c.ins c.outs)

/-- completions published by the device and not yet consumed, oldest first: `(id as u16, len)` -/
def usedCount (q : Q) : Nat := (q.usedIdx + U16 - q.lastUsedIdx) % U16

def usedAt (q : Q) (j : Nat) : Nat × Nat :=
  let e := q.usedRing.getD (slotOf q.n ((q.lastUsedIdx + j) % U16)) (0, 0)
  (e.1 % U16, e.2)

def usedList (q : Q) : List (Nat × Nat) := (List.range (usedCount q)).map (usedAt q)

theorem absChain_segs (mem : Nat → List Nat) (ins outs : List Buf) :
    (absChain mem ins outs).segs = ins.length + outs.length := by
  simp [absChain, AbsQueue.Chain.segs]

/-- descriptors a chain occupies = the abstract `cost` -/
theorem cost_eq_descs (q : Q) (mem : Nat → List Nat) (c : Chain) (h : ChainOk q c)
    (hi : c.table.isSome → q.indirect = true ∧ 1 < c.ins.length + c.outs.length)
    (hd : c.table = none → ¬ (q.indirect = true ∧ 1 < c.ins.length + c.outs.length)) :
    AbsQueue.cost q.indirect (absChain mem c.ins c.outs) = c.descs.length := by
  unfold AbsQueue.cost
  rw [absChain_segs]
  unfold ChainOk at h
  cases ht : c.table with
  | none =>
    rw [ht] at h
    have := hd ht
    have hl := encOk_length q _ _ _ h.2.2
    rw [tagBufs_length] at hl
    by_cases hq : q.indirect = true
    · have : ¬ 1 < c.ins.length + c.outs.length := fun x => this ⟨hq, x⟩
      simp [hq, this, hl]
    · simp [hq, hl]
  | some tid =>
    rw [ht] at h
    obtain ⟨hq, hk⟩ := hi (by simp [ht])
    simp [hq, hk, h.1]

/-- whether a chain uses an indirect table is decided by the queue's mode and its length -/
def ModeInv (q : Q) : Prop :=
  ∀ c ∈ q.out, c.table.isSome = (q.indirect && decide (1 < c.ins.length + c.outs.length))

theorem buildChain_mode (q : Q) (h : Inv q) (ins outs : List Buf) (hz : ∀ b ∈ ins ++ outs, b.len ≠ 0)
    (q1 : Q) (c : Chain) (evs : List Ev) (hk : ins.length + outs.length ≠ 0)
    (hr : addRefused q (ins.length + outs.length) = false)
    (hb : buildChain q ins outs = some (q1, c, evs)) :
    c.table.isSome = (q.indirect && decide (1 < ins.length + outs.length)) ∧ c.ins = ins ∧ c.outs = outs := by
  simp only [addRefused, Bool.or_eq_false_iff, Bool.and_eq_false_iff, decide_eq_false_iff_not,
    Bool.not_eq_eq_eq_not, Bool.not_false] at hr
  obtain ⟨⟨r1, r2⟩, r3⟩ := hr
  unfold buildChain at hb
  split at hb
  · rename_i hc
    have hc' := hc
    simp only [Bool.and_eq_true, decide_eq_true_eq] at hc'
    obtain ⟨q3, c3, e3, e, _, _, _, ht, hi, ho, _⟩ := addIndirect_inv q q.out ins outs h hc'.2 (by omega)
    rw [e] at hb
    simp only [Option.some.injEq, Prod.mk.injEq] at hb
    rw [← hb.2.1, ht, hc]
    exact ⟨rfl, hi, ho⟩
  · rename_i hc
    have hcap : q.numUsed + (ins.length + outs.length) ≤ q.n := by
      simp only [Bool.and_eq_true, decide_eq_true_eq, not_and, Nat.not_lt] at hc
      rcases r3 with r3 | r3
      · have hi : q.indirect = true := by simpa using r3
        have := hc hi
        omega
      · omega
    obtain ⟨q3, c3, e3, e, _, _, _, ht, hi, ho, _⟩ := addDirect_inv q q.out ins outs h (by omega) hz hcap
    rw [e] at hb
    simp only [Option.some.injEq, Prod.mk.injEq] at hb
    rw [← hb.2.1, ht]
    have : (q.indirect && decide (1 < ins.length + outs.length)) = false := by simpa using hc
    rw [this]
    exact ⟨rfl, hi, ho⟩

theorem add_modeInv (q : Q) (h : Inv q) (hm : ModeInv q) (ins outs : List Buf)
    (hz : ∀ b ∈ ins ++ outs, b.len ≠ 0) : ModeInv (q.add ins outs).1 := by
  cases hr : (q.add ins outs).2.1 with
  | token t =>
    have hadd : q.add ins outs = ((q.add ins outs).1, .token t, (q.add ins outs).2.2) := by rw [← hr]
    obtain ⟨q1, c, evs1, hb, hq, _, _, hk, hrf⟩ := add_token_inv hadd
    have f : Frame q q1 := frame_buildChain _ _ _ _ hb
    obtain ⟨m1, m2, m3⟩ := buildChain_mode q h ins outs hz q1 c evs1 hk hrf hb
    rw [hq]
    intro c' hc'
    simp only [publish, f.out, List.mem_append, List.mem_singleton] at hc'
    show c'.table.isSome = (q1.indirect && _)
    rw [f.indirect]
    rcases hc' with hc' | hc'
    · exact hm c' hc'
    · subst hc'; rw [m1, m2, m3]
  | err e =>
    have hadd : q.add ins outs = ((q.add ins outs).1, .err e, (q.add ins outs).2.2) := by rw [← hr]
    rw [(add_err_unchanged hadd).1]; exact hm
  | panic => exact absurd hr (add_inv q ins outs h hz).2
  | len l =>
    exfalso
    unfold Q.add at hr
    split at hr
    · simp at hr
    · split at hr
      · simp at hr
      · split at hr <;> simp at hr
  | unit =>
    exfalso
    unfold Q.add at hr
    split at hr
    · simp at hr
    · split at hr
      · simp at hr
      · split at hr <;> simp at hr

/-- the abstract descriptor count equals `num_used` -/
theorem numUsed_abs (q : Q) (mem : Nat → List Nat) (h : Inv q) (hm : ModeInv q) :
    ((absOut mem q.out).map fun p => AbsQueue.cost q.indirect p.2).sum = q.numUsed := by
  rw [h.numUsed]
  have : ∀ (l : List Chain), (∀ c ∈ l, c ∈ q.out) →
      ((absOut mem l).map fun p => AbsQueue.cost q.indirect p.2).sum = (chainDescs l).length := by
    intro l
    induction l with
    | nil => intro _; rfl
    | cons c rest ih =>
      intro hl
      have hc : c ∈ q.out := hl c (by simp)
      have hmode := hm c hc
      have := cost_eq_descs q mem c (h.chains c hc)
        (by intro hs; rw [hs] at hmode; simpa using hmode.symm)
        (by intro hn hcond; rw [hn] at hmode; simp [hcond.1, hcond.2] at hmode)
      simp only [absOut, List.map_cons, List.sum_cons, chainDescs, List.flatMap_cons, List.length_append]
      rw [this]
      have ih' := ih (fun x hx => hl x (by simp [hx]))
      simp only [absOut, chainDescs] at ih'
      rw [ih']
  exact this q.out (fun _ h => h)

/-! ### the abstraction function -/

/-- completion data is not modelled concretely: `dat` supplies it per token -/
def absOf (mem : Nat → List Nat) (dat : Nat → List (List Nat)) (q : Q) : AQ :=
  { size := q.n, indirect := q.indirect, out := absOut mem q.out,
    used := (usedList q).map fun p => { tok := p.1, len := p.2, data := dat p.1 } }

/-- the contents the environment assigns to a buffer have the buffer's length -/
def MemOk (mem : Nat → List Nat) (bufs : List Buf) : Prop := ∀ b ∈ bufs, (mem b.id).length = b.len

theorem absOf_numUsed (mem dat) (q : Q) (h : Inv q) (hm : ModeInv q) : (absOf mem dat q).numUsed = q.numUsed := by
  simp only [AbsQueue.Q.numUsed, absOf]
  exact numUsed_abs q mem h hm

theorem absOf_full (mem dat) (q : Q) (h : Inv q) (hm : ModeInv q) (k : Nat) :
    (absOf mem dat q).full k = addRefused q k := by
  simp only [AbsQueue.Q.full, addRefused, absOf_numUsed mem dat q h hm]
  simp only [absOf, gt_iff_lt]
  congr

/-- **`add` refines the abstract `add`.** In every reachable state, if the concrete queue accepts a
submission with token `t`, the abstract queue accepts the same chain under the same token (so `t` is
fresh and in range: `badToken` never arises from the concrete queue), and the abstraction commutes;
if it refuses, the abstract queue refuses with the same error. -/
theorem add_refines (mem dat) (q : Q) (h : Inv q) (hm : ModeInv q) (ins outs : List Buf)
    (hz : ∀ b ∈ ins ++ outs, b.len ≠ 0) (hmem : MemOk mem ins) :
    match (q.add ins outs).2.1 with
    | .token t => (absOf mem dat q).add t (absChain mem ins outs) = .ok (absOf mem dat (q.add ins outs).1)
    | .err .invalidParam => ∀ t, (absOf mem dat q).add t (absChain mem ins outs) = .error .invalidParam
    | .err .queueFull => ∀ t, (absOf mem dat q).add t (absChain mem ins outs) = .error .queueFull
    | _ => True := by
  cases hr : (q.add ins outs).2.1 with
  | token t =>
    simp only
    have hadd : q.add ins outs = ((q.add ins outs).1, .token t, (q.add ins outs).2.2) := by rw [← hr]
    obtain ⟨q1, c, evs1, hb, hq, ht, _, hk, hrf⟩ := add_token_inv hadd
    have f : Frame q q1 := frame_buildChain _ _ _ _ hb
    obtain ⟨_, m2, m3⟩ := buildChain_mode q h ins outs hz q1 c evs1 hk hrf hb
    have hinv' : Inv (q.add ins outs).1 := (add_inv q ins outs h hz).1
    have hout : (q.add ins outs).1.out = q.out ++ [c] := by rw [hq]; simp [publish, f.out]
    -- the token is in range and fresh
    obtain ⟨free', _, hnd', hlt', _⟩ := hinv'.free
    have hcm : c ∈ (q.add ins outs).1.out := by rw [hout]; simp
    have hhead : c.head ∈ c.descs := chainOk_head_mem _ c (hinv'.chains c hcm)
    have hrange : t < q.n := by
      have := hlt' c.head (by simp only [List.mem_append]; right; exact mem_chainDescs hcm hhead)
      rw [ht]
      have hn : (q.add ins outs).1.n = q.n := by rw [hq]; simp [publish, f.n]
      omega
    have hfresh : (absOf mem dat q).hasTok t = false := by
      simp only [AbsQueue.Q.hasTok, absOf, absOut, List.any_map, List.any_eq_false, Function.comp]
      intro x hx
      simp only [beq_iff_eq]
      intro e
      rw [hout, chainDescs_append] at hnd'
      have hx1 : x.head ∈ chainDescs q.out := mem_chainDescs hx (chainOk_head_mem q x (h.chains x hx))
      have := (List.nodup_append.mp (List.nodup_append.mp hnd').2.1).2.2 x.head hx1 c.head
        (by simp [chainDescs, hhead])
      exact this (by rw [e, ht])
    unfold AbsQueue.Q.add
    rw [absChain_segs, absOf_full mem dat q h hm, hrf]
    simp only [hk, if_false, Bool.false_eq_true]
    have hnp : ((absChain mem ins outs).rd.any (·.isEmpty) || (absChain mem ins outs).wr.any (· == 0)) = false := by
      simp only [absChain, Bool.or_eq_false_iff, List.any_map, List.any_eq_false, Function.comp]
      constructor
      · intro b hb
        have h1 := hmem b hb
        have h2 := hz b (by simp [hb])
        simp only [List.isEmpty_iff]
        intro e
        rw [e] at h1
        simp at h1
        exact h2 h1.symm
      · intro b hb
        simpa using hz b (by simp [hb])
    rw [hnp]
    simp only [Bool.false_eq_true, if_false]
    have hsz : (decide ((absOf mem dat q).size ≤ t) || (absOf mem dat q).hasTok t) = false := by
      rw [hfresh]
      simp only [absOf, Bool.or_false]
      exact decide_eq_false (by omega)
    rw [hsz]
    simp only [Bool.false_eq_true, if_false]
    -- the abstraction commutes
    congr 1
    have hn : (q.add ins outs).1.n = q.n := by rw [hq]; simp [publish, f.n]
    have hi : (q.add ins outs).1.indirect = q.indirect := by rw [hq]; simp [publish, f.indirect]
    have hu : usedList (q.add ins outs).1 = usedList q := by
      rw [hq]
      simp [usedList, usedCount, usedAt, publish, f.usedIdx, f.lastUsedIdx, f.usedRing, f.n]
    simp only [absOf, hn, hi, hu, hout, absOut, List.map_append, List.map_cons, List.map_nil]
    rw [← ht, m2, m3]
  | err e =>
    have hadd : q.add ins outs = ((q.add ins outs).1, .err e, (q.add ins outs).2.2) := by rw [← hr]
    cases e with
    | invalidParam =>
      simp only
      intro t
      have := (C03.add_invalid_iff q ins outs).mp hr
      unfold AbsQueue.Q.add
      rw [absChain_segs]
      simp [this]
    | queueFull =>
      simp only
      intro t
      obtain ⟨hk, hf⟩ := (C03.add_full_iff q ins outs).mp hr
      unfold AbsQueue.Q.add
      rw [absChain_segs, absOf_full mem dat q h hm, hf, if_neg hk]
      simp
    | notReady => trivial
    | wrongToken => trivial
  | panic => trivial
  | len l => trivial
  | unit => trivial

/-! ### consuming a completion -/

/-- the free-running indices are 16-bit values -/
def IdxInv (q : Q) : Prop := q.lastUsedIdx < U16 ∧ q.usedIdx < U16 ∧ q.availIdx < U16

theorem idxInv_init (n : Nat) (i e a : Bool) : IdxInv (Q.init n i e a) := by
  simp [IdxInv, Q.init, U16]

theorem usedList_cons (q : Q) (hi : IdxInv q) (hc : q.canPop = true) :
    usedList q = (q.usedElem.1 % U16, q.usedElem.2)
      :: (List.range (usedCount q - 1)).map (fun j => usedAt q (j + 1)) := by
  obtain ⟨h1, h2, _⟩ := hi
  have hne : q.lastUsedIdx ≠ q.usedIdx := by simpa [Q.canPop] using hc
  have hpos : 0 < usedCount q := by
    simp only [usedCount, U16] at *
    omega
  unfold usedList
  obtain ⟨m, hm⟩ : ∃ m, usedCount q = m + 1 := ⟨usedCount q - 1, by omega⟩
  rw [hm, List.range_succ_eq_map]
  simp only [List.map_cons, List.map_map, Nat.add_sub_cancel]
  congr 1
  simp only [usedAt, Q.usedElem, Nat.add_zero]
  rw [Nat.mod_eq_of_lt h1]

/-- **`pop_used` refines the abstract `pop`**: a successful concrete pop of token `tok` with
reported length `l` is the abstract pop of the head completion `(tok, l)`, and the abstraction
commutes; `NotReady` / `WrongToken` correspond as well. -/
theorem pop_refines (mem dat) (q : Q) (hi : IdxInv q) (tok : Nat) (ins outs : List Buf) :
    match (q.popUsed tok ins outs).2.1 with
    | .len l => ∃ d, (absOf mem dat q).pop tok = .ok (absOf mem dat (q.popUsed tok ins outs).1, d)
        ∧ d.tok = tok ∧ d.len = l
    | .err .notReady => (absOf mem dat q).pop tok = .error .notReady
    | .err .wrongToken => (absOf mem dat q).pop tok = .error .wrongToken
    | _ => True := by
  cases hr : (q.popUsed tok ins outs).2.1 with
  | len l =>
    simp only
    have hpop : q.popUsed tok ins outs = ((q.popUsed tok ins outs).1, .len l, (q.popUsed tok ins outs).2.2) := by
      rw [← hr]
    obtain ⟨q1, evs1, hrec, hq, _, hc, hid, hl⟩ := pop_len_inv hpop
    have f : Frame q q1 := frame_recycle _ _ _ _ _ hrec
    obtain ⟨a1, a2, _, _, _, a6, a7, _, _, _, _, _, a13, _, _, a16, _, _⟩ := finishPop_spec q1 tok
    have hul := usedList_cons q hi hc
    refine ⟨{ tok := q.usedElem.1 % U16, len := q.usedElem.2, data := dat (q.usedElem.1 % U16) }, ?_, hid, hl.symm⟩
    obtain ⟨h1, h2, _⟩ := hi
    have e1 : (finishPop q1 tok).1.lastUsedIdx = (q.lastUsedIdx + 1) % U16 := by rw [a1, f.lastUsedIdx]
    have e2 : (finishPop q1 tok).1.usedIdx = q.usedIdx := by rw [a6, f.usedIdx]
    have e3 : (finishPop q1 tok).1.usedRing = q.usedRing := by rw [a7, f.usedRing]
    have e4 : (finishPop q1 tok).1.n = q.n := by rw [a13, f.n]
    have e5 : (finishPop q1 tok).1.indirect = q.indirect := by rw [a16, f.indirect]
    have e6 : (finishPop q1 tok).1.out = q.out.filter (fun c => c.head != tok) := by rw [a2, f.out]
    have hne : q.lastUsedIdx ≠ q.usedIdx := by simpa [Q.canPop] using hc
    have hcount : usedCount (finishPop q1 tok).1 = usedCount q - 1 := by
      unfold usedCount
      rw [e1, e2]
      simp only [U16] at *
      omega
    have hat : ∀ j, usedAt (finishPop q1 tok).1 j = usedAt q (j + 1) := by
      intro j
      unfold usedAt
      rw [e1, e3, e4]
      have : ((q.lastUsedIdx + 1) % U16 + j) % U16 = (q.lastUsedIdx + (j + 1)) % U16 := by
        simp only [U16]; omega
      rw [this]
    have hused : usedList (finishPop q1 tok).1 = (List.range (usedCount q - 1)).map (fun j => usedAt q (j + 1)) := by
      unfold usedList
      rw [hcount]
      exact List.map_congr_left (fun j _ => hat j)
    have hout : absOut mem (finishPop q1 tok).1.out = (absOut mem q.out).filter (fun p => p.1 != tok) := by
      rw [e6]
      simp only [absOut, List.filter_map, Function.comp]
      rfl
    unfold AbsQueue.Q.pop
    rw [hq]
    simp only [absOf, hul, List.map_cons, hid, bne_self_eq_false, Bool.false_eq_true, if_false, e4, e5, hout, hused]
  | err e =>
    have hpop : q.popUsed tok ins outs = ((q.popUsed tok ins outs).1, .err e, (q.popUsed tok ins outs).2.2) := by
      rw [← hr]
    cases e with
    | notReady =>
      simp only
      unfold Q.popUsed at hr
      split at hr
      · rename_i hc
        have hc' : q.canPop = false := by simpa using hc
        have : usedCount q = 0 := by
          obtain ⟨h1, h2, _⟩ := hi
          have : q.lastUsedIdx = q.usedIdx := by simpa [Q.canPop] using hc'
          simp only [usedCount, this, U16] at *
          omega
        unfold AbsQueue.Q.pop
        simp [absOf, usedList, this]
      · split at hr
        · simp at hr
        · split at hr <;> simp at hr
    | wrongToken =>
      simp only
      unfold Q.popUsed at hr
      split at hr
      · simp at hr
      · rename_i hc
        have hc' : q.canPop = true := by simpa using hc
        split at hr
        · rename_i hne
          unfold AbsQueue.Q.pop
          simp only [absOf, usedList_cons q hi hc', List.map_cons]
          simp [hne]
        · split at hr <;> simp at hr
    | invalidParam => trivial
    | queueFull => trivial
  | panic => trivial
  | token t => trivial
  | unit => trivial

/-! ### the device publishing a completion -/

theorem u16_split (k : Nat) (hk : k ≤ 16) : U16 = 2 ^ k * 2 ^ (16 - k) := by
  rw [← Nat.pow_add]
  have : k + (16 - k) = 16 := by omega
  rw [this]
  rfl

/-- for a power-of-two size the ring slot of a free-running index -/
theorem slot_mod (k i : Nat) (hk : k ≤ 16) : slotOf (2 ^ k) (i % U16) = i % 2 ^ k := by
  rw [VirtioVerif.Props.C01.slotOf_eq_mod]
  rw [u16_split k hk, Nat.mod_mul_right_mod]

theorem mod_ne_of_lt (n a j c : Nat) (hj : j < c) (hc : c < n) : (a + j) % n ≠ (a + c) % n := by
  intro e
  have h1 : (a + c - (a + j)) % n = 0 := Nat.sub_mod_eq_zero_of_mod_eq e.symm
  have h2 : a + c - (a + j) = c - j := by omega
  rw [h2, Nat.mod_eq_of_lt (by omega)] at h1
  omega

/-- **A device step refines appending to the abstract used FIFO**, as long as fewer than `n`
completions are pending (the device cannot have more: there are at most `n` outstanding chains). -/
theorem devUsed_refines (mem dat) (q : Q) (hi : IdxInv q) (k : Nat) (hk : k ≤ 15) (hn : q.n = 2 ^ k)
    (hsz : q.usedRing.size = q.n) (id len : Nat) (hroom : usedCount q < q.n) :
    absOf mem dat (q.devUsed id len)
      = { absOf mem dat q with
          used := (absOf mem dat q).used ++ [{ tok := id % U16, len := len, data := dat (id % U16) }] } := by
  obtain ⟨h1, h2, _⟩ := hi
  have hnpos : 0 < q.n := by rw [hn]; exact Nat.two_pow_pos k
  have hcount : usedCount (q.devUsed id len) = usedCount q + 1 := by
    have hle : q.n ≤ 32768 := by
      rw [hn]
      calc 2 ^ k ≤ 2 ^ 15 := Nat.pow_le_pow_right (by decide) hk
        _ = 32768 := by decide
    simp only [usedCount, Q.devUsed, U16] at *
    omega
  -- the used index as lastUsedIdx + count
  have hidx : q.usedIdx = (q.lastUsedIdx + usedCount q) % U16 := by
    simp only [usedCount, U16] at *
    omega
  have hslotNew : q.usedIdx % q.n = (q.lastUsedIdx + usedCount q) % q.n := by
    rw [hidx, hn, u16_split k (by omega), Nat.mod_mul_right_mod]
  have hatOld : ∀ j, j < usedCount q → usedAt (q.devUsed id len) j = usedAt q j := by
    intro j hj
    unfold usedAt
    simp only [Q.devUsed]
    have hs : slotOf q.n ((q.lastUsedIdx + j) % U16) = (q.lastUsedIdx + j) % q.n := by
      rw [hn]; exact slot_mod k _ (by omega)
    rw [hs]
    have hne : q.usedIdx % q.n ≠ (q.lastUsedIdx + j) % q.n := by
      rw [hslotNew]
      exact (mod_ne_of_lt q.n q.lastUsedIdx j (usedCount q) hj hroom).symm
    simp [Array.getD_eq_getD_getElem?, Array.getElem?_setIfInBounds, hne]
  have hatNew : usedAt (q.devUsed id len) (usedCount q) = (id % U16, len) := by
    unfold usedAt
    simp only [Q.devUsed]
    have hs : slotOf q.n ((q.lastUsedIdx + usedCount q) % U16) = (q.lastUsedIdx + usedCount q) % q.n := by
      rw [hn]; exact slot_mod k _ (by omega)
    rw [hs, ← hslotNew]
    have : q.usedIdx % q.n < q.usedRing.size := by rw [hsz]; exact Nat.mod_lt _ hnpos
    simp [Array.getD_eq_getD_getElem?, Array.getElem?_setIfInBounds, this]
  have hul : usedList (q.devUsed id len) = usedList q ++ [(id % U16, len)] := by
    unfold usedList
    rw [hcount, List.range_succ, List.map_append]
    congr 1
    · exact List.map_congr_left (fun j hj => hatOld j (List.mem_range.mp hj))
    · simp [hatNew]
  show (AbsQueue.Q.mk _ _ _ _) = _
  simp only [absOf, hul, List.map_append, List.map_cons, List.map_nil]
  rfl

/-! ### the side invariants hold in every reachable state -/

theorem pop_modeInv (q : Q) (hm : ModeInv q) (tok : Nat) (ins outs : List Buf) :
    ModeInv (q.popUsed tok ins outs).1 := by
  unfold Q.popUsed
  split
  · exact hm
  · split
    · exact hm
    · split
      · exact hm
      · rename_i q1 evs hrec
        have f : Frame q q1 := frame_recycle _ _ _ _ _ hrec
        obtain ⟨_, a2, _, _, _, _, _, _, _, _, _, _, _, _, _, a16, _, _⟩ := finishPop_spec q1 (q.usedElem.1 % U16)
        intro c hc
        simp only at hc ⊢
        rw [a2, f.out] at hc
        rw [a16, f.indirect]
        exact hm c (List.mem_filter.mp hc).1

theorem step_side (q : Q) (op : Op) (h : Inv q) (hm : ModeInv q) (hi : IdxInv q) (hok : OpOk q op) :
    ModeInv (step q op).1 ∧ IdxInv (step q op).1 := by
  obtain ⟨i1, i2, i3⟩ := hi
  have hU : (0 : Nat) < U16 := by decide
  cases op with
  | add ins outs =>
    refine ⟨add_modeInv q h hm ins outs hok, ?_⟩
    show IdxInv (q.add ins outs).1
    cases hr : (q.add ins outs).2.1 with
    | token t =>
      have hadd : q.add ins outs = ((q.add ins outs).1, .token t, (q.add ins outs).2.2) := by rw [← hr]
      obtain ⟨a1, _, a3, a4, _, _⟩ := C03.add_ok q _ ins outs t _ hadd
      exact ⟨by rw [a3]; exact i1, by rw [a4]; exact i2, by rw [a1]; exact Nat.mod_lt _ hU⟩
    | err e =>
      have hadd : q.add ins outs = ((q.add ins outs).1, .err e, (q.add ins outs).2.2) := by rw [← hr]
      rw [(add_err_unchanged hadd).1]; exact ⟨i1, i2, i3⟩
    | panic => exact absurd hr (add_inv q ins outs h hok).2
    | len l =>
      exfalso
      unfold Q.add at hr
      split at hr
      · simp at hr
      · split at hr
        · simp at hr
        · split at hr <;> simp at hr
    | unit =>
      exfalso
      unfold Q.add at hr
      split at hr
      · simp at hr
      · split at hr
        · simp at hr
        · split at hr <;> simp at hr
  | pop tok ins outs =>
    refine ⟨pop_modeInv q hm tok ins outs, ?_⟩
    show IdxInv (q.popUsed tok ins outs).1
    cases hr : (q.popUsed tok ins outs).2.1 with
    | len l =>
      have hpop : q.popUsed tok ins outs = ((q.popUsed tok ins outs).1, .len l, (q.popUsed tok ins outs).2.2) := by
        rw [← hr]
      obtain ⟨_, _, _, b4, b5, _, _, b8, _⟩ := C03.pop_ok q _ tok ins outs l _ hpop
      exact ⟨by rw [b4]; exact Nat.mod_lt _ hU, by rw [b8]; exact i2, by rw [b5]; exact i3⟩
    | err e =>
      have hpop : q.popUsed tok ins outs = ((q.popUsed tok ins outs).1, .err e, (q.popUsed tok ins outs).2.2) := by
        rw [← hr]
      rw [(pop_err_unchanged hpop).1]; exact ⟨i1, i2, i3⟩
    | panic => exact absurd hr (pop_inv q h tok ins outs hok).2
    | token t =>
      exfalso
      unfold Q.popUsed at hr
      split at hr
      · simp at hr
      · split at hr
        · simp at hr
        · split at hr <;> simp at hr
    | unit =>
      exfalso
      unfold Q.popUsed at hr
      split at hr
      · simp at hr
      · split at hr
        · simp at hr
        · split at hr <;> simp at hr
  | notify en =>
    refine ⟨?_, ?_⟩
    · show ModeInv (q.setDevNotify en).1
      unfold Q.setDevNotify; dsimp only; split <;> exact hm
    · show IdxInv (q.setDevNotify en).1
      unfold Q.setDevNotify; dsimp only; split <;> exact ⟨i1, i2, i3⟩
  | devUsed id len => exact ⟨hm, i1, Nat.mod_lt _ hU, i3⟩
  | devUsedIdx v => exact ⟨hm, i1, Nat.mod_lt _ hU, i3⟩
  | devUsedElem s id len => exact ⟨hm, i1, i2, i3⟩
  | devUsedFlags v => exact ⟨hm, i1, i2, i3⟩
  | devAvailEvent v => exact ⟨hm, i1, i2, i3⟩

/-- **Every reachable state** satisfies the structural invariant together with the two side
invariants under which the refinement lemmas are stated; so the lemmas apply along every history. -/
theorem reachable_refinement_invariants (n : Nat) (ind ev ap : Bool) (hn : 0 < n) (hle : n ≤ 32768) :
    ∀ (ops : List Op) (q : Q), Inv q → ModeInv q → IdxInv q → AllOk q ops →
      Inv (run q ops) ∧ ModeInv (run q ops) ∧ IdxInv (run q ops) := by
  intro ops
  induction ops with
  | nil => intro q a b c _; exact ⟨a, b, c⟩
  | cons op ops ih =>
    intro q a b c hok
    obtain ⟨m1, m2⟩ := step_side q op a b c hok.1
    exact ih _ (step_inv q op a hok.1).1 m1 m2 hok.2

theorem fresh_side (n : Nat) (ind ev ap : Bool) : ModeInv (Q.init n ind ev ap) ∧ IdxInv (Q.init n ind ev ap) :=
  ⟨by intro c hc; simp [Q.init] at hc, idxInv_init n ind ev ap⟩

end VirtioVerif.Props.QueueRefines
