import VirtioVerif.Model.Mmio
import VirtioVerif.Spec.MmioRegs
/-!
# C10 — the MMIO transport performs exactly the register accesses the specification prescribes

All statements quantify over every queue index, queue size, 64-bit address, feature word, status
value, interrupt status and over every list of values the device may answer to reads (`rs`), for
the legacy (version 1) and the modern (version 2) interface.  `Spec.Mmio` is the register map
written from the specification; `Mmio` is the model of the code, tied to the code by the trace
comparison of the harness.
-/
namespace VirtioVerif.Props.C10
open VirtioVerif VirtioVerif.Mmio

/-! ## the code's header layout against the specification's table -/

/-- nominal correspondence: field of `VirtIOHeader` ↦ register name in the specification -/
def specOf : Reg → Spec.Mmio.Name
  | .magic => .MagicValue | .version => .Version | .deviceId => .DeviceID | .vendorId => .VendorID
  | .deviceFeatures => .DeviceFeatures | .deviceFeaturesSel => .DeviceFeaturesSel
  | .driverFeatures => .DriverFeatures | .driverFeaturesSel => .DriverFeaturesSel
  | .legacyGuestPageSize => .GuestPageSize | .queueSel => .QueueSel | .queueNumMax => .QueueNumMax
  | .queueNum => .QueueNum | .legacyQueueAlign => .QueueAlign | .legacyQueuePfn => .QueuePFN
  | .queueReady => .QueueReady | .queueNotify => .QueueNotify
  | .interruptStatus => .InterruptStatus | .interruptAck => .InterruptACK | .status => .Status
  | .queueDescLow => .QueueDescLow | .queueDescHigh => .QueueDescHigh
  | .queueDriverLow => .QueueDriverLow | .queueDriverHigh => .QueueDriverHigh
  | .queueDeviceLow => .QueueDeviceLow | .queueDeviceHigh => .QueueDeviceHigh
  | .configGeneration => .ConfigGeneration

/-- every field the transport uses sits at the offset the specification gives its register -/
theorem reg_offsets_match_spec (r : Reg) : Spec.Mmio.offsetOf (specOf r) = some r.off := by
  cases r <;> decide

/-- register block size, magic value and register width agree with the specification -/
theorem constants_match_spec :
    CONFIG_SPACE_OFFSET = Spec.Mmio.configOffset ∧ MAGIC = Spec.Mmio.magic
      ∧ ∀ r x, (wr r x).width = Spec.Mmio.regWidth ∧ (rd r x).width = Spec.Mmio.regWidth := by
  refine ⟨by decide, by decide, fun r x => ⟨rfl, rfl⟩⟩

/-! ## width, offsets, direction -/

/-- legal access: 32 bits wide, at an offset of the specification's table for this interface
version, in a direction the table permits (never reads a write-only register, never writes a
read-only one, never touches a reserved offset or a register of the other interface) -/
structure Legal (v : Version) (a : Access) : Prop where
  width : a.width = 4
  legal : Spec.Mmio.legal v.isLegacy a.write a.off = true

def canW (v : Version) (r : Reg) : Bool := Spec.Mmio.legal v.isLegacy true r.off
def canR (v : Version) (r : Reg) : Bool := Spec.Mmio.legal v.isLegacy false r.off
theorem legal_wr {v : Version} {r : Reg} (x : Nat) (h : canW v r = true) : Legal v (wr r x) := ⟨rfl, h⟩
theorem legal_rd {v : Version} {r : Reg} (x : Nat) (h : canR v r = true) : Legal v (rd r x) := ⟨rfl, h⟩

theorem pollReady_all (P : Access → Prop) (h : ∀ x, P (rd .queueReady x)) (rs : List Nat) :
    ∀ a ∈ (pollReady rs).1, P a := by
  induction rs with
  | nil => simp [pollReady]
  | cons r rs ih =>
    intro a ha
    by_cases hr : r = 0
    · simp [pollReady, hr] at ha; subst ha; exact h 0
    · simp [pollReady, hr] at ha
      rcases ha with ha | ha
      · subst ha; exact h r
      · exact ih a ha

theorem read1_all (P : Access → Prop) (pre : List Access) (r : Reg) (rs : List Nat) (k : Nat → Out)
    (hpre : ∀ a ∈ pre, P a) (hr : ∀ x, P (rd r x)) (hk : ∀ x, ∀ a ∈ (k x).trace, P a) :
    ∀ a ∈ (read1 pre r rs k).trace, P a := by
  cases rs with
  | nil => simpa [read1] using hpre
  | cons x xs =>
    simp only [read1, List.forall_mem_append, List.forall_mem_cons]
    exact ⟨hpre, hr x, hk x⟩


macro "legal_list" : tactic => `(tactic| (
  (try simp only [List.forall_mem_cons, List.forall_mem_append, List.forall_mem_nil, List.not_mem_nil,
    List.mem_nil_iff, false_imp_iff, implies_true, and_true, modernClear])
  <;> and_intros
  <;> first
    | exact legal_wr _ (by decide)
    | exact legal_rd _ (by decide)
    | (intro x; exact legal_rd _ (by decide))
    | (apply pollReady_all; intro x; exact legal_rd _ (by decide))
    | trivial))

/-- **Every access of every operation is legal**: 32 bits wide, at an offset of the
specification's table for the device's interface version, in a permitted direction — for all
parameters and all device answers, on legacy and modern devices. (Before /repo commit 058e2dd
`read_config_generation` read 0x0fc on legacy devices too; see the `example` at the end.) -/
theorem all_legal (v : Version) (op : Op) (rs : List Nat) :
    ∀ a ∈ (run v op rs).trace, Legal v a := by
  cases op <;> cases v <;> simp only [run]
  case readFeatures.legacy | readFeatures.modern => split <;> legal_list
  case writeFeatures.legacy | writeFeatures.modern => legal_list
  case maxQueueSize.legacy | maxQueueSize.modern => apply read1_all <;> legal_list
  case notify.legacy | notify.modern => legal_list
  case getStatus.legacy | getStatus.modern => apply read1_all <;> legal_list
  case setStatus.legacy | setStatus.modern => legal_list
  case setGuestPageSize.legacy | setGuestPageSize.modern => legal_list
  case queueSet.legacy => split <;> legal_list
  case queueSet.modern => legal_list
  case queueUnset.legacy => legal_list
  case queueUnset.modern =>
    split <;> legal_list
  case queueUsed.legacy | queueUsed.modern => apply read1_all <;> legal_list
  case ackInterrupt.legacy | ackInterrupt.modern =>
    apply read1_all <;> (try (intro x; split)) <;> legal_list
  case readGeneration.legacy => legal_list
  case readGeneration.modern => apply read1_all <;> legal_list
  case vendorId.legacy | vendorId.modern => apply read1_all <;> legal_list
  case drop.legacy | drop.modern => legal_list

/-- the access is one 32-bit load or store of a field of `VirtIOHeader` -/
structure IsField (a : Access) : Prop where
  field : ∃ r x, a = wr r x ∨ a = rd r x

theorem isField_wr (r : Reg) (x : Nat) : IsField (wr r x) := ⟨r, x, Or.inl rfl⟩
theorem isField_rd (r : Reg) (x : Nat) : IsField (rd r x) := ⟨r, x, Or.inr rfl⟩

macro "field_list" : tactic => `(tactic| (
  (try simp only [List.forall_mem_cons, List.forall_mem_append, List.forall_mem_nil, List.not_mem_nil,
    List.mem_nil_iff, false_imp_iff, implies_true, and_true, modernClear])
  <;> and_intros
  <;> first
    | exact isField_wr _ _
    | exact isField_rd _ _
    | (intro x; exact isField_rd _ _)
    | (apply pollReady_all; intro x; exact isField_rd _ _)
    | trivial))

/-- every access of every operation on either interface — no exception — is a single load or
store of a header field -/
theorem all_field_accesses (v : Version) (op : Op) (rs : List Nat) :
    ∀ a ∈ (run v op rs).trace, IsField a := by
  cases op <;> cases v <;> simp only [run]
  case readFeatures.legacy | readFeatures.modern => split <;> field_list
  case queueSet.legacy => split <;> field_list
  case queueUnset.modern => split <;> field_list
  case ackInterrupt.legacy | ackInterrupt.modern =>
    apply read1_all <;> (try (intro x; split)) <;> field_list
  case maxQueueSize.legacy | maxQueueSize.modern | getStatus.legacy | getStatus.modern
      | queueUsed.legacy | queueUsed.modern | readGeneration.modern
      | vendorId.legacy | vendorId.modern => apply read1_all <;> field_list
  all_goals field_list

/-- … hence 32 bits wide and at an offset of the register block, below the configuration space -/
theorem all_width32 (v : Version) (op : Op) (rs : List Nat) :
    ∀ a ∈ (run v op rs).trace, a.width = 4 ∧ a.off % 4 = 0 ∧ a.off < CONFIG_SPACE_OFFSET := by
  intro a ha
  obtain ⟨r, x, h | h⟩ := (all_field_accesses v op rs a ha).field <;> subst h <;>
    refine ⟨rfl, ?_, ?_⟩ <;> simp only [wr, rd] <;> cases r <;> decide

/-! ## selector discipline, address split -/

theorem lo_hi_recombine (x : Nat) (h : x < 2 ^ 64) :
    lo32 x + U32 * hi32 x = x ∧ lo32 x < U32 ∧ hi32 x < U32 := by
  simp only [lo32, hi32, U32]; omega

def selOff : Nat := 0x30

def selDiscipline (q : Nat) : Option Nat → List Access → Bool
  | _, [] => true
  | cur, a :: t =>
    if a.write && a.off == selOff then selDiscipline q (some a.val) t
    else if Spec.Mmio.isPerQueue a.off then cur == some q && selDiscipline q cur t
    else selDiscipline q cur t

def curSel : Option Nat → List Access → Option Nat
  | cur, [] => cur
  | cur, a :: t => if a.write && a.off == selOff then curSel (some a.val) t else curSel cur t

theorem selDiscipline_sound (q : Nat) (pre : List Access) :
    ∀ (cur : Option Nat) (t : List Access) (a : Access) (post : List Access),
      selDiscipline q cur t = true → t = pre ++ a :: post →
      Spec.Mmio.isPerQueue a.off = true → curSel cur pre = some q := by
  induction pre with
  | nil =>
    intro cur t a post h ht hp
    subst ht
    simp only [List.nil_append, selDiscipline] at h
    by_cases hs : (a.write && a.off == selOff) = true
    · exfalso
      simp only [Bool.and_eq_true, beq_iff_eq] at hs
      rw [hs.2] at hp
      exact absurd hp (by decide)
    · simp only [hs, hp, if_true, Bool.false_eq_true, if_false, Bool.and_eq_true, beq_iff_eq] at h
      simpa [curSel] using h.1
  | cons b pre ih =>
    intro cur t a post h ht hp
    subst ht
    simp only [List.cons_append, selDiscipline] at h
    simp only [curSel]
    by_cases hs : (b.write && b.off == selOff) = true
    · simp only [hs, if_true] at h ⊢
      exact ih _ _ a post h rfl hp
    · simp only [hs, Bool.false_eq_true, if_false] at h ⊢
      by_cases hb : Spec.Mmio.isPerQueue b.off = true
      · simp only [hb, if_true, Bool.and_eq_true] at h
        exact ih _ _ a post h.2 rfl hp
      · simp only [hb, Bool.false_eq_true, if_false] at h
        exact ih _ _ a post h rfl hp

def perQ : Reg → Bool
  | .queueNumMax | .queueNum | .legacyQueueAlign | .legacyQueuePfn | .queueReady
  | .queueDescLow | .queueDescHigh | .queueDriverLow | .queueDriverHigh
  | .queueDeviceLow | .queueDeviceHigh => true
  | _ => false

theorem isPerQueue_off (r : Reg) : Spec.Mmio.isPerQueue r.off = perQ r := by cases r <;> decide
theorem off_beq_sel (r : Reg) : (r.off == selOff) = (r == .queueSel) := by cases r <;> decide

@[simp] theorem sd_nil (q cur) : selDiscipline q cur [] = true := rfl
theorem sd_wr (q cur r x t) : selDiscipline q cur (wr r x :: t) =
    if r == .queueSel then selDiscipline q (some x) t
    else if perQ r then cur == some q && selDiscipline q cur t else selDiscipline q cur t := by
  simp [selDiscipline, wr, off_beq_sel, isPerQueue_off]
theorem sd_rd (q cur r x t) : selDiscipline q cur (rd r x :: t) =
    if perQ r then cur == some q && selDiscipline q cur t else selDiscipline q cur t := by
  simp [selDiscipline, rd, isPerQueue_off]

theorem sd_poll (q : Nat) (rs : List Nat) (t : List Access) :
    selDiscipline q (some q) ((pollReady rs).1 ++ t) = selDiscipline q (some q) t := by
  induction rs with
  | nil => simp [pollReady]
  | cons r rs ih =>
    by_cases h : r = 0
    · simp [pollReady, h, sd_rd, perQ]
    · simp [pollReady, h, sd_rd, perQ, ih]

theorem sd_poll_nil (q : Nat) (rs : List Nat) :
    selDiscipline q (some q) (pollReady rs).1 = true := by
  have := sd_poll q rs []
  simpa using this

def opQueue : Op → Option Nat
  | .maxQueueSize q => some q
  | .queueSet q _ _ _ _ => some q
  | .queueUnset q => some q
  | .queueUsed q => some q
  | _ => none

theorem sel_discipline (v : Version) (op : Op) (rs : List Nat) (q : Nat) (h : opQueue op = some q) :
    selDiscipline q none (run v op rs).trace = true := by
  cases op <;> simp only [opQueue, Option.some.injEq, reduceCtorEq] at h <;> subst h <;> cases v <;>
    simp only [run, read1]
  case queueUnset.modern =>
    split <;> simp [sd_wr, sd_poll, sd_poll_nil, perQ, modernClear]
  all_goals (try split) <;> simp [sd_wr, sd_rd, perQ]

/-- the access neither touches a per-queue register nor moves `QueueSel` -/
structure NoQueueReg (a : Access) : Prop where
  notPerQueue : Spec.Mmio.isPerQueue a.off = false
  notSel : a.off ≠ selOff

theorem noQueueReg_wr (r : Reg) (x : Nat) (h1 : perQ r = false) (h2 : (r == Reg.queueSel) = false) :
    NoQueueReg (wr r x) := by
  refine ⟨by simpa [wr, isPerQueue_off] using h1, ?_⟩
  intro he
  have := off_beq_sel r
  simp only [wr] at he
  rw [he, h2] at this
  simp at this

theorem noQueueReg_rd (r : Reg) (x : Nat) (h1 : perQ r = false) (h2 : (r == Reg.queueSel) = false) :
    NoQueueReg (rd r x) := ⟨(noQueueReg_wr r x h1 h2).1, (noQueueReg_wr r x h1 h2).2⟩

macro "noq_list" : tactic => `(tactic| (
  (try simp only [List.forall_mem_cons, List.forall_mem_append, List.forall_mem_nil, List.not_mem_nil,
    List.mem_nil_iff, false_imp_iff, implies_true, and_true])
  <;> and_intros
  <;> first
    | exact noQueueReg_wr _ _ (by decide) (by decide)
    | exact noQueueReg_rd _ _ (by decide) (by decide)
    | (intro x; exact noQueueReg_rd _ _ (by decide) (by decide))
    | trivial))

/-- operations that are not about a queue touch no per-queue register and never move `QueueSel` -/
theorem no_perqueue_access_without_queue (v : Version) (op : Op) (rs : List Nat)
    (h : opQueue op = none) :
    ∀ a ∈ (run v op rs).trace, NoQueueReg a := by
  cases op <;> simp only [opQueue, reduceCtorEq] at h <;> cases v <;> simp only [run]
  case readFeatures.legacy | readFeatures.modern => split <;> noq_list
  case ackInterrupt.legacy | ackInterrupt.modern =>
    apply read1_all <;> (try (intro x; split)) <;> noq_list
  case getStatus.legacy | getStatus.modern | readGeneration.modern
      | vendorId.legacy | vendorId.modern => apply read1_all <;> noq_list
  all_goals noq_list

/-! ## feature words -/

/-- `read_device_features`: select word 0, read it, select word 1, read it; the result is the
64-bit recombination of what was read -/
theorem read_features_trace (v : Version) (r0 r1 : Nat) (rest : List Nat) :
    run v .readFeatures (r0 :: r1 :: rest)
      = ⟨[wr .deviceFeaturesSel 0, rd .deviceFeatures r0, wr .deviceFeaturesSel 1, rd .deviceFeatures r1],
         .val (r0 + r1 * 2 ^ 32)⟩ := by
  cases v <;> rfl

/-- `write_driver_features`: select word 0, write the low word, select word 1, write the high
word; the two words recombine to the argument -/
theorem write_features_trace (v : Version) (f : Nat) (rs : List Nat) (hf : f < 2 ^ 64) :
    ∃ l h, run v (.writeFeatures f) rs
      = ⟨[wr .driverFeaturesSel 0, wr .driverFeatures l, wr .driverFeaturesSel 1, wr .driverFeatures h], .unit⟩
      ∧ l + 2 ^ 32 * h = f ∧ l < 2 ^ 32 ∧ h < 2 ^ 32 := by
  refine ⟨lo32 f, hi32 f, by cases v <;> rfl, ?_⟩
  have := lo_hi_recombine f hf
  simpa [U32] using this

/-! ## queues -/

/-- the seven parameter registers of a modern queue -/
def modernParamRegs : List Reg :=
  [.queueNum, .queueDescLow, .queueDescHigh, .queueDriverLow, .queueDriverHigh, .queueDeviceLow,
   .queueDeviceHigh]

/-- modern `queue_set`: the exact trace -/
theorem modern_queue_set_trace (q size desc drv dev : Nat) (rs : List Nat) :
    run .modern (.queueSet q size desc drv dev) rs =
      ⟨[wr .queueSel q, wr .queueNum size,
        wr .queueDescLow (lo32 desc), wr .queueDescHigh (hi32 desc),
        wr .queueDriverLow (lo32 drv), wr .queueDriverHigh (hi32 drv),
        wr .queueDeviceLow (lo32 dev), wr .queueDeviceHigh (hi32 dev),
        wr .queueReady 1], .unit⟩ := rfl

/-- modern `queue_set` marks the queue ready *last*: the trace is `params ++ [QueueReady := 1]`,
`params` does not touch `QueueReady`, writes every parameter register, and the low/high words
written recombine to the three 64-bit addresses -/
theorem modern_queue_set_ready_last (q size desc drv dev : Nat) (rs : List Nat)
    (hd : desc < 2 ^ 64) (hv : drv < 2 ^ 64) (he : dev < 2 ^ 64) :
    ∃ params dl dh vl vh el eh,
      (run .modern (.queueSet q size desc drv dev) rs).trace = params ++ [wr .queueReady 1]
      ∧ (∀ a ∈ params, a.off ≠ Reg.queueReady.off)
      ∧ (∀ r ∈ modernParamRegs, ∃ a ∈ params, a.write = true ∧ a.off = r.off)
      ∧ wr .queueNum size ∈ params
      ∧ wr .queueDescLow dl ∈ params ∧ wr .queueDescHigh dh ∈ params ∧ dl + 2 ^ 32 * dh = desc
      ∧ wr .queueDriverLow vl ∈ params ∧ wr .queueDriverHigh vh ∈ params ∧ vl + 2 ^ 32 * vh = drv
      ∧ wr .queueDeviceLow el ∈ params ∧ wr .queueDeviceHigh eh ∈ params ∧ el + 2 ^ 32 * eh = dev := by
  refine ⟨[wr .queueSel q, wr .queueNum size,
        wr .queueDescLow (lo32 desc), wr .queueDescHigh (hi32 desc),
        wr .queueDriverLow (lo32 drv), wr .queueDriverHigh (hi32 drv),
        wr .queueDeviceLow (lo32 dev), wr .queueDeviceHigh (hi32 dev)],
      lo32 desc, hi32 desc, lo32 drv, hi32 drv, lo32 dev, hi32 dev, rfl, ?_, ?_, ?_⟩
  · intro a ha
    simp only [List.mem_cons, List.not_mem_nil, or_false] at ha
    rcases ha with h | h | h | h | h | h | h | h <;> subst h <;> simp only [wr] <;> decide
  · intro r hr
    simp only [modernParamRegs, List.mem_cons, List.not_mem_nil, or_false] at hr
    rcases hr with h | h | h | h | h | h | h <;> subst h
    · exact ⟨wr .queueNum size, by simp, rfl, rfl⟩
    · exact ⟨wr .queueDescLow (lo32 desc), by simp, rfl, rfl⟩
    · exact ⟨wr .queueDescHigh (hi32 desc), by simp, rfl, rfl⟩
    · exact ⟨wr .queueDriverLow (lo32 drv), by simp, rfl, rfl⟩
    · exact ⟨wr .queueDriverHigh (hi32 drv), by simp, rfl, rfl⟩
    · exact ⟨wr .queueDeviceLow (lo32 dev), by simp, rfl, rfl⟩
    · exact ⟨wr .queueDeviceHigh (hi32 dev), by simp, rfl, rfl⟩
  · have h1 := (lo_hi_recombine desc hd).1
    have h2 := (lo_hi_recombine drv hv).1
    have h3 := (lo_hi_recombine dev he).1
    simp only [U32] at h1 h2 h3
    simp [h1, h2, h3]

/-- what the polling loop of modern `queue_unset` reads: non-zero values, then one zero -/
theorem pollReady_spec (rs : List Nat) (h : (pollReady rs).2 = true) :
    ∃ pre, (pollReady rs).1 = pre ++ [rd .queueReady 0]
      ∧ ∀ a ∈ pre, ∃ x, x ≠ 0 ∧ a = rd .queueReady x := by
  induction rs with
  | nil => simp [pollReady] at h
  | cons r rs ih =>
    by_cases hr : r = 0
    · exact ⟨[], by simp [pollReady, hr], by simp⟩
    · simp only [pollReady, hr, if_false] at h ⊢
      obtain ⟨pre, hp, hall⟩ := ih h
      refine ⟨rd .queueReady r :: pre, by simp [hp], ?_⟩
      intro a ha
      simp only [List.mem_cons] at ha
      rcases ha with ha | ha
      · exact ⟨r, hr, ha⟩
      · exact hall a ha

/-- modern `queue_unset` *starts* (after selecting the queue) with `QueueReady := 0`, then reads
`QueueReady` back; the parameters are cleared only after a zero was read back, and in that case
everything read before was non-zero -/
theorem modern_queue_unset_ready_first (q : Nat) (rs : List Nat) :
    ∃ rest, (run .modern (.queueUnset q) rs).trace = wr .queueSel q :: wr .queueReady 0 :: rest
      ∧ (((run .modern (.queueUnset q) rs).res = .unit ∧
            ∃ pre, rest = pre ++ [rd .queueReady 0] ++ modernClear
              ∧ ∀ a ∈ pre, ∃ x, x ≠ 0 ∧ a = rd .queueReady x)
         ∨ ((run .modern (.queueUnset q) rs).res = .stuck ∧
            ∀ a ∈ rest, ∃ x, a = rd .queueReady x)) := by
  simp only [run]
  split
  · rename_i hok
    obtain ⟨pre, hp, hall⟩ := pollReady_spec rs hok
    exact ⟨(pollReady rs).1 ++ modernClear, by simp, Or.inl ⟨rfl, pre, by rw [hp], hall⟩⟩
  · exact ⟨(pollReady rs).1, by simp, Or.inr ⟨rfl, pollReady_all _ (fun x => ⟨x, rfl⟩) rs⟩⟩

/-- legacy `queue_unset`: select, then zero size, alignment and page frame number -/
theorem legacy_queue_unset_trace (q : Nat) (rs : List Nat) :
    run .legacy (.queueUnset q) rs =
      ⟨[wr .queueSel q, wr .queueNum 0, wr .legacyQueueAlign 0, wr .legacyQueuePfn 0], .unit⟩ := rfl

/-- legacy `queue_set`, admissible arguments: order `QueueSel, QueueNum, QueueAlign, QueuePFN`;
the page frame number times the page size is the descriptor address and fits 32 bits; the
available ring follows the descriptor table -/
theorem legacy_queue_set_ok (q size desc drv dev : Nat) (rs : List Nat)
    (h : legacySetOk size desc drv dev = true) :
    run .legacy (.queueSet q size desc drv dev) rs =
        ⟨[wr .queueSel q, wr .queueNum size, wr .legacyQueueAlign 4096, wr .legacyQueuePfn (desc / 4096)], .unit⟩
      ∧ desc / 4096 * 4096 = desc ∧ desc / 4096 < 2 ^ 32
      ∧ drv = desc + 16 * size
      ∧ dev = desc + (18 * size + 6 + 4096) / 4096 * 4096 := by
  have h' := h
  simp only [legacySetOk, Bool.and_eq_true, decide_eq_true_eq, beq_iff_eq, PAGE, U32, alignUpPhys,
    Generated.descSize, Generated.pageSize] at h'
  obtain ⟨⟨⟨⟨⟨h1, h2⟩, h3⟩, h4⟩, h5⟩, h6⟩ := h'
  have h5' : desc / 4096 < 2 ^ 32 := of_decide_eq_true h5
  refine ⟨?_, h6, h5', by omega, ?_⟩
  · simp [run, h, PAGE, Generated.pageSize]
  · have : 16 * size + 2 * (size + 3) = 18 * size + 6 := by omega
    rw [this] at h4
    omega

theorem ceil_lemma (x : Nat) (h : x % 4096 ≠ 0) : (x + 4095) / 4096 = (x + 4096) / 4096 := by
  have hk := Nat.div_add_mod x 4096
  have hr := Nat.mod_lt x (by decide : 0 < 4096)
  generalize x / 4096 = k at *
  generalize x % 4096 = r at *
  subst hk
  have a1 : (4096 * k + r + 4095) = (r + 4095) + 4096 * k := by omega
  have a2 : (4096 * k + r + 4096) = (r + 4096) + 4096 * k := by omega
  rw [a1, a2, Nat.add_mul_div_left _ _ (by decide : 0 < 4096), Nat.add_mul_div_left _ _ (by decide : 0 < 4096)]
  have b1 : (r + 4095) / 4096 = 1 := by
    apply Nat.div_eq_of_lt_le <;> omega
  have b2 : (r + 4096) / 4096 = 1 := by
    apply Nat.div_eq_of_lt_le <;> omega
  rw [b1, b2]

/-- what a legacy device reconstructs from the registers (§4.2.4: descriptor table at
`QueuePFN · GuestPageSize`, available ring right behind it, used ring at the next `QueueAlign`
boundary) is exactly the three areas the caller passed — for every size whose rings do not end
exactly on a page boundary (true for all power-of-two sizes, see C06) -/
theorem legacy_device_view (q size desc drv dev : Nat) (rs : List Nat)
    (h : legacySetOk size desc drv dev = true) (hsz : (18 * size + 6) % 4096 ≠ 0) :
    desc / 4096 * 4096 = desc
      ∧ desc / 4096 * 4096 + 16 * size = drv
      ∧ (desc / 4096 * 4096 + 16 * size + (6 + 2 * size) + 4095) / 4096 * 4096 = dev := by
  have hh := legacy_queue_set_ok q size desc drv dev rs h
  obtain ⟨-, h1, -, h2, h3⟩ := hh
  refine ⟨h1, by rw [h1, h2], ?_⟩
  rw [h1, h3]
  generalize hp : desc / 4096 = p at h1
  subst h1
  have e1 : p * 4096 + 16 * size + (6 + 2 * size) + 4095 = (18 * size + 6 + 4095) + 4096 * p := by omega
  rw [e1, Nat.add_mul_div_left _ _ (by decide : 0 < 4096), ceil_lemma _ hsz, Nat.add_mul, Nat.add_comm]

/-- legacy `queue_set`, inadmissible arguments: panic before any register is touched -/
theorem legacy_queue_set_panic (q size desc drv dev : Nat) (rs : List Nat)
    (h : legacySetOk size desc drv dev = false) :
    run .legacy (.queueSet q size desc drv dev) rs = ⟨[], .panic⟩ := by
  simp [run, h]

/-- `set_guest_page_size`: one write on a legacy device, nothing on a modern one -/
theorem guest_page_size_trace (p : Nat) (rs : List Nat) :
    run .legacy (.setGuestPageSize p) rs = ⟨[wr .legacyGuestPageSize p], .unit⟩
      ∧ run .modern (.setGuestPageSize p) rs = ⟨[], .unit⟩ := ⟨rfl, rfl⟩

/-- a successful `begin_init` on a legacy device ends with `GuestPageSize := 4096`: every queue
created afterwards has its `QueueAlign`/`QueuePFN` written after the page size -/
theorem begin_init_legacy_sets_page_size (supported : Nat) (rs : List Nat) (n : Nat)
    (h : (beginInit .legacy supported rs).res = .val n) :
    ∃ pre, (beginInit .legacy supported rs).trace = pre ++ [wr .legacyGuestPageSize 4096] := by
  rcases rs with _ | ⟨r0, _ | ⟨r1, rest⟩⟩
  · simp [beginInit, run] at h
  · simp [beginInit, run] at h
  · simp only [beginInit, run] at h ⊢
    split at h
    · simp at h
    · rename_i hc
      rw [if_neg hc]
      exact ⟨_, by simp only [PAGE, Generated.pageSize]; rfl⟩

/-! ## interrupts, status, drop -/

/-- `ack_interrupt` reads `InterruptStatus` and, if it is non-zero, writes exactly the value read
to `InterruptACK`; if it is zero nothing is written -/
theorem ack_writes_back (v : Version) (x : Nat) (rest : List Nat) :
    (run v .ackInterrupt (x :: rest)).trace =
      if x = 0 then [rd .interruptStatus x] else [rd .interruptStatus x, wr .interruptAck x] := by
  cases v <;> by_cases h : x = 0 <;> simp [run, read1, h]

/-- dropping the transport resets the device: exactly one write, `Status := 0` -/
theorem drop_resets (v : Version) (rs : List Nat) : run v .drop rs = ⟨[wr .status 0], .unit⟩ := by
  cases v <;> rfl

/-- `set_status s` is one write of `s` to `Status`; `notify q` one write of `q` to `QueueNotify` -/
theorem status_notify_trace (v : Version) (s q : Nat) (rs : List Nat) :
    run v (.setStatus s) rs = ⟨[wr .status s], .unit⟩ ∧ run v (.notify q) rs = ⟨[wr .queueNotify q], .unit⟩ := by
  cases v <;> exact ⟨rfl, rfl⟩

/-! ## probe -/

/-- the device types the transport knows (1–13 and 16–25); zero is not among them -/
def knownIds : List Nat :=
  [1, 2, 3, 4, 5, 6, 7, 8, 9, 10, 11, 12, 13, 16, 17, 18, 19, 20, 21, 22, 23, 24, 25]

theorem deviceType_isSome_iff (d : Nat) : (deviceType d).isSome = true ↔ d ∈ knownIds := by
  simp only [deviceType, knownIds, List.mem_cons, List.not_mem_nil, or_false]
  constructor
  · intro h
    split at h
    · omega
    · split at h
      · omega
      · simp at h
  · intro h
    split
    · rfl
    · split
      · rfl
      · omega

/-- Probing accepts **iff** the region holds the whole register block, the magic value is right,
the version is 1 or 2 and the device id is a known non-zero type. -/
theorem probe_accepts_iff (size magic version devid : Nat) :
    (∃ p, (probe size magic version devid).res = .ok p) ↔
      (0x100 ≤ size ∧ magic = MAGIC ∧ (version = 1 ∨ version = 2) ∧ devid ∈ knownIds) := by
  rw [← deviceType_isSome_iff]
  unfold probe
  rw [show CONFIG_SPACE_OFFSET = 256 from rfl]
  constructor
  · rintro ⟨p, hp⟩
    by_cases hs : size < 256
    · rw [if_pos hs] at hp; simp at hp
    · rw [if_neg hs] at hp
      by_cases hm : magic ≠ MAGIC
      · simp only [if_pos hm] at hp; simp at hp
      · simp only [if_neg hm] at hp
        cases hty : deviceType devid with
        | none => rw [hty] at hp; simp at hp
        | some ty =>
          rw [hty] at hp
          by_cases h1 : version = 1
          · exact ⟨by omega, by simpa using hm, Or.inl h1, by simp⟩
          · by_cases h2 : version = 2
            · exact ⟨by omega, by simpa using hm, Or.inr h2, by simp⟩
            · simp [h1, h2] at hp
  · rintro ⟨hs, hm, hv, hd⟩
    have hs' : ¬ size < 256 := by omega
    obtain ⟨ty, hty⟩ := Option.isSome_iff_exists.mp hd
    rcases hv with hv | hv <;> simp [hs', hm, hty, hv]

/-- on acceptance the version is the one the device reported, and the configuration window is
what remains of the region behind the register block -/
theorem probe_result (size magic version devid : Nat) (p : Probed)
    (h : (probe size magic version devid).res = .ok p) :
    p.configLen = size - 0x100 ∧ (p.version = .legacy ↔ version = 1) ∧ (p.version = .modern ↔ version = 2)
      ∧ deviceType devid = some p.deviceType := by
  unfold probe at h
  rw [show CONFIG_SPACE_OFFSET = 256 from rfl] at h
  split at h
  · simp at h
  · split at h
    · simp at h
    · split at h
      · simp at h
      · rename_i ty hty
        split at h
        · rename_i hv
          simp only [Except.ok.injEq] at h
          subst h
          simp [hv, hty]
        · split at h
          · rename_i hv1 hv
            simp only [Except.ok.injEq] at h
            subst h
            simp [hv, hty]
          · simp at h

/-- probing writes nothing, reads only the three identification registers (legal on both
interfaces), 32 bits wide — whatever the header contains and whatever the region size -/
theorem probe_no_write (size magic version devid : Nat) :
    ∀ a ∈ (probe size magic version devid).trace,
      a.write = false ∧ a.width = 4 ∧ (a.off = 0x000 ∨ a.off = 0x004 ∨ a.off = 0x008)
        ∧ Legal .legacy a ∧ Legal .modern a := by
  have hm : ∀ x, (rd .magic x).write = false ∧ (rd .magic x).width = 4 ∧
      ((rd .magic x).off = 0x000 ∨ (rd .magic x).off = 0x004 ∨ (rd .magic x).off = 0x008)
      ∧ Legal .legacy (rd .magic x) ∧ Legal .modern (rd .magic x) :=
    fun x => ⟨rfl, rfl, Or.inl rfl, legal_rd _ (by decide), legal_rd _ (by decide)⟩
  have hd : ∀ x, (rd .deviceId x).write = false ∧ (rd .deviceId x).width = 4 ∧
      ((rd .deviceId x).off = 0x000 ∨ (rd .deviceId x).off = 0x004 ∨ (rd .deviceId x).off = 0x008)
      ∧ Legal .legacy (rd .deviceId x) ∧ Legal .modern (rd .deviceId x) :=
    fun x => ⟨rfl, rfl, Or.inr (Or.inr rfl), legal_rd _ (by decide), legal_rd _ (by decide)⟩
  have hv : ∀ x, (rd .version x).write = false ∧ (rd .version x).width = 4 ∧
      ((rd .version x).off = 0x000 ∨ (rd .version x).off = 0x004 ∨ (rd .version x).off = 0x008)
      ∧ Legal .legacy (rd .version x) ∧ Legal .modern (rd .version x) :=
    fun x => ⟨rfl, rfl, Or.inr (Or.inl rfl), legal_rd _ (by decide), legal_rd _ (by decide)⟩
  unfold probe
  split
  · simp
  · split
    · simpa using hm magic
    · split
      · simpa using ⟨hm magic, hd devid⟩
      · split
        · simpa using ⟨hm magic, hd devid, hv version⟩
        · split <;> simpa using ⟨hm magic, hd devid, hv version⟩

/-- a region shorter than the register block is refused without touching the device at all -/
theorem probe_too_small (size magic version devid : Nat) (h : size < 0x100) :
    (probe size magic version devid).trace = [] ∧ (probe size magic version devid).res = .error .regionTooSmall := by
  unfold probe
  rw [show CONFIG_SPACE_OFFSET = 256 from rfl, if_pos h]
  exact ⟨rfl, rfl⟩

/-! ## `read_config_generation` -/

/-- on a legacy device `read_config_generation` touches nothing and returns the constant 0 (the
legacy register layout, §4.2.4, has no ConfigGeneration); on a modern device it is one read of 0x0fc -/
theorem read_generation_trace (x : Nat) (rs : List Nat) :
    run .legacy .readGeneration rs = ⟨[], .val 0⟩
      ∧ run .modern .readGeneration (x :: rs) = ⟨[rd .configGeneration x], .val x⟩ := ⟨rfl, rfl⟩

/-- Negation witness for the behaviour before /repo commit 058e2dd (the transport read 0x0fc on
legacy devices as well): that access is *not* legal on the legacy interface, so `all_legal` would
fail for a model of the old code — the oracle of the harness flags exactly this trace. -/
example : ¬ Legal .legacy (rd .configGeneration 0) := fun h => absurd h.legal (by decide)
example : Legal .modern (rd .configGeneration 0) := legal_rd _ (by decide)

/-! ## non-vacuity -/

example : (run .modern (.queueSet 1 8 0x1_0000_2000 0x1_0000_2080 0xffff_ffff_0000_3000) []).trace
    = [⟨true, 4, 0x30, 1⟩, ⟨true, 4, 0x38, 8⟩, ⟨true, 4, 0x80, 0x2000⟩, ⟨true, 4, 0x84, 1⟩,
       ⟨true, 4, 0x90, 0x2080⟩, ⟨true, 4, 0x94, 1⟩, ⟨true, 4, 0xa0, 0x3000⟩, ⟨true, 4, 0xa4, 0xffffffff⟩,
       ⟨true, 4, 0x44, 1⟩] := by decide

example : legacySetOk 4 0x5000 0x5040 0x6000 = true := by decide
example : (run .legacy (.queueSet 2 4 0x5000 0x5040 0x6000) []).trace
    = [⟨true, 4, 0x30, 2⟩, ⟨true, 4, 0x38, 4⟩, ⟨true, 4, 0x3c, 4096⟩, ⟨true, 4, 0x40, 5⟩] := by decide
example : run .legacy (.queueSet 2 4 0x5008 0x5048 0x6008) [] = ⟨[], .panic⟩ := by decide
example : (run .modern (.queueUnset 3) [1, 1, 0]).trace.length = 12 := by decide
example : (run .modern (.queueUnset 3) [1, 1]).res = .stuck := by decide
example : (probe 0x100 0x74726976 2 2).res = .ok ⟨.modern, 2, 0⟩ := rfl
example : (probe 0xff 0x74726976 2 2).res = .error .regionTooSmall := rfl
example : (probe 0x200 0x74726976 3 2).res = .error (.unsupportedVersion 3) := rfl
example : (probe 0x200 0x74726976 2 0).res = .error (.invalidDeviceId 0) := rfl
example : (probe 0x200 0x74726977 2 2).res = .error (.badMagic 0x74726977) := rfl

end VirtioVerif.Props.C10
