import VirtioVerif.Model.Console
import VirtioVerif.Lemmas.EvQueue
/-!
# C15 — console bytes are delivered exactly once and in order in both directions

Everything is stated for an arbitrary allocator policy `A` satisfying `Alloc.Lifo`/`Alloc.InitSeq`
(the queue-core refinement discharges them for `queue.rs`; `Alloc.stack` is an instance), any
receive-buffer size `cap ≥ 1` and queue size `n ≥ 1`, and **all** operation lists: any interleaving
of `recv(peek/pop)`, `read n`, `fill_buf`, `consume k`, `read_ready`, `ack_interrupt isr`, sends,
`size`, `emergency_write`, and device fills of any chunking — between calls (`Op.dev`) and inside
the busy-wait of blocking calls (their `script`).
-/
namespace VirtioVerif.Props.C15
open VirtioVerif VirtioVerif.EvQueue VirtioVerif.Console

/-- the receive chain as posted by `poll_retrieve` / as completed by the device -/
def rxChain (cap : Nat) (data : List Nat) : Buf := ⟨0, 0, cap, data, true⟩

/-- bytes received and not yet returned: `queue_buf_rx[cursor..pending_len]` -/
def pending (c : Console) : List Nat := (c.rxBuf.drop c.cursor).take (c.pendingLen - c.cursor)

/-- The three states of the receive side; the index is the chunk sitting in the used ring. -/
inductive RxState (A : Alloc) (n : Nat) (c : Console) : List Nat → Prop
  | idle : c.receiveToken = none → QIdle A n c.rxq → RxState A n c []
  | posted : c.receiveToken = some 0 → c.cursor = c.pendingLen →
      QPosted n c.rxq (rxChain c.cap []) → RxState A n c []
  | used (chunk : List Nat) : c.receiveToken = some 0 → c.cursor = c.pendingLen →
      QUsed n c.rxq (rxChain c.cap chunk) chunk.length → 1 ≤ chunk.length → chunk.length ≤ c.cap →
      RxState A n c chunk

/-- The invariant.  `ret` = concatenation of everything the receive operations have returned. -/
structure Inv (A : Alloc) (n cap : Nat) (c : Console) (ret : List Nat) : Prop where
  n_pos : 1 ≤ n
  cap_pos : 1 ≤ cap
  cap_eq : c.cap = cap
  cur_le : c.cursor ≤ c.pendingLen
  pend_le : c.pendingLen ≤ c.rxBuf.length
  buf_le : c.rxBuf.length ≤ cap
  tx : QIdle A n c.txq
  /-- the stream equation: returned ++ pending ++ (completed, not yet popped) = written by the device -/
  rx : ∃ fl, RxState A n c fl ∧ ret ++ pending c ++ fl = c.written

/-- nothing sits in the used ring: everything the device wrote is either returned or pending -/
structure Settled (A : Alloc) (n cap : Nat) (c : Console) (ret : List Nat) : Prop where
  inv : Inv A n cap c ret
  rx0 : RxState A n c []
  eq : ret ++ pending c = c.written

theorem pending_nil {c : Console} (h : c.cursor = c.pendingLen) : pending c = [] := by
  simp [pending, h]

theorem settled_of_ne {A : Alloc} {n cap : Nat} {c : Console} {ret : List Nat} (h : Inv A n cap c ret)
    (hne : c.cursor ≠ c.pendingLen) : Settled A n cap c ret := by
  obtain ⟨fl, hrx, hs⟩ := h.rx
  cases hrx with
  | idle ht hq => exact ⟨h, .idle ht hq, by simpa using hs⟩
  | posted _ hc _ => exact absurd hc hne
  | used _ _ hc _ _ _ => exact absurd hc hne

/-- splitting the pending bytes at `k` -/
theorem pending_split {c : Console} {k : Nat} (hk : c.cursor + k ≤ c.pendingLen)
    (hp : c.pendingLen ≤ c.rxBuf.length) :
    pending c = slice c c.cursor k ++ pending { c with cursor := c.cursor + k } := by
  have hl : k ≤ (c.rxBuf.drop c.cursor).length := by simp; omega
  have e : c.pendingLen - c.cursor = k + (c.pendingLen - (c.cursor + k)) := by omega
  have h0 : k - (List.drop c.cursor c.rxBuf).length = 0 := by omega
  simp only [pending, slice, padTo, h0, List.replicate_zero, List.append_nil]
  rw [e, List.take_add, List.drop_drop]

theorem slice_one {c : Console} (h : c.cursor < c.rxBuf.length) :
    slice c c.cursor 1 = [c.rxBuf.getD c.cursor POISON] := by
  have hl : 1 ≤ (c.rxBuf.drop c.cursor).length := by simp; omega
  have h0 : 1 - (List.drop c.cursor c.rxBuf).length = 0 := by omega
  simp only [slice, padTo, h0, List.replicate_zero, List.append_nil]
  rw [List.drop_eq_getElem_cons h, List.take_succ_cons, List.take_zero]
  simp [List.getD_eq_getElem?_getD, h]

/-- moving the cursor forward by `k ≤ pending` hands exactly `queue_buf_rx[cursor..cursor+k]` over -/
theorem advance_inv {A : Alloc} {n cap : Nat} {c : Console} {ret : List Nat} (h : Inv A n cap c ret)
    {k : Nat} (hk : c.cursor + k ≤ c.pendingLen) :
    Inv A n cap { c with cursor := c.cursor + k } (ret ++ slice c c.cursor k) := by
  obtain ⟨fl, hrx, hs⟩ := h.rx
  have hsp := pending_split hk h.pend_le
  refine ⟨h.n_pos, h.cap_pos, h.cap_eq, hk, h.pend_le, h.buf_le, h.tx, fl, ?_, ?_⟩
  · cases hrx with
    | idle ht hq => exact .idle ht hq
    | posted ht hc hq => exact .posted ht (by show c.cursor + k = c.pendingLen; omega) hq
    | used _ ht hc hq h1 h2 => exact .used fl ht (by show c.cursor + k = c.pendingLen; omega) hq h1 h2
  · show ret ++ slice c c.cursor k ++ pending { c with cursor := c.cursor + k } ++ fl = c.written
    rw [List.append_assoc ret, ← hsp]; exact hs

/-! ## the primitives preserve the invariant -/

theorem pollRetrieve_inv {A : Alloc} {n cap : Nat} {c : Console} {ret : List Nat} (h : Inv A n cap c ret) :
    (pollRetrieve A c).2 = none ∧ Inv A n cap (pollRetrieve A c).1 ret
      ∧ (pollRetrieve A c).1.written = c.written ∧ (pollRetrieve A c).1.wire = c.wire
      ∧ (pollRetrieve A c).1.cursor = c.cursor ∧ (pollRetrieve A c).1.pendingLen = c.pendingLen
      ∧ (c.cursor = c.pendingLen → (pollRetrieve A c).1.receiveToken ≠ none)
      ∧ ((pollRetrieve A c).1.rxq.posted ≠ c.rxq.posted →
          c.cursor = c.pendingLen ∧ c.rxq.posted = [] ∧ c.rxq.used = []) := by
  obtain ⟨fl, hrx, hs⟩ := h.rx
  cases hrx with
  | idle ht hq =>
    by_cases hc : c.cursor = c.pendingLen
    · obtain ⟨q', hadd, hq'⟩ := add_idle hq h.n_pos 0 c.cap [] true (by have := h.cap_pos; have := h.cap_eq; omega)
      have e : pollRetrieve A c =
          ({ c with receiveToken := some 0, rxq := q', rxNotifies := c.rxNotifies + 1 }, none) := by
        simp [pollRetrieve, ht, hc, hadd]
      rw [e]
      refine ⟨rfl, ⟨h.n_pos, h.cap_pos, h.cap_eq, h.cur_le, h.pend_le, h.buf_le, h.tx, [], ?_, hs⟩, rfl, rfl, rfl, rfl,
        fun _ => by simp, fun _ => ⟨hc, hq.posted, hq.used⟩⟩
      exact .posted rfl hc hq'
    · have e : pollRetrieve A c = (c, none) := by simp [pollRetrieve, ht, hc]
      rw [e]; exact ⟨rfl, h, rfl, rfl, rfl, rfl, fun hh => absurd hh hc, fun hne => absurd rfl hne⟩
  | posted ht _ _ =>
    have e : pollRetrieve A c = (c, none) := by simp [pollRetrieve, ht]
    rw [e]; exact ⟨rfl, h, rfl, rfl, rfl, rfl, fun _ => by simp [ht], fun hne => absurd rfl hne⟩
  | used _ ht _ _ _ _ =>
    have e : pollRetrieve A c = (c, none) := by simp [pollRetrieve, ht]
    rw [e]; exact ⟨rfl, h, rfl, rfl, rfl, rfl, fun _ => by simp [ht], fun hne => absurd rfl hne⟩

/-- `finish_receive` never fails against an honest device, never posts, and leaves the used ring empty -/
theorem finishReceive_inv {A : Alloc} (hL : A.Lifo) {n cap : Nat} {c : Console} {ret : List Nat}
    (h : Inv A n cap c ret) :
    ∃ b, (finishReceive A c).2 = .ok b ∧ Settled A n cap (finishReceive A c).1 ret
      ∧ (finishReceive A c).1.written = c.written ∧ (finishReceive A c).1.wire = c.wire
      ∧ ((finishReceive A c).1.rxq.posted = c.rxq.posted)
      ∧ (c.receiveToken ≠ none → c.cursor = c.pendingLen →
          (finishReceive A c).1.cursor = (finishReceive A c).1.pendingLen → (finishReceive A c).1.receiveToken ≠ none) := by
  obtain ⟨fl, hrx, hs⟩ := h.rx
  cases hrx with
  | idle ht hq =>
    have e : finishReceive A c = (c, .ok false) := by simp [finishReceive, ht]
    rw [e]; exact ⟨false, rfl, ⟨h, .idle ht hq, by simpa using hs⟩, rfl, rfl, rfl, fun hh => absurd ht hh⟩
  | posted ht hc hq =>
    have e : finishReceive A c = (c, .ok false) := by simp [finishReceive, ht, peek_none hq.used]
    rw [e]; exact ⟨false, rfl, ⟨h, .posted ht hc hq, by simpa using hs⟩, rfl, rfl, rfl, fun _ _ _ => by simp [ht]⟩
  | used _ ht hc hq h1 h2 =>
    obtain ⟨q', hpop, hq'⟩ := pop_used hL hq rfl
    have hlen : fl.length ≠ 0 := by omega
    have e : finishReceive A c =
        ({ c with rxq := q', rxBuf := fl, cursor := 0, pendingLen := fl.length, receiveToken := none }, .ok true) := by
      simp [finishReceive, ht, peek_used hq, rxChain, hpop, hlen]
    rw [e]
    have hpend : pending c = [] := pending_nil hc
    have hst : ret ++ pending { c with rxq := q', rxBuf := fl, cursor := 0, pendingLen := fl.length, receiveToken := none } = c.written := by
      rw [← hs, hpend]; simp [pending]
    have hcap : fl.length ≤ cap := by have := h.cap_eq; omega
    refine ⟨true, rfl, ⟨⟨h.n_pos, h.cap_pos, h.cap_eq, Nat.zero_le _, Nat.le_refl _, hcap, h.tx, [], .idle rfl hq', by simpa using hst⟩,
      .idle rfl hq', hst⟩, rfl, rfl, by simp [hq'.posted, hq.posted], fun _ _ h0 => ?_⟩
    exact absurd h0.symm hlen

/-- environment: an honest fill either finds no posted buffer (and does nothing) or appends its
    chunk to the device's stream -/
theorem devFill_inv {A : Alloc} {n cap : Nat} {c : Console} {ret : List Nat} (h : Inv A n cap c ret)
    {f : Fill} (hon : f.Honest cap) :
    match devFill c f with
    | none => c.rxq.posted = []
    | some c' => Inv A n cap c' ret ∧ c'.written = c.written ++ f.chunk ∧ c'.wire = c.wire
        ∧ c'.cursor = c.cursor ∧ c'.pendingLen = c.pendingLen ∧ c'.receiveToken = c.receiveToken := by
  obtain ⟨fl, hrx, hs⟩ := h.rx
  obtain ⟨hcl, h1, h2⟩ := hon
  cases hrx with
  | idle ht hq => simp [devFill, devComplete_none hq.posted, hq.posted]
  | used _ ht hc hq _ _ => simp [devFill, devComplete_none hq.posted, hq.posted]
  | posted ht hc hq =>
    obtain ⟨q', hd, hq'⟩ := devComplete_posted hq f.chunk f.claim
    have htk : List.take c.cap f.chunk = f.chunk := List.take_of_length_le (by have := h.cap_eq; omega)
    simp only [rxChain, if_true, htk, hcl] at hq'
    have e : devFill c f = some { c with rxq := q', written := c.written ++ f.chunk } := by simp [devFill, hd]
    rw [e]
    refine ⟨⟨h.n_pos, h.cap_pos, h.cap_eq, h.cur_le, h.pend_le, h.buf_le, h.tx, f.chunk, ?_, ?_⟩, rfl, rfl, rfl, rfl, rfl⟩
    · exact .used f.chunk ht hc hq' h1 (by show f.chunk.length ≤ c.cap; have := h.cap_eq; omega)
    · show ret ++ pending c ++ f.chunk = c.written ++ f.chunk
      rw [← hs]; simp

/-! ## blocking calls: the device acts inside the busy-wait -/

def HonestScript (cap : Nat) (s : List (Option Fill)) : Prop := ∀ f, some f ∈ s → f.Honest cap

theorem waitLoop_inv {A : Alloc} (hL : A.Lifo) {n cap : Nat} (script : List (Option Fill))
    (hs : HonestScript cap script) {c : Console} {ret : List Nat} (h : Inv A n cap c ret) :
    Inv A n cap (waitLoop A script c).1 ret ∧ (waitLoop A script c).1.wire = c.wire
      ∧ c.written <+: (waitLoop A script c).1.written
      ∧ (((waitLoop A script c).2 = .ready ∧ (waitLoop A script c).1.cursor ≠ (waitLoop A script c).1.pendingLen)
          ∨ (waitLoop A script c).2 = .blocked) := by
  induction script generalizing c with
  | nil =>
    by_cases hne : c.cursor = c.pendingLen
    · simp [waitLoop, hne, h]
    · simp [waitLoop, hne, h]
  | cons d rest ih =>
    by_cases hne : c.cursor = c.pendingLen
    · -- one iteration: spin hook (device), then finish_receive
      have hrest : HonestScript cap rest := fun f hf => hs f (List.mem_cons_of_mem _ hf)
      obtain ⟨hi1, hw1, hwi1⟩ : Inv A n cap (spinStep c d) ret ∧ c.written <+: (spinStep c d).written
          ∧ (spinStep c d).wire = c.wire := by
        cases d with
        | none => exact ⟨h, List.prefix_refl _, rfl⟩
        | some f =>
          have hd := devFill_inv h (hs f (by simp))
          cases hdf : devFill c f with
          | none => simp [spinStep, hdf, h]
          | some c' =>
            rw [hdf] at hd
            simp only [spinStep, hdf, Option.getD_some]
            exact ⟨hd.1, by rw [hd.2.1]; exact List.prefix_append _ _, hd.2.2.1⟩
      obtain ⟨b, hb, hS, hw2, hwi2, -, -⟩ := finishReceive_inv hL hi1
      have e : waitLoop A (d :: rest) c = waitLoop A rest (finishReceive A (spinStep c d)).1 := by
        rcases hfr : finishReceive A (spinStep c d) with ⟨c2, res⟩
        rw [hfr] at hb
        simp only at hb
        subst hb
        simp [waitLoop, hne, hfr]
      rw [e]
      obtain ⟨i1, i2, i3, i4⟩ := ih hrest hS.inv
      exact ⟨i1, by rw [i2, hwi2, hwi1], (hw1.trans (by rw [hw2]; exact List.prefix_refl _)).trans i3, i4⟩
    · simp [waitLoop, hne, h]

theorem waitForReceive_inv {A : Alloc} (hL : A.Lifo) {n cap : Nat} (script : List (Option Fill))
    (hs : HonestScript cap script) {c : Console} {ret : List Nat} (h : Inv A n cap c ret) :
    Inv A n cap (waitForReceive A c script).1 ret ∧ (waitForReceive A c script).1.wire = c.wire
      ∧ c.written <+: (waitForReceive A c script).1.written
      ∧ (((waitForReceive A c script).2 = .ready
            ∧ (waitForReceive A c script).1.cursor ≠ (waitForReceive A c script).1.pendingLen)
          ∨ (waitForReceive A c script).2 = .blocked) := by
  obtain ⟨hn, hi, hw, hwi, -⟩ := pollRetrieve_inv h
  have e : waitForReceive A c script = waitLoop A script (pollRetrieve A c).1 := by
    rcases hp : pollRetrieve A c with ⟨c1, r⟩
    rw [hp] at hn; simp only at hn; subst hn
    simp [waitForReceive, hp]
  rw [e]
  obtain ⟨i1, i2, i3, i4⟩ := waitLoop_inv hL script hs hi
  exact ⟨i1, by rw [i2, hwi], by rw [← hw]; exact i3, i4⟩

/-! ## the operations -/

/-- what an operation's answer hands to the caller as stream bytes -/
def delivered : Out → List Nat
  | .byte b true => [b]
  | .data bs => bs
  | .consumed bs => bs
  | _ => []

/-- common conclusion of the receive-side operation lemmas -/
structure RecvOk (A : Alloc) (n cap : Nat) (c : Console) (ret : List Nat) (r : Console × Out) : Prop where
  inv : Inv A n cap r.1 (ret ++ delivered r.2)
  wire : r.1.wire = c.wire
  written : c.written <+: r.1.written
  nofault : ∀ f, r.2 ≠ .fault f

theorem recv_ok {A : Alloc} (hL : A.Lifo) {n cap : Nat} {c : Console} {ret : List Nat}
    (h : Inv A n cap c ret) (pop : Bool) : RecvOk A n cap c ret (recv A c pop) := by
  obtain ⟨b, hb, hS, hw, hwi, -, -⟩ := finishReceive_inv hL h
  rcases hfr : finishReceive A c with ⟨c1, res⟩
  rw [hfr] at hb hS hw hwi; simp only at hb hS hw hwi; subst hb
  by_cases hc : c1.cursor = c1.pendingLen
  · have e : recv A c pop = (c1, .none) := by simp [recv, hfr, hc]
    rw [e]; exact ⟨by simpa [delivered] using hS.inv, hwi, by rw [hw]; exact List.prefix_refl _, by simp⟩
  · have hlt : c1.cursor < c1.pendingLen := by have := hS.inv.cur_le; omega
    have hcap : ¬ c1.cap ≤ c1.cursor := by
      have := hS.inv.pend_le; have := hS.inv.buf_le; have := hS.inv.cap_eq; omega
    have hadv := advance_inv hS.inv (k := 1) (by omega)
    rw [slice_one (by have := hS.inv.pend_le; omega)] at hadv
    cases pop with
    | false =>
      have e : recv A c false = (c1, .byte (c1.rxBuf.getD c1.cursor POISON) false) := by
        simp [recv, hfr, hc, hcap]
      rw [e]; exact ⟨by simpa [delivered] using hS.inv, hwi, by rw [hw]; exact List.prefix_refl _, by simp⟩
    | true =>
      obtain ⟨hn, hi, hw', hwi', -⟩ := pollRetrieve_inv hadv
      rcases hp : pollRetrieve A { c1 with cursor := c1.cursor + 1 } with ⟨c2, r⟩
      rw [hp] at hn hi hw' hwi'; simp only at hn hi hw' hwi'; subst hn
      have e : recv A c true = (c2, .byte (c1.rxBuf.getD c1.cursor POISON) true) := by
        simp [recv, hfr, hc, hcap, hp]
      rw [e]
      exact ⟨by simpa [delivered] using hi, by rw [hwi', ← hwi], by rw [hw', ← hw]; exact List.prefix_refl _, by simp⟩

theorem read_ok {A : Alloc} (hL : A.Lifo) {n cap : Nat} {c : Console} {ret : List Nat}
    (h : Inv A n cap c ret) (k : Nat) (script : List (Option Fill)) (hs : HonestScript cap script) :
    RecvOk A n cap c ret (read A c k script) := by
  by_cases hk : k = 0
  · have e : read A c k script = (c, .data []) := by simp [Console.read, hk]
    rw [e]; exact ⟨by simpa [delivered] using h, rfl, List.prefix_refl _, by simp⟩
  · obtain ⟨hi, hwi, hw, hr⟩ := waitForReceive_inv hL script hs h
    rcases hwf : waitForReceive A c script with ⟨c1, res⟩
    rw [hwf] at hi hwi hw hr; simp only at hi hwi hw hr
    rcases hr with ⟨hr, hne⟩ | hr
    · subst hr
      have hlt : c1.cursor < c1.pendingLen := by have := hi.cur_le; omega
      have h1 : ¬ c1.pendingLen < c1.cursor := by omega
      have hrl : c1.cursor + min k (c1.pendingLen - c1.cursor) ≤ c1.pendingLen := by omega
      have h2 : ¬ c1.cap < c1.cursor + min k (c1.pendingLen - c1.cursor) := by
        have := hi.pend_le; have := hi.buf_le; have := hi.cap_eq; omega
      have e : read A c k script =
          ({ c1 with cursor := c1.cursor + min k (c1.pendingLen - c1.cursor) },
            .data (slice c1 c1.cursor (min k (c1.pendingLen - c1.cursor)))) := by
        simp [Console.read, hk, hwf, h1, h2]
      rw [e]
      exact ⟨by simpa [delivered] using advance_inv hi hrl, hwi, hw, by simp⟩
    · subst hr
      have e : read A c k script = (c1, .blocked) := by simp [Console.read, hk, hwf]
      rw [e]; exact ⟨by simpa [delivered] using hi, hwi, hw, by simp⟩

theorem fillBuf_ok {A : Alloc} (hL : A.Lifo) {n cap : Nat} {c : Console} {ret : List Nat}
    (h : Inv A n cap c ret) (script : List (Option Fill)) (hs : HonestScript cap script) :
    RecvOk A n cap c ret (fillBuf A c script) := by
  obtain ⟨hi, hwi, hw, hr⟩ := waitForReceive_inv hL script hs h
  rcases hwf : waitForReceive A c script with ⟨c1, res⟩
  rw [hwf] at hi hwi hw hr; simp only at hi hwi hw hr
  rcases hr with ⟨hr, hne⟩ | hr
  · subst hr
    have h1 : ¬ (c1.pendingLen < c1.cursor ∨ c1.cap < c1.pendingLen) := by
      have := hi.cur_le; have := hi.pend_le; have := hi.buf_le; have := hi.cap_eq; omega
    have e : fillBuf A c script = (c1, .slice (slice c1 c1.cursor (c1.pendingLen - c1.cursor))) := by
      simp [fillBuf, hwf, h1]
    rw [e]; exact ⟨by simpa [delivered] using hi, hwi, hw, by simp⟩
  · subst hr
    have e : fillBuf A c script = (c1, .blocked) := by simp [fillBuf, hwf]
    rw [e]; exact ⟨by simpa [delivered] using hi, hwi, hw, by simp⟩

/-- `consume k`: in range it hands over exactly the next `k` pending bytes; out of range it panics
    (the `assert!`, or the overflow check) and changes nothing -/
theorem consume_ok {A : Alloc} {n cap : Nat} {c : Console} {ret : List Nat} (h : Inv A n cap c ret) (k : Nat) :
    Inv A n cap (consume c k).1 (ret ++ delivered (consume c k).2) ∧ (consume c k).1.wire = c.wire
      ∧ (consume c k).1.written = c.written
      ∧ (c.cursor + k ≤ c.pendingLen → c.pendingLen < USIZE → ∀ f, (consume c k).2 ≠ .fault f)
      ∧ (∀ f, (consume c k).2 = .fault f → f = .panic ∧ (c.pendingLen < c.cursor + k ∨ USIZE ≤ c.cursor + k)
          ∧ (consume c k).1 = c) := by
  by_cases ho : USIZE ≤ c.cursor + k
  · have e : consume c k = (c, .fault .panic) := by simp [consume, ho]
    rw [e]; exact ⟨by simpa [delivered] using h, rfl, rfl, fun _ _ => by omega, fun f hf => by simp at hf; simp [← hf, ho]⟩
  · by_cases hk : c.cursor + k ≤ c.pendingLen
    · have e : consume c k = ({ c with cursor := c.cursor + k }, .consumed (slice c c.cursor k)) := by
        simp [consume, ho, hk]
      rw [e]; exact ⟨by simpa [delivered] using advance_inv h hk, rfl, rfl, fun _ _ => by simp, fun f hf => by simp at hf⟩
    · have e : consume c k = (c, .fault .panic) := by simp [consume, ho, hk]
      rw [e]
      exact ⟨by simpa [delivered] using h, rfl, rfl, fun h' => absurd h' hk,
        fun f hf => by simp at hf; exact ⟨hf.symm, Or.inl (by omega), rfl⟩⟩

theorem readReady_ok {A : Alloc} (hL : A.Lifo) {n cap : Nat} {c : Console} {ret : List Nat}
    (h : Inv A n cap c ret) : RecvOk A n cap c ret (readReady A c) := by
  obtain ⟨b, hb, hS, hw, hwi, -, -⟩ := finishReceive_inv hL h
  rcases hfr : finishReceive A c with ⟨c1, res⟩
  rw [hfr] at hb hS hw hwi; simp only at hb hS hw hwi; subst hb
  have e : readReady A c = (c1, .bool (c1.cursor != c1.pendingLen)) := by simp [readReady, hfr]
  rw [e]; exact ⟨by simpa [delivered] using hS.inv, hwi, by rw [hw]; exact List.prefix_refl _, by simp⟩

theorem ack_ok {A : Alloc} (hL : A.Lifo) {n cap : Nat} {c : Console} {ret : List Nat}
    (h : Inv A n cap c ret) (isr : Nat) : RecvOk A n cap c ret (ackInterrupt A c isr) := by
  by_cases hq : isr % 2 = 0
  · have e : ackInterrupt A c isr = (c, .bool false) := by simp [ackInterrupt, hq]
    rw [e]; exact ⟨by simpa [delivered] using h, rfl, List.prefix_refl _, by simp⟩
  · obtain ⟨b, hb, hS, hw, hwi, -, -⟩ := finishReceive_inv hL h
    rcases hfr : finishReceive A c with ⟨c1, res⟩
    rw [hfr] at hb hS hw hwi; simp only at hb hS hw hwi; subst hb
    have e : ackInterrupt A c isr = (c1, .bool b) := by simp [ackInterrupt, hq, hfr]
    rw [e]; exact ⟨by simpa [delivered] using hS.inv, hwi, by rw [hw]; exact List.prefix_refl _, by simp⟩

/-! ## transmit -/

/-- Every non-empty send puts exactly one chain holding exactly the caller's bytes, in order, on the
    transmit queue, gets it back, and leaves everything else alone. -/
theorem sendBytes_exact {A : Alloc} (hL : A.Lifo) {n cap : Nat} {c : Console} {ret : List Nat}
    (h : Inv A n cap c ret) (bs : List Nat) (hne : bs ≠ []) :
    ∃ q2, QIdle A n q2 ∧ sendBytes A c bs = ({ c with txq := q2, wire := c.wire ++ [bs] }, .sent bs) := by
  have hlen : bs.length ≠ 0 := by simpa using hne
  obtain ⟨q, hadd, hq⟩ := add_idle h.tx h.n_pos 0 bs.length bs false hlen
  obtain ⟨q1, hd, hq1⟩ := devComplete_posted hq [] 0
  obtain ⟨q2, hpop, hq2⟩ := pop_used hL hq1 rfl
  refine ⟨q2, hq2, ?_⟩
  simp only [sendBytes, hadd, hq.posted, List.head?_cons, hd]
  simp at hpop
  simp [hpop]

theorem sendBytes_empty {A : Alloc} {n cap : Nat} {c : Console} {ret : List Nat}
    (h : Inv A n cap c ret) : sendBytes A c [] = (c, .fault .panic) := by
  simp [sendBytes, add_idle_cap0 h.tx h.n_pos]

theorem inv_of_tx {A : Alloc} {n cap : Nat} {c : Console} {ret : List Nat} (h : Inv A n cap c ret)
    {q2 : AQ} (hq : QIdle A n q2) (w : List (List Nat)) : Inv A n cap { c with txq := q2, wire := w } ret := by
  obtain ⟨fl, hrx, hs⟩ := h.rx
  refine ⟨h.n_pos, h.cap_pos, h.cap_eq, h.cur_le, h.pend_le, h.buf_le, hq, fl, ?_, hs⟩
  cases hrx with
  | idle ht hq' => exact .idle ht hq'
  | posted ht hc hq' => exact .posted ht hc hq'
  | used _ ht hc hq' h1 h2 => exact .used fl ht hc hq' h1 h2

theorem inv_of_cfg {A : Alloc} {n cap : Nat} {c : Console} {ret : List Nat} (h : Inv A n cap c ret)
    (w : List (Nat × Nat)) : Inv A n cap { c with cfgWrites := w } ret := by
  obtain ⟨fl, hrx, hs⟩ := h.rx
  refine ⟨h.n_pos, h.cap_pos, h.cap_eq, h.cur_le, h.pend_le, h.buf_le, h.tx, fl, ?_, hs⟩
  cases hrx with
  | idle ht hq' => exact .idle ht hq'
  | posted ht hc hq' => exact .posted ht hc hq'
  | used _ ht hc hq' h1 h2 => exact .used fl ht hc hq' h1 h2

theorem size_fst (c : Console) : (size c).1 = c := by
  unfold size; split
  · cases rdCfg c 0 2 with
    | error e => rfl
    | ok cols => cases rdCfg c 2 2 <;> rfl
  · rfl

theorem size_delivered (c : Console) : delivered (size c).2 = [] := by
  unfold size; split
  · cases rdCfg c 0 2 with
    | error e => rfl
    | ok cols => cases rdCfg c 2 2 <;> rfl
  · rfl

theorem emerg_delivered (c : Console) (b : Nat) : delivered (emergencyWrite c b).2 = [] := by
  unfold emergencyWrite; repeat' split
  all_goals rfl

theorem emerg_fst (c : Console) (b : Nat) :
    (emergencyWrite c b).1 = c ∨ ∃ w, (emergencyWrite c b).1 = { c with cfgWrites := w } := by
  unfold emergencyWrite; repeat' split
  all_goals first | exact Or.inl rfl | exact Or.inr ⟨_, rfl⟩

theorem rdCfg_err {c : Console} {o sz : Nat} {e : Err} (h : rdCfg c o sz = .error e) :
    e = .configSpaceMissing ∨ e = .configSpaceTooSmall := by
  unfold rdCfg at h
  split at h
  · simp at h; exact Or.inl h.symm
  · split at h
    · simp at h; exact Or.inr h.symm
    · simp at h

theorem size_faults (c : Console) (f : Fault) (h : (size c).2 = .fault f) :
    f = .err .configSpaceMissing ∨ f = .err .configSpaceTooSmall := by
  unfold size at h
  split at h
  · cases h1 : rdCfg c 0 2 with
    | error e =>
      rw [h1] at h; simp at h; subst h
      rcases rdCfg_err h1 with r | r <;> simp [r]
    | ok cols =>
      rw [h1] at h
      cases h2 : rdCfg c 2 2 with
      | error e =>
        rw [h2] at h; simp at h; subst h
        rcases rdCfg_err h2 with r | r <;> simp [r]
      | ok rows => rw [h2] at h; simp at h
  · simp at h

theorem emerg_faults (c : Console) (b : Nat) (f : Fault) (h : (emergencyWrite c b).2 = .fault f) :
    f = .err .unsupported ∨ f = .err .configSpaceMissing ∨ f = .err .configSpaceTooSmall := by
  unfold emergencyWrite at h
  split at h
  · split at h
    · simp at h; simp [← h]
    · split at h
      · simp at h; simp [← h]
      · simp at h
  · simp at h; simp [← h]

/-! ## whole histories -/

/-- what the property quantifies over: honest device fills, anywhere -/
def HonestOp (cap : Nat) : Op → Prop
  | .read _ s => HonestScript cap s
  | .fillBuf s => HonestScript cap s
  | .dev f => f.Honest cap
  | _ => True

/-- the chain a send must put on the wire (`none`: the call does not touch the queue) -/
def sentBy : Op → List (List Nat)
  | .sendBytes bs => if bs = [] then [] else [bs]
  | .write bs => if bs = [] then [] else [bs]
  | _ => []

/-- One step from a state satisfying the invariant: the invariant holds again with the returned
    stream extended by exactly what the call handed out; the device's stream only grows; the wire
    grows by exactly the caller's bytes. -/
theorem step_inv {A : Alloc} (hL : A.Lifo) {n cap : Nat} {c : Console} {ret : List Nat}
    (h : Inv A n cap c ret) (op : Op) (ho : HonestOp cap op) :
    Inv A n cap (step A c op).1 (ret ++ delivered (step A c op).2)
      ∧ (step A c op).1.wire = c.wire ++ sentBy op
      ∧ c.written <+: (step A c op).1.written := by
  cases op with
  | recv p =>
    simp only [step, sentBy, List.append_nil]
    have r := recv_ok hL h p; exact ⟨r.inv, r.wire, r.written⟩
  | read k s =>
    simp only [step, sentBy, List.append_nil]
    have r := read_ok hL h k s ho; exact ⟨r.inv, r.wire, r.written⟩
  | fillBuf s =>
    simp only [step, sentBy, List.append_nil]
    have r := fillBuf_ok hL h s ho; exact ⟨r.inv, r.wire, r.written⟩
  | consume k =>
    simp only [step, sentBy, List.append_nil]
    obtain ⟨a, b, c', -⟩ := consume_ok h k
    exact ⟨a, b, by rw [c']; exact List.prefix_refl _⟩
  | readReady =>
    simp only [step, sentBy, List.append_nil]
    have r := readReady_ok hL h; exact ⟨r.inv, r.wire, r.written⟩
  | ack isr =>
    simp only [step, sentBy, List.append_nil]
    have r := ack_ok hL h isr; exact ⟨r.inv, r.wire, r.written⟩
  | sendBytes bs =>
    by_cases hb : bs = []
    · subst hb
      simp only [step, sendBytes_empty h, delivered, sentBy, List.append_nil, if_true]
      exact ⟨h, trivial, List.prefix_refl _⟩
    · obtain ⟨q2, hq2, e⟩ := sendBytes_exact hL h bs hb
      simp only [step, e, delivered, sentBy, hb, if_false, List.append_nil]
      exact ⟨inv_of_tx h hq2 _, trivial, List.prefix_refl _⟩
  | write bs =>
    by_cases hb : bs = []
    · subst hb
      simp only [step, write, List.isEmpty_nil, if_true, delivered, sentBy, List.append_nil]
      exact ⟨h, trivial, List.prefix_refl _⟩
    · obtain ⟨q2, hq2, e⟩ := sendBytes_exact hL h bs hb
      have hie : bs.isEmpty = false := by simpa using hb
      have e2 : write A c bs = sendBytes A c bs := by simp [write, hie]
      simp only [step, e2, e, delivered, sentBy, hb, if_false, List.append_nil]
      exact ⟨inv_of_tx h hq2 _, trivial, List.prefix_refl _⟩
  | size =>
    simp only [step, size_fst, size_delivered, sentBy, List.append_nil]
    exact ⟨h, trivial, List.prefix_refl _⟩
  | emerg b =>
    simp only [step, sentBy, List.append_nil, emerg_delivered]
    rcases emerg_fst c b with e | ⟨w, e⟩
    · rw [e]; exact ⟨h, rfl, List.prefix_refl _⟩
    · rw [e]; exact ⟨inv_of_cfg h _, rfl, List.prefix_refl _⟩
  | dev f =>
    have hd := devFill_inv h ho
    simp only [step]
    cases hdf : devFill c f with
    | none => simpa [delivered, sentBy] using h
    | some c' =>
      rw [hdf] at hd
      simp only [delivered, sentBy, List.append_nil]
      exact ⟨hd.1, hd.2.2.1, by rw [hd.2.1]; exact List.prefix_append _ _⟩

/-- run a whole history, accumulating the returned stream -/
def run (A : Alloc) : Console → List Nat → List Op → Console × List Nat
  | c, ret, [] => (c, ret)
  | c, ret, op :: ops => run A (step A c op).1 (ret ++ delivered (step A c op).2) ops

def HonestOps (cap : Nat) (ops : List Op) : Prop := ∀ op ∈ ops, HonestOp cap op

theorem run_inv {A : Alloc} (hL : A.Lifo) {n cap : Nat} (ops : List Op) (ho : HonestOps cap ops)
    {c : Console} {ret : List Nat} (h : Inv A n cap c ret) :
    Inv A n cap (run A c ret ops).1 (run A c ret ops).2
      ∧ (run A c ret ops).1.wire = c.wire ++ (ops.map sentBy).flatten
      ∧ c.written <+: (run A c ret ops).1.written
      ∧ ret <+: (run A c ret ops).2 := by
  induction ops generalizing c ret with
  | nil => simpa [run] using h
  | cons op ops ih =>
    obtain ⟨hi, hw, hp⟩ := step_inv hL h op (ho op (by simp))
    obtain ⟨i1, i2, i3, i4⟩ := ih (fun o ho' => ho o (List.mem_cons_of_mem _ ho')) hi
    refine ⟨i1, ?_, hp.trans i3, (List.prefix_append _ _).trans i4⟩
    simp only [run]; rw [i2, hw]; simp

/-- `VirtIOConsole::new` establishes the invariant (one buffer posted, nothing returned). -/
theorem new_inv {A : Alloc} (hI : A.InitSeq) {cap n : Nat} (hc : 1 ≤ cap) (hn : 1 ≤ n)
    (fs fe : Bool) (cfg : List Nat) :
    (new A cap n fs fe cfg).2 = none ∧ Inv A n cap (new A cap n fs fe cfg).1 []
      ∧ (new A cap n fs fe cfg).1.rxq.posted.length = 1
      ∧ (new A cap n fs fe cfg).1.wire = [] ∧ (new A cap n fs fe cfg).1.written = [] := by
  have hq := init_idle hI hn
  obtain ⟨q', hadd, hq'⟩ := add_idle hq hn 0 cap [] true (by omega)
  have e : new A cap n fs fe cfg =
      ({ initial cap n fs fe cfg with receiveToken := some 0, rxq := q', rxNotifies := 1 }, none) := by
    simp [new, pollRetrieve, initial, hadd]
  rw [e]
  refine ⟨rfl, ⟨hn, hc, rfl, Nat.le_refl _, Nat.le_refl _, Nat.zero_le _, init_idle hI hn, [], ?_, ?_⟩, ?_, rfl, rfl⟩
  · exact .posted rfl rfl hq'
  · simp [pending, initial]
  · simp [hq'.posted]

/-! ## the property -/

/-- **Stream equation for all interleavings and chunkings.**  After any history of driver calls and
    honest device fills (between calls or inside blocking calls), the bytes returned so far,
    followed by the bytes pending in `queue_buf_rx[cursor..pending_len]`, followed by the chunk the
    device has completed but the driver has not popped yet, are exactly the bytes the device has
    written, in order.  Nothing is lost, duplicated or reordered; appending the device's future
    output gives the statement with the full device stream. -/
theorem stream_exactly_once_in_order {A : Alloc} (hL : A.Lifo) (hI : A.InitSeq) {cap n : Nat}
    (hc : 1 ≤ cap) (hn : 1 ≤ n) (fs fe : Bool) (cfg : List Nat) (ops : List Op) (ho : HonestOps cap ops) :
    let r := run A (new A cap n fs fe cfg).1 [] ops
    ∃ inUsedRing, r.2 ++ pending r.1 ++ inUsedRing = r.1.written
      ∧ (∀ future, r.2 ++ pending r.1 ++ (inUsedRing ++ future) = r.1.written ++ future)
      ∧ r.2 <+: r.1.written := by
  obtain ⟨-, h0, -, -, -⟩ := new_inv (A := A) hI hc hn fs fe cfg
  obtain ⟨hi, -, -, -⟩ := run_inv hL ops ho h0
  obtain ⟨fl, -, hs⟩ := hi.rx
  refine ⟨fl, hs, fun fut => by rw [← hs]; simp, ?_⟩
  rw [← hs, List.append_assoc]; exact List.prefix_append _ _

/-- **At most one receive buffer outstanding**, in every reachable state (also the intermediate
    ones: every primitive preserves `Inv`). -/
theorem at_most_one_outstanding {A : Alloc} {n cap : Nat} {c : Console} {ret : List Nat}
    (h : Inv A n cap c ret) : c.rxq.posted.length + c.rxq.used.length ≤ 1 := by
  obtain ⟨fl, hrx, -⟩ := h.rx
  cases hrx with
  | idle _ hq => simp [hq.posted, hq.used]
  | posted _ _ hq => simp [hq.posted, hq.used]
  | used _ _ _ hq _ _ => simp [hq.posted, hq.used]

/-- **While a receive buffer is outstanding nothing is pending**: the buffer is with the device (or
    in the used ring) only when everything received before has been consumed. -/
theorem outstanding_implies_consumed {A : Alloc} {n cap : Nat} {c : Console} {ret : List Nat}
    (h : Inv A n cap c ret) (ho : c.rxq.posted ≠ [] ∨ c.rxq.used ≠ []) :
    c.cursor = c.pendingLen ∧ pending c = [] := by
  obtain ⟨fl, hrx, -⟩ := h.rx
  cases hrx with
  | idle _ hq =>
    rcases ho with ho | ho
    · exact absurd hq.posted ho
    · exact absurd hq.used ho
  | posted _ hc _ => exact ⟨hc, pending_nil hc⟩
  | used _ _ hc _ _ _ => exact ⟨hc, pending_nil hc⟩

/-- **Re-post only after everything was consumed**: `poll_retrieve` (the only place that adds to the
    receive queue) posts only when `cursor = pending_len` and no buffer is outstanding. -/
theorem repost_only_when_consumed {A : Alloc} {n cap : Nat} {c : Console} {ret : List Nat}
    (h : Inv A n cap c ret) (hp : (pollRetrieve A c).1.rxq.posted ≠ c.rxq.posted) :
    c.cursor = c.pendingLen ∧ c.rxq.posted = [] ∧ c.rxq.used = [] :=
  (pollRetrieve_inv h).2.2.2.2.2.2.2 hp

/-- the same for whole steps: if a step ends with a buffer posted that was not posted before, then
    nothing is pending afterwards — what had been received was handed out in full -/
theorem step_repost {A : Alloc} (hL : A.Lifo) {n cap : Nat} {c : Console} {ret : List Nat}
    (h : Inv A n cap c ret) (op : Op) (ho : HonestOp cap op) (hp : (step A c op).1.rxq.posted ≠ []) :
    (step A c op).1.cursor = (step A c op).1.pendingLen ∧ pending (step A c op).1 = [] :=
  outstanding_implies_consumed (step_inv hL h op ho).1 (Or.inl hp)

/-- **Every send places exactly the caller's bytes, in order, on the transmit queue**: the wire after
    a history is the list of the non-empty buffers passed to `send`/`send_bytes`/`write`/`write_str`. -/
theorem wire_is_what_was_sent {A : Alloc} (hL : A.Lifo) (hI : A.InitSeq) {cap n : Nat}
    (hc : 1 ≤ cap) (hn : 1 ≤ n) (fs fe : Bool) (cfg : List Nat) (ops : List Op) (ho : HonestOps cap ops) :
    (run A (new A cap n fs fe cfg).1 [] ops).1.wire = (ops.map sentBy).flatten := by
  obtain ⟨-, h0, -, hw0, -⟩ := new_inv (A := A) hI hc hn fs fe cfg
  obtain ⟨-, hw, -, -⟩ := run_inv hL ops ho h0
  rw [hw, hw0]; simp

/-- **Drained means complete**: when `recv` answers `None`, every byte the device has written has
    been returned. -/
theorem recv_none_all_returned {A : Alloc} (hL : A.Lifo) {n cap : Nat} {c : Console} {ret : List Nat}
    (h : Inv A n cap c ret) (pop : Bool) (hnone : (recv A c pop).2 = .none) :
    ret = (recv A c pop).1.written := by
  obtain ⟨b, hb, hS, hw, -, -, -⟩ := finishReceive_inv hL h
  rcases hfr : finishReceive A c with ⟨c1, res⟩
  rw [hfr] at hb hS hw; simp only at hb hS hw; subst hb
  by_cases hc : c1.cursor = c1.pendingLen
  · have e : recv A c pop = (c1, .none) := by simp [recv, hfr, hc]
    rw [e]; simp only
    have := hS.eq; rw [pending_nil hc] at this; simpa using this
  · exfalso
    have hcap : ¬ c1.cap ≤ c1.cursor := by
      have := hS.inv.cur_le; have := hS.inv.pend_le; have := hS.inv.buf_le; have := hS.inv.cap_eq; omega
    cases pop with
    | false => simp [recv, hfr, hc, hcap] at hnone
    | true =>
      simp only [recv, hfr, hc, hcap, if_false, if_true] at hnone
      split at hnone <;> simp at hnone

/-- **Panic-freedom of the index arithmetic**: against an honest device no receive operation
    faults (no `assert_ne!(len, 0)`, no out-of-range index or slice, no `usize` under/overflow, no
    `QueueFull`/`NotReady`/`WrongToken`), for any history.  The only faults are the documented ones:
    `consume(k)` with `k` beyond the pending bytes (its `assert!`), a send of an empty buffer
    (`assert_ne!(buffer.len(), 0)` inside `VirtQueue::add`), and config-space errors of `size()` /
    `emergency_write()`. -/
theorem step_faults {A : Alloc} (hL : A.Lifo) {n cap : Nat} {c : Console} {ret : List Nat}
    (h : Inv A n cap c ret) (op : Op) (ho : HonestOp cap op) (f : Fault)
    (hf : (step A c op).2 = .fault f) :
    (∃ k, op = .consume k ∧ f = .panic ∧ (c.pendingLen < c.cursor + k ∨ USIZE ≤ c.cursor + k))
      ∨ (op = .sendBytes [] ∧ f = .panic)
      ∨ (op = .size ∧ (f = .err .configSpaceMissing ∨ f = .err .configSpaceTooSmall))
      ∨ (∃ b, op = .emerg b ∧ (f = .err .unsupported ∨ f = .err .configSpaceMissing ∨ f = .err .configSpaceTooSmall)) := by
  cases op with
  | recv p => exact absurd hf ((recv_ok hL h p).nofault f)
  | read k s => exact absurd hf ((read_ok hL h k s ho).nofault f)
  | fillBuf s => exact absurd hf ((fillBuf_ok hL h s ho).nofault f)
  | readReady => exact absurd hf ((readReady_ok hL h).nofault f)
  | ack isr => exact absurd hf ((ack_ok hL h isr).nofault f)
  | consume k =>
    obtain ⟨-, -, -, -, hc⟩ := consume_ok h k
    obtain ⟨a, b, -⟩ := hc f hf
    exact Or.inl ⟨k, rfl, a, b⟩
  | sendBytes bs =>
    by_cases hb : bs = []
    · subst hb
      simp only [step, sendBytes_empty h] at hf
      exact Or.inr (Or.inl ⟨rfl, by simpa using hf.symm⟩)
    · obtain ⟨q2, -, e⟩ := sendBytes_exact hL h bs hb
      simp [step, e] at hf
  | write bs =>
    by_cases hb : bs = []
    · subst hb; simp [step, write] at hf
    · obtain ⟨q2, -, e⟩ := sendBytes_exact hL h bs hb
      have : bs.isEmpty = false := by simpa using hb
      simp [step, write, this, e] at hf
  | size =>
    exact Or.inr (Or.inr (Or.inl ⟨rfl, size_faults c f hf⟩))
  | emerg b =>
    exact Or.inr (Or.inr (Or.inr ⟨b, rfl, emerg_faults c b f hf⟩))
  | dev d =>
    simp only [step] at hf
    split at hf <;> simp at hf

/-- `consume` within the view that `fill_buf` showed hands over exactly the first `k` bytes of that
    view (ties the ghost `consumed` bytes to what the caller was shown). -/
theorem consume_takes_view {A : Alloc} {n cap : Nat} {c : Console} {ret : List Nat}
    (h : Inv A n cap c ret) (k : Nat) (hk : c.cursor + k ≤ c.pendingLen) (hu : c.pendingLen < USIZE) :
    (consume c k).2 = .consumed ((slice c c.cursor (c.pendingLen - c.cursor)).take k) := by
  have ho : ¬ USIZE ≤ c.cursor + k := by omega
  have hl : c.pendingLen - c.cursor ≤ (c.rxBuf.drop c.cursor).length := by
    have := h.pend_le; simp; omega
  have hl' : k ≤ (c.rxBuf.drop c.cursor).length := by omega
  have z1 : c.pendingLen - c.cursor - (List.drop c.cursor c.rxBuf).length = 0 := by omega
  have z2 : k - (List.drop c.cursor c.rxBuf).length = 0 := by omega
  simp only [consume, ho, hk, if_false, if_true, slice, padTo, z1, z2, List.replicate_zero, List.append_nil,
    List.take_take]
  congr 2
  omega

/-! ## non-vacuity: concrete histories on the LIFO instance -/

/-- `Alloc.stack` satisfies both allocator hypotheses, so every theorem above applies to it -/
example : Alloc.stack.Lifo ∧ Alloc.stack.InitSeq := ⟨stack_lifo, stack_initSeq⟩

def demo0 : Console := (new Alloc.stack 8 2 true true []).1

/-- chunk [1,2,3] arrives at the 2nd spin of a blocking `read(2)`; peek; pop (re-posts); chunk
    [9,8] arrives between calls; `fill_buf`, `consume 1`, pop -/
def demoOps : List Op :=
  [.read 2 [none, some ⟨[1, 2, 3], 3⟩], .recv false, .recv true, .dev ⟨[9, 8], 2⟩,
   .fillBuf [none], .consume 1, .sendBytes [65, 66], .recv true, .recv true]

example : (run Alloc.stack demo0 [] demoOps).2 = [1, 2, 3, 9, 8] := by decide
example : (run Alloc.stack demo0 [] demoOps).1.written = [1, 2, 3, 9, 8] := by decide
example : (run Alloc.stack demo0 [] demoOps).1.wire = [[65, 66]] := by decide
example : HonestOps 8 demoOps := by
  intro op h
  simp only [demoOps, List.mem_cons, List.mem_nil_iff, or_false] at h
  rcases h with h | h | h | h | h | h | h | h | h <;> subst h <;>
    simp [HonestOp, HonestScript, Fill.Honest]
/-- the three answers in the middle -/
example : (step Alloc.stack (run Alloc.stack demo0 [] (demoOps.take 4)).1 (.fillBuf [none])).2 = .slice [9, 8] := by decide
/-- reachable states of all three kinds: posted / in the used ring / nothing outstanding -/
example : demo0.rxq.posted.length = 1 := by decide
example : ((step Alloc.stack demo0 (.dev ⟨[7], 1⟩)).1.rxq.used.length) = 1 := by decide
/-- observation (DESIGN §6, outside the property): after a bulk `read` drained the chunk, nothing is
    posted and nothing is pending, so `recv` keeps answering `None` and the device has no buffer -/
example :
    let c := (run Alloc.stack demo0 [] [.read 8 [some ⟨[1, 2, 3], 3⟩]]).1
    c.rxq.posted = [] ∧ c.rxq.used = [] ∧ c.cursor = c.pendingLen
      ∧ (step Alloc.stack c (.recv true)).2 = .none ∧ (step Alloc.stack c (.dev ⟨[4], 1⟩)).2 = .devNoBuf := by
  decide
/-- outside the hypotheses the model does fault, i.e. the panic outcomes are not totalised away:
    a zero-length completion (`assert_ne!(len, 0)`), an over-long one (index out of bounds), an
    out-of-range `consume`, an empty `send_bytes` -/
example : (step Alloc.stack (step Alloc.stack demo0 (.dev ⟨[], 0⟩)).1 (.recv true)).2 = .fault .panic := by decide
example :
    let c := (step Alloc.stack demo0 (.dev ⟨[1, 2, 3, 4, 5, 6, 7, 8], 9⟩)).1
    (step Alloc.stack c (.fillBuf [none])).2 = .fault .panic := by decide
example : (step Alloc.stack demo0 (.consume 1)).2 = .fault .panic := by decide
example : (step Alloc.stack demo0 (.consume (USIZE - 1))).2 = .fault .panic := by decide
example : (step Alloc.stack demo0 (.sendBytes [])).2 = .fault .panic := by decide

/-! ### characters written through `fmt::Write` (`write_char`, `write!("{}", c)`)

The provided `write_char` hands `c.encode_utf8(..)` to `write_str`, i.e. to `send_bytes`; with
`sendBytes_exact` the device therefore sees exactly the UTF-8 encoding.  The encoder of the model is
the standard one: it is inverted by the standard decoder, produces 1–4 bytes, and only bytes ≥ 0x80
for anything outside ASCII (a truncation `c as u8` is a different byte string for every such `c`). -/

/-- standard UTF-8 decoding of one well-formed sequence -/
def utf8Decode : List Nat → Option Nat
  | [a] => if a < 0x80 then some a else none
  | [a, b] => some ((a - 0xC0) * 64 + (b - 0x80))
  | [a, b, c] => some ((a - 0xE0) * 4096 + (b - 0x80) * 64 + (c - 0x80))
  | [a, b, c, d] => some ((a - 0xF0) * 262144 + (b - 0x80) * 4096 + (c - 0x80) * 64 + (d - 0x80))
  | _ => none

theorem utf8_roundtrip (c : Nat) (h : c < 0x110000) : utf8Decode (utf8 c) = some c := by
  unfold utf8
  split
  · simp [utf8Decode, *]
  · split
    · simp only [utf8Decode, Option.some.injEq]; omega
    · split
      · simp only [utf8Decode, Option.some.injEq]; omega
      · simp only [utf8Decode, Option.some.injEq]; omega

theorem utf8_bytes (c : Nat) (h : c < 0x110000) :
    1 ≤ (utf8 c).length ∧ (utf8 c).length ≤ 4 ∧ (∀ b ∈ utf8 c, b < 256) ∧ (0x80 ≤ c → ∀ b ∈ utf8 c, 0x80 ≤ b) := by
  unfold utf8
  split
  · simp; omega
  · split
    · simp; omega
    · split
      · simp; omega
      · simp; omega

/-- a non-ASCII character never goes out as a single byte -/
theorem utf8_nonascii_multibyte (c : Nat) (h : 0x80 ≤ c) : 2 ≤ (utf8 c).length := by
  unfold utf8
  split
  · omega
  · split
    · simp
    · split <;> simp

example : utf8 0xe9 = [0xC3, 0xA9] ∧ utf8 0x20ac = [0xE2, 0x82, 0xAC] ∧ utf8 0x1f600 = [0xF0, 0x9F, 0x98, 0x80] := by decide

end VirtioVerif.Props.C15
