import VirtioVerif.Model.Init
/-!
# C08 — every driver performs the init handshake and honours the negotiated features

The statements quantify over every offered feature word (`offered : Nat`, no bound needed), both
queue layouts and each of the eleven drivers (`i < 11`, index into `Generated.DropPlan.all` /
`Generated.Features.all`, which are regenerated from the source on every run: the constructor
skeletons by `tools/extract.py`, `supported` and the queue sizes by `vh features`).

The event list of a construction depends on the negotiated set only through the three flag bits
28/29/33 (`Init.Neg`); the value written to the driver-features register is carried separately
(`beginInit … = (calls, offered &&& supported)`), so the order theorems are proved for every `Neg`
by case analysis on the three bits and kernel evaluation, and hold for every offered word.
-/
namespace VirtioVerif.Props.C08
open VirtioVerif VirtioVerif.Init VirtioVerif.Generated.DropPlan

/-! ### the handshake as an automaton over the event list (virtio 1.x §3.1.1) -/

/-- progress of the initialisation -/
inductive Phase
  | start        -- nothing written yet
  | reset        -- status 0 written
  | ackDriver    -- status ACKNOWLEDGE|DRIVER written
  | featRead     -- offered features read
  | featWritten  -- accepted features written
  | featuresOk   -- status …|FEATURES_OK written: queues may be configured
  | driverOk     -- status …|DRIVER_OK written: the device is live, notifications allowed
  | bad
deriving DecidableEq, Repr

def isQueueSet : TEv → Bool
  | .lay (.queueSet ..) => true
  | _ => false

/-- one step: which events are allowed in which phase -/
def phaseStep : Phase → TEv → Phase
  | .start, .status 0 => .reset
  | .reset, .status 3 => .ackDriver
  | .ackDriver, .readFeatures => .featRead
  | .featRead, .writeFeatures => .featWritten
  | .featWritten, .status 11 => .featuresOk
  | .featuresOk, .status 15 => .driverOk
  | _, .status _ => .bad
  | _, .readFeatures => .bad
  | _, .writeFeatures => .bad
  | .featuresOk, .notify _ => .bad          -- no available-buffer notification before DRIVER_OK
  | .driverOk, .notify _ => .driverOk
  | _, .notify _ => .bad
  | .featuresOk, .lay e => .featuresOk       -- queue set-up (and its allocations) only between FEATURES_OK and DRIVER_OK
  | _, .lay _ => .bad
  | .featuresOk, .pageSize _ => .featuresOk
  | _, .pageSize _ => .bad
  | p, .cfg _ => match p with | .featuresOk => .featuresOk | .driverOk => .driverOk | _ => .bad
  | _, .queueUnset _ => .bad
  | _, .dropped => .bad
  | p, .freePosted => p

def runPhases (l : List TEv) : Phase := l.foldl phaseStep .start

/-- the whole handshake happened, in order, with at least one queue configured before DRIVER_OK -/
def HandshakeOk (l : List TEv) : Prop := runPhases l = .driverOk ∧ l.any isQueueSet = true

instance (l : List TEv) : Decidable (HandshakeOk l) := by unfold HandshakeOk; infer_instance

/-- number of writes to the driver-features register -/
def featureWrites (l : List TEv) : Nat := (l.filter fun | .writeFeatures => true | _ => false).length

def isOk : Except Err (List DropPlan.Act) → Bool
  | .ok _ => true
  | .error _ => false

/-! ### begin_init / finish_init -/

/-- `begin_init`: reset, ACKNOWLEDGE|DRIVER, read the offer, write `offered &&& supported`,
    FEATURES_OK, guest page size — and that value is what it returns -/
theorem beginInit_shape (supported offered : Nat) :
    beginInit supported offered =
      ([.status 0, .status 3, .readFeatures, .writeFeatures, .status 11, .pageSize 4096],
       offered &&& supported) := rfl

theorem finishInit_shape : finishInit = [.status 15] := rfl

/-- accepted features are a subset of the offered ones and of the supported ones -/
theorem negotiated_subset (supported offered b : Nat) (h : (negotiated supported offered).testBit b = true) :
    offered.testBit b = true ∧ supported.testBit b = true := by
  simpa [negotiated, Nat.testBit_and] using h

theorem negotiated_bit (supported offered b : Nat) :
    (negotiated supported offered).testBit b = (offered.testBit b && supported.testBit b) := by
  simp [negotiated, Nat.testBit_and]

/-! ### facts about the regenerated tables, decided by evaluation -/

/-- both generated tables list the same eleven drivers in the same order -/
theorem tables_aligned :
    Generated.DropPlan.all.length = 11 ∧ Generated.Features.all.length = 11 := by decide

/-- every driver's `SUPPORTED_FEATURES` (as observed on the current tree) contains VERSION_1 -/
theorem supported_has_version1 :
    ∀ f ∈ Generated.Features.all, f.supported.testBit bitVersion1 = true := by decide

/-- no driver supports MRG_RXBUF (bit 15): the second conjunct of `legacy_header` is constant -/
theorem supported_no_mrg_rxbuf :
    ∀ f ∈ Generated.Features.all, f.supported.testBit 15 = false := by decide

/-- feature bits each driver implements (device-specific bits its code acts on, plus
INDIRECT_DESC 28, EVENT_IDX 29, VERSION_1 32, ACCESS_PLATFORM 33) — written down from the drivers, not
generated -/
def implemented : String → Nat
  | "blk" => 0x330000000 ||| 2 ^ 5 ||| 2 ^ 9          -- RO, FLUSH
  | "console" => 0x330000000 ||| 2 ^ 0 ||| 2 ^ 2      -- SIZE, EMERG_WRITE
  | "gpu" => 0x330000000 ||| 2 ^ 1                    -- EDID
  | "netraw" | "net" => 0x330000000 ||| 2 ^ 5 ||| 2 ^ 16  -- MAC, STATUS
  | _ => 0x330000000

/-- **no driver accepts a feature it does not implement**: the set each constructor writes to the
driver-features register when all 64 bits are offered (observed on the current tree) lies inside the
implemented set; with `negotiated = offered ∧ supported` this bounds every negotiation -/
theorem supported_within_implemented :
    ∀ f ∈ Generated.Features.all, f.supported &&& (2 ^ 64 - 1 - implemented f.name) = 0 := by decide

def flatEvs (d : Driver) : List CEv := d.body.flatMap (·.evs)

/-- skeleton scan: `notify` only after `finish_init` (the raw net constructor, which contains its
    own `finish_init`, counts as one for the wrapper) -/
def noEarlyNotify : Bool → List CEv → Bool
  | _, [] => true
  | _, .finishInit :: r => noEarlyNotify true r
  | _, .innerNew .. :: r => noEarlyNotify true r
  | ok, .notify _ :: r => ok && noEarlyNotify ok r
  | ok, .post _ _ (some _) :: r => ok && noEarlyNotify ok r
  | ok, _ :: r => noEarlyNotify ok r

/-- NO `notify` before DRIVER_OK in any generated constructor skeleton
    (false for `VirtIOInput::new` before fix 0294072). -/
theorem skeleton_no_notify_before_driver_ok :
    ∀ d ∈ Generated.DropPlan.all, noEarlyNotify false (flatEvs d) = true := by decide

/-- skeleton scan: every queue is created after `begin_init` and before `finish_init` -/
def queuesInWindow : Nat → List CEv → Bool
  | _, [] => true
  | _, .beginInit :: r => queuesInWindow 1 r
  | _, .finishInit :: r => queuesInWindow 2 r
  | ph, .queueNew .. :: r => ph == 1 && queuesInWindow ph r
  | ph, _ :: r => queuesInWindow ph r

theorem skeleton_queues_between_begin_and_finish :
    ∀ d ∈ Generated.DropPlan.all, queuesInWindow 0 (flatEvs d) = true := by decide

def queueFlagsOk : CEv → Bool
  | .queueNew _ ind ev ap fallible =>
    ind == .neg bitIndirect && ev == .neg bitEventIdx && ap == .neg bitAccessPlatform && fallible
  | _ => true

/-- every `VirtQueue::new` in every constructor takes its three flags from the negotiated bits
    28 (indirect), 29 (event index), 33 (access platform), and its failure is propagated with `?` -/
theorem queue_flags_are_negotiated_bits :
    ∀ d ∈ Generated.DropPlan.all, (flatEvs d).all queueFlagsOk = true := by decide

theorem queueFlagsOk_meaning (q : Nat) (ind ev ap : Flag) (f : Bool) (h : queueFlagsOk (.queueNew q ind ev ap f) = true) :
    ind = .neg bitIndirect ∧ ev = .neg bitEventIdx ∧ ap = .neg bitAccessPlatform ∧ f = true := by
  simpa [queueFlagsOk, and_assoc] using h

/-- consequently the flags a queue is created with are exactly the negotiated bits -/
theorem queue_flags_eval (o supported : Nat) :
    flagEval (Neg.of (negotiated supported o)) (.neg bitIndirect) = (negotiated supported o).testBit 28
    ∧ flagEval (Neg.of (negotiated supported o)) (.neg bitEventIdx) = (negotiated supported o).testBit 29
    ∧ flagEval (Neg.of (negotiated supported o)) (.neg bitAccessPlatform) = (negotiated supported o).testBit 33 := by
  simp [flagEval, Neg.of, bitIndirect, bitEventIdx, bitAccessPlatform]

/-! ### the composed constructors -/

macro "each_driver" i:ident h:ident t:tactic : tactic =>
  `(tactic| (
    have hc : $i = 0 ∨ $i = 1 ∨ $i = 2 ∨ $i = 3 ∨ $i = 4 ∨ $i = 5 ∨ $i = 6 ∨ $i = 7 ∨ $i = 8 ∨ $i = 9 ∨ $i = 10 := by omega
    clear $h
    rcases hc with h | h | h | h | h | h | h | h | h | h | h <;> subst h <;> $t))

/-- For every driver, every combination of the negotiated flag bits and both layouts, an
    undisturbed construction succeeds and performs the handshake in order:
    `0, 3, read, write, 11, queues…, 15`, notifications only after 15; the features are written once. -/
theorem handshake_order_N (i : Nat) (hi : i < 11) (n : Neg) (legacy : Bool) :
    isOk (constructN i n { offered := 0, legacy := legacy }).result = true
    ∧ HandshakeOk (constructN i n { offered := 0, legacy := legacy }).evs
    ∧ featureWrites (constructN i n { offered := 0, legacy := legacy }).evs = 1 := by
  obtain ⟨a, b, c⟩ := n
  each_driver i hi (cases a <;> cases b <;> cases c <;> cases legacy <;> decide +kernel)

/-- `constructN` ignores the `offered` field of its parameters (only `construct` looks at it,
    through `Neg.of (offered &&& supported)`) -/
theorem constructN_offered_irrelevant (i : Nat) (hi : i < 11) (n : Neg) (o : Nat) (legacy : Bool) :
    constructN i n { offered := o, legacy := legacy } = constructN i n { offered := 0, legacy := legacy } := by
  each_driver i hi rfl

/-- **Handshake, all offered words.** Every driver, every offered feature word, both layouts;
    the one value written to the device is `offered &&& supported` (`beginInit_shape`). -/
theorem handshake_order (i : Nat) (hi : i < 11) (offered : Nat) (legacy : Bool) :
    isOk (construct i { offered := offered, legacy := legacy }).result = true
    ∧ HandshakeOk (construct i { offered := offered, legacy := legacy }).evs
    ∧ featureWrites (construct i { offered := offered, legacy := legacy }).evs = 1 := by
  unfold construct
  rw [constructN_offered_irrelevant i hi]
  exact handshake_order_N i hi _ legacy

/-- VERSION_1 is accepted whenever it is offered (each driver). -/
theorem version1_accepted (i : Nat) (hi : i < 11) (offered : Nat) (h : offered.testBit bitVersion1 = true) :
    (negotiated (supportedOf i) offered).testBit bitVersion1 = true := by
  rw [negotiated_bit, h]
  each_driver i hi rfl

/-! ### feature-gated operations -/

/-- without the feature the operation emits nothing on the transport -/
theorem gated_silent (op : GOp) (neg : Nat) (h : neg.testBit op.bit = false) : (gated op neg).1 = [] := by
  cases op <;> simp [gated, h]

/-- … and reports the absence instead of talking to the device -/
theorem gated_result_without_feature (op : GOp) (neg : Nat) (h : neg.testBit op.bit = false) :
    (gated op neg).2 = match op with
      | .blkFlush => .ok | .consoleSize => .none | .consoleEmerg => .unsupported | .gpuEdid => .unsupported := by
  cases op <;> simp [gated, h]

/-- a gated operation can only be active if the device offered the bit -/
theorem gated_needs_offer (op : GOp) (offered : Nat) (h : offered.testBit op.bit = false) :
    (gated op (negotiated (supportedOf op.driver) offered)).1 = [] := by
  apply gated_silent
  rw [negotiated_bit, h]; rfl

/-! ### network header -/

/-- `legacy_header` ⇔ VERSION_1 was not negotiated; header length 12 ⇔ VERSION_1 negotiated -/
theorem legacyHeader_iff (offered : Nat) :
    legacyHeader (negotiated (supportedOf rawIndex) offered)
      = !(negotiated (supportedOf rawIndex) offered).testBit bitVersion1 := by
  have h15 : (negotiated (supportedOf rawIndex) offered).testBit 15 = false := by
    rw [negotiated_bit]
    have : (supportedOf rawIndex).testBit 15 = false := by decide
    simp [this]
  simp [legacyHeader, h15]

theorem netHdrLen_spec (offered : Nat) :
    netHdrLen (negotiated (supportedOf rawIndex) offered)
      = if (negotiated (supportedOf rawIndex) offered).testBit bitVersion1 then 12 else 10 := by
  unfold netHdrLen
  rw [legacyHeader_iff]
  cases (negotiated (supportedOf rawIndex) offered).testBit bitVersion1 <;> rfl

/-- on a device offering VERSION_1 the header is the 12-byte one -/
theorem netHdrLen_modern (offered : Nat) (h : offered.testBit bitVersion1 = true) :
    netHdrLen (negotiated (supportedOf rawIndex) offered) = 12 := by
  rw [netHdrLen_spec, version1_accepted rawIndex (by decide) offered h]; rfl

/-! ### non-vacuity -/

example : (construct 3 { offered := 0xffffffffffffffff }).evs.length = 20 := by decide +kernel
example : runPhases [.status 0, .status 3, .readFeatures, .writeFeatures, .status 11, .notify 0, .status 15] = .bad := by decide
example : noEarlyNotify false [.beginInit, .notify 0, .finishInit] = false := by decide
example : noEarlyNotify false [.beginInit, .post 1 true (some 0), .finishInit] = false := by decide
example : (gated .blkFlush (1 <<< 9)).1 = [.notify 0] := by decide
example : netHdrLen (negotiated (supportedOf rawIndex) 0) = 10 := by decide

end VirtioVerif.Props.C08
