import VirtioVerif.Model.Queue
import VirtioVerif.Lemmas.QueueFrame
import VirtioVerif.Lemmas.QueueEvents
/-!
# C02 — the device never sees an available index covering an incomplete entry

Part A (unconditional): the order of the device-visible stores of one submission.
The claim is about program order plus the fence the code contains (extracted from the source text
into `Generated/PublishSkeleton.lean`, see `skeleton_ok`); hardware reordering is not modelled.
-/
namespace VirtioVerif.Props.C02
open VirtioVerif VirtioVerif.Queue

/-- The device-visible stores of an accepted submission are: descriptor stores only, then the ring
slot, then — last — the available index.  So at every instant between two stores the index the
device can read is still the old one until everything else has been written. -/
theorem publish_order (q q' : Q) (ins outs : List Buf) (t : Nat) (evs : List Ev)
    (h : q.add ins outs = (q', .token t, evs)) :
    ∃ descStores, stores evs = descStores ++ [.ring (slotOf q.n q.availIdx) t, .idx ((q.availIdx + 1) % U16)]
      ∧ ∀ s ∈ descStores, isDescStore s = true := by
  obtain ⟨q1, c, evs1, hb, hq, ht, he, _, _⟩ := add_token_inv h
  have f : Frame q q1 := frame_buildChain _ _ _ _ hb
  obtain ⟨_, h2, _⟩ := buildChain_events _ _ _ _ _ _ hb
  subst he ht
  exact ⟨stores evs1, by simp [publish, f.n, f.availIdx], h2⟩

/-- The available index is the last device-visible location to change. -/
theorem idx_store_last (q q' : Q) (ins outs : List Buf) (t : Nat) (evs : List Ev)
    (h : q.add ins outs = (q', .token t, evs)) :
    (stores evs).getLast? = some (.idx ((q.availIdx + 1) % U16)) := by
  obtain ⟨ds, he, _⟩ := publish_order q q' ins outs t evs h
  rw [he]; simp

/-- Exactly one index store per submission, and it is +1 (mod 2^16): the index never moves
backwards and never jumps. -/
theorem one_idx_store (q q' : Q) (ins outs : List Buf) (t : Nat) (evs : List Ev)
    (h : q.add ins outs = (q', .token t, evs)) :
    (stores evs).filter (fun s => match s with | .idx _ => true | _ => false)
      = [.idx ((q.availIdx + 1) % U16)] := by
  obtain ⟨ds, he, hd⟩ := publish_order q q' ins outs t evs h
  rw [he]
  have : ds.filter (fun s => match s with | .idx _ => true | _ => false) = [] := by
    rw [List.filter_eq_nil_iff]
    intro s hs
    have := hd s hs
    cases s <;> simp_all [isDescStore]
  simp [List.filter_append, this]

/-- `pop_used` never stores to the ring or the index: it only rewrites descriptors (of the chain
the device has returned) and, with event-index, `used_event`. -/
theorem pop_stores (q q' : Q) (tok : Nat) (ins outs : List Buf) (l : Nat) (evs : List Ev)
    (h : q.popUsed tok ins outs = (q', .len l, evs)) :
    ∀ s ∈ stores evs, isDescStore s = true ∨ ∃ v, s = .usedEvent v := by
  obtain ⟨q1, evs1, hr, _, he, _, _, _⟩ := pop_len_inv h
  obtain ⟨_, _, c⟩ := recycle_events _ _ _ _ _ _ hr
  subst he
  intro s hs
  simp only [stores_append, List.mem_append] at hs
  rcases hs with hs | hs
  · exact Or.inl (c s hs)
  · right
    unfold finishPop at hs
    dsimp only at hs
    split at hs <;> simp at hs
    exact ⟨_, hs⟩

/-- `set_dev_notify` stores only to the flags word. -/
theorem notify_stores (q : Q) (en : Bool) : ∀ s ∈ stores (q.setDevNotify en).2, ∃ v, s = .flags v := by
  intro s hs
  unfold Q.setDevNotify at hs
  dsimp only at hs
  split at hs <;> simp at hs
  exact ⟨_, hs⟩

end VirtioVerif.Props.C02
