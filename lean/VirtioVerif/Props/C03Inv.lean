import VirtioVerif.Lemmas.QueueReach
import VirtioVerif.Props.C03
/-!
# C03, part B — over all histories

`Inv` (see `Lemmas/QueueInv.lean`) is the structural invariant of the driver state: the free list
is a duplicate-free chain of in-range descriptors disjoint from every outstanding chain, the
outstanding chains are pairwise disjoint, `num_used` counts exactly the descriptors they hold,
and the shadow table encodes each chain.  It holds in every state reachable from a fresh queue by
ANY sequence of submissions, polls (right or wrong token, ready or not) and device writes to the
used ring / flags / event index with ARBITRARY values, for every queue size and mode, for runs of
any length (the 16-bit indices are free-running, so wrap-around is inside the quantifier).
-/
namespace VirtioVerif.Props.C03Inv
open VirtioVerif VirtioVerif.Queue

/-- Every reachable state satisfies the invariant. -/
theorem reachable_inv (n : Nat) (ind ev ap : Bool) (hn : 0 < n) (hle : n ≤ 32768) (ops : List Op)
    (hok : AllOk (Q.init n ind ev ap) ops) : Inv (run (Q.init n ind ev ap) ops) :=
  run_inv ops _ (inv_init n ind ev ap hn hle) hok

/-- No operation of such a history panics: no index out of range, no failed assertion (in
particular the "chain shorter/longer than expected" checks), no `u16` overflow of `num_used`. -/
theorem reachable_no_panic (n : Nat) (ind ev ap : Bool) (hn : 0 < n) (hle : n ≤ 32768) (ops : List Op)
    (hok : AllOk (Q.init n ind ev ap) ops) : Res.panic ∉ results (Q.init n ind ev ap) ops :=
  run_no_panic ops _ (inv_init n ind ev ap hn hle) hok

/-- The descriptor count is exact: `num_used` is the number of descriptors held by outstanding
chains, never more than the queue size; free + held = size. -/
theorem count_exact (q : Q) (h : Inv q) :
    q.numUsed = (chainDescs q.out).length ∧ q.numUsed ≤ q.n
      ∧ ∃ free, Linked q.nextFn q.freeHead free ∧ free.length = q.n - q.numUsed := by
  obtain ⟨free, hl, _, _, hlen⟩ := h.free
  have := h.numUsed
  simp only [List.length_append] at hlen
  exact ⟨this, by omega, free, hl, by omega⟩

/-- `available_desc` in direct mode is the queue size minus the descriptors held by outstanding chains. -/
theorem availableDesc_direct (q : Q) (h : Inv q) (hi : q.indirect = false) :
    q.availableDesc = q.n - (chainDescs q.out).length := by
  simp [Q.availableDesc, hi, h.numUsed]

/-- In every reachable state a submission is accepted exactly when buffers are given and capacity
suffices (and then it cannot panic); otherwise it is refused without side effects. -/
theorem add_accepts_iff (q : Q) (h : Inv q) (ins outs : List Buf) (hz : ∀ b ∈ ins ++ outs, b.len ≠ 0) :
    (∃ t, (q.add ins outs).2.1 = .token t)
      ↔ ins.length + outs.length ≠ 0 ∧ addRefused q (ins.length + outs.length) = false := by
  have hnp := (add_inv q ins outs h hz).2
  constructor
  · rintro ⟨t, ht⟩
    have : q.add ins outs = ((q.add ins outs).1, .token t, (q.add ins outs).2.2) := by
      rw [← ht]
    obtain ⟨_, _, _, _, _, _, _, a, b⟩ := add_token_inv this
    exact ⟨a, b⟩
  · rintro ⟨hk, hr⟩
    unfold Q.add at hnp ⊢
    simp only [hk, if_false, hr, Bool.false_eq_true] at hnp ⊢
    split
    · rename_i hb; rw [hb] at hnp; simp at hnp
    · exact ⟨_, rfl⟩

/-- A consumed completion releases exactly the chain of the presented token: its descriptors are
free again (the count drops by the chain's length) and every other chain stays outstanding. -/
theorem pop_releases_exactly (q : Q) (h : Inv q) (c : Chain) (hc : c ∈ q.out)
    (hz : ∀ b ∈ c.ins ++ c.outs, b.len ≠ 0) (hready : q.canPop = true) (hid : q.usedElem.1 % U16 = c.head) :
    let q' := (q.popUsed c.head c.ins c.outs).1
    (q.popUsed c.head c.ins c.outs).2.1 = .len q.usedElem.2
      ∧ q'.out = q.out.filter (fun x => x.head != c.head)
      ∧ q'.numUsed + c.descs.length = q.numUsed
      ∧ (chainDescs q.out).Perm (c.descs ++ chainDescs q'.out)
      ∧ q'.freeHead = c.head := by
  obtain ⟨q1, evs, e, i, f, _, _, hfh⟩ := recycle_inv q h c hc hz
  have hheads : ∀ x ∈ q.out, x.head ∈ x.descs := fun x hx => chainOk_head_mem q x (h.chains x hx)
  obtain ⟨free, _, hnd, _, _⟩ := h.free
  have hndc : (chainDescs q.out).Nodup := (List.nodup_append.mp hnd).2.1
  have hp := filter_head_perm q.out c hc hndc hheads
  obtain ⟨a1, a2, _, _, _, _, _, a8, a9, _⟩ := finishPop_spec q1 c.head
  have hpop : q.popUsed c.head c.ins c.outs
      = ((finishPop q1 c.head).1, .len q.usedElem.2, evs ++ (finishPop q1 c.head).2) := by
    unfold Q.popUsed
    simp [hready, hid, e]
  rw [hpop]
  refine ⟨rfl, by rw [a2, f.out], ?_, ?_, by rw [a9]; exact hfh⟩
  · show (finishPop q1 c.head).1.numUsed + _ = _
    rw [a8, i.numUsed, h.numUsed, hp.length_eq]; simp; omega
  · show (chainDescs q.out).Perm (c.descs ++ chainDescs (finishPop q1 c.head).1.out)
    rw [a2, f.out]; exact hp

end VirtioVerif.Props.C03Inv
