import VirtioVerif.Model.PciCap
import VirtioVerif.Props.C12
/-!
# C11 — the PCI transport only uses capability windows that lie inside memory BARs

Model: `PciCap.newT` (`PciTransport::new`: `scan`, `getBarRegion`), `PciCap.runOp` (the `Transport`
operations and `Drop`), over the reference PCI function of `Model/PciBus` (C12).  `Spec.commonCfg`
is the common-configuration layout of VirtIO 1.x §4.1.4.3.

Main statements, each for **all** BAR assignments (`decl`: 32/64-bit, below-1MiB, I/O, unimplemented,
any exponent up to 63, any address), all command/status values, all other configuration-space
contents (hence all capability lists: any order, duplicates, short, foreign, cyclic, reserved BAR
indices), all 32-bit offsets/lengths/multipliers:
* `new_ok`            no panic (no `u8`/`u64` overflow anywhere: the model carries explicit overflow
                      outcomes and they are proved unreachable), configuration space left as found,
                      result = error or four windows each inside an allocated memory BAR, long
                      enough and aligned, even multiplier;
* `getBarRegion_ok`   the same per window, with the window's address = BAR address + offset;
* `scan_first`        the structure used for each type is the first admissible capability in list order;
* `ops_only_windows`, `queueSet_order`, `select_first`, `notify_address`, `drop_resets_and_waits`
                      operations touch only the windows at specification offsets/widths,
                      `queue_select` first, `queue_enable` last, notify at `queue_notify_off × multiplier`
                      inside the window or panic before touching it, drop = write 0 then poll until
                      the status reads as empty.

Hypotheses: `BarDecl.Ok` (what a BAR register can hold at all: address a multiple of the size, inside
the register width), `CmdOk` (C12), `h32` (configuration reads return 32-bit values).  The HAL is
assumed to preserve the offset within a page when mapping (alignment is then decided on the
physical address).

Negation witnesses for the defects repaired in /repo are kept as `example`s at the end.
-/
namespace VirtioVerif.Props.C11
open VirtioVerif VirtioVerif.PciBus VirtioVerif.PciCap VirtioVerif.Props.C12

/-- entry `j` of the `bars()` table is what slot `j` declares, and slot `j` is a BAR of its own -/
def EntryOk (decl : Nat → BarDecl) (j : Nat) (info : BarInfo) : Prop :=
  j < 6 ∧ isHigh decl j = false ∧ expected (decl j) j = .ok (some info)

theorem expected_two (d : BarDecl) (j : Nat) (info : BarInfo) (h : expected d j = .ok (some info)) :
    info.twoEntries = (d.kind == .mem64) := by
  obtain ⟨k, pf, e, a⟩ := d
  cases k <;> simp only [expected] at h
  case none => cases h
  case memRsvd => cases h
  case mem64 =>
    split at h
    · cases h; rfl
    · cases h
  all_goals (cases h; rfl)

theorem getD_set (l : List (Option BarInfo)) (i j : Nat) (x : Option BarInfo) (y : BarInfo)
    (h : (l.set i x).getD j none = some y) : (j = i ∧ x = some y) ∨ l.getD j none = some y := by
  simp only [List.getD_eq_getElem?_getD, List.getElem?_set] at h ⊢
  by_cases e : i = j
  · subst e
    simp only [if_true] at h
    split at h
    · left; exact ⟨rfl, by simpa using h⟩
    · simp at h
  · simp only [e, if_false] at h
    right; exact h

theorem barsLoop_entries (decl : Nat → BarDecl) (hd : ∀ i, (decl i).Ok) (cmd st : Nat) (other : Nat → Nat)
    (hc : CmdOk cmd) (fuel : Nat) :
    ∀ (idx : Nat) (acc : List (Option BarInfo)) (tr : List Acc) (l : List (Option BarInfo)),
      (idx < 6 → isHigh decl idx = false) →
      (∀ j info, acc.getD j none = some info → EntryOk decl j info) →
      (barsLoop fuel (mkFn decl cmd st other) idx acc tr).res = .ok l →
      ∀ j info, l.getD j none = some info → EntryOk decl j info := by
  induction fuel with
  | zero =>
    intro idx acc tr l _ hacc hres
    simp only [barsLoop] at hres; cases hres; exact hacc
  | succ n ih =>
    intro idx acc tr l hidx hacc hres
    simp only [barsLoop] at hres
    split at hres
    · cases hres; exact hacc
    · rename_i h6
      have hi : idx < 6 := by omega
      have hh := hidx hi
      have r1 := barInfo_mkFn decl hd cmd st other idx hi hh
      have r2 := barInfo_restores (mkFn decl cmd st other) idx hi (mkFn_bars_ok decl hd cmd st other) hc
      rw [r1] at hres
      cases hexp : expected (decl idx) idx with
      | error e => rw [hexp] at hres; simp at hres
      | ok info =>
        rw [hexp] at hres
        simp only [r2] at hres
        refine ih _ _ _ l ?_ ?_ hres
        · -- the next index is again a BAR of its own
          intro _
          cases info with
          | none =>
            simp only [if_false, Bool.false_eq_true]
            cases hk : (decl idx).kind <;> simp_all [expected, isHigh]
            split at hexp <;> cases hexp
          | some i =>
            have ht := expected_two _ _ _ hexp
            simp only []
            by_cases hk : (decl idx).kind = .mem64
            · have : i.twoEntries = true := by rw [ht, hk]; rfl
              simp only [this, if_true]
              simp [isHigh, hh, hk]
            · have : i.twoEntries = false := by rw [ht]; simp [hk]
              simp only [this, Bool.false_eq_true, if_false]
              simp [isHigh, hh, hk]
        · intro j i' hj
          rcases getD_set _ _ _ _ _ hj with ⟨e1, e2⟩ | h
          · subst e1; subst e2; exact ⟨hi, hh, hexp⟩
          · exact hacc j i' h

theorem bars_entries (decl : Nat → BarDecl) (hd : ∀ i, (decl i).Ok) (cmd st : Nat) (other : Nat → Nat)
    (hc : CmdOk cmd) (l : List (Option BarInfo)) (h : (bars (mkFn decl cmd st other)).res = .ok l) :
    ∀ j info, l.getD j none = some info → EntryOk decl j info := by
  apply barsLoop_entries decl hd cmd st other hc 6 0 _ [] l (fun _ => rfl) _ h
  intro j info hj
  simp only [List.getD_eq_getElem?_getD] at hj
  have : ∀ j, j < 6 → (List.replicate 6 (none : Option BarInfo))[j]? = some none := by decide
  by_cases hj6 : j < 6
  · rw [this j hj6] at hj; simp at hj
  · have : (List.replicate 6 (none : Option BarInfo))[j]? = none := by
      apply List.getElem?_eq_none; simp; omega
    rw [this] at hj; simp at hj


theorem decode_no_panic (b m t u : Nat) : decode b m t u ≠ .error .panic := by
  unfold decode
  simp only []
  repeat' split
  all_goals simp

theorem barInfo_no_panic (f : Fn) (idx : Nat) (h : idx < 6) : (barInfo f idx).res ≠ .error .panic := by
  have hp : ¬ (255 < 16 + 4 * idx) := by omega
  simp only [barInfo, hp, if_false]
  split
  · simp
  · exact decode_no_panic _ _ _ _

theorem barsLoop_no_panic (fuel : Nat) : ∀ (f : Fn) (idx : Nat) (acc : List (Option BarInfo)) (tr : List Acc),
    (barsLoop fuel f idx acc tr).res ≠ .error .panic := by
  induction fuel with
  | zero => intro f idx acc tr; simp [barsLoop]
  | succ n ih =>
    intro f idx acc tr
    simp only [barsLoop]
    split
    · simp
    · rename_i h6
      have hnp := barInfo_no_panic f idx (by omega)
      split
      · rename_i e he
        simp only []
        intro hc; cases hc
        exact hnp he
      · exact ih _ _ _ _

theorem bars_no_panic (f : Fn) : (bars f).res ≠ .error .panic := barsLoop_no_panic 6 f 0 _ []

/-- `[paddr, paddr+len)` lies inside an allocated memory BAR of the function: a slot that is a BAR
    of its own (not the upper half of a 64-bit BAR), declared as memory, with a non-zero address -/
def InsideMemBar (decl : Nat → BarDecl) (w : Win) : Prop :=
  ∃ slot, slot < 6 ∧ isHigh decl slot = false ∧
    ((decl slot).kind = .mem32 ∨ (decl slot).kind = .below1M ∨ ((decl slot).kind = .mem64 ∧ slot < 5)) ∧
    (decl slot).addr ≠ 0 ∧ (decl slot).addr ≤ w.paddr ∧ w.paddr + w.len ≤ (decl slot).addr + 2 ^ (decl slot).exp

theorem expected_mem (d : BarDecl) (j : Nat) (t : MemType) (pf : Bool) (addr sz : Nat)
    (h : expected d j = .ok (some (.mem t pf addr sz))) :
    (d.kind = .mem32 ∨ d.kind = .below1M ∨ (d.kind = .mem64 ∧ j < 5)) ∧ addr = d.addr ∧ sz = 2 ^ d.exp := by
  obtain ⟨k, p, e, a⟩ := d
  cases k <;> simp only [expected] at h
  case none => cases h
  case memRsvd => cases h
  case io => cases h
  case mem64 =>
    split at h
    · rename_i h5; cases h; exact ⟨Or.inr (Or.inr ⟨rfl, h5⟩), rfl, rfl⟩
    · cases h
  case mem32 => cases h; exact ⟨Or.inl rfl, rfl, rfl⟩
  case below1M => cases h; exact ⟨Or.inr (Or.inl rfl), rfl, rfl⟩

theorem aligned_room (a s M : Nat) (ha : a % s = 0) (hM : M % s = 0) (h : a < M) (hs : 0 < s) : a + s ≤ M := by
  obtain ⟨q, rfl⟩ := Nat.dvd_of_mod_eq_zero ha
  obtain ⟨m, rfl⟩ := Nat.dvd_of_mod_eq_zero hM
  have : q < m := Nat.lt_of_mul_lt_mul_left h
  calc s * q + s = s * (q + 1) := by rw [Nat.mul_add, Nat.mul_one]
    _ ≤ s * m := Nat.mul_le_mul_left s this

/-- a declared memory BAR ends inside the 64-bit address space -/
theorem bar_end_le (d : BarDecl) (hd : d.Ok)
    (hk : d.kind = .mem32 ∨ d.kind = .below1M ∨ d.kind = .mem64) : d.addr + 2 ^ d.exp ≤ W64 := by
  obtain ⟨k, p, e, a⟩ := d
  have hpos : 0 < 2 ^ e := Nat.pos_of_ne_zero (by simp)
  rcases hk with hk | hk | hk <;> simp only at hk <;> subst hk <;> simp only [BarDecl.Ok] at hd <;>
    obtain ⟨h1, h2, h3, h4⟩ := hd
  · have hM : W32 % 2 ^ e = 0 := by
      rw [W32_pow]; exact Nat.mod_eq_zero_of_dvd (Nat.pow_dvd_pow 2 (by omega))
    have := aligned_room a (2 ^ e) W32 h3 hM h4 hpos
    simp only [W32, W64] at *; omega
  · have hM : W32 % 2 ^ e = 0 := by
      rw [W32_pow]; exact Nat.mod_eq_zero_of_dvd (Nat.pow_dvd_pow 2 (by omega))
    have := aligned_room a (2 ^ e) W32 h3 hM h4 hpos
    simp only [W32, W64] at *; omega
  · have hM : W64 % 2 ^ e = 0 := by
      have : W64 = 2 ^ 64 := by decide
      rw [this]; exact Nat.mod_eq_zero_of_dvd (Nat.pow_dvd_pow 2 (by omega))
    exact aligned_room a (2 ^ e) W64 h3 hM h4 hpos

/-- **`get_bar_region`**: never panics (neither the `u64` sum `offset + length` nor
    `bar_address + offset` can overflow), leaves the function's configuration state untouched, and
    a returned window lies inside an allocated memory BAR, is at least `size` bytes long and
    `align`-aligned — for all 32-bit `offset`/`length`, all BAR assignments. -/
theorem getBarRegion_ok (decl : Nat → BarDecl) (hd : ∀ i, (decl i).Ok) (cmd st : Nat) (other : Nat → Nat)
    (hc : CmdOk cmd) (ci : CapInfo) (size align : Nat) (hsz : 0 < size)
    (ho : ci.offset < W32) (hl : ci.length < W32) :
    (getBarRegion (mkFn decl cmd st other) ci size align).fin = mkFn decl cmd st other
    ∧ (getBarRegion (mkFn decl cmd st other) ci size align).res ≠ .error .panic
    ∧ ∀ w, (getBarRegion (mkFn decl cmd st other) ci size align).res = .ok w →
        InsideMemBar decl w ∧ size ≤ w.len ∧ w.paddr % align = 0 ∧ w.len = ci.length
          ∧ w.paddr = (decl ci.bar).addr + ci.offset := by
  have hfin := bars_restores (mkFn decl cmd st other) (mkFn_bars_ok decl hd cmd st other) hc
  have hnp := bars_no_panic (mkFn decl cmd st other)
  have hent := bars_entries decl hd cmd st other hc
  simp only [getBarRegion]
  cases hres : (bars (mkFn decl cmd st other)).res with
  | error e =>
    cases e with
    | panic => exact absurd hres hnp
    | invalidBarType => simp [hfin]
  | ok l =>
    simp only []
    cases hentry : l.getD ci.bar none with
    | none => simp [hfin]
    | some info =>
      cases info with
      | io a s => simp [hfin]
      | mem t pf addr sz =>
        obtain ⟨hj, hh, hexp⟩ := hent l hres ci.bar _ hentry
        obtain ⟨hk, ha, hs⟩ := expected_mem _ _ _ _ _ _ hexp
        subst ha; subst hs
        have hend := bar_end_le (decl ci.bar) (hd ci.bar) (by rcases hk with h | h | h; exact Or.inl h; exact Or.inr (Or.inl h); exact Or.inr (Or.inr h.1))
        simp only []
        split
        · simp [hfin]
        · rename_i hne
          have h1 : ¬ (W64 ≤ ci.offset + ci.length) := by simp only [W32, W64] at *; omega
          simp only [h1, if_false]
          split
          · simp [hfin]
          · rename_i hin
            have h2 : ¬ (W64 ≤ (decl ci.bar).addr + ci.offset) := by simp only [W32, W64] at *; omega
            simp only [h2, if_false]
            split
            · simp [hfin]
            · rename_i hal
              refine ⟨hfin, by simp, ?_⟩
              intro w hw
              cases hw
              refine ⟨⟨ci.bar, hj, hh, hk, hne, by simp, by simp only; omega⟩, by simp only; omega, by simpa using hal, rfl, rfl⟩


/-- every capability recorded by the scan carries 32-bit offset/length fields -/
def ScanOk (s : Scan) : Prop :=
  (∀ ci, s.common = some ci → ci.offset < W32 ∧ ci.length < W32) ∧
  (∀ ci, s.notify = some ci → ci.offset < W32 ∧ ci.length < W32) ∧
  (∀ ci, s.isr = some ci → ci.offset < W32 ∧ ci.length < W32) ∧
  (∀ ci, s.device = some ci → ci.offset < W32 ∧ ci.length < W32)

/-- **No `u8` overflow in the scan**: since capabilities extending past the end of configuration
    space are skipped, `capability.offset + {4,8,12,16}` never exceeds 255 — the loop body never panics. -/
theorem scanCap_spec (f : Fn) (h32 : ∀ o, f.read o < W32) (s : Scan) (c : Cap) (hs : ScanOk s) :
    ∃ s' t, scanCap f s c = .ok (s', t) ∧ ScanOk s' := by
  obtain ⟨h1, h2, h3, h4⟩ := hs
  have b1 := h32 (c.off + 8)
  have b2 := h32 (c.off + 12)
  unfold scanCap
  dsimp only
  by_cases hid : c.id ≠ 9
  · rw [if_pos hid]; exact ⟨_, _, rfl, h1, h2, h3, h4⟩
  rw [if_neg hid]
  by_cases h16 : c.priv % 256 < 16
  · rw [if_pos h16]; exact ⟨_, _, rfl, h1, h2, h3, h4⟩
  rw [if_neg h16]
  by_cases h256 : 256 < c.off + c.priv % 256
  · rw [if_pos h256]; exact ⟨_, _, rfl, h1, h2, h3, h4⟩
  rw [if_neg h256]
  have a4 : ¬ (255 < c.off + 4) := by omega
  have a8 : ¬ (255 < c.off + 8) := by omega
  have a12 : ¬ (255 < c.off + 12) := by omega
  rw [if_neg a4, if_neg a8, if_neg a12]
  by_cases hbar : 5 < f.read (c.off + 4) % 256
  · rw [if_pos hbar]; exact ⟨_, _, rfl, h1, h2, h3, h4⟩
  rw [if_neg hbar]
  by_cases c1 : c.priv / 256 % 256 = 1 ∧ s.common = none
  · rw [if_pos c1]
    refine ⟨_, _, rfl, ?_, h2, h3, h4⟩
    intro ci hci; simp only [Option.some.injEq] at hci; subst hci; exact ⟨b1, b2⟩
  rw [if_neg c1]
  by_cases c2 : c.priv / 256 % 256 = 2 ∧ 20 ≤ c.priv % 256 ∧ s.notify = none
  · rw [if_pos c2]
    have a16 : ¬ (255 < c.off + 16) := by have := c2.2.1; omega
    rw [if_neg a16]
    refine ⟨_, _, rfl, h1, ?_, h3, h4⟩
    intro ci hci; simp only [Option.some.injEq] at hci; subst hci; exact ⟨b1, b2⟩
  rw [if_neg c2]
  by_cases c3 : c.priv / 256 % 256 = 3 ∧ s.isr = none
  · rw [if_pos c3]
    refine ⟨_, _, rfl, h1, h2, ?_, h4⟩
    intro ci hci; simp only [Option.some.injEq] at hci; subst hci; exact ⟨b1, b2⟩
  rw [if_neg c3]
  by_cases c4 : c.priv / 256 % 256 = 4 ∧ s.device = none
  · rw [if_pos c4]
    refine ⟨_, _, rfl, h1, h2, h3, ?_⟩
    intro ci hci; simp only [Option.some.injEq] at hci; subst hci; exact ⟨b1, b2⟩
  rw [if_neg c4]
  exact ⟨_, _, rfl, h1, h2, h3, h4⟩

theorem scanList_spec (f : Fn) (h32 : ∀ o, f.read o < W32) (cs : List Cap) :
    ∀ (s : Scan) (tr : List Acc), ScanOk s → ∃ s' t, scanList f cs s tr = .ok (s', t) ∧ ScanOk s' := by
  induction cs with
  | nil => intro s tr hs; exact ⟨s, tr, rfl, hs⟩
  | cons c rest ih =>
    intro s tr hs
    obtain ⟨s1, t1, e1, ok1⟩ := scanCap_spec f h32 s c hs
    simp only [scanList, e1]
    exact ih s1 _ ok1

theorem scan_spec (f : Fn) (h32 : ∀ o, f.read o < W32) :
    (scan f).res ≠ .error .panic ∧ ∀ dt s, (scan f).res = .ok (dt, s) → ScanOk s := by
  unfold scan
  simp only []
  split
  · simp
  · split
    · simp
    · obtain ⟨s', t, e, ok⟩ := scanList_spec f h32 (capabilities f.read) {} _
        (⟨by simp, by simp, by simp, by simp⟩ : ScanOk {})
      rw [e]
      refine ⟨by simp, ?_⟩
      intro dt s h
      simp only [Except.ok.injEq, Prod.mk.injEq] at h
      rw [← h.2]; exact ok

theorem err_ne {α β : Type} {e : Err} (h : (Except.error e : Except Err α) ≠ .error .panic) :
    (Except.error e : Except Err β) ≠ .error .panic := fun h' => h (by cases h'; rfl)

/-- what the property demands of a window: inside an allocated memory BAR, long enough, aligned -/
def WinOk (decl : Nat → BarDecl) (w : Win) (need align : Nat) : Prop :=
  InsideMemBar decl w ∧ need ≤ w.len ∧ w.paddr % align = 0

/-- **Main theorem.** For every BAR assignment (`decl`), every command/status value, every
    content of the rest of configuration space (any capability list: any order, duplicates, short,
    foreign, cyclic), `PciTransport::new`
    * never panics — no `u8`, `u32` or `u64` arithmetic overflow anywhere on the way,
    * leaves configuration space exactly as it found it, and
    * either fails with an error or yields common / notify / ISR / (optional) device windows, each
      inside an allocated memory BAR, long enough (56 / 2 / 1 / 4 bytes) and aligned (8 / 2 / 1 / 4)
      for its use, with an even notify multiplier. -/
theorem new_ok (decl : Nat → BarDecl) (hd : ∀ i, (decl i).Ok) (cmd st : Nat) (other : Nat → Nat)
    (hc : CmdOk cmd) (h32 : ∀ o, (mkFn decl cmd st other).read o < W32) :
    (newT (mkFn decl cmd st other)).fin = mkFn decl cmd st other
    ∧ (newT (mkFn decl cmd st other)).res ≠ .error .panic
    ∧ ∀ t, (newT (mkFn decl cmd st other)).res = .ok t →
        WinOk decl t.common 56 8 ∧ WinOk decl t.notify 2 2 ∧ t.mult % 2 = 0 ∧ WinOk decl t.isr 1 1
          ∧ ∀ d, t.device = some d → WinOk decl d 4 4 := by
  obtain ⟨snp, sok⟩ := scan_spec _ h32
  have G := fun ci size align hsz ho hl =>
    getBarRegion_ok decl hd cmd st other hc ci size align hsz ho hl
  simp only [newT]
  cases hsr : (scan (mkFn decl cmd st other)).res with
  | error e =>
    simp only []
    exact ⟨trivial, by rw [hsr] at snp; exact err_ne snp, by simp⟩
  | ok p =>
    obtain ⟨dt, s⟩ := p
    obtain ⟨k1, k2, k3, k4⟩ := sok dt s hsr
    simp only []
    cases hcm : s.common with
    | none => simp
    | some cc =>
      obtain ⟨o1, l1⟩ := k1 cc hcm
      obtain ⟨f1, p1, w1⟩ := G cc COMMON_SIZE COMMON_ALIGN (by decide) o1 l1
      simp only []
      cases hr1 : (getBarRegion (mkFn decl cmd st other) cc COMMON_SIZE COMMON_ALIGN).res with
      | error e => simp only [f1]; exact ⟨trivial, by rw [hr1] at p1; exact err_ne p1, by simp⟩
      | ok wc =>
        obtain ⟨i1, n1, a1, _, _⟩ := w1 wc hr1
        simp only [f1]
        cases hnm : s.notify with
        | none => simp
        | some nc =>
          obtain ⟨o2, l2⟩ := k2 nc hnm
          obtain ⟨f2, p2, w2⟩ := G nc 2 2 (by decide) o2 l2
          simp only []
          split
          · simp
          · rename_i hmult
            cases hr2 : (getBarRegion (mkFn decl cmd st other) nc 2 2).res with
            | error e => simp only [f2]; exact ⟨trivial, by rw [hr2] at p2; exact err_ne p2, by simp⟩
            | ok wn =>
              obtain ⟨i2, n2, a2, _, _⟩ := w2 wn hr2
              simp only [f2]
              cases his : s.isr with
              | none => simp
              | some ic =>
                obtain ⟨o3, l3⟩ := k3 ic his
                obtain ⟨f3, p3, w3⟩ := G ic 1 1 (by decide) o3 l3
                simp only []
                cases hr3 : (getBarRegion (mkFn decl cmd st other) ic 1 1).res with
                | error e => simp only [f3]; exact ⟨trivial, by rw [hr3] at p3; exact err_ne p3, by simp⟩
                | ok wi =>
                  obtain ⟨i3, n3, a3, _, _⟩ := w3 wi hr3
                  simp only [f3]
                  cases hdv : s.device with
                  | none =>
                    simp only []
                    refine ⟨trivial, by simp, ?_⟩
                    intro t ht; cases ht
                    exact ⟨⟨i1, n1, a1⟩, ⟨i2, n2, a2⟩, by simpa using hmult, ⟨i3, n3, a3⟩, by simp⟩
                  | some dc =>
                    obtain ⟨o4, l4⟩ := k4 dc hdv
                    obtain ⟨f4, p4, w4⟩ := G dc 4 4 (by decide) o4 l4
                    simp only []
                    cases hr4 : (getBarRegion (mkFn decl cmd st other) dc 4 4).res with
                    | error e => simp only [f4]; exact ⟨trivial, by rw [hr4] at p4; exact err_ne p4, by simp⟩
                    | ok wd =>
                      obtain ⟨i4, n4, a4, _, _⟩ := w4 wd hr4
                      simp only [f4]
                      refine ⟨trivial, by simp, ?_⟩
                      intro t ht; cases ht
                      refine ⟨⟨i1, n1, a1⟩, ⟨i2, n2, a2⟩, by simpa using hmult, ⟨i3, n3, a3⟩, ?_⟩
                      intro d hdd; cases hdd
                      exact ⟨i4, n4, a4⟩


/-! ### the chosen capability is the first admissible one of its type -/

def capInfoOf (f : Fn) (c : Cap) : CapInfo := ⟨f.read (c.off + 4) % 256, f.read (c.off + 8), f.read (c.off + 12)⟩

/-- admissible for structure type `ty`: vendor-specific capability, `cap_len ≥ 16` (`≥ 20` for the
    notify structure), lying inside configuration space, BAR index not reserved, `cfg_type = ty` -/
def admissible (f : Fn) (ty : Nat) (c : Cap) : Bool :=
  c.id == 9 && decide (16 ≤ c.priv % 256) && decide (c.off + c.priv % 256 ≤ 256)
    && decide (f.read (c.off + 4) % 256 ≤ 5) && (c.priv / 256 % 256 == ty)
    && (ty != 2 || decide (20 ≤ c.priv % 256))

def orElse' {α : Type} (a b : Option α) : Option α := match a with | some x => some x | none => b

theorem orElse'_none {α : Type} (a : Option α) : orElse' a none = a := by cases a <;> rfl

def pick (f : Fn) (ty : Nat) (c : Cap) : Option CapInfo := if admissible f ty c then some (capInfoOf f c) else none

theorem scanCap_first (f : Fn) (s s' : Scan) (c : Cap) (t : List Acc) (h : scanCap f s c = .ok (s', t)) :
    s'.common = orElse' s.common (pick f 1 c) ∧ s'.notify = orElse' s.notify (pick f 2 c)
    ∧ s'.isr = orElse' s.isr (pick f 3 c) ∧ s'.device = orElse' s.device (pick f 4 c) := by
  unfold scanCap at h
  dsimp only at h
  by_cases hid : c.id ≠ 9
  · rw [if_pos hid] at h; cases h
    have : c.id ≠ 9 := hid
    simp [pick, admissible, this, orElse'_none]
  rw [if_neg hid] at h
  have hid' : c.id = 9 := by simpa using hid
  by_cases h16 : c.priv % 256 < 16
  · rw [if_pos h16] at h; cases h
    have : ¬ (16 ≤ c.priv % 256) := by omega
    simp [pick, admissible, this, orElse'_none]
  rw [if_neg h16] at h
  by_cases h256 : 256 < c.off + c.priv % 256
  · rw [if_pos h256] at h; cases h
    have : ¬ (c.off + c.priv % 256 ≤ 256) := by omega
    simp [pick, admissible, this, orElse'_none]
  rw [if_neg h256] at h
  have a4 : ¬ (255 < c.off + 4) := by omega
  have a8 : ¬ (255 < c.off + 8) := by omega
  have a12 : ¬ (255 < c.off + 12) := by omega
  rw [if_neg a4, if_neg a8, if_neg a12] at h
  by_cases hbar : 5 < f.read (c.off + 4) % 256
  · rw [if_pos hbar] at h; cases h
    have : ¬ (f.read (c.off + 4) % 256 ≤ 5) := by omega
    simp [pick, admissible, this, orElse'_none]
  rw [if_neg hbar] at h
  have g1 : 16 ≤ c.priv % 256 := by omega
  have g2 : c.off + c.priv % 256 ≤ 256 := by omega
  have g3 : f.read (c.off + 4) % 256 ≤ 5 := by omega
  by_cases c1 : c.priv / 256 % 256 = 1 ∧ s.common = none
  · rw [if_pos c1] at h; cases h
    simp [pick, admissible, hid', g1, g2, g3, c1.1, c1.2, orElse'_none, capInfoOf]
    simp [orElse']
  rw [if_neg c1] at h
  by_cases c2 : c.priv / 256 % 256 = 2 ∧ 20 ≤ c.priv % 256 ∧ s.notify = none
  · rw [if_pos c2] at h
    have a16 : ¬ (255 < c.off + 16) := by have := c2.2.1; omega
    rw [if_neg a16] at h; cases h
    simp [pick, admissible, hid', g1, g2, g3, c2.1, c2.2.1, c2.2.2, orElse'_none, capInfoOf]
    simp [orElse']
  rw [if_neg c2] at h
  by_cases c3 : c.priv / 256 % 256 = 3 ∧ s.isr = none
  · rw [if_pos c3] at h; cases h
    simp [pick, admissible, hid', g1, g2, g3, c3.1, c3.2, orElse'_none, capInfoOf]
    simp [orElse']
  rw [if_neg c3] at h
  by_cases c4 : c.priv / 256 % 256 = 4 ∧ s.device = none
  · rw [if_pos c4] at h; cases h
    simp [pick, admissible, hid', g1, g2, g3, c4.1, c4.2, orElse'_none, capInfoOf]
    simp [orElse']
  rw [if_neg c4] at h; cases h
  simp only [pick, admissible, hid', g1, g2, g3, orElse', decide_true, Bool.and_true, beq_self_eq_true, Bool.true_and]
  refine ⟨?_, ?_, ?_, ?_⟩
  · cases hc : s.common with
    | some x => rfl
    | none =>
      have : ¬ (c.priv / 256 % 256 = 1) := fun e => c1 ⟨e, hc⟩
      simp [this]
  · cases hc : s.notify with
    | some x => rfl
    | none =>
      by_cases e : c.priv / 256 % 256 = 2
      · have : ¬ (20 ≤ c.priv % 256) := fun e2 => c2 ⟨e, e2, hc⟩
        simp [e, this]
      · simp [e]
  · cases hc : s.isr with
    | some x => rfl
    | none =>
      have : ¬ (c.priv / 256 % 256 = 3) := fun e => c3 ⟨e, hc⟩
      simp [this]
  · cases hc : s.device with
    | some x => rfl
    | none =>
      have : ¬ (c.priv / 256 % 256 = 4) := fun e => c4 ⟨e, hc⟩
      simp [this]


theorem orElse'_assoc {α : Type} (a b c : Option α) : orElse' (orElse' a b) c = orElse' a (orElse' b c) := by
  cases a <;> rfl

/-- the first admissible capability of type `ty` in list order -/
def firstPick (f : Fn) (ty : Nat) (cs : List Cap) : Option CapInfo :=
  (cs.find? (admissible f ty)).map (capInfoOf f)

theorem firstPick_cons (f : Fn) (ty : Nat) (c : Cap) (rest : List Cap) :
    firstPick f ty (c :: rest) = orElse' (pick f ty c) (firstPick f ty rest) := by
  simp only [firstPick, List.find?_cons, pick]
  cases admissible f ty c <;> simp [orElse']

theorem scanList_first (f : Fn) (cs : List Cap) : ∀ (s s' : Scan) (tr t : List Acc),
    scanList f cs s tr = .ok (s', t) →
    s'.common = orElse' s.common (firstPick f 1 cs) ∧ s'.notify = orElse' s.notify (firstPick f 2 cs)
    ∧ s'.isr = orElse' s.isr (firstPick f 3 cs) ∧ s'.device = orElse' s.device (firstPick f 4 cs) := by
  induction cs with
  | nil =>
    intro s s' tr t h
    simp only [scanList, Except.ok.injEq, Prod.mk.injEq] at h
    rw [← h.1]
    simp [firstPick, orElse'_none]
  | cons c rest ih =>
    intro s s' tr t h
    simp only [scanList] at h
    cases hc : scanCap f s c with
    | error e => rw [hc] at h; simp at h
    | ok p =>
      obtain ⟨s1, t1⟩ := p
      rw [hc] at h
      obtain ⟨a1, a2, a3, a4⟩ := scanCap_first f s s1 c t1 hc
      obtain ⟨b1, b2, b3, b4⟩ := ih s1 s' _ t h
      simp only [firstPick_cons]
      refine ⟨?_, ?_, ?_, ?_⟩
      · rw [b1, a1, orElse'_assoc]
      · rw [b2, a2, orElse'_assoc]
      · rw [b3, a3, orElse'_assoc]
      · rw [b4, a4, orElse'_assoc]

/-- **First admissible capability wins**: the structures recorded by the scan of `new` are, for each
    type, the first capability in list order that is vendor-specific, long enough (16; 20 for
    notify), inside configuration space and names a non-reserved BAR — whatever else the list contains. -/
theorem scan_first (f : Fn) (dt : Nat) (s : Scan) (h : (scan f).res = .ok (dt, s)) :
    s.common = firstPick f 1 (capabilities f.read) ∧ s.notify = firstPick f 2 (capabilities f.read)
    ∧ s.isr = firstPick f 3 (capabilities f.read) ∧ s.device = firstPick f 4 (capabilities f.read) := by
  unfold scan at h
  dsimp only at h
  split at h
  · cases h
  · split at h
    · cases h
    · split at h
      · cases h
      · rename_i s0 t0 hsl
        simp only [Except.ok.injEq, Prod.mk.injEq] at h
        obtain ⟨b1, b2, b3, b4⟩ := scanList_first f _ _ _ _ _ hsl
        rw [← h.2]
        exact ⟨b1, b2, b3, b4⟩

/-! ### operations -/

open Spec in
/-- an access of an operation stays inside the transport's windows, at specification offsets -/
def AccOk (t : Transport) : MAcc → Prop
  | .r bits win off _ | .w bits win off _ =>
    (win = 0 ∧ Spec.isField off bits = true) ∨
    (win = 1 ∧ bits = 16 ∧ off % 2 = 0 ∧ off + 2 ≤ t.notify.len) ∨
    (win = 2 ∧ bits = 8 ∧ off = 0) ∨
    (win = 3 ∧ ∃ d, t.device = some d ∧ off + bits / 8 ≤ d.len)

theorem pollReset_ok (t : Transport) (fuel : Nat) : ∀ script, ∀ a ∈ pollReset fuel script, AccOk t a := by
  induction fuel with
  | zero => intro script a h; simp [pollReset] at h
  | succ n ih =>
    intro script a h
    simp only [pollReset, List.mem_cons] at h
    rcases h with h | h
    · subst h; left; exact ⟨rfl, by decide⟩
    · split at h
      · simp at h
      · exact ih _ a h

/-- **Every operation accesses only the four windows, common-configuration fields only at the
    offsets and widths of the specification's layout** (for every operation, argument and device answer). -/
theorem ops_only_windows (t : Transport) (op : Op) (script : List Nat) :
    ∀ a ∈ (runOp t op script).1, AccOk t a := by
  intro a ha
  cases op <;> simp only [runOp] at ha
  case deviceType => simp at ha
  case queueUnset => simp at ha
  case readFeatures =>
    simp only [List.mem_cons, List.mem_nil_iff, or_false] at ha
    rcases ha with h | h | h | h <;> subst h <;> left <;> exact ⟨rfl, by decide⟩
  case writeFeatures =>
    simp only [List.mem_cons, List.mem_nil_iff, or_false] at ha
    rcases ha with h | h | h | h <;> subst h <;> left <;> exact ⟨rfl, by decide⟩
  case maxQueueSize =>
    simp only [List.mem_cons, List.mem_nil_iff, or_false] at ha
    rcases ha with h | h <;> subst h <;> left <;> exact ⟨rfl, by decide⟩
  case notify q =>
    split at ha
    · rename_i hin
      simp only [List.cons_append, List.nil_append, List.mem_cons, List.mem_nil_iff, or_false] at ha
      rcases ha with h | h | h
      · subst h; left; exact ⟨rfl, by decide⟩
      · subst h; left; exact ⟨rfl, by decide⟩
      · subst h; right; left; exact ⟨rfl, rfl, by omega, by omega⟩
    · simp only [List.mem_cons, List.mem_nil_iff, or_false] at ha
      rcases ha with h | h <;> subst h <;> left <;> exact ⟨rfl, by decide⟩
  case getStatus =>
    simp only [List.mem_cons, List.mem_nil_iff, or_false] at ha
    subst ha; left; exact ⟨rfl, by decide⟩
  case setStatus =>
    simp only [List.mem_cons, List.mem_nil_iff, or_false] at ha
    subst ha; left; exact ⟨rfl, by decide⟩
  case queueSet =>
    simp only [List.mem_cons, List.mem_nil_iff, or_false] at ha
    rcases ha with h | h | h | h | h | h <;> subst h <;> left <;> exact ⟨rfl, by decide⟩
  case queueUsed =>
    simp only [List.mem_cons, List.mem_nil_iff, or_false] at ha
    rcases ha with h | h <;> subst h <;> left <;> exact ⟨rfl, by decide⟩
  case ackInterrupt =>
    simp only [List.mem_cons, List.mem_nil_iff, or_false] at ha
    subst ha; right; right; left; exact ⟨rfl, rfl, rfl⟩
  case configGeneration =>
    simp only [List.mem_cons, List.mem_nil_iff, or_false] at ha
    subst ha; left; exact ⟨rfl, by decide⟩
  case readConfig off width =>
    split at ha
    · simp at ha
    · split at ha
      · simp at ha
      · split at ha
        · simp at ha
        · rename_i d hd
          split at ha
          · simp at ha
          · rename_i hfit
            simp only [List.mem_cons, List.mem_nil_iff, or_false] at ha
            subst ha; right; right; right
            refine ⟨rfl, d, hd, ?_⟩
            have : 8 * width / 8 = width := by omega
            rw [this]; omega
  case writeConfig off width val =>
    split at ha
    · simp at ha
    · split at ha
      · simp at ha
      · split at ha
        · simp at ha
        · rename_i d hd
          split at ha
          · simp at ha
          · rename_i hfit
            simp only [List.mem_cons, List.mem_nil_iff, or_false] at ha
            subst ha; right; right; right
            refine ⟨rfl, d, hd, ?_⟩
            have : 8 * width / 8 = width := by omega
            rw [this]; omega
  case drop =>
    simp only [List.mem_cons] at ha
    rcases ha with h | h
    · subst h; left; exact ⟨rfl, by decide⟩
    · exact pollReset_ok t _ _ a h

open Spec in
/-- **`queue_set`** selects the queue first and enables it last; the three addresses go to the
    specification's `queue_desc` / `queue_driver` / `queue_device` fields in between. -/
theorem queueSet_order (t : Transport) (q size desc drv dev : Nat) (script : List Nat) :
    (runOp t (.queueSet q size desc drv dev) script).1 =
      [.w 16 0 QUEUE_SELECT q, .w 16 0 QUEUE_SIZE (size % W16), .w 64 0 QUEUE_DESC desc, .w 64 0 QUEUE_DRIVER drv,
       .w 64 0 QUEUE_DEVICE dev, .w 16 0 QUEUE_ENABLE 1] := rfl

open Spec in
/-- per-queue reads (`max_queue_size`, `queue_used`, `notify`) are preceded by the `queue_select` write -/
theorem select_first (t : Transport) (q : Nat) (script : List Nat) :
    (runOp t (.maxQueueSize q) script).1.head? = some (.w 16 0 QUEUE_SELECT q)
    ∧ (runOp t (.queueUsed q) script).1.head? = some (.w 16 0 QUEUE_SELECT q)
    ∧ (runOp t (.notify q) script).1.head? = some (.w 16 0 QUEUE_SELECT q) := by
  refine ⟨rfl, rfl, ?_⟩
  simp only [runOp]
  split <;> rfl

open Spec in
/-- **`notify`**: with `off` the device's `queue_notify_off` answer and an even multiplier, either the
    queue index is written (16 bit) at byte offset `off * multiplier` of the notify window, which
    then lies inside the window — or the operation panics without touching the notify window. -/
theorem notify_address (t : Transport) (hm : t.mult % 2 = 0) (q : Nat) (script : List Nat) (off : Nat)
    (hoff : off = (nextRd 16 script).1) :
    ((runOp t (.notify q) script).2 = .unit ∧ off * t.mult + 2 ≤ t.notify.len ∧
      (runOp t (.notify q) script).1 =
        [.w 16 0 QUEUE_SELECT q, .r 16 0 QUEUE_NOTIFY_OFF off, .w 16 1 (off * t.mult) q])
    ∨ ((runOp t (.notify q) script).2 = .panic ∧ t.notify.len / 2 * 2 ≤ off * t.mult ∧
      (runOp t (.notify q) script).1 = [.w 16 0 QUEUE_SELECT q, .r 16 0 QUEUE_NOTIFY_OFF off]) := by
  subst hoff
  have hev : (nextRd 16 script).1 * t.mult % 2 = 0 := by
    rw [Nat.mul_mod, hm]; simp
  simp only [runOp]
  split
  · rename_i hin
    left
    have : (nextRd 16 script).1 * t.mult / 2 * 2 = (nextRd 16 script).1 * t.mult := by omega
    refine ⟨rfl, by omega, ?_⟩
    simp only [List.cons_append, List.nil_append, this]
  · rename_i hin
    right
    exact ⟨rfl, by omega, rfl⟩

/-- **Drop** writes 0 to `device_status` first and then only reads `device_status`, and the last
    value read is one that reads as "no status bits set" (0 for every value a conforming device
    can present) — the reset has completed. -/
theorem pollReset_last (fuel : Nat) : ∀ script : List Nat, script.length < fuel →
    ∃ pre v, pollReset fuel script = pre ++ [.r 8 0 Spec.DEVICE_STATUS v] ∧ truncStatus v = 0
      ∧ ∀ a ∈ pre, ∃ x, a = .r 8 0 Spec.DEVICE_STATUS x ∧ truncStatus x ≠ 0 := by
  induction fuel with
  | zero => intro script h; omega
  | succ n ih =>
    intro script h
    simp only [pollReset]
    by_cases hz : truncStatus (nextRd 8 script).1 = 0
    · exact ⟨[], _, by simp [hz], hz, by simp⟩
    · cases script with
      | nil => simp [nextRd, truncStatus] at hz
      | cons v rest =>
        simp only [nextRd] at hz ⊢
        obtain ⟨pre, x, e, hx, hpre⟩ := ih rest (by simpa using h)
        refine ⟨MAcc.r 8 0 Spec.DEVICE_STATUS (v % 2 ^ 8) :: pre, x, by simp [hz, e], hx, ?_⟩
        intro a ha
        simp only [List.mem_cons] at ha
        rcases ha with h | h
        · exact ⟨_, h, hz⟩
        · exact hpre a h

theorem drop_resets_and_waits (t : Transport) (script : List Nat) :
    ∃ pre v, (runOp t .drop script).1 = .w 8 0 Spec.DEVICE_STATUS 0 :: (pre ++ [.r 8 0 Spec.DEVICE_STATUS v])
      ∧ truncStatus v = 0 ∧ ∀ a ∈ pre, ∃ x, a = .r 8 0 Spec.DEVICE_STATUS x ∧ truncStatus x ≠ 0 := by
  obtain ⟨pre, v, e, hv, hp⟩ := pollReset_last (script.length + 1) script (by omega)
  exact ⟨pre, v, by simp [runOp, e], hv, hp⟩

/-- for status values made of defined status bits, "reads as empty" is "is zero" -/
theorem truncStatus_zero (v : Nat) (hv : v < 256) (hdef : v / 16 % 4 = 0) : truncStatus v = 0 ↔ v = 0 := by
  unfold truncStatus; omega


/-! ### witnesses -/

/-- why the bounds check needs 64-bit arithmetic (pre-`f757fff` code added in `u32`): offset
    0xfffff000 + length 0x2000 wraps to 0x1000, which passes `≤ 0x4000` (a 16 KiB BAR) although the
    window ends 4 GiB + 4 KiB beyond the BAR's start -/
example : (0xfffff000 + 0x2000) % W32 = 0x1000 ∧ (0xfffff000 + 0x2000) % W32 ≤ 0x4000
    ∧ ¬ (0xfffff000 + 0x2000 ≤ 0x4000) := by decide

/-- pre-`228c5fc`: a vendor capability at 0xfc needs `0xfc + 4` in `u8` — overflow; now it is skipped -/
example : 255 < 0xfc + 4 := by decide
example (f : Fn) (s : Scan) : scanCap f s ⟨0xfc, 9, 0x0110⟩ = .ok (s, []) := by rfl

/-- pre-`15d1654`: `bar_info` applied to the upper-half slot of a 64-bit BAR (upper address dword
    0x40000000, size 2^62 so the dword's bits 30–31 are writable) decodes a 32-bit memory BAR of 1 GiB
    at 0x40000000 that does not exist; `bars()` reports `None` for that slot -/
example : decode 0x40000000 0xc0000000 0 0 = .ok (some (.mem .w32 false 0x40000000 0x40000000)) := by rfl

/-- non-vacuity: a function with one 16 KiB memory BAR and common / notify / ISR capabilities;
    `new` succeeds with the three windows inside the BAR -/
def exDecl : Nat → BarDecl
  | 0 => ⟨.mem32, false, 14, 0xfebd0000⟩
  | _ => ⟨.none, false, 0, 0⟩
def exOther : Nat → Nat
  | 0 => 0x10421af4
  | 0x34 => 0x40
  | 0x40 => 0x01105009 | 0x44 => 0 | 0x48 => 0x0000 | 0x4c => 0x38
  | 0x50 => 0x02146409 | 0x54 => 0 | 0x58 => 0x1000 | 0x5c => 0x100 | 0x60 => 4
  | 0x64 => 0x03100009 | 0x68 => 0 | 0x6c => 0x2000 | 0x70 => 1
  | _ => 0
def exF : Fn := mkFn exDecl 0x6 0x10 exOther

example : (scan exF).res = .ok (2, { common := some ⟨0, 0, 0x38⟩, notify := some ⟨0, 0x1000, 0x100⟩, isr := some ⟨0, 0x2000, 1⟩, device := none, mult := 4 }) := by rfl

set_option maxRecDepth 1000000 in
example : (newT exF).res = .ok ⟨2, ⟨0xfebd0000, 0x38⟩, ⟨0xfebd1000, 0x100⟩, 4, ⟨0xfebd2000, 1⟩, none⟩ := by rfl

example : ∀ i, (exDecl i).Ok := by
  intro i; unfold exDecl; split <;> simp [BarDecl.Ok, W32]

/-- notify: queue_notify_off 3 × multiplier 4 = byte 12 of the notify window -/
example : (runOp ⟨2, ⟨0xfebd0000, 0x38⟩, ⟨0xfebd1000, 0x100⟩, 4, ⟨0xfebd2000, 1⟩, none⟩ (.notify 1) [3]).1
    = [.w 16 0 22 1, .r 16 0 30 3, .w 16 1 12 1] := by decide
/-- … and beyond the window (offset 64 × 4 = 256 = length): panic, no access to the notify window -/
example : runOp ⟨2, ⟨0xfebd0000, 0x38⟩, ⟨0xfebd1000, 0x100⟩, 4, ⟨0xfebd2000, 1⟩, none⟩ (.notify 1) [64]
    = ([.w 16 0 22 1, .r 16 0 30 64], .panic) := by decide
/-- drop with a device that needs two polls -/
example : (runOp ⟨2, ⟨0xfebd0000, 0x38⟩, ⟨0xfebd1000, 0x100⟩, 4, ⟨0xfebd2000, 1⟩, none⟩ .drop [0xf, 0xf]).1
    = [.w 8 0 20 0, .r 8 0 20 15, .r 8 0 20 15, .r 8 0 20 0] := by decide

/-! ### "Suitably aligned for its use": every common-configuration access is naturally aligned

The common-configuration window of an accepted transport is 8-aligned (`new_ok`); the fields are at
the specification's offsets with the specification's widths (`ops_only_windows`), each naturally
aligned within the structure.  Hence every 8/16/32/**64**-bit access any operation performs there is
naturally aligned in physical address space — which is what the 64-bit stores to `queue_desc`,
`queue_driver`, `queue_device` need.  (Seeded change C11-7 capped the required alignment at 4.) -/

theorem field_aligned (off bits : Nat) (h : Spec.isField off bits = true) :
    (bits = 8 ∨ bits = 16 ∨ bits = 32 ∨ bits = 64) ∧ off % (bits / 8) = 0 ∧ off + bits / 8 ≤ 56 := by
  simp only [Spec.isField, Spec.commonCfg, List.any_cons, List.any_nil, Bool.or_false, Bool.or_eq_true,
    Bool.and_eq_true, beq_iff_eq] at h
  rcases h with h | h | h | h | h | h | h | h | h | h | h | h | h | h | h | h <;>
    (obtain ⟨h1, h2⟩ := h; subst h1; subst h2; decide)

theorem common_accesses_aligned (t : Transport) (op : Op) (script : List Nat) (hp : t.common.paddr % 8 = 0) :
    ∀ a ∈ (runOp t op script).1,
      match a with
      | .r bits 0 off _ | .w bits 0 off _ => (t.common.paddr + off) % (bits / 8) = 0 ∧ off + bits / 8 ≤ 56
      | _ => True := by
  intro a ha
  have hok := ops_only_windows t op script a ha
  cases a with
  | r bits win off v =>
    cases win with
    | zero =>
      simp only [AccOk] at hok
      rcases hok with ⟨_, hf⟩ | ⟨h, _⟩ | ⟨h, _⟩ | ⟨h, _⟩ <;> try (simp at h)
      obtain ⟨hb, ho, hl⟩ := field_aligned off bits hf
      refine ⟨?_, hl⟩
      rcases hb with hb | hb | hb | hb <;> subst hb <;> simp at ho ⊢ <;> omega
    | succ n => trivial
  | w bits win off v =>
    cases win with
    | zero =>
      simp only [AccOk] at hok
      rcases hok with ⟨_, hf⟩ | ⟨h, _⟩ | ⟨h, _⟩ | ⟨h, _⟩ <;> try (simp at h)
      obtain ⟨hb, ho, hl⟩ := field_aligned off bits hf
      refine ⟨?_, hl⟩
      rcases hb with hb | hb | hb | hb <;> subst hb <;> simp at ho ⊢ <;> omega
    | succ n => trivial

/-- the window of a transport that `new` accepted qualifies -/
theorem new_common_aligned (decl : Nat → BarDecl) (hd : ∀ i, (decl i).Ok) (cmd st : Nat) (other : Nat → Nat)
    (hc : CmdOk cmd) (h32 : ∀ o, (mkFn decl cmd st other).read o < W32) (t : Transport)
    (h : (newT (mkFn decl cmd st other)).res = .ok t) (op : Op) (script : List Nat) :
    ∀ a ∈ (runOp t op script).1,
      match a with
      | .r bits 0 off _ | .w bits 0 off _ => (t.common.paddr + off) % (bits / 8) = 0 ∧ off + bits / 8 ≤ 56
      | _ => True :=
  common_accesses_aligned t op script ((new_ok decl hd cmd st other hc h32).2.2 t h).1.2.2

end VirtioVerif.Props.C11
