import VirtioVerif.Model.Queue
import VirtioVerif.Lemmas.QueueFrame
import VirtioVerif.Lemmas.QueueEvents
/-!
# C01 — every published buffer chain is well-formed and describes the caller's buffers

Part A (unconditional): which ring slot and index an accepted submission writes.
Part B (`Props/C01Inv.lean`): the chain the device parses from the new entry, over all histories.
-/
namespace VirtioVerif.Props.C01
open VirtioVerif VirtioVerif.Queue

/-- for a power-of-two size the mask the code uses is the remainder -/
theorem slotOf_eq_mod (k i : Nat) : slotOf (2 ^ k) i = i % 2 ^ k := by
  unfold slotOf
  exact Nat.and_two_pow_sub_one_eq_mod i k

theorem slotOf_lt (k i : Nat) : slotOf (2 ^ k) i < 2 ^ k := by
  rw [slotOf_eq_mod]; exact Nat.mod_lt _ (Nat.two_pow_pos k)

/-- Each accepted submission fills exactly the ring slot designated by the previous available
index, with the token it returns, leaves every other slot alone, and advances the device-visible
available index by exactly one (mod 2^16). -/
theorem add_fills_designated_slot (q q' : Q) (ins outs : List Buf) (t : Nat) (evs : List Ev)
    (h : q.add ins outs = (q', .token t, evs)) :
    q'.availRing = q.availRing.setIfInBounds (slotOf q.n q.availIdx) t
      ∧ q'.availIdxMem = (q.availIdx + 1) % U16 ∧ q'.availIdx = (q.availIdx + 1) % U16 := by
  obtain ⟨q1, c, evs1, hb, hq, ht, _, _, _⟩ := add_token_inv h
  have f : Frame q q1 := frame_buildChain _ _ _ _ hb
  subst hq ht
  simp [publish, f.availRing, f.n, f.availIdx]

theorem add_slot_value (q q' : Q) (ins outs : List Buf) (t : Nat) (evs : List Ev)
    (h : q.add ins outs = (q', .token t, evs)) (hs : slotOf q.n q.availIdx < q.availRing.size) :
    q'.availRing.getD (slotOf q.n q.availIdx) 0 = t
      ∧ ∀ s, s ≠ slotOf q.n q.availIdx → q'.availRing.getD s 0 = q.availRing.getD s 0 := by
  obtain ⟨h1, _, _⟩ := add_fills_designated_slot q q' ins outs t evs h
  rw [h1]
  constructor
  · simp [Array.getD_eq_getD_getElem?, Array.getElem?_setIfInBounds, hs]
  · intro s hne
    simp [Array.getD_eq_getD_getElem?, Array.getElem?_setIfInBounds, Ne.symm hne]

/-- Indirect descriptors are used only if enabled for the queue (and only for chains of more than
one buffer). -/
theorem indirect_only_if_enabled (q q' : Q) (ins outs : List Buf) (t : Nat) (evs : List Ev)
    (h : q.add ins outs = (q', .token t, evs)) :
    ∀ c ∈ q'.out, c ∉ q.out → c.table.isSome → q.indirect = true ∧ 1 < ins.length + outs.length := by
  obtain ⟨q1, c, evs1, hb, hq, _, _, _, _⟩ := add_token_inv h
  have f : Frame q q1 := frame_buildChain _ _ _ _ hb
  subst hq
  intro c' hc' hnot hsome
  simp only [publish, f.out, List.mem_append, List.mem_singleton] at hc'
  rcases hc' with hc' | hc'
  · exact absurd hc' hnot
  · subst hc'
    unfold buildChain at hb
    split at hb
    · rename_i hcond
      simpa using hcond
    · unfold addDirect at hb
      split at hb
      · simp at hb
      · simp only at hb
        split at hb
        · simp at hb
        · split at hb
          · simp at hb
          · simp only [Option.some.injEq, Prod.mk.injEq] at hb
            obtain ⟨_, h2, _⟩ := hb
            subst h2
            simp at hsome

end VirtioVerif.Props.C01
