import VirtioVerif.Model.Layout
/-!
# C06 — queue memory is laid out, registered and released correctly for every size

All statements quantify over every power-of-two size `n = 2^k` (no bound on `k` is needed by the
proofs; the code's `SIZE_OK` restricts `k ≤ 15`), both layouts, every flag value, every queue
index and every `(in-use, max size)` answer of the transport.  The element sizes come from
`Generated.Consts`, regenerated from the source on every run.
-/
namespace VirtioVerif.Props.C06
open VirtioVerif VirtioVerif.Layout

theorem pow2_shape (k : Nat) : 1 ≤ 2 ^ k ∧ (2 ^ k = 1 ∨ 2 ^ k % 2 = 0) := by
  induction k with
  | zero => simp
  | succ k ih => rw [Nat.pow_succ]; omega

/-- the size-dependent facts the proofs need from "power of two" -/
def SizeOk (n : Nat) : Prop := 1 ≤ n ∧ (n = 1 ∨ n % 2 = 0)

theorem sizeOk_pow2 (k : Nat) : SizeOk (2 ^ k) := pow2_shape k

/-- layout sizes as the specification gives them (virtio 1.x §2.7: 16·n, 6+2·n, 6+8·n) -/
theorem partSizes_spec (n : Nat) : partSizes n = (16 * n, 6 + 2 * n, 6 + 8 * n) := by
  simp only [partSizes, Generated.descSize, Generated.usedElemSize]
  refine Prod.ext ?_ (Prod.ext ?_ ?_) <;> simp <;> omega

/-- Refusal: queue in use ⇒ `AlreadyUsed`, and the only transport/HAL interaction was the query. -/
theorem refuse_in_use (c : Cfg) (h : c.inUse = true) :
    (newQueue c).events = [Ev.queueUsed c.idx] ∧ (newQueue c).result = .error .alreadyUsed := by
  simp [newQueue, h]

/-- Refusal: transport maximum smaller than requested ⇒ `InvalidParam`, nothing allocated or registered. -/
theorem refuse_too_small (c : Cfg) (h : c.inUse = false) (hm : c.maxSize < c.n) :
    (newQueue c).events = [Ev.queueUsed c.idx, Ev.maxSize c.idx]
      ∧ (newQueue c).result = .error .invalidParam := by
  simp [newQueue, h, hm]

/-- A refusal never contains an allocation or a registration (both refusal kinds at once). -/
theorem refusal_no_side_effect (c : Cfg) (h : c.inUse = true ∨ c.maxSize < c.n) :
    ∀ e ∈ (newQueue c).events, (∀ p d a o, e ≠ Ev.alloc p d a o) ∧ (∀ q s x y z, e ≠ Ev.queueSet q s x y z) := by
  intro e he
  by_cases hu : c.inUse = true
  · rw [(refuse_in_use c hu).1] at he; simp at he; subst he; simp
  · have hu' : c.inUse = false := by simpa using hu
    have hm : c.maxSize < c.n := by rcases h with h | h; exact absurd h hu; exact h
    rw [(refuse_too_small c hu' hm).1] at he; simp at he
    rcases he with he | he <;> subst he <;> simp

/-- What "correctly laid out" means for a plan, for a queue of size `n`. -/
structure PlanOk (n : Nat) (legacy : Bool) (p : Plan) : Prop where
  /-- each address names an allocated region -/
  desc_reg : p.desc.region < p.regions.length
  avail_reg : p.avail.region < p.regions.length
  used_reg : p.used.region < p.regions.length
  /-- alignment relative to a page-aligned region base: 16 / 2 / 4 -/
  desc_align : p.desc.off % 16 = 0
  avail_align : p.avail.off % 2 = 0
  used_align : p.used.off % 4 = 0
  /-- each area fits into its region -/
  desc_fits : ∀ pg d, p.regions[p.desc.region]? = some (pg, d) → p.desc.off + 16 * n ≤ pg * 4096
  avail_fits : ∀ pg d, p.regions[p.avail.region]? = some (pg, d) → p.avail.off + (6 + 2 * n) ≤ pg * 4096
  used_fits : ∀ pg d, p.regions[p.used.region]? = some (pg, d) → p.used.off + (6 + 8 * n) ≤ pg * 4096
  /-- areas are pairwise disjoint -/
  desc_avail : p.desc.region = p.avail.region → p.desc.off + 16 * n ≤ p.avail.off
  avail_used : p.avail.region = p.used.region → p.avail.off + (6 + 2 * n) ≤ p.used.off
  desc_used : p.desc.region = p.used.region → p.desc.off + 16 * n ≤ p.used.off
  /-- directions permit the device's accesses: it reads desc+avail, writes used -/
  desc_dir : ∀ pg d, p.regions[p.desc.region]? = some (pg, d) → d = .toDevice ∨ d = .both
  avail_dir : ∀ pg d, p.regions[p.avail.region]? = some (pg, d) → d = .toDevice ∨ d = .both
  used_dir : ∀ pg d, p.regions[p.used.region]? = some (pg, d) → d = .toDriver ∨ d = .both
  /-- legacy: one contiguous region, used ring on the next page boundary after the available ring,
      i.e. at the offset a legacy device computes: `ALIGN(16n + 6 + 2n, 4096)` -/
  legacy_one : legacy = true → p.regions.length = 1 ∧ p.desc.off = 0 ∧ p.avail.off = 16 * n
      ∧ p.used.off = (16 * n + (6 + 2 * n) + 4095) / 4096 * 4096
  /-- modern: device area in its own device-writable region; driver areas in a device-readable one -/
  modern_split : legacy = false → p.regions.map (·.2) = [.toDevice, .toDriver]


theorem legacyPlan_ok (n : Nat) (hs : SizeOk n) : PlanOk n true (legacyPlan n) := by
  obtain ⟨h1, h2⟩ := hs
  constructor <;>
    simp [legacyPlan, partSizes, alignUp, PAGE, Generated.pageSize, Generated.descSize,
      Generated.usedElemSize] <;> omega

theorem modernPlan_ok (n : Nat) (hs : SizeOk n) : PlanOk n false (modernPlan n) := by
  obtain ⟨h1, h2⟩ := hs
  constructor <;>
    simp [modernPlan, partSizes, pages, PAGE, Generated.pageSize, Generated.descSize,
      Generated.usedElemSize] <;> omega

theorem planFor_ok (legacy : Bool) (n : Nat) (hs : SizeOk n) : PlanOk n legacy (planFor legacy n) := by
  cases legacy
  · simpa [planFor] using modernPlan_ok n hs
  · simpa [planFor] using legacyPlan_ok n hs

/-- The three `Dma::vaddr` assertions of `VirtQueue::new` never fire. -/
theorem plan_vaddr_ok (legacy : Bool) (n : Nat) (hs : SizeOk n) : planVaddrOk (planFor legacy n) = true := by
  obtain ⟨h1, h2⟩ := hs
  cases legacy <;>
    simp [planFor, planVaddrOk, vaddrOk, regionPages, legacyPlan, modernPlan, partSizes, alignUp, pages,
      PAGE, Generated.pageSize, Generated.descSize, Generated.usedElemSize] <;> omega

/-- Admissible configuration: not in use, big enough. -/
def Admissible (c : Cfg) : Prop := c.inUse = false ∧ c.n ≤ c.maxSize

theorem allocEvs_nofail (ap : Bool) (rs : List (Nat × Dir)) (k : Nat) (hk : 0 < k) :
    allocEvs ap rs k 0 = (rs.map fun (pg, d) => Ev.alloc pg d ap true, true) := by
  induction rs generalizing k with
  | nil => rfl
  | cons r rs ih =>
    obtain ⟨pg, d⟩ := r
    have : ¬ (0 = k) := by omega
    simp [allocEvs, this, ih (k + 1) (by omega)]

/-- Success path: exactly the queries, one successful allocation per region of the plan, then one
    registration with the plan's addresses; the plan is well laid out. -/
theorem new_ok (c : Cfg) (hs : SizeOk c.n) (ha : Admissible c) (hf : c.failAt = 0) :
    (newQueue c).result = .ok (planFor c.legacy c.n)
      ∧ PlanOk c.n c.legacy (planFor c.legacy c.n)
      ∧ (newQueue c).events =
          [Ev.queueUsed c.idx, Ev.maxSize c.idx, Ev.legacyQ]
          ++ ((planFor c.legacy c.n).regions.map fun (pg, d) => Ev.alloc pg d c.ap true)
          ++ [Ev.queueSet c.idx c.n (planFor c.legacy c.n).desc (planFor c.legacy c.n).avail
                (planFor c.legacy c.n).used] := by
  obtain ⟨hu, hm⟩ := ha
  have hm' : ¬ c.maxSize < c.n := by omega
  have hv := plan_vaddr_ok c.legacy c.n hs
  simp [newQueue, hu, hm', hf, allocEvs_nofail, hv, planFor_ok c.legacy c.n hs]

/-- Release: dropping the queue returns each region exactly once, with the page count and
    access-platform flag it was allocated with, and nothing else. -/
theorem release_once (ap : Bool) (p : Plan) :
    dropQueue ap p = (List.range p.regions.length).map
      (fun i => Ev.dealloc i (regionPages p i) ap) := by
  simp only [dropQueue, deallocEvs, regionPages]
  apply List.ext_getElem
  · simp
  · intro i h1 h2
    simp at h1
    simp [List.getElem_zipIdx, List.getD_eq_getElem?_getD, List.getElem?_eq_getElem h1]

/-- Fault injection: the k-th allocation fails ⇒ `DmaError` (not a panic), every earlier region is
    released exactly once with its original page count, nothing is registered. -/
theorem fail_kth (c : Cfg) (hs : SizeOk c.n) (ha : Admissible c)
    (hk : 1 ≤ c.failAt ∧ c.failAt ≤ (planFor c.legacy c.n).regions.length) :
    (newQueue c).result = .error .dmaError
      ∧ (∀ e ∈ (newQueue c).events, ∀ q s x y z, e ≠ Ev.queueSet q s x y z)
      ∧ ((newQueue c).events.filter fun e => match e with | .dealloc .. => true | _ => false)
          = deallocEvs c.ap ((planFor c.legacy c.n).regions.take (c.failAt - 1)) := by
  obtain ⟨hu, hm⟩ := ha
  have hm' : ¬ c.maxSize < c.n := by omega
  cases hl : c.legacy <;> simp [hl, planFor, legacyPlan, modernPlan, partSizes] at hk
  · -- modern: two regions
    have : c.failAt = 1 ∨ c.failAt = 2 := by omega
    rcases this with h | h <;>
      simp [newQueue, hu, hm', hl, h, planFor, modernPlan, partSizes, allocEvs, allocatedBefore, deallocEvs]
  · have h : c.failAt = 1 := by omega
    simp [newQueue, hu, hm', hl, h, planFor, legacyPlan, partSizes, allocEvs, allocatedBefore, deallocEvs]

/-- The free-list links written by `VirtQueue::new` stay inside the table and end at the last entry. -/
theorem initNext_lt (n i : Nat) (hn : 0 < n) : initNext n i < n := by
  unfold initNext; split <;> omega

/-! ### Non-vacuity: concrete admissible configurations of both layouts -/

example : SizeOk 256 ∧ Admissible { n := 256, idx := 3, legacy := true, ap := true, inUse := false, maxSize := 1024, failAt := 0 } := by
  refine ⟨by unfold SizeOk; omega, by simp [Admissible]⟩

example : (newQueue { n := 256, idx := 3, legacy := true, ap := true, inUse := false, maxSize := 1024, failAt := 0 }).result
    = .ok { regions := [(3, .both)], desc := ⟨0, 0⟩, avail := ⟨0, 4096⟩, used := ⟨0, 8192⟩ } := by rfl

example : (newQueue { n := 256, idx := 3, legacy := false, ap := false, inUse := false, maxSize := 256, failAt := 2 }).events
    = [.queueUsed 3, .maxSize 3, .legacyQ, .alloc 2 .toDevice false true, .alloc 1 .toDriver false false,
       .dealloc 0 2 false] := by decide

end VirtioVerif.Props.C06
