import VirtioVerif.Model.Config
/-!
# C13 — config-space access is bounds-checked; multi-field reads are never torn

Part 1 (bounds): for every window (MMIO or PCI, present or not, any length), every type size and
alignment and every offset, `access` succeeds iff the access lies wholly inside the window (and the
type is at most 4-aligned and the offset aligned); on success the bus accesses tile exactly
`[off, off+size)`; every failure performs no access.

Part 2 (`read_consistent`): for every closure (decision tree of reads), every device schedule and
every starting time: if the loop returns `v` then `v` is the value of the closure on the
configuration exposed at one single instant — under the device contract stated as `Contract`
(generation is a counter modulo `M` that moves whenever the configuration changes, and fewer than
`M` changes happen inside one iteration).  The contract is shown satisfiable and necessary.
-/
namespace VirtioVerif.Props.C13
open VirtioVerif VirtioVerif.Config

/-! ## Part 1: bounds -/

/-- the transport has no configuration window at all: only a PCI device without a device-config
capability; an MMIO window may be empty but is never absent -/
def Absent (w : Win) : Prop := w.kind = .pci ∧ w.present = false

theorem usize_eq : USIZE = 2 ^ 64 := rfl

/-- a tactic-free normal form of `access`: the five tests in the order the code performs them -/
theorem access_cases (w : Win) (base align size off : Nat) :
    (4 < align ∧ access w base align size off = .panic)
    ∨ (¬ 4 < align ∧ off % align ≠ 0 ∧ access w base align size off = .panic)
    ∨ (¬ 4 < align ∧ off % align = 0 ∧ Absent w ∧ access w base align size off = .missing)
    ∨ (¬ 4 < align ∧ off % align = 0 ∧ ¬ Absent w ∧ 2 ^ 64 ≤ off + size
        ∧ access w base align size off = .panic)
    ∨ (¬ 4 < align ∧ off % align = 0 ∧ ¬ Absent w ∧ off + size < 2 ^ 64 ∧ w.len < off + size
        ∧ access w base align size off = .tooSmall)
    ∨ (¬ 4 < align ∧ off % align = 0 ∧ ¬ Absent w ∧ off + size < 2 ^ 64 ∧ off + size ≤ w.len
        ∧ access w base align size off = .ok (chunks base off size)) := by
  have hU := usize_eq
  unfold access Absent
  by_cases c1 : 4 < align
  · exact Or.inl ⟨c1, if_pos c1⟩
  · rw [if_neg c1]
    by_cases c2 : off % align ≠ 0
    · exact Or.inr (Or.inl ⟨c1, c2, if_pos c2⟩)
    · rw [if_neg c2]
      have c2' : off % align = 0 := by simpa using c2
      by_cases c3 : w.kind = .pci ∧ w.present = false
      · exact Or.inr (Or.inr (Or.inl ⟨c1, c2', c3, if_pos c3⟩))
      · rw [if_neg c3]
        by_cases c4 : USIZE ≤ off + size
        · exact Or.inr (Or.inr (Or.inr (Or.inl ⟨c1, c2', c3, by omega, if_pos c4⟩)))
        · rw [if_neg c4]
          by_cases c5 : w.len < off + size
          · exact Or.inr (Or.inr (Or.inr (Or.inr (Or.inl ⟨c1, c2', c3, by omega, c5, if_pos c5⟩))))
          · exact Or.inr (Or.inr (Or.inr (Or.inr (Or.inr ⟨c1, c2', c3, by omega, by omega, if_neg c5⟩))))

/-- **Bounds theorem.** success ⇔ type alignment ≤ 4 ∧ offset aligned ∧ window present ∧ the
access lies wholly inside the window (the sum does not even overflow `usize`) -/
theorem access_ok_iff (w : Win) (base align size off : Nat) :
    (∃ l, access w base align size off = .ok l) ↔
      (align ≤ 4 ∧ off % align = 0 ∧ ¬ Absent w ∧ off + size < 2 ^ 64 ∧ off + size ≤ w.len) := by
  rcases access_cases w base align size off with h | h | h | h | h | h
  all_goals constructor
  all_goals intro hx
  all_goals first
    | (obtain ⟨l, hl⟩ := hx; simp_all; done)
    | (exfalso; omega)
    | (exfalso; exact hx.2.2.1 h.2.2.1)
    | (exact ⟨_, h.2.2.2.2.2⟩)
    | (exact ⟨by omega, h.2.1, h.2.2.1, h.2.2.2.1, h.2.2.2.2.1⟩)

/-- on success the accesses are exactly the transport's split of `[off, off+size)` -/
theorem access_ok_chunks (w : Win) (base align size off : Nat) (l : List (Nat × Nat))
    (h : access w base align size off = .ok l) : l = chunks base off size := by
  rcases access_cases w base align size off with c | c | c | c | c | c
  all_goals first
    | (rw [c.2] at h; simp at h; done)
    | (rw [c.2.2] at h; simp at h; done)
    | (rw [c.2.2.2] at h; simp at h; done)
    | (rw [c.2.2.2.2] at h; simp at h; done)
    | (rw [c.2.2.2.2.2] at h; simp at h; try exact h.symm)

/-- `ConfigSpaceTooSmall` ⇔ the request is well-formed and a window is present but the access
does not fit into it -/
theorem access_tooSmall_iff (w : Win) (base align size off : Nat) :
    access w base align size off = .tooSmall ↔
      (align ≤ 4 ∧ off % align = 0 ∧ ¬ Absent w ∧ off + size < 2 ^ 64 ∧ w.len < off + size) := by
  rcases access_cases w base align size off with h | h | h | h | h | h
  all_goals constructor
  all_goals intro hx
  all_goals first
    | (simp_all; done)
    | (exfalso; omega)
    | (exfalso; exact hx.2.2.1 h.2.2.1)
    | (exact h.2.2.2.2.2)
    | (exact ⟨by omega, h.2.1, h.2.2.1, h.2.2.2.1, h.2.2.2.2.1⟩)

/-- `ConfigSpaceMissing` ⇔ well-formed request on a PCI transport without a device-config window;
an MMIO transport never reports it -/
theorem access_missing_iff (w : Win) (base align size off : Nat) :
    access w base align size off = .missing ↔ (align ≤ 4 ∧ off % align = 0 ∧ Absent w) := by
  rcases access_cases w base align size off with h | h | h | h | h | h
  all_goals constructor
  all_goals intro hx
  all_goals first
    | (simp_all; done)
    | (exfalso; omega)
    | (exfalso; exact h.2.2.1 hx.2.2)
    | (exact h.2.2.2.2)
    | (exact ⟨by omega, h.2.1, h.2.2.1⟩)

/-- panic ⇔ over-aligned type, misaligned offset, or (window present and) `off + size`
overflowing `usize` -/
theorem access_panic_iff (w : Win) (base align size off : Nat) :
    access w base align size off = .panic ↔
      (4 < align ∨ off % align ≠ 0 ∨ (¬ Absent w ∧ 2 ^ 64 ≤ off + size)) := by
  rcases access_cases w base align size off with h | h | h | h | h | h
  all_goals constructor
  all_goals intro hx
  all_goals first
    | (exact Or.inl h.1)
    | (exact h.2)
    | (exact Or.inr (Or.inl h.2.1))
    | (exact h.2.2)
    | (exact Or.inr (Or.inr ⟨h.2.2.1, h.2.2.2.1⟩))
    | (exact h.2.2.2.2)
    | (simp_all; done)
    | (exfalso; rcases hx with hx | hx | hx <;> first | omega | exact hx.1 h.2.2.1 | (have := h.2.1; contradiction))

/-- every failure (error or panic) happens before any bus access -/
theorem fail_no_access (w : Win) (base align size off : Nat)
    (h : ∀ l, access w base align size off ≠ .ok l) :
    (access w base align size off).accesses = [] := by
  cases hc : access w base align size off with
  | ok l => exact absurd hc (h l)
  | tooSmall => rfl
  | missing => rfl
  | panic => rfl

/-- `l` tiles `[off, off+n)`: consecutive, non-empty pieces of width 1, 2, 4 or 8 -/
inductive Tiles : Nat → Nat → List (Nat × Nat) → Prop
  | nil (off : Nat) : Tiles off 0 []
  | cons (off n w : Nat) (rest : List (Nat × Nat)) :
      (w = 1 ∨ w = 2 ∨ w = 4 ∨ w = 8) → w ≤ n → Tiles (off + w) (n - w) rest →
      Tiles off n ((off, w) :: rest)

theorem sliceChunks_tiles (fuel : Nat) : ∀ addr off n, n ≤ fuel → Tiles off n (sliceChunks fuel addr off n) := by
  induction fuel with
  | zero =>
    intro addr off n hn
    have : n = 0 := by omega
    subst this
    exact Tiles.nil off
  | succ fuel ih =>
    intro addr off n hn
    unfold sliceChunks
    split
    · exact Tiles.cons off n 8 _ (by simp) (by omega) (ih _ _ _ (by omega))
    · split
      · exact Tiles.cons off n 4 _ (by simp) (by omega) (ih _ _ _ (by omega))
      · split
        · exact Tiles.cons off n 2 _ (by simp) (by omega) (ih _ _ _ (by omega))
        · split
          · exact Tiles.cons off n 1 _ (by simp) (by omega) (ih _ _ _ (by omega))
          · have : n = 0 := by omega
            subst this
            exact Tiles.nil off

/-- the transport's split tiles the requested range, whatever the address alignment -/
theorem chunks_tiles (base off size : Nat) : Tiles off size (chunks base off size) := by
  unfold chunks
  split
  · rename_i h
    have := Tiles.cons off size size [] h (Nat.le_refl _)
    simp only [Nat.sub_self] at this
    exact this (Tiles.nil _)
  · exact sliceChunks_tiles size _ _ _ (Nat.le_refl _)

/-- the piece `c = (offset, width)` touches byte `b` -/
def covers (b : Nat) (c : Nat × Nat) : Bool := decide (c.1 ≤ b) && decide (b < c.1 + c.2)

/-- a tiling touches every byte of `[off, off+n)` exactly once and no other byte -/
theorem tiles_exact (off n : Nat) (l : List (Nat × Nat)) (h : Tiles off n l) (b : Nat) :
    (l.filter (covers b)).length = if off ≤ b ∧ b < off + n then 1 else 0 := by
  induction h with
  | nil off => simp
  | cons off n w rest hw hle _ ih =>
    simp only [List.filter_cons, covers]
    by_cases hb : off ≤ b ∧ b < off + w
    · have : (decide (off ≤ b) && decide (b < off + w)) = true := by simp [hb]
      simp only [this, if_true, List.length_cons]
      have e : ¬ (off + w ≤ b ∧ b < off + w + (n - w)) := by omega
      rw [ih, if_neg e, if_pos (by omega)]
    · have : (decide (off ≤ b) && decide (b < off + w)) = false := by
        simp only [Bool.and_eq_false_iff, decide_eq_false_iff_not]; omega
      simp only [this, Bool.false_eq_true, if_false]
      rw [ih]
      by_cases hc : off + w ≤ b ∧ b < off + w + (n - w)
      · rw [if_pos hc, if_pos (by omega)]
      · rw [if_neg hc, if_neg (by omega)]

/-- **Bounds theorem, success direction**: a successful access touches every byte of
`[off, off+size)` exactly once, touches nothing else, and stays inside the window. -/
theorem access_ok_exact (w : Win) (base align size off : Nat) (l : List (Nat × Nat))
    (h : access w base align size off = .ok l) (b : Nat) :
    (l.filter (covers b)).length = (if off ≤ b ∧ b < off + size then 1 else 0)
      ∧ (off ≤ b ∧ b < off + size → b < w.len) := by
  have hl := access_ok_chunks w base align size off l h
  have hok := (access_ok_iff w base align size off).mp ⟨l, h⟩
  subst hl
  exact ⟨tiles_exact off size _ (chunks_tiles base off size) b, by intro hb; have := hok.2.2.2.2; omega⟩

/-- every individual bus access of a successful config access lies inside the window -/
theorem tiles_within (off n : Nat) (l : List (Nat × Nat)) (h : Tiles off n l) :
    ∀ c ∈ l, off ≤ c.1 ∧ c.1 + c.2 ≤ off + n ∧ (c.2 = 1 ∨ c.2 = 2 ∨ c.2 = 4 ∨ c.2 = 8) := by
  induction h with
  | nil off => simp
  | cons off n w rest hw hle _ ih =>
    intro c hc
    simp only [List.mem_cons] at hc
    rcases hc with hc | hc
    · subst hc; exact ⟨Nat.le_refl _, by simp; omega, hw⟩
    · have := ih c hc
      omega

theorem access_ok_within (w : Win) (base align size off : Nat) (l : List (Nat × Nat))
    (h : access w base align size off = .ok l) :
    ∀ c ∈ l, off ≤ c.1 ∧ c.1 + c.2 ≤ off + size ∧ c.1 + c.2 ≤ w.len
      ∧ (c.2 = 1 ∨ c.2 = 2 ∨ c.2 = 4 ∨ c.2 = 8) := by
  have hl := access_ok_chunks w base align size off l h
  have hok := (access_ok_iff w base align size off).mp ⟨l, h⟩
  subst hl
  intro c hc
  have := tiles_within off size _ (chunks_tiles base off size) c hc
  omega

/-! ## Part 2: `read_consistent` -/

section consistent
variable {σ α : Type}

theorem run_time_mono (p : Prog σ α) (dev : Nat → DevState σ) : ∀ t, t ≤ (p.run dev t).2 := by
  induction p with
  | done a => intro t; exact Nat.le_refl _
  | read sel k ih =>
    intro t
    have := ih (sel (dev t).cfg) (t + 1)
    simp only [Prog.run]
    omega

/-- if the device exposes the same configuration `c` at every instant the closure reads, the
closure returns its value on `c` -/
theorem run_const (p : Prog σ α) (dev : Nat → DevState σ) (c : σ) :
    ∀ t, (∀ s, t ≤ s → s < (p.run dev t).2 → (dev s).cfg = c) → (p.run dev t).1 = p.eval c := by
  induction p with
  | done a => intro t _; rfl
  | read sel k ih =>
    intro t h
    simp only [Prog.run, Prog.eval] at h ⊢
    have ht : (dev t).cfg = c := h t (Nat.le_refl _) (by
      have := run_time_mono (k (sel (dev t).cfg)) dev (t + 1); omega)
    rw [ht] at h ⊢
    exact ih (sel c) (t + 1) (fun s hs hlt => h s (by omega) hlt)

/-- the instant of the closing generation read of the iteration that starts (with its opening
generation read) at `t` -/
def iterEnd (p : Prog σ α) (dev : Nat → DevState σ) (t : Nat) : Nat := (p.run dev (t + 1)).2

/-- **Device contract.** `cnt` is the device's true (unbounded) change counter:
it never decreases, it increases whenever the configuration changes, the generation register shows
it modulo `M` (`2^32` on MMIO, `2^8` on PCI), and fewer than `M` changes happen inside any single
iteration of the loop (so equal register values at both ends mean an equal counter). -/
structure Contract (M : Nat) (p : Prog σ α) (dev : Nat → DevState σ) (cnt : Nat → Nat) : Prop where
  mono : ∀ t, cnt t ≤ cnt (t + 1)
  bump : ∀ t, (dev t).cfg ≠ (dev (t + 1)).cfg → cnt t < cnt (t + 1)
  gen : ∀ t, (dev t).gen = cnt t % M
  rate : ∀ t, cnt (iterEnd p dev t) < cnt t + M

theorem cnt_mono {cnt : Nat → Nat} (h : ∀ t, cnt t ≤ cnt (t + 1)) : ∀ a b, a ≤ b → cnt a ≤ cnt b := by
  intro a b hab
  induction b with
  | zero => have : a = 0 := by omega
            subst this; exact Nat.le_refl _
  | succ b ih =>
    by_cases hb : a ≤ b
    · exact Nat.le_trans (ih hb) (h b)
    · have : a = b + 1 := by omega
      subst this; exact Nat.le_refl _

theorem eq_of_mod_eq_of_lt {a b M : Nat} (hab : a ≤ b) (hlt : b < a + M) (hm : a % M = b % M) : a = b := by
  have h0 : (b - a) % M = 0 := Nat.sub_mod_eq_zero_of_mod_eq hm.symm
  have h1 : (b - a) % M = b - a := Nat.mod_eq_of_lt (by omega)
  omega

/-- under the contract, equal generation values at both ends of an iteration mean the
configuration did not change in between -/
theorem contract_stable {M : Nat} {p : Prog σ α} {dev : Nat → DevState σ} {cnt : Nat → Nat}
    (hC : Contract M p dev cnt) (t : Nat) (hg : (dev t).gen = (dev (iterEnd p dev t)).gen) :
    ∀ s, t ≤ s → s ≤ iterEnd p dev t → (dev s).cfg = (dev t).cfg := by
  have hle : t ≤ iterEnd p dev t := by
    have := run_time_mono p dev (t + 1); unfold iterEnd; omega
  have hcnt : cnt t = cnt (iterEnd p dev t) := by
    apply eq_of_mod_eq_of_lt (cnt_mono hC.mono _ _ hle) (hC.rate t)
    rw [← hC.gen, ← hC.gen]; exact hg
  intro s
  induction s with
  | zero => intro h0 _; have : t = 0 := by omega
            subst this; rfl
  | succ s ih =>
    intro hts hse
    by_cases hs : t ≤ s
    · have hprev := ih hs (by omega)
      rw [← hprev]
      apply Classical.byContradiction
      intro hne
      have hb := hC.bump s (fun h => hne h.symm)
      have h1 := cnt_mono hC.mono t s hs
      have h2 := cnt_mono hC.mono (s + 1) (iterEnd p dev t) hse
      omega
    · have : t = s + 1 := by omega
      subst this; rfl

/-- **Untorn reads.** Whatever the closure, the schedule, the starting time and the number of
retries: if `read_consistent` returns `v`, then `v` is what the closure computes from the
configuration the device exposed at one single instant `s` (and the generation did not change
between `s` and the end of the read). -/
theorem read_consistent_untorn {M : Nat} (p : Prog σ α) (dev : Nat → DevState σ) (cnt : Nat → Nat)
    (hC : Contract M p dev cnt) :
    ∀ (fuel t : Nat) (v : α) (t' : Nat), readConsistent p dev fuel t = some (v, t') →
      ∃ s, t ≤ s ∧ s < t' ∧ v = p.eval (dev s).cfg ∧ (dev s).gen = (dev (t' - 1)).gen := by
  intro fuel
  induction fuel with
  | zero => intro t v t' h; simp [readConsistent] at h
  | succ fuel ih =>
    intro t v t' h
    simp only [readConsistent] at h
    have hle := run_time_mono p dev (t + 1)
    split at h
    · rename_i hg
      simp only [Option.some.injEq, Prod.mk.injEq] at h
      obtain ⟨hv, ht'⟩ := h
      have hst := contract_stable hC t hg
      refine ⟨t, Nat.le_refl _, by omega, ?_, ?_⟩
      · rw [← hv]
        exact run_const p dev _ (t + 1) (fun s h1 h2 => hst s (by omega) (by unfold iterEnd; omega))
      · rw [← ht']; simpa using hg
    · obtain ⟨s, h1, h2, h3, h4⟩ := ih _ v t' h
      exact ⟨s, by omega, h2, h3, h4⟩

end consistent

/-! ### the contract is satisfiable, and it is necessary -/

/-- a two-field configuration and the closure "read field 1, then field 2, return the pair" -/
def pairProg : Prog (Nat × Nat) (Nat × Nat) :=
  .read (·.1) fun a => .read (·.2) fun b => .done (a, b)

/-- a device that changes `(1,1)` to `(2,2)` between the two field reads of the first iteration and
bumps its generation, as the contract demands -/
def goodDev : Nat → DevState (Nat × Nat) := fun t => if t < 2 then ⟨(1, 1), 0⟩ else ⟨(2, 2), 1⟩
def goodCnt : Nat → Nat := fun t => if t < 2 then 0 else 1

/-- non-vacuity: the hypotheses of `read_consistent_untorn` hold for a device that really does
change its configuration in the middle of a read (MMIO width `M = 2^32`; likewise `2^8`) -/
theorem contract_satisfiable : Contract (2 ^ 32) pairProg goodDev goodCnt ∧ Contract (2 ^ 8) pairProg goodDev goodCnt := by
  have key : ∀ M, 2 ≤ M → Contract M pairProg goodDev goodCnt := by
    intro M hM
    refine ⟨?_, ?_, ?_, ?_⟩
    · intro t; simp only [goodCnt]; split <;> split <;> omega
    · intro t h; simp only [goodCnt, goodDev] at h ⊢
      split <;> split <;> simp_all <;> omega
    · intro t; simp only [goodDev, goodCnt]
      split
      · simp
      · simp; exact (Nat.mod_eq_of_lt (by omega)).symm
    · intro t; simp only [goodCnt]; split <;> split <;> omega
  exact ⟨key _ (by decide), key _ (by decide)⟩

/-- … and on that device the loop retries once and returns the untorn `(2,2)` -/
example : readConsistent pairProg goodDev 2 0 = some ((2, 2), 8) := by decide
/-- the first iteration did observe a torn pair -/
example : (pairProg.run goodDev 1).1 = (1, 2) := by decide

/-- a device that changes its configuration *without* changing the generation -/
def silentDev : Nat → DevState (Nat × Nat) := fun t => if t < 2 then ⟨(1, 1), 0⟩ else ⟨(2, 2), 0⟩

/-- necessity of "generation changes whenever configuration changes": without it the loop
returns a value the device never exposed -/
theorem torn_without_generation_change :
    readConsistent pairProg silentDev 1 0 = some ((1, 2), 4)
      ∧ ∀ s, (1, 2) ≠ pairProg.eval (silentDev s).cfg := by
  refine ⟨by decide, ?_⟩
  intro s
  simp only [silentDev, pairProg, Prog.eval]
  split <;> simp

/-- a PCI device (8-bit generation) whose counter moves by 256 between two reads: every clause of
the contract holds except the rate bound -/
def aliasDev : Nat → DevState (Nat × Nat) := fun t => if t < 2 then ⟨(1, 1), 0 % 256⟩ else ⟨(2, 2), 256 % 256⟩
def aliasCnt : Nat → Nat := fun t => if t < 2 then 0 else 256

/-- necessity of "fewer than `M` changes inside one iteration": with exactly `2^8` changes the
8-bit counter aliases and the loop returns a torn pair -/
theorem torn_when_counter_aliases :
    (∀ t, aliasCnt t ≤ aliasCnt (t + 1))
      ∧ (∀ t, (aliasDev t).cfg ≠ (aliasDev (t + 1)).cfg → aliasCnt t < aliasCnt (t + 1))
      ∧ (∀ t, (aliasDev t).gen = aliasCnt t % 2 ^ 8)
      ∧ readConsistent pairProg aliasDev 1 0 = some ((1, 2), 4)
      ∧ ∀ s, (1, 2) ≠ pairProg.eval (aliasDev s).cfg := by
  refine ⟨?_, ?_, ?_, by decide, ?_⟩
  · intro t; simp only [aliasCnt]; split <;> split <;> omega
  · intro t h; simp only [aliasCnt, aliasDev] at h ⊢
    split <;> split <;> simp_all <;> omega
  · intro t; simp only [aliasDev, aliasCnt]; split <;> rfl
  · intro s
    simp only [aliasDev, pairProg, Prog.eval]
    split <;> simp

/-! ### legacy MMIO: no generation mechanism, hence no untorn guarantee -/

/-- On a legacy MMIO device the transport's generation is the constant 0 (`legacyView`). As soon as
the configuration changes at all, **no** counter can make `Contract` hold — for any modulus and any
closure: the untorn clause of C13 is therefore claimed for modern MMIO and PCI only. -/
theorem legacy_contract_unsatisfiable {σ α : Type} (M : Nat) (p : Prog σ α) (dev : Nat → DevState σ)
    (cnt : Nat → Nat) (hchg : ∃ t, (dev t).cfg ≠ (dev (t + 1)).cfg) :
    ¬ Contract M p (legacyView dev) cnt := by
  intro hC
  obtain ⟨t, ht⟩ := hchg
  have hb := hC.bump t (by simpa [legacyView] using ht)
  have hg0 := hC.gen t
  have hg1 := hC.gen (t + 1)
  simp only [legacyView] at hg0 hg1
  have hend : t + 1 ≤ iterEnd p (legacyView dev) t := by
    unfold iterEnd; exact run_time_mono p (legacyView dev) (t + 1)
  have hm := cnt_mono hC.mono (t + 1) _ hend
  have hr := hC.rate t
  by_cases hlt : cnt (t + 1) < cnt t + M
  · have : cnt t = cnt (t + 1) :=
      eq_of_mod_eq_of_lt (Nat.le_of_lt hb) hlt (by rw [← hg0, ← hg1])
    omega
  · omega

/-- … and a torn value really is returned there: `goodDev` changes `(1,1)` to `(2,2)` and bumps its
generation as a modern device must, but through a legacy transport the loop sees generation 0
twice and returns `(1,2)`, which was never exposed. -/
theorem legacy_read_can_tear :
    readConsistent pairProg (legacyView goodDev) 1 0 = some ((1, 2), 4)
      ∧ ∀ s, (1, 2) ≠ pairProg.eval ((legacyView goodDev) s).cfg := by
  refine ⟨by decide, ?_⟩
  intro s
  simp only [legacyView, goodDev, pairProg, Prog.eval]
  split <;> simp

example (cnt : Nat → Nat) : ¬ Contract (2 ^ 32) pairProg (legacyView goodDev) cnt :=
  legacy_contract_unsatisfiable _ _ _ _ ⟨1, by decide⟩

/-! ### the scheduler device of the harness follows the contract -/

theorem filter_le_mono (l : List Nat) (t : Nat) :
    (l.filter (· ≤ t)).length ≤ (l.filter (· ≤ t + 1)).length := by
  induction l with
  | nil => simp
  | cons a l ih =>
    simp only [List.filter_cons]
    by_cases h1 : a ≤ t
    · have h2 : a ≤ t + 1 := by omega
      simp [h1, h2, ih]
    · by_cases h2 : a ≤ t + 1
      · simp [h1, h2]; omega
      · simp [h1, h2, ih]

/-- The executable device `Config.schedule` used by the correspondence runs (configuration `k` and
generation `gen0 + k` modulo `m` after `k` scheduled updates) satisfies `Contract` for every closure,
as long as fewer than `m` updates are scheduled: the theorem's hypotheses are exactly what the
harness' devices provide. -/
theorem schedule_contract {α : Type} (p : Prog Bytes α) (cfgs : List Bytes) (at_ : List Nat) (gen0 m : Nat)
    (hm : at_.length < m) :
    Contract m p (schedule cfgs at_ gen0 m) (fun t => gen0 + (at_.filter (· ≤ t)).length) := by
  refine ⟨?_, ?_, ?_, ?_⟩
  · intro t
    have := filter_le_mono at_ t
    show gen0 + _ ≤ gen0 + _
    omega
  · intro t h
    have hmono := filter_le_mono at_ t
    show gen0 + _ < gen0 + _
    apply Classical.byContradiction
    intro hn
    have heq : (at_.filter (· ≤ t)).length = (at_.filter (· ≤ t + 1)).length := by omega
    apply h
    simp only [schedule, heq]
  · intro t; rfl
  · intro t
    have h1 := List.length_filter_le (· ≤ iterEnd p (schedule cfgs at_ gen0 m) t) at_
    show gen0 + _ < gen0 + _ + m
    omega

/-- …and so does the cycling device used for update storms (any number of interrupted attempts in a
row: `read_consistent` keeps retrying, it has no retry budget after which it would return an
unvalidated read) -/
theorem scheduleCyc_contract {α : Type} (p : Prog Bytes α) (cfgs : List Bytes) (at_ : List Nat) (gen0 m : Nat)
    (hm : at_.length < m) :
    Contract m p (scheduleCyc cfgs at_ gen0 m) (fun t => gen0 + (at_.filter (· ≤ t)).length) := by
  refine ⟨?_, ?_, ?_, ?_⟩
  · intro t
    have := filter_le_mono at_ t
    show gen0 + _ ≤ gen0 + _
    omega
  · intro t h
    have hmono := filter_le_mono at_ t
    show gen0 + _ < gen0 + _
    apply Classical.byContradiction
    intro hn
    have heq : (at_.filter (· ≤ t)).length = (at_.filter (· ≤ t + 1)).length := by omega
    apply h
    simp only [scheduleCyc, heq]
  · intro t; rfl
  · intro t
    have h1 := List.length_filter_le (· ≤ iterEnd p (scheduleCyc cfgs at_ gen0 m) t) at_
    show gen0 + _ < gen0 + _ + m
    omega

/-! ### non-vacuity of the bounds part -/

example : access ⟨.mmio, true, 8⟩ 0 4 4 4 = .ok [(4, 4)] := by decide
example : access ⟨.mmio, true, 8⟩ 0 4 4 8 = .tooSmall := by decide
example : access ⟨.mmio, true, 7⟩ 0 4 4 4 = .tooSmall := by decide
example : access ⟨.mmio, true, 0⟩ 0 1 1 0 = .tooSmall := by decide
example : access ⟨.pci, false, 0⟩ 0 1 1 0 = .missing := by decide
example : access ⟨.pci, true, 8⟩ 0 4 4 2 = .panic := by decide
example : access ⟨.pci, true, 64⟩ 0 8 8 0 = .panic := by decide
example : access ⟨.mmio, true, 16⟩ 0 1 6 0 = .ok [(0, 4), (4, 2)] := by decide
example : access ⟨.mmio, true, 16⟩ 0 1 6 9 = .ok [(9, 1), (10, 2), (12, 2), (14, 1)] := by decide
example : access ⟨.mmio, true, 16⟩ 4 4 12 0 = .ok [(0, 4), (4, 8)] := by decide

end VirtioVerif.Props.C13
