import VirtioVerif.Lemmas.QueueReach
import VirtioVerif.Props.C04
import VirtioVerif.Props.C03
/-!
# C04, part B — over all histories: `unshare` gets what `share` returned; nothing leaks

The platform returns, for the k-th `share` call, the device address `shareAddr k` (a bouncing
platform: never the buffer's own address).  Share ids are handed out from a counter that only
grows, so the ids of different chains never coincide.
-/
namespace VirtioVerif.Props.C04Inv
open VirtioVerif VirtioVerif.Queue

/-- the `unshare` call that matches a `share` call: same buffer, same direction, and the device
address that `share` returned -/
def matching : HalEv → Option HalEv
  | .share k b w => some (.unshare (shareAddr k) b w)
  | .shareTable k len => some (.unshareTable (shareAddr k) len)
  | _ => none

theorem expectedUnshares_matches (s : Nat) (bufs : List (Buf × Bool)) : ∀ i,
    (expectedShares s i bufs).filterMap matching = expectedUnshares (s + i) bufs := by
  induction bufs with
  | nil => intro i; rfl
  | cons bw rest ih =>
    intro i
    obtain ⟨b, w⟩ := bw
    simp only [expectedShares, List.filterMap_cons, matching, expectedUnshares, ih (i + 1)]
    have : s + (i + 1) = s + i + 1 := by omega
    rw [this]

/-- **Unshare gets exactly what share returned.** For a chain submitted in state `q0` and consumed
later in any reachable state `q` in which it is still outstanding: the platform calls of the pop are
exactly the `matching` images of the platform calls of the add — same ranges, same directions, the
device addresses `share` returned — with the indirect table (if any) unshared first. -/
theorem unshare_matches_share (q0 q0' : Q) (ins outs : List Buf) (t : Nat) (evsAdd : List Ev)
    (hadd : q0.add ins outs = (q0', .token t, evsAdd))
    (q : Q) (h : Inv q) (c : Chain) (hc : c ∈ q.out) (hc0 : c ∈ q0'.out) (hnew : c ∉ q0.out)
    (hz : ∀ b ∈ ins ++ outs, b.len ≠ 0) (hready : q.canPop = true) (hid : q.usedElem.1 % U16 = c.head) :
    ∃ q' l evsPop, q.popUsed c.head c.ins c.outs = (q', .len l, evsPop)
      ∧ (hals evsPop).Perm ((hals evsAdd).filterMap matching) := by
  -- what the add emitted
  obtain ⟨q1, c', evs1, hb, hq, _, he, _, _⟩ := add_token_inv hadd
  have f : Frame q0 q1 := frame_buildChain _ _ _ _ hb
  obtain ⟨h1, _, hfs⟩ := buildChain_events _ _ _ _ _ _ hb
  have hcc : c = c' := by
    subst hq
    simp only [publish, f.out, List.mem_append, List.mem_singleton] at hc0
    rcases hc0 with hc0 | hc0
    · exact absurd hc0 hnew
    · exact hc0
  subst hcc
  have hio : c.ins = ins ∧ c.outs = outs := by
    obtain ⟨_, _, _, _, _, cc, hcc1, _, hcc3, hcc4⟩ := VirtioVerif.Props.C03.add_ok q0 q0' ins outs t evsAdd hadd
    subst hq
    simp only [publish, f.out] at hcc1
    have := List.append_cancel_left hcc1
    simp at this
    rw [this]
    exact ⟨hcc3, hcc4⟩
  -- what the pop emits
  obtain ⟨q1', evs, e, _, _, hh, _, _⟩ := recycle_inv q h c hc (by rw [hio.1, hio.2]; exact hz)
  refine ⟨(finishPop q1' c.head).1, q.usedElem.2, evs ++ (finishPop q1' c.head).2, ?_, ?_⟩
  · unfold Q.popUsed
    simp [hready, hid, e]
  · have hf : hals (finishPop q1' c.head).2 = [] := by
      unfold finishPop; dsimp only; split <;> simp
    subst he
    simp only [hals_append, hf, List.append_nil, hh, h1, publish, hals_cons_st, hals_nil, expectedPopHals]
    rw [hio.1, hio.2, hfs, List.filterMap_append, expectedUnshares_matches]
    simp only [Nat.add_zero]
    cases htab : c.table with
    | none => simp
    | some tid =>
      simp only [List.filterMap_cons, matching, List.filterMap_nil]
      exact List.perm_append_comm

/-- Share ids are fresh: a submission uses exactly the ids `[shareCtr, shareCtr + k)` for its
buffers (and `shareCtr + k` for an indirect table) and advances the counter past them, so no id —
hence no device address — is ever handed to two chains. -/
theorem share_ids_fresh (q q' : Q) (ins outs : List Buf) (t : Nat) (evs : List Ev) (h : Inv q)
    (hz : ∀ b ∈ ins ++ outs, b.len ≠ 0) (hadd : q.add ins outs = (q', .token t, evs)) :
    q.shareCtr + (ins.length + outs.length) ≤ q'.shareCtr := by
  obtain ⟨q1, c, evs1, hb, hq, _, _, hk, hr⟩ := add_token_inv hadd
  subst hq
  show _ ≤ q1.shareCtr
  simp only [addRefused, Bool.or_eq_false_iff, Bool.and_eq_false_iff, decide_eq_false_iff_not,
    Bool.not_eq_eq_eq_not, Bool.not_false] at hr
  obtain ⟨⟨r1, r2⟩, r3⟩ := hr
  unfold buildChain at hb
  split at hb
  · rename_i hc
    simp only [Bool.and_eq_true, decide_eq_true_eq] at hc
    obtain ⟨q3, c3, e3, e, _, _, _, _, _, _, _, _, hs⟩ := addIndirect_inv q q.out ins outs h hc.2 (by omega)
    rw [e] at hb
    simp only [Option.some.injEq, Prod.mk.injEq] at hb
    rw [← hb.1, hs]; omega
  · rename_i hc
    have hcap : q.numUsed + (ins.length + outs.length) ≤ q.n := by
      simp only [Bool.and_eq_true, decide_eq_true_eq, not_and, Nat.not_lt] at hc
      rcases r3 with r3 | r3
      · have hi : q.indirect = true := by simpa using r3
        have := hc hi
        omega
      · omega
    obtain ⟨q3, c3, e3, e, _, _, _, _, _, _, _, _, hs, _⟩ := addDirect_inv q q.out ins outs h (by omega) hz hcap
    rw [e] at hb
    simp only [Option.some.injEq, Prod.mk.injEq] at hb
    rw [← hb.1, hs]; omega

/-- Every device address in a device-visible descriptor of an outstanding chain was returned by
`share` for that chain (the device is only ever given addresses obtained from the platform). -/
theorem device_addresses_from_share (q : Q) (h : Inv q) (c : Chain) (hc : c ∈ q.out) (hdir : c.table = none) :
    EncOk q c.firstShare c.descs (tagBufs c.ins c.outs) := by
  have := h.chains c hc
  unfold ChainOk at this
  rw [hdir] at this
  exact this.2.2

end VirtioVerif.Props.C04Inv
