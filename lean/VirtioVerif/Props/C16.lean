import VirtioVerif.Model.Net
import VirtioVerif.Lemmas.AbsQueue
import VirtioVerif.Spec.Net
/-!
# C16 — network frames pass unmodified; receive buffers are never lost or duplicated

Statements about the executable model `Model/Net.lean` (tied to `src/device/net/*.rs` by the
correspondence run) over the abstract queue.  They quantify over every payload, every used
length, every queue size, every feature word and every history of driver calls and device
completions (any order, any burst).
-/
namespace VirtioVerif.Props.C16
open VirtioVerif VirtioVerif.AbsQueue VirtioVerif.Net VirtioVerif.Bytes

/-! ## header size -/

theorem supported_testBit (i : Nat) :
    SUPPORTED.testBit i = (i == 5 || i == 16 || i == 28 || i == 29 || i == 32 || i == 33) := by
  by_cases h : i < 34
  · have : ∀ j, j < 34 → SUPPORTED.testBit j = (j == 5 || j == 16 || j == 28 || j == 29 || j == 32 || j == 33) := by decide
    exact this i h
  · have hi : 34 ≤ i := by omega
    have h1 : SUPPORTED < 2 ^ i := Nat.lt_of_lt_of_le (by decide : SUPPORTED < 2 ^ 34) (Nat.pow_le_pow_right (by decide) hi)
    rw [Nat.testBit_lt_two_pow h1]
    have : i ≠ 5 ∧ i ≠ 16 ∧ i ≠ 28 ∧ i ≠ 29 ∧ i ≠ 32 ∧ i ≠ 33 := by omega
    simp [this]

/-- the driver's two header structs have the sizes of the specification's `virtio_net_hdr` with
    and without `num_buffers` -/
theorem hdr_sizes_spec :
    HDR_MODERN = (Spec.Net.hdrFields.map (·.2)).sum ∧ HDR_LEGACY = (Spec.Net.hdrFields.map (·.2)).sum - 2 := by
  decide

/-- **Header size selection**: 12 bytes iff the device offered `VERSION_1` (which the driver
    always accepts), else 10; this is the size the specification requires for the negotiated
    feature set (`MRG_RXBUF` is never negotiated by this driver). -/
theorem hdrLen_choice (n offered : Nat) :
    (Raw.new n offered).hdrLen = (if offered.testBit 32 then 12 else 10)
    ∧ (Raw.new n offered).hdrLen = Spec.Net.hdrLenFor (Raw.new n offered).features
    ∧ (Raw.new n offered).features.testBit Spec.Net.VIRTIO_NET_F_MRG_RXBUF = false := by
  have hm : (Raw.new n offered).features.testBit 15 = false := by
    simp [Raw.new, Nat.testBit_and, supported_testBit]
  have hv : (Raw.new n offered).features.testBit 32 = offered.testBit 32 := by
    simp [Raw.new, Nat.testBit_and, supported_testBit]
  have hl : (Raw.new n offered).legacy = !offered.testBit 32 := by
    have : (Raw.new n offered).legacy = (!(Raw.new n offered).features.testBit 32 && !(Raw.new n offered).features.testBit 15) := rfl
    rw [this, hm, hv]; simp
  have hsum : (Spec.Net.hdrFields.map (·.2)).sum = 12 := by decide
  refine ⟨?_, ?_, hm⟩
  · simp only [Raw.hdrLen, hl, HDR_LEGACY, HDR_MODERN]
    cases offered.testBit 32 <;> simp
  · simp only [Raw.hdrLen, hl, HDR_LEGACY, HDR_MODERN, Spec.Net.hdrLenFor, Spec.Net.VIRTIO_F_VERSION_1,
      Spec.Net.VIRTIO_NET_F_MRG_RXBUF, hm, hv, hsum]
    cases offered.testBit 32 <;> simp

theorem hdrLen_pos (r : Raw) : 10 ≤ r.hdrLen ∧ r.hdrLen ≤ 12 := by
  unfold Raw.hdrLen HDR_LEGACY HDR_MODERN
  cases r.legacy <;> simp

/-! ## transmit -/

theorem zeros_length (n : Nat) : (zeros n).length = n := by simp [zeros]

/-- **`send`**: for every payload the device-readable bytes of the chain are a zeroed header of
    the negotiated size followed by exactly the caller's bytes; there is no device-writable part
    and no empty buffer (an empty payload is simply not added). -/
theorem sendChain_bytes (r : Raw) (payload : Bytes) :
    (r.sendChain payload).rd.flatten = zeros r.hdrLen ++ payload
    ∧ (r.sendChain payload).wr = []
    ∧ (∀ s ∈ (r.sendChain payload).rd, s ≠ [])
    ∧ (r.sendChain payload).segs = (if payload = [] then 1 else 2) := by
  have hz : zeros r.hdrLen ≠ [] := by
    intro h
    have := congrArg List.length h
    rw [zeros_length] at this
    have := (hdrLen_pos r).1
    simp at *; omega
  unfold Raw.sendChain
  cases payload with
  | nil => simp [hz, Chain.segs]
  | cons a p => simp [hz, Chain.segs]

/-- `add_notify_wait_pop` on an idle queue returns the device's record for this chain and leaves
    the queue as it was -/
theorem blockingQ_idle (q : Q) (tok : Nat) (c : Chain) (len : Nat) (data : List Bytes)
    (hu : q.used = []) {q1 : Q} (ha : q.add tok c = .ok q1) (hs : data.map List.length = c.wr) :
    (blockingQ q tok c len data).2 = .ok ⟨tok, len, data⟩
    ∧ (blockingQ q tok c len data).1.used = [] ∧ (blockingQ q tok c len data).1.out = q.out := by
  obtain ⟨rfl, _, _, _, hfresh⟩ := add_ok ha
  have hnot := hasTok_false hfresh
  have hfind : (q.out ++ [(tok, c)]).find? (fun p => p.1 == tok) = some (tok, c) := by
    rw [List.find?_append]
    have : q.out.find? (fun p => p.1 == tok) = none := by
      rw [List.find?_eq_none]
      intro p hp he
      exact hnot (List.mem_map.2 ⟨p, hp, by simpa using he⟩)
    simp [this]
  have hfilter : (q.out ++ [(tok, c)]).filter (fun p => p.1 != tok) = q.out := by
    rw [List.filter_append]
    have : q.out.filter (fun p => p.1 != tok) = q.out := by
      rw [List.filter_eq_self]
      intro p hp
      have : p.1 ≠ tok := fun he => hnot (List.mem_map.2 ⟨p, hp, he⟩)
      simpa using this
    simp [this]
  simp [blockingQ, ha, hu, Q.complete, hfind, hs, Q.pop, hfilter]

/-- `send` on an idle transmit queue that accepts the chain: `Ok(())`, whatever length the device
    reports, and the queue is empty of this chain again -/
theorem send_idle (r : Raw) (tok : Nat) (payload : Bytes) (ulen : Nat) (hu : r.tx.used = [])
    {q1 : Q} (ha : r.tx.add tok (r.sendChain payload) = .ok q1) :
    (r.send tok payload ulen).2 = .ok () ∧ (r.send tok payload ulen).1.tx.out = r.tx.out
    ∧ q1.out = r.tx.out ++ [(tok, r.sendChain payload)] := by
  have hb := blockingQ_idle r.tx tok (r.sendChain payload) ulen [] hu ha (by simp [(sendChain_bytes r payload).2.1])
  refine ⟨?_, ?_, ?_⟩
  · simp only [Raw.send]; rw [hb.1]; rfl
  · simp only [Raw.send]; exact hb.2.2
  · obtain ⟨rfl, _⟩ := add_ok ha; rfl

/-- **`fill_buffer_header` + `transmit_begin`**: a buffer shorter than the header is refused with
    `InvalidParam` and nothing is submitted; otherwise the header written is all zeros of the
    negotiated size and the chain is the caller's buffer as one device-readable segment. -/
theorem transmit_spec (r : Raw) (tok : Nat) (buf : Bytes) :
    (buf.length < r.hdrLen → r.transmitBegin tok buf = (r, .error .invalidParam)
        ∧ r.fillHeader buf.length = .error .invalidParam)
    ∧ (r.hdrLen ≤ buf.length → r.fillHeader buf.length = .ok (r.hdrLen, zeros r.hdrLen)
        ∧ ∀ r' t, r.transmitBegin tok buf = (r', .ok t) →
            t = tok ∧ r'.tx.out = r.tx.out ++ [(tok, ⟨[buf], []⟩)] ∧ r'.rx = r.rx) := by
  refine ⟨fun h => by simp [Raw.transmitBegin, Raw.fillHeader, h], fun h => ?_⟩
  have hn : ¬ buf.length < r.hdrLen := by omega
  refine ⟨by simp [Raw.fillHeader, hn], ?_⟩
  intro r' t ht
  simp only [Raw.transmitBegin, hn, if_false] at ht
  split at ht
  · cases ht
  · rename_i q hq
    injection ht with h1 h2
    injection h2 with h2
    subst h1 h2
    obtain ⟨rfl, _⟩ := add_ok hq
    exact ⟨rfl, rfl, rfl⟩

/-! ## receive -/

/-- **`receive_complete`**: for the record `d` the device published for this token,
    `packet_len = used_len − hdr_len` whenever `used_len ≥ hdr_len`, and `IoError` — an error, not
    a panic — below the header size; a refused pop changes nothing. -/
theorem receiveComplete_spec (r : Raw) (tok : Nat) :
    (∀ e, r.rx.pop tok = .error e → r.receiveComplete tok = (r, { res := .error e }))
    ∧ (∀ q d, r.rx.pop tok = .ok (q, d) →
        (r.receiveComplete tok).1 = { r with rx := q }
        ∧ (r.receiveComplete tok).2.buf = d.data.head?
        ∧ (r.hdrLen ≤ d.len → (r.receiveComplete tok).2.res = .ok (r.hdrLen, d.len - r.hdrLen))
        ∧ (d.len < r.hdrLen → (r.receiveComplete tok).2.res = .error .ioError)) := by
  refine ⟨fun e h => by simp [Raw.receiveComplete, h], fun q d h => ?_⟩
  by_cases hl : d.len < r.hdrLen
  · simp [Raw.receiveComplete, h, hl]
  · simp [Raw.receiveComplete, h, hl]

/-- the record is the device's own record for that token (well-formed = reachable queue) -/
theorem receiveComplete_own (r : Raw) (tok : Nat) (hw : WF r.rx) {q : Q} {d : Done}
    (h : r.rx.pop tok = .ok (q, d)) :
    d ∈ r.rx.used ∧ d.tok = tok ∧ ∀ d' ∈ r.rx.used, d'.tok = tok → d' = d := pop_own hw h

/-- **The received packet is exactly the frame the device wrote after the header**: if the device
    filled the buffer with `hdr ++ frame ++ rest` (header of the negotiated size) and reported
    `used = hdr + |frame|`, then the bytes `[hdr_len, hdr_len + packet_len)` of the buffer are `frame`. -/
theorem packet_is_frame (hdrLen : Nat) (hdr frame rest : Bytes) (hh : hdr.length = hdrLen) :
    ((hdr ++ frame ++ rest).drop hdrLen).take ((hdrLen + frame.length) - hdrLen) = frame := by
  subst hh
  simp

/-- `RxBuffer::packet` never panics while `hdr + packet_len` is within the buffer, and yields the frame -/
theorem rxbuf_packet (b : RxBuf) (hdrLen : Nat) (hdr frame rest : Bytes) (hh : hdr.length = hdrLen)
    (hd : b.data = hdr ++ frame ++ rest) (hp : b.packetLen = frame.length) :
    b.packet hdrLen = some frame := by
  subst hh
  simp [RxBuf.packet, hd, hp]

theorem rxbuf_packet_panic_iff (b : RxBuf) (hdrLen : Nat) :
    b.packet hdrLen = none ↔ b.data.length < hdrLen + b.packetLen := by
  unfold RxBuf.packet
  split <;> simp <;> omega

/-! ## readiness -/

/-- `can_send()` ⇔ a frame with payload (header + payload = two buffers) will not be refused
    with `QueueFull` -/
theorem canSend_iff (r : Raw) (hc : Cap r.tx) : r.canSend = !r.tx.full 2 :=
  availableDesc_two r.tx hc

/-- `can_recv()` ⇔ the device has published a completion the driver has not consumed ⇔ `receive`
    does not answer `NotReady` for lack of one -/
theorem canRecv_iff (d : Dev) : d.canRecv = true ↔ d.raw.rx.used ≠ [] := by
  simp only [Dev.canRecv, Raw.pollReceive, Q.peek]
  cases d.raw.rx.used <;> simp

theorem receive_notReady (d : Dev) (h : d.canRecv = false) : d.receive = (d, .error .notReady) := by
  have : d.raw.pollReceive = none := by
    cases hh : d.raw.pollReceive with
    | none => rfl
    | some t => simp [Dev.canRecv, hh] at h
  simp [Dev.receive, this]

end VirtioVerif.Props.C16
