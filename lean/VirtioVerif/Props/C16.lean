import VirtioVerif.Model.Net
import VirtioVerif.Lemmas.AbsQueue
import VirtioVerif.Spec.Net
/-!
# C16 — network frames pass unmodified; receive buffers are never lost or duplicated

Statements about the executable model `Model/Net.lean` (tied to `src/device/net/*.rs` by the
correspondence run) over the abstract queue.  They quantify over every payload, every used
length, every queue size, every feature word and every history of driver calls and device
completions (any order, any burst).
-/
namespace VirtioVerif.Props.C16
open VirtioVerif VirtioVerif.AbsQueue VirtioVerif.Net VirtioVerif.Bytes

/-! ## header size -/

theorem supported_testBit (i : Nat) :
    SUPPORTED.testBit i = (i == 5 || i == 16 || i == 28 || i == 29 || i == 32 || i == 33) := by
  by_cases h : i < 34
  · have : ∀ j, j < 34 → SUPPORTED.testBit j = (j == 5 || j == 16 || j == 28 || j == 29 || j == 32 || j == 33) := by decide
    exact this i h
  · have hi : 34 ≤ i := by omega
    have h1 : SUPPORTED < 2 ^ i := Nat.lt_of_lt_of_le (by decide : SUPPORTED < 2 ^ 34) (Nat.pow_le_pow_right (by decide) hi)
    rw [Nat.testBit_lt_two_pow h1]
    have : i ≠ 5 ∧ i ≠ 16 ∧ i ≠ 28 ∧ i ≠ 29 ∧ i ≠ 32 ∧ i ≠ 33 := by omega
    simp [this]

/-- the driver's two header structs have the sizes of the specification's `virtio_net_hdr` with
    and without `num_buffers` -/
theorem hdr_sizes_spec :
    HDR_MODERN = (Spec.Net.hdrFields.map (·.2)).sum ∧ HDR_LEGACY = (Spec.Net.hdrFields.map (·.2)).sum - 2 := by
  decide

/-- **Header size selection**: 12 bytes iff the device offered `VERSION_1` (which the driver
    always accepts), else 10; this is the size the specification requires for the negotiated
    feature set (`MRG_RXBUF` is never negotiated by this driver). -/
theorem hdrLen_choice (n offered : Nat) :
    (Raw.new n offered).hdrLen = (if offered.testBit 32 then 12 else 10)
    ∧ (Raw.new n offered).hdrLen = Spec.Net.hdrLenFor (Raw.new n offered).features
    ∧ (Raw.new n offered).features.testBit Spec.Net.VIRTIO_NET_F_MRG_RXBUF = false := by
  have hm : (Raw.new n offered).features.testBit 15 = false := by
    simp [Raw.new, Nat.testBit_and, supported_testBit]
  have hv : (Raw.new n offered).features.testBit 32 = offered.testBit 32 := by
    simp [Raw.new, Nat.testBit_and, supported_testBit]
  have hl : (Raw.new n offered).legacy = !offered.testBit 32 := by
    have : (Raw.new n offered).legacy = (!(Raw.new n offered).features.testBit 32 && !(Raw.new n offered).features.testBit 15) := rfl
    rw [this, hm, hv]; simp
  have hsum : (Spec.Net.hdrFields.map (·.2)).sum = 12 := by decide
  refine ⟨?_, ?_, hm⟩
  · simp only [Raw.hdrLen, hl, HDR_LEGACY, HDR_MODERN]
    cases offered.testBit 32 <;> simp
  · simp only [Raw.hdrLen, hl, HDR_LEGACY, HDR_MODERN, Spec.Net.hdrLenFor, Spec.Net.VIRTIO_F_VERSION_1,
      Spec.Net.VIRTIO_NET_F_MRG_RXBUF, hm, hv, hsum]
    cases offered.testBit 32 <;> simp

theorem hdrLen_pos (r : Raw) : 10 ≤ r.hdrLen ∧ r.hdrLen ≤ 12 := by
  unfold Raw.hdrLen HDR_LEGACY HDR_MODERN
  cases r.legacy <;> simp

/-! ## transmit -/

theorem zeros_length (n : Nat) : (zeros n).length = n := by simp [zeros]

/-- **`send`**: for every payload the device-readable bytes of the chain are a zeroed header of
    the negotiated size followed by exactly the caller's bytes; there is no device-writable part
    and no empty buffer (an empty payload is simply not added). -/
theorem sendChain_bytes (r : Raw) (payload : Bytes) :
    (r.sendChain payload).rd.flatten = zeros r.hdrLen ++ payload
    ∧ (r.sendChain payload).wr = []
    ∧ (∀ s ∈ (r.sendChain payload).rd, s ≠ [])
    ∧ (r.sendChain payload).segs = (if payload = [] then 1 else 2) := by
  have hz : zeros r.hdrLen ≠ [] := by
    intro h
    have := congrArg List.length h
    rw [zeros_length] at this
    have := (hdrLen_pos r).1
    simp at *; omega
  unfold Raw.sendChain
  cases payload with
  | nil => simp [hz, Chain.segs]
  | cons a p => simp [hz, Chain.segs]

/-- `add_notify_wait_pop` on an idle queue returns the device's record for this chain and leaves
    the queue as it was -/
theorem blockingQ_idle (q : Q) (tok : Nat) (c : Chain) (len : Nat) (data : List Bytes)
    (hu : q.used = []) {q1 : Q} (ha : q.add tok c = .ok q1) (hs : data.map List.length = c.wr) :
    (blockingQ q tok c len data).2 = .ok ⟨tok, len, data⟩
    ∧ (blockingQ q tok c len data).1.used = [] ∧ (blockingQ q tok c len data).1.out = q.out := by
  obtain ⟨rfl, _, _, _, hfresh⟩ := add_ok ha
  have hnot := hasTok_false hfresh
  have hfind : (q.out ++ [(tok, c)]).find? (fun p => p.1 == tok) = some (tok, c) := by
    rw [List.find?_append]
    have : q.out.find? (fun p => p.1 == tok) = none := by
      rw [List.find?_eq_none]
      intro p hp he
      exact hnot (List.mem_map.2 ⟨p, hp, by simpa using he⟩)
    simp [this]
  have hfilter : (q.out ++ [(tok, c)]).filter (fun p => p.1 != tok) = q.out := by
    rw [List.filter_append]
    have : q.out.filter (fun p => p.1 != tok) = q.out := by
      rw [List.filter_eq_self]
      intro p hp
      have : p.1 ≠ tok := fun he => hnot (List.mem_map.2 ⟨p, hp, he⟩)
      simpa using this
    simp [this]
  simp [blockingQ, ha, hu, Q.complete, hfind, hs, Q.pop, hfilter]

/-- `send` on an idle transmit queue that accepts the chain: `Ok(())`, whatever length the device
    reports, and the queue is empty of this chain again -/
theorem send_idle (r : Raw) (tok : Nat) (payload : Bytes) (ulen : Nat) (hu : r.tx.used = [])
    {q1 : Q} (ha : r.tx.add tok (r.sendChain payload) = .ok q1) :
    (r.send tok payload ulen).2 = .ok () ∧ (r.send tok payload ulen).1.tx.out = r.tx.out
    ∧ q1.out = r.tx.out ++ [(tok, r.sendChain payload)] := by
  have hb := blockingQ_idle r.tx tok (r.sendChain payload) ulen [] hu ha (by simp [(sendChain_bytes r payload).2.1])
  refine ⟨?_, ?_, ?_⟩
  · simp only [Raw.send]; rw [hb.1]; rfl
  · simp only [Raw.send]; exact hb.2.2
  · obtain ⟨rfl, _⟩ := add_ok ha; rfl

/-- **`fill_buffer_header` + `transmit_begin`**: a buffer shorter than the header is refused with
    `InvalidParam` and nothing is submitted; otherwise the header written is all zeros of the
    negotiated size and the chain is the caller's buffer as one device-readable segment. -/
theorem transmit_spec (r : Raw) (tok : Nat) (buf : Bytes) :
    (buf.length < r.hdrLen → r.transmitBegin tok buf = (r, .error .invalidParam)
        ∧ r.fillHeader buf.length = .error .invalidParam)
    ∧ (r.hdrLen ≤ buf.length → r.fillHeader buf.length = .ok (r.hdrLen, zeros r.hdrLen)
        ∧ ∀ r' t, r.transmitBegin tok buf = (r', .ok t) →
            t = tok ∧ r'.tx.out = r.tx.out ++ [(tok, ⟨[buf], []⟩)] ∧ r'.rx = r.rx) := by
  refine ⟨fun h => by simp [Raw.transmitBegin, Raw.fillHeader, h], fun h => ?_⟩
  have hn : ¬ buf.length < r.hdrLen := by omega
  refine ⟨by simp [Raw.fillHeader, hn], ?_⟩
  intro r' t ht
  simp only [Raw.transmitBegin, hn, if_false] at ht
  split at ht
  · cases ht
  · rename_i q hq
    injection ht with h1 h2
    injection h2 with h2
    subst h1 h2
    obtain ⟨rfl, _⟩ := add_ok hq
    exact ⟨rfl, rfl, rfl⟩

/-! ## receive -/

/-- **`receive_complete`**: for the record `d` the device published for this token,
    `packet_len = used_len − hdr_len` whenever `used_len ≥ hdr_len`, and `IoError` — an error, not
    a panic — below the header size; a refused pop changes nothing. -/
theorem receiveComplete_spec (r : Raw) (tok : Nat) :
    (∀ e, r.rx.pop tok = .error e → r.receiveComplete tok = (r, { res := .error e }))
    ∧ (∀ q d, r.rx.pop tok = .ok (q, d) →
        (r.receiveComplete tok).1 = { r with rx := q }
        ∧ (r.receiveComplete tok).2.buf = d.data.head?
        ∧ (r.hdrLen ≤ d.len → (r.receiveComplete tok).2.res = .ok (r.hdrLen, d.len - r.hdrLen))
        ∧ (d.len < r.hdrLen → (r.receiveComplete tok).2.res = .error .ioError)) := by
  refine ⟨fun e h => by simp [Raw.receiveComplete, h], fun q d h => ?_⟩
  by_cases hl : d.len < r.hdrLen
  · simp [Raw.receiveComplete, h, hl]
  · simp [Raw.receiveComplete, h, hl]

/-- the record is the device's own record for that token (well-formed = reachable queue) -/
theorem receiveComplete_own (r : Raw) (tok : Nat) (hw : WF r.rx) {q : Q} {d : Done}
    (h : r.rx.pop tok = .ok (q, d)) :
    d ∈ r.rx.used ∧ d.tok = tok ∧ ∀ d' ∈ r.rx.used, d'.tok = tok → d' = d := pop_own hw h

/-- **The received packet is exactly the frame the device wrote after the header**: if the device
    filled the buffer with `hdr ++ frame ++ rest` (header of the negotiated size) and reported
    `used = hdr + |frame|`, then the bytes `[hdr_len, hdr_len + packet_len)` of the buffer are `frame`. -/
theorem packet_is_frame (hdrLen : Nat) (hdr frame rest : Bytes) (hh : hdr.length = hdrLen) :
    ((hdr ++ frame ++ rest).drop hdrLen).take ((hdrLen + frame.length) - hdrLen) = frame := by
  subst hh
  simp

/-- `RxBuffer::packet` never panics while `hdr + packet_len` is within the buffer, and yields the frame -/
theorem rxbuf_packet (b : RxBuf) (hdrLen : Nat) (hdr frame rest : Bytes) (hh : hdr.length = hdrLen)
    (hd : b.data = hdr ++ frame ++ rest) (hp : b.packetLen = frame.length) :
    b.packet hdrLen = some frame := by
  subst hh
  simp [RxBuf.packet, hd, hp]

theorem rxbuf_packet_panic_iff (b : RxBuf) (hdrLen : Nat) :
    b.packet hdrLen = none ↔ b.data.length < hdrLen + b.packetLen := by
  unfold RxBuf.packet
  split <;> simp <;> omega

/-! ## readiness -/

/-- `can_send()` ⇔ a frame with payload (header + payload = two buffers) will not be refused
    with `QueueFull` -/
theorem canSend_iff (r : Raw) (hc : Cap r.tx) : r.canSend = !r.tx.full 2 :=
  availableDesc_two r.tx hc

/-- `can_recv()` ⇔ the device has published a completion the driver has not consumed ⇔ `receive`
    does not answer `NotReady` for lack of one -/
theorem canRecv_iff (d : Dev) : d.canRecv = true ↔ d.raw.rx.used ≠ [] := by
  simp only [Dev.canRecv, Raw.pollReceive, Q.peek]
  cases d.raw.rx.used <;> simp

theorem receive_notReady (d : Dev) (h : d.canRecv = false) : d.receive = (d, .error .notReady) := by
  have : d.raw.pollReceive = none := by
    cases hh : d.raw.pollReceive with
    | none => rfl
    | some t => simp [Dev.canRecv, hh] at h
  simp [Dev.receive, this]

/-! ## `VirtIONet`: where the receive buffers are -/

def postedCount (l : List (Option RxBuf)) : Nat := (l.filter Option.isSome).length

theorem posted_set_none (l : List (Option RxBuf)) (t : Nat) (b : RxBuf) (h : l[t]? = some (some b)) :
    postedCount (l.set t none) + 1 = postedCount l := by
  induction l generalizing t with
  | nil => simp at h
  | cons a l ih =>
    cases t with
    | zero => simp at h; subst h; simp [postedCount]
    | succ t =>
      simp only [List.getElem?_cons_succ] at h
      have := ih t h
      cases a <;> simp [postedCount, List.filter_cons] at this ⊢ <;> omega

theorem posted_set_some (l : List (Option RxBuf)) (t : Nat) (b : RxBuf) (h : l[t]? = some none) :
    postedCount (l.set t (some b)) = postedCount l + 1 := by
  induction l generalizing t with
  | nil => simp at h
  | cons a l ih =>
    cases t with
    | zero => simp at h; subst h; simp [postedCount]
    | succ t =>
      simp only [List.getElem?_cons_succ] at h
      have := ih t h
      cases a <;> simp [postedCount, List.filter_cons] at this ⊢ <;> omega

theorem filter_ne_length (l : List (Nat × Chain)) (t : Nat) (c : Chain) (hn : (l.map (·.1)).Nodup)
    (hm : (t, c) ∈ l) : (l.filter (fun p => p.1 != t)).length + 1 = l.length := by
  induction l with
  | nil => cases hm
  | cons p l ih =>
    simp only [List.map_cons, List.nodup_cons] at hn
    by_cases hp : p.1 = t
    · have hrest : l.filter (fun q => q.1 != t) = l := by
        rw [List.filter_eq_self]
        intro q hq
        have : q.1 ≠ t := by
          intro he
          exact hn.1 (List.mem_map.2 ⟨q, hq, by rw [he, hp]⟩)
        simpa using this
      simp [List.filter_cons, hp, hrest]
    · have hm' : (t, c) ∈ l := by
        rcases List.mem_cons.1 hm with e | m
        · exact absurd (by rw [← e]) hp
        · exact m
      have := ih hn.2 hm'
      have hb : (p.1 != t) = true := by simpa using hp
      simp [List.filter_cons, hb]; omega

theorem numUsed_eq_length (q : Q) (h : ∀ p ∈ q.out, p.2.segs = 1) : q.numUsed = q.out.length := by
  unfold Q.numUsed
  generalize q.out = l at h
  induction l with
  | nil => rfl
  | cons p l ih =>
    have h1 : cost q.indirect p.2 = 1 := by
      have := h p (by simp)
      simp [cost, this]
    simp only [List.map_cons, List.sum_cons, List.length_cons, h1]
    rw [ih (fun p' hp' => h p' (List.mem_cons_of_mem _ hp'))]; omega

/-- The invariant of `VirtIONet`: `rx_buffers[t]` holds a buffer exactly when token `t` is
    outstanding in the receive queue, that buffer carries `idx = t` and is the one the chain was
    built from; every one of the `QUEUE_SIZE` buffers is posted, with the caller, or dropped. -/
structure Inv (d : Dev) : Prop where
  wf : WF d.raw.rx
  len : d.rxBuffers.length = d.raw.rx.size
  slotOut : ∀ t b, d.rxBuffers[t]? = some (some b) →
    b.idx = t ∧ MIN_BUFFER_LEN ≤ b.len ∧ (t, (⟨[], [b.len]⟩ : Chain)) ∈ d.raw.rx.out
  outSlot : ∀ p ∈ d.raw.rx.out, ∃ b, d.rxBuffers[p.1]? = some (some b)
  outOne : ∀ p ∈ d.raw.rx.out, p.2.segs = 1
  outLen : d.raw.rx.out.length = postedCount d.rxBuffers
  count : postedCount d.rxBuffers + d.held.length + d.lost = d.raw.rx.size
  heldLen : ∀ b ∈ d.held, MIN_BUFFER_LEN ≤ b.len

theorem posted_eq (d : Dev) : d.posted = postedCount d.rxBuffers := rfl

/-- device completions on the receive queue (any order, any burst) preserve the invariant -/
theorem inv_devRx (d d' : Dev) (dn : Done) (hi : Inv d) (h : d.devRx dn = some d') : Inv d' := by
  simp only [Dev.devRx, Option.map_eq_some_iff] at h
  obtain ⟨q, hq, rfl⟩ := h
  obtain ⟨rfl, _, _⟩ := complete_some hq
  exact ⟨wf_complete hi.wf hq, hi.len, hi.slotOut, hi.outSlot, hi.outOne, hi.outLen, hi.count, hi.heldLen⟩

theorem send_rx (r : Raw) (tok : Nat) (p : Bytes) (u : Nat) : (r.send tok p u).1.rx = r.rx := rfl

/-- transmitting does not touch the receive side -/
theorem inv_send (d : Dev) (tok : Nat) (p : Bytes) (u : Nat) (hi : Inv d) : Inv (d.send tok p u).1 :=
  ⟨hi.wf, hi.len, hi.slotOut, hi.outSlot, hi.outOne, hi.outLen, hi.count, hi.heldLen⟩

/-- what `receive` finds when a completion is pending, in a state satisfying the invariant:
    the slot of the head token holds a buffer with that `idx`, and the pop succeeds -/
theorem receive_head (d : Dev) (hi : Inv d) (d0 : Done) (rest : List Done) (hu : d.raw.rx.used = d0 :: rest) :
    d.raw.pollReceive = some d0.tok
    ∧ ∃ b, d.rxBuffers[d0.tok]? = some (some b) ∧ b.idx = d0.tok ∧ MIN_BUFFER_LEN ≤ b.len
      ∧ (d0.tok, (⟨[], [b.len]⟩ : Chain)) ∈ d.raw.rx.out := by
  refine ⟨by simp [Raw.pollReceive, Q.peek, hu], ?_⟩
  obtain ⟨c, hc, _⟩ := hi.wf.usedOut d0 (by rw [hu]; simp)
  obtain ⟨b, hb⟩ := hi.outSlot _ hc
  obtain ⟨h1, h2, h3⟩ := hi.slotOut _ _ hb
  exact ⟨b, hb, h1, h2, h3⟩

/-- **`receive` preserves the invariant**, and tells exactly what happens: with nothing completed
    `NotReady` and no change; otherwise the buffer posted under the head token leaves `rx_buffers`
    and goes to the caller — or is dropped, which happens only if the device reported a used
    length below the header size. -/
theorem inv_receive (d : Dev) (hi : Inv d) :
    Inv d.receive.1
    ∧ (d.raw.rx.used = [] → d.receive = (d, .error .notReady))
    ∧ (∀ d0 rest, d.raw.rx.used = d0 :: rest →
        (d.raw.hdrLen ≤ d0.len →
          d.receive.1.lost = d.lost ∧ d.receive.1.held.length = d.held.length + 1
          ∧ ∃ b, d.receive.2 = .ok b ∧ b.idx = d0.tok ∧ b.packetLen = d0.len - d.raw.hdrLen
              ∧ d.rxBuffers[d0.tok]? = some (some { b with packetLen := (d.rxBuffers[d0.tok]?.bind id).elim 0 (·.packetLen),
                                                           data := (d.rxBuffers[d0.tok]?.bind id).elim [] (·.data) })
              ∧ b.data = d0.data.head?.getD ((d.rxBuffers[d0.tok]?.bind id).elim [] (·.data)))
        ∧ (d0.len < d.raw.hdrLen →
          d.receive.2 = .error .ioError ∧ d.receive.1.lost = d.lost + 1 ∧ d.receive.1.held = d.held)) := by
  cases hu : d.raw.rx.used with
  | nil =>
    have hp : d.raw.pollReceive = none := by simp [Raw.pollReceive, Q.peek, hu]
    have hr : d.receive = (d, .error .notReady) := by simp [Dev.receive, hp]
    refine ⟨by rw [hr]; exact hi, fun _ => hr, fun d0 rest h => by cases h⟩
  | cons d0 rest =>
    obtain ⟨hp, b, hb, hidx, hmin, hout⟩ := receive_head d hi d0 rest hu
    have hpop := pop_head hu
    have hne : ¬ d0.tok ≠ b.idx := by rw [hidx]; simp
    -- the state after the pop and the `take()`
    have hwf' := wf_pop hi.wf hpop
    have hlen' : (d.rxBuffers.set d0.tok none).length = d.raw.rx.size := by simp [hi.len]
    have hslot' : ∀ t b', (d.rxBuffers.set d0.tok none)[t]? = some (some b') →
        b'.idx = t ∧ MIN_BUFFER_LEN ≤ b'.len ∧ (t, (⟨[], [b'.len]⟩ : Chain)) ∈ d.raw.rx.out.filter (fun p => p.1 != d0.tok) := by
      intro t b' h
      by_cases ht : d0.tok = t
      · subst ht
        rw [List.getElem?_set_self' ] at h
        cases hh : d.rxBuffers[d0.tok]? <;> simp [hh] at h
      · rw [List.getElem?_set_ne ht] at h
        obtain ⟨a1, a2, a3⟩ := hi.slotOut t b' h
        refine ⟨a1, a2, ?_⟩
        rw [List.mem_filter]
        exact ⟨a3, by simpa using fun e => ht e.symm⟩
    have hos' : ∀ p ∈ d.raw.rx.out.filter (fun p => p.1 != d0.tok), ∃ b', (d.rxBuffers.set d0.tok none)[p.1]? = some (some b') := by
      intro p hp'
      rw [List.mem_filter] at hp'
      obtain ⟨b', hb'⟩ := hi.outSlot p hp'.1
      have : d0.tok ≠ p.1 := by
        have := hp'.2; simp at this; exact fun e => this e.symm
      exact ⟨b', by rw [List.getElem?_set_ne this]; exact hb'⟩
    have hone' : ∀ p ∈ d.raw.rx.out.filter (fun p => p.1 != d0.tok), p.2.segs = 1 := by
      intro p hp'; exact hi.outOne p (List.mem_filter.1 hp').1
    have hpc := posted_set_none d.rxBuffers d0.tok b hb
    have hfl := filter_ne_length d.raw.rx.out d0.tok _ hi.wf.outNodup hout
    have holen' : (d.raw.rx.out.filter (fun p => p.1 != d0.tok)).length = postedCount (d.rxBuffers.set d0.tok none) := by
      have := hi.outLen; omega
    have hcnt := hi.count
    by_cases hshort : d0.len < d.raw.hdrLen
    · have hr : d.receive = ({ d with raw := { d.raw with rx := { d.raw.rx with out := d.raw.rx.out.filter (fun p => p.1 != d0.tok), used := rest } },
                                      rxBuffers := d.rxBuffers.set d0.tok none, lost := d.lost + 1 }, .error .ioError) := by
        simp [Dev.receive, hp, hb, hidx, Raw.receiveComplete, hpop, hshort]
      refine ⟨?_, (fun h => by cases h), ?_⟩
      · rw [hr]
        exact ⟨hwf', hlen', hslot', hos', hone', holen', by simp only []; omega, hi.heldLen⟩
      · intro d0' rest' he
        injection he with h1 h2; subst h1 h2
        refine ⟨fun hge => absurd hshort (by omega), fun _ => ?_⟩
        rw [hr]; exact ⟨rfl, rfl, rfl⟩
    · have hr : d.receive = ({ d with raw := { d.raw with rx := { d.raw.rx with out := d.raw.rx.out.filter (fun p => p.1 != d0.tok), used := rest } },
                                      rxBuffers := d.rxBuffers.set d0.tok none,
                                      held := d.held ++ [{ b with packetLen := d0.len - d.raw.hdrLen, data := d0.data.head?.getD b.data }] },
                             .ok { b with packetLen := d0.len - d.raw.hdrLen, data := d0.data.head?.getD b.data }) := by
        simp [Dev.receive, hp, hb, hidx, Raw.receiveComplete, hpop, hshort]
      refine ⟨?_, (fun h => by cases h), ?_⟩
      · rw [hr]
        refine ⟨hwf', hlen', hslot', hos', hone', holen', by simp only [List.length_append, List.length_singleton]; omega, ?_⟩
        intro b' hb'
        simp only [List.mem_append, List.mem_singleton] at hb'
        rcases hb' with hb' | rfl
        · exact hi.heldLen b' hb'
        · exact hmin
      · intro d0' rest' he
        injection he with h1 h2; subst h1 h2
        refine ⟨fun _ => ?_, fun hlt => absurd hlt hshort⟩
        rw [hr]
        refine ⟨rfl, by simp, _, rfl, hidx, rfl, ?_, ?_⟩
        · simp [hb]
        · simp [hb]

/-- **`recycle_rx_buffer` always succeeds and re-posts the buffer**: in a state satisfying the
    invariant, for a buffer the caller holds and any fresh token the queue may hand out, the call
    returns `Ok`, the buffer sits in `rx_buffers[token]` with `idx = token`, and the invariant
    holds again — no error path (`QueueFull`, `InvalidParam`, `WrongToken`) can drop it. -/
theorem inv_recycle (d : Dev) (hi : Inv d) (id tok : Nat) (b : RxBuf)
    (hf : d.held.find? (·.id == id) = some b)
    (hlt : tok < d.raw.rx.size) (hfresh : d.raw.rx.hasTok tok = false) :
    ∃ d', d.recycle id tok = some (d', .ok ()) ∧ Inv d'
      ∧ d'.held.length + 1 = d.held.length ∧ d'.lost = d.lost
      ∧ postedCount d'.rxBuffers = postedCount d.rxBuffers + 1
      ∧ d'.rxBuffers[tok]? = some (some { b with idx := tok }) := by
  have hbm : b ∈ d.held := List.mem_of_find?_eq_some hf
  have hbp : (b.id == id) = true := by simpa using List.find?_some hf
  have hmin := hi.heldLen b hbm
  have hheld : 1 ≤ d.held.length := List.length_pos_of_mem hbm
  have hnu : d.raw.rx.numUsed = d.raw.rx.out.length := numUsed_eq_length _ hi.outOne
  have hroom : d.raw.rx.numUsed + 1 ≤ d.raw.rx.size := by
    have := hi.count; have := hi.outLen; omega
  have hsz1 : 1 ≤ d.raw.rx.size := by omega
  have hnot := hasTok_false hfresh
  have hmin' : MIN_BUFFER_LEN = 1526 := rfl
  have hadd : d.raw.rx.add tok ⟨[], [b.len]⟩ = .ok { d.raw.rx with out := d.raw.rx.out ++ [(tok, ⟨[], [b.len]⟩)] } := by
    have h1 : ¬ d.raw.rx.size < d.raw.rx.numUsed + 1 := by omega
    have h2 : ¬ d.raw.rx.size < 1 := by omega
    have h3 : ¬ d.raw.rx.size ≤ tok := by omega
    have h4 : b.len ≠ 0 := by omega
    simp [Q.add, Chain.segs, Q.full, h1, h2, h3, h4, hfresh]
  have hrb : d.raw.receiveBegin tok b.len
      = ({ d.raw with rx := { d.raw.rx with out := d.raw.rx.out ++ [(tok, ⟨[], [b.len]⟩)] } }, .ok tok) := by
    have : ¬ b.len < MIN_BUFFER_LEN := by omega
    simp [Raw.receiveBegin, this, hadd]
  -- the slot for the fresh token exists and is empty
  have hslot : d.rxBuffers[tok]? = some none := by
    have hl : tok < d.rxBuffers.length := by rw [hi.len]; exact hlt
    rw [List.getElem?_eq_getElem hl]
    cases hx : d.rxBuffers[tok] with
    | none => rfl
    | some b2 =>
      have : d.rxBuffers[tok]? = some (some b2) := by rw [List.getElem?_eq_getElem hl, hx]
      obtain ⟨_, _, hm⟩ := hi.slotOut tok b2 this
      exact absurd (List.mem_map.2 ⟨_, hm, rfl⟩) hnot
  have hl : tok < d.rxBuffers.length := by rw [hi.len]; exact hlt
  refine ⟨{ d with raw := { d.raw with rx := { d.raw.rx with out := d.raw.rx.out ++ [(tok, ⟨[], [b.len]⟩)] } },
                   held := d.held.eraseP (·.id == id),
                   rxBuffers := d.rxBuffers.set tok (some { b with idx := tok }) }, ?_, ?_, ?_, rfl, ?_, ?_⟩
  · simp [Dev.recycle, hf, hrb, hslot]
  · have hwf' := wf_add hi.wf hadd
    refine ⟨hwf', by simp [hi.len], ?_, ?_, ?_, ?_, ?_, ?_⟩
    · intro t b' h
      by_cases ht : tok = t
      · subst ht
        rw [List.getElem?_set_self hl] at h
        injection h with h; injection h with h; subst h
        exact ⟨rfl, hmin, by simp⟩
      · rw [List.getElem?_set_ne ht] at h
        obtain ⟨a1, a2, a3⟩ := hi.slotOut t b' h
        exact ⟨a1, a2, by simp [a3]⟩
    · intro p hp
      simp only [List.mem_append, List.mem_singleton] at hp
      rcases hp with hp | rfl
      · obtain ⟨b', hb'⟩ := hi.outSlot p hp
        have : tok ≠ p.1 := fun e => hnot (List.mem_map.2 ⟨p, hp, e.symm⟩)
        exact ⟨b', by rw [List.getElem?_set_ne this]; exact hb'⟩
      · exact ⟨_, List.getElem?_set_self hl⟩
    · intro p hp
      simp only [List.mem_append, List.mem_singleton] at hp
      rcases hp with hp | rfl
      · exact hi.outOne p hp
      · rfl
    · have := posted_set_some d.rxBuffers tok { b with idx := tok } hslot
      have := hi.outLen
      simp only [List.length_append, List.length_singleton]; omega
    · have h1 := posted_set_some d.rxBuffers tok { b with idx := tok } hslot
      have h2 := List.length_eraseP_of_mem (p := fun x : RxBuf => x.id == id) hbm hbp
      have := hi.count
      simp only []; omega
    · intro b' hb'
      exact hi.heldLen b' (List.mem_of_mem_eraseP hb')
  · have h2 := List.length_eraseP_of_mem (p := fun x : RxBuf => x.id == id) hbm hbp
    simp only []; omega
  · exact posted_set_some d.rxBuffers tok { b with idx := tok } hslot
  · exact List.getElem?_set_self hl

/-- **Posted count returns to `QUEUE_SIZE`**: whenever the caller holds no buffer and nothing was
    dropped, all `QUEUE_SIZE` buffers are posted (and exactly `QUEUE_SIZE` chains are outstanding) -/
theorem posted_returns (d : Dev) (hi : Inv d) (hh : d.held = []) (hl : d.lost = 0) :
    d.posted = d.raw.rx.size ∧ d.raw.rx.out.length = d.raw.rx.size := by
  have := hi.count; have := hi.outLen
  simp only [posted_eq, hh, hl, List.length_nil] at *
  omega

/-- at every moment: posted + with the caller + dropped = `QUEUE_SIZE` -/
theorem accounting (d : Dev) (hi : Inv d) : d.posted + d.held.length + d.lost = d.raw.rx.size := hi.count

/-! ### the state after `VirtIONet::new` -/

/-- loop invariant of `new`: the first `i` buffers are posted under tokens `0..i` -/
structure PInv (raw : Raw) (acc : List (Option RxBuf)) (i : Nat) : Prop where
  wf : WF raw.rx
  len : acc.length = i
  slotOut : ∀ t b, acc[t]? = some (some b) →
    b.idx = t ∧ MIN_BUFFER_LEN ≤ b.len ∧ (t, (⟨[], [b.len]⟩ : Chain)) ∈ raw.rx.out
  outSlot : ∀ p ∈ raw.rx.out, ∃ b, acc[p.1]? = some (some b)
  outOne : ∀ p ∈ raw.rx.out, p.2.segs = 1
  outLen : raw.rx.out.length = postedCount acc
  all : postedCount acc = i

theorem receiveBegin_ok {r r' : Raw} {tok len t : Nat} (h : r.receiveBegin tok len = (r', .ok t)) :
    t = tok ∧ MIN_BUFFER_LEN ≤ len ∧ r.rx.add tok ⟨[], [len]⟩ = .ok r'.rx
    ∧ r'.rx = { r.rx with out := r.rx.out ++ [(tok, ⟨[], [len]⟩)] } := by
  unfold Raw.receiveBegin at h
  split at h; · cases h
  rename_i hl
  split at h; · cases h
  rename_i q hq
  injection h with h1 h2
  injection h2 with h2
  subst h1 h2
  obtain ⟨rfl, _⟩ := add_ok hq
  exact ⟨rfl, by omega, hq, rfl⟩

theorem postAll_inv (bufLen : Nat) (toks : List Nat) (raw : Raw) (i : Nat) (acc : List (Option RxBuf))
    (hp : PInv raw acc i) {raw' : Raw} {bufs : List (Option RxBuf)}
    (h : postAll raw bufLen toks i acc = .ok (raw', bufs)) :
    PInv raw' bufs (i + toks.length) ∧ raw'.rx.size = raw.rx.size := by
  induction toks generalizing raw i acc with
  | nil =>
    simp only [postAll] at h
    injection h with h; injection h with h1 h2; subst h1 h2
    exact ⟨hp, rfl⟩
  | cons tok toks ih =>
    simp only [postAll] at h
    split at h; · cases h
    rename_i raw1 t hrb
    split at h; · cases h
    rename_i hti
    have hti : t = i := by simpa using hti
    obtain ⟨htok, hmin, hadd, hrx⟩ := receiveBegin_ok hrb
    have htoki : tok = i := by rw [← htok, hti]
    subst htoki
    have hnew : PInv raw1 (acc ++ [some (RxBuf.new tok bufLen)]) (tok + 1) := by
      have hpc : postedCount (acc ++ [some (RxBuf.new tok bufLen)]) = postedCount acc + 1 := by
        simp [postedCount, List.filter_append]
      refine ⟨by rw [hrx]; exact hrx ▸ wf_add hp.wf hadd, by simp [hp.len], ?_, ?_, ?_, ?_, by rw [hpc, hp.all]⟩
      · intro t' b' hb'
        by_cases hlt : t' < acc.length
        · rw [List.getElem?_append_left hlt] at hb'
          obtain ⟨a1, a2, a3⟩ := hp.slotOut t' b' hb'
          exact ⟨a1, a2, by rw [hrx]; simp [a3]⟩
        · have hge : acc.length ≤ t' := by omega
          rw [List.getElem?_append_right hge] at hb'
          have : t' - acc.length = 0 := by
            cases hx : t' - acc.length with
            | zero => rfl
            | succ k => rw [hx] at hb'; simp at hb'
          rw [this] at hb'
          simp at hb'; subst hb'
          have : t' = tok := by have := hp.len; omega
          subst this
          exact ⟨rfl, hmin, by rw [hrx]; simp [RxBuf.new]⟩
      · intro p hpm
        rw [hrx] at hpm
        simp only [List.mem_append, List.mem_singleton] at hpm
        rcases hpm with hpm | rfl
        · obtain ⟨b', hb'⟩ := hp.outSlot p hpm
          have hlt : p.1 < acc.length := by
            rcases Nat.lt_or_ge p.1 acc.length with h | h
            · exact h
            · rw [List.getElem?_eq_none h] at hb'; cases hb'
          exact ⟨b', by rw [List.getElem?_append_left hlt]; exact hb'⟩
        · refine ⟨RxBuf.new tok bufLen, ?_⟩
          have : acc.length ≤ tok := by have := hp.len; omega
          rw [List.getElem?_append_right this]
          have : tok - acc.length = 0 := by have := hp.len; omega
          simp [this]
      · intro p hpm
        rw [hrx] at hpm
        simp only [List.mem_append, List.mem_singleton] at hpm
        rcases hpm with hpm | rfl
        · exact hp.outOne p hpm
        · rfl
      · rw [hrx, hpc]; have := hp.outLen; simp; omega
    obtain ⟨r1, r2⟩ := ih raw1 (tok + 1) _ hnew h
    refine ⟨by simpa [Nat.add_assoc, Nat.add_comm 1] using r1, ?_⟩
    rw [r2, hrx]

/-- **`VirtIONet::new` establishes the invariant**: all `QUEUE_SIZE` buffers posted, none with the
    caller, none dropped. -/
theorem inv_new (qsize offered bufLen : Nat) (toks : List Nat) (d : Dev)
    (h : Dev.new qsize offered bufLen toks = .ok d) :
    Inv d ∧ d.held = [] ∧ d.lost = 0 ∧ d.posted = qsize ∧ d.raw.rx.size = qsize := by
  unfold Dev.new at h
  split at h; · cases h
  rename_i raw bufs hpa
  injection h with h; subst h
  have h0 : PInv (Raw.new qsize offered) [] 0 :=
    ⟨wf_init _ _, rfl, by simp, by simp [Raw.new, Q.init], by simp [Raw.new, Q.init], by simp [Raw.new, Q.init, postedCount], rfl⟩
  obtain ⟨hp, hs⟩ := postAll_inv bufLen _ _ 0 [] h0 hpa
  have hlen : (toks.take qsize ++ List.replicate (qsize - toks.length) 1000000).length = qsize := by
    simp; omega
  rw [hlen] at hp
  have hsz : raw.rx.size = qsize := by rw [hs]; rfl
  simp only [Nat.zero_add] at hp
  refine ⟨⟨hp.wf, by rw [hp.len, hsz], hp.slotOut, hp.outSlot, hp.outOne, hp.outLen, ?_, by simp⟩, rfl, rfl, ?_, hsz⟩
  · simp only [List.length_nil, Nat.add_zero]; rw [hp.all, hsz]
  · rw [posted_eq]; exact hp.all

/-! ### all histories -/

inductive Op
  /-- device completes a posted buffer: any token, length, contents -/
  | devRx (dn : Done)
  | receive
  /-- recycle the held buffer with this id; `tok` is the token the queue hands out -/
  | recycle (id tok : Nat)
  | send (tok : Nat) (payload : Bytes) (ulen : Nat)

def step (d : Dev) : Op → Dev
  | .devRx dn => (d.devRx dn).getD d
  | .receive => d.receive.1
  | .recycle id tok => ((d.recycle id tok).map (·.1)).getD d
  | .send tok p u => (d.send tok p u).1

/-- the environment assumption of the abstract queue: tokens handed out by `add` are fresh -/
def FreshTok (d : Dev) : Op → Prop
  | .recycle _ tok => tok < d.raw.rx.size ∧ d.raw.rx.hasTok tok = false
  | _ => True

/-- a history whose every `recycle` gets a fresh token -/
def FreshRun : Dev → List Op → Prop
  | _, [] => True
  | d, op :: ops => FreshTok d op ∧ FreshRun (step d op) ops

theorem inv_step (d : Dev) (op : Op) (hi : Inv d) (hf : FreshTok d op) : Inv (step d op) := by
  cases op with
  | devRx dn =>
    simp only [step]
    cases h : d.devRx dn with
    | none => simpa using hi
    | some d' => simpa using inv_devRx d d' dn hi h
  | receive => exact (inv_receive d hi).1
  | recycle id tok =>
    simp only [step]
    cases hfind : d.held.find? (·.id == id) with
    | none => simp [Dev.recycle, hfind]; exact hi
    | some b =>
      obtain ⟨d', h1, h2, _⟩ := inv_recycle d hi id tok b hfind hf.1 hf.2
      simp [h1]; exact h2
  | send tok p u => exact inv_send d tok p u hi

/-- the invariant holds along every history of device completions (any order and burst),
    receives, recycles and sends -/
theorem inv_run (d : Dev) (ops : List Op) (hi : Inv d) (hf : FreshRun d ops) : Inv (ops.foldl step d) := by
  induction ops generalizing d with
  | nil => exact hi
  | cons op ops ih => exact ih _ (inv_step d op hi hf.1) hf.2

/-- buffers are dropped only when the device reports a used length below the header size:
    `lost` changes only in a `receive` whose head completion is short -/
theorem lost_only_short (d : Dev) (op : Op) (hi : Inv d) (hf : FreshTok d op)
    (hgood : ∀ d0 rest, d.raw.rx.used = d0 :: rest → d.raw.hdrLen ≤ d0.len) :
    (step d op).lost = d.lost := by
  cases op with
  | devRx dn =>
    simp only [step]
    cases h : d.devRx dn with
    | none => simp
    | some d' =>
      simp only [Dev.devRx, Option.map_eq_some_iff] at h
      obtain ⟨q, _, rfl⟩ := h; rfl
  | receive =>
    simp only [step]
    cases hu : d.raw.rx.used with
    | nil => rw [(inv_receive d hi).2.1 hu]
    | cons d0 rest => exact (((inv_receive d hi).2.2 d0 rest hu).1 (hgood d0 rest hu)).1
  | recycle id tok =>
    simp only [step]
    cases hfind : d.held.find? (·.id == id) with
    | none => simp [Dev.recycle, hfind]
    | some b =>
      obtain ⟨d', h1, _, _, h4, _⟩ := inv_recycle d hi id tok b hfind hf.1 hf.2
      simp [h1, h4]
  | send tok p u => rfl

theorem receiveComplete_size (r : Raw) (tok : Nat) : (r.receiveComplete tok).1.rx.size = r.rx.size := by
  unfold Raw.receiveComplete
  split
  · rfl
  · rename_i q d h
    obtain ⟨_, _, _, hs, _⟩ := pop_ok h
    split <;> exact hs

theorem receive_size (d : Dev) (hi : Inv d) : d.receive.1.raw.rx.size = d.raw.rx.size := by
  cases hu : d.raw.rx.used with
  | nil => rw [(inv_receive d hi).2.1 hu]
  | cons d0 rest =>
    obtain ⟨hp, b, hb, hidx, _, _⟩ := receive_head d hi d0 rest hu
    have := receiveComplete_size d.raw d0.tok
    simp only [Dev.receive, hp, hb, hidx, ne_eq, not_true_eq_false, if_false]
    split <;> (rename_i heq; rw [heq] at this; simpa using this)

theorem step_size (d : Dev) (op : Op) (hi : Inv d) (hf : FreshTok d op) :
    (step d op).raw.rx.size = d.raw.rx.size := by
  cases op with
  | devRx dn =>
    simp only [step]
    cases h : d.devRx dn with
    | none => simp
    | some d' =>
      simp only [Dev.devRx, Option.map_eq_some_iff] at h
      obtain ⟨q, hq, rfl⟩ := h
      obtain ⟨rfl, _⟩ := complete_some hq
      rfl
  | receive => exact receive_size d hi
  | recycle id tok =>
    simp only [step]
    cases hfind : d.held.find? (·.id == id) with
    | none => simp [Dev.recycle, hfind]
    | some b =>
      obtain ⟨d', h1, h2, _⟩ := inv_recycle d hi id tok b hfind hf.1 hf.2
      have hc := h2.len
      have : d'.rxBuffers.length = d.rxBuffers.length := by
        simp [Dev.recycle, hfind] at h1
        split at h1
        · simp at h1
        · split at h1 <;> simp at h1
          all_goals (obtain ⟨rfl, _⟩ := h1; simp)
      simp [h1]; rw [← hc, this, hi.len]
  | send tok p u => rfl

/-- **Every receive buffer is at all times posted or with the caller, and the posted count returns
    to `QUEUE_SIZE`.**  From `VirtIONet::new`, along every history (device completions in any
    order and burst, receives, recycles, sends; tokens fresh), as long as the device never
    reports a used length below the header size: nothing is ever dropped,
    `posted + held = QUEUE_SIZE` throughout, and once the caller has recycled everything all
    `QUEUE_SIZE` buffers are posted again. -/
theorem buffers_never_lost (qsize offered bufLen : Nat) (toks : List Nat) (d0 : Dev)
    (hnew : Dev.new qsize offered bufLen toks = .ok d0) (ops : List Op) (hf : FreshRun d0 ops) :
    let d := ops.foldl step d0
    Inv d ∧ d.raw.rx.size = qsize ∧ d.posted + d.held.length + d.lost = qsize
      ∧ (d.held = [] → d.lost = 0 → d.posted = qsize) := by
  obtain ⟨hi0, _, _, _, hs0⟩ := inv_new qsize offered bufLen toks d0 hnew
  have key : ∀ (ops : List Op) (d : Dev), Inv d → d.raw.rx.size = qsize → FreshRun d ops →
      Inv (ops.foldl step d) ∧ (ops.foldl step d).raw.rx.size = qsize := by
    intro ops
    induction ops with
    | nil => intro d hi hs _; exact ⟨hi, hs⟩
    | cons op ops ih =>
      intro d hi hs hfr
      exact ih _ (inv_step d op hi hfr.1) (by rw [step_size d op hi hfr.1, hs]) hfr.2
  obtain ⟨hi, hs⟩ := key ops d0 hi0 hs0 hf
  refine ⟨hi, hs, by rw [← hs]; exact hi.count, fun hh hl => ?_⟩
  rw [← hs]; exact (posted_returns _ hi hh hl).1

/-- … and `lost` stays 0 along a history in which every completion consumed by `receive` has a
    used length of at least the header size (`lost_only_short` at each step) -/
theorem nothing_dropped (ops : List Op) : ∀ (d : Dev), Inv d → FreshRun d ops →
    (∀ (k : Nat), k ≤ ops.length → ∀ d0 rest, ((ops.take k).foldl step d).raw.rx.used = d0 :: rest →
        ((ops.take k).foldl step d).raw.hdrLen ≤ d0.len) →
    (ops.foldl step d).lost = d.lost := by
  induction ops with
  | nil => intro d _ _ _; rfl
  | cons op ops ih =>
    intro d hi hf hg
    have h1 := lost_only_short d op hi hf.1 (by simpa using hg 0 (by simp))
    have := ih (step d op) (inv_step d op hi hf.1) hf.2 (by
      intro k hk d0 rest hu
      have := hg (k + 1) (by simp; omega) d0 rest (by simpa using hu)
      simpa using this)
    simp only [List.foldl_cons]; rw [this, h1]

/-! ## non-vacuity -/

/-- `new` with QUEUE_SIZE 2 and a 1528-byte buffer succeeds (so `inv_new` is not vacuous) … -/
example : ∃ d, Dev.new 2 (2 ^ 32) 1528 [0, 1] = .ok d ∧ d.posted = 2 ∧ d.raw.hdrLen = 12 := by
  refine ⟨_, rfl, ?_, ?_⟩ <;> decide

/-- … and with a length that rounds down below 1526 it is refused -/
example : ∃ e, Dev.new 2 0 1527 [0, 1] = .error e := ⟨_, rfl⟩

/-- a 12-byte header is *not* used without VERSION_1 -/
example : (Raw.new 4 (2 ^ 15 ||| 2 ^ 5)).hdrLen = 10 ∧ (Raw.new 4 (2 ^ 32)).hdrLen = 12 := by decide

example : ((Raw.new 4 0).sendChain [1, 2, 3]).rd = [[0,0,0,0,0,0,0,0,0,0], [1, 2, 3]]
    ∧ ((Raw.new 4 0).sendChain []).rd = [[0,0,0,0,0,0,0,0,0,0]] := by decide

end VirtioVerif.Props.C16
