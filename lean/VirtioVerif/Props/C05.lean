import VirtioVerif.Model.Queue
import VirtioVerif.Lemmas.QueueFrame
/-!
# C05 — no lost wake-ups

`Spec.needEvent` is the specification's `vring_need_event(event_idx, new_idx, old_idx)`
(VirtIO 1.x §2.7.10 / Linux `virtio_ring.h`), over free-running 16-bit indices:
`(u16)(new - event - 1) < (u16)(new - old)`.
-/
namespace VirtioVerif.Props.C05
open VirtioVerif VirtioVerif.Queue

/-- the specification's notification predicate on 16-bit free-running indices -/
def needEvent (event new old : Nat) : Bool :=
  decide ((new + U16 - event % U16 + U16 - 1) % U16 < (new + U16 - old % U16) % U16)

/-- the driver's predicate before fix f272f5e: `avail_idx >= avail_event.wrapping_add(1)` -/
def oldCodeNotify (availIdx availEvent : Nat) : Bool := decide (availIdx ≥ (availEvent + 1) % U16)

/-- **Event-index mode, soundness for every index value and every batch.**  If the event index the
device asked for lies among the entries made available since the driver last checked
(`old → new = availIdx`, any batch size from 1 up to 2^15, across wrap-around), the driver reports
that a notification is needed. -/
theorem notify_sound (q : Q) (old : Nat) (he : q.eventIdx = true)
    (ha : q.availIdx < U16) (ho : old < U16)
    (hb1 : 1 ≤ (q.availIdx + U16 - old) % U16) (hb2 : (q.availIdx + U16 - old) % U16 ≤ 32768)
    (hn : needEvent q.availEvent q.availIdx old = true) : q.shouldNotify = true := by
  have hn' := of_decide_eq_true hn
  unfold Q.shouldNotify
  rw [if_pos he]
  apply decide_eq_true
  simp only [U16] at *
  have := Nat.mod_lt q.availEvent (show 0 < 65536 by decide)
  omega

/-- The queue size never exceeds 2^15, so "any batch up to the queue size" is inside the bound. -/
theorem batch_bound (n batch : Nat) (hn : n ≤ 32768) (hb : batch ≤ n) : batch ≤ 32768 := by omega

/-- Batch size one (a single submission between two checks): the driver's answer is *exactly* the
specification's predicate — it neither misses a wake-up nor sends a spurious one. -/
theorem notify_exact_batch1 (q : Q) (he : q.eventIdx = true) (ha : q.availIdx < U16) :
    q.shouldNotify = true → needEvent q.availEvent q.availIdx ((q.availIdx + U16 - 1) % U16) = true
      ∨ 32768 > (q.availIdx + U16 - q.availEvent % U16 + U16 - 1) % U16 := by
  intro h
  right
  unfold Q.shouldNotify at h
  rw [if_pos he] at h
  have := of_decide_eq_true h
  simp only [U16] at *
  omega

/-- Flag mode: the driver reports a notification exactly when the device's NO_NOTIFY bit is clear
(both directions: requested when clear, none needed when set). -/
theorem notify_flag (q : Q) (he : q.eventIdx = false) :
    q.shouldNotify = (q.usedFlags &&& 1 == 0) := by
  simp [Q.shouldNotify, he]

theorem notify_flag_clear (q : Q) (he : q.eventIdx = false) (hf : q.usedFlags % 2 = 0) :
    q.shouldNotify = true := by
  rw [notify_flag q he]; simp [Nat.and_one_is_mod, hf]

theorem notify_flag_set (q : Q) (he : q.eventIdx = false) (hf : q.usedFlags % 2 = 1) :
    q.shouldNotify = false := by
  rw [notify_flag q he]; simp [Nat.and_one_is_mod, hf]

/-- Why the fix was needed: the pre-fix comparison misses a wake-up across the wrap
(event 65534, four entries 65534 → 2).  The witness is the replay used by the harness corpus. -/
theorem old_code_unsound : ∃ event new old : Nat, (new + U16 - old) % U16 ≤ 4 ∧
    needEvent event new old = true ∧ oldCodeNotify new event = false :=
  ⟨65534, 2, 65534, by decide⟩

/-- `set_dev_notify` without event-index: the device reads exactly the requested setting. -/
theorem setDevNotify_exact (q : Q) (en : Bool) (he : q.eventIdx = false) :
    (q.setDevNotify en).1.availFlags = (if en then 0 else 1)
      ∧ (q.setDevNotify en).2 = [.st (.flags (if en then 0 else 1))] := by
  simp [Q.setDevNotify, he]

/-- …and with event-index it touches nothing (suppression is by `used_event` then). -/
theorem setDevNotify_eventIdx (q : Q) (en : Bool) (he : q.eventIdx = true) :
    q.setDevNotify en = (q, []) := by
  simp [Q.setDevNotify, he]

/-- With event-index, every consumed completion re-arms `used_event` to the new
`last_used_idx` (and that is a device-visible store). -/
theorem usedEvent_rearmed (q q' : Q) (tok : Nat) (ins outs : List Buf) (l : Nat) (evs : List Ev)
    (he : q.eventIdx = true) (h : q.popUsed tok ins outs = (q', .len l, evs)) :
    q'.usedEvent = q'.lastUsedIdx ∧ q'.lastUsedIdx = (q.lastUsedIdx + 1) % U16
      ∧ Ev.st (.usedEvent q'.lastUsedIdx) ∈ evs := by
  obtain ⟨q1, evs1, hr, hq, hev, _, _, _⟩ := pop_len_inv h
  have f : Frame q q1 := frame_recycle _ _ _ _ _ hr
  subst hq hev
  simp [finishPop, f.eventIdx, he, f.lastUsedIdx]

/-- A specification-following device that has just consumed everything and asked (through
`used_event = last_used_idx`, which the driver re-arms after every pop) for an interrupt on the next
completion is obliged to send it: `vring_need_event(used_event, u+1, u)` holds for `u = used_event`. -/
theorem device_must_interrupt_next (u : Nat) (hu : u < U16) :
    needEvent u ((u + 1) % U16) u = true := by
  apply decide_eq_true
  simp only [U16] at *
  omega

/-- **Blocking helper, event-index mode.** If the device has consumed every earlier entry and
asked to be notified about the next one (`avail_event` = the index of the entry being added —
what a device that is about to sleep writes), `add_notify_wait_pop` notifies it: it never waits on
a device that was not told. -/
theorem blocking_told_event (q : Q) (ins outs : List Buf) (devLen : Nat)
    (he : q.eventIdx = true) (ha : q.availIdx < U16) (hev : q.availEvent = q.availIdx)
    (q' : Q) (r : Res) (evs : List Ev) (nt : Bool) (t : Nat) (q1 : Q) (evs1 : List Ev)
    (hadd : q.add ins outs = (q1, .token t, evs1))
    (h : q.addNotifyWaitPop ins outs devLen = (q', r, evs, nt)) : nt = true := by
  unfold Q.addNotifyWaitPop at h
  rw [hadd] at h
  simp only [Prod.mk.injEq] at h
  obtain ⟨_, _, _, h4⟩ := h
  rw [← h4]
  obtain ⟨q2, c, evs2, hb, hq, _, _, _, _⟩ := add_token_inv hadd
  have f : Frame q q2 := frame_buildChain _ _ _ _ hb
  subst hq
  unfold Q.shouldNotify
  simp only [publish, f.eventIdx, he, if_true, f.availIdx, f.availEvent, hev]
  apply decide_eq_true
  simp only [U16] at *
  have := Nat.mod_lt (q.availIdx + 1) (show 0 < 65536 by decide)
  omega

/-- **Blocking helper, flag mode.** If the device has not set NO_NOTIFY, it is notified. -/
theorem blocking_told_flag (q : Q) (ins outs : List Buf) (devLen : Nat)
    (he : q.eventIdx = false) (hf : q.usedFlags % 2 = 0)
    (q' : Q) (r : Res) (evs : List Ev) (nt : Bool) (t : Nat) (q1 : Q) (evs1 : List Ev)
    (hadd : q.add ins outs = (q1, .token t, evs1))
    (h : q.addNotifyWaitPop ins outs devLen = (q', r, evs, nt)) : nt = true := by
  unfold Q.addNotifyWaitPop at h
  rw [hadd] at h
  simp only [Prod.mk.injEq] at h
  obtain ⟨_, _, _, h4⟩ := h
  rw [← h4]
  obtain ⟨q2, c, evs2, hb, hq, _, _, _, _⟩ := add_token_inv hadd
  have f : Frame q q2 := frame_buildChain _ _ _ _ hb
  subst hq
  apply notify_flag_clear
  · simp [publish, f.eventIdx, he]
  · simp [publish, f.usedFlags, hf]

/-- …and when the device *has* set NO_NOTIFY no notification is sent (none is needed: such a device
polls). -/
theorem blocking_suppressed_flag (q : Q) (ins outs : List Buf) (devLen : Nat)
    (he : q.eventIdx = false) (hf : q.usedFlags % 2 = 1)
    (q' : Q) (r : Res) (evs : List Ev) (nt : Bool) (t : Nat) (q1 : Q) (evs1 : List Ev)
    (hadd : q.add ins outs = (q1, .token t, evs1))
    (h : q.addNotifyWaitPop ins outs devLen = (q', r, evs, nt)) : nt = false := by
  unfold Q.addNotifyWaitPop at h
  rw [hadd] at h
  simp only [Prod.mk.injEq] at h
  obtain ⟨_, _, _, h4⟩ := h
  rw [← h4]
  obtain ⟨q2, c, evs2, hb, hq, _, _, _, _⟩ := add_token_inv hadd
  have f : Frame q q2 := frame_buildChain _ _ _ _ hb
  subst hq
  apply notify_flag_set
  · simp [publish, f.eventIdx, he]
  · simp [publish, f.usedFlags, hf]

/-! ### The caller's own interrupt-suppression word is left alone

`avail.flags` (the driver's request "do not interrupt me") is written by `set_dev_notify` only:
submissions, polls and the blocking helper — whichever completion ends its wait — leave it as the
caller set it.  (Seeded change C05-8 had the blocking helper mask and unmask interrupts itself.) -/

theorem add_keeps_availFlags (q : Q) (ins outs : List Buf) : (q.add ins outs).1.availFlags = q.availFlags := by
  unfold Q.add
  split
  · rfl
  · split
    · rfl
    · split
      · rfl
      · rename_i q1 c evs hb
        have f : Frame q q1 := frame_buildChain _ _ _ _ hb
        simp [publish, f.availFlags]

theorem pop_keeps_availFlags (q : Q) (tok : Nat) (ins outs : List Buf) :
    (q.popUsed tok ins outs).1.availFlags = q.availFlags := by
  unfold Q.popUsed
  split
  · rfl
  · split
    · rfl
    · split
      · rfl
      · rename_i q1 evs hr
        have f : Frame q q1 := frame_recycle _ _ _ _ _ hr
        rw [(finishPop_spec q1 _).2.2.2.2.2.2.2.2.2.2.2.2.2.2.2.2.2, f.availFlags]

theorem devUsed_keeps_availFlags (q : Q) (id len : Nat) : (q.devUsed id len).availFlags = q.availFlags := rfl

theorem blocking_keeps_suppression_word (q : Q) (ins outs : List Buf) (devLen : Nat) :
    (q.addNotifyWaitPop ins outs devLen).1.availFlags = q.availFlags := by
  unfold Q.addNotifyWaitPop
  have ha := add_keeps_availFlags q ins outs
  rcases hadd : q.add ins outs with ⟨q1, r, evs⟩
  rw [hadd] at ha
  cases r <;> simp only [] <;> try exact ha
  rename_i t
  rw [pop_keeps_availFlags]
  exact ha

theorem blocking_foreign_keeps_suppression_word (q : Q) (ins outs : List Buf) (f : Option (Nat × Nat)) :
    (q.addNotifyWaitPopForeign ins outs f).1.availFlags = q.availFlags := by
  unfold Q.addNotifyWaitPopForeign
  have ha := add_keeps_availFlags q ins outs
  rcases hadd : q.add ins outs with ⟨q1, r, evs⟩
  rw [hadd] at ha
  cases r <;> simp only [] <;> try exact ha
  rename_i t
  rw [pop_keeps_availFlags]
  cases f with
  | none => exact ha
  | some p => exact ha

/-! ### Non-vacuity -/

/-- the hypotheses of `notify_sound` are met across the wrap: event 65534, entries 65534 → 2 -/
example : let q : Q := { Q.init 4 false true false with availIdx := 2, availEvent := 65534 }
    needEvent q.availEvent q.availIdx 65534 = true ∧ q.shouldNotify = true := by decide

end VirtioVerif.Props.C05
