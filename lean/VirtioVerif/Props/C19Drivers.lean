import VirtioVerif.Model.EventQueues
import VirtioVerif.Lemmas.EvQueue
/-!
# C19 (driver-level half) — event queues deliver each device event once, in order, and stay fully stocked

Statements are over the abstract queue of `Model/EvQueue.lean` for an arbitrary allocator policy `A`
with `Alloc.InitSeq` and the "same token again" hypothesis.  The hypothesis the queue-core proof
supplies for `queue.rs` is `Alloc.Lifo` (after `pop_used t` of a one-descriptor chain, `add` of one
buffer returns `t`); the theorems below are stated with the weaker `Alloc.Refill` — its instance
for an otherwise empty free list, `Alloc.Lifo.refill : A.Lifo → A.Refill` — because these queues are
always fully stocked when a buffer is popped: the freed descriptor is the only free one.
(So the `assert_eq!(new_token, token)` of the wrappers holds for any allocator that hands out a
free descriptor, not only a LIFO one; see the `example`s at the end.); any `SIZE`, any `BUFFER_SIZE ≥ 1`; any number of events; the device picks any
posted buffer (any completion order), any burst size between polls, any written bytes and **any**
reported length — lengths above `BUFFER_SIZE` included (error reported, buffer still re-posted).
-/
namespace VirtioVerif.Props.C19Drivers
open VirtioVerif VirtioVerif.EvQueue VirtioVerif.EventQueues

/-- the chain that (re-)posting buffer `t` puts on the queue -/
def chain (bufSize t : Nat) : Buf := ⟨t, t, bufSize, [], true⟩

/-- all outstanding chains: with the device, then in the used ring -/
def outstanding (q : AQ) : List Buf := q.posted ++ q.used.map (·.1)

/-- "fully stocked": every one of the `size` buffers is outstanding under its own token -/
structure StockedQ (size bufSize : Nat) (q : AQ) : Prop where
  size_eq : q.size = size
  buf_pos : 1 ≤ bufSize
  free : q.free = []
  shape : ∀ b ∈ outstanding q, b.owner = b.token ∧ b.cap = bufSize ∧ b.writable = true
  tokens : ((outstanding q).map (·.token)).Perm (List.range' 0 size)

theorem StockedQ.count {size bufSize : Nat} {q : AQ} (h : StockedQ size bufSize q) :
    q.posted.length + q.used.length = size := by
  have := h.tokens.length_eq
  simpa [outstanding] using this

theorem StockedQ.nodup {size bufSize : Nat} {q : AQ} (h : StockedQ size bufSize q) :
    ((outstanding q).map (·.token)).Nodup :=
  h.tokens.nodup_iff.mpr (List.nodup_range')

theorem StockedQ.token_lt {size bufSize : Nat} {q : AQ} (h : StockedQ size bufSize q) {b : Buf}
    (hb : b ∈ outstanding q) : b.token < size := by
  have : b.token ∈ (outstanding q).map (·.token) := List.mem_map_of_mem hb
  have := h.tokens.mem_iff.mp this
  simp [List.mem_range'] at this
  omega

/-- **posted count returns to SIZE**: whenever nothing is pending, all buffers are with the device -/
theorem StockedQ.full_when_idle {size bufSize : Nat} {q : AQ} (h : StockedQ size bufSize q)
    (hu : q.used = []) : q.posted.length = size := by
  have := h.count; simp [hu] at this; exact this

/-! ## construction -/

theorem addAll_spec {A : Alloc} (hI : A.InitSeq) (bufSize : Nat) (hb : 1 ≤ bufSize) (m k : Nat) (q : AQ)
    (hfree : q.free = List.range' k m) (hroom : q.posted.length + q.used.length + m ≤ q.size) :
    addAll A bufSize (List.range' k m) q =
      .ok { q with free := [], posted := q.posted ++ (List.range' k m).map (chain bufSize) } := by
  induction m generalizing k q with
  | zero =>
    cases q
    simp only [List.range'_zero] at hfree
    subst hfree
    simp [addAll]
  | succ m ih =>
    have hfull : ¬ (q.inUse + 1 > q.size) := by simp [AQ.inUse]; omega
    have hcap : bufSize ≠ 0 := by omega
    have htake := hI k m
    rw [List.range'_succ]
    simp only [addAll, AQ.add, hfull, hcap, if_false, hfree, htake]
    simp only [if_true]
    rw [ih (k + 1) _ rfl (by simp; omega)]
    simp [chain, List.append_assoc]

/-- `OwningQueue::new`: succeeds (no `assert_eq!(i, token)` failure, no `QueueFull`) and posts buffer
    `i` under token `i` for all `i < SIZE` -/
theorem new_stocked {A : Alloc} (hI : A.InitSeq) (size bufSize : Nat) (hb : 1 ≤ bufSize) :
    ∃ o, OQ.new A size bufSize = .ok o ∧ o.size = size ∧ o.bufSize = bufSize ∧ StockedQ size bufSize o.q
      ∧ o.q.posted = (List.range' 0 size).map (chain bufSize) ∧ o.q.used = [] := by
  have h := addAll_spec hI bufSize hb size 0 (AQ.init size) rfl (by simp [AQ.init])
  refine ⟨⟨size, bufSize, ⟨size, [], (List.range' 0 size).map (chain bufSize), []⟩, 0⟩,
    by simp only [OQ.new, h]; simp [AQ.init], rfl, rfl, ?_, rfl, rfl⟩
  refine ⟨rfl, hb, rfl, ?_, ?_⟩
  · intro b hbm
    simp [outstanding, chain] at hbm
    obtain ⟨a, -, rfl⟩ := hbm
    simp
  · simp [outstanding, chain, Function.comp_def]

/-! ## one pop–re-add cycle on the queue -/

/-- what the queue looks like after the head of the used ring has been popped and its buffer
    re-posted under the same token -/
def requeue (bufSize : Nat) (q : AQ) : AQ :=
  match q.used with
  | [] => q
  | (b, _) :: rest => { q with used := rest, posted := q.posted ++ [chain bufSize b.token] }

theorem cycle_spec {A : Alloc} (hL : A.Refill) {size bufSize : Nat} {q : AQ} (h : StockedQ size bufSize q)
    {b : Buf} {len : Nat} {rest : List (Buf × Nat)} (hu : q.used = (b, len) :: rest) :
    b.token < size ∧ b.owner = b.token ∧ q.peekUsed = some b.token
      ∧ q.popUsed A b.token = .ok (len, b, { q with used := rest, free := A.give q.free b.token })
      ∧ AQ.add A { q with used := rest, free := A.give q.free b.token } b.token bufSize [] true
          = .ok (b.token, requeue bufSize q)
      ∧ StockedQ size bufSize (requeue bufSize q) := by
  have hmem : b ∈ outstanding q := by simp [outstanding, hu]
  have hlt := h.token_lt hmem
  have hcnt := h.count
  rw [hu] at hcnt
  simp at hcnt
  refine ⟨hlt, (h.shape b hmem).1, by simp [AQ.peekUsed, hu], by simp [AQ.popUsed, hu], ?_, ?_⟩
  · have hfull : ¬ (q.posted.length + rest.length + 1 > q.size) := by rw [h.size_eq]; omega
    have hcap : bufSize ≠ 0 := by have := h.buf_pos; omega
    simp [AQ.add, AQ.inUse, hfull, hcap, h.free, hL b.token, requeue, hu, chain]
  · refine ⟨by simp [requeue, hu, h.size_eq], h.buf_pos, by simp [requeue, hu, h.free], ?_, ?_⟩
    · intro x hx
      simp only [requeue, hu, outstanding, List.mem_append, List.mem_singleton, List.mem_map] at hx
      rcases hx with (hx | rfl) | ⟨y, hy, rfl⟩
      · exact h.shape x (by simp [outstanding, hx])
      · simp [chain]
      · exact h.shape y.1 (by simp only [outstanding, hu, List.mem_append, List.mem_map]; exact Or.inr ⟨y, List.mem_cons_of_mem _ hy, rfl⟩)
    · have := h.tokens
      simp only [outstanding, hu, List.map_cons, List.map_append] at this
      simpa [requeue, hu, outstanding, chain, List.append_assoc] using this

/-- environment step: the device completes the `i`-th buffer it holds -/
theorem dev_spec {size bufSize : Nat} {q q' : AQ} (h : StockedQ size bufSize q) {i : Nat} {data : List Nat}
    {len : Nat} (hd : q.devComplete i data len = some q') :
    ∃ b, q.posted[i]? = some b
      ∧ q'.used = q.used ++ [({ b with data := data.take bufSize }, len)]
      ∧ q'.posted.length + 1 = q.posted.length
      ∧ StockedQ size bufSize q' := by
  unfold AQ.devComplete at hd
  cases hb : q.posted[i]? with
  | none => simp [hb] at hd
  | some b =>
    simp only [hb, Option.some.injEq] at hd
    have hi : i < q.posted.length := by
      rcases Nat.lt_or_ge i q.posted.length with h' | h'
      · exact h'
      · simp [List.getElem?_eq_none h'] at hb
    have hbe : q.posted[i] = b := by simpa [List.getElem?_eq_getElem hi] using hb
    have hsplit : q.posted = q.posted.take i ++ b :: q.posted.drop (i + 1) := by
      rw [← hbe, List.getElem_cons_drop, List.take_append_drop]
    have hmem : b ∈ outstanding q := by
      simp only [outstanding, List.mem_append]; left; rw [hsplit]; simp
    obtain ⟨ho, hc, hw⟩ := h.shape b hmem
    subst hd
    refine ⟨b, rfl, by simp [hw, hc], ?_, ?_⟩
    · simp only [List.length_append, List.length_take, List.length_drop]; omega
    · refine ⟨h.size_eq, h.buf_pos, h.free, ?_, ?_⟩
      · intro x hx
        simp only [outstanding, List.mem_append, List.mem_map, List.map_append, List.map_cons, List.map_nil,
          List.mem_singleton] at hx
        rcases hx with (hx | hx) | (⟨y, hy, rfl⟩ | rfl)
        · exact h.shape x (by simp only [outstanding, List.mem_append]; left; exact List.mem_of_mem_take hx)
        · exact h.shape x (by simp only [outstanding, List.mem_append]; left; exact List.mem_of_mem_drop hx)
        · exact h.shape y.1 (by simp only [outstanding, List.mem_append, List.mem_map]; exact Or.inr ⟨y, hy, rfl⟩)
        · exact ⟨ho, hc, hw⟩
      · have ht := h.tokens
        simp only [outstanding] at ht
        rw [hsplit] at ht
        simp only [outstanding, List.map_append, List.map_cons, List.map_nil] at ht ⊢
        refine List.Perm.trans ?_ ht
        -- l₁ ++ l₂ ++ (U ++ [t])  ~  l₁ ++ t :: l₂ ++ U
        have p1 : (List.map (·.token) (q.posted.take i) ++ List.map (·.token) (q.posted.drop (i + 1))
              ++ (List.map (fun x => x.1.token) q.used ++ [b.token])).Perm
            (b.token :: (List.map (·.token) (q.posted.take i) ++ List.map (·.token) (q.posted.drop (i + 1))
              ++ List.map (fun x => x.1.token) q.used)) := by
          rw [← List.append_assoc]; exact List.perm_append_singleton _ _
        have p2 : (List.map (·.token) (q.posted.take i) ++ b.token :: List.map (·.token) (q.posted.drop (i + 1))
              ++ List.map (fun x => x.1.token) q.used).Perm
            (b.token :: (List.map (·.token) (q.posted.take i) ++ List.map (·.token) (q.posted.drop (i + 1))
              ++ List.map (fun x => x.1.token) q.used)) := by
          rw [List.append_assoc, List.cons_append, List.append_assoc]; exact List.perm_middle
        simpa [Function.comp_def] using p1.trans p2.symm

/-! ## `OwningQueue::poll` -/

/-- what the completion `(chain, len)` must be delivered as: its token, the reported length, and
    exactly the first `len` bytes of the buffer — or `IoError` when `len` exceeds the buffer -/
def expected (bufSize : Nat) (c : Buf × Nat) : Delivery :=
  ⟨c.1.token, c.2, if bufSize < c.2 then .error .ioError else .ok (padTo c.1.data c.2)⟩

/-- **One poll with a completion pending**: the head of the used ring — and nothing else — is
    popped and handed to the handler with exactly `len` bytes (or reported as `IoError` when
    oversized, without calling the handler); in *every* case, including handler errors and
    oversized lengths, the same buffer is immediately re-posted under the same token (so
    `assert_eq!(new_token, index)` does not fire) and the device is notified. -/
theorem poll_spec {A : Alloc} (hL : A.Refill) {β : Type} {o : OQ} (h : StockedQ o.size o.bufSize o.q)
    {b : Buf} {len : Nat} {rest : List (Buf × Nat)} (hu : o.q.used = (b, len) :: rest)
    (handler : List Nat → Except Err (Option β)) :
    o.poll A handler =
      ({ o with q := requeue o.bufSize o.q, notifies := o.notifies + 1 },
        resultOf ((expected o.bufSize (b, len)).bytes.bind handler),
        some (expected o.bufSize (b, len))) := by
  obtain ⟨hlt, -, hpeek, hpop, hadd, -⟩ := cycle_spec hL h hu
  have hge : ¬ o.size ≤ b.token := by omega
  simp only [OQ.poll, OQ.pop, hpeek, hge, if_false, hpop, OQ.addBack, hadd, ne_eq, not_true_eq_false, expected]

/-- **A poll with nothing pending** returns `Ok(None)` and touches nothing. -/
theorem poll_empty {A : Alloc} {β : Type} {o : OQ} (hu : o.q.used = [])
    (handler : List Nat → Except Err (Option β)) : o.poll A handler = (o, .none, .none) := by
  simp [OQ.poll, OQ.pop, AQ.peekUsed, hu]

/-- **No delivery exposes more than the buffer holds**, and a successful one has exactly `len` bytes. -/
theorem expected_len (bufSize : Nat) (c : Buf × Nat) (bs : List Nat)
    (h : (expected bufSize c).bytes = .ok bs) : bs.length = c.2 ∧ c.2 ≤ bufSize := by
  unfold expected at h
  split at h
  · simp at h
  · simp only [Except.ok.injEq] at h
    subst h
    refine ⟨?_, by omega⟩
    simp [padTo]; omega

/-- …and when the device wrote at least `len` bytes, they are exactly the device's first `len` bytes -/
theorem expected_bytes (bufSize : Nat) (c : Buf × Nat) (hl : c.2 ≤ c.1.data.length) (hb : c.2 ≤ bufSize) :
    (expected bufSize c).bytes = .ok (c.1.data.take c.2) := by
  have : ¬ bufSize < c.2 := by omega
  have z : c.2 - c.1.data.length = 0 := by omega
  simp [expected, this, padTo, z]

/-! ## whole histories of `OwningQueue` -/

inductive EvOp (β : Type)
  | dev (i : Nat) (data : List Nat) (len : Nat)       -- environment: complete the i-th held buffer
  | poll (handler : List Nat → Except Err (Option β))

/-- ghost bookkeeping: completions in used-ring order, deliveries in poll order -/
structure Hist where
  completed : List Delivery
  delivered : List Delivery

def stepOQ {β : Type} (A : Alloc) (s : OQ × Hist) : EvOp β → OQ × Hist
  | .dev i data len =>
    match s.1.q.devComplete i data len, s.1.q.posted[i]? with
    | some q', some b =>
      ({ s.1 with q := q' },
        { s.2 with completed := s.2.completed ++ [expected s.1.bufSize ({ b with data := data.take s.1.bufSize }, len)] })
    | _, _ => s
  | .poll h =>
    let r := s.1.poll A h
    (r.1, { s.2 with delivered := s.2.delivered ++ r.2.2.toList })

def runOQ {β : Type} (A : Alloc) (s : OQ × Hist) : List (EvOp β) → OQ × Hist
  | [] => s
  | op :: ops => runOQ A (stepOQ A s op) ops

/-- the invariant of histories -/
structure Good (s : OQ × Hist) : Prop where
  stocked : StockedQ s.1.size s.1.bufSize s.1.q
  /-- delivered ++ (completed, not yet polled) = completed: once each, in used-ring order -/
  once : s.2.delivered ++ s.1.q.used.map (expected s.1.bufSize) = s.2.completed

theorem step_good {A : Alloc} (hL : A.Refill) {β : Type} {s : OQ × Hist} (h : Good s) (op : EvOp β) :
    Good (stepOQ A s op) ∧ (stepOQ A s op).1.size = s.1.size ∧ (stepOQ A s op).1.bufSize = s.1.bufSize := by
  cases op with
  | dev i data len =>
    simp only [stepOQ]
    cases hd : s.1.q.devComplete i data len with
    | none => exact ⟨h, rfl, rfl⟩
    | some q' =>
      obtain ⟨b, hb, hused, -, hst⟩ := dev_spec h.stocked hd
      simp only [hb]
      refine ⟨⟨hst, ?_⟩, trivial, trivial⟩
      simp only [hused, List.map_append, List.map_cons, List.map_nil, ← List.append_assoc, h.once]
  | poll handler =>
    simp only [stepOQ]
    cases hu : s.1.q.used with
    | nil =>
      rw [poll_empty hu]
      exact ⟨⟨h.stocked, by simpa using h.once⟩, rfl, rfl⟩
    | cons c rest =>
      obtain ⟨b, len⟩ := c
      rw [poll_spec hL h.stocked hu]
      obtain ⟨-, -, -, -, -, hst⟩ := cycle_spec hL (A := A) h.stocked hu
      refine ⟨⟨hst, ?_⟩, rfl, rfl⟩
      have := h.once
      rw [hu] at this
      simpa [requeue, hu, List.append_assoc] using this

/-- **Exactly once, in order, always stocked — for every history.**  Starting from
    `OwningQueue::new`, after any sequence of device completions (any order, any burst size, any
    data, any reported length) and polls (any handlers, failing ones included):
    * the deliveries so far followed by the completions still waiting in the used ring are exactly
      the completions the device made, in the order it made them;
    * all `SIZE` buffers are outstanding, each under its own token (`posted + unpolled = SIZE`);
      hence whenever nothing is pending the device holds `SIZE` buffers. -/
theorem owning_exactly_once_in_order {A : Alloc} (hL : A.Refill) (hI : A.InitSeq) {β : Type}
    (size bufSize : Nat) (hb : 1 ≤ bufSize) (ops : List (EvOp β)) :
    ∃ o, OQ.new A size bufSize = .ok o ∧
      let r := runOQ A (o, ⟨[], []⟩) ops
      r.2.delivered ++ r.1.q.used.map (expected bufSize) = r.2.completed
        ∧ StockedQ size bufSize r.1.q
        ∧ r.1.q.posted.length + r.1.q.used.length = size
        ∧ (r.1.q.used = [] → r.1.q.posted.length = size ∧ r.2.delivered = r.2.completed) := by
  obtain ⟨o, hnew, hs, hbs, hst, -, hu⟩ := new_stocked hI size bufSize hb
  refine ⟨o, hnew, ?_⟩
  have key : ∀ (ops : List (EvOp β)) (s : OQ × Hist), Good s →
      Good (runOQ A s ops) ∧ (runOQ A s ops).1.size = s.1.size ∧ (runOQ A s ops).1.bufSize = s.1.bufSize := by
    intro ops
    induction ops with
    | nil => intro s h; exact ⟨h, rfl, rfl⟩
    | cons op ops ih =>
      intro s h
      obtain ⟨g, e1, e2⟩ := step_good hL h op
      obtain ⟨g', e1', e2'⟩ := ih _ g
      exact ⟨g', e1'.trans e1, e2'.trans e2⟩
  have h0 : Good (o, (⟨[], []⟩ : Hist)) := ⟨by rw [hs, hbs]; exact hst, by simp [hu]⟩
  obtain ⟨g, e1, e2⟩ := key ops _ h0
  simp only at e1 e2
  have gst := g.stocked
  rw [e1, e2, hs, hbs] at gst
  have gon := g.once
  rw [e2, hbs] at gon
  refine ⟨gon, gst, gst.count, fun hu' => ⟨gst.full_when_idle hu', ?_⟩⟩
  rw [hu'] at gon; simpa using gon

/-- the statement with the LIFO hypothesis as the queue-core proof provides it -/
theorem owning_exactly_once_in_order_lifo {A : Alloc} (hL : A.Lifo) (hI : A.InitSeq) {β : Type}
    (size bufSize : Nat) (hb : 1 ≤ bufSize) (ops : List (EvOp β)) :
    ∃ o, OQ.new A size bufSize = .ok o ∧
      let r := runOQ A (o, ⟨[], []⟩) ops
      r.2.delivered ++ r.1.q.used.map (expected bufSize) = r.2.completed
        ∧ StockedQ size bufSize r.1.q
        ∧ r.1.q.posted.length + r.1.q.used.length = size
        ∧ (r.1.q.used = [] → r.1.q.posted.length = size ∧ r.2.delivered = r.2.completed) :=
  owning_exactly_once_in_order hL.refill hI size bufSize hb ops

/-! ## `VirtIOInput::pop_pending_event` -/

/-- an input completion is delivered as the whole event buffer, whatever length was reported -/
def expectedIn (evSize : Nat) (c : Buf × Nat) : Delivery := ⟨c.1.token, c.2, .ok (padTo c.1.data evSize)⟩

theorem input_new {A : Alloc} (hI : A.InitSeq) (size evSize : Nat) (hb : 1 ≤ evSize) :
    ∃ s, Input.new A size evSize = .ok s ∧ s.size = size ∧ s.evSize = evSize ∧ StockedQ size evSize s.q
      ∧ s.q.used = [] := by
  have h := addAll_spec hI evSize hb size 0 (AQ.init size) rfl (by simp [AQ.init])
  obtain ⟨o, hnew, -, -, hst, hp, hu⟩ := new_stocked hI size evSize hb
  simp only [OQ.new, h] at hnew
  simp only [Except.ok.injEq] at hnew
  refine ⟨⟨size, evSize, o.q, 1⟩, ?_, rfl, rfl, hst, hu⟩
  simp only [Input.new, h]
  rw [← hnew]

/-- **One `pop_pending_event` with a completion pending**: the head of the used ring is returned as
    an event (the whole 8-byte buffer: the device's bytes, and — if it wrote fewer than 8 — whatever
    the buffer held beyond them, never anything outside the buffer) and its buffer is re-posted at
    once under the same token: `assert_eq!(new_token, token)` holds. -/
theorem input_pop_spec {A : Alloc} (hL : A.Refill) {s : Input} (h : StockedQ s.size s.evSize s.q)
    {b : Buf} {len : Nat} {rest : List (Buf × Nat)} (hu : s.q.used = (b, len) :: rest) :
    s.popPendingEvent A =
      ({ s with q := requeue s.evSize s.q, notifies := s.notifies + 1 },
        .val (padTo b.data s.evSize), some (expectedIn s.evSize (b, len))) := by
  obtain ⟨hlt, -, hpeek, hpop, hadd, -⟩ := cycle_spec hL h hu
  have hge : ¬ s.size ≤ b.token := by omega
  simp only [Input.popPendingEvent, hpeek, hge, if_false, hpop, hadd, ne_eq, not_true_eq_false, expectedIn]

theorem input_pop_empty {A : Alloc} {s : Input} (hu : s.q.used = []) :
    s.popPendingEvent A = (s, .none, .none) := by
  simp [Input.popPendingEvent, AQ.peekUsed, hu]

/-- the event has exactly the buffer's size and starts with exactly the bytes the device wrote -/
theorem input_event_bytes (evSize : Nat) (data : List Nat) (hd : data.length ≤ evSize) :
    (padTo data evSize).length = evSize ∧ (padTo data evSize).take data.length = data := by
  constructor
  · simp [padTo]; omega
  · simp [padTo, List.take_append, List.take_of_length_le hd]

inductive InOp
  | dev (i : Nat) (data : List Nat) (len : Nat)
  | pop

def stepIn (A : Alloc) (s : Input × Hist) : InOp → Input × Hist
  | .dev i data len =>
    match s.1.q.devComplete i data len, s.1.q.posted[i]? with
    | some q', some b =>
      ({ s.1 with q := q' },
        { s.2 with completed := s.2.completed ++ [expectedIn s.1.evSize ({ b with data := data.take s.1.evSize }, len)] })
    | _, _ => s
  | .pop =>
    let r := s.1.popPendingEvent A
    (r.1, { s.2 with delivered := s.2.delivered ++ r.2.2.toList })

def runIn (A : Alloc) (s : Input × Hist) : List InOp → Input × Hist
  | [] => s
  | op :: ops => runIn A (stepIn A s op) ops

structure GoodIn (s : Input × Hist) : Prop where
  stocked : StockedQ s.1.size s.1.evSize s.1.q
  once : s.2.delivered ++ s.1.q.used.map (expectedIn s.1.evSize) = s.2.completed

theorem stepIn_good {A : Alloc} (hL : A.Refill) {s : Input × Hist} (h : GoodIn s) (op : InOp) :
    GoodIn (stepIn A s op) ∧ (stepIn A s op).1.size = s.1.size ∧ (stepIn A s op).1.evSize = s.1.evSize := by
  cases op with
  | dev i data len =>
    simp only [stepIn]
    cases hd : s.1.q.devComplete i data len with
    | none => exact ⟨h, rfl, rfl⟩
    | some q' =>
      obtain ⟨b, hb, hused, -, hst⟩ := dev_spec h.stocked hd
      simp only [hb]
      refine ⟨⟨hst, ?_⟩, trivial, trivial⟩
      simp only [hused, List.map_append, List.map_cons, List.map_nil, ← List.append_assoc, h.once]
  | pop =>
    simp only [stepIn]
    cases hu : s.1.q.used with
    | nil =>
      rw [input_pop_empty hu]
      exact ⟨⟨h.stocked, by simpa using h.once⟩, rfl, rfl⟩
    | cons c rest =>
      obtain ⟨b, len⟩ := c
      rw [input_pop_spec hL h.stocked hu]
      obtain ⟨-, -, -, -, -, hst⟩ := cycle_spec hL (A := A) h.stocked hu
      refine ⟨⟨hst, ?_⟩, rfl, rfl⟩
      have := h.once
      rw [hu] at this
      simpa [requeue, hu, List.append_assoc] using this

/-- **Input events: exactly once, in order, always stocked — for every history** (any completion
    order, burst, written bytes and reported length; the reported length is ignored by the driver). -/
theorem input_exactly_once_in_order {A : Alloc} (hL : A.Refill) (hI : A.InitSeq)
    (size evSize : Nat) (hb : 1 ≤ evSize) (ops : List InOp) :
    ∃ s, Input.new A size evSize = .ok s ∧
      let r := runIn A (s, ⟨[], []⟩) ops
      r.2.delivered ++ r.1.q.used.map (expectedIn evSize) = r.2.completed
        ∧ StockedQ size evSize r.1.q
        ∧ r.1.q.posted.length + r.1.q.used.length = size
        ∧ (r.1.q.used = [] → r.1.q.posted.length = size ∧ r.2.delivered = r.2.completed) := by
  obtain ⟨s, hnew, hs, hbs, hst, hu⟩ := input_new hI size evSize hb
  refine ⟨s, hnew, ?_⟩
  have key : ∀ (ops : List InOp) (s : Input × Hist), GoodIn s →
      GoodIn (runIn A s ops) ∧ (runIn A s ops).1.size = s.1.size ∧ (runIn A s ops).1.evSize = s.1.evSize := by
    intro ops
    induction ops with
    | nil => intro s h; exact ⟨h, rfl, rfl⟩
    | cons op ops ih =>
      intro s h
      obtain ⟨g, e1, e2⟩ := stepIn_good hL h op
      obtain ⟨g', e1', e2'⟩ := ih _ g
      exact ⟨g', e1'.trans e1, e2'.trans e2⟩
  have h0 : GoodIn (s, (⟨[], []⟩ : Hist)) := ⟨by rw [hs, hbs]; exact hst, by simp [hu]⟩
  obtain ⟨g, e1, e2⟩ := key ops _ h0
  simp only at e1 e2
  have gst := g.stocked
  rw [e1, e2, hs, hbs] at gst
  have gon := g.once
  rw [e2, hbs] at gon
  refine ⟨gon, gst, gst.count, fun hu' => ⟨gst.full_when_idle hu', ?_⟩⟩
  rw [hu'] at gon; simpa using gon

/-! ## `VirtIOSound::latest_notification` -/

/-- `latest_notification` is `OwningQueue::poll` with the notification parser, so everything above
    applies; with a completion pending its answer is the parser's verdict on exactly the delivered
    bytes (or `IoError` for an oversized length), after the buffer was re-posted. -/
theorem latest_notification_spec {A : Alloc} (hL : A.Refill) {o : OQ} (h : StockedQ o.size o.bufSize o.q)
    {b : Buf} {len : Nat} {rest : List (Buf × Nat)} (hu : o.q.used = (b, len) :: rest) :
    latestNotification A o =
      ({ o with q := requeue o.bufSize o.q, notifies := o.notifies + 1 },
        resultOf ((expected o.bufSize (b, len)).bytes.bind sndHandler),
        some (expected o.bufSize (b, len))) :=
  poll_spec hL h hu sndHandler

theorem sndHandler_known (bs : List Nat) (hl : bs.length = 8)
    (hc : le32 (bs.take 4) = 0x1000 ∨ le32 (bs.take 4) = 0x1001 ∨ le32 (bs.take 4) = 0x1100 ∨ le32 (bs.take 4) = 0x1101) :
    sndHandler bs = .ok (some (le32 (bs.take 4), le32 (bs.drop 4))) := by
  simp [sndHandler, hl, hc]

theorem sndHandler_wrong_size (bs : List Nat) (hl : bs.length ≠ 8) : sndHandler bs = .ok none := by
  simp [sndHandler, hl]

/-! ## non-vacuity and witnesses -/

example : Alloc.stack.Refill ∧ Alloc.stack.InitSeq := ⟨stack_lifo.refill, stack_initSeq⟩

/-- Even a first-in-first-out free list satisfies `Refill` (the freed descriptor is the only free
    one), although it is not LIFO: the wrappers' `assert_eq!` does not depend on LIFO order as long
    as the queue is kept fully stocked. -/
example : Alloc.fifo.Refill ∧ ¬ Alloc.fifo.Lifo := ⟨fun _ => rfl, fifo_not_lifo⟩

/-- …whereas an allocator that does *not* return the freed descriptor makes the assertion fire
    (the panic outcome is modelled, not totalised away). -/
def Alloc.perverse : Alloc where
  take | [] => none | t :: f => some (t + 1, f)
  give f t := t :: f

def demoOQ (A : Alloc) : OQ × PollOut (List Nat) :=
  match OQ.new Alloc.stack 4 8 with
  | .error _ => (⟨0, 0, AQ.init 0, 0⟩, .none)
  | .ok o =>
    match o.q.devComplete 2 [7, 7, 7] 3 with
    | none => (o, .none)
    | some q => let r := ({ o with q := q } : OQ).poll A (fun bs => .ok (some bs)); (r.1, r.2.1)

example : (demoOQ Alloc.stack).2 = .val [7, 7, 7] := by decide
example : (demoOQ Alloc.perverse).2 = .fault .panic := by decide
example : (demoOQ Alloc.stack).1.q.posted.map (·.token) = [0, 1, 3, 2] := by decide

/-- a flood on a queue of 2 (tokens completed out of order, a burst of 2, an oversized and an
    under-sized length): delivered tokens and lengths follow the completion order -/
def demoOps : List (EvOp (List Nat)) :=
  [.dev 1 [1] 1, .dev 0 [2, 2] 2, .poll (fun bs => .ok (some bs)), .poll (fun _ => .error .invalidParam),
   .poll (fun bs => .ok (some bs)), .dev 0 [3, 3, 3] 9, .poll (fun bs => .ok (some bs)), .dev 1 [] 0,
   .dev 0 [4] 1, .poll (fun _ => .ok none), .poll (fun bs => .ok (some bs))]

def demoRun : OQ × Hist :=
  match OQ.new Alloc.stack 2 3 with
  | .error _ => (⟨0, 0, AQ.init 0, 0⟩, ⟨[], []⟩)
  | .ok o => runOQ Alloc.stack (o, ⟨[], []⟩) demoOps

example : demoRun.2.delivered.map (fun d => (d.token, d.len)) = [(1, 1), (0, 2), (1, 9), (1, 0), (0, 1)] := by decide
example : demoRun.2.completed.map (fun d => (d.token, d.len)) = [(1, 1), (0, 2), (1, 9), (1, 0), (0, 1)] := by decide
example : demoRun.1.q.posted.length = 2 ∧ demoRun.1.q.used = [] := by decide
/-- the oversized completion was reported as an error, and its buffer is posted again -/
example : (demoRun.2.delivered.map (fun d => match d.bytes with | .ok _ => true | .error _ => false))
    = [true, true, false, true, true] := by decide

end VirtioVerif.Props.C19Drivers
