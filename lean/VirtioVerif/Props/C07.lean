import VirtioVerif.Lemmas.QueueReach
import VirtioVerif.Props.C03Inv
/-!
# C07 — a misbehaving device cannot corrupt driver state

Scope of the model: the *logic* (which indices index what, what is passed to `unshare`, what the
results depend on), not the memory safety of the `unsafe` blocks themselves (partial; see DESIGN).

* Device-owned areas (used ring, `used.idx`, `used.flags`, `avail_event`): the device steps of
  `Queue.Op` take ARBITRARY values, so `C03Inv.reachable_inv` / `reachable_no_panic` already quantify
  over every device behaviour there: whatever ids, lengths and index jumps the device reports, every
  driver call of a contract-following caller ends in a normal result or an error, never a panic, and
  the structural invariant (hence exact descriptor accounting) is preserved.  They are restated here.
* Driver-owned device-visible areas (descriptor table, available ring, `avail.idx`, `avail.flags`,
  `used_event`), which the device must not write: **non-interference** — results, platform calls,
  stores and the driver-private successor state do not depend on what these areas contain.
-/
namespace VirtioVerif.Props.C07
open VirtioVerif VirtioVerif.Queue

/-- equal except for the driver-owned device-visible areas -/
structure PrivEq (a b : Q) : Prop where
  n : a.n = b.n
  indirect : a.indirect = b.indirect
  eventIdx : a.eventIdx = b.eventIdx
  ap : a.ap = b.ap
  numUsed : a.numUsed = b.numUsed
  freeHead : a.freeHead = b.freeHead
  shadow : a.shadow = b.shadow
  availIdx : a.availIdx = b.availIdx
  lastUsedIdx : a.lastUsedIdx = b.lastUsedIdx
  indirectLists : a.indirectLists = b.indirectLists
  usedFlags : a.usedFlags = b.usedFlags
  usedIdx : a.usedIdx = b.usedIdx
  usedRing : a.usedRing = b.usedRing
  availEvent : a.availEvent = b.availEvent
  shareCtr : a.shareCtr = b.shareCtr
  out : a.out = b.out

theorem PrivEq.refl (a : Q) : PrivEq a a := by constructor <;> rfl

/-- scribbling over the driver-owned areas yields a `PrivEq` state -/
theorem scribble_privEq (q : Q) (i : Nat) (d : Desc) (s v w : Nat) :
    PrivEq q (((q.devScribbleDesc i d).devScribbleRing s v).devScribbleIdx w) := by
  constructor <;> rfl

theorem PrivEq.get {a b : Q} (h : PrivEq a b) (i : Nat) : a.get i = b.get i := by
  simp [Q.get, h.shadow]

theorem privEq_setShadow {a b : Q} (h : PrivEq a b) (i : Nat) (d : Desc) :
    PrivEq (a.setShadow i d) (b.setShadow i d) := by
  constructor <;> simp [Q.setShadow, h.n, h.indirect, h.eventIdx, h.ap, h.numUsed, h.freeHead, h.shadow,
    h.availIdx, h.lastUsedIdx, h.indirectLists, h.usedFlags, h.usedIdx, h.usedRing, h.availEvent, h.shareCtr, h.out]

theorem privEq_writeDesc {a b : Q} (h : PrivEq a b) (i : Nat) :
    PrivEq (a.writeDesc i).1 (b.writeDesc i).1 ∧ (a.writeDesc i).2 = (b.writeDesc i).2 := by
  refine ⟨?_, by simp [Q.writeDesc, h.get]⟩
  constructor <;> simp [Q.writeDesc, h.n, h.indirect, h.eventIdx, h.ap, h.numUsed, h.freeHead, h.shadow,
    h.availIdx, h.lastUsedIdx, h.indirectLists, h.usedFlags, h.usedIdx, h.usedRing, h.availEvent, h.shareCtr, h.out]

/-- relation on optional results of the chain builders -/
def RelB : Option (Q × Chain × List Ev) → Option (Q × Chain × List Ev) → Prop
  | none, none => True
  | some (a, c, e), some (b, c', e') => PrivEq a b ∧ c = c' ∧ e = e'
  | _, _ => False

theorem addDirectLoop_privEq (bufs : List (Buf × Bool)) :
    ∀ (a b : Q) (last : Nat) (taken : List Nat) (evs : List Ev), PrivEq a b →
      match addDirectLoop a last taken bufs evs, addDirectLoop b last taken bufs evs with
      | none, none => True
      | some (a', l, t, e), some (b', l', t', e') => PrivEq a' b' ∧ l = l' ∧ t = t' ∧ e = e'
      | _, _ => False := by
  induction bufs with
  | nil => intro a b last taken evs h; simp [addDirectLoop, h]
  | cons bw rest ih =>
    intro a b last taken evs h
    obtain ⟨bf, w⟩ := bw
    simp only [addDirectLoop]
    by_cases hz : bf.len = 0
    · simp [hz]
    · simp only [hz, if_false, h.n, h.freeHead]
      by_cases hn : b.n ≤ b.freeHead
      · simp [hn]
      · simp only [hn, if_false]
        have hg := h.get b.freeHead
        simp only [hg, h.shareCtr]
        have h1 : PrivEq
            ({ (a.setShadow b.freeHead ⟨shareAddr b.shareCtr, bf.len, fNEXT ||| (if w then fWRITE else 0), (b.get b.freeHead).next⟩) with
                freeHead := (b.get b.freeHead).next, shareCtr := b.shareCtr + 1 } : Q)
            ({ (b.setShadow b.freeHead ⟨shareAddr b.shareCtr, bf.len, fNEXT ||| (if w then fWRITE else 0), (b.get b.freeHead).next⟩) with
                freeHead := (b.get b.freeHead).next, shareCtr := b.shareCtr + 1 } : Q) := by
          have := privEq_setShadow h b.freeHead ⟨shareAddr b.shareCtr, bf.len, fNEXT ||| (if w then fWRITE else 0), (b.get b.freeHead).next⟩
          constructor <;> simp [this.n, this.indirect, this.eventIdx, this.ap, this.numUsed, this.shadow,
            this.availIdx, this.lastUsedIdx, this.indirectLists, this.usedFlags, this.usedIdx, this.usedRing,
            this.availEvent, this.out]
        obtain ⟨h2, h3⟩ := privEq_writeDesc h1 b.freeHead
        rw [h3]
        exact ih _ _ _ _ _ h2

theorem addDirect_privEq (a b : Q) (ins outs : List Buf) (h : PrivEq a b) :
    RelB (addDirect a ins outs) (addDirect b ins outs) := by
  unfold addDirect
  have := addDirectLoop_privEq (tagBufs ins outs) a b a.freeHead [] [] h
  rw [h.freeHead] at this ⊢
  cases ha : addDirectLoop a b.freeHead [] (tagBufs ins outs) [] with
  | none =>
    cases hb : addDirectLoop b b.freeHead [] (tagBufs ins outs) [] with
    | none => simp [RelB]
    | some y => rw [ha, hb] at this; simp at this
  | some x =>
    cases hb : addDirectLoop b b.freeHead [] (tagBufs ins outs) [] with
    | none => rw [ha, hb] at this; simp at this
    | some y =>
      obtain ⟨a1, l, t, e⟩ := x
      obtain ⟨b1, l', t', e'⟩ := y
      rw [ha, hb] at this
      obtain ⟨p, e1, e2, e3⟩ := this
      subst e1 e2 e3
      simp only [p.n]
      by_cases hn : b1.n ≤ l
      · simp [hn, RelB]
      · simp only [hn, if_false, p.get l]
        have p2 := privEq_setShadow p l { (b1.get l) with flags := clearNext (b1.get l).flags }
        obtain ⟨p3, e3⟩ := privEq_writeDesc p2 l
        have hnu : ((a1.setShadow l { (b1.get l) with flags := clearNext (b1.get l).flags }).writeDesc l).1.numUsed
            = ((b1.setShadow l { (b1.get l) with flags := clearNext (b1.get l).flags }).writeDesc l).1.numUsed := p3.numUsed
        rw [hnu]
        split
        · simp [RelB]
        · simp only [RelB, e3, h.shareCtr, true_and, and_true]
          constructor <;> simp [p3.n, p3.indirect, p3.eventIdx, p3.ap, p3.numUsed, p3.freeHead, p3.shadow,
            p3.availIdx, p3.lastUsedIdx, p3.indirectLists, p3.usedFlags, p3.usedIdx, p3.usedRing, p3.availEvent,
            p3.shareCtr, p3.out]

theorem addIndirect_privEq (a b : Q) (ins outs : List Buf) (h : PrivEq a b) :
    RelB (addIndirect a ins outs) (addIndirect b ins outs) := by
  unfold addIndirect
  simp only [h.n, h.freeHead, h.shareCtr, h.indirectLists, h.get]
  by_cases hn : b.n ≤ b.freeHead
  · simp [hn, RelB]
  · simp only [hn, if_false]
    cases hil : b.indirectLists.getD b.freeHead none with
    | some t => simp [RelB]
    | none =>
      simp only
      let d' : Desc := { addr := shareAddr (b.shareCtr + (tagBufs ins outs).length), len := 16 * (tagBufs ins outs).length,
                         flags := fINDIRECT, next := (b.get b.freeHead).next }
      have p1 := privEq_setShadow h b.freeHead d'
      have p2 : PrivEq
          ({ (a.setShadow b.freeHead d') with
              indirectLists := b.indirectLists.setIfInBounds b.freeHead (some (mkTable b.shareCtr 0 (tagBufs ins outs))),
              freeHead := (b.get b.freeHead).next, shareCtr := b.shareCtr + (tagBufs ins outs).length + 1,
              tables := (b.shareCtr + (tagBufs ins outs).length, mkTable b.shareCtr 0 (tagBufs ins outs)) :: a.tables } : Q)
          ({ (b.setShadow b.freeHead d') with
              indirectLists := b.indirectLists.setIfInBounds b.freeHead (some (mkTable b.shareCtr 0 (tagBufs ins outs))),
              freeHead := (b.get b.freeHead).next, shareCtr := b.shareCtr + (tagBufs ins outs).length + 1,
              tables := (b.shareCtr + (tagBufs ins outs).length, mkTable b.shareCtr 0 (tagBufs ins outs)) :: b.tables } : Q) := by
        constructor <;> simp [p1.n, p1.indirect, p1.eventIdx, p1.ap, p1.numUsed, p1.shadow, p1.availIdx,
          p1.lastUsedIdx, p1.usedFlags, p1.usedIdx, p1.usedRing, p1.availEvent, p1.out]
      obtain ⟨p3, e3⟩ := privEq_writeDesc p2 b.freeHead
      have hnu := p3.numUsed
      simp only [d'] at hnu e3 p3
      rw [hnu]
      split
      · simp [RelB]
      · simp only [RelB, e3, true_and, and_true]
        constructor <;> simp [p3.n, p3.indirect, p3.eventIdx, p3.ap, p3.numUsed, p3.freeHead, p3.shadow,
          p3.availIdx, p3.lastUsedIdx, p3.indirectLists, p3.usedFlags, p3.usedIdx, p3.usedRing, p3.availEvent,
          p3.shareCtr, p3.out]

/-- **Non-interference for `add`**: the result, every emitted event (platform calls and stores),
and the driver-private successor state do not depend on the driver-owned device-visible areas. -/
theorem add_noninterference (a b : Q) (ins outs : List Buf) (h : PrivEq a b) :
    PrivEq (a.add ins outs).1 (b.add ins outs).1 ∧ (a.add ins outs).2 = (b.add ins outs).2 := by
  unfold Q.add
  by_cases hk : ins.length + outs.length = 0
  · simp [hk, h]
  · simp only [hk, if_false]
    have hr : addRefused a (ins.length + outs.length) = addRefused b (ins.length + outs.length) := by
      simp [addRefused, h.numUsed, h.n, h.indirect]
    rw [hr]
    by_cases hf : addRefused b (ins.length + outs.length) = true
    · simp [hf, h]
    · simp only [hf, Bool.false_eq_true, if_false]
      have hb : RelB (buildChain a ins outs) (buildChain b ins outs) := by
        unfold buildChain
        rw [h.indirect]
        split
        · exact addIndirect_privEq a b ins outs h
        · exact addDirect_privEq a b ins outs h
      cases ha : buildChain a ins outs with
      | none =>
        cases hbb : buildChain b ins outs with
        | none => simp [h]
        | some y => rw [ha, hbb] at hb; simp [RelB] at hb
      | some x =>
        cases hbb : buildChain b ins outs with
        | none => rw [ha, hbb] at hb; obtain ⟨_, _, _⟩ := x; simp [RelB] at hb
        | some y =>
          obtain ⟨a1, c, e⟩ := x
          obtain ⟨b1, c', e'⟩ := y
          rw [ha, hbb] at hb
          obtain ⟨p, e1, e2⟩ := hb
          subst e1 e2
          refine ⟨?_, by simp [publish, p.n, p.availIdx]⟩
          constructor <;> simp [publish, p.n, p.indirect, p.eventIdx, p.ap, p.numUsed, p.freeHead, p.shadow,
            p.availIdx, p.lastUsedIdx, p.indirectLists, p.usedFlags, p.usedIdx, p.usedRing, p.availEvent,
            p.shareCtr, p.out]

theorem recycleLoop_privEq (bufs : List (Buf × Bool)) :
    ∀ (a b : Q) (orig : Nat) (next : Option Nat) (evs : List Ev), PrivEq a b →
      match recycleLoop a orig next bufs evs, recycleLoop b orig next bufs evs with
      | none, none => True
      | some (a', n1, e), some (b', n2, e') => PrivEq a' b' ∧ n1 = n2 ∧ e = e'
      | _, _ => False := by
  induction bufs with
  | nil => intro a b orig next evs h; simp [recycleLoop, h]
  | cons bw rest ih =>
    intro a b orig next evs h
    obtain ⟨bf, w⟩ := bw
    simp only [recycleLoop]
    by_cases hz : bf.len = 0
    · simp [hz]
    · simp only [hz, if_false]
      cases next with
      | none => simp
      | some di =>
        simp only [h.n]
        by_cases hn : b.n ≤ di
        · simp [hn]
        · simp only [hn, if_false, h.get di, h.numUsed]
          by_cases hu : b.numUsed = 0
          · simp [hu]
          · simp only [hu, if_false]
            let d' : Desc := { (b.get di) with addr := 0, len := 0, next := if (if hasFlag (b.get di).flags fNEXT then some (b.get di).next else none).isNone then orig else (b.get di).next }
            have p1 := privEq_setShadow h di d'
            have p2 : PrivEq ({ (a.setShadow di d') with numUsed := b.numUsed - 1 } : Q)
                             ({ (b.setShadow di d') with numUsed := b.numUsed - 1 } : Q) := by
              constructor <;> simp [p1.n, p1.indirect, p1.eventIdx, p1.ap, p1.freeHead, p1.shadow, p1.availIdx,
                p1.lastUsedIdx, p1.indirectLists, p1.usedFlags, p1.usedIdx, p1.usedRing, p1.availEvent,
                p1.shareCtr, p1.out]
            obtain ⟨p3, e3⟩ := privEq_writeDesc p2 di
            rw [e3]
            exact ih _ _ _ _ _ p3

def RelR : Option (Q × List Ev) → Option (Q × List Ev) → Prop
  | none, none => True
  | some (a, e), some (b, e') => PrivEq a b ∧ e = e'
  | _, _ => False

theorem indirectFreed_privEq (a b : Q) (head orig : Nat) (h : PrivEq a b) :
    PrivEq (indirectFreed a head orig) (indirectFreed b head orig) := by
  unfold indirectFreed
  simp only [h.get head, h.numUsed, h.indirectLists]
  have p1 := privEq_setShadow h head { (b.get head) with addr := 0, len := 0, next := orig }
  constructor <;> simp [p1.n, p1.indirect, p1.eventIdx, p1.ap, p1.freeHead, p1.shadow, p1.availIdx,
    p1.lastUsedIdx, p1.usedFlags, p1.usedIdx, p1.usedRing, p1.availEvent, p1.shareCtr, p1.out]

theorem recycleIndirect_privEq (a b : Q) (head orig : Nat) (ins outs : List Buf) (h : PrivEq a b) :
    RelR (recycleIndirect a head orig ins outs) (recycleIndirect b head orig ins outs) := by
  unfold recycleIndirect
  rw [h.indirectLists, h.numUsed, h.get head]
  cases b.indirectLists.getD head none with
  | none => simp [RelR]
  | some t =>
    simp only
    by_cases h1 : b.numUsed = 0
    · simp [h1, RelR]
    · by_cases h2 : t.length ≠ ins.length + outs.length
      · simp [h1, h2, RelR]
      · cases h3 : unshareEvs t (tagBufs ins outs) with
        | none => simp [h1, h2, RelR]
        | some l =>
          simp only [h1, h2, if_false, RelR, and_true]
          exact indirectFreed_privEq a b head orig h

theorem recycleDirect_privEq (a b : Q) (head orig : Nat) (ins outs : List Buf) (h : PrivEq a b) :
    RelR (recycleDirect a head orig ins outs) (recycleDirect b head orig ins outs) := by
  unfold recycleDirect
  have := recycleLoop_privEq (tagBufs ins outs) a b orig (some head) [] h
  cases ha : recycleLoop a orig (some head) (tagBufs ins outs) [] with
  | none =>
    cases hb : recycleLoop b orig (some head) (tagBufs ins outs) [] with
    | none => simp [RelR]
    | some y => rw [ha, hb] at this; simp at this
  | some x =>
    cases hb : recycleLoop b orig (some head) (tagBufs ins outs) [] with
    | none => rw [ha, hb] at this; simp at this
    | some y =>
      obtain ⟨a1, n1, e1⟩ := x
      obtain ⟨b1, n2, e2⟩ := y
      rw [ha, hb] at this
      obtain ⟨p, en, ee⟩ := this
      subst en ee
      simp only
      split
      · simp [RelR]
      · simp [RelR, p]

theorem recycle_privEq (a b : Q) (head : Nat) (ins outs : List Buf) (h : PrivEq a b) :
    RelR (recycle a head ins outs) (recycle b head ins outs) := by
  unfold recycle
  have hflag : hasFlag (a.get head).flags fINDIRECT = hasFlag (b.get head).flags fINDIRECT := by rw [h.get]
  by_cases hn : b.n ≤ head
  · have hna : a.n ≤ head := by rw [h.n]; exact hn
    simp [hn, hna, RelR]
  · have hna : ¬ a.n ≤ head := by rw [h.n]; exact hn
    simp only [hn, hna, if_false, hflag, h.freeHead]
    have h0 : PrivEq ({ a with freeHead := head } : Q) ({ b with freeHead := head } : Q) := by
      constructor <;> simp [h.n, h.indirect, h.eventIdx, h.ap, h.numUsed, h.shadow, h.availIdx, h.lastUsedIdx,
        h.indirectLists, h.usedFlags, h.usedIdx, h.usedRing, h.availEvent, h.shareCtr, h.out]
    split
    · exact recycleIndirect_privEq _ _ head b.freeHead ins outs h0
    · exact recycleDirect_privEq _ _ head b.freeHead ins outs h0

/-- **Non-interference for `pop_used`.** -/
theorem pop_noninterference (a b : Q) (tok : Nat) (ins outs : List Buf) (h : PrivEq a b) :
    PrivEq (a.popUsed tok ins outs).1 (b.popUsed tok ins outs).1
      ∧ (a.popUsed tok ins outs).2 = (b.popUsed tok ins outs).2 := by
  unfold Q.popUsed
  have hc : a.canPop = b.canPop := by simp [Q.canPop, h.lastUsedIdx, h.usedIdx]
  have hu : a.usedElem = b.usedElem := by simp [Q.usedElem, h.usedRing, h.n, h.lastUsedIdx]
  rw [hc, hu]
  by_cases h1 : (!b.canPop) = true
  · simp [h1, h]
  · simp only [h1, Bool.false_eq_true, if_false]
    by_cases h2 : b.usedElem.1 % U16 ≠ tok
    · simp [h2, h]
    · simp only [h2, if_false]
      have hr := recycle_privEq a b (b.usedElem.1 % U16) ins outs h
      cases ha : recycle a (b.usedElem.1 % U16) ins outs with
      | none =>
        cases hb : recycle b (b.usedElem.1 % U16) ins outs with
        | none => simp [h]
        | some y => rw [ha, hb] at hr; simp [RelR] at hr
      | some x =>
        cases hb : recycle b (b.usedElem.1 % U16) ins outs with
        | none => rw [ha, hb] at hr; obtain ⟨_, _⟩ := x; simp [RelR] at hr
        | some y =>
          obtain ⟨a1, e1⟩ := x
          obtain ⟨b1, e2⟩ := y
          rw [ha, hb] at hr
          obtain ⟨p, ee⟩ := hr
          subst ee
          simp only
          have hfp : PrivEq (finishPop a1 (b.usedElem.1 % U16)).1 (finishPop b1 (b.usedElem.1 % U16)).1
              ∧ (finishPop a1 (b.usedElem.1 % U16)).2 = (finishPop b1 (b.usedElem.1 % U16)).2 := by
            unfold finishPop
            simp only [p.eventIdx, p.lastUsedIdx]
            split
            · refine ⟨?_, rfl⟩
              constructor <;> simp [p.n, p.indirect, p.eventIdx, p.ap, p.numUsed, p.freeHead, p.shadow, p.availIdx,
                p.lastUsedIdx, p.indirectLists, p.usedFlags, p.usedIdx, p.usedRing, p.availEvent, p.shareCtr, p.out]
            · refine ⟨?_, rfl⟩
              constructor <;> simp [p.n, p.indirect, p.eventIdx, p.ap, p.numUsed, p.freeHead, p.shadow, p.availIdx,
                p.lastUsedIdx, p.indirectLists, p.usedFlags, p.usedIdx, p.usedRing, p.availEvent, p.shareCtr, p.out]
          exact ⟨hfp.1, by rw [hfp.2]⟩

/-- the queries do not depend on the driver-owned areas either -/
theorem queries_noninterference (a b : Q) (h : PrivEq a b) :
    a.canPop = b.canPop ∧ a.peekUsed = b.peekUsed ∧ a.availableDesc = b.availableDesc
      ∧ a.shouldNotify = b.shouldNotify := by
  refine ⟨by simp [Q.canPop, h.lastUsedIdx, h.usedIdx],
    by simp [Q.peekUsed, Q.canPop, h.lastUsedIdx, h.usedIdx, h.usedRing, h.n],
    by simp [Q.availableDesc, h.indirect, h.numUsed, h.n],
    by simp [Q.shouldNotify, h.eventIdx, h.availIdx, h.availEvent, h.usedFlags]⟩

/-! ### hostile device writes to its own areas: restatement for every history -/

/-- Whatever a device writes into the used ring (ids, lengths), the used index (jumps), its flags
and its event index — the device steps of `Op` take arbitrary values — a contract-following caller
never sees a panic and the driver's bookkeeping stays exact. -/
theorem hostile_device_harmless (n : Nat) (ind ev ap : Bool) (hn : 0 < n) (hle : n ≤ 32768) (ops : List Op)
    (hok : AllOk (Q.init n ind ev ap) ops) :
    Res.panic ∉ results (Q.init n ind ev ap) ops
      ∧ (run (Q.init n ind ev ap) ops).numUsed = (chainDescs (run (Q.init n ind ev ap) ops).out).length
      ∧ (chainDescs (run (Q.init n ind ev ap) ops).out).Nodup := by
  have hi := C03Inv.reachable_inv n ind ev ap hn hle ops hok
  refine ⟨C03Inv.reachable_no_panic n ind ev ap hn hle ops hok, hi.numUsed, ?_⟩
  obtain ⟨free, _, hnd, _, _⟩ := hi.free
  exact (List.nodup_append.mp hnd).2.1

/-- A used-ring id that is out of range or not outstanding cannot be consumed by a caller holding
a different token: the poll fails with `WrongToken` and changes nothing. -/
theorem foreign_id_rejected (q : Q) (tok : Nat) (ins outs : List Buf) (hc : q.canPop = true)
    (hid : q.usedElem.1 % U16 ≠ tok) : q.popUsed tok ins outs = (q, .err .wrongToken, []) :=
  C03.pop_wrongToken q tok ins outs hc hid

end VirtioVerif.Props.C07
