import VirtioVerif.Model.AbsQueue
import VirtioVerif.Model.EvQueue
import VirtioVerif.Props.CmdQueueRefines
/-!
# The event / console queue abstraction (`EvQueue`) is the abstract queue (`AbsQueue`)

`Model/EvQueue.lean` (console C15, event queues C19) models one-descriptor chains with an explicit
descriptor allocator; with the allocator of `queue.rs` (`Alloc.stack`, whose `InitSeq` / `Lifo`
behaviour is proved for the concrete queue in `Props/C19.lean` and `Props/C19Init.lean`) every
`EvQueue` operation is matched by the `AbsQueue` operation on the same token with the same outcome.
Together with `Props/QueueRefines.lean` (concrete queue ⊑ `AbsQueue`) this links the console and
event-queue models to the concrete queue.
-/
namespace VirtioVerif.Props.EvQueueRefines
open VirtioVerif VirtioVerif.EvQueue
open VirtioVerif.Props.CmdQueueRefines (nodup_map_inj sum_perm)

abbrev EQ := EvQueue.AQ
abbrev AQ := AbsQueue.Q

/-- a one-descriptor chain: one device-writable segment of `cap` bytes, or one device-readable
segment holding the driver's bytes -/
def chainOf (b : Buf) : AbsQueue.Chain :=
  if b.writable then { rd := [], wr := [b.cap] } else { rd := [b.data], wr := [] }

def live (q : EQ) : List Buf := q.used.map (·.1) ++ q.posted

def nm (b : Buf) : Nat × AbsQueue.Chain := (b.token, chainOf b)

structure R (q : EQ) (a : AQ) : Prop where
  size : a.size = q.size
  out : a.out.Perm ((live q).map nm)
  used : a.used.map (fun d => (d.tok, d.len)) = q.used.map (fun u => (u.1.token, u.2))
  nodup : ((live q).map (·.token)).Nodup
  freeOk : ∀ t ∈ q.free, t < q.size ∧ ∀ b ∈ live q, b.token ≠ t
  freeNodup : q.free.Nodup
  shape : ∀ b ∈ live q, b.cap ≠ 0 ∧ (b.writable = false → b.data ≠ [])

theorem chainOf_segs (b : Buf) : (chainOf b).segs = 1 := by
  unfold chainOf; split <;> rfl

theorem cost_one (ind : Bool) (b : Buf) : AbsQueue.cost ind (chainOf b) = 1 := by
  simp [AbsQueue.cost, chainOf_segs]

theorem sum_ones {α : Type} (l : List α) : (l.map fun _ => 1).sum = l.length := by
  induction l with
  | nil => rfl
  | cons _ l ih => simp [ih]; omega

theorem numUsed_eq {q a} (r : R q a) : a.numUsed = q.inUse := by
  have := sum_perm (r.out.map (fun p => AbsQueue.cost a.indirect p.2))
  simp only [AbsQueue.Q.numUsed]
  rw [this]
  simp only [List.map_map, Function.comp_def, nm, cost_one, sum_ones]
  simp [live, AQ.inUse, Nat.add_comm]

theorem init_R (n : Nat) (ind : Bool) : R (AQ.init n) (AbsQueue.Q.init n ind) := by
  refine ⟨rfl, ?_, rfl, ?_, ?_, ?_, ?_⟩
  · simp [live, AQ.init, AbsQueue.Q.init]
  · simp [live, AQ.init]
  · intro t ht
    simp only [AQ.init, List.mem_range'_1] at ht
    exact ⟨by simp only [AQ.init]; omega, by intro b hb; simp [live, AQ.init] at hb⟩
  · simp [AQ.init, List.nodup_range']
  · intro b hb; simp [live, AQ.init] at hb

/-- **add** with the free-list allocator of `queue.rs` -/
theorem add_sim {q a} (r : R q a) (owner cap : Nat) (data : List Nat) (w : Bool) (t : Nat) (q' : EQ)
    (h : q.add Alloc.stack owner cap data w = .ok (t, q')) (hd : w = false → data ≠ []) :
    ∃ a', a.add t (chainOf ⟨t, owner, cap, data, w⟩) = .ok a' ∧ R q' a' := by
  simp only [AQ.add] at h
  split at h
  · simp at h
  · rename_i hfull
    split at h
    · simp at h
    · rename_i hcap
      cases hf : q.free with
      | nil => simp [hf, Alloc.stack] at h
      | cons t0 f =>
        simp only [hf, Alloc.stack, Except.ok.injEq, Prod.mk.injEq] at h
        obtain ⟨rfl, rfl⟩ := h
        have ht0 := r.freeOk t0 (by simp [hf])
        have hseg := chainOf_segs ⟨t0, owner, cap, data, w⟩
        have hnf : a.full 1 = false := by
          simp only [AbsQueue.Q.full, numUsed_eq r, r.size, Bool.or_eq_false_iff, decide_eq_false_iff_not,
            Bool.and_eq_false_iff, Bool.not_eq_false']
          refine ⟨⟨by omega, ?_⟩, Or.inr (by omega)⟩
          have : 0 < q.size := by omega
          omega
        have hnt : a.hasTok t0 = false := by
          simp only [AbsQueue.Q.hasTok, List.any_eq_false, beq_iff_eq]
          intro p hp
          obtain ⟨b, hb, rfl⟩ := List.mem_map.1 (r.out.subset hp)
          exact ht0.2 b hb
        have hshape : ((chainOf ⟨t0, owner, cap, data, w⟩).rd.any (·.isEmpty) || (chainOf ⟨t0, owner, cap, data, w⟩).wr.any (· == 0)) = false := by
          unfold chainOf
          cases w with
          | true => simp [hcap]
          | false => simpa using hd rfl
        have hlt : ¬ a.size ≤ t0 := by rw [r.size]; exact Nat.not_le.2 ht0.1
        simp only [AbsQueue.Q.add, hseg, Nat.succ_ne_zero, ↓reduceIte, hnf, Bool.false_eq_true, hshape, hnt,
          Bool.or_false, decide_eq_true_eq, hlt]
        refine ⟨_, rfl, ?_⟩
        have lx : ∀ z, (z ∈ q.used.map (·.1) ∨ z ∈ q.posted) → z ∈ live q := by
          intro z hz; simp only [live, List.mem_append]; exact hz
        have hfn := r.freeNodup
        rw [hf, List.nodup_cons] at hfn
        refine ⟨r.size, ?_, r.used, ?_, ?_, hfn.2, ?_⟩
        · simp only [live, List.map_append, List.map_cons, List.map_nil, ← List.append_assoc]
          refine List.Perm.append ?_ (by simp [nm])
          simpa [live] using r.out
        · have h0 := r.nodup
          simp only [live, List.map_append, List.map_cons, List.map_nil, ← List.append_assoc] at h0 ⊢
          refine List.nodup_append.2 ⟨h0, by simp, ?_⟩
          intro x hx y hy
          simp only [List.mem_singleton] at hy
          subst hy
          rcases List.mem_append.1 hx with hx | hx
          · obtain ⟨z, hz, rfl⟩ := List.mem_map.1 hx
            exact ht0.2 z (lx z (Or.inl hz))
          · obtain ⟨z, hz, rfl⟩ := List.mem_map.1 hx
            exact ht0.2 z (lx z (Or.inr hz))
        · intro x hx
          have hxf : x ∈ q.free := by rw [hf]; exact List.mem_cons_of_mem _ hx
          refine ⟨(r.freeOk x hxf).1, ?_⟩
          intro b hb
          simp only [live, List.mem_append, List.mem_singleton] at hb
          rcases hb with hb | hb | rfl
          · exact (r.freeOk x hxf).2 b (lx b (Or.inl hb))
          · exact (r.freeOk x hxf).2 b (lx b (Or.inr hb))
          · simp only; intro e; exact hfn.1 (e ▸ hx)
        · intro b hb
          simp only [live, List.mem_append, List.mem_singleton] at hb
          rcases hb with hb | hb | rfl
          · exact r.shape b (lx b (Or.inl hb))
          · exact r.shape b (lx b (Or.inr hb))
          · exact ⟨hcap, hd⟩

/-- **add refused**: `QueueFull` in both -/
theorem add_full {q a} (r : R q a) (owner cap : Nat) (data : List Nat) (w : Bool) (t : Nat)
    (h : q.add Alloc.stack owner cap data w = .error (.err .queueFull)) :
    a.add t (chainOf ⟨t, owner, cap, data, w⟩) = .error .queueFull := by
  simp only [AQ.add] at h
  split at h
  · rename_i hfull
    have hf : a.full 1 = true := by
      simp only [AbsQueue.Q.full, numUsed_eq r, r.size, Bool.or_eq_true, decide_eq_true_eq]
      left; left; omega
    simp [AbsQueue.Q.add, chainOf_segs, hf]
  · split at h
    · simp at h
    · split at h <;> simp at h

theorem eraseIdx_eq {α : Type} (l : List α) (i : Nat) : l.take i ++ l.drop (i + 1) = l.eraseIdx i :=
  (List.eraseIdx_eq_take_drop_succ l i).symm

/-- **device completion** of the `i`-th posted chain, in any order, with any data and length -/
theorem complete_sim {q a} (r : R q a) (i : Nat) (data : List Nat) (len : Nat) (q' : EQ) (b : Buf)
    (hb : q.posted[i]? = some b) (h : q.devComplete i data len = some q')
    (dd : List AbsQueue.Bytes) (hdd : dd.map List.length = (chainOf b).wr) :
    ∃ a', a.complete ⟨b.token, len, dd⟩ = some a' ∧ R q' a' := by
  simp only [AQ.devComplete, hb, Option.some.injEq] at h
  subst h
  have hmem : b ∈ q.posted := List.mem_of_getElem? hb
  have hlive : b ∈ live q := by simp [live, hmem]
  have hin : nm b ∈ a.out := r.out.symm.subset (List.mem_map.2 ⟨b, hlive, rfl⟩)
  have hfind : a.out.find? (fun p => p.1 == b.token) = some (nm b) := by
    cases hf : a.out.find? (fun p => p.1 == b.token) with
    | none =>
      have := List.find?_eq_none.1 hf _ hin
      simp [nm] at this
    | some p =>
      have hp := List.mem_of_find?_eq_some hf
      have hp1 : p.1 = b.token := by simpa using List.find?_some hf
      obtain ⟨y, hy, rfl⟩ := List.mem_map.1 (r.out.subset hp)
      rw [nodup_map_inj (·.token) _ r.nodup y hy b hlive hp1]
  have hnot : a.used.any (fun u => u.tok == b.token) = false := by
    simp only [List.any_eq_false, beq_iff_eq]
    intro u hu heq
    have : (u.tok, u.len) ∈ a.used.map (fun d => (d.tok, d.len)) := List.mem_map.2 ⟨u, hu, rfl⟩
    rw [r.used] at this
    obtain ⟨v, hv, hvv⟩ := List.mem_map.1 this
    simp only [Prod.mk.injEq] at hvv
    have hvu : v.1 ∈ q.used.map (·.1) := List.mem_map.2 ⟨v, hv, rfl⟩
    have hn := r.nodup
    simp only [live, List.map_append] at hn
    exact (List.nodup_append.1 hn).2.2 _ (List.mem_map.2 ⟨_, hvu, rfl⟩) _ (List.mem_map.2 ⟨_, hmem, rfl⟩) (by rw [hvv.1, heq])
  have hshape : (dd.map List.length != (nm b).2.wr) = false := by simp [nm, hdd]
  simp only [AbsQueue.Q.complete, hfind, hnot, Bool.false_eq_true, ↓reduceIte, hshape]
  refine ⟨_, rfl, ?_⟩
  -- the completed buffer keeps its token, capacity, direction (and, if readable, its data)
  let b' : Buf := { b with data := if b.writable then data.take b.cap else b.data }
  have hb' : nm b' = nm b := by
    simp only [nm, b', chainOf]
    cases hw : b.writable <;> simp [hw]
  have hperm : (live { q with posted := q.posted.take i ++ q.posted.drop (i + 1), used := q.used ++ [(b', len)] }).map nm
      |>.Perm ((live q).map nm) := by
    simp only [live, List.map_append, List.map_cons, List.map_nil, List.append_assoc, List.singleton_append, hb',
      eraseIdx_eq]
    refine List.Perm.append_left _ ?_
    have := ((CmdQueueRefines.perm_eraseIdx _ _ _ hb).map nm).symm
    simpa using this
  have hpermT : (live { q with posted := q.posted.take i ++ q.posted.drop (i + 1), used := q.used ++ [(b', len)] }).map (·.token)
      |>.Perm ((live q).map (·.token)) := by
    have := hperm.map (·.1)
    simpa [nm, List.map_map, Function.comp_def] using this
  have hsub : ∀ x ∈ live { q with posted := q.posted.take i ++ q.posted.drop (i + 1), used := q.used ++ [(b', len)] },
      x = b' ∨ x ∈ live q := by
    intro x hx
    simp only [live, List.map_append, List.map_cons, List.map_nil, List.mem_append, List.mem_singleton, eraseIdx_eq] at hx
    rcases hx with (hx | rfl) | hx
    · right; simp only [live, List.mem_append]; exact Or.inl hx
    · left; rfl
    · right; simp only [live, List.mem_append]; exact Or.inr (List.mem_of_mem_eraseIdx hx)
  refine ⟨r.size, r.out.trans hperm.symm, ?_, hpermT.nodup_iff.2 r.nodup, ?_, r.freeNodup, ?_⟩
  · simp only [List.map_append, List.map_cons, List.map_nil, r.used, b']
  · intro t ht
    refine ⟨(r.freeOk t ht).1, ?_⟩
    intro x hx
    rcases hsub x hx with rfl | hx
    · exact (r.freeOk t ht).2 b hlive
    · exact (r.freeOk t ht).2 x hx
  · intro x hx
    rcases hsub x hx with rfl | hx
    · have := r.shape b hlive
      refine ⟨this.1, ?_⟩
      intro hw
      simp only [b'] at hw ⊢
      simp only [hw, Bool.false_eq_true, ↓reduceIte]
      exact this.2 hw
    · exact r.shape x hx

/-- **pop**: consuming the oldest completion is the abstract pop of its token, with the length the
device recorded; the descriptor goes back on top of the free list -/
theorem pop_sim {q a} (r : R q a) (t len : Nat) (b : Buf) (q' : EQ)
    (h : q.popUsed Alloc.stack t = .ok (len, b, q')) (hlt : t < q.size) :
    ∃ a' d, a.pop t = .ok (a', d) ∧ d.len = len ∧ d.tok = t ∧ b.token = t ∧ R q' a' := by
  simp only [AQ.popUsed] at h
  cases hu : q.used with
  | nil => simp [hu] at h
  | cons u0 rest =>
    obtain ⟨b0, l0⟩ := u0
    simp only [hu] at h
    split at h
    · simp at h
    · rename_i htok
      simp only [ne_eq, Decidable.not_not] at htok
      simp only [Except.ok.injEq, Prod.mk.injEq] at h
      obtain ⟨rfl, rfl, rfl⟩ := h
      have hused := r.used
      rw [hu] at hused
      cases hau : a.used with
      | nil => simp [hau] at hused
      | cons d drest =>
        simp only [hau, List.map_cons, List.cons.injEq, Prod.mk.injEq] at hused
        obtain ⟨⟨hdt, hdl⟩, hrest⟩ := hused
        have hne : (d.tok != t) = false := by simp [hdt, htok]
        simp only [AbsQueue.Q.pop, hau, hne, Bool.false_eq_true, ↓reduceIte]
        refine ⟨_, d, rfl, hdl, by rw [hdt, htok], htok, ?_⟩
        have hl : live q = b0 :: (rest.map (·.1) ++ q.posted) := by simp [live, hu]
        have hb0 : b0 ∈ live q := by rw [hl]; simp
        have hn := r.nodup
        rw [hl, List.map_cons, List.nodup_cons] at hn
        have hfilter : ((live q).map nm).filter (fun p => p.1 != t)
            = (rest.map (·.1) ++ q.posted).map nm := by
          rw [hl, List.map_cons, List.filter_cons]
          have h1 : ((nm b0).1 != t) = false := by simp [nm, htok]
          simp only [h1, Bool.false_eq_true, ↓reduceIte]
          apply List.filter_eq_self.2
          intro p hp
          obtain ⟨y, hy, rfl⟩ := List.mem_map.1 hp
          simp only [nm, bne_iff_ne, ne_eq]
          intro hcontra
          exact hn.1 (List.mem_map.2 ⟨y, hy, by rw [hcontra, htok]⟩)
        refine ⟨r.size, ?_, hrest, ?_, ?_, ?_, ?_⟩
        · have := r.out.filter (fun p => p.1 != t)
          rw [hfilter] at this
          simpa [live] using this
        · simpa [live] using hn.2
        · intro x hx
          simp only [Alloc.stack, List.mem_cons] at hx
          rcases hx with rfl | hx
          · refine ⟨hlt, ?_⟩
            intro y hy
            have hy' : y ∈ rest.map (·.1) ++ q.posted := by simpa [live] using hy
            intro e
            exact hn.1 (List.mem_map.2 ⟨y, hy', by rw [e, htok]⟩)
          · refine ⟨(r.freeOk x hx).1, ?_⟩
            intro y hy
            exact (r.freeOk x hx).2 y (by rw [hl]; exact List.mem_cons_of_mem _ (by simpa [live] using hy))
        · simp only [Alloc.stack, List.nodup_cons]
          refine ⟨?_, r.freeNodup⟩
          intro hmem
          exact (r.freeOk t hmem).2 b0 hb0 htok
        · intro y hy
          exact r.shape y (by rw [hl]; exact List.mem_cons_of_mem _ (by simpa [live] using hy))

/-- **pop, nothing ready** -/
theorem pop_notReady {q a} (r : R q a) (t : Nat) (h : q.popUsed Alloc.stack t = .error (.err .notReady)) :
    a.pop t = .error .notReady := by
  simp only [AQ.popUsed] at h
  cases hu : q.used with
  | nil =>
    have := r.used
    rw [hu] at this
    have ha : a.used = [] := by simpa using this
    simp [AbsQueue.Q.pop, ha]
  | cons u0 rest =>
    simp only [hu] at h
    split at h <;> simp at h

/-- **pop with another token**: `WrongToken` in both (tokens are the real descriptor indices here, so
no naming hypothesis is needed) -/
theorem pop_wrongToken {q a} (r : R q a) (t : Nat) (h : q.popUsed Alloc.stack t = .error (.err .wrongToken)) :
    a.pop t = .error .wrongToken := by
  simp only [AQ.popUsed] at h
  cases hu : q.used with
  | nil => simp [hu] at h
  | cons u0 rest =>
    simp only [hu] at h
    split at h
    · rename_i htok
      have hused := r.used
      rw [hu] at hused
      cases hau : a.used with
      | nil => simp [hau] at hused
      | cons d drest =>
        simp only [hau, List.map_cons, List.cons.injEq, Prod.mk.injEq] at hused
        have hne : (d.tok != t) = true := by simp only [bne_iff_ne, ne_eq, hused.1.1]; exact htok
        simp [AbsQueue.Q.pop, hau, hne]
    · simp at h

/-- non-vacuity: a fresh 4-entry queue is related to the fresh abstract queue and the first `add`
succeeds in both with token 0 -/
example : R (AQ.init 4) (AbsQueue.Q.init 4 false)
    ∧ (∃ q', (AQ.init 4).add Alloc.stack 0 16 [] true = .ok (0, q'))
    ∧ (∃ a', (AbsQueue.Q.init 4 false).add 0 (chainOf ⟨0, 0, 16, [], true⟩) = .ok a') :=
  ⟨init_R 4 false, ⟨_, rfl⟩, ⟨_, rfl⟩⟩

end VirtioVerif.Props.EvQueueRefines
