import VirtioVerif.Generated.PublishSkeleton
/-!
# C02 (source-text obligations)

`Generated/PublishSkeleton.lean` is regenerated from `/repo/src/queue.rs` on every run.  These
theorems state, on the *current* source text, that the publishing functions have the shape the
model assumes: chain construction and the ring-slot store come first, then a `fence(SeqCst)`, then
the single store of the available index with at least `Release` ordering; no other raw access to
the driver area exists; every device-visible store is followed by its observation hook.
-/
namespace VirtioVerif.Props.C02Skeleton
open VirtioVerif.Generated.Publish

def storeOrdOk : Ord → Bool
  | .release => true | .seqCst => true | _ => false

def isStore : Tok → Bool
  | .ringStore | .idxStore _ | .flagsStore _ | .usedEventStore _ | .descStore => true
  | _ => false

/-- every device-visible store is immediately followed by the observation hook -/
def hooked : List Tok → Bool
  | [] => true
  | t :: rest =>
    (if isStore t then (match rest with | .hook :: _ => true | _ => false) else true) && hooked rest

def isFence : Tok → Bool
  | .fence _ => true
  | _ => false

/-- additional fences only strengthen the ordering: they are disregarded everywhere except for the one
`fence(SeqCst)` that must separate the ring-slot store from the index store -/
def beforeFenceOk : List Tok → Bool
  | [] => true
  | t :: rest => (match t with
      | .addIndirect | .addDirect | .ringStore | .hook | .fence _ => true
      | _ => false) && beforeFenceOk rest

/-- after the fence: only the private index bump, one index store (Release or stronger), its hook -/
def afterFenceOk (l : List Tok) : Bool :=
  match l.filter (fun t => t != .availIdxBump && t != .hook && !isFence t) with
  | [.idxStore o] => storeOrdOk o
  | _ => false

/-- split at the **last** `fence(SeqCst)` (the one nearest to the index store) -/
def splitAtFence : List Tok → Option (List Tok × List Tok)
  | [] => none
  | t :: rest =>
    match splitAtFence rest with
    | some (a, b) => some (t :: a, b)
    | none => if t == .fence .seqCst then some ([], rest) else none

def isIdxStore : Tok → Bool
  | .idxStore _ => true
  | _ => false

def addOk (l : List Tok) : Bool :=
  -- the fence that counts is the last `fence(SeqCst)` before the index store
  let beforeIdx := l.takeWhile (fun t => !isIdxStore t)
  let fromIdx := l.dropWhile (fun t => !isIdxStore t)
  match (splitAtFence beforeIdx).map (fun (a, b) => (a, b ++ fromIdx)) with
  | none => false
  | some (pre, post) =>
    beforeFenceOk pre && pre.contains .ringStore && (pre.contains .addDirect || pre.contains .addIndirect)
      && afterFenceOk post

def builderOk (l : List Tok) : Bool :=
  l.all (fun t => t == .setBuf || t == .writeDesc) && l.getLast? == some .writeDesc && l.contains .setBuf

def popOk (l : List Tok) : Bool :=
  l.all (fun t => match t with
    | .recycle | .lastUsedBump | .hook | .fence _ => true
    | .usedEventStore o => storeOrdOk o
    | _ => false)
  && l.contains .recycle

def notifyOk (l : List Tok) : Bool :=
  match l.filter (fun t => !isFence t) with
  | [.flagsStore o, .hook] => storeOrdOk o
  | _ => false

def recycleOk (l : List Tok) : Bool :=
  l.all (fun t => t == .unshare || t == .writeDesc)

/-- `add`: chain + ring slot, `fence(SeqCst)`, then the one index store (≥ Release), nothing after. -/
theorem add_shape : addOk add = true := by decide
theorem add_hooked : hooked add = true := by decide
theorem writeDesc_shape : writeDesc = [.descStore, .hook] := by decide
theorem addDirect_shape : builderOk addDirect = true := by decide
theorem addIndirect_shape : builderOk addIndirect = true := by decide
theorem popUsed_shape : popOk popUsed = true ∧ hooked popUsed = true := by decide
theorem setDevNotify_shape : notifyOk setDevNotify = true := by decide
theorem recycle_shape : recycleOk recycleDescriptors = true := by decide
theorem no_unknown_access :
    (add ++ addDirect ++ addIndirect ++ writeDesc ++ popUsed ++ setDevNotify ++ recycleDescriptors).contains
      .unknownAvailAccess = false := by decide

end VirtioVerif.Props.C02Skeleton
