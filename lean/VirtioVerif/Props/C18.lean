import VirtioVerif.Model.VsockConn
import VirtioVerif.Lemmas.VsockRing
import VirtioVerif.Lemmas.VsockTable2
/-!
# C18 — socket connection state follows the protocol and connections are isolated

The connection table of the model is the `Vec<Connection>` of the code (first-match lookup,
`push`, `swap_remove`).  `Mgr.lookup : Key → Option Conn` is its reading as the specification map
keyed by (peer cid, peer port, local port); the theorems are about that map.
-/
namespace VirtioVerif.Props.C18
open VirtioVerif VirtioVerif.Vsock VirtioVerif.VsockConn VirtioVerif.Lemmas VirtioVerif.Lemmas.VsockTable

/-- closes goals that `simp only` has reduced to `True` or to a syntactic equality -/
macro "triv" : tactic => `(tactic| first | rfl | trivial)

/-! ## 1. The table refines a map: every operation is a map update at one key -/

/-- how an operation may change the vector: a composition of in-place update of the connection with
    key `k`, push of a fresh connection with key `k`, `swap_remove` of the connection with key `k` -/
inductive TableStep (k : Key) : List Conn → List Conn → Prop
  | same (l) : TableStep k l l
  | upd (l) (f : Conn → Conn) (hf : ∀ c, c.key = k → (f c).key = k) :
      TableStep k l (updFirst (Conn.hasKey k) f l)
  | push (l) (c : Conn) (hc : c.key = k) (hn : l.find? (Conn.hasKey k) = none) : TableStep k l (l ++ [c])
  | remove (l) : TableStep k l (removeSwap (Conn.hasKey k) l)
  | trans {a b c} : TableStep k a b → TableStep k b c → TableStep k a c

/-- keys stay distinct and every other key's entry is untouched -/
theorem tableStep_sound {k : Key} {l l' : List Conn} (h : TableStep k l l') (hn : NoDupKeys l) :
    NoDupKeys l' ∧ ∀ k', k' ≠ k → l'.find? (Conn.hasKey k') = l.find? (Conn.hasKey k') := by
  induction h with
  | same l => exact ⟨hn, fun _ _ => rfl⟩
  | upd l f hf => exact ⟨nodup_updFirst_k l k f hf hn, fun k' hk => find_updFirst_other_k l k k' f hk hf⟩
  | push l c hc hnone =>
    subst hc
    exact ⟨nodup_append l c hn hnone, fun k' hk => find_append_other l c k' (Ne.symm hk)⟩
  | remove l => exact ⟨nodup_removeSwap l k hn, fun k' hk => find_removeSwap_other l k k' hk hn⟩
  | trans _ _ ih1 ih2 =>
    obtain ⟨n1, f1⟩ := ih1 hn
    obtain ⟨n2, f2⟩ := ih2 n1
    exact ⟨n2, fun k' hk => by rw [f2 k' hk, f1 k' hk]⟩

theorem key_of_lookup {m : Mgr} {k : Key} {c : Conn} (h : m.lookup k = some c) : c.key = k :=
  (find_some_key h).2

theorem updateForEvent_key (c : Conn) (ba fc : Nat) (b : Bool) :
    ({ c with info := c.info.updateForEvent ba fc b } : Conn).key = c.key := rfl

theorem send_info_key (i : Info) (g len : Nat) :
    (i.send g len).info.dst = i.dst ∧ (i.send g len).info.srcPort = i.srcPort := by
  unfold Info.send
  split
  · exact ⟨rfl, rfl⟩
  · split <;> exact ⟨rfl, rfl⟩

/-- `dispatch` touches nothing but the connection vector -/
theorem dispatch_shape (m : Mgr) (conns : List Conn) (k : Key) (c : Conn) (ev : Event) (body : List Byte) :
    ∃ cs, (dispatch m conns k c ev body).1 = setConns m cs := by
  unfold dispatch
  cases ev.type <;> simp only <;> repeat' split
  all_goals first | exact ⟨_, rfl⟩ | exact ⟨m.conns, rfl⟩

/-- `pollPkt` either leaves the manager alone or is a `dispatch` -/
theorem pollPkt_shape (m : Mgr) (p : RawPkt) : ∃ cs, (pollPkt m p).1 = setConns m cs := by
  unfold pollPkt
  split; · exact ⟨m.conns, rfl⟩
  split; · exact ⟨m.conns, rfl⟩
  split; · exact ⟨m.conns, rfl⟩
  simp only
  cases decodeEvent p.hdr with
  | error e => exact ⟨m.conns, rfl⟩
  | ok ev =>
    simp only
    cases (if ev.dst.cid == m.guestCid then m.lookup ev.key else none) with
    | some c => exact dispatch_shape _ _ _ _ _ _
    | none =>
      simp only
      split
      · split
        · exact ⟨m.conns, rfl⟩
        · exact dispatch_shape _ _ _ _ _ _
      · exact ⟨m.conns, rfl⟩

/-- what `pollPkt` does with a packet that passes the framing checks and decodes to `ev` -/
theorem pollPkt_wellformed (m : Mgr) (p : RawPkt) (ev : Event) (h1 : p.usedLen ≤ m.rxBufSize)
    (h2 : VsockSpec.hdrSize ≤ p.usedLen) (h3 : VsockSpec.hdrSize + p.hdr.len ≤ p.usedLen)
    (hd : decodeEvent p.hdr = .ok ev) :
    pollPkt m p =
      (match (if ev.dst.cid == m.guestCid then m.lookup ev.key else none) with
       | some c => dispatch m m.conns ev.key c ev (p.payload.take p.hdr.len)
       | none =>
         if ev.type == EvType.connectionRequest then
           if ev.dst.cid != m.guestCid then (m, { res := .none }) else
           dispatch m (m.conns ++ [Conn.new ev.src ev.dst.port m.cap]) ev.key
             (Conn.new ev.src ev.dst.port m.cap) ev (p.payload.take p.hdr.len)
         else (m, { res := .none })) := by
  unfold pollPkt
  rw [if_neg (by omega), if_neg (by omega), if_neg (by omega), hd]
  rfl

theorem dispatch_tableStep (m : Mgr) (conns : List Conn) (k : Key) (c : Conn) (ev : Event) (body : List Byte)
    (hc : c.key = k) : TableStep k conns (dispatch m conns k c ev body).1.conns := by
  unfold dispatch
  have hput : ∀ c' : Conn, c'.key = k →
      TableStep k conns (updFirst (Conn.hasKey k) (fun _ => c') conns) :=
    fun c' h => TableStep.upd conns _ (fun _ _ => h)
  cases ev.type with
  | received len =>
    simp only
    split
    · exact TableStep.same _
    · exact hput _ hc
    · exact hput _ hc
  | connectionRequest =>
    simp only
    split
    · exact hput _ hc
    · exact TableStep.remove _
  | connected => exact hput _ hc
  | disconnected reset =>
    simp only
    split
    · exact TableStep.remove _
    · exact hput _ hc
  | creditRequest => exact hput _ hc
  | creditUpdate => exact hput _ hc

theorem pollPkt_tableStep (m : Mgr) (p : RawPkt) (k : Key)
    (hk : ∀ ev, decodeEvent p.hdr = .ok ev → ev.key = k) :
    TableStep k m.conns (pollPkt m p).1.conns := by
  unfold pollPkt
  split; · exact TableStep.same _
  split; · exact TableStep.same _
  split; · exact TableStep.same _
  cases hd : decodeEvent p.hdr with
  | error e => exact TableStep.same _
  | ok ev =>
    have hkk := hk ev hd
    simp only
    cases hf : (if ev.dst.cid == m.guestCid then m.lookup ev.key else none) with
    | some c =>
      have hl : m.lookup ev.key = some c := by
        split at hf
        · exact hf
        · simp at hf
      simp only
      rw [hkk] at hl ⊢
      exact dispatch_tableStep m m.conns k c ev _ (key_of_lookup hl)
    | none =>
      simp only
      split
      · split
        · exact TableStep.same _
        · rename_i hcid
          have hcid' : ev.dst.cid = m.guestCid := by simpa using hcid
          have hnone : m.conns.find? (Conn.hasKey k) = none := by
            simp only [hcid', beq_self_eq_true, if_true, Mgr.lookup, hkk] at hf
            exact hf
          rw [hkk]
          have hck : (Conn.new ev.src ev.dst.port m.cap).key = k := by rw [← hkk]; rfl
          exact TableStep.trans (TableStep.push m.conns _ hck hnone) (dispatch_tableStep m _ k _ ev _ hck)
      · exact TableStep.same _

/-- the key an operation names (for `poll`: the connection the oldest unpolled packet addresses) -/
def affected (m : Mgr) : Op → Option Key
  | .connect k | .send k _ | .recv k _ | .recvAvailable k | .updateCredit k | .shutdown k
  | .forceClose k | .isEstablished k => some k
  | .poll =>
    match m.rxUsed with
    | [] => none
    | p :: _ => some ⟨⟨p.hdr.srcCid, p.hdr.srcPort⟩, p.hdr.dstPort⟩
  | _ => none

theorem decodeEvent_key (h : Hdr) (ev : Event) (hd : decodeEvent h = .ok ev) :
    ev.key = ⟨⟨h.srcCid, h.srcPort⟩, h.dstPort⟩ := by
  unfold decodeEvent at hd
  simp only at hd
  repeat' split at hd
  all_goals first
    | (injection hd with hd; subst hd; rfl)
    | (simp at hd)

theorem step_tableStep (m : Mgr) (op : Op) (k : Key) (hk : ∀ k0, affected m op = some k0 → k0 = k) :
    TableStep k m.conns (step m op).1.conns := by
  cases op with
  | listen p => simp only [step, listen]; split <;> exact TableStep.same _
  | unlisten p => exact TableStep.same _
  | connect k0 =>
    have := hk k0 rfl; subst this
    simp only [step, connect]
    split
    · exact TableStep.same _
    · rename_i hany
      have hnone : m.conns.find? (Conn.hasKey k0) = none := by
        have := any_hasKey_iff m.conns k0
        cases hf : m.conns.find? (Conn.hasKey k0) with
        | none => rfl
        | some c => rw [hf] at this; exact absurd (this.trans rfl) hany
      exact TableStep.push m.conns _ rfl hnone
  | send k0 len =>
    have := hk k0 rfl; subst this
    simp only [step, send]
    split
    · exact TableStep.same _
    · split
      · exact TableStep.same _
      · rename_i c hl _
        have hck := key_of_lookup hl
        exact TableStep.upd _ _ (fun c' hc' => by
          simp only [Conn.key, (send_info_key c.info m.guestCid len).1, (send_info_key c.info m.guestCid len).2] at *
          exact hck)
  | recv k0 n =>
    have := hk k0 rfl; subst this
    simp only [step, recv]
    split
    · exact TableStep.same _
    · rename_i c hl
      split
      · exact TableStep.same _
      · split
        · exact TableStep.remove _
        · have hck := key_of_lookup hl
          exact TableStep.upd _ _ (fun c' hc' => by simp only [Conn.key, Info.doneForwarding] at *; exact hck)
  | recvAvailable k0 => exact TableStep.same _
  | updateCredit k0 => exact TableStep.same _
  | shutdown k0 => exact TableStep.same _
  | forceClose k0 =>
    have := hk k0 rfl; subst this
    simp only [step, forceClose]
    split
    · exact TableStep.same _
    · exact TableStep.remove _
  | isEstablished k0 => exact TableStep.same _
  | inject p => exact TableStep.same _
  | poll =>
    simp only [step, poll]
    cases hr : m.rxUsed with
    | nil => exact TableStep.same _
    | cons p rest =>
      have hkp : (⟨⟨p.hdr.srcCid, p.hdr.srcPort⟩, p.hdr.dstPort⟩ : Key) = k := hk _ (by simp [affected, hr])
      have := pollPkt_tableStep { m with rxUsed := rest } p k
        (fun ev hd => by rw [decodeEvent_key p.hdr ev hd]; exact hkp)
      simp only
      split <;> exact this

/-- **Keys stay distinct**: the vector always represents a map. -/
theorem nodup_step (m : Mgr) (op : Op) (h : NoDupKeys m.conns) : NoDupKeys (step m op).1.conns := by
  cases ha : affected m op with
  | none => exact (tableStep_sound (step_tableStep m op ⟨⟨0, 0⟩, 0⟩ (fun k0 h0 => by rw [ha] at h0; cases h0)) h).1
  | some k => exact (tableStep_sound (step_tableStep m op k (fun k0 h0 => by rw [ha] at h0; injection h0 with h0; exact h0.symm)) h).1

theorem nodup_run (ops : List Op) (m : Mgr) (h : NoDupKeys m.conns) : NoDupKeys (run m ops).conns := by
  induction ops generalizing m with
  | nil => exact h
  | cons op ops ih => exact ih _ (nodup_step m op h)

theorem nodup_init (a b c d : Nat) : NoDupKeys (Mgr.init a b c d).conns := List.Pairwise.nil

/-- **Frame theorem (isolation)**: every local operation and every received packet leaves the
    connection of every key other than the one it names exactly as it was — ring contents, credit
    counters, flags and all. -/
theorem frame (m : Mgr) (op : Op) (h : NoDupKeys m.conns) (k' : Key)
    (hk : ∀ k, affected m op = some k → k' ≠ k) :
    (step m op).1.lookup k' = m.lookup k' := by
  cases ha : affected m op with
  | none =>
    -- names no connection: pick any other key
    let k0 : Key := ⟨⟨k'.peer.cid + 1, 0⟩, 0⟩
    have hne : k' ≠ k0 := by
      intro e; have := congrArg (fun k => k.peer.cid) e; simp [k0] at this
    exact (tableStep_sound (step_tableStep m op k0 (fun k1 h1 => by rw [ha] at h1; cases h1)) h).2 k' hne
  | some k =>
    exact (tableStep_sound (step_tableStep m op k (fun k1 h1 => by rw [ha] at h1; injection h1 with h1; exact h1.symm)) h).2 k' (hk k ha)

/-- the listening set is changed by `listen` / `unlisten` only -/
theorem listening_frame (m : Mgr) (op : Op) (h : ∀ p, op ≠ .listen p ∧ op ≠ .unlisten p) :
    (step m op).1.listening = m.listening := by
  cases op with
  | listen p => exact absurd rfl (h p).1
  | unlisten p => exact absurd rfl (h p).2
  | connect k => simp only [step, connect]; split <;> rfl
  | send k len => simp only [step, send]; split; rfl; split <;> rfl
  | recv k n => simp only [step, recv]; split; rfl; split; rfl; split <;> rfl
  | recvAvailable k => rfl
  | updateCredit k => rfl
  | shutdown k => rfl
  | forceClose k => simp only [step, forceClose]; split <;> rfl
  | isEstablished k => rfl
  | inject p => rfl
  | poll =>
    simp only [step, poll]
    cases m.rxUsed with
    | nil => rfl
    | cons p rest =>
      simp only
      obtain ⟨cs, hcs⟩ := pollPkt_shape { m with rxUsed := rest } p
      split <;> simp only [hcs, setConns]

/-! ## 2. Connection requests -/

/-- a well-formed connection request: header-only, for this guest -/
def isRequest (m : Mgr) (p : RawPkt) : Prop :=
  p.usedLen ≤ m.rxBufSize ∧ VsockSpec.hdrSize ≤ p.usedLen ∧ p.hdr.op = 1 ∧ p.hdr.len = 0
    ∧ p.hdr.dstCid = m.guestCid

def pktKey (p : RawPkt) : Key := ⟨⟨p.hdr.srcCid, p.hdr.srcPort⟩, p.hdr.dstPort⟩

def pktEvent (p : RawPkt) (t : EvType) : Event :=
  { src := ⟨p.hdr.srcCid, p.hdr.srcPort⟩, dst := ⟨p.hdr.dstCid, p.hdr.dstPort⟩,
    bufAlloc := p.hdr.bufAlloc, fwdCnt := p.hdr.fwdCnt, type := t }

theorem decode_request (p : RawPkt) (h1 : p.hdr.op = 1) (h2 : p.hdr.len = 0) :
    decodeEvent p.hdr = .ok (pktEvent p .connectionRequest) := by
  simp [decodeEvent, h1, h2, pktEvent]

/-- **Requests to a listening port are accepted and reported**: a RESPONSE is sent, the event is
    returned, the connection exists and is established afterwards. -/
theorem request_poll (m : Mgr) (p : RawPkt) (hr : isRequest m p) (hnew : m.lookup (pktKey p) = none) :
    pollPkt m p = dispatch m (m.conns ++ [Conn.new ⟨p.hdr.srcCid, p.hdr.srcPort⟩ p.hdr.dstPort m.cap]) (pktKey p)
      (Conn.new ⟨p.hdr.srcCid, p.hdr.srcPort⟩ p.hdr.dstPort m.cap) (pktEvent p .connectionRequest)
      (p.payload.take p.hdr.len) := by
  obtain ⟨h1, h2, h3, h4, h5⟩ := hr
  have hd := decode_request p h3 h4
  rw [pollPkt_wellformed m p _ h1 h2 (by rw [h4]; omega) hd]
  have hk : (pktEvent p .connectionRequest).key = pktKey p := rfl
  have hc1 : ((pktEvent p .connectionRequest).dst.cid == m.guestCid) = true := by simp [pktEvent, h5]
  have hc2 : ((pktEvent p .connectionRequest).dst.cid != m.guestCid) = false := by simp [pktEvent, h5]
  have hty : ((pktEvent p .connectionRequest).type == EvType.connectionRequest) = true := rfl
  rw [hc1, hk]
  simp only [if_true, hnew, hty, hc2, Bool.false_eq_true, if_false]
  rfl

/-- **Requests to a listening port are accepted and reported**: a RESPONSE is sent, the event is
    returned, the connection exists and is established afterwards. -/
theorem request_listening (m : Mgr) (p : RawPkt) (hr : isRequest m p)
    (hnew : m.lookup (pktKey p) = none) (hl : m.listening.contains p.hdr.dstPort = true) :
    (pollPkt m p).2.res = .event (pktEvent p .connectionRequest)
      ∧ (∃ h : Hdr, (pollPkt m p).2.tx = [h] ∧ h.op = VsockSpec.OP_RESPONSE ∧ h.srcCid = m.guestCid
            ∧ h.srcPort = p.hdr.dstPort ∧ h.dstCid = p.hdr.srcCid ∧ h.dstPort = p.hdr.srcPort
            ∧ h.bufAlloc = m.cap ∧ h.fwdCnt = 0)
      ∧ (∃ c, (pollPkt m p).1.lookup (pktKey p) = some c ∧ c.established = true
            ∧ c.ring = Ring.new m.cap ∧ c.info.peerBufAlloc = p.hdr.bufAlloc ∧ c.info.peerFwdCnt = p.hdr.fwdCnt) := by
  rw [request_poll m p hr hnew]
  have hl' : m.listening.contains (pktEvent p .connectionRequest).dst.port = true := hl
  unfold dispatch
  simp only [pktEvent] at hl' ⊢
  simp only [hl', if_true, setConns]
  refine ⟨by triv, ⟨_, rfl, by triv, by triv, by triv, by triv, by triv, by triv, by triv⟩, ?_⟩
  simp only [Mgr.lookup] at hnew ⊢
  have hck : (Conn.new ⟨p.hdr.srcCid, p.hdr.srcPort⟩ p.hdr.dstPort m.cap).key = pktKey p := rfl
  have hf := find_append_new m.conns (Conn.new ⟨p.hdr.srcCid, p.hdr.srcPort⟩ p.hdr.dstPort m.cap) (by rw [hck]; exact hnew)
  rw [hck] at hf
  exact ⟨_, find_updFirst_same_k _ (pktKey p) _ _ (fun _ _ => rfl) hf, rfl, rfl, rfl, rfl⟩

/-- **Requests to other ports are reset and not reported**, and leave the whole table exactly as it
    was (the vector itself, not only the map). -/
theorem request_not_listening (m : Mgr) (p : RawPkt) (hr : isRequest m p)
    (hnew : m.lookup (pktKey p) = none) (hl : m.listening.contains p.hdr.dstPort = false) :
    (pollPkt m p).2.res = .none
      ∧ (∃ h : Hdr, (pollPkt m p).2.tx = [h] ∧ h.op = VsockSpec.OP_RST ∧ h.srcCid = m.guestCid
            ∧ h.srcPort = p.hdr.dstPort ∧ h.dstCid = p.hdr.srcCid ∧ h.dstPort = p.hdr.srcPort)
      ∧ (pollPkt m p).1.conns = m.conns ∧ (pollPkt m p).1.listening = m.listening := by
  rw [request_poll m p hr hnew]
  have hl' : m.listening.contains (pktEvent p .connectionRequest).dst.port = false := hl
  unfold dispatch
  simp only [pktEvent] at hl' ⊢
  simp only [hl', Bool.false_eq_true, if_false, setConns]
  refine ⟨by triv, ⟨_, rfl, by triv, by triv, by triv, by triv, by triv⟩, ?_, by triv⟩
  have hck : (Conn.new ⟨p.hdr.srcCid, p.hdr.srcPort⟩ p.hdr.dstPort m.cap).key = pktKey p := rfl
  have := removeSwap_append_new m.conns (Conn.new ⟨p.hdr.srcCid, p.hdr.srcPort⟩ p.hdr.dstPort m.cap) (by rw [hck]; exact hnew)
  rw [hck] at this
  exact this

/-- **Packets matching no known connection create no state and deliver no data**: anything that is
    not a request for this guest (any operation, any length, any payload, well-formed or not, any
    destination cid) and finds no connection leaves the manager untouched, reports nothing and sends
    nothing. -/
theorem decodeEvent_ok (h : Hdr) (ev : Event) (hd : decodeEvent h = .ok ev) :
    ev.src = ⟨h.srcCid, h.srcPort⟩ ∧ ev.dst = ⟨h.dstCid, h.dstPort⟩
      ∧ (ev.type = EvType.connectionRequest → h.op = 1) := by
  unfold decodeEvent at hd
  simp only at hd
  repeat' split at hd
  all_goals first
    | (injection hd with hd; subst hd; exact ⟨rfl, rfl, fun ht => by first | assumption | cases ht⟩)
    | (simp at hd)

theorem unknown_no_effect (m : Mgr) (p : RawPkt)
    (hnew : p.hdr.dstCid = m.guestCid → m.lookup (pktKey p) = none)
    (hnr : ¬ (p.hdr.op = 1 ∧ p.hdr.dstCid = m.guestCid)) :
    (pollPkt m p).1 = m ∧ (pollPkt m p).2.tx = []
      ∧ ((pollPkt m p).2.res = .none ∨ ∃ e, (pollPkt m p).2.res = .err e) := by
  by_cases f1 : p.usedLen > m.rxBufSize
  · unfold pollPkt; rw [if_pos f1]; exact ⟨rfl, rfl, .inr ⟨_, rfl⟩⟩
  by_cases f2 : p.usedLen < VsockSpec.hdrSize
  · unfold pollPkt; rw [if_neg f1, if_pos f2]; exact ⟨rfl, rfl, .inr ⟨_, rfl⟩⟩
  by_cases f3 : VsockSpec.hdrSize + p.hdr.len > p.usedLen
  · unfold pollPkt; rw [if_neg f1, if_neg f2, if_pos f3]; exact ⟨rfl, rfl, .inr ⟨_, rfl⟩⟩
  cases hd : decodeEvent p.hdr with
  | error e => unfold pollPkt; rw [if_neg f1, if_neg f2, if_neg f3, hd]; exact ⟨rfl, rfl, .inr ⟨_, rfl⟩⟩
  | ok ev =>
    obtain ⟨hsrc, hdst, hty⟩ := decodeEvent_ok p.hdr ev hd
    have hkey : ev.key = pktKey p := by simp [Event.key, pktKey, hsrc, hdst]
    rw [pollPkt_wellformed m p ev (by omega) (by omega) (by omega) hd]
    have hfound : (if ev.dst.cid == m.guestCid then m.lookup ev.key else none) = none := by
      split
      · rename_i hc
        have : p.hdr.dstCid = m.guestCid := by rw [hdst] at hc; simpa using hc
        rw [hkey]; exact hnew this
      · rfl
    rw [hfound]
    simp only
    by_cases hreq : (ev.type == EvType.connectionRequest) = true
    · have hop := hty (by simpa using hreq)
      have hne : (ev.dst.cid != m.guestCid) = true := by
        rw [hdst]; simp only [bne_iff_ne, ne_eq]
        intro h; exact hnr ⟨hop, h⟩
      rw [if_pos hreq, if_pos hne]
      exact ⟨rfl, rfl, .inl rfl⟩
    · rw [if_neg hreq]
      exact ⟨rfl, rfl, .inl rfl⟩

/-! ## 3. Errors -/

/-- operations on an unknown connection fail with `NotConnected`, send nothing, change nothing -/
theorem not_connected (m : Mgr) (k : Key) (h : m.lookup k = none) (n : Nat) :
    send m k n = (m, { res := .err .notConnected }) ∧ recv m k n = (m, { res := .err .notConnected })
      ∧ recvAvailable m k = { res := .err .notConnected } ∧ updateCredit m k = { res := .err .notConnected }
      ∧ shutdown m k = { res := .err .notConnected } ∧ forceClose m k = (m, { res := .err .notConnected })
      ∧ isEstablished m k = { res := .err .notConnected } := by
  simp [send, recv, recvAvailable, updateCredit, shutdown, forceClose, isEstablished, h]

/-- a duplicate connect fails with `ConnectionExists`, sends nothing, changes nothing -/
theorem connection_exists (m : Mgr) (k : Key) (c : Conn) (h : m.lookup k = some c) :
    connect m k = (m, { res := .err .connectionExists }) := by
  have : m.conns.any (Conn.hasKey k) = true := by
    rw [any_hasKey_iff]; simp only [Mgr.lookup] at h; rw [h]; rfl
  simp [connect, this]

/-- a connect to a fresh key sends a REQUEST and creates an unestablished connection -/
theorem connect_new (m : Mgr) (k : Key) (h : m.lookup k = none) :
    (connect m k).2.res = .unit
      ∧ (connect m k).2.tx = [(Info.new k.peer k.port m.cap).ctlHeader m.guestCid VsockSpec.OP_REQUEST]
      ∧ (connect m k).1.lookup k = some (Conn.new k.peer k.port m.cap) := by
  have : m.conns.any (Conn.hasKey k) = false := by
    rw [any_hasKey_iff]; simp only [Mgr.lookup] at h; rw [h]; rfl
  simp only [connect, this, Bool.false_eq_true, if_false, Mgr.lookup]
  refine ⟨by triv, by triv, ?_⟩
  have hck : (Conn.new k.peer k.port m.cap).key = k := rfl
  have := find_append_new m.conns (Conn.new k.peer k.port m.cap) (by rw [hck]; exact h)
  rw [hck] at this; exact this

/-! ## 4. Peer shutdown with buffered data -/

/-- a well-formed header-only packet of operation `op` for this guest -/
def isCtl (m : Mgr) (p : RawPkt) (op : Nat) : Prop :=
  p.usedLen ≤ m.rxBufSize ∧ VsockSpec.hdrSize ≤ p.usedLen ∧ p.hdr.op = op ∧ p.hdr.len = 0
    ∧ p.hdr.dstCid = m.guestCid

theorem decode_disconnect (p : RawPkt) (reset : Bool) (h3 : p.hdr.op = (if reset then 3 else 4)) (h4 : p.hdr.len = 0) :
    decodeEvent p.hdr = .ok (pktEvent p (.disconnected reset)) := by
  cases reset <;> simp at h3 <;> simp [decodeEvent, h3, h4, pktEvent]

theorem ctl_poll (m : Mgr) (p : RawPkt) (c : Conn) (op : Nat) (t : EvType) (hr : isCtl m p op)
    (hd : decodeEvent p.hdr = .ok (pktEvent p t)) (hl : m.lookup (pktKey p) = some c) :
    pollPkt m p = dispatch m m.conns (pktKey p) c (pktEvent p t) (p.payload.take p.hdr.len) := by
  obtain ⟨h1, h2, h3, h4, h5⟩ := hr
  rw [pollPkt_wellformed m p _ h1 h2 (by rw [h4]; omega) hd]
  have hk : (pktEvent p t).key = pktKey p := rfl
  have hc1 : ((pktEvent p t).dst.cid == m.guestCid) = true := by simp [pktEvent, h5]
  rw [hc1, hk]
  simp only [if_true, hl]

/-- **Peer shutdown / reset while data is buffered**: the event is reported, nothing is sent, the
    connection stays with its ring buffer untouched (the data remains readable) and is marked
    `peer_requested_shutdown`. -/
theorem peer_disconnect_buffered (m : Mgr) (p : RawPkt) (c : Conn) (reset : Bool)
    (hr : isCtl m p (if reset then 3 else 4)) (hl : m.lookup (pktKey p) = some c)
    (hne : c.ring.isEmpty = false) :
    (pollPkt m p).2 = { res := .event (pktEvent p (.disconnected reset)) }
      ∧ (pollPkt m p).1.lookup (pktKey p)
          = some { c with info := c.info.updateForEvent p.hdr.bufAlloc p.hdr.fwdCnt false, peerShutdown := true } := by
  rw [ctl_poll m p c _ _ hr (decode_disconnect p reset hr.2.2.1 hr.2.2.2.1) hl]
  unfold dispatch
  have hce : (EvType.disconnected reset == EvType.creditUpdate) = false := by cases reset <;> rfl
  simp only [pktEvent, hce, hne, Bool.false_eq_true, if_false, setConns]
  refine ⟨by triv, ?_⟩
  simp only [Mgr.lookup] at hl ⊢
  have hck := (find_some_key hl).2
  exact find_updFirst_same_k _ (pktKey p) _ c (fun _ _ => hck) hl

/-- **Peer shutdown / reset with nothing buffered**: the connection is removed at once; a shutdown
    is answered with a RST, a reset with nothing. -/
theorem peer_disconnect_empty (m : Mgr) (hn : NoDupKeys m.conns) (p : RawPkt) (c : Conn) (reset : Bool)
    (hr : isCtl m p (if reset then 3 else 4)) (hl : m.lookup (pktKey p) = some c)
    (he : c.ring.isEmpty = true) :
    (pollPkt m p).2.res = .event (pktEvent p (.disconnected reset))
      ∧ (pollPkt m p).2.tx = (if reset then [] else [c.info.ctlHeader m.guestCid VsockSpec.OP_RST])
      ∧ (pollPkt m p).1.lookup (pktKey p) = none := by
  rw [ctl_poll m p c _ _ hr (decode_disconnect p reset hr.2.2.1 hr.2.2.2.1) hl]
  unfold dispatch
  simp only [pktEvent, he, if_true, setConns]
  refine ⟨by triv, ?_, ?_⟩
  · cases reset <;> rfl
  · simp only [Mgr.lookup]
    exact find_removeSwap_same m.conns (pktKey p) hn

/-- **Reading after the peer shut down**: `recv` keeps returning the buffered bytes in order; the
    read that empties the buffer sends a RST (carrying the final `fwd_cnt`) and removes the
    connection; until then the connection stays and nothing is sent. -/
theorem recv_after_peer_shutdown (m : Mgr) (hn : NoDupKeys m.conns) (k : Key) (c : Conn) (n : Nat)
    (hl : m.lookup k = some c) (hw : c.ring.Wf) (hs : c.peerShutdown = true) :
    (recv m k n).2.res = .bytes (c.ring.contents.take n)
      ∧ (if n ≥ c.ring.used then
          (recv m k n).2.tx = [(c.info.doneForwarding (min c.ring.used n)).ctlHeader m.guestCid VsockSpec.OP_RST]
            ∧ (recv m k n).1.lookup k = none
         else
          (recv m k n).2.tx = [] ∧ ∃ c', (recv m k n).1.lookup k = some c' ∧ c'.peerShutdown = true
            ∧ c'.ring.contents = c.ring.contents.drop n) := by
  have hd := VsockRing.drain?_some c.ring hw n
  obtain ⟨d1, d2, d3, d4, d5, d6⟩ := VsockRing.drain_eq c.ring hw n
  unfold recv
  simp only [hl, hd, hs, Bool.true_and]
  by_cases hge : n ≥ c.ring.used
  · have he : (c.ring.drain n).1.isEmpty = true := by simp [Ring.isEmpty, d5]; omega
    simp only [he, if_true, hge]
    refine ⟨by rw [d1], ?_, ?_⟩
    · first | (rw [d6]) | (simp only [d6])
    · simp only [Mgr.lookup]
      exact find_removeSwap_same m.conns k hn
  · have he : (c.ring.drain n).1.isEmpty = false := by simp [Ring.isEmpty, d5]; omega
    simp only [he, Bool.false_eq_true, if_false, hge]
    refine ⟨by rw [d1], by triv, ?_⟩
    simp only [Mgr.lookup] at hl ⊢
    have hck := (find_some_key hl).2
    rw [find_updFirst_same_k m.conns k _ c
      (fun c' hc' => by simp only [Conn.key, Info.doneForwarding] at *; exact hck) hl]
    exact ⟨_, rfl, hs, d2⟩

/-! ## 5. Every received packet returns its buffer -/

/-- a device can complete only a buffer it owns -/
def Feasible (m : Mgr) : Op → Prop
  | .inject _ => 0 < m.posted
  | _ => True

/-- receive buffers owned by the device + completed-but-unpolled buffers = queue size -/
def PostedInv (m : Mgr) : Prop := m.posted + m.rxUsed.length = m.queueSize

theorem pollPkt_rx (m : Mgr) (p : RawPkt) :
    (pollPkt m p).1.posted = m.posted ∧ (pollPkt m p).1.rxUsed = m.rxUsed ∧ (pollPkt m p).1.queueSize = m.queueSize := by
  obtain ⟨cs, hcs⟩ := pollPkt_shape m p
  rw [hcs]; exact ⟨rfl, rfl, rfl⟩

/-- **Whatever the handler returns — event, nothing, or any error (oversize used length, short
    buffer, unknown operation, full ring buffer, …) — the receive buffer goes back to the device**:
    the count is restored by every non-panicking operation of every sequence. -/
theorem posted_step (m : Mgr) (op : Op) (h : PostedInv m) (hf : Feasible m op)
    (hp : (step m op).2.res ≠ .panic) : PostedInv (step m op).1 := by
  unfold PostedInv at *
  cases op with
  | listen p => simp only [step, listen]; split <;> exact h
  | unlisten p => exact h
  | connect k => simp only [step, connect]; split <;> exact h
  | send k len => simp only [step, send]; split; exact h; split <;> exact h
  | recv k n => simp only [step, recv]; split; exact h; split; exact h; split <;> exact h
  | recvAvailable k => exact h
  | updateCredit k => exact h
  | shutdown k => exact h
  | forceClose k => simp only [step, forceClose]; split <;> exact h
  | isEstablished k => exact h
  | inject p =>
    simp only [Feasible] at hf
    simp only [step, inject, List.length_append, List.length_singleton]; omega
  | poll =>
    simp only [step, poll] at hp ⊢
    cases hr : m.rxUsed with
    | nil => simp only [hr] at hp ⊢; rw [hr] at h; exact h
    | cons p rest =>
      rw [hr] at h
      simp only [hr] at hp ⊢
      obtain ⟨e1, e2, e3⟩ := pollPkt_rx { m with rxUsed := rest } p
      split
      · rename_i hpan
        simp only [hpan, if_true] at hp
        exact absurd (by simpa using hpan) hp
      · simp only [e1, e2, e3, List.length_cons] at h ⊢; omega

/-- in particular an over-long used length is reported as `IoError` and the buffer is back -/
theorem oversize_requeued (m : Mgr) (p : RawPkt) (rest : List RawPkt) (hr : m.rxUsed = p :: rest)
    (ho : p.usedLen > m.rxBufSize) :
    (poll m).2.res = .err .ioError ∧ (poll m).1.posted = m.posted + 1 ∧ (poll m).1.conns = m.conns := by
  simp [poll, hr, pollPkt, ho]

/-! ## Non-vacuity -/

def demo : Mgr := listen (Mgr.init 3 8 64 8) 10
def reqPkt (dport : Nat) : RawPkt :=
  { usedLen := 44, hdr := { srcCid := 2, srcPort := 1024, dstCid := 3, dstPort := dport, op := 1, bufAlloc := 50 }, payload := [] }

example : isRequest demo (reqPkt 10) := by unfold isRequest; decide
example : (pollPkt demo (reqPkt 10)).2.res = .event (pktEvent (reqPkt 10) .connectionRequest) := by decide
example : ((pollPkt demo (reqPkt 10)).1.lookup (pktKey (reqPkt 10))).isSome = true := by decide
example : (pollPkt demo (reqPkt 11)).2.res = .none ∧ (pollPkt demo (reqPkt 11)).1.conns = [] := by decide
example : PostedInv (step (step demo (.inject (reqPkt 10))).1 .poll).1 := by unfold PostedInv; decide

end VirtioVerif.Props.C18
