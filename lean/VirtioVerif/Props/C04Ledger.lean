import VirtioVerif.Lemmas.QueueReach
import VirtioVerif.Props.C04Inv
import VirtioVerif.Props.QueueRefines
/-!
# C04 / C07 over histories — the platform ledger never sees a violation

`Led` is the bookkeeping an instrumented platform layer keeps (it is what `LedgerHal` does in the
harness): every `share` hands out a fresh id (the device address is `shareAddr id`) and records the
range and direction; every `unshare` must name a live id with exactly the recorded range and
direction, and kills it.  A violation is: an unshare of an address never returned by `share`, of an
id already unshared (double unshare), or with a different range / direction.

Theorem: along EVERY history (any interleaving of submissions, polls and arbitrary device writes,
any length), the ledger never reports a violation, and the set of live shares is exactly the set of
buffers (and indirect tables) of the outstanding chains — nothing leaks, nothing is unshared twice.
-/
namespace VirtioVerif.Props.C04Ledger
open VirtioVerif VirtioVerif.Queue

inductive Item
  | buf (b : Buf) (write : Bool)
  | table (len : Nat)
deriving DecidableEq, Repr

structure Led where
  live : List (Nat × Item)
  ok : Bool
deriving Repr

def ledStep (l : Led) : HalEv → Led
  | .share k b w => if l.live.any (·.1 == k) then { l with ok := false } else { l with live := l.live ++ [(k, .buf b w)] }
  | .shareTable k len => if l.live.any (·.1 == k) then { l with ok := false } else { l with live := l.live ++ [(k, .table len)] }
  | .unshare a b w =>
    match shareIdOf a with
    | none => { l with ok := false }
    | some k => if (k, Item.buf b w) ∈ l.live then { l with live := l.live.erase (k, .buf b w) } else { l with ok := false }
  | .unshareTable a len =>
    match shareIdOf a with
    | none => { l with ok := false }
    | some k => if (k, Item.table len) ∈ l.live then { l with live := l.live.erase (k, .table len) } else { l with ok := false }

def ledRun (l : Led) (evs : List HalEv) : Led := evs.foldl ledStep l

theorem shareIdOf_shareAddr (k : Nat) : shareIdOf (shareAddr k) = some k := by
  unfold shareIdOf shareAddr
  simp only [shareBase, shareStride]
  have h1 : 105553116266496 ≤ 105553116266496 + k * 1048576 := by omega
  have h2 : (105553116266496 + k * 1048576 - 105553116266496) % 1048576 = 0 := by omega
  have h3 : (105553116266496 + k * 1048576 - 105553116266496) / 1048576 = k := by omega
  simp [h1, h2, h3]

/-- the ledger entries of one chain -/
def bufItems (s : Nat) : List (Buf × Bool) → List (Nat × Item)
  | [] => []
  | (b, w) :: rest => (s, .buf b w) :: bufItems (s + 1) rest

def chainItems (c : Chain) : List (Nat × Item) :=
  bufItems c.firstShare (tagBufs c.ins c.outs) ++
    (match c.table with
     | some tid => [(tid, Item.table (16 * (tagBufs c.ins c.outs).length))]
     | none => [])

theorem bufItems_ids (s : Nat) (bufs : List (Buf × Bool)) : ∀ x ∈ bufItems s bufs, s ≤ x.1 ∧ x.1 < s + bufs.length := by
  induction bufs generalizing s with
  | nil => intro x hx; simp [bufItems] at hx
  | cons bw rest ih =>
    obtain ⟨b, w⟩ := bw
    intro x hx
    simp only [bufItems, List.mem_cons] at hx
    rcases hx with hx | hx
    · subst hx; simp
    · have := ih (s + 1) x hx
      simp only [List.length_cons]
      omega

/-- sharing the buffers of a new chain, whose ids are all fresh -/
theorem ledRun_shares (bufs : List (Buf × Bool)) : ∀ (l : Led) (ctr i : Nat),
    (∀ x ∈ l.live, x.1 < ctr + i) →
    ledRun l (expectedShares ctr i bufs) = { l with live := l.live ++ bufItems (ctr + i) bufs } := by
  induction bufs with
  | nil => intro l ctr i _; simp [ledRun, expectedShares, bufItems]
  | cons bw rest ih =>
    intro l ctr i hl
    obtain ⟨b, w⟩ := bw
    simp only [expectedShares, ledRun, List.foldl_cons]
    have hfresh : l.live.any (fun x => x.1 == ctr + i) = false := by
      rw [List.any_eq_false]
      intro x hx
      have := hl x hx
      simp; omega
    simp only [ledStep, hfresh, Bool.false_eq_true, if_false]
    have := ih { l with live := l.live ++ [(ctr + i, Item.buf b w)] } ctr (i + 1) (by
      intro x hx
      simp only [List.mem_append, List.mem_singleton] at hx
      rcases hx with hx | hx
      · have := hl x hx; omega
      · subst hx; simp)
    simp only [ledRun] at this
    rw [this]
    simp [bufItems, Nat.add_assoc]

/-- unsharing the buffers of a chain whose entries are live -/
theorem ledRun_unshares (bufs : List (Buf × Bool)) : ∀ (l : Led) (s : Nat) (rest : List (Nat × Item)),
    l.live.Perm (bufItems s bufs ++ rest) →
    (ledRun l (expectedUnshares s bufs)).ok = l.ok ∧ (ledRun l (expectedUnshares s bufs)).live.Perm rest := by
  induction bufs with
  | nil => intro l s rest h; simpa [ledRun, expectedUnshares, bufItems] using h
  | cons bw tl ih =>
    intro l s rest h
    obtain ⟨b, w⟩ := bw
    simp only [expectedUnshares, ledRun, List.foldl_cons, ledStep, shareIdOf_shareAddr]
    have hmem : (s, Item.buf b w) ∈ l.live := h.mem_iff.mpr (by simp [bufItems])
    simp only [hmem, if_true]
    have h2 : (l.live.erase (s, Item.buf b w)).Perm (bufItems (s + 1) tl ++ rest) := by
      have := h.erase (s, Item.buf b w)
      simpa [bufItems] using this
    have := ih { l with live := l.live.erase (s, Item.buf b w) } (s + 1) rest h2
    simpa [ledRun] using this

/-- removing a chain from the outstanding list, as a permutation -/
theorem out_perm_filter : ∀ (out : List Chain) (c : Chain), c ∈ out → (chainDescs out).Nodup →
    (∀ x ∈ out, x.head ∈ x.descs) → out.Perm (c :: out.filter fun x => x.head != c.head) := by
  intro out
  induction out with
  | nil => intro c hc; simp at hc
  | cons a as ih =>
    intro c hc hnd hh
    have hnd' : (a.descs ++ chainDescs as).Nodup := by simpa [chainDescs] using hnd
    obtain ⟨n1, n2, n3⟩ := List.nodup_append.mp hnd'
    have hxs : ∀ y ∈ as, y.head ≠ a.head := by
      intro y hy e
      have h1 : y.head ∈ chainDescs as := mem_chainDescs hy (hh y (by simp [hy]))
      have h2 : a.head ∈ a.descs := hh a (by simp)
      exact n3 a.head h2 y.head h1 e.symm
    by_cases hca : c = a
    · subst hca
      have hf : as.filter (fun x => x.head != c.head) = as := by
        rw [List.filter_eq_self]
        intro y hy
        simpa using hxs y hy
      simp [List.filter_cons, hf]
    · have hcas : c ∈ as := by
        rcases List.mem_cons.mp hc with h | h
        · exact absurd h hca
        · exact h
      have hne : a.head ≠ c.head := fun e => hxs c hcas e.symm
      have ih' := ih c hcas n2 (fun y hy => hh y (by simp [hy]))
      simp only [List.filter_cons, bne_iff_ne, ne_eq, hne, not_false_eq_true, if_true]
      exact (List.Perm.cons a ih').trans (List.Perm.swap c a _)

/-! ### the invariant of the ledger along a history -/

def LedInv (q : Q) (l : Led) : Prop :=
  l.ok = true ∧ l.live.Perm (q.out.flatMap chainItems) ∧ ∀ x ∈ l.live, x.1 < q.shareCtr

/-- what an accepted submission does, in one place -/
theorem add_chain_facts (q : Q) (h : Inv q) (ins outs : List Buf) (hz : ∀ b ∈ ins ++ outs, b.len ≠ 0)
    (q' : Q) (t : Nat) (evs : List Ev) (hadd : q.add ins outs = (q', .token t, evs)) :
    ∃ c, q'.out = q.out ++ [c] ∧ c.firstShare = q.shareCtr
      ∧ hals evs = expectedShares q.shareCtr 0 (tagBufs c.ins c.outs)
          ++ (match c.table with
              | some tid => [HalEv.shareTable tid (16 * (tagBufs c.ins c.outs).length)]
              | none => [])
      ∧ ((c.table = none ∧ q'.shareCtr = q.shareCtr + (tagBufs c.ins c.outs).length)
         ∨ (c.table = some (q.shareCtr + (tagBufs c.ins c.outs).length)
            ∧ q'.shareCtr = q.shareCtr + (tagBufs c.ins c.outs).length + 1)) := by
  obtain ⟨q1, c, evs1, hb, hq, _, he, hk, hrf⟩ := add_token_inv hadd
  have f : Frame q q1 := frame_buildChain _ _ _ _ hb
  obtain ⟨h1, _, hfs⟩ := buildChain_events _ _ _ _ _ _ hb
  obtain ⟨_, m2, m3⟩ := QueueRefines.buildChain_mode q h ins outs hz q1 c evs1 hk hrf hb
  have hfp : hals (publish q1 c).2 = [] := by simp [publish]
  refine ⟨c, by subst hq; simp [publish, f.out], hfs, ?_, ?_⟩
  · subst he
    rw [hals_append, hfp, List.append_nil, h1, m2, m3]
    cases c.table <;> rfl
  · -- which branch built the chain
    have hr' := hrf
    simp only [addRefused, Bool.or_eq_false_iff, Bool.and_eq_false_iff, decide_eq_false_iff_not,
      Bool.not_eq_eq_eq_not, Bool.not_false] at hr'
    obtain ⟨⟨r1, r2⟩, r3⟩ := hr'
    have hsc : q'.shareCtr = q1.shareCtr := by subst hq; simp [publish]
    rw [hsc, m2, m3, tagBufs_length]
    unfold buildChain at hb
    split at hb
    · rename_i hc
      simp only [Bool.and_eq_true, decide_eq_true_eq] at hc
      obtain ⟨q3, c3, e3, e, _, _, _, ht, _, _, _, _, hs⟩ := addIndirect_inv q q.out ins outs h hc.2 (by omega)
      rw [e] at hb
      simp only [Option.some.injEq, Prod.mk.injEq] at hb
      right
      rw [← hb.1, ← hb.2.1]
      exact ⟨ht, hs⟩
    · rename_i hc
      have hcap : q.numUsed + (ins.length + outs.length) ≤ q.n := by
        simp only [Bool.and_eq_true, decide_eq_true_eq, not_and, Nat.not_lt] at hc
        rcases r3 with r3 | r3
        · have hi : q.indirect = true := by simpa using r3
          have := hc hi
          omega
        · omega
      obtain ⟨q3, c3, e3, e, _, _, _, ht, _, _, _, _, hs, _⟩ := addDirect_inv q q.out ins outs h (by omega) hz hcap
      rw [e] at hb
      simp only [Option.some.injEq, Prod.mk.injEq] at hb
      left
      rw [← hb.1, ← hb.2.1]
      exact ⟨ht, hs⟩

/-- platform calls of one operation of a history -/
def stepHals (q : Q) : Op → List HalEv
  | .add ins outs => hals (q.add ins outs).2.2
  | .pop tok ins outs => hals (q.popUsed tok ins outs).2.2
  | _ => []

theorem ledRun_append (l : Led) (a b : List HalEv) : ledRun l (a ++ b) = ledRun (ledRun l a) b := by
  simp [ledRun, List.foldl_append]

theorem step_ledInv (q : Q) (op : Op) (l : Led) (h : Inv q) (hl : LedInv q l) (hok : OpOk q op) :
    LedInv (step q op).1 (ledRun l (stepHals q op)) := by
  obtain ⟨l1, l2, l3⟩ := hl
  cases op with
  | add ins outs =>
    show LedInv (q.add ins outs).1 (ledRun l (hals (q.add ins outs).2.2))
    cases hr : (q.add ins outs).2.1 with
    | token t =>
      have hadd : q.add ins outs = ((q.add ins outs).1, .token t, (q.add ins outs).2.2) := by rw [← hr]
      obtain ⟨c, hout, hfs, hev, hsc⟩ := add_chain_facts q h ins outs hok _ t _ hadd
      rw [hev, ledRun_append, ledRun_shares _ l q.shareCtr 0 (by simpa using l3)]
      simp only [Nat.add_zero]
      have hids := bufItems_ids q.shareCtr (tagBufs c.ins c.outs)
      rcases hsc with ⟨ht, hs⟩ | ⟨ht, hs⟩
      · rw [ht]
        simp only [ledRun, List.foldl_nil]
        refine ⟨l1, ?_, ?_⟩
        · rw [hout, List.flatMap_append]
          simp only [List.flatMap_cons, List.flatMap_nil, List.append_nil, chainItems, ht, hfs]
          exact List.Perm.append_right _ l2
        · intro x hx
          rw [hs]
          simp only [List.mem_append] at hx
          rcases hx with hx | hx
          · have := l3 x hx; omega
          · have := hids x hx; omega
      · rw [ht]
        simp only [ledRun, List.foldl_cons, List.foldl_nil, ledStep]
        have hfresh : (l.live ++ bufItems q.shareCtr (tagBufs c.ins c.outs)).any
            (fun x => x.1 == q.shareCtr + (tagBufs c.ins c.outs).length) = false := by
          rw [List.any_eq_false]
          intro x hx
          simp only [List.mem_append] at hx
          rcases hx with hx | hx
          · have := l3 x hx; simp; omega
          · have := hids x hx; simp; omega
        simp only [hfresh, Bool.false_eq_true, if_false]
        refine ⟨l1, ?_, ?_⟩
        · rw [hout, List.flatMap_append]
          simp only [List.flatMap_cons, List.flatMap_nil, List.append_nil, chainItems, ht, hfs]
          rw [List.append_assoc]
          exact List.Perm.append_right _ l2
        · intro x hx
          rw [hs]
          simp only [List.mem_append, List.mem_singleton] at hx
          rcases hx with (hx | hx) | hx
          · have := l3 x hx; omega
          · have := hids x hx; omega
          · subst hx; simp
    | err e =>
      have hadd : q.add ins outs = ((q.add ins outs).1, .err e, (q.add ins outs).2.2) := by rw [← hr]
      obtain ⟨e1, e2⟩ := add_err_unchanged hadd
      rw [e1, e2]
      exact ⟨l1, l2, l3⟩
    | panic => exact absurd hr (add_inv q ins outs h hok).2
    | len _ =>
      exfalso
      unfold Q.add at hr
      split at hr
      · simp at hr
      · split at hr
        · simp at hr
        · split at hr <;> simp at hr
    | unit =>
      exfalso
      unfold Q.add at hr
      split at hr
      · simp at hr
      · split at hr
        · simp at hr
        · split at hr <;> simp at hr
  | pop tok ins outs =>
    show LedInv (q.popUsed tok ins outs).1 (ledRun l (hals (q.popUsed tok ins outs).2.2))
    obtain ⟨c, hcm, h1, h2, h3, hz⟩ := hok
    subst h1 h2 h3
    by_cases hready : q.canPop = true ∧ q.usedElem.1 % U16 = c.head
    · obtain ⟨hc, hid⟩ := hready
      obtain ⟨q1, evs, e, i, f, hh, hsc, _⟩ := recycle_inv q h c hcm hz
      have hpop : q.popUsed c.head c.ins c.outs
          = ((finishPop q1 c.head).1, .len q.usedElem.2, evs ++ (finishPop q1 c.head).2) := by
        unfold Q.popUsed; simp [hc, hid, e]
      have hf : hals (finishPop q1 c.head).2 = [] := by
        unfold finishPop; dsimp only; split <;> simp
      obtain ⟨_, a2, _, _, _, _, _, _, _, _, _, _, _, _, a15, _, _, _⟩ := finishPop_spec q1 c.head
      rw [hpop]
      simp only [hals_append, hf, List.append_nil, hh, expectedPopHals]
      -- the chain's entries are live
      have hheads : ∀ x ∈ q.out, x.head ∈ x.descs := fun x hx => chainOk_head_mem q x (h.chains x hx)
      obtain ⟨free, _, hnd, _, _⟩ := h.free
      have hndc : (chainDescs q.out).Nodup := (List.nodup_append.mp hnd).2.1
      have hperm := out_perm_filter q.out c hcm hndc hheads
      have hlive : l.live.Perm (chainItems c ++ (q.out.filter fun x => x.head != c.head).flatMap chainItems) := by
        refine l2.trans ?_
        have := List.Perm.flatMap_right chainItems hperm
        simpa [List.flatMap_cons] using this
      have hres : ((finishPop q1 c.head).1).out = q.out.filter fun x => x.head != c.head := by rw [a2, f.out]
      have hctr : ((finishPop q1 c.head).1).shareCtr = q.shareCtr := by rw [a15, hsc]
      unfold LedInv
      rw [hres, hctr]
      cases htab : c.table with
      | none =>
        simp only [htab, List.nil_append, chainItems, List.append_nil] at hlive ⊢
        obtain ⟨o1, o2⟩ := ledRun_unshares _ l c.firstShare _ hlive
        refine ⟨by rw [o1]; exact l1, o2, ?_⟩
        intro x hx
        -- everything live afterwards was live before
        have : x ∈ l.live := hlive.mem_iff.mpr (by simp only [List.mem_append]; right; exact o2.mem_iff.mp hx)
        exact l3 x this
      | some tid =>
        simp only [htab, chainItems] at hlive ⊢
        -- the table is unshared first
        have hok' := h.chains c hcm
        unfold ChainOk at hok'
        rw [htab] at hok'
        obtain ⟨_, ktid, _, _, _, _, _, _⟩ := hok'
        rw [ledRun_append]
        simp only [ledRun, List.foldl_cons, List.foldl_nil, ledStep, shareIdOf_shareAddr]
        have hmem : (tid, Item.table (16 * (tagBufs c.ins c.outs).length)) ∈ l.live :=
          hlive.mem_iff.mpr (by simp)
        simp only [hmem, if_true]
        have hl2 : (l.live.erase (tid, Item.table (16 * (tagBufs c.ins c.outs).length))).Perm
            (bufItems c.firstShare (tagBufs c.ins c.outs)
              ++ (q.out.filter fun x => x.head != c.head).flatMap chainItems) := by
          have h1 := hlive.erase (tid, Item.table (16 * (tagBufs c.ins c.outs).length))
          have h2 : ((bufItems c.firstShare (tagBufs c.ins c.outs) ++ [(tid, Item.table (16 * (tagBufs c.ins c.outs).length))])
                ++ (q.out.filter fun x => x.head != c.head).flatMap chainItems).Perm
              ((tid, Item.table (16 * (tagBufs c.ins c.outs).length)) ::
                (bufItems c.firstShare (tagBufs c.ins c.outs)
                  ++ (q.out.filter fun x => x.head != c.head).flatMap chainItems)) := by
            rw [List.append_assoc]
            exact List.perm_middle
          have h3 := (h2.erase (tid, Item.table (16 * (tagBufs c.ins c.outs).length)))
          rw [List.erase_cons_head] at h3
          exact h1.trans h3
        obtain ⟨o1, o2⟩ := ledRun_unshares _ { l with live := l.live.erase (tid, Item.table (16 * (tagBufs c.ins c.outs).length)) } c.firstShare _ hl2
        simp only [ledRun] at o1 o2
        refine ⟨by rw [o1]; exact l1, o2, ?_⟩
        intro x hx
        have hx2 : x ∈ l.live.erase (tid, Item.table (16 * (tagBufs c.ins c.outs).length)) :=
          hl2.mem_iff.mpr (by simp only [List.mem_append]; right; exact o2.mem_iff.mp hx)
        exact l3 x (List.mem_of_mem_erase hx2)
    · -- not ready or wrong token: nothing happens
      have : q.popUsed c.head c.ins c.outs = (q, (q.popUsed c.head c.ins c.outs).2.1, []) := by
        unfold Q.popUsed
        by_cases hc : q.canPop = true
        · have hid : q.usedElem.1 % U16 ≠ c.head := fun e => hready ⟨hc, e⟩
          simp [hc, hid]
        · have hc' : q.canPop = false := by simpa using hc
          simp [hc']
      rw [this]
      exact ⟨l1, l2, l3⟩
  | notify en =>
    show LedInv (q.setDevNotify en).1 (ledRun l [])
    unfold Q.setDevNotify; dsimp only
    split <;> exact ⟨l1, l2, l3⟩
  | devUsed id len => exact ⟨l1, l2, l3⟩
  | devUsedIdx v => exact ⟨l1, l2, l3⟩
  | devUsedElem s id len => exact ⟨l1, l2, l3⟩
  | devUsedFlags v => exact ⟨l1, l2, l3⟩
  | devAvailEvent v => exact ⟨l1, l2, l3⟩

/-- the ledger along a history -/
def runLed : Q → Led → List Op → Led
  | _, l, [] => l
  | q, l, op :: ops => runLed (step q op).1 (ledRun l (stepHals q op)) ops

/-- **Along every history the platform ledger never reports a violation** (no unshare of an
unknown address, no double unshare, no mismatching range or direction), and at every point the
live shares are exactly the buffers and indirect tables of the outstanding chains. -/
theorem ledger_never_violated (n : Nat) (ind ev ap : Bool) (hn : 0 < n) (hle : n ≤ 32768) (ops : List Op)
    (hok : AllOk (Q.init n ind ev ap) ops) :
    let l := runLed (Q.init n ind ev ap) ⟨[], true⟩ ops
    l.ok = true ∧ l.live.Perm ((run (Q.init n ind ev ap) ops).out.flatMap chainItems) := by
  have key : ∀ (ops : List Op) (q : Q) (l : Led), Inv q → LedInv q l → AllOk q ops →
      LedInv (run q ops) (runLed q l ops) := by
    intro ops
    induction ops with
    | nil => intro q l _ hl _; exact hl
    | cons op ops ih =>
      intro q l hi hl hok
      exact ih _ _ (step_inv q op hi hok.1).1 (step_ledInv q op l hi hl hok.1) hok.2
  have := key ops _ ⟨[], true⟩ (inv_init n ind ev ap hn hle) ⟨rfl, by simp [Q.init], by simp⟩ hok
  exact ⟨this.1, this.2.1⟩

end VirtioVerif.Props.C04Ledger
