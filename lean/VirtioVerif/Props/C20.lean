import VirtioVerif.Model.Wire
import VirtioVerif.Model.CmdQueue
import VirtioVerif.Model.Gpu
import VirtioVerif.Model.Edid
/-!
# C20 — command/response drivers encode requests per spec and check every response

Statements are over *all* parameter values (`< 2^32` / `< 2^64` as the field widths dictate), all
device behaviours (`Dev` is an arbitrary function), all histories.
-/
namespace VirtioVerif.Props.C20
open VirtioVerif VirtioVerif.Wire

/-! ## wire helpers -/

theorem fromLE_le32 (n : Nat) (h : n < 2 ^ 32) : fromLE (le32 n) = n := by
  simp [le32, fromLE]; omega

theorem fromLE_le64 (n : Nat) (h : n < 2 ^ 64) : fromLE (le64 n) = n := by
  simp [le64, fromLE]; omega

theorem fromLE_le16 (n : Nat) (h : n < 2 ^ 16) : fromLE (le16 n) = n := by
  simp [le16, fromLE]; omega

/-! ## GPU: encoders against the specification tables

Each theorem: the fields read out of the emitted bytes at the specification's offsets, sizes and
byte order are exactly (type, 0, 0, 0, 0, caller's parameters …), and the length is the structure
size.  This is decode∘encode = id and "field k = parameter k" at once. -/
namespace Gpu
open VirtioVerif.Gpu

macro "enc_tac" : tactic =>
  `(tactic| (simp [specDecode, Spec.ctrlHdr, Spec.rect, Spec.getEdid, Spec.resourceCreate2d, Spec.resourceUnref,
      Spec.setScanout, Spec.resourceFlush, Spec.transferToHost2d, Spec.resourceAttachBacking1,
      Spec.resourceDetachBacking, Spec.updateCursor,
      encGetDisplayInfo, encGetEdid, encResourceCreate2d, encResourceUnref, encSetScanout, encResourceFlush,
      encTransferToHost2d, encResourceAttachBacking, encResourceDetachBacking, encCursor, encHdr, encRect,
      le32, le64, fieldAt, fromLE, CMD_GET_DISPLAY_INFO, CMD_GET_EDID, CMD_RESOURCE_CREATE_2D,
      CMD_RESOURCE_UNREF, CMD_SET_SCANOUT, CMD_RESOURCE_FLUSH, CMD_TRANSFER_TO_HOST_2D,
      CMD_RESOURCE_ATTACH_BACKING, CMD_RESOURCE_DETACH_BACKING, CMD_UPDATE_CURSOR, CMD_MOVE_CURSOR,
      FORMAT_B8G8R8A8_UNORM, Spec.T_GET_DISPLAY_INFO, Spec.T_GET_EDID, Spec.T_RESOURCE_CREATE_2D,
      Spec.T_RESOURCE_UNREF, Spec.T_SET_SCANOUT, Spec.T_RESOURCE_FLUSH, Spec.T_TRANSFER_TO_HOST_2D,
      Spec.T_RESOURCE_ATTACH_BACKING, Spec.T_RESOURCE_DETACH_BACKING, Spec.T_UPDATE_CURSOR,
      Spec.T_MOVE_CURSOR] <;> omega))

theorem spec_tables_contiguous :
    contiguous Spec.ctrlHdr 0 24 ∧ contiguous Spec.getEdid 0 32 ∧ contiguous Spec.resourceCreate2d 0 40
    ∧ contiguous Spec.resourceUnref 0 32 ∧ contiguous Spec.setScanout 0 48 ∧ contiguous Spec.resourceFlush 0 48
    ∧ contiguous Spec.transferToHost2d 0 56 ∧ contiguous Spec.resourceAttachBacking1 0 48
    ∧ contiguous Spec.resourceDetachBacking 0 32 ∧ contiguous Spec.updateCursor 0 56 := by decide

theorem enc_getDisplayInfo :
    specDecode Spec.ctrlHdr encGetDisplayInfo = [Spec.T_GET_DISPLAY_INFO, 0, 0, 0, 0]
    ∧ encGetDisplayInfo.length = 24 := by enc_tac

theorem enc_getEdid (sc : Nat) (h : sc < 2 ^ 32) :
    specDecode Spec.getEdid (encGetEdid sc) = [Spec.T_GET_EDID, 0, 0, 0, 0, sc, 0]
    ∧ (encGetEdid sc).length = 32 := by enc_tac

theorem enc_resourceCreate2d (id w h : Nat) (h1 : id < 2 ^ 32) (h2 : w < 2 ^ 32) (h3 : h < 2 ^ 32) :
    specDecode Spec.resourceCreate2d (encResourceCreate2d id w h)
      = [Spec.T_RESOURCE_CREATE_2D, 0, 0, 0, 0, id, 1, w, h]
    ∧ (encResourceCreate2d id w h).length = 40 := by enc_tac

theorem enc_resourceUnref (id : Nat) (h1 : id < 2 ^ 32) :
    specDecode Spec.resourceUnref (encResourceUnref id) = [Spec.T_RESOURCE_UNREF, 0, 0, 0, 0, id, 0]
    ∧ (encResourceUnref id).length = 32 := by enc_tac

theorem enc_resourceDetachBacking (id : Nat) (h1 : id < 2 ^ 32) :
    specDecode Spec.resourceDetachBacking (encResourceDetachBacking id)
      = [Spec.T_RESOURCE_DETACH_BACKING, 0, 0, 0, 0, id, 0]
    ∧ (encResourceDetachBacking id).length = 32 := by enc_tac

theorem enc_setScanout (x y w h sc id : Nat) (hx : x < 2 ^ 32) (hy : y < 2 ^ 32) (hw : w < 2 ^ 32)
    (hh : h < 2 ^ 32) (hs : sc < 2 ^ 32) (hi : id < 2 ^ 32) :
    specDecode Spec.setScanout (encSetScanout x y w h sc id)
      = [Spec.T_SET_SCANOUT, 0, 0, 0, 0, x, y, w, h, sc, id]
    ∧ (encSetScanout x y w h sc id).length = 48 := by enc_tac

theorem enc_resourceFlush (x y w h id : Nat) (hx : x < 2 ^ 32) (hy : y < 2 ^ 32) (hw : w < 2 ^ 32)
    (hh : h < 2 ^ 32) (hi : id < 2 ^ 32) :
    specDecode Spec.resourceFlush (encResourceFlush x y w h id)
      = [Spec.T_RESOURCE_FLUSH, 0, 0, 0, 0, x, y, w, h, id, 0]
    ∧ (encResourceFlush x y w h id).length = 48 := by enc_tac

theorem enc_transferToHost2d (x y w h off id : Nat) (hx : x < 2 ^ 32) (hy : y < 2 ^ 32)
    (hw : w < 2 ^ 32) (hh : h < 2 ^ 32) (ho : off < 2 ^ 64) (hi : id < 2 ^ 32) :
    specDecode Spec.transferToHost2d (encTransferToHost2d x y w h off id)
      = [Spec.T_TRANSFER_TO_HOST_2D, 0, 0, 0, 0, x, y, w, h, off, id, 0]
    ∧ (encTransferToHost2d x y w h off id).length = 56 := by enc_tac

theorem enc_resourceAttachBacking (id addr len : Nat) (hi : id < 2 ^ 32) (ha : addr < 2 ^ 64)
    (hl : len < 2 ^ 32) :
    specDecode Spec.resourceAttachBacking1 (encResourceAttachBacking id addr len)
      = [Spec.T_RESOURCE_ATTACH_BACKING, 0, 0, 0, 0, id, 1, addr, len, 0]
    ∧ (encResourceAttachBacking id addr len).length = 48 := by enc_tac

theorem enc_cursor (m : Bool) (sc x y id hx hy : Nat) (h0 : sc < 2 ^ 32) (h1 : x < 2 ^ 32)
    (h2 : y < 2 ^ 32) (h3 : id < 2 ^ 32) (h4 : hx < 2 ^ 32) (h5 : hy < 2 ^ 32) :
    specDecode Spec.updateCursor (encCursor m sc x y id hx hy)
      = [if m then Spec.T_MOVE_CURSOR else Spec.T_UPDATE_CURSOR, 0, 0, 0, 0, sc, x, y, 0, id, hx, hy, 0]
    ∧ (encCursor m sc x y id hx hy).length = 56 := by
  cases m <;> enc_tac

end Gpu

/-! ## GPU: response checking and command order -/
namespace Gpu
open VirtioVerif.Gpu

/-- `check_type` accepts exactly one value of the 2^32 (indeed of all) type values -/
theorem checkType_iff (r : Bytes) (e : Nat) : checkType r e = true ↔ fieldAt r 0 4 = e := by
  simp [checkType]

/-- the type field of every encoded command is the command's type number -/
theorem type_of_encode (b st : Nat) (c : Cmd) : fieldAt (c.encode b st) 0 4 = c.type := by
  cases c
  case cursor m a1 a2 a3 a4 a5 a6 =>
    cases m <;> simp [Cmd.encode, Cmd.type, encGetDisplayInfo, encGetEdid, encResourceCreate2d, encResourceUnref, encSetScanout,
      encResourceFlush, encTransferToHost2d, encResourceAttachBacking, encResourceDetachBacking, encCursor, encHdr,
      le32, fieldAt, fromLE, CMD_GET_DISPLAY_INFO, CMD_GET_EDID, CMD_RESOURCE_CREATE_2D, CMD_RESOURCE_UNREF,
      CMD_SET_SCANOUT, CMD_RESOURCE_FLUSH, CMD_TRANSFER_TO_HOST_2D, CMD_RESOURCE_ATTACH_BACKING,
      CMD_RESOURCE_DETACH_BACKING, CMD_UPDATE_CURSOR, CMD_MOVE_CURSOR]
  all_goals simp [Cmd.encode, Cmd.type, encGetDisplayInfo, encGetEdid, encResourceCreate2d, encResourceUnref, encSetScanout,
      encResourceFlush, encTransferToHost2d, encResourceAttachBacking, encResourceDetachBacking, encCursor, encHdr,
      le32, fieldAt, fromLE, CMD_GET_DISPLAY_INFO, CMD_GET_EDID, CMD_RESOURCE_CREATE_2D, CMD_RESOURCE_UNREF,
      CMD_SET_SCANOUT, CMD_RESOURCE_FLUSH, CMD_TRANSFER_TO_HOST_2D, CMD_RESOURCE_ATTACH_BACKING,
      CMD_RESOURCE_DETACH_BACKING, CMD_UPDATE_CURSOR, CMD_MOVE_CURSOR]

/-- the response type the driver insists on is the success type the specification defines for the command -/
theorem expected_is_spec_ok (c : Cmd) (hq : ∀ m a b d e f g, c ≠ .cursor m a b d e f g) :
    c.expected = Spec.okTypeFor c.type := by
  cases c <;> first | rfl | (exfalso; exact hq _ _ _ _ _ _ _ rfl)

/-- commands placed on the control queue, in order -/
def ctrlCmds (evs : List Ev) : List Cmd :=
  evs.filterMap fun e => match e with | .req 0 c => some c | _ => none

/-- the `k`-th, `k+1`-th … control requests of an operation all got the expected success type -/
def allExpected (dev : Dev) (b st : Nat) : Nat → List Cmd → Prop
  | _, [] => True
  | k, c :: cs => fieldAt (dev k (c.encode b st)) 0 4 = c.expected ∧ allExpected dev b st (k + 1) cs

macro "gpu_unfold" "[" t:ident "]" "at" h:ident : tactic =>
  `(tactic| simp (maxSteps := 4000000) only [$t:ident, step, resolution, getEdid, getDisplayInfoThen,
      setupFramebuffer, changeResolution, changeResolutionFrom, teardownThen, flush, setupCursor, moveCursor,
      Ctx.nodata, Ctx.ctrl, Ctx.finish, Ctx.cursorReq, Ctx.allocOk, Ctx.allocFail, Ctx.dealloc] at $h:ident)

macro "gpu_close" "at" h:ident : tactic =>
  `(tactic| first
    | (simp at $h:ident; done)
    | (simp [ctrlCmds, allExpected, checkType, Cmd.expected] at *; done)
    | (simp [ctrlCmds, allExpected, checkType, Cmd.expected] at *; (repeat' apply And.intro) <;> assumption))

/-- **Every non-success response ↦ error**, for every operation, every device and all type values:
an operation returns `Ok` only if *each* response it received carried exactly the expected success
type (contrapositive: any other value among the 2^32 makes the operation fail). -/
theorem ok_only_if_all_expected (dev : Dev) (s : St) (op : Op) (v : Val) (h : (step dev s op).res = .ok v) :
    allExpected dev s.base s.stride 0 (ctrlCmds (step dev s op).evs) := by
  generalize hout : step dev s op = out at h ⊢
  rcases hfb : s.fb with _ | d <;> cases op
  case some.setupFramebuffer f =>
    simp only [step, setupFramebuffer, getDisplayInfoThen, Ctx.ctrl] at hout
    split at hout
    · generalize fieldAt (dev 0 (Cmd.encode s.base s.stride Cmd.getDisplayInfo)) 32 4 = w at hout
      generalize fieldAt (dev 0 (Cmd.encode s.base s.stride Cmd.getDisplayInfo)) 36 4 = hh at hout
      gpu_unfold [hfb] at hout
      by_cases h1 : checkType (dev 1 (Cmd.encode s.base s.stride (Cmd.setScanout 0 0 0 0 SCANOUT_ID 0))) RESP_OK_NODATA = true
      · by_cases h2 : checkType (dev 2 (Cmd.encode s.base s.stride (Cmd.detach RESOURCE_ID_FB))) RESP_OK_NODATA = true
        · simp only [h1, h2, Bool.not_true, Bool.false_eq_true, ↓reduceIte] at hout
          (repeat' split at hout) <;> subst hout <;> gpu_close at h
        · simp only [h1, h2, Bool.not_true, Bool.false_eq_true, ↓reduceIte, Bool.not_eq_true] at hout
          simp only [Bool.not_eq_true] at h2
          simp only [h2, Bool.not_false, ↓reduceIte] at hout
          subst hout; simp at h
      · simp only [Bool.not_eq_true] at h1
        simp only [h1, Bool.not_false, ↓reduceIte] at hout
        subst hout; simp at h
    · subst hout; simp at h
  case none.setupFramebuffer f =>
    simp only [step, setupFramebuffer, getDisplayInfoThen, Ctx.ctrl] at hout
    split at hout
    · generalize fieldAt (dev 0 (Cmd.encode s.base s.stride Cmd.getDisplayInfo)) 32 4 = w at hout
      generalize fieldAt (dev 0 (Cmd.encode s.base s.stride Cmd.getDisplayInfo)) 36 4 = hh at hout
      gpu_unfold [hfb] at hout
      (repeat' split at hout) <;> subst hout <;> gpu_close at h
    · subst hout; simp at h
  case some.changeResolution f w hh =>
    gpu_unfold [hfb] at hout
    by_cases h1 : checkType (dev 0 (Cmd.encode s.base s.stride (Cmd.setScanout 0 0 0 0 SCANOUT_ID 0))) RESP_OK_NODATA = true
    · by_cases h2 : checkType (dev 1 (Cmd.encode s.base s.stride (Cmd.detach RESOURCE_ID_FB))) RESP_OK_NODATA = true
      · simp only [h1, h2, Bool.not_true, Bool.false_eq_true, ↓reduceIte] at hout
        (repeat' split at hout) <;> subst hout <;> gpu_close at h
      · simp only [h1, h2, Bool.not_true, Bool.false_eq_true, ↓reduceIte, Bool.not_eq_true] at hout
        simp only [Bool.not_eq_true] at h2
        simp only [h2, Bool.not_false, ↓reduceIte] at hout
        subst hout; simp at h
    · simp only [Bool.not_eq_true] at h1
      simp only [h1, Bool.not_false, ↓reduceIte] at hout
      subst hout; simp at h
  all_goals (gpu_unfold [hfb] at hout <;> (repeat' split at hout) <;> subst hout <;> gpu_close at h)

/-- `change_resolution` on a driver without framebuffer: a successful call emitted exactly
create resource → (allocate) → attach backing → set scanout, with the caller's width/height in the
create and scanout commands and `width*height*4` bytes of the *new* region attached, and the region
covers that length. -/
theorem changeResolution_fresh_events (dev : Dev) (s : St) (f : Bool) (w h : Nat) (v : Val)
    (hfb : s.fb = none) (hok : (changeResolution dev f s w h).res = .ok v) :
    (changeResolution dev f s w h).evs =
      [.req 0 (.create2d RESOURCE_ID_FB w h), .alloc s.nextDma (pagesFor (w * h * 4)) true,
       .req 0 (.attach RESOURCE_ID_FB s.nextDma (w * h * 4)),
       .req 0 (.setScanout 0 0 w h SCANOUT_ID RESOURCE_ID_FB)]
    ∧ (changeResolution dev f s w h).st.fb = some ⟨s.nextDma, pagesFor (w * h * 4)⟩
    ∧ v = .fbLen (pagesFor (w * h * 4) * PAGE)
    ∧ w * h * 4 ≤ pagesFor (w * h * 4) * PAGE := by
  generalize hout : changeResolution dev f s w h = out at hok ⊢
  gpu_unfold [hfb] at hout
  (repeat' split at hout) <;> subst hout <;> simp at hok
  simp [hok.symm, pagesFor, PAGE]
  omega

/-- `change_resolution` with an existing framebuffer `d`: a successful call first disables the
scanout, detaches and unreferences the old resource, only then releases `d`, then performs the
fresh sequence. -/
theorem changeResolution_existing_events (dev : Dev) (s : St) (f : Bool) (w h : Nat) (v : Val) (d : Dma)
    (hfb : s.fb = some d) (hok : (changeResolution dev f s w h).res = .ok v) :
    (changeResolution dev f s w h).evs =
      [.req 0 (.setScanout 0 0 0 0 SCANOUT_ID 0), .req 0 (.detach RESOURCE_ID_FB), .req 0 (.unref RESOURCE_ID_FB),
       .dealloc d.region d.pages,
       .req 0 (.create2d RESOURCE_ID_FB w h), .alloc s.nextDma (pagesFor (w * h * 4)) true,
       .req 0 (.attach RESOURCE_ID_FB s.nextDma (w * h * 4)),
       .req 0 (.setScanout 0 0 w h SCANOUT_ID RESOURCE_ID_FB)]
    ∧ (changeResolution dev f s w h).st.fb = some ⟨s.nextDma, pagesFor (w * h * 4)⟩ := by
  generalize hout : changeResolution dev f s w h = out at hok ⊢
  gpu_unfold [hfb] at hout
  by_cases h1 : checkType (dev 0 (Cmd.encode s.base s.stride (Cmd.setScanout 0 0 0 0 SCANOUT_ID 0))) RESP_OK_NODATA = true
  · by_cases h2 : checkType (dev 1 (Cmd.encode s.base s.stride (Cmd.detach RESOURCE_ID_FB))) RESP_OK_NODATA = true
    · simp only [h1, h2, Bool.not_true, Bool.false_eq_true, ↓reduceIte] at hout
      (repeat' split at hout) <;> subst hout <;> simp at hok
      simp
    · simp only [h1, h2, Bool.not_true, Bool.false_eq_true, ↓reduceIte, Bool.not_eq_true] at hout
      simp only [Bool.not_eq_true] at h2
      simp only [h2, Bool.not_false, ↓reduceIte] at hout
      subst hout; simp at hok
  · simp only [Bool.not_eq_true] at h1
    simp only [h1, Bool.not_false, ↓reduceIte] at hout
    subst hout; simp at hok

/-- `flush`: transfer to host, then resource flush, both over the whole current rectangle of the
framebuffer resource, from offset 0. -/
theorem flush_events (dev : Dev) (s : St) (v : Val) (hok : (flush dev s).res = .ok v) :
    ∃ x y w h, s.rect = some (x, y, w, h) ∧
      (flush dev s).evs = [.req 0 (.transfer x y w h 0 RESOURCE_ID_FB), .req 0 (.flush x y w h RESOURCE_ID_FB)] := by
  generalize hout : flush dev s = out at hok ⊢
  rcases hfb : s.fb with _ | d <;> gpu_unfold [hfb] at hout <;>
    (repeat' split at hout) <;> subst hout <;> simp at hok <;> simp_all

/-- `setup_cursor`: allocate, create the 64×64 resource, attach the new region with 16384 bytes,
transfer the image, and only then `UPDATE_CURSOR` on the cursor queue with the caller's position and
hot spot; a previous cursor buffer is released after the new one has been attached. -/
theorem setupCursor_events (dev : Dev) (s : St) (f : Bool) (n x y hx hy : Nat) (v : Val)
    (hok : (setupCursor dev f s n x y hx hy).res = .ok v) :
    (setupCursor dev f s n x y hx hy).evs =
      [.alloc s.nextDma 4 true, .req 0 (.create2d RESOURCE_ID_CURSOR 64 64),
       .req 0 (.attach RESOURCE_ID_CURSOR s.nextDma 16384), .req 0 (.transfer 0 0 64 64 0 RESOURCE_ID_CURSOR),
       .req 1 (.cursor false SCANOUT_ID x y RESOURCE_ID_CURSOR hx hy)]
      ++ (match s.cursor with | none => [] | some old => [.dealloc old.region old.pages])
    ∧ (setupCursor dev f s n x y hx hy).st.cursor = some ⟨s.nextDma, 4⟩ ∧ n = 16384 := by
  generalize hout : setupCursor dev f s n x y hx hy = out at hok ⊢
  rcases hfb : s.fb with _ | d <;> gpu_unfold [hfb] at hout <;>
    (repeat' split at hout) <;> subst hout <;> simp at hok <;>
    simp_all [CURSOR_W, CURSOR_H, pagesFor, PAGE]

/-- `move_cursor`: one `MOVE_CURSOR` on the cursor queue carrying the caller's position -/
theorem moveCursor_events (s : St) (x y : Nat) :
    (moveCursor s x y).evs = [.req 1 (.cursor true SCANOUT_ID x y RESOURCE_ID_CURSOR 0 0)]
    ∧ (moveCursor s x y).res = .ok .unit := by
  simp [moveCursor]

/-- the control-queue command types an operation may emit, in order -/
def changeSeq (s : St) : List Nat :=
  (if s.fb.isSome then [CMD_SET_SCANOUT, CMD_RESOURCE_DETACH_BACKING, CMD_RESOURCE_UNREF] else [])
    ++ [CMD_RESOURCE_CREATE_2D, CMD_RESOURCE_ATTACH_BACKING, CMD_SET_SCANOUT]

def fullSeq (s : St) : Op → List Nat
  | .resolution => [CMD_GET_DISPLAY_INFO]
  | .getEdid _ => [CMD_GET_EDID]
  | .setupFramebuffer _ => CMD_GET_DISPLAY_INFO :: changeSeq s
  | .changeResolution .. => changeSeq s
  | .flush => [CMD_TRANSFER_TO_HOST_2D, CMD_RESOURCE_FLUSH]
  | .setupCursor .. => [CMD_RESOURCE_CREATE_2D, CMD_RESOURCE_ATTACH_BACKING, CMD_TRANSFER_TO_HOST_2D]
  | .moveCursor .. => []

/-- **Command order for every device behaviour** (errors included): what an operation puts on the
control queue is always a prefix of its fixed sequence — so `SET_SCANOUT(fb)` never precedes
`RESOURCE_ATTACH_BACKING`, which never precedes `RESOURCE_CREATE_2D`; `RESOURCE_FLUSH` never precedes
`TRANSFER_TO_HOST_2D`. -/
theorem order_prefix (dev : Dev) (s : St) (op : Op) :
    ((ctrlCmds (step dev s op).evs).map Cmd.type) <+: fullSeq s op := by
  generalize hout : step dev s op = out
  rcases hfb : s.fb with _ | d <;> cases op
  case some.setupFramebuffer f =>
    simp only [step, setupFramebuffer, getDisplayInfoThen, Ctx.ctrl] at hout
    split at hout
    · generalize fieldAt (dev 0 (Cmd.encode s.base s.stride Cmd.getDisplayInfo)) 32 4 = w at hout
      generalize fieldAt (dev 0 (Cmd.encode s.base s.stride Cmd.getDisplayInfo)) 36 4 = hh at hout
      gpu_unfold [hfb] at hout
      by_cases h1 : checkType (dev 1 (Cmd.encode s.base s.stride (Cmd.setScanout 0 0 0 0 SCANOUT_ID 0))) RESP_OK_NODATA = true
      · by_cases h2 : checkType (dev 2 (Cmd.encode s.base s.stride (Cmd.detach RESOURCE_ID_FB))) RESP_OK_NODATA = true
        · simp only [h1, h2, Bool.not_true, Bool.false_eq_true, ↓reduceIte] at hout
          (repeat' split at hout) <;> subst hout <;> simp [ctrlCmds, fullSeq, changeSeq, hfb, Cmd.type] <;> decide
        · simp only [h1, h2, Bool.not_true, Bool.false_eq_true, ↓reduceIte, Bool.not_eq_true] at hout
          simp only [Bool.not_eq_true] at h2
          simp only [h2, Bool.not_false, ↓reduceIte] at hout
          subst hout; simp [ctrlCmds, fullSeq, changeSeq, hfb, Cmd.type] <;> decide
      · simp only [Bool.not_eq_true] at h1
        simp only [h1, Bool.not_false, ↓reduceIte] at hout
        subst hout; simp [ctrlCmds, fullSeq, changeSeq, hfb, Cmd.type] <;> decide
    · subst hout; simp [ctrlCmds, fullSeq, changeSeq, hfb, Cmd.type] <;> decide
  case none.setupFramebuffer f =>
    simp only [step, setupFramebuffer, getDisplayInfoThen, Ctx.ctrl] at hout
    split at hout
    · generalize fieldAt (dev 0 (Cmd.encode s.base s.stride Cmd.getDisplayInfo)) 32 4 = w at hout
      generalize fieldAt (dev 0 (Cmd.encode s.base s.stride Cmd.getDisplayInfo)) 36 4 = hh at hout
      gpu_unfold [hfb] at hout
      (repeat' split at hout) <;> subst hout <;> simp [ctrlCmds, fullSeq, changeSeq, hfb, Cmd.type] <;> decide
    · subst hout; simp [ctrlCmds, fullSeq, changeSeq, hfb, Cmd.type] <;> decide
  case some.changeResolution f w hh =>
    gpu_unfold [hfb] at hout
    by_cases h1 : checkType (dev 0 (Cmd.encode s.base s.stride (Cmd.setScanout 0 0 0 0 SCANOUT_ID 0))) RESP_OK_NODATA = true
    · by_cases h2 : checkType (dev 1 (Cmd.encode s.base s.stride (Cmd.detach RESOURCE_ID_FB))) RESP_OK_NODATA = true
      · simp only [h1, h2, Bool.not_true, Bool.false_eq_true, ↓reduceIte] at hout
        (repeat' split at hout) <;> subst hout <;> simp [ctrlCmds, fullSeq, changeSeq, hfb, Cmd.type] <;> decide
      · simp only [h1, h2, Bool.not_true, Bool.false_eq_true, ↓reduceIte, Bool.not_eq_true] at hout
        simp only [Bool.not_eq_true] at h2
        simp only [h2, Bool.not_false, ↓reduceIte] at hout
        subst hout; simp [ctrlCmds, fullSeq, changeSeq, hfb, Cmd.type] <;> decide
    · simp only [Bool.not_eq_true] at h1
      simp only [h1, Bool.not_false, ↓reduceIte] at hout
      subst hout; simp [ctrlCmds, fullSeq, changeSeq, hfb, Cmd.type] <;> decide
  all_goals (gpu_unfold [hfb] at hout <;> (repeat' split at hout) <;> subst hout <;>
    simp [ctrlCmds, fullSeq, changeSeq, hfb, Cmd.type] <;> decide)

end Gpu

end VirtioVerif.Props.C20
