import VirtioVerif.Model.Wire
import VirtioVerif.Model.CmdQueue
import VirtioVerif.Model.Gpu
import VirtioVerif.Model.Edid
import VirtioVerif.Model.Sound
import VirtioVerif.Model.SmallDevs
/-!
# C20 — command/response drivers encode requests per spec and check every response

Statements are over *all* parameter values (`< 2^32` / `< 2^64` as the field widths dictate), all
device behaviours (`Dev` is an arbitrary function), all histories.
-/
namespace VirtioVerif.Props.C20
open VirtioVerif VirtioVerif.Wire

/-! ## wire helpers -/

theorem fromLE_le32 (n : Nat) (h : n < 2 ^ 32) : fromLE (le32 n) = n := by
  simp [le32, fromLE]; omega

theorem fromLE_le64 (n : Nat) (h : n < 2 ^ 64) : fromLE (le64 n) = n := by
  simp [le64, fromLE]; omega

theorem fromLE_le16 (n : Nat) (h : n < 2 ^ 16) : fromLE (le16 n) = n := by
  simp [le16, fromLE]; omega

/-! ## GPU: encoders against the specification tables

Each theorem: the fields read out of the emitted bytes at the specification's offsets, sizes and
byte order are exactly (type, 0, 0, 0, 0, caller's parameters …), and the length is the structure
size.  This is decode∘encode = id and "field k = parameter k" at once. -/
namespace Gpu
open VirtioVerif.Gpu

macro "enc_tac" : tactic =>
  `(tactic| (simp [specDecode, Spec.ctrlHdr, Spec.rect, Spec.getEdid, Spec.resourceCreate2d, Spec.resourceUnref,
      Spec.setScanout, Spec.resourceFlush, Spec.transferToHost2d, Spec.resourceAttachBacking1,
      Spec.resourceDetachBacking, Spec.updateCursor,
      encGetDisplayInfo, encGetEdid, encResourceCreate2d, encResourceUnref, encSetScanout, encResourceFlush,
      encTransferToHost2d, encResourceAttachBacking, encResourceDetachBacking, encCursor, encHdr, encRect,
      le32, le64, fieldAt, fromLE, CMD_GET_DISPLAY_INFO, CMD_GET_EDID, CMD_RESOURCE_CREATE_2D,
      CMD_RESOURCE_UNREF, CMD_SET_SCANOUT, CMD_RESOURCE_FLUSH, CMD_TRANSFER_TO_HOST_2D,
      CMD_RESOURCE_ATTACH_BACKING, CMD_RESOURCE_DETACH_BACKING, CMD_UPDATE_CURSOR, CMD_MOVE_CURSOR,
      FORMAT_B8G8R8A8_UNORM, Spec.T_GET_DISPLAY_INFO, Spec.T_GET_EDID, Spec.T_RESOURCE_CREATE_2D,
      Spec.T_RESOURCE_UNREF, Spec.T_SET_SCANOUT, Spec.T_RESOURCE_FLUSH, Spec.T_TRANSFER_TO_HOST_2D,
      Spec.T_RESOURCE_ATTACH_BACKING, Spec.T_RESOURCE_DETACH_BACKING, Spec.T_UPDATE_CURSOR,
      Spec.T_MOVE_CURSOR] <;> omega))

theorem spec_tables_contiguous :
    contiguous Spec.ctrlHdr 0 24 ∧ contiguous Spec.getEdid 0 32 ∧ contiguous Spec.resourceCreate2d 0 40
    ∧ contiguous Spec.resourceUnref 0 32 ∧ contiguous Spec.setScanout 0 48 ∧ contiguous Spec.resourceFlush 0 48
    ∧ contiguous Spec.transferToHost2d 0 56 ∧ contiguous Spec.resourceAttachBacking1 0 48
    ∧ contiguous Spec.resourceDetachBacking 0 32 ∧ contiguous Spec.updateCursor 0 56 := by decide

theorem enc_getDisplayInfo :
    specDecode Spec.ctrlHdr encGetDisplayInfo = [Spec.T_GET_DISPLAY_INFO, 0, 0, 0, 0]
    ∧ encGetDisplayInfo.length = 24 := by enc_tac

theorem enc_getEdid (sc : Nat) (h : sc < 2 ^ 32) :
    specDecode Spec.getEdid (encGetEdid sc) = [Spec.T_GET_EDID, 0, 0, 0, 0, sc, 0]
    ∧ (encGetEdid sc).length = 32 := by enc_tac

theorem enc_resourceCreate2d (id w h : Nat) (h1 : id < 2 ^ 32) (h2 : w < 2 ^ 32) (h3 : h < 2 ^ 32) :
    specDecode Spec.resourceCreate2d (encResourceCreate2d id w h)
      = [Spec.T_RESOURCE_CREATE_2D, 0, 0, 0, 0, id, 1, w, h]
    ∧ (encResourceCreate2d id w h).length = 40 := by enc_tac

theorem enc_resourceUnref (id : Nat) (h1 : id < 2 ^ 32) :
    specDecode Spec.resourceUnref (encResourceUnref id) = [Spec.T_RESOURCE_UNREF, 0, 0, 0, 0, id, 0]
    ∧ (encResourceUnref id).length = 32 := by enc_tac

theorem enc_resourceDetachBacking (id : Nat) (h1 : id < 2 ^ 32) :
    specDecode Spec.resourceDetachBacking (encResourceDetachBacking id)
      = [Spec.T_RESOURCE_DETACH_BACKING, 0, 0, 0, 0, id, 0]
    ∧ (encResourceDetachBacking id).length = 32 := by enc_tac

theorem enc_setScanout (x y w h sc id : Nat) (hx : x < 2 ^ 32) (hy : y < 2 ^ 32) (hw : w < 2 ^ 32)
    (hh : h < 2 ^ 32) (hs : sc < 2 ^ 32) (hi : id < 2 ^ 32) :
    specDecode Spec.setScanout (encSetScanout x y w h sc id)
      = [Spec.T_SET_SCANOUT, 0, 0, 0, 0, x, y, w, h, sc, id]
    ∧ (encSetScanout x y w h sc id).length = 48 := by enc_tac

theorem enc_resourceFlush (x y w h id : Nat) (hx : x < 2 ^ 32) (hy : y < 2 ^ 32) (hw : w < 2 ^ 32)
    (hh : h < 2 ^ 32) (hi : id < 2 ^ 32) :
    specDecode Spec.resourceFlush (encResourceFlush x y w h id)
      = [Spec.T_RESOURCE_FLUSH, 0, 0, 0, 0, x, y, w, h, id, 0]
    ∧ (encResourceFlush x y w h id).length = 48 := by enc_tac

theorem enc_transferToHost2d (x y w h off id : Nat) (hx : x < 2 ^ 32) (hy : y < 2 ^ 32)
    (hw : w < 2 ^ 32) (hh : h < 2 ^ 32) (ho : off < 2 ^ 64) (hi : id < 2 ^ 32) :
    specDecode Spec.transferToHost2d (encTransferToHost2d x y w h off id)
      = [Spec.T_TRANSFER_TO_HOST_2D, 0, 0, 0, 0, x, y, w, h, off, id, 0]
    ∧ (encTransferToHost2d x y w h off id).length = 56 := by enc_tac

theorem enc_resourceAttachBacking (id addr len : Nat) (hi : id < 2 ^ 32) (ha : addr < 2 ^ 64)
    (hl : len < 2 ^ 32) :
    specDecode Spec.resourceAttachBacking1 (encResourceAttachBacking id addr len)
      = [Spec.T_RESOURCE_ATTACH_BACKING, 0, 0, 0, 0, id, 1, addr, len, 0]
    ∧ (encResourceAttachBacking id addr len).length = 48 := by enc_tac

theorem enc_cursor (m : Bool) (sc x y id hx hy : Nat) (h0 : sc < 2 ^ 32) (h1 : x < 2 ^ 32)
    (h2 : y < 2 ^ 32) (h3 : id < 2 ^ 32) (h4 : hx < 2 ^ 32) (h5 : hy < 2 ^ 32) :
    specDecode Spec.updateCursor (encCursor m sc x y id hx hy)
      = [if m then Spec.T_MOVE_CURSOR else Spec.T_UPDATE_CURSOR, 0, 0, 0, 0, sc, x, y, 0, id, hx, hy, 0]
    ∧ (encCursor m sc x y id hx hy).length = 56 := by
  cases m <;> enc_tac

end Gpu

/-! ## GPU: response checking and command order -/
namespace Gpu
open VirtioVerif.Gpu

/-- `check_type` accepts exactly one value of the 2^32 (indeed of all) type values -/
theorem checkType_iff (r : Bytes) (e : Nat) : checkType r e = true ↔ fieldAt r 0 4 = e := by
  simp [checkType]

/-- the type field of every encoded command is the command's type number -/
theorem type_of_encode (b st : Nat) (c : Cmd) : fieldAt (c.encode b st) 0 4 = c.type := by
  cases c
  case cursor m a1 a2 a3 a4 a5 a6 =>
    cases m <;> simp [Cmd.encode, Cmd.type, encGetDisplayInfo, encGetEdid, encResourceCreate2d, encResourceUnref, encSetScanout,
      encResourceFlush, encTransferToHost2d, encResourceAttachBacking, encResourceDetachBacking, encCursor, encHdr,
      le32, fieldAt, fromLE, CMD_GET_DISPLAY_INFO, CMD_GET_EDID, CMD_RESOURCE_CREATE_2D, CMD_RESOURCE_UNREF,
      CMD_SET_SCANOUT, CMD_RESOURCE_FLUSH, CMD_TRANSFER_TO_HOST_2D, CMD_RESOURCE_ATTACH_BACKING,
      CMD_RESOURCE_DETACH_BACKING, CMD_UPDATE_CURSOR, CMD_MOVE_CURSOR]
  all_goals simp [Cmd.encode, Cmd.type, encGetDisplayInfo, encGetEdid, encResourceCreate2d, encResourceUnref, encSetScanout,
      encResourceFlush, encTransferToHost2d, encResourceAttachBacking, encResourceDetachBacking, encCursor, encHdr,
      le32, fieldAt, fromLE, CMD_GET_DISPLAY_INFO, CMD_GET_EDID, CMD_RESOURCE_CREATE_2D, CMD_RESOURCE_UNREF,
      CMD_SET_SCANOUT, CMD_RESOURCE_FLUSH, CMD_TRANSFER_TO_HOST_2D, CMD_RESOURCE_ATTACH_BACKING,
      CMD_RESOURCE_DETACH_BACKING, CMD_UPDATE_CURSOR, CMD_MOVE_CURSOR]

/-- the response type the driver insists on is the success type the specification defines for the command -/
theorem expected_is_spec_ok (c : Cmd) (hq : ∀ m a b d e f g, c ≠ .cursor m a b d e f g) :
    c.expected = Spec.okTypeFor c.type := by
  cases c <;> first | rfl | (exfalso; exact hq _ _ _ _ _ _ _ rfl)

/-- commands placed on the control queue, in order -/
def ctrlCmds (evs : List Ev) : List Cmd :=
  evs.filterMap fun e => match e with | .req 0 c => some c | _ => none

/-- the `k`-th, `k+1`-th … control requests of an operation all got the expected success type -/
def allExpected (dev : Dev) (b st : Nat) : Nat → List Cmd → Prop
  | _, [] => True
  | k, c :: cs => fieldAt (dev k (c.encode b st)) 0 4 = c.expected ∧ allExpected dev b st (k + 1) cs

macro "gpu_unfold" "[" t:ident "]" "at" h:ident : tactic =>
  `(tactic| simp (maxSteps := 4000000) only [$t:ident, step, resolution, getEdid, getDisplayInfoThen,
      setupFramebuffer, changeResolution, changeResolutionFrom, teardownThen, flush, setupCursor, moveCursor,
      Ctx.nodata, Ctx.ctrl, Ctx.finish, Ctx.cursorReq, Ctx.allocOk, Ctx.allocFail, Ctx.dealloc] at $h:ident)

macro "gpu_close" "at" h:ident : tactic =>
  `(tactic| first
    | (simp at $h:ident; done)
    | (simp [ctrlCmds, allExpected, checkType, Cmd.expected] at *; done)
    | (simp [ctrlCmds, allExpected, checkType, Cmd.expected] at *; (repeat' apply And.intro) <;> assumption))

/-- **Every non-success response ↦ error**, for every operation, every device and all type values:
an operation returns `Ok` only if *each* response it received carried exactly the expected success
type (contrapositive: any other value among the 2^32 makes the operation fail). -/
theorem ok_only_if_all_expected (dev : Dev) (s : St) (op : Op) (v : Val) (h : (step dev s op).res = .ok v) :
    allExpected dev s.base s.stride 0 (ctrlCmds (step dev s op).evs) := by
  generalize hout : step dev s op = out at h ⊢
  rcases hfb : s.fb with _ | d <;> cases op
  case some.setupFramebuffer f =>
    simp only [step, setupFramebuffer, getDisplayInfoThen, Ctx.ctrl] at hout
    split at hout
    · generalize fieldAt (dev 0 (Cmd.encode s.base s.stride Cmd.getDisplayInfo)) 32 4 = w at hout
      generalize fieldAt (dev 0 (Cmd.encode s.base s.stride Cmd.getDisplayInfo)) 36 4 = hh at hout
      gpu_unfold [hfb] at hout
      by_cases h1 : checkType (dev 1 (Cmd.encode s.base s.stride (Cmd.setScanout 0 0 0 0 SCANOUT_ID 0))) RESP_OK_NODATA = true
      · by_cases h2 : checkType (dev 2 (Cmd.encode s.base s.stride (Cmd.detach RESOURCE_ID_FB))) RESP_OK_NODATA = true
        · simp only [h1, h2, Bool.not_true, Bool.false_eq_true, ↓reduceIte] at hout
          (repeat' split at hout) <;> subst hout <;> gpu_close at h
        · simp only [h1, h2, Bool.not_true, Bool.false_eq_true, ↓reduceIte, Bool.not_eq_true] at hout
          simp only [Bool.not_eq_true] at h2
          simp only [h2, Bool.not_false, ↓reduceIte] at hout
          subst hout; simp at h
      · simp only [Bool.not_eq_true] at h1
        simp only [h1, Bool.not_false, ↓reduceIte] at hout
        subst hout; simp at h
    · subst hout; simp at h
  case none.setupFramebuffer f =>
    simp only [step, setupFramebuffer, getDisplayInfoThen, Ctx.ctrl] at hout
    split at hout
    · generalize fieldAt (dev 0 (Cmd.encode s.base s.stride Cmd.getDisplayInfo)) 32 4 = w at hout
      generalize fieldAt (dev 0 (Cmd.encode s.base s.stride Cmd.getDisplayInfo)) 36 4 = hh at hout
      gpu_unfold [hfb] at hout
      (repeat' split at hout) <;> subst hout <;> gpu_close at h
    · subst hout; simp at h
  case some.changeResolution f w hh =>
    gpu_unfold [hfb] at hout
    by_cases h1 : checkType (dev 0 (Cmd.encode s.base s.stride (Cmd.setScanout 0 0 0 0 SCANOUT_ID 0))) RESP_OK_NODATA = true
    · by_cases h2 : checkType (dev 1 (Cmd.encode s.base s.stride (Cmd.detach RESOURCE_ID_FB))) RESP_OK_NODATA = true
      · simp only [h1, h2, Bool.not_true, Bool.false_eq_true, ↓reduceIte] at hout
        (repeat' split at hout) <;> subst hout <;> gpu_close at h
      · simp only [h1, h2, Bool.not_true, Bool.false_eq_true, ↓reduceIte, Bool.not_eq_true] at hout
        simp only [Bool.not_eq_true] at h2
        simp only [h2, Bool.not_false, ↓reduceIte] at hout
        subst hout; simp at h
    · simp only [Bool.not_eq_true] at h1
      simp only [h1, Bool.not_false, ↓reduceIte] at hout
      subst hout; simp at h
  all_goals (gpu_unfold [hfb] at hout <;> (repeat' split at hout) <;> subst hout <;> gpu_close at h)

/-- `change_resolution` on a driver without framebuffer: a successful call emitted exactly
create resource → (allocate) → attach backing → set scanout, with the caller's width/height in the
create and scanout commands and `width*height*4` bytes of the *new* region attached, and the region
covers that length. -/
theorem changeResolution_fresh_events (dev : Dev) (s : St) (f : Bool) (w h : Nat) (v : Val)
    (hfb : s.fb = none) (hok : (changeResolution dev f s w h).res = .ok v) :
    (changeResolution dev f s w h).evs =
      [.req 0 (.create2d RESOURCE_ID_FB w h), .alloc s.nextDma (pagesFor (w * h * 4)) true,
       .req 0 (.attach RESOURCE_ID_FB s.nextDma (w * h * 4)),
       .req 0 (.setScanout 0 0 w h SCANOUT_ID RESOURCE_ID_FB)]
    ∧ (changeResolution dev f s w h).st.fb = some ⟨s.nextDma, pagesFor (w * h * 4)⟩
    ∧ v = .fbLen (pagesFor (w * h * 4) * PAGE)
    ∧ w * h * 4 ≤ pagesFor (w * h * 4) * PAGE := by
  generalize hout : changeResolution dev f s w h = out at hok ⊢
  gpu_unfold [hfb] at hout
  (repeat' split at hout) <;> subst hout <;> simp at hok
  simp [hok.symm, pagesFor, PAGE]
  omega

/-- `change_resolution` with an existing framebuffer `d`: a successful call first disables the
scanout, detaches and unreferences the old resource, only then releases `d`, then performs the
fresh sequence. -/
theorem changeResolution_existing_events (dev : Dev) (s : St) (f : Bool) (w h : Nat) (v : Val) (d : Dma)
    (hfb : s.fb = some d) (hok : (changeResolution dev f s w h).res = .ok v) :
    (changeResolution dev f s w h).evs =
      [.req 0 (.setScanout 0 0 0 0 SCANOUT_ID 0), .req 0 (.detach RESOURCE_ID_FB), .req 0 (.unref RESOURCE_ID_FB),
       .dealloc d.region d.pages,
       .req 0 (.create2d RESOURCE_ID_FB w h), .alloc s.nextDma (pagesFor (w * h * 4)) true,
       .req 0 (.attach RESOURCE_ID_FB s.nextDma (w * h * 4)),
       .req 0 (.setScanout 0 0 w h SCANOUT_ID RESOURCE_ID_FB)]
    ∧ (changeResolution dev f s w h).st.fb = some ⟨s.nextDma, pagesFor (w * h * 4)⟩ := by
  generalize hout : changeResolution dev f s w h = out at hok ⊢
  gpu_unfold [hfb] at hout
  by_cases h1 : checkType (dev 0 (Cmd.encode s.base s.stride (Cmd.setScanout 0 0 0 0 SCANOUT_ID 0))) RESP_OK_NODATA = true
  · by_cases h2 : checkType (dev 1 (Cmd.encode s.base s.stride (Cmd.detach RESOURCE_ID_FB))) RESP_OK_NODATA = true
    · simp only [h1, h2, Bool.not_true, Bool.false_eq_true, ↓reduceIte] at hout
      (repeat' split at hout) <;> subst hout <;> simp at hok
      simp
    · simp only [h1, h2, Bool.not_true, Bool.false_eq_true, ↓reduceIte, Bool.not_eq_true] at hout
      simp only [Bool.not_eq_true] at h2
      simp only [h2, Bool.not_false, ↓reduceIte] at hout
      subst hout; simp at hok
  · simp only [Bool.not_eq_true] at h1
    simp only [h1, Bool.not_false, ↓reduceIte] at hout
    subst hout; simp at hok

/-- `flush`: transfer to host, then resource flush, both over the whole current rectangle of the
framebuffer resource, from offset 0. -/
theorem flush_events (dev : Dev) (s : St) (v : Val) (hok : (flush dev s).res = .ok v) :
    ∃ x y w h, s.rect = some (x, y, w, h) ∧
      (flush dev s).evs = [.req 0 (.transfer x y w h 0 RESOURCE_ID_FB), .req 0 (.flush x y w h RESOURCE_ID_FB)] := by
  generalize hout : flush dev s = out at hok ⊢
  rcases hfb : s.fb with _ | d <;> gpu_unfold [hfb] at hout <;>
    (repeat' split at hout) <;> subst hout <;> simp at hok <;> simp_all

/-- `setup_cursor`: allocate, create the 64×64 resource, attach the new region with 16384 bytes,
transfer the image, and only then `UPDATE_CURSOR` on the cursor queue with the caller's position and
hot spot; a previous cursor buffer is released after the new one has been attached. -/
theorem setupCursor_events (dev : Dev) (s : St) (f : Bool) (n x y hx hy : Nat) (v : Val)
    (hok : (setupCursor dev f s n x y hx hy).res = .ok v) :
    (setupCursor dev f s n x y hx hy).evs =
      [.alloc s.nextDma 4 true, .req 0 (.create2d RESOURCE_ID_CURSOR 64 64),
       .req 0 (.attach RESOURCE_ID_CURSOR s.nextDma 16384)]
      ++ (match s.cursor with | none => [] | some old => [.dealloc old.region old.pages])
      ++ [.req 0 (.transfer 0 0 64 64 0 RESOURCE_ID_CURSOR),
          .req 1 (.cursor false SCANOUT_ID x y RESOURCE_ID_CURSOR hx hy)]
    ∧ (setupCursor dev f s n x y hx hy).st.cursor = some ⟨s.nextDma, 4⟩ ∧ n = 16384 := by
  generalize hout : setupCursor dev f s n x y hx hy = out at hok ⊢
  rcases hfb : s.fb with _ | d <;> gpu_unfold [hfb] at hout <;>
    (repeat' split at hout) <;> subst hout <;> simp at hok <;>
    simp_all [CURSOR_W, CURSOR_H, pagesFor, PAGE]

/-- `move_cursor`: one `MOVE_CURSOR` on the cursor queue carrying the caller's position -/
theorem moveCursor_events (s : St) (x y : Nat) :
    (moveCursor s x y).evs = [.req 1 (.cursor true SCANOUT_ID x y RESOURCE_ID_CURSOR 0 0)]
    ∧ (moveCursor s x y).res = .ok .unit := by
  simp [moveCursor]

/-- the control-queue command types an operation may emit, in order -/
def changeSeq (s : St) : List Nat :=
  (if s.fb.isSome then [CMD_SET_SCANOUT, CMD_RESOURCE_DETACH_BACKING, CMD_RESOURCE_UNREF] else [])
    ++ [CMD_RESOURCE_CREATE_2D, CMD_RESOURCE_ATTACH_BACKING, CMD_SET_SCANOUT]

def fullSeq (s : St) : Op → List Nat
  | .resolution => [CMD_GET_DISPLAY_INFO]
  | .getEdid _ => [CMD_GET_EDID]
  | .setupFramebuffer _ => CMD_GET_DISPLAY_INFO :: changeSeq s
  | .changeResolution .. => changeSeq s
  | .flush => [CMD_TRANSFER_TO_HOST_2D, CMD_RESOURCE_FLUSH]
  | .setupCursor .. => [CMD_RESOURCE_CREATE_2D, CMD_RESOURCE_ATTACH_BACKING, CMD_TRANSFER_TO_HOST_2D]
  | .moveCursor .. => []

/-- **Command order for every device behaviour** (errors included): what an operation puts on the
control queue is always a prefix of its fixed sequence — so `SET_SCANOUT(fb)` never precedes
`RESOURCE_ATTACH_BACKING`, which never precedes `RESOURCE_CREATE_2D`; `RESOURCE_FLUSH` never precedes
`TRANSFER_TO_HOST_2D`. -/
theorem order_prefix (dev : Dev) (s : St) (op : Op) :
    ((ctrlCmds (step dev s op).evs).map Cmd.type) <+: fullSeq s op := by
  generalize hout : step dev s op = out
  rcases hfb : s.fb with _ | d <;> cases op
  case some.setupFramebuffer f =>
    simp only [step, setupFramebuffer, getDisplayInfoThen, Ctx.ctrl] at hout
    split at hout
    · generalize fieldAt (dev 0 (Cmd.encode s.base s.stride Cmd.getDisplayInfo)) 32 4 = w at hout
      generalize fieldAt (dev 0 (Cmd.encode s.base s.stride Cmd.getDisplayInfo)) 36 4 = hh at hout
      gpu_unfold [hfb] at hout
      by_cases h1 : checkType (dev 1 (Cmd.encode s.base s.stride (Cmd.setScanout 0 0 0 0 SCANOUT_ID 0))) RESP_OK_NODATA = true
      · by_cases h2 : checkType (dev 2 (Cmd.encode s.base s.stride (Cmd.detach RESOURCE_ID_FB))) RESP_OK_NODATA = true
        · simp only [h1, h2, Bool.not_true, Bool.false_eq_true, ↓reduceIte] at hout
          (repeat' split at hout) <;> subst hout <;> simp [ctrlCmds, fullSeq, changeSeq, hfb, Cmd.type] <;> decide
        · simp only [h1, h2, Bool.not_true, Bool.false_eq_true, ↓reduceIte, Bool.not_eq_true] at hout
          simp only [Bool.not_eq_true] at h2
          simp only [h2, Bool.not_false, ↓reduceIte] at hout
          subst hout; simp [ctrlCmds, fullSeq, changeSeq, hfb, Cmd.type] <;> decide
      · simp only [Bool.not_eq_true] at h1
        simp only [h1, Bool.not_false, ↓reduceIte] at hout
        subst hout; simp [ctrlCmds, fullSeq, changeSeq, hfb, Cmd.type] <;> decide
    · subst hout; simp [ctrlCmds, fullSeq, changeSeq, hfb, Cmd.type] <;> decide
  case none.setupFramebuffer f =>
    simp only [step, setupFramebuffer, getDisplayInfoThen, Ctx.ctrl] at hout
    split at hout
    · generalize fieldAt (dev 0 (Cmd.encode s.base s.stride Cmd.getDisplayInfo)) 32 4 = w at hout
      generalize fieldAt (dev 0 (Cmd.encode s.base s.stride Cmd.getDisplayInfo)) 36 4 = hh at hout
      gpu_unfold [hfb] at hout
      (repeat' split at hout) <;> subst hout <;> simp [ctrlCmds, fullSeq, changeSeq, hfb, Cmd.type] <;> decide
    · subst hout; simp [ctrlCmds, fullSeq, changeSeq, hfb, Cmd.type] <;> decide
  case some.changeResolution f w hh =>
    gpu_unfold [hfb] at hout
    by_cases h1 : checkType (dev 0 (Cmd.encode s.base s.stride (Cmd.setScanout 0 0 0 0 SCANOUT_ID 0))) RESP_OK_NODATA = true
    · by_cases h2 : checkType (dev 1 (Cmd.encode s.base s.stride (Cmd.detach RESOURCE_ID_FB))) RESP_OK_NODATA = true
      · simp only [h1, h2, Bool.not_true, Bool.false_eq_true, ↓reduceIte] at hout
        (repeat' split at hout) <;> subst hout <;> simp [ctrlCmds, fullSeq, changeSeq, hfb, Cmd.type] <;> decide
      · simp only [h1, h2, Bool.not_true, Bool.false_eq_true, ↓reduceIte, Bool.not_eq_true] at hout
        simp only [Bool.not_eq_true] at h2
        simp only [h2, Bool.not_false, ↓reduceIte] at hout
        subst hout; simp [ctrlCmds, fullSeq, changeSeq, hfb, Cmd.type] <;> decide
    · simp only [Bool.not_eq_true] at h1
      simp only [h1, Bool.not_false, ↓reduceIte] at hout
      subst hout; simp [ctrlCmds, fullSeq, changeSeq, hfb, Cmd.type] <;> decide
  all_goals (gpu_unfold [hfb] at hout <;> (repeat' split at hout) <;> subst hout <;>
    simp [ctrlCmds, fullSeq, changeSeq, hfb, Cmd.type] <;> decide)

/-! ### GPU backing memory stays allocated while attached (absent device errors)

`Track` is a specification-level observer of the event trace (commands the device accepted, DMA
allocations and releases): which regions are live, which resource has which region attached with
which length, what size each resource was created with; `violated` records a release of an attached
region, an attach of a region that is not live or too small, or a length other than the advertised
`width*height*4`. -/
structure Track where
  live : Nat → Option Nat
  backing : Nat → Option (Nat × Nat)
  adv : Nat → Option Nat
  violated : Prop

def Track.ev (t : Track) : Ev → Track
  | .alloc r p true => { t with live := fun x => if x = r then some p else t.live x }
  | .alloc _ _ false => t
  | .dealloc r _ =>
    { t with live := fun x => if x = r then none else t.live x,
             violated := t.violated ∨ ∃ res len, t.backing res = some (r, len) }
  | .req 0 (.create2d id w h) => { t with adv := fun x => if x = id then some (w * h * 4) else t.adv x }
  | .req 0 (.attach id r len) =>
    { t with backing := fun x => if x = id then some (r, len) else t.backing x,
             violated := t.violated ∨ ¬ (∃ p, t.live r = some p ∧ len ≤ p * 4096) ∨ t.adv id ≠ some len }
  | .req 0 (.detach id) => { t with backing := fun x => if x = id then none else t.backing x }
  | .req 0 (.unref id) => { t with backing := fun x => if x = id then none else t.backing x,
                                   adv := fun x => if x = id then none else t.adv x }
  | _ => t

def Track.run (t : Track) (evs : List Ev) : Track := evs.foldl Track.ev t

structure BackInv (fb cur : Option Dma) (next : Nat) (t : Track) : Prop where
  ok : ¬ t.violated
  back : ∀ res r len, t.backing res = some (r, len) →
      (res = RESOURCE_ID_FB ∧ ∃ d, fb = some d ∧ d.region = r) ∨ (res = RESOURCE_ID_CURSOR ∧ ∃ d, cur = some d ∧ d.region = r)
  fbLive : ∀ d, fb = some d → t.live d.region = some d.pages
  curLive : ∀ d, cur = some d → t.live d.region = some d.pages
  fresh : ∀ r p, t.live r = some p → r < next
  distinct : ∀ d d', fb = some d → cur = some d' → d.region ≠ d'.region

theorem pages_cover (n : Nat) : n ≤ pagesFor n * 4096 := by
  simp only [pagesFor, PAGE]; omega

/-- fresh framebuffer: create, allocate, attach -/
theorem inv_fb_attach (cur : Option Dma) (n : Nat) (t : Track) (w h : Nat)
    (hi : BackInv none cur n t) :
    BackInv (some ⟨n, pagesFor (w * h * 4)⟩) cur (n + 1)
      (t.run [.req 0 (.create2d RESOURCE_ID_FB w h), .alloc n (pagesFor (w * h * 4)) true,
              .req 0 (.attach RESOURCE_ID_FB n (w * h * 4)),
              .req 0 (.setScanout 0 0 w h SCANOUT_ID RESOURCE_ID_FB)]) := by
  have hc := pages_cover (w * h * 4)
  simp only [Track.run, List.foldl, Track.ev]
  refine ⟨?_, ?_, ?_, ?_, ?_, ?_⟩
  · simp [hi.ok]; exact hc
  · intro res r len hb
    simp only at hb
    split at hb
    · rename_i h1; simp at hb; left; exact ⟨h1, _, rfl, hb.1⟩
    · rcases hi.back res r len hb with ⟨_, d, hd, _⟩ | hr
      · simp at hd
      · right; exact hr
  · intro d hd; simp at hd; subst hd; simp
  · intro d hd
    have := hi.fresh _ _ (hi.curLive d hd)
    have hne : d.region ≠ n := by omega
    simp only [hne, ↓reduceIte]
    exact hi.curLive d hd
  · intro r p hl
    simp only at hl
    split at hl
    · omega
    · have := hi.fresh r p hl; omega
  · intro d d' hd hd'
    simp at hd; subst hd
    have := hi.fresh _ _ (hi.curLive d' hd')
    simp; omega

theorem inv_same {fb cur : Option Dma} {n : Nat} {t t' : Track} (hi : BackInv fb cur n t)
    (h1 : t'.live = t.live) (h2 : t'.backing = t.backing) (h3 : t'.violated = t.violated) : BackInv fb cur n t' := by
  refine ⟨?_, ?_, ?_, ?_, ?_, hi.distinct⟩
  · rw [h3]; exact hi.ok
  · rw [h2]; exact hi.back
  · rw [h1]; exact hi.fbLive
  · rw [h1]; exact hi.curLive
  · rw [h1]; exact hi.fresh

/-- tear-down of the old framebuffer: disable scanout, detach, unref, then release -/
theorem inv_fb_teardown (cur : Option Dma) (n : Nat) (t : Track) (d : Dma) (hi : BackInv (some d) cur n t) :
    BackInv none cur n
      (t.run [.req 0 (.setScanout 0 0 0 0 SCANOUT_ID 0), .req 0 (.detach RESOURCE_ID_FB),
              .req 0 (.unref RESOURCE_ID_FB), .dealloc d.region d.pages]) := by
  simp only [Track.run, List.foldl, Track.ev]
  refine ⟨?_, ?_, ?_, ?_, ?_, ?_⟩
  · simp only [not_or, not_exists]
    refine ⟨hi.ok, ?_⟩
    intro res len hb
    by_cases h1 : res = RESOURCE_ID_FB
    · simp [h1] at hb
    · simp only [h1, ↓reduceIte] at hb
      rcases hi.back res _ len hb with ⟨h, _⟩ | ⟨_, d', hd', hr⟩
      · exact h1 h
      · exact hi.distinct d d' rfl hd' hr.symm
  · intro res r len hb
    by_cases h1 : res = RESOURCE_ID_FB
    · simp [h1] at hb
    · simp only [h1, ↓reduceIte] at hb
      rcases hi.back res r len hb with ⟨h, _⟩ | hr
      · exact absurd h h1
      · right; exact hr
  · intro d' hd'; simp at hd'
  · intro d' hd'
    have hne : d'.region ≠ d.region := fun h => hi.distinct d d' rfl hd' h.symm
    simp only [hne, ↓reduceIte]
    exact hi.curLive d' hd'
  · intro r p hl
    simp only at hl
    split at hl
    · simp at hl
    · exact hi.fresh r p hl
  · intro d0 d' hd; simp at hd

/-- cursor set-up: allocate, create, attach the new region, release a previous buffer, transfer, update cursor -/
theorem inv_cursor (fb old : Option Dma) (n : Nat) (t : Track) (x y hx hy : Nat) (hi : BackInv fb old n t) :
    BackInv fb (some ⟨n, 4⟩) (n + 1)
      (t.run ([.alloc n 4 true, .req 0 (.create2d RESOURCE_ID_CURSOR 64 64),
               .req 0 (.attach RESOURCE_ID_CURSOR n 16384)]
              ++ (match old with | none => [] | some o => [.dealloc o.region o.pages])
              ++ [.req 0 (.transfer 0 0 64 64 0 RESOURCE_ID_CURSOR),
                  .req 1 (.cursor false SCANOUT_ID x y RESOURCE_ID_CURSOR hx hy)])) := by
  have hfc : RESOURCE_ID_FB ≠ RESOURCE_ID_CURSOR := by decide
  cases old with
  | none =>
    simp only [Track.run, List.append_nil, List.nil_append, List.cons_append, List.foldl, Track.ev]
    refine ⟨?_, ?_, ?_, ?_, ?_, ?_⟩
    · simp [hi.ok]
    · intro res r len hb
      simp only at hb
      split at hb
      · rename_i h1; simp at hb; right; exact ⟨h1, _, rfl, hb.1⟩
      · rcases hi.back res r len hb with hl | ⟨_, d, hd, _⟩
        · left; exact hl
        · simp at hd
    · intro d hd
      have := hi.fresh _ _ (hi.fbLive d hd)
      have hne : d.region ≠ n := by omega
      simp only [hne, ↓reduceIte]; exact hi.fbLive d hd
    · intro d hd; simp at hd; subst hd; simp
    · intro r p hl
      simp only at hl
      split at hl
      · omega
      · have := hi.fresh r p hl; omega
    · intro d d' hd hd'
      simp at hd'; subst hd'
      have := hi.fresh _ _ (hi.fbLive d hd)
      simp; omega
  | some o =>
    have hon : o.region < n := hi.fresh _ _ (hi.curLive o rfl)
    simp only [Track.run, List.cons_append, List.nil_append, List.foldl, Track.ev]
    refine ⟨?_, ?_, ?_, ?_, ?_, ?_⟩
    · simp only [not_or, not_exists]
      refine ⟨⟨hi.ok, by simp⟩, ?_⟩
      intro res len hb
      by_cases h1 : res = RESOURCE_ID_CURSOR
      · simp [h1] at hb; omega
      · simp only [h1, ↓reduceIte] at hb
        rcases hi.back res _ len hb with ⟨_, d, hd, hr⟩ | ⟨h, _⟩
        · exact hi.distinct d o hd rfl hr
        · exact h1 h
    · intro res r len hb
      simp only at hb
      split at hb
      · rename_i h1; simp at hb; right; exact ⟨h1, _, rfl, hb.1⟩
      · rename_i h1
        rcases hi.back res r len hb with hl | ⟨h, _⟩
        · left; exact hl
        · exact absurd h h1
    · intro d hd
      have h1 := hi.fresh _ _ (hi.fbLive d hd)
      have hne : d.region ≠ n := by omega
      have hne2 : d.region ≠ o.region := hi.distinct d o hd rfl
      simp only [hne, hne2, ↓reduceIte]; exact hi.fbLive d hd
    · intro d hd; simp at hd; subst hd
      have : n ≠ o.region := by omega
      simp [this]
    · intro r p hl
      simp only at hl
      split at hl
      · simp at hl
      · split at hl
        · omega
        · have := hi.fresh r p hl; omega
    · intro d d' hd hd'
      simp at hd'; subst hd'
      have := hi.fresh _ _ (hi.fbLive d hd)
      simp; omega

theorem run_append (t : Track) (a b : List Ev) : t.run (a ++ b) = (t.run a).run b := by
  simp [Track.run, List.foldl_append]

/-- absence of device errors: whatever command it is sent, the device answers with the success type
the driver expects for it -/
def NoDeviceErrors (dev : Dev) : Prop := ∀ k b st (c : Cmd), fieldAt (dev k (c.encode b st)) 0 4 = c.expected

macro "leaf" : tactic =>
  `(tactic| first
    | (exfalso; apply ‹_ ≠ _›; rfl)
    | (dsimp only [List.nil_append, List.cons_append] ; (try simp only [‹St.fb _ = _›, ‹St.cursor _ = _›]) ; exact inv_same ‹BackInv _ _ _ _› rfl rfl rfl)
    | (dsimp only [List.nil_append, List.cons_append] ; (try simp only [‹St.fb _ = _›, ‹St.cursor _ = _›]) ; exact inv_fb_attach _ _ _ _ _ ‹BackInv none _ _ _›)
    | (dsimp only [List.nil_append, List.cons_append] ; (try simp only [‹St.fb _ = _›, ‹St.cursor _ = _›]) ; exact inv_fb_attach _ _ _ _ _ (inv_fb_teardown _ _ _ _ ‹BackInv (some _) _ _ _›))
    | (dsimp only [List.nil_append, List.cons_append] ; (try simp only [‹St.fb _ = _›, ‹St.cursor _ = _›]) ; exact inv_same (inv_fb_teardown _ _ _ _ ‹BackInv (some _) _ _ _›) rfl rfl rfl)
    | (simp only [List.nil_append, List.cons_append, CURSOR_W, CURSOR_H, pagesFor, PAGE, Nat.reduceMul, Nat.reduceAdd, Nat.reduceSub, Nat.reduceDiv, ‹St.fb _ = _›] ; exact inv_cursor _ _ _ _ _ _ _ _ ‹BackInv _ _ _ _›))

theorem step_inv (dev : Dev) (s : St) (op : Op) (t : Track) (hdev : NoDeviceErrors dev)
    (hi : BackInv s.fb s.cursor s.nextDma t) (hp : (step dev s op).res ≠ .panic) :
    BackInv (step dev s op).st.fb (step dev s op).st.cursor (step dev s op).st.nextDma (t.run (step dev s op).evs) := by
  have hd : ∀ k b st (c : Cmd) e, checkType (dev k (c.encode b st)) e = (c.expected == e) := by
    intro k b st c e; simp [checkType, hdev k b st c]
  generalize hout : step dev s op = out at hp ⊢
  rcases hfb : s.fb with _ | d <;> rcases hcur : s.cursor with _ | o <;> rw [hfb, hcur] at hi <;> cases op
  case none.none.setupFramebuffer f | some.none.setupFramebuffer f | none.some.setupFramebuffer f | some.some.setupFramebuffer f =>
    simp only [step, setupFramebuffer, getDisplayInfoThen, Ctx.ctrl, hd, Cmd.expected, beq_self_eq_true, ↓reduceIte] at hout
    generalize fieldAt (dev 0 (Cmd.encode s.base s.stride Cmd.getDisplayInfo)) 32 4 = w at hout
    generalize fieldAt (dev 0 (Cmd.encode s.base s.stride Cmd.getDisplayInfo)) 36 4 = hh at hout
    gpu_unfold [hfb] at hout
    (try simp only [hcur, hd, Cmd.expected, beq_self_eq_true, Bool.not_true, Bool.false_eq_true, ↓reduceIte] at hout)
    (repeat' split at hout) <;> subst hout <;> (try leaf)
    all_goals (dsimp only [List.nil_append, List.cons_append]; exact inv_same hi rfl rfl rfl)
  all_goals (gpu_unfold [hfb] at hout <;>
    (try simp only [hcur, hd, Cmd.expected, beq_self_eq_true, Bool.not_true, Bool.false_eq_true, ↓reduceIte] at hout) <;>
    (repeat' split at hout) <;> subst hout)
  all_goals (try leaf)
  all_goals (dsimp only [List.nil_append, List.cons_append]; exact inv_same hi rfl rfl rfl)

/-- outcomes of a history of operations -/
def runOps (dev : Dev) : St → List Op → List Out
  | _, [] => []
  | s, op :: ops => step dev s op :: runOps dev (step dev s op).st ops

def finalSt (dev : Dev) : St → List Op → St
  | s, [] => s
  | s, op :: ops => finalSt dev (step dev s op).st ops

def traceOf (outs : List Out) : List Ev := outs.flatMap (·.evs)

def Track.init : Track :=
  { live := fun _ => none, backing := fun _ => none, adv := fun _ => none, violated := False }

theorem history_inv (dev : Dev) (hdev : NoDeviceErrors dev) : ∀ (ops : List Op) (s : St) (t : Track),
    BackInv s.fb s.cursor s.nextDma t → (∀ o ∈ runOps dev s ops, o.res ≠ .panic) →
    BackInv (finalSt dev s ops).fb (finalSt dev s ops).cursor (finalSt dev s ops).nextDma
      (t.run (traceOf (runOps dev s ops))) := by
  intro ops
  induction ops with
  | nil => intro s t hi _; simpa [runOps, finalSt, traceOf, Track.run] using hi
  | cons op ops ih =>
    intro s t hi hp
    have h1 := step_inv dev s op t hdev hi (hp _ (by simp [runOps]))
    have h2 := ih (step dev s op).st _ h1 (fun o ho => hp o (by simp [runOps, ho]))
    simpa [runOps, finalSt, traceOf, run_append] using h2

/-- **GPU backing memory**: in every history of public operations on a fresh driver, against any
device that reports no errors, in which no operation panics: no DMA region is ever released while a
device resource still has it attached as backing, every attached backing lies in a live region that
covers its length, and that length is `width*height*4` of the resource as created. -/
theorem backing_never_released_while_attached (dev : Dev) (hdev : NoDeviceErrors dev) (s0 : St)
    (h0 : s0.fb = none ∧ s0.cursor = none) (ops : List Op)
    (hp : ∀ o ∈ runOps dev s0 ops, o.res ≠ .panic) :
    ¬ (Track.init.run (traceOf (runOps dev s0 ops))).violated := by
  have hinit : BackInv s0.fb s0.cursor s0.nextDma Track.init := by
    rw [h0.1, h0.2]
    exact ⟨by simp [Track.init], by simp [Track.init], by simp, by simp, by simp [Track.init], by simp⟩
  exact (history_inv dev hdev ops s0 _ hinit hp).ok

/-! ### …and for every device (since fix 1ac4978)

The device is taken at its word: a control command it answered with anything but the expected
success type had no effect on it.  `effective` drops those commands from an operation's trace; the
same observer `Track` then runs over what remains. -/

/-- the trace as the device acted on it: control-queue commands answered with another type than the
expected success type are dropped (`k` = index of the control request within the operation) -/
def effective (dev : Dev) (b st : Nat) : Nat → List Ev → List Ev
  | _, [] => []
  | k, .req 0 c :: rest =>
    if fieldAt (dev k (c.encode b st)) 0 4 = c.expected then .req 0 c :: effective dev b st (k + 1) rest
    else effective dev b st (k + 1) rest
  | k, e :: rest => e :: effective dev b st k rest

/-- a rejected attach followed by the release of the fresh region -/
theorem inv_alloc_release (fb cur : Option Dma) (n p : Nat) (t t' : Track) (hi : BackInv fb cur n t)
    (hl : t'.live = fun x => if x = n then none else if x = n then some p else t.live x)
    (hb : t'.backing = t.backing)
    (hv : t'.violated = (t.violated ∨ ∃ res len, t.backing res = some (n, len))) :
    BackInv fb cur (n + 1) t' := by
  have hnl : ∀ q, t.live n ≠ some q := fun q h => by have := hi.fresh _ _ h; omega
  have hnb : ∀ res len, t.backing res ≠ some (n, len) := by
    intro res len h
    rcases hi.back res n len h with ⟨_, d, hd, hr⟩ | ⟨_, d, hd, hr⟩
    · exact hnl _ (hr ▸ hi.fbLive d hd)
    · exact hnl _ (hr ▸ hi.curLive d hd)
  have hlive : ∀ x, t'.live x = t.live x := by
    intro x; rw [hl]; by_cases hx : x = n
    · subst hx; simp; cases h : t.live x with
      | none => rfl
      | some q => exact absurd h (hnl q)
    · simp [hx]
  refine ⟨?_, ?_, ?_, ?_, ?_, hi.distinct⟩
  · rw [hv]; simp only [not_or, not_exists]; exact ⟨hi.ok, fun res len h => hnb res len h⟩
  · rw [hb]; exact hi.back
  · intro d hd; rw [hlive]; exact hi.fbLive d hd
  · intro d hd; rw [hlive]; exact hi.curLive d hd
  · intro r q h; rw [hlive] at h; have := hi.fresh r q h; omega

/-- a detach the device accepted while the driver still holds the framebuffer -/
theorem inv_detach (d : Dma) (cur : Option Dma) (n : Nat) (t t' : Track) (hi : BackInv (some d) cur n t)
    (hl : t'.live = t.live)
    (hb : t'.backing = fun x => if x = RESOURCE_ID_FB then none else t.backing x)
    (hv : t'.violated = t.violated) : BackInv (some d) cur n t' := by
  refine ⟨by rw [hv]; exact hi.ok, ?_, by rw [hl]; exact hi.fbLive, by rw [hl]; exact hi.curLive,
    by rw [hl]; exact hi.fresh, hi.distinct⟩
  intro res r len h
  rw [hb] at h
  by_cases h1 : res = RESOURCE_ID_FB
  · simp [h1] at h
  · simp only [h1, ↓reduceIte] at h; exact hi.back res r len h

/-- fresh framebuffer, any page count that covers the length (the set-scanout command has no effect on
the observer, accepted or not) -/
theorem inv_fb_attach_gen (cur : Option Dma) (n : Nat) (t : Track) (w h p : Nat) (hp : w * h * 4 ≤ p * 4096)
    (hi : BackInv none cur n t) :
    BackInv (some ⟨n, p⟩) cur (n + 1)
      (t.run [.req 0 (.create2d RESOURCE_ID_FB w h), .alloc n p true, .req 0 (.attach RESOURCE_ID_FB n (w * h * 4))]) := by
  simp only [Track.run, List.foldl, Track.ev]
  refine ⟨?_, ?_, ?_, ?_, ?_, ?_⟩
  · simp [hi.ok]; exact hp
  · intro res r len hb
    simp only at hb
    split at hb
    · rename_i h1; simp at hb; left; exact ⟨h1, _, rfl, hb.1⟩
    · rcases hi.back res r len hb with ⟨_, d, hd, _⟩ | hr
      · simp at hd
      · right; exact hr
  · intro d hd; simp at hd; subst hd; simp
  · intro d hd
    have := hi.fresh _ _ (hi.curLive d hd)
    have hne : d.region ≠ n := by omega
    simp only [hne, ↓reduceIte]
    exact hi.curLive d hd
  · intro r q hl
    simp only at hl
    split at hl
    · omega
    · have := hi.fresh r q hl; omega
  · intro d d' hd hd'
    simp at hd; subst hd
    have := hi.fresh _ _ (hi.curLive d' hd')
    simp; omega

theorem inv_fb_attach_zero (cur : Option Dma) (n : Nat) (t : Track) (w h : Nat) (hz : pagesFor (w * h * 4) = 0)
    (hi : BackInv none cur n t) :
    BackInv (some ⟨n, 0⟩) cur (n + 1)
      (t.run [.req 0 (.create2d RESOURCE_ID_FB w h), .alloc n 0 true, .req 0 (.attach RESOURCE_ID_FB n (w * h * 4))]) := by
  have := inv_fb_attach_gen cur n t w h (pagesFor (w * h * 4)) (pages_cover _) hi
  rwa [hz] at this

/-- cursor set-up up to the accepted attach and the release of a previous buffer (transfer and the
cursor-queue command have no effect on the observer) -/
theorem inv_cursor_none (fb : Option Dma) (n : Nat) (t : Track) (hi : BackInv fb none n t) :
    BackInv fb (some ⟨n, 4⟩) (n + 1)
      (t.run [.alloc n 4 true, .req 0 (.create2d RESOURCE_ID_CURSOR 64 64),
              .req 0 (.attach RESOURCE_ID_CURSOR n 16384)]) := by
  simpa [Track.run, Track.ev] using inv_cursor fb none n t 0 0 0 0 hi

theorem inv_cursor_some (fb : Option Dma) (o : Dma) (n : Nat) (t : Track) (hi : BackInv fb (some o) n t) :
    BackInv fb (some ⟨n, 4⟩) (n + 1)
      (t.run [.alloc n 4 true, .req 0 (.create2d RESOURCE_ID_CURSOR 64 64),
              .req 0 (.attach RESOURCE_ID_CURSOR n 16384), .dealloc o.region o.pages]) := by
  simpa [Track.run, Track.ev] using inv_cursor fb (some o) n t 0 0 0 0 hi

/-! events without effect on the observer -/
theorem run_skip_setScanout (t : Track) (a b c d e f : Nat) (l : List Ev) :
    t.run (.req 0 (.setScanout a b c d e f) :: l) = t.run l := rfl
theorem run_skip_transfer (t : Track) (a b c d e f : Nat) (l : List Ev) :
    t.run (.req 0 (.transfer a b c d e f) :: l) = t.run l := rfl
theorem run_skip_flush (t : Track) (a b c d e : Nat) (l : List Ev) :
    t.run (.req 0 (.flush a b c d e) :: l) = t.run l := rfl
theorem run_skip_getDisplayInfo (t : Track) (l : List Ev) : t.run (.req 0 .getDisplayInfo :: l) = t.run l := rfl
theorem run_skip_getEdid (t : Track) (a : Nat) (l : List Ev) : t.run (.req 0 (.getEdid a) :: l) = t.run l := rfl
theorem run_skip_cursorq (t : Track) (c : Cmd) (l : List Ev) : t.run (.req 1 c :: l) = t.run l := rfl
theorem run_skip_allocFail (t : Track) (r p : Nat) (l : List Ev) : t.run (.alloc r p false :: l) = t.run l := rfl

theorem pagesFor_cursor : pagesFor 16384 = 4 := by decide

macro "gpu_norm" : tactic =>
  `(tactic| (
     try simp only [Bool.not_eq_true', Bool.not_eq_true, Bool.not_eq_false, CURSOR_W, CURSOR_H, Nat.reduceMul] at *
     try simp only [List.nil_append, List.cons_append, effective, Cmd.expected, ← checkType_iff, *, ↓reduceIte,
        Bool.false_eq_true, CURSOR_W, CURSOR_H, PAGE, Nat.reduceMul, Nat.reduceAdd, Nat.reduceSub, Nat.reduceDiv,
        run_skip_setScanout, run_skip_transfer, run_skip_flush, run_skip_getDisplayInfo, run_skip_getEdid,
        run_skip_cursorq, run_skip_allocFail, pagesFor_cursor]))

macro "leaf_any" hi:ident : tactic =>
  `(tactic| first
    | exact inv_same $hi rfl rfl rfl
    | exact inv_fb_attach_zero _ _ _ _ _ ‹pagesFor _ = 0› $hi
    | exact inv_fb_attach_zero _ _ _ _ _ ‹pagesFor _ = 0› (inv_fb_teardown _ _ _ _ $hi)
    | exact inv_alloc_release _ _ _ _ _ _ $hi rfl rfl rfl
    | exact inv_detach _ _ _ _ _ $hi rfl rfl rfl
    | exact inv_fb_attach_gen _ _ _ _ _ _ (pages_cover _) $hi
    | exact inv_cursor_none _ _ _ $hi
    | exact inv_cursor_some _ _ _ _ $hi
    | exact inv_same (inv_fb_teardown _ _ _ _ $hi) rfl rfl rfl
    | exact inv_alloc_release _ _ _ _ _ _ (inv_fb_teardown _ _ _ _ $hi) rfl rfl rfl
    | exact inv_fb_attach_gen _ _ _ _ _ _ (pages_cover _) (inv_fb_teardown _ _ _ _ $hi))

/-- `change_resolution` with an existing framebuffer, any device -/
theorem step_inv_any_change (dev : Dev) (s : St) (f : Bool) (w h : Nat) (t : Track) (d : Dma) (hfb : s.fb = some d)
    (hi : BackInv (some d) s.cursor s.nextDma t) :
    BackInv (step dev s (.changeResolution f w h)).st.fb (step dev s (.changeResolution f w h)).st.cursor
      (step dev s (.changeResolution f w h)).st.nextDma
      (t.run (effective dev s.base s.stride 0 (step dev s (.changeResolution f w h)).evs)) := by
  generalize hout : step dev s (.changeResolution f w h) = out
  gpu_unfold [hfb] at hout
  by_cases h1 : checkType (dev 0 (Cmd.encode s.base s.stride (Cmd.setScanout 0 0 0 0 SCANOUT_ID 0))) RESP_OK_NODATA = true
  · by_cases h2 : checkType (dev (0 + 1) (Cmd.encode s.base s.stride (Cmd.detach RESOURCE_ID_FB))) RESP_OK_NODATA = true
    · by_cases h3 : checkType (dev (0 + 1 + 1) (Cmd.encode s.base s.stride (Cmd.unref RESOURCE_ID_FB))) RESP_OK_NODATA = true
      · simp only [h1, h2, h3, Bool.not_true, Bool.false_eq_true, ↓reduceIte] at hout
        (repeat' split at hout) <;> subst hout <;> gpu_norm <;> leaf_any hi
      · simp only [Bool.not_eq_true] at h3
        simp only [h1, h2, h3, Bool.not_true, Bool.not_false, Bool.false_eq_true, ↓reduceIte] at hout
        subst hout; gpu_norm; leaf_any hi
    · simp only [Bool.not_eq_true] at h2
      simp only [h1, h2, Bool.not_true, Bool.not_false, Bool.false_eq_true, ↓reduceIte] at hout
      subst hout; gpu_norm; leaf_any hi
  · simp only [Bool.not_eq_true] at h1
    simp only [h1, Bool.not_false, ↓reduceIte] at hout
    subst hout; gpu_norm; leaf_any hi

/-- `setup_framebuffer` with an existing framebuffer, any device -/
theorem step_inv_any_setup (dev : Dev) (s : St) (f : Bool) (t : Track) (d : Dma) (hfb : s.fb = some d)
    (hi : BackInv (some d) s.cursor s.nextDma t) :
    BackInv (step dev s (.setupFramebuffer f)).st.fb (step dev s (.setupFramebuffer f)).st.cursor
      (step dev s (.setupFramebuffer f)).st.nextDma
      (t.run (effective dev s.base s.stride 0 (step dev s (.setupFramebuffer f)).evs)) := by
  generalize hout : step dev s (.setupFramebuffer f) = out
  simp only [step, setupFramebuffer, getDisplayInfoThen, Ctx.ctrl] at hout
  split at hout
  · generalize fieldAt (dev 0 (Cmd.encode s.base s.stride Cmd.getDisplayInfo)) 32 4 = w at hout
    generalize fieldAt (dev 0 (Cmd.encode s.base s.stride Cmd.getDisplayInfo)) 36 4 = hh at hout
    gpu_unfold [hfb] at hout
    by_cases h1 : checkType (dev 1 (Cmd.encode s.base s.stride (Cmd.setScanout 0 0 0 0 SCANOUT_ID 0))) RESP_OK_NODATA = true
    · by_cases h2 : checkType (dev 2 (Cmd.encode s.base s.stride (Cmd.detach RESOURCE_ID_FB))) RESP_OK_NODATA = true
      · by_cases h3 : checkType (dev 3 (Cmd.encode s.base s.stride (Cmd.unref RESOURCE_ID_FB))) RESP_OK_NODATA = true
        · simp only [h1, h2, h3, Bool.not_true, Bool.false_eq_true, ↓reduceIte] at hout
          (repeat' split at hout) <;> subst hout <;> gpu_norm <;> leaf_any hi
        · simp only [Bool.not_eq_true] at h3
          simp only [h1, h2, h3, Bool.not_true, Bool.not_false, Bool.false_eq_true, ↓reduceIte] at hout
          subst hout; gpu_norm; leaf_any hi
      · simp only [Bool.not_eq_true] at h2
        simp only [h1, h2, Bool.not_true, Bool.not_false, Bool.false_eq_true, ↓reduceIte] at hout
        subst hout; gpu_norm; leaf_any hi
    · simp only [Bool.not_eq_true] at h1
      simp only [h1, Bool.not_false, ↓reduceIte] at hout
      subst hout; gpu_norm; leaf_any hi
  · subst hout; gpu_norm; leaf_any hi

/-- one operation, **any device**: the backing invariant is preserved over the trace as the device
acted on it — whatever it answers to whichever command, including a panicking operation -/
theorem step_inv_any (dev : Dev) (s : St) (op : Op) (t : Track)
    (hi : BackInv s.fb s.cursor s.nextDma t) :
    BackInv (step dev s op).st.fb (step dev s op).st.cursor (step dev s op).st.nextDma
      (t.run (effective dev s.base s.stride 0 (step dev s op).evs)) := by
  rcases hfb : s.fb with _ | d
  · generalize hout : step dev s op = out
    rcases hcur : s.cursor with _ | o <;> rw [hfb, hcur] at hi <;> cases op
    all_goals (gpu_unfold [hfb] at hout <;> (try simp only [hcur] at hout) <;> (repeat' split at hout) <;> subst hout <;> gpu_norm <;> leaf_any hi)
  · rw [hfb] at hi
    cases op
    case changeResolution f w h => exact step_inv_any_change dev s f w h t d hfb hi
    case setupFramebuffer f => exact step_inv_any_setup dev s f t d hfb hi
    all_goals (
      generalize hout : step dev s _ = out
      rcases hcur : s.cursor with _ | o <;> rw [hcur] at hi <;>
      (gpu_unfold [hfb] at hout <;> (try simp only [hcur] at hout) <;> (repeat' split at hout) <;> subst hout <;> gpu_norm <;> leaf_any hi))

/-- the trace of a history as the device acted on it (per operation, the device's answers are indexed
from 0 again) -/
def effTrace (dev : Dev) : St → List Op → List Ev
  | _, [] => []
  | s, op :: ops => effective dev s.base s.stride 0 (step dev s op).evs ++ effTrace dev (step dev s op).st ops

theorem history_inv_any (dev : Dev) : ∀ (ops : List Op) (s : St) (t : Track),
    BackInv s.fb s.cursor s.nextDma t →
    BackInv (finalSt dev s ops).fb (finalSt dev s ops).cursor (finalSt dev s ops).nextDma
      (t.run (effTrace dev s ops)) := by
  intro ops
  induction ops with
  | nil => intro s t hi; simpa [finalSt, effTrace, Track.run] using hi
  | cons op ops ih =>
    intro s t hi
    have h2 := ih (step dev s op).st _ (step_inv_any dev s op t hi)
    simpa [finalSt, effTrace, run_append] using h2

/-- **GPU backing memory, every device**: in every history of public operations on a fresh driver,
against a device that answers every command with whatever it likes (success, any error type, garbage),
including operations that panic: no DMA region is released while a device resource has it attached —
attached meaning the device accepted `RESOURCE_ATTACH_BACKING` for it and has not since accepted
`RESOURCE_DETACH_BACKING` / `RESOURCE_UNREF` or a replacing attach —, every accepted backing lies in a
live region covering its length, and that length is the `width*height*4` of the resource as created.
(Holds since fix 1ac4978; before it a rejected `SET_SCANOUT` / `TRANSFER_TO_HOST_2D` released the
attached region, see the first example below.) -/
theorem backing_never_released_any_device (dev : Dev) (s0 : St) (h0 : s0.fb = none ∧ s0.cursor = none)
    (ops : List Op) : ¬ (Track.init.run (effTrace dev s0 ops)).violated := by
  have hinit : BackInv s0.fb s0.cursor s0.nextDma Track.init := by
    rw [h0.1, h0.2]
    exact ⟨by simp [Track.init], by simp [Track.init], by simp, by simp, by simp [Track.init], by simp⟩
  exact (history_inv_any dev ops s0 _ hinit).ok

/-- the observer is not vacuous: the trace of the behaviour before the fix (attach accepted, then the
region released) is flagged -/
example : (Track.init.run [.req 0 (.create2d RESOURCE_ID_FB 2 2), .alloc 0 1 true,
    .req 0 (.attach RESOURCE_ID_FB 0 16), .dealloc 0 1]).violated := by
  simp [Track.run, Track.ev, Track.init]

/-- a device that accepts everything but `SET_SCANOUT`: the attach is part of the effective trace, the
rejected command is not, and the region stays with the driver -/
example :
    effTrace (fun k _ => if k = 2 then le32 0x1200 else le32 0x1100) {} [.changeResolution false 2 2] =
      [.req 0 (.create2d RESOURCE_ID_FB 2 2), .alloc 0 1 true, .req 0 (.attach RESOURCE_ID_FB 0 16)] := by
  decide

/-- before fix 1ac4978 a rejected `SET_SCANOUT` released the region that had just been attached; now
the region is kept (and owned by the driver state) whatever the device answers afterwards -/
example :
    (changeResolution (fun k _ => if k = 2 then le32 0x1200 else le32 0x1100) false {} 2 2).evs =
      [.req 0 (.create2d RESOURCE_ID_FB 2 2), .alloc 0 1 true, .req 0 (.attach RESOURCE_ID_FB 0 16),
       .req 0 (.setScanout 0 0 2 2 SCANOUT_ID RESOURCE_ID_FB)]
    ∧ (changeResolution (fun k _ => if k = 2 then le32 0x1200 else le32 0x1100) false {} 2 2).st.fb = some ⟨0, 1⟩
    ∧ (changeResolution (fun k _ => if k = 2 then le32 0x1200 else le32 0x1100) false {} 2 2).res = .err .ioError := by
  decide

/-- a zero-sized framebuffer accepted by the device makes `raw_slice` panic after the (empty) region
was attached; the region is already stored in the driver, so unwinding does not release it -/
example :
    (changeResolution (fun _ _ => le32 0x1100) false {} 0 7).res = .panic ∧
    (changeResolution (fun _ _ => le32 0x1100) false {} 0 7).evs =
      [.req 0 (.create2d RESOURCE_ID_FB 0 7), .alloc 0 0 true, .req 0 (.attach RESOURCE_ID_FB 0 0)] := by decide

end Gpu

/-! ## Sound: encoders, response checks, PCM chunking, the transfer loop -/
namespace Sound
open VirtioVerif.Sound VirtioVerif.CmdQueue

macro "snd_enc" : tactic =>
  `(tactic| (simp [specDecode, Spec.queryInfo, Spec.jackRemap, Spec.pcmHdr, Spec.pcmSetParams, Spec.pcmXfer,
      encQueryInfo, encJackRemap, encPcmHdr, encPcmSetParams, encXferHdr, le8, le32, fieldAt, fromLE,
      R_JACK_REMAP, R_PCM_SET_PARAMS, Spec.VIRTIO_SND_R_JACK_REMAP, Spec.VIRTIO_SND_R_PCM_SET_PARAMS] <;> omega))

theorem spec_tables_contiguous :
    contiguous Spec.queryInfo 0 16 ∧ contiguous Spec.jackRemap 0 16 ∧ contiguous Spec.pcmHdr 0 8
    ∧ contiguous Spec.pcmSetParams 0 24 ∧ contiguous Spec.pcmXfer 0 4 ∧ contiguous Spec.pcmStatus 0 8
    ∧ contiguous Spec.jackInfo 0 24 ∧ contiguous Spec.pcmInfo 0 32 ∧ contiguous Spec.chmapInfo 0 24 := by decide

/-- the driver's item sizes and request codes are the specification's -/
theorem sizes_and_codes :
    JACK_INFO_SIZE = 24 ∧ PCM_INFO_SIZE = 32 ∧ CHMAP_INFO_SIZE = 24
    ∧ R_JACK_INFO = Spec.VIRTIO_SND_R_JACK_INFO ∧ R_PCM_INFO = Spec.VIRTIO_SND_R_PCM_INFO
    ∧ R_CHMAP_INFO = Spec.VIRTIO_SND_R_CHMAP_INFO ∧ R_PCM_PREPARE = Spec.VIRTIO_SND_R_PCM_PREPARE
    ∧ R_PCM_RELEASE = Spec.VIRTIO_SND_R_PCM_RELEASE ∧ R_PCM_START = Spec.VIRTIO_SND_R_PCM_START
    ∧ R_PCM_STOP = Spec.VIRTIO_SND_R_PCM_STOP ∧ S_OK = Spec.VIRTIO_SND_S_OK := by decide

theorem enc_queryInfo (code start count size : Nat) (h0 : code < 2 ^ 32) (h1 : start < 2 ^ 32)
    (h2 : count < 2 ^ 32) (h3 : size < 2 ^ 32) :
    specDecode Spec.queryInfo (encQueryInfo code start count size) = [code, start, count, size]
    ∧ (encQueryInfo code start count size).length = 16 := by snd_enc

theorem enc_jackRemap (jack assoc seq : Nat) (h0 : jack < 2 ^ 32) (h1 : assoc < 2 ^ 32) (h2 : seq < 2 ^ 32) :
    specDecode Spec.jackRemap (encJackRemap jack assoc seq) = [Spec.VIRTIO_SND_R_JACK_REMAP, jack, assoc, seq]
    ∧ (encJackRemap jack assoc seq).length = 16 := by snd_enc

theorem enc_pcmHdr (code stream : Nat) (h0 : code < 2 ^ 32) (h1 : stream < 2 ^ 32) :
    specDecode Spec.pcmHdr (encPcmHdr code stream) = [code, stream] ∧ (encPcmHdr code stream).length = 8 := by
  snd_enc

theorem enc_pcmSetParams (stream buffer period features channels format rate : Nat)
    (h0 : stream < 2 ^ 32) (h1 : buffer < 2 ^ 32) (h2 : period < 2 ^ 32) (h3 : features < 2 ^ 32)
    (h4 : channels < 2 ^ 8) (h5 : format < 2 ^ 8) (h6 : rate < 2 ^ 8) :
    specDecode Spec.pcmSetParams (encPcmSetParams stream buffer period features channels format rate)
      = [Spec.VIRTIO_SND_R_PCM_SET_PARAMS, stream, buffer, period, features, channels, format, rate, 0]
    ∧ (encPcmSetParams stream buffer period features channels format rate).length = 24 := by snd_enc

theorem enc_xferHdr (stream : Nat) (h0 : stream < 2 ^ 32) :
    specDecode Spec.pcmXfer (encXferHdr stream) = [stream] ∧ (encXferHdr stream).length = 4 := by snd_enc

/-- the capabilities the driver stores are the specification's fields of the device's response -/
theorem parsePcmInfo_spec (b : Bytes) :
    let f := specDecode Spec.pcmInfo b
    parsePcmInfo b = { features := f.getD 1 0, formats := f.getD 2 0, rates := f.getD 3 0,
                       direction := f.getD 4 0, chMin := f.getD 5 0, chMax := f.getD 6 0 } := by
  simp [parsePcmInfo, specDecode, Spec.pcmInfo]

/-- only the status value `VIRTIO_SND_S_OK` counts as success -/
theorem isOk_iff (r : Bytes) : isOk r = true ↔ fieldAt r 0 4 = Spec.VIRTIO_SND_S_OK := by
  simp [isOk, S_OK, Spec.VIRTIO_SND_S_OK]

/-- prepare / release / start / stop: any status other than OK ↦ `IoError` -/
theorem pcmSimple_checks (dev : Dev) (c : Ctx) (code stream : Nat) (hs : c.st.setUp = true) :
    (pcmSimple dev c code stream).2 = (if fieldAt (dev c.n (encPcmHdr code stream)) 0 4 = S_OK then .ok () else .err .ioError)
    ∧ (pcmSimple dev c code stream).1.reqs = c.reqs ++ [encPcmHdr code stream] := by
  simp only [pcmSimple, withSetUp, hs, ↓reduceIte, Ctx.request, isOk]
  by_cases h : fieldAt (dev c.n (encPcmHdr code stream)) 0 4 = S_OK <;> simp [h]

/-- `pcm_set_params`: any status other than OK ↦ `IoError`, and then the stream stays unconfigured -/
theorem pcmSetParams_error (dev : Dev) (c : Ctx) (stream buffer period features channels format rate : Nat)
    (hs : c.st.setUp = true) (hp : ¬ (period = 0 ∨ period > buffer ∨ buffer % period ≠ 0))
    (hr : fieldAt (dev c.n (encPcmSetParams stream buffer period features channels format rate)) 0 4 ≠ S_OK) :
    (pcmSetParams dev c stream buffer period features channels format rate).2 = .err .ioError
    ∧ (pcmSetParams dev c stream buffer period features channels format rate).1.st.params = c.st.params := by
  simp [pcmSetParams, withSetUp, hs, hp, Ctx.request, isOk, hr]

/-- `set_up` fails (and with it the public operation) when the PCM info query is not answered OK -/
theorem setUp_pcmInfo_error (dev : Dev) (c : Ctx)
    (hj : infoQuery dev c R_JACK_INFO c.st.jacks JACK_INFO_SIZE ≠ ((infoQuery dev c R_JACK_INFO c.st.jacks JACK_INFO_SIZE).1, .panic))
    (hr : fieldAt (dev (c.n + 1) (encQueryInfo R_PCM_INFO 0 c.st.streams PCM_INFO_SIZE)) 0 4 ≠ S_OK) :
    (setUpDriver dev c).2 = .err .ioError := by
  unfold setUpDriver
  generalize hq : infoQuery dev c R_JACK_INFO c.st.jacks JACK_INFO_SIZE = q at hj
  have hn : q.1.n = c.n + 1 ∧ q.1.st.streams = c.st.streams := by
    subst hq; simp only [infoQuery, Ctx.request]; split <;> (try split) <;> simp
  obtain ⟨c1, r1⟩ := q
  cases r1 with
  | panic => exact absurd rfl hj
  | ok items =>
    simp only [infoQuery, Ctx.request]
    simp only at hn
    simp [hn.1, hn.2, isOk, hr]
  | err e =>
    simp only [infoQuery, Ctx.request]
    simp only at hn
    simp [hn.1, hn.2, isOk, hr]

/-- **set parameters before transfer** — the ordering the driver enforces through its own state:
`pcm_xfer` on a stream without accepted parameters submits nothing and fails -/
theorem xfer_requires_params (dev : Dev) (c : Ctx) (stream : Nat) (frames : Bytes) (script : List Act) (p : Params)
    (hs : c.st.setUp = true) (hp : c.st.params[stream]? = some p) (hn : p.setup = false) :
    (pcmXfer dev c stream frames script).2 = .err .ioError ∧ (pcmXfer dev c stream frames script).1.st.tx = c.st.tx := by
  simp [pcmXfer, withSetUp, hs, hp, hn]

theorem xferNb_requires_params (dev : Dev) (c : Ctx) (stream : Nat) (frames : Bytes) (p : Params)
    (hs : c.st.setUp = true) (hp : c.st.params[stream]? = some p) (hn : p.setup = false) :
    (pcmXferNb dev c stream frames).2 = .err .ioError ∧ (pcmXferNb dev c stream frames).1.st.tx = c.st.tx := by
  simp [pcmXferNb, withSetUp, hs, hp, hn]

/-- … and parameters are recorded only when the device answered `PCM_SET_PARAMS` with OK (see
`pcmSetParams_error`), so a transfer is always preceded by an accepted `PCM_SET_PARAMS`. -/
theorem pcmSetParams_ok_records (dev : Dev) (c : Ctx) (stream buffer period features channels format rate : Nat)
    (hs : c.st.setUp = true) (hok : (pcmSetParams dev c stream buffer period features channels format rate).2 = .ok ()) :
    fieldAt (dev c.n (encPcmSetParams stream buffer period features channels format rate)) 0 4 = S_OK
    ∧ 0 < period := by
  simp only [pcmSetParams, withSetUp, hs, ↓reduceIte, Ctx.request, isOk] at hok
  split at hok
  · simp at hok
  · rename_i hp
    split at hok
    · rename_i h1; simp at h1; exact ⟨h1, by omega⟩
    · simp at hok

/-! ### chunking: for ALL frame lengths and ALL period sizes > 0 -/

theorem chunksAux_flatten (p : Nat) (hp : 0 < p) : ∀ (fuel : Nat) (l : Bytes), l.length ≤ fuel →
    (chunksAux p fuel l).flatten = l := by
  intro fuel
  induction fuel with
  | zero => intro l h; simp at h; simp [chunksAux, h]
  | succ n ih =>
    intro l h
    unfold chunksAux
    by_cases hl : l = []
    · simp [hl]
    · simp only [hl, ↓reduceIte, List.flatten_cons]
      have : (l.drop p).length ≤ n := by
        have : 0 < l.length := List.length_pos_iff.mpr hl
        simp only [List.length_drop]; omega
      rw [ih _ this, List.take_append_drop]

theorem chunksAux_bounds (p : Nat) (hp : 0 < p) : ∀ (fuel : Nat) (l : Bytes),
    ∀ c ∈ chunksAux p fuel l, 0 < c.length ∧ c.length ≤ p := by
  intro fuel
  induction fuel with
  | zero => intro l c hc; simp [chunksAux] at hc
  | succ n ih =>
    intro l c hc
    unfold chunksAux at hc
    by_cases hl : l = []
    · simp [hl] at hc
    · simp only [hl, ↓reduceIte, List.mem_cons] at hc
      rcases hc with rfl | hc
      · have : 0 < l.length := List.length_pos_iff.mpr hl
        simp only [List.length_take]; omega
      · exact ih _ c hc

/-- the chunks concatenate to exactly the caller's frames (nothing lost, duplicated or reordered) -/
theorem pcmChunks_concat (period : Nat) (frames : Bytes) (hp : 0 < period) :
    (pcmChunks period frames).flatten = frames := by
  simp only [pcmChunks, Nat.ne_of_gt hp, ↓reduceIte]
  exact chunksAux_flatten period hp _ _ (Nat.le_refl _)

/-- every chunk is non-empty and no larger than the configured period -/
theorem pcmChunks_bounds (period : Nat) (frames : Bytes) (hp : 0 < period) :
    ∀ c ∈ pcmChunks period frames, 0 < c.length ∧ c.length ≤ period := by
  simp only [pcmChunks, Nat.ne_of_gt hp, ↓reduceIte]
  exact chunksAux_bounds period hp _ _

/-- each message placed on the tx queue is tagged: stream id header (the specification's
`virtio_snd_pcm_xfer`), then one chunk, then room for the 8-byte status -/
theorem xferIter_tags (stream : Nat) (x : XS) (c : Bytes) (rest : List Bytes)
    (hr : x.remaining = c :: rest) (ha : availableDesc x.q ≥ 3) (q' : Q) (tok : Nat)
    (hadd : add x.q [encXferHdr stream, c] [8] = .ok (q', tok)) :
    q'.outstanding = x.q.outstanding ++ [{ tok := tok, ndesc := descsFor x.q 3, rd := [encXferHdr stream, c], wr := [8] }] := by
  simp only [add] at hadd
  split at hadd
  · simp at hadd
  · split at hadd
    · simp at hadd
    · simp only [Except.ok.injEq, Prod.mk.injEq] at hadd
      obtain ⟨rfl, rfl⟩ := hadd
      simp

/-- never more outstanding than the queue holds: whenever the loop decides to add (three free
descriptors by `available_desc`), `add` cannot fail with `QueueFull` -/
theorem add_never_full (q : Q) (a b : Bytes) (n : Nat) (hq : q.numUsed ≤ q.size) (hs : 3 ≤ q.size)
    (ha : availableDesc q ≥ 3) :
    ∃ q' tok, add q [a, b] [n] = .ok (q', tok) ∧ q'.numUsed ≤ q'.size ∧ q'.size = q.size := by
  by_cases hi : q.indirect = true
  · have hne : q.numUsed ≠ q.size := by
      intro h; simp [availableDesc, hi, h] at ha
    have h1 : ¬ (q.numUsed + 1 > q.size ∨ 3 > q.size ∨ (q.indirect = false ∧ q.numUsed + 3 > q.size)) := by
      simp [hi]; omega
    simp only [add, List.length_cons, List.length_nil, Nat.zero_add, Nat.reduceAdd, Nat.succ_ne_zero, ↓reduceIte, h1]
    refine ⟨_, _, rfl, ?_, rfl⟩
    simp [descsFor, hi]; omega
  · have hi' : q.indirect = false := by simpa using hi
    have ha' : q.size - q.numUsed ≥ 3 := by simpa [availableDesc, hi'] using ha
    have h1 : ¬ (q.numUsed + 1 > q.size ∨ 3 > q.size ∨ (q.indirect = false ∧ q.numUsed + 3 > q.size)) := by
      simp [hi']; omega
    simp only [add, List.length_cons, List.length_nil, Nat.zero_add, Nat.reduceAdd, Nat.succ_ne_zero, ↓reduceIte, h1]
    refine ⟨_, _, rfl, ?_, rfl⟩
    simp [descsFor, hi']; omega

/-! ### F10 (repaired): `pcm_xfer` against ANY device

Before the repair the blocking transfer bailed out of its loop on an out-of-order completion
(`WrongToken`) or on an error status (`IoError`) while later chunks — whose status buffers live in its
own stack frame — were still shared with the device.  The repaired loop remembers the first failure,
stops submitting, keeps collecting, and matches completions to chunks by token.  The two former
negation witnesses are now regression examples: -/

/-- the minimal history of F10 (64 frame bytes, period 16, the device completes the second chunk
before the first): now `Ok`, everything submitted in order, nothing left shared -/
example :
    let x := xferLoop 0 (xferFuel 16 (pattern 64 7 3) [.idle, .complete 1 S_OK])
      (xferStart { size := 32, indirect := false } 16 (pattern 64 7 3) [.idle, .complete 1 S_OK])
    x.2 = .ok ∧ sharedBuffers x.1.q = 0 ∧ x.1.sent = pcmChunks 16 (pattern 64 7 3) := by decide

/-- error status for the first chunk while later chunks are outstanding: `IoError`, but only after the
outstanding chunks have been collected -/
example :
    let x := xferLoop 0 (xferFuel 16 (pattern 64 7 3) [.idle, .complete 0 0x8003])
      (xferStart { size := 32, indirect := false } 16 (pattern 64 7 3) [.idle, .complete 0 0x8003])
    x.2 = .err .ioError ∧ sharedBuffers x.1.q = 0 ∧ x.1.sent.length = 3 := by decide

/-- non-vacuity: an in-order all-OK device -/
example :
    let x := xferLoop 5 (xferFuel 16 (pattern 64 7 3) [.idle, .complete 0 S_OK, .idle, .all])
      (xferStart { size := 32, indirect := false } 16 (pattern 64 7 3) [.idle, .complete 0 S_OK, .idle, .all])
    x.2 = .ok ∧ sharedBuffers x.1.q = 0 ∧ (x.1.delivered.map (·.data)).flatten = pattern 64 7 3
      ∧ x.1.delivered.all (fun d => d.stream == 5 && d.status == S_OK) = true := by decide

def mk (ind : Bool) (sid : Nat) (p : Nat × Bytes) : Chain :=
  { tok := p.1, ndesc := if ind then 1 else 3, rd := [encXferHdr sid, p.2], wr := [8] }

/-- the frame bytes of a tx chain -/
def chunkOf (c : Chain) : Bytes := c.rd.getD 1 []

/-- the 32-bit status word the driver reads for a delivered message -/
def wordOf (d : Delivered) : Nat := effStatus (statusBytes d.status)

/-- loop invariant of `pcm_xfer`, for an arbitrary device.  `S` = the statuses the device may answer
(`fun _ => True` for the general theorem). -/
structure K (S : Nat → Prop) (ind : Bool) (sid : Nat) (all : List Bytes) (x : XS) : Prop where
  size : x.q.size = 32
  hind : x.q.indirect = ind
  chains : (x.q.used.map (·.chain) ++ x.q.outstanding).Perm (x.ring.map (mk ind sid))
  toks : (x.ring.map (·.1)).Nodup
  fresh : ∀ p ∈ x.ring, p.1 < x.q.nextTok
  used : x.q.numUsed = x.ring.length * (if ind then 1 else 3)
  bound : x.q.numUsed ≤ 32
  data : x.sent ++ x.remaining = all
  deliv : (x.delivered.map (·.data) ++ x.q.outstanding.map chunkOf).Perm x.sent
  tags : ∀ dl ∈ x.delivered, dl.stream = fromLE (encXferHdr sid) ∧ S dl.status
  usedDel : ∀ u ∈ x.q.used, ∃ dl ∈ x.delivered, u.written = statusBytes dl.status
  okSoFar : x.failed = none → ∀ dl ∈ x.delivered, wordOf dl ≠ S_OK →
    ∃ u ∈ x.q.used, u.written = statusBytes dl.status
  failWhy : ∀ e, x.failed = some e → e = .ioError ∧ ∃ dl ∈ x.delivered, wordOf dl ≠ S_OK
  scr : ∀ i st, Act.complete i st ∈ x.script → S st

theorem perm_eraseIdx {α : Type} : ∀ (l : List α) (i : Nat) (a : α), l[i]? = some a → l.Perm (a :: l.eraseIdx i) := by
  intro l
  induction l with
  | nil => intro i a h; simp at h
  | cons b l ih =>
    intro i a h
    cases i with
    | zero => simp at h; subst h; simp
    | succ n =>
      simp only [List.getElem?_cons_succ] at h
      simp only [List.eraseIdx_cons_succ]
      exact ((ih n a h).cons b).trans (List.Perm.swap a b _)

theorem nodup_map_inj {α β : Type} (f : α → β) : ∀ (l : List α), (l.map f).Nodup → ∀ a ∈ l, ∀ b ∈ l, f a = f b → a = b := by
  intro l
  induction l with
  | nil => intro _ a ha; simp at ha
  | cons c l ih =>
    intro hn a ha b hb hab
    simp only [List.map_cons, List.nodup_cons, List.mem_map, not_exists, not_and] at hn
    simp only [List.mem_cons] at ha hb
    rcases ha with rfl | ha <;> rcases hb with rfl | hb
    · rfl
    · exact absurd hab.symm (hn.1 b hb)
    · exact absurd hab (hn.1 a ha)
    · exact ih hn.2 a ha b hb hab

theorem mem_out_chain {S ind sid all x} (k : K S ind sid all x) : ∀ c ∈ x.q.outstanding, ∃ p ∈ x.ring, c = mk ind sid p := by
  intro c hc
  have : c ∈ x.ring.map (mk ind sid) := k.chains.subset (by simp [hc])
  obtain ⟨p, hp, h⟩ := List.mem_map.1 this
  exact ⟨p, hp, h.symm⟩

theorem deliver_K {S ind sid all x} (k : K S ind sid all x) (i st : Nat) (hst : S st) :
    K S ind sid all (deliver x i st) := by
  unfold deliver
  cases ho : x.q.outstanding[i]? with
  | none => simpa using k
  | some c =>
    obtain ⟨p, _, hp⟩ := mem_out_chain k c (List.mem_of_getElem? ho)
    have hperm := perm_eraseIdx _ _ _ ho
    simp only [complete, ho]
    refine ⟨k.size, k.hind, ?_, k.toks, k.fresh, k.used, k.bound, k.data, ?_, ?_, ?_, ?_, ?_, k.scr⟩
    · refine List.Perm.trans ?_ k.chains
      simp only [List.map_append, List.map_cons, List.map_nil, List.append_assoc, List.singleton_append]
      exact (List.Perm.append_left _ hperm).symm
    · refine List.Perm.trans ?_ k.deliv
      simp only [List.map_append, List.map_cons, List.map_nil, List.append_assoc, List.singleton_append]
      refine List.Perm.append_left _ ?_
      have := (hperm.map chunkOf).symm
      simpa [chunkOf] using this
    · intro dl hdl
      simp only [List.mem_append, List.mem_singleton] at hdl
      rcases hdl with h | rfl
      · exact k.tags dl h
      · exact ⟨by simp [hp, mk], hst⟩
    · intro u hu
      simp only [List.mem_append, List.mem_singleton] at hu
      rcases hu with h | rfl
      · obtain ⟨dl, hdl, e⟩ := k.usedDel u h
        exact ⟨dl, by simp [hdl], e⟩
      · exact ⟨⟨fromLE (c.rd.getD 0 []), c.rd.getD 1 [], st⟩, by simp, rfl⟩
    · intro hf dl hdl hw
      simp only [List.mem_append, List.mem_singleton] at hdl
      rcases hdl with h | rfl
      · obtain ⟨u, hu, e⟩ := k.okSoFar hf dl h hw
        exact ⟨u, by simp [hu], e⟩
      · exact ⟨⟨c, statusBytes st, 8⟩, by simp, rfl⟩
    · intro e he
      obtain ⟨h1, dl, hdl, hw⟩ := k.failWhy e he
      exact ⟨h1, dl, by simp [hdl], hw⟩

theorem deliverAll_K {S ind sid all} (hok : S S_OK) : ∀ (fuel : Nat) (x : XS), K S ind sid all x → K S ind sid all (deliverAll fuel x) := by
  intro fuel
  induction fuel with
  | zero => intro x k; simpa [deliverAll] using k
  | succ n ih =>
    intro x k
    simp only [deliverAll]
    split
    · exact k
    · exact ih _ (deliver_K k 0 S_OK hok)

theorem withScript {S ind sid all x} (k : K S ind sid all x) (rest : List Act) (h : ∀ a ∈ rest, a ∈ x.script) :
    K S ind sid all { x with script := rest } :=
  ⟨k.size, k.hind, k.chains, k.toks, k.fresh, k.used, k.bound, k.data, k.deliv, k.tags, k.usedDel, k.okSoFar,
   k.failWhy, fun i st ha => k.scr i st (h _ ha)⟩

theorem deviceStep_K {S ind sid all x} (hok : S S_OK) (k : K S ind sid all x) : K S ind sid all (deviceStep x) := by
  unfold deviceStep
  cases hs : x.script with
  | nil => simp only; exact deliverAll_K hok _ _ k
  | cons a rest =>
    have hrest : ∀ b ∈ rest, b ∈ x.script := by intro b hb; simp [hs, hb]
    cases a with
    | idle => exact withScript k rest hrest
    | complete i st =>
      simp only
      exact deliver_K (withScript k rest hrest) _ st (k.scr i st (by simp [hs]))
    | all => exact deliverAll_K hok _ _ (withScript k rest hrest)

theorem mk_ndesc (q : Q) (ind : Bool) (h : q.indirect = ind) : descsFor q 3 = if ind then 1 else 3 := by
  simp [descsFor, h]

/-- the add phase keeps the invariant, and never records a failure (capacity is checked first) -/
theorem xferAdd_K {S ind sid all x} (k : K S ind sid all x) : K S ind sid all (xferAdd sid x) := by
  unfold xferAdd
  split
  · rename_i hc
    cases hrem : x.remaining with
    | nil => simpa using k
    | cons c rest =>
      obtain ⟨q', tok, hadd, hb, hsz⟩ := Props.C20.Sound.add_never_full x.q (encXferHdr sid) c 8
        (by rw [k.size]; exact k.bound) (by rw [k.size]; decide) hc.2
      have hq' := Props.C20.Sound.xferIter_tags sid x c rest hrem hc.2 q' tok hadd
      have hq'u : q'.used = x.q.used ∧ q'.indirect = x.q.indirect ∧ q'.numUsed = x.q.numUsed + descsFor x.q 3
          ∧ tok = x.q.nextTok ∧ q'.nextTok = x.q.nextTok + 1 := by
        simp only [add] at hadd
        split at hadd
        · simp at hadd
        · split at hadd
          · simp at hadd
          · simp only [Except.ok.injEq, Prod.mk.injEq] at hadd
            obtain ⟨rfl, rfl⟩ := hadd
            simp
      simp only [hadd]
      refine ⟨by rw [hsz]; exact k.size, by rw [hq'u.2.1]; exact k.hind, ?_, ?_, ?_, ?_, ?_, ?_, ?_, k.tags, ?_, ?_, k.failWhy, k.scr⟩
      · simp only [hq'u.1, hq', List.map_append, List.map_cons, List.map_nil, ← List.append_assoc]
        refine List.Perm.append k.chains ?_
        simp [mk, mk_ndesc x.q ind k.hind]
      · simp only [List.map_append, List.map_cons, List.map_nil]
        refine List.nodup_append.2 ⟨k.toks, by simp, ?_⟩
        intro a ha b hb
        simp only [List.mem_singleton] at hb
        obtain ⟨p, hp, rfl⟩ := List.mem_map.1 ha
        have := k.fresh p hp
        rw [hb, hq'u.2.2.2.1]; omega
      · intro p hp
        simp only [List.mem_append, List.mem_singleton] at hp
        rcases hp with h | rfl
        · have := k.fresh p h; rw [hq'u.2.2.2.2]; omega
        · simp only [hq'u.2.2.2.1, hq'u.2.2.2.2]; omega
      · simp only [hq'u.2.2.1, k.used, mk_ndesc x.q ind k.hind, List.length_append, List.length_singleton]
        cases ind <;> simp <;> omega
      · rw [hsz, k.size] at hb; exact hb
      · have hd := k.data
        simp only [hrem] at hd
        simpa using hd
      · simp only [hq', List.map_append, List.map_cons, List.map_nil, ← List.append_assoc]
        refine List.Perm.append k.deliv ?_
        simp [chunkOf]
      · intro u hu; exact k.usedDel u (by rw [← hq'u.1]; exact hu)
      · intro hf dl hdl hw
        obtain ⟨u, hu, e⟩ := k.okSoFar hf dl hdl hw
        exact ⟨u, by rw [hq'u.1]; exact hu, e⟩
  · exact k

/-- one loop iteration against ANY device: it either continues with the invariant intact, or returns
(with the remembered result) when nothing is outstanding -/
theorem xferIter_K {S ind sid all x} (hok : S S_OK) (k : K S ind sid all x) :
    (∃ x', xferIter sid x = (x', none) ∧ K S ind sid all x') ∨
    (∃ x', xferIter sid x = (x', some (xferResult x')) ∧ K S ind sid all x' ∧ x'.ring = []
      ∧ (x'.failed = none → x'.remaining = [])) := by
  have k1 := xferAdd_K (sid := sid) k
  unfold xferIter
  generalize xferAdd sid x = y at k1
  simp only
  by_cases hret : y.ring.isEmpty = true ∧ (y.failed.isSome = true ∨ y.remaining.isEmpty = true)
  · simp only [hret, and_self, ↓reduceIte]
    right
    refine ⟨y, rfl, k1, by simpa using hret.1, ?_⟩
    intro hf
    rcases hret.2 with h | h
    · simp [hf] at h
    · simpa using h
  · simp only [hret, ↓reduceIte]
    left
    cases hu : y.q.used with
    | nil =>
      simp only [peekUsed, hu, List.head?_nil, Option.map_none]
      exact ⟨_, rfl, deviceStep_K hok k1⟩
    | cons u rest =>
      simp only [peekUsed, hu, List.head?_cons, Option.map_some]
      have hmem : u.chain ∈ y.ring.map (mk ind sid) := k1.chains.subset (by simp [hu])
      obtain ⟨p, hp, hpc⟩ := List.mem_map.1 hmem
      have hptok : p.1 = u.chain.tok := by rw [← hpc]; rfl
      cases hfind : y.ring.find? (fun s => s.1 == u.chain.tok) with
      | none =>
        have := List.find?_eq_none.1 hfind p hp
        simp [hptok] at this
      | some slot =>
        have hslot_mem : slot ∈ y.ring := List.mem_of_find?_eq_some hfind
        have hslot_tok : slot.1 = u.chain.tok := by
          have := List.find?_some hfind
          simpa using this
        have hsp : slot = p := nodup_map_inj (·.1) y.ring k1.toks slot hslot_mem p hp (by rw [hslot_tok, hptok])
        have hnd : u.chain.ndesc = if ind then 1 else 3 := by rw [← hpc]; rfl
        simp only [popUsed, hu, ne_eq, not_true_eq_false, ↓reduceIte]
        refine ⟨_, rfl, deviceStep_K hok ?_⟩
        have hperm : y.ring.Perm (slot :: y.ring.erase slot) := List.perm_cons_erase hslot_mem
        have hlen : (y.ring.erase slot).length = y.ring.length - 1 := List.length_erase_of_mem hslot_mem
        have hpos : 0 < y.ring.length := List.length_pos_of_mem hslot_mem
        refine ⟨k1.size, k1.hind, ?_, ?_, ?_, ?_, ?_, k1.data, k1.deliv, k1.tags, ?_, ?_, ?_, k1.scr⟩
        · have h1 := k1.chains
          rw [hu] at h1
          have h2 : (y.ring.map (mk ind sid)).Perm (mk ind sid slot :: (y.ring.erase slot).map (mk ind sid)) := by
            simpa using hperm.map (mk ind sid)
          have h3 := h1.trans h2
          simp only [List.map_cons, List.cons_append] at h3
          rw [hsp, hpc] at h3
          simpa [hsp] using h3.cons_inv
        · exact List.Nodup.sublist ((List.erase_sublist).map _) k1.toks
        · intro q hq; exact k1.fresh q (List.mem_of_mem_erase hq)
        · simp only [k1.used, hlen, hnd]
          cases ind <;> simp <;> omega
        · simp only; have := k1.bound; omega
        · intro v hv; exact k1.usedDel v (by simp [hu, hv])
        · intro hf dl hdl hw
          simp only at hf
          by_cases hcond : y.failed.isNone = true ∧ effStatus u.written ≠ S_OK
          · simp [hcond] at hf
          · simp only [hcond, ↓reduceIte] at hf
            obtain ⟨v, hv, e⟩ := k1.okSoFar hf dl hdl hw
            rw [hu] at hv
            simp only [List.mem_cons] at hv
            rcases hv with rfl | hv
            · exfalso
              apply hcond
              refine ⟨by simp [hf], ?_⟩
              rw [e]; exact hw
            · exact ⟨v, hv, e⟩
        · intro e he
          simp only at he
          by_cases hcond : y.failed.isNone = true ∧ effStatus u.written ≠ S_OK
          · rw [if_pos hcond] at he
            have he := Option.some.inj he
            obtain ⟨dl, hdl, hw⟩ := k1.usedDel u (by simp [hu])
            refine ⟨he.symm, dl, hdl, ?_⟩
            simp only [wordOf, ← hw]; exact hcond.2
          · simp only [hcond, ↓reduceIte] at he
            exact k1.failWhy e he

theorem xferLoop_K {S ind sid all} (hok : S S_OK) : ∀ (fuel : Nat) (x : XS), K S ind sid all x →
    (xferLoop sid fuel x).2 = .fuel ∨
    ((xferLoop sid fuel x).2 = xferResult (xferLoop sid fuel x).1 ∧ K S ind sid all (xferLoop sid fuel x).1
      ∧ (xferLoop sid fuel x).1.ring = []
      ∧ ((xferLoop sid fuel x).1.failed = none → (xferLoop sid fuel x).1.remaining = [])) := by
  intro fuel
  induction fuel with
  | zero => intro x _; left; rfl
  | succ n ih =>
    intro x k
    rcases xferIter_K hok k with ⟨x', h, k'⟩ | ⟨x', h, k', hg, hr⟩
    · simp only [xferLoop, h]; exact ih x' k'
    · right; simp only [xferLoop, h]; exact ⟨by trivial, k', hg, hr⟩

/-- a fresh tx queue: nothing submitted and nothing pending (no `pcm_xfer_nb` outstanding) -/
def FreshTx (q0 : Q) : Prop := q0.size = 32 ∧ q0.numUsed = 0 ∧ q0.outstanding = [] ∧ q0.used = []

theorem K_start (S : Nat → Prop) (q0 : Q) (sid period : Nat) (frames : Bytes) (script : List Act) (hq : FreshTx q0)
    (hs : ∀ i st, Act.complete i st ∈ script → S st) :
    K S q0.indirect sid (pcmChunks period frames) (xferStart q0 period frames script) := by
  refine ⟨hq.1, rfl, ?_, ?_, ?_, ?_, ?_, ?_, ?_, ?_, ?_, ?_, ?_, hs⟩
  · simp [xferStart, hq.2.2.1, hq.2.2.2]
  · simp [xferStart]
  · simp [xferStart]
  · simp [xferStart, hq.2.1]
  · simp [xferStart, hq.2.1]
  · simp [xferStart]
  · simp [xferStart, hq.2.2.1]
  · simp [xferStart]
  · simp [xferStart, hq.2.2.2]
  · simp [xferStart]
  · simp [xferStart]

/-- **`pcm_xfer` against ANY device** — any completion order, any status words, any timing and burst
sizes, both descriptor modes, ALL frame lengths and period sizes > 0, every fuel.  Whenever the call
returns:
* it returns `Ok` or `IoError` — never `WrongToken`, `QueueFull` or a panic;
* nothing is outstanding, nothing is pending in the used ring, **no buffer is left shared**;
* what it submitted is a prefix of the caller's chunks, in order, each exactly once (`sent`), and the
  device received exactly those messages (as a multiset: it may have completed them in any order),
  every one tagged with the stream id;
* `Ok` ⇒ everything was submitted (the chunks concatenate to the caller's frames) and every message
  was answered with status OK;
* `IoError` ⇒ the device answered some message with a status word other than OK.
(Termination is not part of the statement: a device that never completes keeps the driver spinning,
as in the code.) -/
theorem pcm_xfer_any_device (q0 : Q) (sid period : Nat) (frames : Bytes) (script : List Act) (fuel : Nat)
    (hq : FreshTx q0) (hp : 0 < period) :
    let r := xferLoop sid fuel (xferStart q0 period frames script)
    r.2 = .fuel ∨
    ((r.2 = .ok ∨ r.2 = .err .ioError)
      ∧ r.1.q.outstanding = [] ∧ r.1.q.used = [] ∧ sharedBuffers r.1.q = 0
      ∧ r.1.sent ++ r.1.remaining = pcmChunks period frames
      ∧ (r.1.delivered.map (·.data)).Perm r.1.sent
      ∧ (∀ d ∈ r.1.delivered, d.stream = fromLE (encXferHdr sid))
      ∧ (r.2 = .ok → r.1.sent = pcmChunks period frames ∧ r.1.sent.flatten = frames
            ∧ ∀ d ∈ r.1.delivered, wordOf d = S_OK)
      ∧ (r.2 = .err .ioError → ∃ d ∈ r.1.delivered, wordOf d ≠ S_OK)) := by
  intro r
  have k0 := K_start (fun _ => True) q0 sid period frames script hq (fun _ _ _ => trivial)
  rcases xferLoop_K (S := fun _ => True) trivial fuel _ k0 with h | ⟨h, k, hg, hr⟩
  · left; exact h
  · right
    have hc := k.chains
    rw [hg] at hc
    simp only [List.map_nil, List.perm_nil, List.append_eq_nil_iff, List.map_eq_nil_iff] at hc
    have hd := k.deliv
    rw [hc.2] at hd
    simp only [List.map_nil, List.append_nil] at hd
    have hres : r.2 = xferResult r.1 := h
    have hsh : sharedBuffers r.1.q = 0 := by
      show sharedBuffers (xferLoop sid fuel (xferStart q0 period frames script)).1.q = 0
      simp [sharedBuffers, shared, hc.1, hc.2]
    cases hf : r.1.failed with
    | none =>
      have hrem := hr hf
      have hdata := k.data
      rw [hrem, List.append_nil] at hdata
      have hok : r.2 = .ok := by rw [hres]; simp [xferResult, hf]
      refine ⟨Or.inl hok, hc.2, hc.1, hsh, k.data, hd, fun d hd' => (k.tags d hd').1, ?_, ?_⟩
      · intro _
        refine ⟨hdata, ?_, ?_⟩
        · rw [hdata]; exact Props.C20.Sound.pcmChunks_concat period frames hp
        · intro d hd'
          by_cases hw : wordOf d = S_OK
          · exact hw
          · obtain ⟨u, hu, _⟩ := k.okSoFar hf d hd' hw
            rw [hc.1] at hu; simp at hu
      · intro he; rw [hok] at he; cases he
    | some e =>
      obtain ⟨he, dl, hdl, hw⟩ := k.failWhy e hf
      have herr : r.2 = .err .ioError := by rw [hres]; simp [xferResult, hf, he]
      refine ⟨Or.inr herr, hc.2, hc.1, hsh, k.data, hd, fun d hd' => (k.tags d hd').1, ?_, ?_⟩
      · intro hok; rw [herr] at hok; cases hok
      · intro _; exact ⟨dl, hdl, hw⟩

/-- the script of an all-OK device: it may stay idle, complete any message in flight (in ANY order)
with status OK, or complete everything in flight -/
def AllOk (script : List Act) : Prop := ∀ i st, Act.complete i st ∈ script → st = S_OK

/-- **`pcm_xfer` in the absence of device errors** (the property's hypothesis): against a device that
answers every message with OK — in any order, with any timing — the call never fails; when it returns
it returns `Ok`, having submitted exactly the chunks of the caller's frames, once each, in order, each
tagged with the stream id, and no buffer is left shared. -/
theorem pcm_xfer_no_device_errors (q0 : Q) (sid period : Nat) (frames : Bytes) (script : List Act) (fuel : Nat)
    (hq : FreshTx q0) (hp : 0 < period) (hs : AllOk script) :
    let r := xferLoop sid fuel (xferStart q0 period frames script)
    r.2 = .fuel ∨
    (r.2 = .ok ∧ r.1.sent = pcmChunks period frames ∧ r.1.sent.flatten = frames
      ∧ (r.1.delivered.map (·.data)).Perm (pcmChunks period frames)
      ∧ (∀ d ∈ r.1.delivered, d.stream = fromLE (encXferHdr sid) ∧ d.status = S_OK)
      ∧ r.1.q.outstanding = [] ∧ r.1.q.used = [] ∧ sharedBuffers r.1.q = 0) := by
  intro r
  have k0 := K_start (fun st => st = S_OK) q0 sid period frames script hq hs
  rcases xferLoop_K (S := fun st => st = S_OK) rfl fuel _ k0 with h | ⟨h, k, hg, hr⟩
  · left; exact h
  · right
    have hc := k.chains
    rw [hg] at hc
    simp only [List.map_nil, List.perm_nil, List.append_eq_nil_iff, List.map_eq_nil_iff] at hc
    have hd := k.deliv
    rw [hc.2] at hd
    simp only [List.map_nil, List.append_nil] at hd
    have hf : r.1.failed = none := by
      cases hf : r.1.failed with
      | none => rfl
      | some e =>
        obtain ⟨_, dl, hdl, hw⟩ := k.failWhy e hf
        have := (k.tags dl hdl).2
        exfalso; apply hw
        simp only [wordOf, this]; decide
    have hdata := k.data
    rw [hr hf, List.append_nil] at hdata
    have hres : r.2 = xferResult r.1 := h
    refine ⟨by rw [hres]; simp [xferResult, hf], hdata, ?_, ?_, k.tags, hc.2, hc.1, ?_⟩
    · rw [hdata]; exact Props.C20.Sound.pcmChunks_concat period frames hp
    · rw [← hdata]; exact hd
    · show sharedBuffers (xferLoop sid fuel (xferStart q0 period frames script)).1.q = 0
      simp [sharedBuffers, shared, hc.1, hc.2]

end Sound

/-! ## entropy, clock, 9P -/
namespace Small
open VirtioVerif.Small

/-- entropy (§5.4): one device-writable buffer of the caller's length, no device-readable part; the
result is the length the device reported, whatever it is -/
theorem rng_request (len used : Nat) (h : 0 < len) :
    Rng.requestEntropy len used = (some { rd := [], wr := [len] }, .ok used) := by
  simp [Rng.requestEntropy, Nat.ne_of_gt h]

theorem rtc_spec_tables_contiguous :
    contiguous Rtc.Spec.reqCfg 0 8 ∧ contiguous Rtc.Spec.reqClockCap 0 16 ∧ contiguous Rtc.Spec.reqRead 0 16
    ∧ contiguous Rtc.Spec.respCfg 0 16 ∧ contiguous Rtc.Spec.respClockCap 0 16
    ∧ contiguous Rtc.Spec.respRead 0 16 := by decide

theorem rtc_enc_cfg :
    specDecode Rtc.Spec.reqCfg Rtc.encCfg = [Rtc.Spec.VIRTIO_RTC_REQ_CFG, 0] ∧ Rtc.encCfg.length = 8 := by
  decide

theorem rtc_enc_clockCap (id : Nat) (h : id < 2 ^ 16) :
    specDecode Rtc.Spec.reqClockCap (Rtc.encClockCap id) = [Rtc.Spec.VIRTIO_RTC_REQ_CLOCK_CAP, 0, id, 0]
    ∧ (Rtc.encClockCap id).length = 16 := by
  simp [specDecode, Rtc.Spec.reqClockCap, Rtc.Spec.reqHead, Rtc.encClockCap, Rtc.encHead, Rtc.REQ_CLOCK_CAP,
    Rtc.Spec.VIRTIO_RTC_REQ_CLOCK_CAP, le16, zeros, fieldAt, fromLE, List.replicate]
  omega

theorem rtc_enc_read (id : Nat) (h : id < 2 ^ 16) :
    specDecode Rtc.Spec.reqRead (Rtc.encRead id) = [Rtc.Spec.VIRTIO_RTC_REQ_READ, 0, id, 0]
    ∧ (Rtc.encRead id).length = 16 := by
  simp [specDecode, Rtc.Spec.reqRead, Rtc.Spec.reqHead, Rtc.encRead, Rtc.encHead, Rtc.REQ_READ,
    Rtc.Spec.VIRTIO_RTC_REQ_READ, le16, zeros, fieldAt, fromLE, List.replicate]
  omega

/-- of all status values only `VIRTIO_RTC_S_OK` (0) is accepted -/
theorem rtc_status_ok_iff (status : Nat) : Rtc.statusResult status = none ↔ status = Rtc.Spec.VIRTIO_RTC_S_OK := by
  simp only [Rtc.statusResult, Rtc.Spec.VIRTIO_RTC_S_OK]
  constructor
  · intro h; split at h <;> (try split at h) <;> (try split at h) <;> simp_all
  · intro h; simp [h]

/-- every clock operation fails for every non-OK status, and otherwise returns exactly the field of
the response structure at the specification's position -/
theorem rtc_read_result (clock : Nat) (rsp : Bytes) :
    (Rtc.read clock rsp).1 = { rd := [Rtc.encRead clock], wr := [16] } ∧
    (fieldAt (afterWrite 16 rsp) 0 1 ≠ 0 → ∃ e, (Rtc.read clock rsp).2 = .error e) ∧
    (fieldAt (afterWrite 16 rsp) 0 1 = 0 →
      (Rtc.read clock rsp).2 = .ok ((specDecode Rtc.Spec.respRead (afterWrite 16 rsp)).getD 2 0)) := by
  refine ⟨rfl, ?_, ?_⟩
  · intro h
    have : Rtc.statusResult (fieldAt (afterWrite 16 rsp) 0 1) ≠ none := fun hn => h ((rtc_status_ok_iff _).1 hn)
    simp only [Rtc.read, Rtc.request]
    cases hs : Rtc.statusResult (fieldAt (afterWrite 16 rsp) 0 1) with
    | none => exact absurd hs this
    | some e => exact ⟨e, by simp [Except.map]⟩
  · intro h
    simp [Rtc.read, Rtc.request, h, Rtc.statusResult, Except.map, specDecode, Rtc.Spec.respRead, Rtc.Spec.respHead]

theorem rtc_numClocks_result (rsp : Bytes) :
    (Rtc.numClocks rsp).1 = { rd := [Rtc.encCfg], wr := [16] } ∧
    (fieldAt (afterWrite 16 rsp) 0 1 ≠ 0 → ∃ e, (Rtc.numClocks rsp).2 = .error e) ∧
    (fieldAt (afterWrite 16 rsp) 0 1 = 0 →
      (Rtc.numClocks rsp).2 = .ok ((specDecode Rtc.Spec.respCfg (afterWrite 16 rsp)).getD 2 0)) := by
  refine ⟨rfl, ?_, ?_⟩
  · intro h
    have : Rtc.statusResult (fieldAt (afterWrite 16 rsp) 0 1) ≠ none := fun hn => h ((rtc_status_ok_iff _).1 hn)
    simp only [Rtc.numClocks, Rtc.request]
    cases hs : Rtc.statusResult (fieldAt (afterWrite 16 rsp) 0 1) with
    | none => exact absurd hs this
    | some e => exact ⟨e, by simp [Except.map]⟩
  · intro h
    simp [Rtc.numClocks, Rtc.request, h, Rtc.statusResult, Except.map, specDecode, Rtc.Spec.respCfg, Rtc.Spec.respHead]

theorem rtc_clockCap_error (clock : Nat) (rsp : Bytes) (h : fieldAt (afterWrite 16 rsp) 0 1 ≠ 0) :
    ∃ e, (Rtc.clockCap clock rsp).2 = .error e := by
  have : Rtc.statusResult (fieldAt (afterWrite 16 rsp) 0 1) ≠ none := fun hn => h ((rtc_status_ok_iff _).1 hn)
  simp only [Rtc.clockCap, Rtc.request]
  cases hs : Rtc.statusResult (fieldAt (afterWrite 16 rsp) 0 1) with
  | none => exact absurd hs this
  | some e => exact ⟨e, by simp⟩

/-- 9P: the caller's message goes out verbatim as the single device-readable buffer, followed by the
caller's response buffer; `Ok(n)` only when the response's 9P `size` field (offset 0, 4 bytes,
little-endian) equals the length the device reported, and then `n` is that length -/
theorem p9_request (req : Bytes) (respLen : Nat) (written : Bytes) (used : Nat)
    (hr : req ≠ []) (hl : 7 ≤ respLen) :
    (P9.request req respLen written used).1 = some { rd := [req], wr := [respLen] } ∧
    (∀ n, (P9.request req respLen written used).2.1 = .ok n →
      n = used ∧ (specDecode P9.Spec.header (afterWrite respLen written)).getD 0 0 = used) ∧
    ((specDecode P9.Spec.header (afterWrite respLen written)).getD 0 0 ≠ used →
      (P9.request req respLen written used).2.1 = .error .ioError) := by
  have hc : ¬ (req = [] ∨ respLen < P9.P9_HEADER_SIZE) := by
    simp [hr, P9.P9_HEADER_SIZE]; omega
  simp only [P9.request, hc, ↓reduceIte, specDecode, P9.Spec.header, List.map_cons, List.getD_cons_zero]
  refine ⟨by trivial, ?_, ?_⟩
  · intro n h
    split at h
    · simp at h
    · rename_i hs; simp at hs; simp at h; exact ⟨h.symm, hs⟩
  · intro h; simp [h]

theorem p9_request_refused (req : Bytes) (respLen : Nat) (written : Bytes) (used : Nat)
    (h : req = [] ∨ respLen < 7) :
    (P9.request req respLen written used).1 = none ∧ (P9.request req respLen written used).2.1 = .error .invalidParam := by
  have : req = [] ∨ respLen < P9.P9_HEADER_SIZE := by simpa [P9.P9_HEADER_SIZE] using h
  simp [P9.request, this]

/-- the mount tag returned is exactly the `tag_len` bytes that follow the length field of
`virtio_9p_config` -/
theorem p9_mountTag (cfg tag : Bytes) (utf8 : Bytes → Bool) (h : P9.mountTag cfg utf8 = .ok tag) :
    tag = (cfg.drop P9.Spec.configTagOff).take (fieldAt cfg P9.Spec.configTagLen.1 P9.Spec.configTagLen.2)
    ∧ 0 < fieldAt cfg 0 2 ∧ 2 + fieldAt cfg 0 2 ≤ cfg.length := by
  simp only [P9.mountTag] at h
  repeat' split at h
  all_goals simp at h
  rename_i h1 h2 h3 h4 h5
  refine ⟨by simp [P9.Spec.configTagOff, P9.Spec.configTagLen, ← h], by omega, by omega⟩

end Small

/-! ## EDID: for EVERY blob (any bytes, any `size`) the parser equals the specification decode -/
namespace Edid
open VirtioVerif.Edid

theorem shr6 : ∀ b, b < 256 → (b >>> 6) &&& 3 = b / 64 % 4 := by decide +kernel
theorem hiNib : ∀ b, b < 256 → (b &&& 0xF0) <<< 4 = 256 * (b / 16) := by decide +kernel
theorem orLow : ∀ k, k < 16 → ∀ lo, lo < 256 → lo ||| (256 * k) = lo + 256 * k := by decide +kernel

theorem stdParse_eq_spec (b0 b1 : Nat) (h0 : b0 < 256) (h1 : b1 < 256) : stdParse b0 b1 = Spec.stdTiming b0 b1 := by
  simp only [stdParse, Spec.stdTiming, shr6 b1 h1, Prod.mk.injEq]
  by_cases h : b0 = 1 ∧ b1 = 1
  · simp [h]
  · simp only [h, ↓reduceIte]
    have : b1 / 64 % 4 < 4 := Nat.mod_lt _ (by decide)
    generalize b1 / 64 % 4 = k at this
    match k, this with
    | 0, _ => simp [vPixels]; omega
    | 1, _ => simp [vPixels]; omega
    | 2, _ => simp [vPixels]; omega
    | 3, _ => simp [vPixels]; omega

theorem dtdParse_eq_spec (bs : Bytes) (hb : ∀ b ∈ bs, b < 256) :
    dtdParse bs = (let r := Spec.dtdActive bs; if r.1 = 0 ∨ r.2 = 0 then none else some r) := by
  have gd : ∀ i, bs.getD i 0 < 256 := by
    intro i
    rw [List.getD_eq_getElem?_getD]
    cases h : bs[i]? with
    | none => simp
    | some v => simp; exact hb v (List.mem_of_getElem? h)
  have e1 : bs.getD 2 0 ||| ((bs.getD 4 0 &&& 0xF0) <<< 4) = bs.getD 2 0 + 256 * (bs.getD 4 0 / 16) := by
    rw [hiNib _ (gd 4)]
    exact orLow _ (by have := gd 4; omega) _ (gd 2)
  have e2 : bs.getD 5 0 ||| ((bs.getD 7 0 &&& 0xF0) <<< 4) = bs.getD 5 0 + 256 * (bs.getD 7 0 / 16) := by
    rw [hiNib _ (gd 7)]
    exact orLow _ (by have := gd 7; omega) _ (gd 5)
  simp only [dtdParse, Spec.dtdActive, e1, e2]
  split <;> simp_all

theorem slice_ok (d : Bytes) (off len : Nat) (h : off + len ≤ d.length) :
    slice d off len = some ((d.drop off).take len) := by
  simp [slice]; omega

theorem slice_isSome_iff (d : Bytes) (off len : Nat) : (slice d off len).isSome ↔ off + len ≤ d.length := by
  simp [slice]; omega

/-- index arithmetic stays in bounds for the 1024-byte array the driver holds (indeed for ≥ 128 bytes) -/
theorem no_panic (d : Bytes) (size : Nat) (h : 128 ≤ d.length) :
    (preferredResolution d size).isSome ∧ (standardTimings d size).isSome := by
  constructor
  · simp only [preferredResolution, firstDetailedTiming]
    split
    · simp
    · rw [slice_ok d DTD1_OFFSET DTD_LEN (by simp [DTD1_OFFSET, DTD_LEN]; omega)]; simp
  · simp only [standardTimings]
    split
    · simp
    · have hs : ∀ i, i < 8 → ∃ o, standardTiming d i = some o := by
        intro i hi
        simp only [standardTiming]
        rw [slice_ok d _ _ (by simp [STANDARD_TIMINGS_OFFSET, STANDARD_TIMING_LEN]; omega)]
        exact ⟨_, rfl⟩
      have : ∀ (is : List Nat), (∀ i ∈ is, i < 8) → (collectStd d is).isSome := by
        intro is
        induction is with
        | nil => intro _; simp [collectStd]
        | cons i is ih =>
          intro hall
          obtain ⟨o, ho⟩ := hs i (hall i (by simp))
          have := ih (fun j hj => hall j (by simp [hj]))
          simp only [collectStd, ho]
          cases hc : collectStd d is with
          | none => simp [hc] at this
          | some r => simp
      have h8 := this (List.range NUM_STANDARD_TIMINGS) (by intro i hi; simpa [NUM_STANDARD_TIMINGS] using hi)
      cases hc : collectStd d (List.range NUM_STANDARD_TIMINGS) with
      | none => simp [hc] at h8
      | some r => simp

theorem mem_take_drop_lt (d : Bytes) (hb : ∀ b ∈ d, b < 256) (o n : Nat) : ∀ b ∈ (d.drop o).take n, b < 256 :=
  fun b h => hb b (List.mem_of_mem_drop (List.mem_of_mem_take h))

theorem getD_lt (d : Bytes) (hb : ∀ b ∈ d, b < 256) (i : Nat) : d.getD i 0 < 256 := by
  rw [List.getD_eq_getElem?_getD]
  cases h : d[i]? with
  | none => simp
  | some v => simp; exact hb v (List.mem_of_getElem? h)

/-- preferred resolution = the specification's decode of descriptor 1 (for every blob, every size) -/
theorem preferred_eq_spec (d : Bytes) (size : Nat) (hb : ∀ b ∈ d, b < 256) (hl : 128 ≤ d.length) :
    preferredResolution d size =
      some (match Spec.preferred d size with | some r => .ok r | none => .error .ioError) := by
  simp only [preferredResolution, firstDetailedTiming, Spec.preferred, hasBaseBlock]
  by_cases hs : size < 128
  · have : ¬ (size ≥ 128) := by omega
    simp [hs, this]
  · have h2 : size ≥ 128 := by omega
    rw [slice_ok d DTD1_OFFSET DTD_LEN (by simp [DTD1_OFFSET, DTD_LEN]; omega)]
    simp only [h2, decide_true, Bool.not_true, Bool.false_eq_true, ↓reduceIte, hs, Option.map_some,
      dtdParse_eq_spec _ (mem_take_drop_lt d hb _ _), DTD1_OFFSET, DTD_LEN]
    generalize Spec.dtdActive (List.take 18 (List.drop 54 d)) = r
    by_cases hc : r.1 = 0 ∨ r.2 = 0 <;> simp [hc]

theorem standardTiming_eq_spec (d : Bytes) (i : Nat) (hb : ∀ b ∈ d, b < 256) (hl : 128 ≤ d.length) (hi : i < 8) :
    standardTiming d i = some (Spec.stdTiming (d.getD (0x26 + 2 * i) 0) (d.getD (0x26 + 2 * i + 1) 0)) := by
  simp only [standardTiming]
  rw [slice_ok d _ _ (by simp [STANDARD_TIMINGS_OFFSET, STANDARD_TIMING_LEN]; omega)]
  have e0 : ((d.drop (STANDARD_TIMINGS_OFFSET + i * STANDARD_TIMING_LEN)).take STANDARD_TIMING_LEN).getD 0 0
      = d.getD (0x26 + 2 * i) 0 := by
    simp [List.getD_eq_getElem?_getD, List.getElem?_take, List.getElem?_drop, STANDARD_TIMINGS_OFFSET, STANDARD_TIMING_LEN]
    congr 2; omega
  have e1 : ((d.drop (STANDARD_TIMINGS_OFFSET + i * STANDARD_TIMING_LEN)).take STANDARD_TIMING_LEN).getD 1 0
      = d.getD (0x26 + 2 * i + 1) 0 := by
    simp [List.getD_eq_getElem?_getD, List.getElem?_take, List.getElem?_drop, STANDARD_TIMINGS_OFFSET, STANDARD_TIMING_LEN]
    congr 2; omega
  simp only [e0, e1, stdParse_eq_spec _ _ (getD_lt d hb _) (getD_lt d hb _)]

theorem collectStd_eq_spec (d : Bytes) (hb : ∀ b ∈ d, b < 256) (hl : 128 ≤ d.length) :
    ∀ (is : List Nat), (∀ i ∈ is, i < 8) →
      collectStd d is = some (is.filterMap fun i => Spec.stdTiming (d.getD (0x26 + 2 * i) 0) (d.getD (0x26 + 2 * i + 1) 0)) := by
  intro is
  induction is with
  | nil => intro _; simp [collectStd]
  | cons i is ih =>
    intro hall
    have h1 := standardTiming_eq_spec d i hb hl (hall i (by simp))
    have h2 := ih (fun j hj => hall j (by simp [hj]))
    simp only [collectStd, h1, h2, List.filterMap_cons]
    cases Spec.stdTiming (d.getD (0x26 + 2 * i) 0) (d.getD (0x26 + 2 * i + 1) 0) <;> simp

/-- standard timings = the specification's entries, stably sorted by decreasing pixel count -/
theorem standardTimings_eq_spec (d : Bytes) (size : Nat) (hb : ∀ b ∈ d, b < 256) (hl : 128 ≤ d.length) :
    standardTimings d size = some (if size < 128 then [] else sortDesc (Spec.stdEntries d)) := by
  simp only [standardTimings, hasBaseBlock]
  by_cases hs : size < 128
  · have : ¬ (size ≥ 128) := by omega
    simp [hs, this]
  · have h2 : size ≥ 128 := by omega
    simp only [h2, decide_true, Bool.not_true, Bool.false_eq_true, ↓reduceIte, hs]
    rw [collectStd_eq_spec d hb hl _ (by intro i hi; simpa [NUM_STANDARD_TIMINGS] using hi)]
    simp [Spec.stdEntries, NUM_STANDARD_TIMINGS]

theorem insertDesc_perm (x : Nat × Nat) (l : List (Nat × Nat)) : (insertDesc x l).Perm (x :: l) := by
  induction l with
  | nil => simp [insertDesc]
  | cons y ys ih =>
    simp only [insertDesc]
    split
    · exact List.Perm.refl _
    · exact (List.Perm.cons y ih).trans (List.Perm.swap x y ys)

theorem sortDesc_perm (l : List (Nat × Nat)) : (sortDesc l).Perm l := by
  induction l with
  | nil => simp [sortDesc]
  | cons x xs ih => exact (insertDesc_perm x _).trans (List.Perm.cons x ih)

theorem insertDesc_sorted (x : Nat × Nat) (l : List (Nat × Nat))
    (h : l.Pairwise fun a b => area b ≤ area a) : (insertDesc x l).Pairwise fun a b => area b ≤ area a := by
  induction l with
  | nil => simp [insertDesc]
  | cons y ys ih =>
    simp only [insertDesc]
    rw [List.pairwise_cons] at h
    split
    · rename_i hyx
      rw [List.pairwise_cons]
      refine ⟨?_, List.pairwise_cons.2 h⟩
      intro b hb
      rcases List.mem_cons.1 hb with rfl | hb
      · exact hyx
      · exact Nat.le_trans (h.1 b hb) hyx
    · rename_i hyx
      rw [List.pairwise_cons]
      refine ⟨?_, ih h.2⟩
      intro b hb
      have := (insertDesc_perm x ys).subset hb
      rcases List.mem_cons.1 this with rfl | hb
      · omega
      · exact h.1 b hb

/-- sorted as documented: largest pixel count first -/
theorem sortDesc_sorted (l : List (Nat × Nat)) : (sortDesc l).Pairwise fun a b => area b ≤ area a := by
  induction l with
  | nil => simp [sortDesc]
  | cons x xs ih => exact insertDesc_sorted x _ ih

theorem insertDesc_filter (k : Nat) (x : Nat × Nat) (l : List (Nat × Nat)) :
    (insertDesc x l).filter (fun a => area a == k) = (x :: l).filter (fun a => area a == k) := by
  induction l with
  | nil => simp [insertDesc]
  | cons y ys ih =>
    simp only [insertDesc]
    split
    · rfl
    · rename_i hyx
      simp only [List.filter_cons] at ih ⊢
      rw [ih]
      by_cases hx : area x = k <;> by_cases hy : area y = k <;> simp [hx, hy]
      omega

/-- stable, like `slice::sort_by`: entries of equal pixel count keep their order in the block -/
theorem sortDesc_stable (k : Nat) (l : List (Nat × Nat)) :
    (sortDesc l).filter (fun a => area a == k) = l.filter (fun a => area a == k) := by
  induction l with
  | nil => simp [sortDesc]
  | cons x xs ih =>
    simp only [sortDesc]
    rw [insertDesc_filter, List.filter_cons, List.filter_cons, ih]

theorem stdEntries_length (d : Bytes) : (Spec.stdEntries d).length ≤ 8 := by
  simp only [Spec.stdEntries]
  exact Nat.le_trans (List.length_filterMap_le _ _) (by simp)

/-- at most 8 entries, for every blob and size -/
theorem standardTimings_length (d : Bytes) (size : Nat) (l : List (Nat × Nat)) (hb : ∀ b ∈ d, b < 256)
    (hl : 128 ≤ d.length) (h : standardTimings d size = some l) : l.length ≤ 8 := by
  rw [standardTimings_eq_spec d size hb hl] at h
  simp only [Option.some.injEq] at h
  subst h
  split
  · simp
  · rw [(sortDesc_perm _).length_eq]; exact stdEntries_length d

/-- the base block of the EDID QEMU's virtio-gpu generates (1920x1080 preferred) -/
def qemuBase : Bytes := [0, 255, 255, 255, 255, 255, 255, 0, 73, 20, 52, 18, 0, 0, 0, 0, 42, 24, 1, 4, 165, 48, 27, 120, 6, 238, 145, 163, 84, 76, 153, 38, 15, 80, 84, 33, 8, 0, 225, 192, 209, 192, 209, 0, 169, 64, 179, 0, 149, 0, 129, 128, 129, 64, 210, 84, 128, 160, 114, 56, 37, 64, 224, 57, 85, 64, 231, 18, 17, 0, 0, 24, 0, 0, 0, 247, 0, 10, 0, 64, 130, 0, 40, 32, 0, 0, 0, 0, 0, 0, 0, 0, 0, 253, 0, 50, 125, 30, 160, 255, 1, 10, 32, 32, 32, 32, 32, 32, 0, 0, 0, 252, 0, 81, 69, 77, 85, 32, 77, 111, 110, 105, 116, 111, 114, 10, 1, 176]

set_option maxRecDepth 20000 in
example : preferredResolution qemuBase 256 = some (.ok (1920, 1080))
    ∧ standardTimings qemuBase 256 = some [(2048, 1152), (1920, 1200), (1920, 1080), (1600, 1200),
        (1680, 1050), (1280, 1024), (1440, 900), (1280, 960)]
    ∧ preferredResolution qemuBase 127 = some (.error .ioError) ∧ standardTimings qemuBase 127 = some [] := by
  refine ⟨by rfl, by decide +kernel, by rfl, by decide +kernel⟩

/-- a blob shorter than the base block would make the Rust slice index panic — the driver's array is
always 1024 bytes, so this outcome is unreachable there (`no_panic`) -/
example : preferredResolution (qemuBase.take 60) 128 = none := by rfl

end Edid

end VirtioVerif.Props.C20
