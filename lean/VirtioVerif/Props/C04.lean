import VirtioVerif.Model.Queue
import VirtioVerif.Lemmas.QueueFrame
import VirtioVerif.Lemmas.QueueEvents
/-!
# C04 — each buffer is shared with the device once and unshared once, arguments matching

Part A (unconditional, every state): which platform events `add` and `pop_used` emit.
Part B (`Props/C04Inv.lean`, over all histories): the addresses passed to `unshare` are the ones
`share` returned, and the set of live shares equals the buffers of the outstanding chains.
-/
namespace VirtioVerif.Props.C04
open VirtioVerif VirtioVerif.Queue

/-- A refused submission shares nothing (and stores nothing). -/
theorem refused_shares_nothing (q q' : Q) (ins outs : List Buf) (e : Err) (evs : List Ev)
    (h : q.add ins outs = (q', .err e, evs)) : hals evs = [] ∧ stores evs = [] := by
  obtain ⟨_, he⟩ := add_err_unchanged h
  subst he; exact ⟨rfl, rfl⟩

/-- An accepted submission calls `share` exactly once per caller buffer, in order (inputs then
outputs), with the buffer's own identity and length and the direction of its role — device-readable
(`DriverToDevice`) for inputs, device-writable (`DeviceToDriver`) for outputs; there is no third
direction in the model's event type, so `Both` cannot occur — then, if an indirect table is used,
shares that table once, device-readable, with length `16·k`. Nothing else is shared. -/
theorem share_once (q q' : Q) (ins outs : List Buf) (t : Nat) (evs : List Ev)
    (h : q.add ins outs = (q', .token t, evs)) :
    ∃ c, c ∈ q'.out ∧ c.head = t ∧
      hals evs = expectedShares q.shareCtr 0 (tagBufs ins outs) ++
        (match c.table with
         | some tid => [HalEv.shareTable tid (16 * (ins.length + outs.length))]
         | none => []) := by
  obtain ⟨q1, c, evs1, hb, hq, ht, he, _, _⟩ := add_token_inv h
  obtain ⟨h1, _, _⟩ := buildChain_events _ _ _ _ _ _ hb
  subst hq he
  refine ⟨c, by simp [publish], ht.symm, ?_⟩
  have hl : (tagBufs ins outs).length = ins.length + outs.length := by simp [tagBufs]
  rw [hl] at h1
  simp [h1, publish]
  cases c.table <;> rfl

/-- number of `share` calls of an accepted submission: one per buffer (+1 for an indirect table) -/
theorem share_count (q q' : Q) (ins outs : List Buf) (t : Nat) (evs : List Ev)
    (h : q.add ins outs = (q', .token t, evs)) :
    (hals evs).length = ins.length + outs.length ∨ (hals evs).length = ins.length + outs.length + 1 := by
  obtain ⟨c, _, _, he⟩ := share_once q q' ins outs t evs h
  rw [he]
  cases c.table <;> simp [expectedShares_length, tagBufs]

/-- A failing poll unshares nothing. -/
theorem failed_pop_unshares_nothing (q q' : Q) (tok : Nat) (ins outs : List Buf) (e : Err) (evs : List Ev)
    (h : q.popUsed tok ins outs = (q', .err e, evs)) : hals evs = [] := by
  obtain ⟨_, he⟩ := pop_err_unchanged h
  subst he; rfl

/-- A consumed completion calls `unshare` exactly once per caller buffer, in order, with the
buffer's identity and length and the direction of its role (after the indirect table, if any),
and performs no other platform call. -/
theorem unshare_once (q q' : Q) (tok : Nat) (ins outs : List Buf) (l : Nat) (evs : List Ev)
    (h : q.popUsed tok ins outs = (q', .len l, evs)) :
    (hals evs).filterMap unshareBuf = tagBufs ins outs ∧ ∀ x ∈ hals evs, isUnshare x = true := by
  obtain ⟨q1, evs1, hr, _, he, _, _, _⟩ := pop_len_inv h
  obtain ⟨a, b, _⟩ := recycle_events _ _ _ _ _ _ hr
  subst he
  have hf : hals (finishPop q1 tok).2 = [] := by
    unfold finishPop; dsimp only; split <;> simp
  constructor
  · simp [a, hf]
  · intro x hx
    simp [hf] at hx
    exact b x hx

/-- The device's own writes never cause a platform call. -/
theorem device_steps_share_nothing (q : Q) (id len : Nat) : (q.devUsed id len).shareCtr = q.shareCtr := rfl

end VirtioVerif.Props.C04
