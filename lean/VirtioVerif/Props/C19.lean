import VirtioVerif.Lemmas.QueueReach
import VirtioVerif.Props.C03Inv
/-!
# C19 (queue level) — a consumed buffer is re-posted under the same token

The wrappers that keep a queue stocked (`OwningQueue::poll`, `VirtIOInput::pop_pending_event`,
`VirtIOSound::latest_notification`) pop a buffer and immediately add it again, asserting that the
new token equals the old one.  On the concrete queue this holds because `recycle_descriptors`
pushes the chain at the *front* of the free list and `add` allocates from the front.  This file
discharges, for the concrete queue model, the allocator hypothesis (`Alloc.Refill` / LIFO) under
which `Props/C19Drivers.lean` proves the driver-level statements.
-/
namespace VirtioVerif.Props.C19
open VirtioVerif VirtioVerif.Queue

/-- `add` hands out the descriptor at the head of the free list as the token. -/
theorem add_returns_freeHead (q q' : Q) (ins outs : List Buf) (t : Nat) (evs : List Ev)
    (h : q.add ins outs = (q', .token t, evs)) : t = q.freeHead := by
  obtain ⟨q1, c, evs1, hb, _, ht, _, _, _⟩ := add_token_inv h
  rw [ht]
  unfold buildChain at hb
  split at hb
  · unfold addIndirect at hb
    simp only at hb
    split at hb
    · simp at hb
    · split at hb
      · simp at hb
      · split at hb
        · simp at hb
        · simp only [Option.some.injEq, Prod.mk.injEq] at hb
          rw [← hb.2.1]
  · unfold addDirect at hb
    split at hb
    · simp at hb
    · simp only at hb
      split at hb
      · simp at hb
      · split at hb
        · simp at hb
        · simp only [Option.some.injEq, Prod.mk.injEq] at hb
          rw [← hb.2.1]

/-- **Same token again.** In any reachable state, after the completion of chain `c` has been
consumed, the next accepted submission (of any shape) is given the token `c.head` again. -/
theorem same_token_again (q : Q) (h : Inv q) (c : Chain) (hc : c ∈ q.out)
    (hz : ∀ b ∈ c.ins ++ c.outs, b.len ≠ 0) (hready : q.canPop = true) (hid : q.usedElem.1 % U16 = c.head)
    (ins outs : List Buf) (q'' : Q) (t : Nat) (evs : List Ev)
    (hadd : (q.popUsed c.head c.ins c.outs).1.add ins outs = (q'', .token t, evs)) : t = c.head := by
  have := (C03Inv.pop_releases_exactly q h c hc hz hready hid).2.2.2.2
  rw [add_returns_freeHead _ _ _ _ _ _ hadd]
  exact this

/-- A fresh queue hands out tokens `0, 1, 2, …` (the assertion `assert_eq!(i, token)` in
`OwningQueue::new` and the input/net constructors): the first token is 0 and the free list of a
fresh queue is `0 → 1 → … → n-1`. -/
theorem fresh_first_token (n : Nat) (ind ev ap : Bool) (ins outs : List Buf) (q' : Q) (t : Nat) (evs : List Ev)
    (h : (Q.init n ind ev ap).add ins outs = (q', .token t, evs)) : t = 0 := by
  rw [add_returns_freeHead _ _ _ _ _ _ h]; rfl

/-- a stocked queue of single-buffer chains: after posting `k ≤ n` one-buffer chains on a fresh
direct queue the tokens are `0 … k-1` in order -/
def postAll : Nat → Q → Option (Q × List Nat)
  | 0, q => some (q, [])
  | k + 1, q =>
    match q.add [] [{ id := 0, len := 8 }] with
    | (q1, .token t, _) => (postAll k q1).map fun (q2, ts) => (q2, t :: ts)
    | _ => none

example : (postAll 4 (Q.init 4 false false false)).map (·.2) = some [0, 1, 2, 3] := by decide +kernel
example : (postAll 8 (Q.init 8 true true false)).map (·.2) = some [0, 1, 2, 3, 4, 5, 6, 7] := by decide +kernel

end VirtioVerif.Props.C19
