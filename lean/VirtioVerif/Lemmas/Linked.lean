/-!
Link structure of the free list / descriptor chains: `Linked next h l` says that following `next`
from `h` visits exactly `l`.  Pure list/function lemmas, no queue state.
-/
namespace VirtioVerif.Queue

def Linked (next : Nat → Nat) : Nat → List Nat → Prop
  | _, [] => True
  | h, a :: l => h = a ∧ Linked next (next a) l

/-- where the walk ends up after `l` -/
def after (next : Nat → Nat) (h : Nat) : List Nat → Nat
  | [] => h
  | a :: l => after next (next a) l

def upd (f : Nat → Nat) (i v : Nat) : Nat → Nat := fun j => if j = i then v else f j

theorem linked_append (next : Nat → Nat) (h : Nat) (l1 l2 : List Nat) :
    Linked next h (l1 ++ l2) ↔ Linked next h l1 ∧ Linked next (after next h l1) l2 := by
  induction l1 generalizing h with
  | nil => simp [Linked, after]
  | cons a l ih => simp [Linked, after, ih, and_assoc]

theorem after_append (next : Nat → Nat) (h : Nat) (l1 l2 : List Nat) :
    after next h (l1 ++ l2) = after next (after next h l1) l2 := by
  induction l1 generalizing h with
  | nil => rfl
  | cons a l ih => simp [after, ih]

theorem linked_congr (f g : Nat → Nat) (h : Nat) (l : List Nat) (hfg : ∀ x ∈ l, f x = g x) :
    Linked f h l ↔ Linked g h l := by
  induction l generalizing h with
  | nil => simp [Linked]
  | cons a l ih =>
    simp only [Linked]
    rw [hfg a (by simp), ih _ (fun x hx => hfg x (by simp [hx]))]

theorem after_congr (f g : Nat → Nat) (h : Nat) (l : List Nat) (hfg : ∀ x ∈ l, f x = g x) :
    after f h l = after g h l := by
  induction l generalizing h with
  | nil => rfl
  | cons a l ih =>
    simp only [after]
    rw [hfg a (by simp), ih _ (fun x hx => hfg x (by simp [hx]))]

theorem linked_upd_of_not_mem (next : Nat → Nat) (i v h : Nat) (l : List Nat) (hi : i ∉ l) :
    Linked (upd next i v) h l ↔ Linked next h l := by
  apply linked_congr
  intro x hx
  have : x ≠ i := fun e => hi (e ▸ hx)
  simp [upd, this]

theorem after_upd_of_not_mem (next : Nat → Nat) (i v h : Nat) (l : List Nat) (hi : i ∉ l) :
    after (upd next i v) h l = after next h l := by
  apply after_congr
  intro x hx
  have : x ≠ i := fun e => hi (e ▸ hx)
  simp [upd, this]

theorem linked_head (next : Nat → Nat) (h a : Nat) (l : List Nat) (hl : Linked next h (a :: l)) : h = a := hl.1

/-- Pushing a chain back onto the free list by rewriting only its last link. -/
theorem linked_push (next : Nat → Nat) (pre free : List Nat) (head oldHead last : Nat)
    (hnd : (pre ++ [last]).Nodup) (hdis : ∀ x ∈ pre ++ [last], x ∉ free)
    (hlc : Linked next head (pre ++ [last])) (hlf : Linked next oldHead free) :
    Linked (upd next last oldHead) head ((pre ++ [last]) ++ free) := by
  have hlast_pre : last ∉ pre := by
    intro h
    have := List.nodup_append.mp hnd
    exact this.2.2 last h last (by simp) rfl
  have hlast_free : last ∉ free := hdis last (by simp)
  rw [linked_append, linked_append]
  rw [linked_append] at hlc
  refine ⟨⟨?_, ?_⟩, ?_⟩
  · rw [linked_upd_of_not_mem _ _ _ _ _ hlast_pre]; exact hlc.1
  · rw [after_upd_of_not_mem _ _ _ _ _ hlast_pre]
    have := hlc.2
    simp only [Linked] at this ⊢
    exact ⟨this.1, trivial⟩
  · have : after (upd next last oldHead) head (pre ++ [last]) = oldHead := by
      rw [after_append, after_upd_of_not_mem _ _ _ _ _ hlast_pre]
      simp [after, upd]
    rw [this, linked_upd_of_not_mem _ _ _ _ _ hlast_free]; exact hlf

/-- Taking `k` from the front of the free list yields a linked chain and a linked remainder. -/
theorem linked_take_drop (next : Nat → Nat) (h : Nat) (free : List Nat) (k : Nat)
    (hl : Linked next h free) :
    Linked next h (free.take k) ∧ Linked next (after next h (free.take k)) (free.drop k) := by
  have := (linked_append next h (free.take k) (free.drop k)).mp (by simpa using hl)
  exact this

end VirtioVerif.Queue
