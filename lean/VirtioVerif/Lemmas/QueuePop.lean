import VirtioVerif.Lemmas.QueueInv
import VirtioVerif.Lemmas.QueueEvents
/-!
`pop_used` / `recycle_descriptors` preserve the structural invariant under the caller contract
(the token names an outstanding chain and the same buffers are passed), and cannot panic.
-/
namespace VirtioVerif.Queue

theorem hasFlag_next (e w : Bool) :
    hasFlag ((if e then 0 else fNEXT) ||| (if w then fWRITE else 0)) fNEXT = !e := by
  cases e <;> cases w <;> decide

theorem hasFlag_indirect_direct (e w : Bool) :
    hasFlag ((if e then 0 else fNEXT) ||| (if w then fWRITE else 0)) fINDIRECT = false := by
  cases e <;> cases w <;> decide

/-- the unshare calls a direct chain must produce: the addresses `share` returned, in order -/
def expectedUnshares (s : Nat) : List (Buf × Bool) → List HalEv
  | [] => []
  | (b, w) :: rest => .unshare (shareAddr s) b w :: expectedUnshares (s + 1) rest

theorem recycleLoop_spec : ∀ (ds : List Nat) (d : Nat) (q : Q) (orig : Nat) (evs : List Ev) (s : Nat)
    (bufs : List (Buf × Bool)) (last : Nat), (d :: ds).getLast? = some last →
    q.shadow.size = q.n → q.descTable.size = q.n →
    (d :: ds).Nodup → (∀ x ∈ d :: ds, x < q.n) → Linked q.nextFn d (d :: ds) →
    EncOk q s (d :: ds) bufs → (d :: ds).length ≤ q.numUsed → (∀ bw ∈ bufs, bw.1.len ≠ 0) →
    ∃ q' evs',
      recycleLoop q orig (some d) bufs evs = some (q', none, evs')
      ∧ q'.nextFn = upd q.nextFn last orig
      ∧ (∀ j, j ∉ d :: ds → q'.get j = q.get j ∧ q'.dv j = q.dv j)
      ∧ q'.shadow.size = q.n ∧ q'.descTable.size = q.n ∧ Frame q q'
      ∧ q'.numUsed = q.numUsed - (d :: ds).length
      ∧ q'.indirectLists = q.indirectLists ∧ q'.tables = q.tables ∧ q'.shareCtr = q.shareCtr
      ∧ q'.freeHead = q.freeHead
      ∧ hals evs' = hals evs ++ expectedUnshares s bufs := by
  intro ds
  induction ds with
  | nil =>
    intro d q orig evs s bufs last hlast hs hd hnd hlt hl he hu hz
    have hlast' : d = last := by simpa using hlast
    subst hlast'
    cases bufs with
    | nil => simp [EncOk] at he
    | cons bw bs =>
      obtain ⟨b, w⟩ := bw
      simp only [EncOk] at he
      obtain ⟨e1, e2, e3, e4, e5⟩ := he
      cases bs with
      | cons _ _ => simp [EncOk] at e5
      | nil =>
        have hb0 : b.len ≠ 0 := hz (b, w) (by simp)
        have hdn : ¬ q.n ≤ d := by have := hlt d (by simp); omega
        have hu0 : ¬ q.numUsed = 0 := by simp at hu; omega
        have hflag : hasFlag (q.get d).flags fNEXT = false := by
          rw [e3]; simpa using hasFlag_next true w
        have hs1 : d < q.shadow.size := by rw [hs]; exact hlt d (by simp)
        let dd := q.get d
        let d' : Desc := { dd with addr := 0, len := 0, next := orig }
        let q1 : Q := { (q.setShadow d d') with numUsed := q.numUsed - 1 }
        let q2 : Q := (q1.writeDesc d).1
        have hget2 : ∀ j, q2.get j = if j = d then d' else q.get j := by
          intro j; show (q.setShadow d d').get j = _; exact get_setShadow q d j d' hs1
        have hdv2 : ∀ j, q2.dv j = if j = d then d' else q.dv j := by
          intro j
          have := vis_writeDesc q1 d j (by show d < q.descTable.size; rw [hd]; exact hlt d (by simp))
          rw [show q2.dv j = (q1.writeDesc d).1.dv j from rfl, this]
          have : q1.get d = d' := by
            show (q.setShadow d d').get d = d'
            rw [get_setShadow q d d d' hs1]; simp
          rw [this]; rfl
        refine ⟨q2, evs ++ [(q1.writeDesc d).2, .hal (.unshare dd.addr b w)], ?_, ?_, ?_, ?_, ?_, ?_, ?_, ?_, ?_, ?_, ?_, ?_⟩
        · simp only [recycleLoop, hb0, hdn, hu0, hflag, if_false]
          rfl
        · funext j
          simp only [Q.nextFn, upd, hget2 j]
          split <;> simp [d']
        · intro j hj
          have hjd : j ≠ d := by simpa using hj
          rw [hget2 j, hdv2 j]; simp [hjd]
        · show (q.shadow.setIfInBounds _ _).size = q.n; simp [hs]
        · show (q.descTable.setIfInBounds _ _).size = q.n; simp [hd]
        · constructor <;> rfl
        · simp; rfl
        · rfl
        · rfl
        · rfl
        · rfl
        · simp [Q.writeDesc, expectedUnshares, dd, e1]
  | cons d2 ds' ih =>
    intro d q orig evs s bufs last hlast hs hd hnd hlt hl he hu hz
    have hlast2 : (d2 :: ds').getLast? = some last := by simpa [List.getLast?_cons_cons] using hlast
    cases bufs with
    | nil => simp [EncOk] at he
    | cons bw bs =>
      obtain ⟨b, w⟩ := bw
      simp only [EncOk] at he
      obtain ⟨e1, e2, e3, e4, e5⟩ := he
      have hb0 : b.len ≠ 0 := hz (b, w) (by simp)
      have hdn : ¬ q.n ≤ d := by have := hlt d (by simp); omega
      have hu0 : ¬ q.numUsed = 0 := by simp at hu; omega
      have hflag : hasFlag (q.get d).flags fNEXT = true := by
        rw [e3]; simpa using hasFlag_next false w
      have hs1 : d < q.shadow.size := by rw [hs]; exact hlt d (by simp)
      have hnd' := List.nodup_cons.mp hnd
      -- Linked: next of d is d2
      have hnext : (q.get d).next = d2 := by
        have := hl.2
        simp only [Linked] at this
        exact this.1
      let dd := q.get d
      let d' : Desc := { dd with addr := 0, len := 0, next := dd.next }
      let q1 : Q := { (q.setShadow d d') with numUsed := q.numUsed - 1 }
      let q2 : Q := (q1.writeDesc d).1
      have hget2 : ∀ j, q2.get j = if j = d then d' else q.get j := by
        intro j; show (q.setShadow d d').get j = _; exact get_setShadow q d j d' hs1
      have hdv2 : ∀ j, q2.dv j = if j = d then d' else q.dv j := by
        intro j
        have := vis_writeDesc q1 d j (by show d < q.descTable.size; rw [hd]; exact hlt d (by simp))
        rw [show q2.dv j = (q1.writeDesc d).1.dv j from rfl, this]
        have : q1.get d = d' := by
          show (q.setShadow d d').get d = d'
          rw [get_setShadow q d d d' hs1]; simp
        rw [this]; rfl
      have hn2 : q2.nextFn = q.nextFn := by
        funext j
        simp only [Q.nextFn, hget2 j]
        split
        · rename_i e; subst e; rfl
        · rfl
      have hd_not : d ∉ d2 :: ds' := hnd'.1
      obtain ⟨q', evs', r1, r2, r3, r4, r5, r6, r7, r8, r9, r10, r11, r12⟩ :=
        ih d2 q2 orig (evs ++ [(q1.writeDesc d).2, .hal (.unshare dd.addr b w)]) (s + 1) bs last hlast2
          (by show (q.shadow.setIfInBounds _ _).size = q.n; simp [hs])
          (by show (q.descTable.setIfInBounds _ _).size = q.n; simp [hd])
          hnd'.2 (fun x hx => hlt x (by simp [hx]))
          (by
            rw [hn2]
            have := hl.2
            rw [show q.nextFn d = d2 from hnext] at this
            exact this)
          (by
            refine (encOk_congr q q2 _ _ _ ?_).mpr e5
            intro x hx
            have hxd : x ≠ d := fun e => hd_not (e ▸ hx)
            rw [hget2 x, hdv2 x]; simp [hxd])
          (by show (d2 :: ds').length ≤ q.numUsed - 1; simp at hu ⊢; omega)
          (fun bw hbw => hz bw (by simp [hbw]))
      refine ⟨q', evs', ?_, ?_, ?_, r4, r5, ?_, ?_, ?_, ?_, ?_, ?_, ?_⟩
      · simp only [recycleLoop, hb0, hdn, hu0, hflag, if_false, if_true]
        have : (some (q.get d).next : Option Nat) = some d2 := by rw [hnext]
        simp only [Option.isNone_some, Bool.false_eq_true, if_false]
        rw [this]
        exact r1
      · rw [r2, hn2]
      · intro j hj
        simp only [List.mem_cons, not_or] at hj
        obtain ⟨a, b⟩ := r3 j (by simp [hj.2.1, hj.2.2])
        rw [a, b, hget2 j, hdv2 j]; simp [hj.1]
      · exact Frame.trans (by constructor <;> rfl) r6
      · rw [r7]; show q.numUsed - 1 - (d2 :: ds').length = _; simp; omega
      · rw [r8]; rfl
      · rw [r9]; rfl
      · rw [r10]; rfl
      · rw [r11]; rfl
      · rw [r12]; simp [Q.writeDesc, expectedUnshares, dd, e1]

/-! ### removing a chain from the outstanding list -/

theorem filter_head_perm : ∀ (out : List Chain) (c : Chain), c ∈ out → (chainDescs out).Nodup →
    (∀ x ∈ out, x.head ∈ x.descs) →
    (chainDescs out).Perm (c.descs ++ chainDescs (out.filter fun x => x.head != c.head)) := by
  intro out
  induction out with
  | nil => intro c hc; simp at hc
  | cons x xs ih =>
    intro c hc hnd hh
    have hnd' : (x.descs ++ chainDescs xs).Nodup := by simpa [chainDescs] using hnd
    obtain ⟨n1, n2, n3⟩ := List.nodup_append.mp hnd'
    -- no chain of `xs` shares a head with `x`
    have hxs : ∀ y ∈ xs, y.head ≠ x.head := by
      intro y hy e
      have h1 : y.head ∈ chainDescs xs := mem_chainDescs hy (hh y (by simp [hy]))
      have h2 : x.head ∈ x.descs := hh x (by simp)
      exact n3 x.head h2 y.head h1 e.symm
    by_cases hcx : c = x
    · subst hcx
      have hf : xs.filter (fun y => y.head != c.head) = xs := by
        rw [List.filter_eq_self]
        intro y hy
        simpa using hxs y hy
      simp only [List.filter_cons, bne_self_eq_false, Bool.false_eq_true, if_false, hf]
      simp [chainDescs]
    · have hcxs : c ∈ xs := by
        rcases List.mem_cons.mp hc with h | h
        · exact absurd h hcx
        · exact h
      have hne : x.head ≠ c.head := fun e => hxs c hcxs e.symm
      have ih' := ih c hcxs n2 (fun y hy => hh y (by simp [hy]))
      simp only [List.filter_cons, bne_iff_ne, ne_eq, hne, not_false_eq_true, if_true]
      simp only [chainDescs, List.flatMap_cons] at ih' ⊢
      -- x.descs ++ cd xs ~ x.descs ++ (c.descs ++ rest) ~ c.descs ++ (x.descs ++ rest)
      refine (List.Perm.append_left x.descs ih').trans ?_
      have := @List.perm_append_comm _ x.descs c.descs
      have h2 := List.Perm.append_right (List.flatMap (fun x => x.descs) (List.filter (fun x => x.head != c.head) xs)) this
      simpa [List.append_assoc] using h2

theorem mem_of_mem_filter_head {out : List Chain} {t : Nat} {x : Chain}
    (h : x ∈ out.filter fun y => y.head != t) : x ∈ out ∧ x.head ≠ t := by
  simp only [List.mem_filter, bne_iff_ne, ne_eq] at h
  exact h

theorem heads_inj : ∀ (out : List Chain), (chainDescs out).Nodup → (∀ x ∈ out, x.head ∈ x.descs) →
    ∀ x ∈ out, ∀ y ∈ out, x.head = y.head → x = y := by
  intro out
  induction out with
  | nil => intro _ _ x hx; simp at hx
  | cons a as ih =>
    intro hnd hh x hx y hy e
    have hnd' : (a.descs ++ chainDescs as).Nodup := by simpa [chainDescs] using hnd
    obtain ⟨n1, n2, n3⟩ := List.nodup_append.mp hnd'
    have hdiff : ∀ z ∈ as, z.head ≠ a.head := by
      intro z hz e
      exact n3 a.head (hh a (by simp)) z.head (mem_chainDescs hz (hh z (by simp [hz]))) e.symm
    rcases List.mem_cons.mp hx with hx1 | hx1
    · rcases List.mem_cons.mp hy with hy1 | hy1
      · rw [hx1, hy1]
      · rw [hx1] at e; exact absurd e.symm (hdiff y hy1)
    · rcases List.mem_cons.mp hy with hy1 | hy1
      · rw [hy1] at e; exact absurd e (hdiff x hx1)
      · exact ih n2 (fun z hz => hh z (by simp [hz])) x hx1 y hy1 e

/-! ### `recycle_descriptors` preserves the invariant -/

theorem mkTable_length (ctr : Nat) (bufs : List (Buf × Bool)) : ∀ i, (mkTable ctr i bufs).length = bufs.length := by
  induction bufs with
  | nil => intro i; rfl
  | cons bw rest ih => intro i; obtain ⟨b, w⟩ := bw; simp [mkTable, ih]

theorem unshareEvs_mkTable (ctr : Nat) (bufs : List (Buf × Bool)) (hz : ∀ bw ∈ bufs, bw.1.len ≠ 0) : ∀ i,
    ∃ l, unshareEvs (mkTable ctr i bufs) bufs = some l ∧ hals l = expectedUnshares (ctr + i) bufs := by
  induction bufs with
  | nil => intro i; exact ⟨[], rfl, rfl⟩
  | cons bw rest ih =>
    intro i
    obtain ⟨b, w⟩ := bw
    obtain ⟨l, h1, h2⟩ := ih (fun x hx => hz x (by simp [hx])) (i + 1)
    have hb : b.len ≠ 0 := hz (b, w) (by simp)
    refine ⟨.hal (.unshare (shareAddr (ctr + i)) b w) :: l, ?_, ?_⟩
    · simp only [mkTable]
      unfold unshareEvs
      simp only [hb, if_false, h1, Option.map_some]
    · simp only [hals_cons_hal, expectedUnshares, h2]
      have : ctr + (i + 1) = ctr + i + 1 := by omega
      rw [this]

/-- the platform calls of a successful `pop_used` on chain `c` -/
def expectedPopHals (c : Chain) : List HalEv :=
  (match c.table with
   | some tid => [HalEv.unshareTable (shareAddr tid) (16 * (tagBufs c.ins c.outs).length)]
   | none => []) ++ expectedUnshares c.firstShare (tagBufs c.ins c.outs)

theorem recycle_inv (q : Q) (h : Inv q) (c : Chain) (hc : c ∈ q.out)
    (hz : ∀ b ∈ c.ins ++ c.outs, b.len ≠ 0) :
    ∃ q1 evs, recycle q c.head c.ins c.outs = some (q1, evs)
      ∧ InvO q1 (q.out.filter fun x => x.head != c.head) ∧ Frame q q1
      ∧ hals evs = expectedPopHals c ∧ q1.shareCtr = q.shareCtr ∧ q1.freeHead = c.head := by
  obtain ⟨free, hl, hnd, hlt, hlen⟩ := h.free
  have hheads : ∀ x ∈ q.out, x.head ∈ x.descs := fun x hx => chainOk_head_mem q x (h.chains x hx)
  have hndc : (chainDescs q.out).Nodup := (List.nodup_append.mp hnd).2.1
  have hp := filter_head_perm q.out c hc hndc hheads
  generalize hout' : (q.out.filter fun x => x.head != c.head) = out' at *
  have hp2 : (free ++ chainDescs q.out).Perm (c.descs ++ free ++ chainDescs out') := by
    refine (List.Perm.append_left free hp).trans ?_
    have := @List.perm_append_comm _ free c.descs
    have h2 := List.Perm.append_right (chainDescs out') this
    simpa [List.append_assoc] using h2
  have hnd2 : (c.descs ++ free ++ chainDescs out').Nodup := hp2.nodup_iff.mp hnd
  obtain ⟨m1, m2, m3⟩ := List.nodup_append.mp hnd2
  obtain ⟨m4, m5, m6⟩ := List.nodup_append.mp m1
  have hlt2 : ∀ x ∈ c.descs ++ free ++ chainDescs out', x < q.n := fun x hx => hlt x (hp2.mem_iff.mpr hx)
  have hhm : c.head ∈ c.descs := hheads c hc
  have hhn : c.head < q.n := hlt2 c.head (by simp [hhm])
  have hnle : ¬ q.n ≤ c.head := by omega
  have hlen2 : (c.descs ++ free ++ chainDescs out').length = q.n := by rw [← hp2.length_eq]; exact hlen
  have hnu : q.numUsed = c.descs.length + (chainDescs out').length := by
    rw [h.numUsed, hp.length_eq]; simp
  have hok := h.chains c hc
  have hzb := tagBufs_len_ne c.ins c.outs hz
  -- chains that stay are untouched as long as the recycled chain's descriptors are the only change
  have keep : ∀ (q1 : Q), (∀ j, j ∉ c.descs → q1.get j = q.get j ∧ q1.dv j = q.dv j) →
      (∀ j, j ∉ c.descs → q1.nextFn j = q.nextFn j) →
      (∀ j, j ≠ c.head → q1.indirectLists.getD j none = q.indirectLists.getD j none) →
      ∀ x ∈ out', ChainOk q1 x := by
    intro q1 g1 g2 g3 x hx
    rw [← hout'] at hx
    obtain ⟨hxo, hxh⟩ := mem_of_mem_filter_head hx
    have hdis : ∀ d ∈ x.descs, d ∉ c.descs := by
      intro d hd hm
      have : d ∈ chainDescs out' := by rw [← hout']; exact mem_chainDescs hx hd
      exact m3 d (by simp [hm]) d this rfl
    exact chainOk_congr q q1 x (fun d hd => g1 d (hdis d hd)) (fun d hd => g2 d (hdis d hd))
      (g3 x.head hxh) (h.chains x hxo)
  unfold ChainOk at hok
  cases htab : c.table with
  | none =>
    rw [htab] at hok
    obtain ⟨hne, hlk, henc⟩ := hok
    cases hds : c.descs with
    | nil => exact absurd hds hne
    | cons d ds =>
      rw [hds] at hlk henc hhm m4 m6 m3
      have hhd : c.head = d := hlk.1
      obtain ⟨last, hlast⟩ : ∃ x, (d :: ds).getLast? = some x := by
        cases hx : (d :: ds).getLast? with
        | none => simp at hx
        | some x => exact ⟨x, rfl⟩
      have hflag : hasFlag (q.get c.head).flags fINDIRECT = false := by
        rw [hhd]
        cases hb : tagBufs c.ins c.outs with
        | nil => rw [hb] at henc; simp [EncOk] at henc
        | cons bw bs =>
          obtain ⟨b, w⟩ := bw
          rw [hb] at henc
          simp only [EncOk] at henc
          rw [henc.2.2.1]
          exact hasFlag_indirect_direct _ _
      let q0 : Q := { q with freeHead := d }
      have hn0 : q0.nextFn = q.nextFn := rfl
      obtain ⟨q1, evs1, r1, r2, r3, r4, r5, r6, r7, r8, r9, r10, r11, r12⟩ :=
        recycleLoop_spec ds d q0 q.freeHead [] c.firstShare (tagBufs c.ins c.outs) last hlast h.szS h.szD m4
          (fun x hx => hlt2 x (by rw [hds]; simp only [List.mem_append]; exact Or.inl (Or.inl hx)))
          (by rw [hn0]; rw [hhd] at hlk; exact hlk)
          ((encOk_congr q q0 _ _ _ (fun _ _ => ⟨rfl, rfl⟩)).mpr henc)
          (by show (d :: ds).length ≤ q.numUsed; rw [hnu, hds]; omega) hzb
      refine ⟨q1, evs1, ?_, ?_, ?_, ?_, r10, by rw [r11]; exact hhd.symm⟩
      · unfold recycle
        simp only [hnle, if_false, hflag]
        unfold recycleDirect
        rw [hhd]
        have r1' : recycleLoop { q with freeHead := d } q.freeHead (some d) (tagBufs c.ins c.outs) [] = some (q1, none, evs1) := r1
        rw [r1']; simp
      · obtain ⟨pre, hpre⟩ := List.getLast?_eq_some_iff.mp hlast
        have hlastm : last ∈ d :: ds := List.mem_of_getLast? hlast
        constructor
        · rw [r6.n]; exact h.npos
        · rw [r6.n]; exact h.nle
        · rw [r4, r6.n]
        · rw [r5, r6.n]
        · rw [r8, r6.n]; exact h.szI
        · rw [r7]; show q.numUsed - (d :: ds).length = _; rw [hnu, hds]; simp
        · refine ⟨(d :: ds) ++ free, ?_, ?_, ?_, ?_⟩
          · rw [r2, r11, hn0]
            show Linked (upd q.nextFn last q.freeHead) d _
            rw [hpre] at m4 m6 ⊢
            have hlk' : Linked q.nextFn d (pre ++ [last]) := by rw [← hpre]; rw [hhd] at hlk; exact hlk
            exact linked_push q.nextFn pre free d q.freeHead last m4
              (fun x hx hf => m6 x hx x hf rfl) hlk' hl
          · rw [← hds]; exact hnd2
          · intro x hx; rw [r6.n]; exact hlt2 x (by rw [hds]; exact hx)
          · rw [r6.n, ← hds]; exact hlen2
        · refine keep q1 (fun j hj => ?_) (fun j hj => ?_) (fun j _ => by rw [r8])
          · rw [hds] at hj; exact r3 j hj
          · rw [r2, hn0]
            have : j ≠ last := by rw [hds] at hj; exact fun e => hj (e ▸ hlastm)
            simp [upd, this]
        · intro i hi hno
          rw [r8]
          refine h.stale i (by rw [← r6.n]; exact hi) ?_
          intro x hx hsome e
          by_cases hxc : x.head = c.head
          · have := heads_inj q.out hndc hheads x hx c hc hxc
            rw [this, htab] at hsome; simp at hsome
          · exact hno x (by rw [← hout']; simp [hx, hxc]) hsome e
      · exact Frame.trans (by constructor <;> rfl) r6
      · rw [r12]; simp [expectedPopHals, htab]
  | some tid =>
    rw [htab] at hok
    obtain ⟨k1, k2, k3, k4, k5, k6, k7, k8⟩ := hok
    have hflag : hasFlag (q.get c.head).flags fINDIRECT = true := by rw [k6]; decide
    have hnu0 : ¬ q.numUsed = 0 := by rw [hnu, k1]; simp
    obtain ⟨l, hl1, hl2⟩ := unshareEvs_mkTable c.firstShare (tagBufs c.ins c.outs) hzb 0
    let q0 : Q := { q with freeHead := c.head }
    have hs1 : c.head < q.shadow.size := by rw [h.szS]; exact hhn
    have hget1 : ∀ j, (indirectFreed q0 c.head q.freeHead).get j
        = if j = c.head then { (q.get c.head) with addr := 0, len := 0, next := q.freeHead } else q.get j := by
      intro j
      show (q.setShadow c.head _).get j = _
      exact get_setShadow q c.head j _ hs1
    have hil : ∀ j, (indirectFreed q0 c.head q.freeHead).indirectLists.getD j none
        = if j = c.head then none else q.indirectLists.getD j none := by
      intro j
      show (q.indirectLists.setIfInBounds c.head none).getD j none = _
      simp only [Array.getD_eq_getD_getElem?, Array.getElem?_setIfInBounds]
      by_cases e : c.head = j
      · subst e; simp; split <;> rfl
      · simp [e, Ne.symm e]
    refine ⟨indirectFreed q0 c.head q.freeHead,
      .hal (.unshareTable (q.get c.head).addr (16 * (mkTable c.firstShare 0 (tagBufs c.ins c.outs)).length)) :: l,
      ?_, ?_, ?_, ?_, rfl, rfl⟩
    · unfold recycle
      simp only [hnle, if_false, hflag, if_true]
      unfold recycleIndirect
      have : q0.indirectLists.getD c.head none = some (mkTable c.firstShare 0 (tagBufs c.ins c.outs)) := k8
      rw [this]
      simp only [mkTable_length, tagBufs_length, ne_eq, not_true_eq_false, if_false]
      have hnu0' : ¬ q0.numUsed = 0 := hnu0
      rw [if_neg hnu0', hl1]
      rfl
    · rw [k1] at m4 m6 m3 hnd2 hlt2 hlen2
      constructor
      · exact h.npos
      · exact h.nle
      · show (q.shadow.setIfInBounds _ _).size = q.n; simp [h.szS]
      · exact h.szD
      · show (q.indirectLists.setIfInBounds _ _).size = q.n; simp [h.szI]
      · show q.numUsed - 1 = _; rw [hnu, k1]; simp
      · refine ⟨c.head :: free, ?_, ?_, ?_, ?_⟩
        · have hnf : (indirectFreed q0 c.head q.freeHead).nextFn = upd q.nextFn c.head q.freeHead := by
            funext j
            simp only [Q.nextFn, hget1 j, upd]
            split <;> simp
          rw [hnf]
          show Linked _ c.head _
          refine ⟨rfl, ?_⟩
          have hnotf : c.head ∉ free := fun hf => m6 c.head (by simp) c.head hf rfl
          simp only [upd, if_true]
          exact (linked_upd_of_not_mem _ _ _ _ _ hnotf).mpr hl
        · simpa using hnd2
        · intro x hx; exact hlt2 x (by simpa using hx)
        · show _ = q.n; simpa using hlen2
      · refine keep _ (fun j hj => ?_) (fun j hj => ?_) (fun j hj => ?_)
        · have hjc : j ≠ c.head := by rw [k1] at hj; simpa using hj
          constructor
          · rw [hget1 j]; simp [hjc]
          · rfl
        · have hjc : j ≠ c.head := by rw [k1] at hj; simpa using hj
          simp only [Q.nextFn, hget1 j, hjc, if_false]
        · rw [hil j]; simp [hj]
      · intro i hi hno
        rw [hil i]
        split
        · rfl
        · rename_i hic
          refine h.stale i hi ?_
          intro x hx hsome e
          have hxc : x.head ≠ c.head := by rw [e]; exact hic
          exact hno x (by rw [← hout']; simp [hx, hxc]) hsome e
    · constructor <;> rfl
    · simp only [hals_cons_hal, hl2, expectedPopHals, htab, k4, mkTable_length]
      simp

/-! ### `pop_used` preserves the invariant and cannot panic under the caller contract -/

/-- caller contract of `pop_used` (its `# Safety` section): the token was returned by `add` and is
still outstanding, and the buffers passed are the ones passed to that `add` -/
def PopContract (q : Q) (tok : Nat) (ins outs : List Buf) : Prop :=
  ∃ c ∈ q.out, c.head = tok ∧ c.ins = ins ∧ c.outs = outs ∧ ∀ b ∈ ins ++ outs, b.len ≠ 0

theorem pop_inv (q : Q) (h : Inv q) (tok : Nat) (ins outs : List Buf) (hc : PopContract q tok ins outs) :
    Inv (q.popUsed tok ins outs).1 ∧ (q.popUsed tok ins outs).2.1 ≠ .panic := by
  obtain ⟨c, hcm, h1, h2, h3, hz⟩ := hc
  subst h1 h2 h3
  unfold Q.popUsed
  split
  · exact ⟨h, by simp⟩
  · split
    · exact ⟨h, by simp⟩
    · rename_i ht
      have ht' : q.usedElem.1 % U16 = c.head := by simpa using ht
      rw [ht']
      obtain ⟨q1, evs, e, i, f, _, _, _⟩ := recycle_inv q h c hcm hz
      rw [e]
      refine ⟨?_, by simp⟩
      obtain ⟨a1, a2, _, _, _, _, _, a8, a9, a10, a11, a12, a13, a14, _, _, _, _⟩ := finishPop_spec q1 c.head
      show InvO (finishPop q1 c.head).1 (finishPop q1 c.head).1.out
      rw [a2, f.out]
      exact invO_of_same i a13 a10 a11 a12 a8 a9 a14

/-- the device's writes (any values) preserve the invariant: it only speaks of driver-private
state and of what the driver wrote -/
theorem dev_inv (q q' : Q) (h : Inv q) (hn : q'.n = q.n) (hs : q'.shadow = q.shadow)
    (hi : q'.indirectLists = q.indirectLists) (hu : q'.numUsed = q.numUsed) (hf : q'.freeHead = q.freeHead)
    (ht : q'.tables = q.tables) (ho : q'.out = q.out) (hd : q'.descTable = q.descTable) : Inv q' := by
  show InvO q' q'.out
  rw [ho]
  exact invO_of_same h hn hs hd hi hu hf ht

end VirtioVerif.Queue
