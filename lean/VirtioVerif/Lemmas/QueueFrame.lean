import VirtioVerif.Model.Queue
/-!
Frame lemmas: which fields the descriptor-table manipulations of `add` / `pop_used` leave alone.
-/
namespace VirtioVerif.Queue

/-- everything except the descriptor bookkeeping (`shadow`, `descTable`, `freeHead`, `numUsed`,
`indirectLists`, `tables`, `shareCtr`) is equal -/
structure Frame (q q' : Q) : Prop where
  n : q'.n = q.n
  indirect : q'.indirect = q.indirect
  eventIdx : q'.eventIdx = q.eventIdx
  ap : q'.ap = q.ap
  availIdx : q'.availIdx = q.availIdx
  lastUsedIdx : q'.lastUsedIdx = q.lastUsedIdx
  availFlags : q'.availFlags = q.availFlags
  availIdxMem : q'.availIdxMem = q.availIdxMem
  availRing : q'.availRing = q.availRing
  usedEvent : q'.usedEvent = q.usedEvent
  usedFlags : q'.usedFlags = q.usedFlags
  usedIdx : q'.usedIdx = q.usedIdx
  usedRing : q'.usedRing = q.usedRing
  availEvent : q'.availEvent = q.availEvent
  out : q'.out = q.out

theorem Frame.refl (q : Q) : Frame q q := by constructor <;> rfl

theorem Frame.trans {a b c : Q} (h1 : Frame a b) (h2 : Frame b c) : Frame a c := by
  constructor
  · rw [h2.n, h1.n]
  · rw [h2.indirect, h1.indirect]
  · rw [h2.eventIdx, h1.eventIdx]
  · rw [h2.ap, h1.ap]
  · rw [h2.availIdx, h1.availIdx]
  · rw [h2.lastUsedIdx, h1.lastUsedIdx]
  · rw [h2.availFlags, h1.availFlags]
  · rw [h2.availIdxMem, h1.availIdxMem]
  · rw [h2.availRing, h1.availRing]
  · rw [h2.usedEvent, h1.usedEvent]
  · rw [h2.usedFlags, h1.usedFlags]
  · rw [h2.usedIdx, h1.usedIdx]
  · rw [h2.usedRing, h1.usedRing]
  · rw [h2.availEvent, h1.availEvent]
  · rw [h2.out, h1.out]

theorem frame_setShadow (q : Q) (i : Nat) (d : Desc) : Frame q (q.setShadow i d) := by
  constructor <;> rfl

theorem frame_writeDesc (q : Q) (i : Nat) : Frame q (q.writeDesc i).1 := by
  constructor <;> rfl

theorem frame_addDirectLoop (bufs : List (Buf × Bool)) :
    ∀ (q : Q) (last : Nat) (taken : List Nat) (evs : List Ev) (r : Q × Nat × List Nat × List Ev),
      addDirectLoop q last taken bufs evs = some r → Frame q r.1 := by
  induction bufs with
  | nil => intro q last taken evs r h; simp [addDirectLoop] at h; subst h; exact Frame.refl q
  | cons bw rest ih =>
    intro q last taken evs r h
    obtain ⟨b, w⟩ := bw
    simp only [addDirectLoop] at h
    split at h
    · simp at h
    · split at h
      · simp at h
      · have := ih _ _ _ _ _ h
        refine Frame.trans ?_ this
        constructor <;> rfl

theorem frame_addDirect (q : Q) (ins outs : List Buf) (r : Q × Chain × List Ev)
    (h : addDirect q ins outs = some r) : Frame q r.1 := by
  unfold addDirect at h
  split at h
  · simp at h
  · rename_i q1 last taken evs hl
    have f1 := frame_addDirectLoop _ _ _ _ _ _ hl
    simp only at h
    split at h
    · simp at h
    · split at h
      · simp at h
      · simp at h
        subst h
        refine Frame.trans f1 ?_
        constructor <;> rfl

theorem frame_addIndirect (q : Q) (ins outs : List Buf) (r : Q × Chain × List Ev)
    (h : addIndirect q ins outs = some r) : Frame q r.1 := by
  unfold addIndirect at h
  simp only at h
  split at h
  · simp at h
  · split at h
    · simp at h
    · split at h
      · simp at h
      · simp at h
        subst h
        constructor <;> rfl

theorem frame_recycleLoop (bufs : List (Buf × Bool)) :
    ∀ (q : Q) (orig : Nat) (next : Option Nat) (evs : List Ev) (r : Q × Option Nat × List Ev),
      recycleLoop q orig next bufs evs = some r → Frame q r.1 := by
  induction bufs with
  | nil => intro q orig next evs r h; simp [recycleLoop] at h; subst h; exact Frame.refl q
  | cons bw rest ih =>
    intro q orig next evs r h
    obtain ⟨b, w⟩ := bw
    simp only [recycleLoop] at h
    split at h
    · simp at h
    · split at h
      · simp at h
      · split at h
        · simp at h
        · split at h
          · simp at h
          · have := ih _ _ _ _ _ h
            refine Frame.trans ?_ this
            constructor <;> rfl

theorem frame_recycleIndirect (q0 : Q) (head orig : Nat) (ins outs : List Buf) (r : Q × List Ev)
    (h : recycleIndirect q0 head orig ins outs = some r) : Frame q0 r.1 := by
  unfold recycleIndirect at h
  split at h
  · simp at h
  · split at h
    · simp at h
    · split at h
      · simp at h
      · split at h
        · simp at h
        · simp at h
          rw [← h]
          constructor <;> rfl

theorem frame_recycleDirect (q0 : Q) (head orig : Nat) (ins outs : List Buf) (r : Q × List Ev)
    (h : recycleDirect q0 head orig ins outs = some r) : Frame q0 r.1 := by
  unfold recycleDirect at h
  split at h
  · simp at h
  · rename_i q1 next evs hl
    have f := frame_recycleLoop _ _ _ _ _ _ hl
    split at h
    · simp at h
    · simp at h
      rw [← h]
      exact f

theorem frame_recycle (q : Q) (head : Nat) (ins outs : List Buf) (r : Q × List Ev)
    (h : recycle q head ins outs = some r) : Frame q r.1 := by
  unfold recycle at h
  split at h
  · simp at h
  · have f0 : Frame q { q with freeHead := head } := by constructor <;> rfl
    split at h
    · exact Frame.trans f0 (frame_recycleIndirect _ _ _ _ _ _ h)
    · exact Frame.trans f0 (frame_recycleDirect _ _ _ _ _ _ h)

theorem frame_buildChain (q : Q) (ins outs : List Buf) (r : Q × Chain × List Ev)
    (h : buildChain q ins outs = some r) : Frame q r.1 := by
  unfold buildChain at h
  split at h
  · exact frame_addIndirect _ _ _ _ h
  · exact frame_addDirect _ _ _ _ h

/-- what the tail of `pop_used` does -/
theorem finishPop_spec (q1 : Q) (idx : Nat) :
    (finishPop q1 idx).1.lastUsedIdx = (q1.lastUsedIdx + 1) % U16
      ∧ (finishPop q1 idx).1.out = q1.out.filter (fun c => c.head != idx)
      ∧ (finishPop q1 idx).1.availIdx = q1.availIdx ∧ (finishPop q1 idx).1.availIdxMem = q1.availIdxMem
      ∧ (finishPop q1 idx).1.availRing = q1.availRing ∧ (finishPop q1 idx).1.usedIdx = q1.usedIdx
      ∧ (finishPop q1 idx).1.usedRing = q1.usedRing ∧ (finishPop q1 idx).1.numUsed = q1.numUsed
      ∧ (finishPop q1 idx).1.freeHead = q1.freeHead ∧ (finishPop q1 idx).1.shadow = q1.shadow
      ∧ (finishPop q1 idx).1.descTable = q1.descTable ∧ (finishPop q1 idx).1.indirectLists = q1.indirectLists
      ∧ (finishPop q1 idx).1.n = q1.n ∧ (finishPop q1 idx).1.tables = q1.tables
      ∧ (finishPop q1 idx).1.shareCtr = q1.shareCtr ∧ (finishPop q1 idx).1.indirect = q1.indirect
      ∧ (finishPop q1 idx).1.eventIdx = q1.eventIdx ∧ (finishPop q1 idx).1.availFlags = q1.availFlags := by
  unfold finishPop
  dsimp only
  split <;> simp

/-! ### inversion of the top-level operations -/

theorem add_token_inv {q q' : Q} {ins outs : List Buf} {t : Nat} {evs : List Ev}
    (h : q.add ins outs = (q', .token t, evs)) :
    ∃ q1 c evs1, buildChain q ins outs = some (q1, c, evs1) ∧ q' = (publish q1 c).1 ∧ t = c.head
      ∧ evs = evs1 ++ (publish q1 c).2 ∧ ins.length + outs.length ≠ 0
      ∧ addRefused q (ins.length + outs.length) = false := by
  unfold Q.add at h
  split at h
  · simp at h
  · rename_i hk
    split at h
    · simp at h
    · rename_i hr
      split at h
      · simp at h
      · rename_i q1 c evs1 hb
        simp only [Prod.mk.injEq, Res.token.injEq] at h
        exact ⟨q1, c, evs1, hb, h.1.symm, h.2.1.symm, h.2.2.symm, hk, by simpa using hr⟩

theorem add_err_unchanged {q q' : Q} {ins outs : List Buf} {e : Err} {evs : List Ev}
    (h : q.add ins outs = (q', .err e, evs)) : q' = q ∧ evs = [] := by
  unfold Q.add at h
  split at h
  · simp at h; exact ⟨h.1.symm, h.2.2⟩
  · split at h
    · simp at h; exact ⟨h.1.symm, h.2.2⟩
    · split at h <;> simp at h

theorem pop_len_inv {q q' : Q} {tok : Nat} {ins outs : List Buf} {l : Nat} {evs : List Ev}
    (h : q.popUsed tok ins outs = (q', .len l, evs)) :
    ∃ q1 evs1, recycle q tok ins outs = some (q1, evs1) ∧ q' = (finishPop q1 tok).1
      ∧ evs = evs1 ++ (finishPop q1 tok).2 ∧ q.canPop = true ∧ q.usedElem.1 % U16 = tok ∧ l = q.usedElem.2 := by
  unfold Q.popUsed at h
  split at h
  · simp at h
  · rename_i hc
    split at h
    · simp at h
    · rename_i ht
      have ht' : q.usedElem.1 % U16 = tok := by simpa using ht
      rw [ht'] at h
      split at h
      · simp at h
      · rename_i q1 evs1 hr
        simp only [Prod.mk.injEq, Res.len.injEq] at h
        exact ⟨q1, evs1, hr, h.1.symm, h.2.2.symm, by simpa using hc, ht', h.2.1.symm⟩

theorem pop_err_unchanged {q q' : Q} {tok : Nat} {ins outs : List Buf} {e : Err} {evs : List Ev}
    (h : q.popUsed tok ins outs = (q', .err e, evs)) : q' = q ∧ evs = [] := by
  unfold Q.popUsed at h
  split at h
  · simp at h; exact ⟨h.1.symm, h.2.2⟩
  · split at h
    · simp at h; exact ⟨h.1.symm, h.2.2⟩
    · split at h <;> simp at h

end VirtioVerif.Queue
