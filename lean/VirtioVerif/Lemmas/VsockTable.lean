import VirtioVerif.Model.VsockConn
/-!
Lemmas about the connection table of `VsockConnectionManager`: lookup by key (`find?` with
`Conn.hasKey`), in-place update (`updFirst`), `push` (`++ [c]`) and `swap_remove` (`removeSwap`),
and preservation of "no two connections share a key".
-/
namespace VirtioVerif.Lemmas.VsockTable
open VirtioVerif VirtioVerif.Vsock VirtioVerif.VsockConn

/-- no two connections share (peer address, local port) -/
def NoDupKeys (l : List Conn) : Prop := l.Pairwise (fun a b => a.key ≠ b.key)

theorem hasKey_iff (k : Key) (c : Conn) : Conn.hasKey k c = true ↔ c.key = k := by
  cases k
  simp [Conn.hasKey, Conn.key]

theorem hasKey_false_iff (k : Key) (c : Conn) : Conn.hasKey k c = false ↔ c.key ≠ k := by
  rw [Ne, ← hasKey_iff k c]; simp

theorem hasKey_self (c : Conn) : Conn.hasKey c.key c = true := (hasKey_iff _ _).2 rfl

theorem find_some_key {l : List Conn} {k : Key} {c : Conn} (h : l.find? (Conn.hasKey k) = some c) :
    c ∈ l ∧ c.key = k :=
  ⟨List.mem_of_find?_eq_some h, (hasKey_iff k c).1 (List.find?_some h)⟩

theorem find_none_key {l : List Conn} {k : Key} (h : l.find? (Conn.hasKey k) = none) :
    ∀ c ∈ l, c.key ≠ k := by
  intro c hc hk
  have := List.find?_eq_none.1 h c hc
  exact this ((hasKey_iff k c).2 hk)

theorem find_none_of_forall {l : List Conn} {k : Key} (h : ∀ c ∈ l, c.key ≠ k) :
    l.find? (Conn.hasKey k) = none := by
  apply List.find?_eq_none.2
  intro c hc hh
  exact h c hc ((hasKey_iff k c).1 hh)

theorem any_hasKey_iff (l : List Conn) (k : Key) :
    l.any (Conn.hasKey k) = (l.find? (Conn.hasKey k)).isSome := by
  induction l with
  | nil => rfl
  | cons c cs ih =>
    cases hc : Conn.hasKey k c <;> simp [hc, ih]

/-- with distinct keys, lookup is characterised by membership -/
theorem find_eq_some_iff_of_nodup {l : List Conn} (h : NoDupKeys l) (k : Key) (c : Conn) :
    l.find? (Conn.hasKey k) = some c ↔ c ∈ l ∧ c.key = k := by
  refine ⟨find_some_key, ?_⟩
  induction l with
  | nil => intro h; simp at h
  | cons a as ih =>
    have hp := List.pairwise_cons.1 h
    rintro ⟨hm, hk⟩
    rw [List.find?_cons]
    cases ha : Conn.hasKey k a with
    | true =>
      rcases List.mem_cons.1 hm with rfl | hm'
      · rfl
      · exact absurd (((hasKey_iff k a).1 ha).trans hk.symm) (hp.1 c hm')
    | false =>
      rcases List.mem_cons.1 hm with rfl | hm'
      · exact absurd ((hasKey_iff k c).2 hk) (by simp [ha])
      · exact ih hp.2 ⟨hm', hk⟩

theorem NoDupKeys.perm {l₁ l₂ : List Conn} (hp : l₁.Perm l₂) (h : NoDupKeys l₁) : NoDupKeys l₂ :=
  (List.Perm.pairwise_iff (R := fun a b : Conn => a.key ≠ b.key) (fun hab => Ne.symm hab) hp).1 h

/-- lookup does not depend on the order of a table with distinct keys -/
theorem find_perm {l₁ l₂ : List Conn} (hp : l₁.Perm l₂) (h : NoDupKeys l₁) (k : Key) :
    l₁.find? (Conn.hasKey k) = l₂.find? (Conn.hasKey k) := by
  apply Option.ext
  intro c
  rw [find_eq_some_iff_of_nodup h, find_eq_some_iff_of_nodup (h.perm hp), hp.mem_iff]

/-! ### updFirst -/

theorem find_updFirst_other (l : List Conn) (k k' : Key) (f : Conn → Conn) (hk : k' ≠ k)
    (hf : ∀ c, (f c).key = c.key) :
    (updFirst (Conn.hasKey k) f l).find? (Conn.hasKey k') = l.find? (Conn.hasKey k') := by
  induction l with
  | nil => rfl
  | cons c cs ih =>
    unfold updFirst
    cases hc : Conn.hasKey k c with
    | true =>
      have hck : c.key = k := (hasKey_iff k c).1 hc
      have h1 : Conn.hasKey k' c = false := (hasKey_false_iff k' c).2 (by rw [hck]; exact Ne.symm hk)
      have h2 : Conn.hasKey k' (f c) = false :=
        (hasKey_false_iff k' (f c)).2 (by rw [hf, hck]; exact Ne.symm hk)
      simp [h1, h2]
    | false =>
      simp only [Bool.false_eq_true, if_false, List.find?_cons, ih]

theorem find_updFirst_same (l : List Conn) (k : Key) (f : Conn → Conn) (c : Conn)
    (hf : ∀ c, (f c).key = c.key) (h : l.find? (Conn.hasKey k) = some c) :
    (updFirst (Conn.hasKey k) f l).find? (Conn.hasKey k) = some (f c) := by
  induction l with
  | nil => simp at h
  | cons a as ih =>
    unfold updFirst
    rw [List.find?_cons] at h
    cases ha : Conn.hasKey k a with
    | true =>
      rw [ha] at h
      have hac : a = c := by simpa using h
      subst hac
      have h2 : Conn.hasKey k (f a) = true :=
        (hasKey_iff k (f a)).2 (by rw [hf]; exact (hasKey_iff k a).1 ha)
      simp [h2]
    | false =>
      rw [ha] at h
      simp only [Bool.false_eq_true, if_false, List.find?_cons, ha]
      exact ih h

theorem updFirst_none (l : List Conn) (k : Key) (f : Conn → Conn)
    (h : l.find? (Conn.hasKey k) = none) : updFirst (Conn.hasKey k) f l = l := by
  induction l with
  | nil => rfl
  | cons a as ih =>
    unfold updFirst
    rw [List.find?_cons] at h
    cases ha : Conn.hasKey k a with
    | true => rw [ha] at h; simp at h
    | false =>
      rw [ha] at h
      simp only [Bool.false_eq_true, if_false]
      rw [ih h]

theorem mem_updFirst_key {p : Conn → Bool} {f : Conn → Conn} (hf : ∀ c, (f c).key = c.key)
    {l : List Conn} {b : Conn} (hb : b ∈ updFirst p f l) : ∃ b' ∈ l, b'.key = b.key := by
  induction l with
  | nil => simp [updFirst] at hb
  | cons a as ih =>
    unfold updFirst at hb
    cases ha : p a with
    | true =>
      rw [ha] at hb
      simp only [if_true] at hb
      rcases List.mem_cons.1 hb with rfl | hb'
      · exact ⟨a, List.mem_cons_self, (hf a).symm⟩
      · exact ⟨b, List.mem_cons_of_mem _ hb', rfl⟩
    | false =>
      rw [ha] at hb
      simp only [Bool.false_eq_true, if_false] at hb
      rcases List.mem_cons.1 hb with rfl | hb'
      · exact ⟨b, List.mem_cons_self, rfl⟩
      · obtain ⟨b', hm, hk⟩ := ih hb'
        exact ⟨b', List.mem_cons_of_mem _ hm, hk⟩

/-- `updFirst` with a key-preserving update keeps keys distinct (any predicate) -/
theorem nodup_updFirst' (l : List Conn) (p : Conn → Bool) (f : Conn → Conn)
    (hf : ∀ c, (f c).key = c.key) (h : NoDupKeys l) : NoDupKeys (updFirst p f l) := by
  induction l with
  | nil => exact h
  | cons a as ih =>
    have hp := List.pairwise_cons.1 h
    unfold updFirst
    cases ha : p a with
    | true =>
      simp only [if_true]
      refine List.pairwise_cons.2 ⟨?_, hp.2⟩
      intro b hb
      rw [hf]; exact hp.1 b hb
    | false =>
      simp only [Bool.false_eq_true, if_false]
      refine List.pairwise_cons.2 ⟨?_, ih hp.2⟩
      intro b hb
      obtain ⟨b', hm, hk⟩ := mem_updFirst_key hf hb
      rw [← hk]; exact hp.1 b' hm

theorem nodup_updFirst (l : List Conn) (k : Key) (f : Conn → Conn) (hf : ∀ c, (f c).key = c.key)
    (h : NoDupKeys l) : NoDupKeys (updFirst (Conn.hasKey k) f l) :=
  nodup_updFirst' l _ f hf h

theorem length_updFirst (l : List Conn) (p : Conn → Bool) (f : Conn → Conn) :
    (updFirst p f l).length = l.length := by
  induction l with
  | nil => rfl
  | cons a as ih =>
    unfold updFirst
    cases ha : p a <;> simp [ih]

/-! ### push -/

theorem find_append_other (l : List Conn) (c : Conn) (k' : Key) (h : c.key ≠ k') :
    (l ++ [c]).find? (Conn.hasKey k') = l.find? (Conn.hasKey k') := by
  have hc : Conn.hasKey k' c = false := (hasKey_false_iff k' c).2 h
  rw [List.find?_append]
  simp [hc]

theorem find_append_new (l : List Conn) (c : Conn) (h : l.find? (Conn.hasKey c.key) = none) :
    (l ++ [c]).find? (Conn.hasKey c.key) = some c := by
  rw [List.find?_append, h]
  simp [hasKey_self]

theorem nodup_append (l : List Conn) (c : Conn) (h : NoDupKeys l)
    (hn : l.find? (Conn.hasKey c.key) = none) : NoDupKeys (l ++ [c]) := by
  refine List.pairwise_append.2 ⟨h, List.pairwise_singleton _ _, ?_⟩
  intro a ha b hb
  have : b = c := by simpa using hb
  subst this
  exact find_none_key hn a ha

/-! ### swap_remove -/

theorem removeSwap_perm (l : List Conn) (p : Conn → Bool) : (removeSwap p l).Perm (l.eraseP p) := by
  induction l with
  | nil => exact List.Perm.refl _
  | cons a as ih =>
    unfold removeSwap
    cases ha : p a with
    | true =>
      simp only [if_true, List.eraseP_cons_of_pos ha]
      cases hl : as.getLast? with
      | none =>
        have : as = [] := List.getLast?_eq_none_iff.1 hl
        subst this; exact List.Perm.refl _
      | some x =>
        obtain ⟨ys, rfl⟩ := List.getLast?_eq_some_iff.1 hl
        rw [List.dropLast_concat]
        exact (List.perm_append_singleton x ys).symm
    | false =>
      have hna : ¬ p a = true := by simp [ha]
      simp only [Bool.false_eq_true, if_false, List.eraseP_cons_of_neg hna]
      exact ih.cons a

theorem nodup_eraseP (l : List Conn) (p : Conn → Bool) (h : NoDupKeys l) : NoDupKeys (l.eraseP p) :=
  List.Pairwise.sublist List.eraseP_sublist h

/-- `swap_remove` keeps keys distinct (any predicate) -/
theorem nodup_removeSwap' (l : List Conn) (p : Conn → Bool) (h : NoDupKeys l) :
    NoDupKeys (removeSwap p l) :=
  (nodup_eraseP l p h).perm (removeSwap_perm l p).symm

theorem nodup_removeSwap (l : List Conn) (k : Key) (h : NoDupKeys l) :
    NoDupKeys (removeSwap (Conn.hasKey k) l) :=
  nodup_removeSwap' l _ h

theorem find_eraseP_other (l : List Conn) (k k' : Key) (hk : k' ≠ k) :
    (l.eraseP (Conn.hasKey k)).find? (Conn.hasKey k') = l.find? (Conn.hasKey k') := by
  induction l with
  | nil => rfl
  | cons a as ih =>
    cases ha : Conn.hasKey k a with
    | true =>
      have hak : a.key = k := (hasKey_iff k a).1 ha
      have h1 : Conn.hasKey k' a = false := (hasKey_false_iff k' a).2 (by rw [hak]; exact Ne.symm hk)
      rw [List.eraseP_cons_of_pos ha, List.find?_cons, h1]
    | false =>
      have hna : ¬ Conn.hasKey k a = true := by simp [ha]
      rw [List.eraseP_cons_of_neg hna, List.find?_cons, List.find?_cons, ih]

theorem find_eraseP_same (l : List Conn) (k : Key) (h : NoDupKeys l) :
    (l.eraseP (Conn.hasKey k)).find? (Conn.hasKey k) = none := by
  induction l with
  | nil => rfl
  | cons a as ih =>
    have hp := List.pairwise_cons.1 h
    cases ha : Conn.hasKey k a with
    | true =>
      have hak : a.key = k := (hasKey_iff k a).1 ha
      rw [List.eraseP_cons_of_pos ha]
      apply find_none_of_forall
      intro b hb
      rw [← hak]; exact Ne.symm (hp.1 b hb)
    | false =>
      have hna : ¬ Conn.hasKey k a = true := by simp [ha]
      rw [List.eraseP_cons_of_neg hna, List.find?_cons, ha]
      exact ih hp.2

theorem find_removeSwap_other (l : List Conn) (k k' : Key) (hk : k' ≠ k) (h : NoDupKeys l) :
    (removeSwap (Conn.hasKey k) l).find? (Conn.hasKey k') = l.find? (Conn.hasKey k') := by
  rw [find_perm (removeSwap_perm l _) (nodup_removeSwap l k h) k', find_eraseP_other l k k' hk]

theorem find_removeSwap_same (l : List Conn) (k : Key) (h : NoDupKeys l) :
    (removeSwap (Conn.hasKey k) l).find? (Conn.hasKey k) = none := by
  rw [find_perm (removeSwap_perm l _) (nodup_removeSwap l k h) k, find_eraseP_same l k h]

theorem removeSwap_none (l : List Conn) (k : Key) (h : l.find? (Conn.hasKey k) = none) :
    removeSwap (Conn.hasKey k) l = l := by
  induction l with
  | nil => rfl
  | cons a as ih =>
    unfold removeSwap
    rw [List.find?_cons] at h
    cases ha : Conn.hasKey k a with
    | true => rw [ha] at h; simp at h
    | false =>
      rw [ha] at h
      simp only [Bool.false_eq_true, if_false]
      rw [ih h]

/-- pushing a fresh connection and immediately swap-removing it gives the original vector back -/
theorem removeSwap_append_new (l : List Conn) (c : Conn) (h : l.find? (Conn.hasKey c.key) = none) :
    removeSwap (Conn.hasKey c.key) (l ++ [c]) = l := by
  induction l with
  | nil => simp [removeSwap, hasKey_self]
  | cons a as ih =>
    rw [List.find?_cons] at h
    cases ha : Conn.hasKey c.key a with
    | true => rw [ha] at h; simp at h
    | false =>
      rw [ha] at h
      rw [List.cons_append]
      unfold removeSwap
      simp only [ha, Bool.false_eq_true, if_false]
      rw [ih h]

end VirtioVerif.Lemmas.VsockTable
