import VirtioVerif.Model.EvQueue
/-!
Facts about the abstract queue used by the console (C15) and event-queue (C19Drivers) proofs:
the three shapes a queue with at most one chain goes through, under the allocator hypotheses.
-/
namespace VirtioVerif.EvQueue

theorem stack_lifo : Alloc.stack.Lifo := by intro f t; rfl

theorem stack_initSeq : Alloc.stack.InitSeq := by
  intro k m; simp [Alloc.stack, List.range'_succ]

/-- the FIFO policy violates the LIFO hypothesis -/
theorem fifo_not_lifo : ¬ Alloc.fifo.Lifo := by
  intro h
  have := h [5] 7
  simp [Alloc.fifo] at this

/-- The only instance of the LIFO hypothesis the fully stocked event queues need: with *no* other
    free descriptor, the descriptor just freed is the one handed out next. -/
def Alloc.Refill (A : Alloc) : Prop := ∀ t, A.take (A.give [] t) = some (t, [])

theorem Alloc.Lifo.refill {A : Alloc} (h : A.Lifo) : A.Refill := fun t => h [] t

/-- nothing outstanding, and the next `add` will hand out token 0 leaving `rest` -/
structure QIdle (A : Alloc) (n : Nat) (q : AQ) : Prop where
  size : q.size = n
  posted : q.posted = []
  used : q.used = []
  next : A.take q.free = some (0, List.range' 1 (n - 1))

/-- exactly chain `b` is with the device -/
structure QPosted (n : Nat) (q : AQ) (b : Buf) : Prop where
  size : q.size = n
  free : q.free = List.range' 1 (n - 1)
  posted : q.posted = [b]
  used : q.used = []

/-- exactly chain `b` sits in the used ring with reported length `len` -/
structure QUsed (n : Nat) (q : AQ) (b : Buf) (len : Nat) : Prop where
  size : q.size = n
  free : q.free = List.range' 1 (n - 1)
  posted : q.posted = []
  used : q.used = [(b, len)]

theorem init_idle {A : Alloc} (hI : A.InitSeq) {n : Nat} (hn : 1 ≤ n) : QIdle A n (AQ.init n) := by
  refine ⟨rfl, rfl, rfl, ?_⟩
  obtain ⟨m, rfl⟩ : ∃ m, n = m + 1 := ⟨n - 1, by omega⟩
  simpa [AQ.init] using hI 0 m

theorem add_idle {A : Alloc} {n : Nat} {q : AQ} (h : QIdle A n q) (hn : 1 ≤ n)
    (owner cap : Nat) (data : List Nat) (w : Bool) (hcap : cap ≠ 0) :
    ∃ q', q.add A owner cap data w = .ok (0, q') ∧ QPosted n q' ⟨0, owner, cap, data, w⟩ := by
  refine ⟨{ q with free := List.range' 1 (n - 1), posted := q.posted ++ [⟨0, owner, cap, data, w⟩] }, ?_, ?_⟩
  · have : ¬ (q.inUse + 1 > q.size) := by simp [AQ.inUse, h.posted, h.used, h.size]; omega
    simp [AQ.add, this, hcap, h.next]
  · exact ⟨h.size, rfl, by simp [h.posted], h.used⟩

theorem add_idle_cap0 {A : Alloc} {n : Nat} {q : AQ} (h : QIdle A n q) (hn : 1 ≤ n)
    (owner : Nat) (data : List Nat) (w : Bool) :
    q.add A owner 0 data w = .error .panic := by
  have : ¬ (q.inUse + 1 > q.size) := by simp [AQ.inUse, h.posted, h.used, h.size]; omega
  simp [AQ.add, this]

theorem devComplete_posted {n : Nat} {q : AQ} {b : Buf} (h : QPosted n q b) (data : List Nat) (len : Nat) :
    ∃ q', q.devComplete 0 data len = some q'
      ∧ QUsed n q' { b with data := if b.writable then data.take b.cap else b.data } len := by
  refine ⟨{ q with posted := [], used := [({ b with data := if b.writable then data.take b.cap else b.data }, len)] }, ?_, ?_⟩
  · simp [AQ.devComplete, h.posted, h.used]
  · exact ⟨h.size, h.free, rfl, rfl⟩

theorem devComplete_none {q : AQ} (h : q.posted = []) (i : Nat) (data : List Nat) (len : Nat) :
    q.devComplete i data len = none := by
  simp [AQ.devComplete, h]

theorem pop_used {A : Alloc} (hL : A.Lifo) {n : Nat} {q : AQ} {b : Buf} {len : Nat}
    (h : QUsed n q b len) (ht : b.token = 0) :
    ∃ q', q.popUsed A 0 = .ok (len, b, q') ∧ QIdle A n q' := by
  refine ⟨{ q with used := [], free := A.give q.free 0 }, by simp [AQ.popUsed, h.used, ht], ?_⟩
  exact ⟨h.size, h.posted, rfl, by simp [h.free, hL _ _]⟩

theorem peek_used {n : Nat} {q : AQ} {b : Buf} {len : Nat} (h : QUsed n q b len) :
    q.peekUsed = some b.token := by simp [AQ.peekUsed, h.used]

theorem peek_none {q : AQ} (h : q.used = []) : q.peekUsed = none := by simp [AQ.peekUsed, h]

end VirtioVerif.EvQueue
