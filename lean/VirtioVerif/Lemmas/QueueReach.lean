import VirtioVerif.Lemmas.QueuePop
/-!
Histories: every state reachable from a fresh queue by any sequence of driver operations (under
the caller contract of the `unsafe fn`s) and *arbitrary* device writes satisfies the invariant,
and no driver operation in such a history panics.
-/
namespace VirtioVerif.Queue

inductive Op
  | add (ins outs : List Buf)
  | pop (tok : Nat) (ins outs : List Buf)
  | notify (en : Bool)
  -- device writes to the areas it owns: any values at any time (writes to driver-owned areas are
  -- treated in `Props/C07.lean` by non-interference)
  | devUsed (id len : Nat)
  | devUsedIdx (v : Nat)
  | devUsedElem (slot id len : Nat)
  | devUsedFlags (v : Nat)
  | devAvailEvent (v : Nat)

def step (q : Q) : Op → Q × Res
  | .add ins outs => let r := q.add ins outs; (r.1, r.2.1)
  | .pop tok ins outs => let r := q.popUsed tok ins outs; (r.1, r.2.1)
  | .notify en => ((q.setDevNotify en).1, .unit)
  | .devUsed id len => (q.devUsed id len, .unit)
  | .devUsedIdx v => (q.devSetUsedIdx v, .unit)
  | .devUsedElem s id len => (q.devSetUsedElem s id len, .unit)
  | .devUsedFlags v => (q.devSetUsedFlags v, .unit)
  | .devAvailEvent v => (q.devSetAvailEvent v, .unit)

/-- the caller contract of the `unsafe fn`s, per operation; device writes are unconstrained -/
def OpOk (q : Q) : Op → Prop
  | .add ins outs => ∀ b ∈ ins ++ outs, b.len ≠ 0
  | .pop tok ins outs => PopContract q tok ins outs
  | _ => True

def run : Q → List Op → Q
  | q, [] => q
  | q, op :: ops => run (step q op).1 ops

/-- every operation of the history respects the caller contract in the state it is issued in -/
def AllOk : Q → List Op → Prop
  | _, [] => True
  | q, op :: ops => OpOk q op ∧ AllOk (step q op).1 ops

/-! ### the fresh queue satisfies the invariant -/

theorem init_get (n : Nat) (i e a : Bool) (j : Nat) (hj : j < n) :
    (Q.init n i e a).get j = { next := if j + 1 < n then j + 1 else 0 } := by
  simp [Q.get, Q.init, Array.getD_eq_getD_getElem?, hj]

theorem linked_range' (f : Nat → Nat) : ∀ (len s : Nat), (∀ j, s ≤ j → j + 1 < s + len → f j = j + 1) →
    Linked f s (List.range' s len) := by
  intro len
  induction len with
  | zero => intro s _; simp [Linked]
  | succ k ih =>
    intro s hf
    simp only [List.range'_succ, Linked, true_and]
    cases k with
    | zero => simp [Linked]
    | succ k' =>
      rw [hf s (Nat.le_refl s) (by omega)]
      exact ih (s + 1) (fun j h1 h2 => hf j (by omega) (by omega))

theorem inv_init (n : Nat) (i e a : Bool) (hn : 0 < n) (hle : n ≤ 32768) : Inv (Q.init n i e a) := by
  show InvO (Q.init n i e a) []
  constructor
  · exact hn
  · exact hle
  · simp [Q.init]
  · simp [Q.init]
  · simp [Q.init]
  · rfl
  · refine ⟨List.range' 0 n, ?_, ?_, ?_, ?_⟩
    · show Linked _ 0 _
      apply linked_range'
      intro j _ h2
      simp only [Q.nextFn]
      rw [init_get n i e a j (by omega)]
      simp; omega
    · simp [chainDescs, List.nodup_range']
    · intro x hx
      simp [chainDescs, List.mem_range'] at hx
      show x < n
      omega
    · simp [chainDescs]; rfl
  · intro c hc; simp at hc
  · intro j hj _
    have hj' : j < n := hj
    simp [Q.init, Array.getD_eq_getD_getElem?, hj']

/-! ### every reachable state -/

theorem step_inv (q : Q) (op : Op) (h : Inv q) (hok : OpOk q op) :
    Inv (step q op).1 ∧ (step q op).2 ≠ .panic := by
  cases op with
  | add ins outs => exact add_inv q ins outs h hok
  | pop tok ins outs => exact pop_inv q h tok ins outs hok
  | notify en =>
    refine ⟨?_, by simp [step]⟩
    show Inv (q.setDevNotify en).1
    unfold Q.setDevNotify
    dsimp only
    split
    · exact dev_inv q _ h rfl rfl rfl rfl rfl rfl rfl rfl
    · exact h
  | devUsed id len => exact ⟨dev_inv q _ h rfl rfl rfl rfl rfl rfl rfl rfl, by simp [step]⟩
  | devUsedIdx v => exact ⟨dev_inv q _ h rfl rfl rfl rfl rfl rfl rfl rfl, by simp [step]⟩
  | devUsedElem s id len => exact ⟨dev_inv q _ h rfl rfl rfl rfl rfl rfl rfl rfl, by simp [step]⟩
  | devUsedFlags v => exact ⟨dev_inv q _ h rfl rfl rfl rfl rfl rfl rfl rfl, by simp [step]⟩
  | devAvailEvent v => exact ⟨dev_inv q _ h rfl rfl rfl rfl rfl rfl rfl rfl, by simp [step]⟩

theorem run_inv : ∀ (ops : List Op) (q : Q), Inv q → AllOk q ops → Inv (run q ops) := by
  intro ops
  induction ops with
  | nil => intro q h _; exact h
  | cons op ops ih =>
    intro q h hok
    exact ih _ (step_inv q op h hok.1).1 hok.2

/-- results of the successive operations of a history -/
def results : Q → List Op → List Res
  | _, [] => []
  | q, op :: ops => (step q op).2 :: results (step q op).1 ops

theorem run_no_panic : ∀ (ops : List Op) (q : Q), Inv q → AllOk q ops → Res.panic ∉ results q ops := by
  intro ops
  induction ops with
  | nil => intro q _ _; simp [results]
  | cons op ops ih =>
    intro q h hok
    obtain ⟨h1, h2⟩ := step_inv q op h hok.1
    simp only [results, List.mem_cons, not_or]
    exact ⟨fun e => h2 e.symm, ih _ h1 hok.2⟩

end VirtioVerif.Queue
