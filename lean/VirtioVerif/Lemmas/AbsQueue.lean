import VirtioVerif.Model.AbsQueue
/-!
Invariant and step lemmas of the abstract queue, shared by the driver-level property files.
-/
namespace VirtioVerif.AbsQueue

/-- well-formedness: tokens of outstanding chains are distinct and `< size`; every published
    completion belongs to an outstanding chain, at most one per chain, with the chain's shape -/
structure WF (q : Q) : Prop where
  outNodup : (q.out.map (·.1)).Nodup
  usedNodup : (q.used.map (·.tok)).Nodup
  usedOut : ∀ d ∈ q.used, ∃ c, (d.tok, c) ∈ q.out ∧ d.data.map List.length = c.wr
  tokLt : ∀ p ∈ q.out, p.1 < q.size

theorem wf_init (n : Nat) (ind : Bool) : WF (Q.init n ind) :=
  ⟨by simp [Q.init], by simp [Q.init], by simp [Q.init], by simp [Q.init]⟩

theorem hasTok_false {q : Q} {t : Nat} (h : q.hasTok t = false) : t ∉ q.out.map (·.1) := by
  simp only [Q.hasTok, List.any_eq_false] at h
  intro hm
  rcases List.mem_map.1 hm with ⟨p, hp, rfl⟩
  exact h p hp (by simp)

/-- what a successful `add` does -/
theorem add_ok {q q' : Q} {tok : Nat} {c : Chain} (h : q.add tok c = .ok q') :
    q' = { q with out := q.out ++ [(tok, c)] } ∧ c.segs ≠ 0 ∧ q.full c.segs = false
      ∧ tok < q.size ∧ q.hasTok tok = false := by
  unfold Q.add at h
  split at h; · cases h
  split at h; · cases h
  split at h; · cases h
  split at h; · cases h
  rename_i h1 h2 h3 h4
  simp only [Bool.or_eq_true, decide_eq_true_eq, not_or, Nat.not_le, Bool.not_eq_true] at h4
  injection h with h
  exact ⟨h.symm, h1, by simpa using h2, h4.1, h4.2⟩

theorem wf_add {q q' : Q} {tok : Nat} {c : Chain} (hw : WF q) (h : q.add tok c = .ok q') : WF q' := by
  obtain ⟨rfl, _, _, hlt, hfresh⟩ := add_ok h
  have hnot := hasTok_false hfresh
  refine ⟨?_, hw.usedNodup, ?_, ?_⟩
  · simp only [List.map_append, List.map_cons, List.map_nil]
    rw [List.nodup_append]
    refine ⟨hw.outNodup, by simp, ?_⟩
    intro a ha b hb
    simp at hb; subst hb
    intro hab; subst hab; exact hnot ha
  · intro d hd
    obtain ⟨c', hc, hs⟩ := hw.usedOut d hd
    exact ⟨c', by simp [hc], hs⟩
  · intro p hp
    simp only [List.mem_append, List.mem_singleton] at hp
    rcases hp with hp | rfl
    · exact hw.tokLt p hp
    · exact hlt

/-- what a device completion does: it appends exactly the device's record -/
theorem complete_some {q q' : Q} {d : Done} (h : q.complete d = some q') :
    q' = { q with used := q.used ++ [d] } ∧ (∃ c, (d.tok, c) ∈ q.out ∧ d.data.map List.length = c.wr)
      ∧ d.tok ∉ q.used.map (·.tok) := by
  unfold Q.complete at h
  split at h; · cases h
  rename_i t c hf
  split at h; · cases h
  split at h; · cases h
  rename_i hu hs
  injection h with h
  refine ⟨h.symm, ⟨c, ?_, by simpa using hs⟩, ?_⟩
  · have hm := List.mem_of_find?_eq_some hf
    have hp := List.find?_some hf
    simp at hp; subst hp; exact hm
  · simp only [Bool.not_eq_true, List.any_eq_false, beq_iff_eq] at hu
    intro hm
    rcases List.mem_map.1 hm with ⟨u, hu', he⟩
    exact hu u hu' he

theorem wf_complete {q q' : Q} {d : Done} (hw : WF q) (h : q.complete d = some q') : WF q' := by
  obtain ⟨rfl, ⟨c, hc, hs⟩, hn⟩ := complete_some h
  refine ⟨hw.outNodup, ?_, ?_, hw.tokLt⟩
  · simp only [List.map_append, List.map_cons, List.map_nil]
    rw [List.nodup_append]
    refine ⟨hw.usedNodup, by simp, ?_⟩
    intro a ha b hb
    simp at hb; subst hb
    intro hab; subst hab; exact hn ha
  · intro d' hd'
    simp only [List.mem_append, List.mem_singleton] at hd'
    rcases hd' with hd' | rfl
    · exact hw.usedOut d' hd'
    · exact ⟨c, hc, hs⟩

/-- what a successful `pop` does: it returns the head of the used ring, whose token is the one
    asked for, and removes that chain -/
theorem pop_ok {q q' : Q} {tok : Nat} {d : Done} (h : q.pop tok = .ok (q', d)) :
    d.tok = tok ∧ q.used = d :: q'.used ∧ q'.out = q.out.filter (fun p => p.1 != tok)
      ∧ q'.size = q.size ∧ q'.indirect = q.indirect := by
  unfold Q.pop at h
  split at h; · cases h
  rename_i d0 rest hu
  split at h; · cases h
  rename_i ht
  injection h with h
  injection h with h1 h2
  subst h1 h2
  simp at ht
  exact ⟨ht, by simp [hu], rfl, rfl, rfl⟩

theorem pop_notReady {q : Q} {tok : Nat} : q.pop tok = .error .notReady ↔ q.used = [] := by
  unfold Q.pop
  split
  · simp [*]
  · rename_i d rest hu
    split <;> simp [hu]

/-- `pop` of a token that is not at the head of the used ring: `WrongToken`, nothing changes
    (an error carries no new state) -/
theorem pop_wrong {q : Q} {tok : Nat} {d : Done} {rest : List Done} (hu : q.used = d :: rest)
    (hne : d.tok ≠ tok) : q.pop tok = .error .wrongToken := by
  unfold Q.pop
  simp [hu, hne]

theorem pop_head {q : Q} {d : Done} {rest : List Done} (hu : q.used = d :: rest) :
    q.pop d.tok = .ok ({ q with out := q.out.filter (fun p => p.1 != d.tok), used := rest }, d) := by
  unfold Q.pop
  simp [hu]

theorem wf_pop {q q' : Q} {tok : Nat} {d : Done} (hw : WF q) (h : q.pop tok = .ok (q', d)) : WF q' := by
  obtain ⟨rfl, hu, ho, hsz, _⟩ := pop_ok h
  have hnd := hw.usedNodup
  rw [hu] at hnd
  simp only [List.map_cons, List.nodup_cons] at hnd
  refine ⟨?_, hnd.2, ?_, ?_⟩
  · rw [ho]
    exact (hw.outNodup.sublist ((List.filter_sublist).map _))
  · intro d' hd'
    have hd'' : d' ∈ q.used := by rw [hu]; exact List.mem_cons_of_mem _ hd'
    obtain ⟨c, hc, hs⟩ := hw.usedOut d' hd''
    refine ⟨c, ?_, hs⟩
    rw [ho, List.mem_filter]
    refine ⟨hc, ?_⟩
    have : d'.tok ≠ d.tok := by
      intro he
      exact hnd.1 (List.mem_map.2 ⟨d', hd', he⟩)
    simpa using this
  · intro p hp
    rw [ho, List.mem_filter] at hp
    rw [hsz]; exact hw.tokLt p hp.1

/-- In a well-formed queue the record returned by `pop tok` is *the* record the device published
    for `tok`: no other published completion carries that token. -/
theorem pop_own {q q' : Q} {tok : Nat} {d : Done} (hw : WF q) (h : q.pop tok = .ok (q', d)) :
    d ∈ q.used ∧ d.tok = tok ∧ ∀ d' ∈ q.used, d'.tok = tok → d' = d := by
  obtain ⟨ht, hu, _⟩ := pop_ok h
  refine ⟨by rw [hu]; simp, ht, ?_⟩
  intro d' hd' ht'
  have hnd := hw.usedNodup
  rw [hu] at hnd hd'
  simp only [List.map_cons, List.nodup_cons] at hnd
  rcases List.mem_cons.1 hd' with rfl | hm
  · rfl
  · exact absurd (List.mem_map.2 ⟨d', hm, by rw [ht', ht]⟩) hnd.1

/-- the device completes the records `ds` one after the other (any order, any subset) -/
def Q.completeAll (q : Q) : List Done → Option Q
  | [] => some q
  | d :: ds => (q.complete d).bind fun q' => q'.completeAll ds

/-- the driver pops the given tokens one after the other; stops at the first error -/
def Q.popAll (q : Q) : List Nat → Except Err (Q × List Done)
  | [] => .ok (q, [])
  | t :: ts =>
    match q.pop t with
    | .error e => .error e
    | .ok (q', d) =>
      match q'.popAll ts with
      | .error e => .error e
      | .ok (q'', ds) => .ok (q'', d :: ds)

theorem completeAll_used {q q' : Q} {ds : List Done} (h : q.completeAll ds = some q') :
    q'.used = q.used ++ ds ∧ q'.out = q.out ∧ q'.size = q.size ∧ q'.indirect = q.indirect := by
  induction ds generalizing q with
  | nil => simp [Q.completeAll] at h; subst h; simp
  | cons d ds ih =>
    simp only [Q.completeAll, Option.bind_eq_some_iff] at h
    obtain ⟨q1, h1, h2⟩ := h
    obtain ⟨rfl, _, _⟩ := complete_some h1
    obtain ⟨a, b, c, e⟩ := ih h2
    exact ⟨by simp [a], b, c, e⟩

theorem wf_completeAll {q q' : Q} {ds : List Done} (hw : WF q) (h : q.completeAll ds = some q') : WF q' := by
  induction ds generalizing q with
  | nil => simp [Q.completeAll] at h; subst h; exact hw
  | cons d ds ih =>
    simp only [Q.completeAll, Option.bind_eq_some_iff] at h
    obtain ⟨q1, h1, h2⟩ := h
    exact ih (wf_complete hw h1) h2

theorem popAll_used (q : Q) (ds : List Done) (rest : List Done) (hu : q.used = ds ++ rest) :
    ∃ q', q.popAll (ds.map (·.tok)) = .ok (q', ds) ∧ q'.used = rest
      ∧ q'.out = q.out.filter (fun p => !(ds.map (·.tok)).contains p.1) := by
  induction ds generalizing q with
  | nil => exact ⟨q, by simp [Q.popAll], by simpa using hu, (List.filter_eq_self.2 (by simp)).symm⟩
  | cons d ds ih =>
    have hu' : q.used = d :: (ds ++ rest) := by simpa using hu
    have hp := pop_head hu'
    obtain ⟨q', h1, h2, h3⟩ := ih { q with out := q.out.filter (fun p => p.1 != d.tok), used := ds ++ rest } rfl
    refine ⟨q', ?_, h2, ?_⟩
    · simp only [List.map_cons, Q.popAll, hp, h1]
    · rw [h3]
      simp only [List.filter_filter, List.map_cons]
      congr 1
      funext p
      rw [List.contains_cons]
      by_cases hpd : p.1 = d.tok
      · simp [hpd]
      · have : (p.1 == d.tok) = false := by simpa using hpd
        simp [this, bne, Bool.and_comm]

/-- **Any completion order.** Starting with an empty used ring, let the device complete any
    records `ds` (any subset of the outstanding chains, in any order, with any lengths and data).
    Popping the tokens in used-ring order then succeeds and returns exactly the device's records,
    each under its own token; the used ring is empty again and exactly those chains are gone. -/
theorem any_order {q q1 : Q} {ds : List Done} (hu : q.used = []) (h : q.completeAll ds = some q1) :
    ∃ q2, q1.popAll (ds.map (·.tok)) = .ok (q2, ds) ∧ q2.used = []
      ∧ q2.out = q.out.filter (fun p => !(ds.map (·.tok)).contains p.1) := by
  obtain ⟨a, b, _, _⟩ := completeAll_used h
  obtain ⟨q2, h1, h2, h3⟩ := popAll_used q1 ds [] (by simp [a, hu])
  exact ⟨q2, h1, h2, by rw [h3, b]⟩

/-- `add` panics only on an empty buffer -/
theorem add_panic {q : Q} {tok : Nat} {c : Chain} (h : q.add tok c = .error .panic) :
    (c.rd.any (·.isEmpty) || c.wr.any (· == 0)) = true := by
  unfold Q.add at h
  split at h; · cases h
  split at h; · cases h
  split at h
  · assumption
  · split at h <;> cases h

/-- a token names one chain -/
theorem out_unique {q : Q} (hw : WF q) {t : Nat} {c1 c2 : Chain} (h1 : (t, c1) ∈ q.out) (h2 : (t, c2) ∈ q.out) :
    c1 = c2 := by
  have hn := hw.outNodup
  generalize q.out = l at h1 h2 hn
  induction l with
  | nil => cases h1
  | cons p l ih =>
    simp only [List.map_cons, List.nodup_cons] at hn
    rcases List.mem_cons.1 h1 with e1 | m1 <;> rcases List.mem_cons.1 h2 with e2 | m2
    · rw [← e1] at e2; exact (Prod.mk.inj e2).2.symm ▸ rfl
    · exact absurd (List.mem_map.2 ⟨(t, c2), m2, by rw [← e1]⟩) hn.1
    · exact absurd (List.mem_map.2 ⟨(t, c1), m1, by rw [← e2]⟩) hn.1
    · exact ih m1 m2 hn.2

/-- an outstanding chain stays exactly as submitted until its own token is popped -/
theorem out_persist_add {q q' : Q} {t tok : Nat} {c c' : Chain} (hm : (t, c) ∈ q.out)
    (h : q.add tok c' = .ok q') : (t, c) ∈ q'.out := by
  obtain ⟨rfl, _⟩ := add_ok h
  simp [hm]

theorem out_persist_complete {q q' : Q} {t : Nat} {c : Chain} {d : Done} (hm : (t, c) ∈ q.out)
    (h : q.complete d = some q') : (t, c) ∈ q'.out := by
  obtain ⟨rfl, _⟩ := complete_some h
  exact hm

theorem out_persist_pop {q q' : Q} {t tok : Nat} {c : Chain} {d : Done} (hm : (t, c) ∈ q.out)
    (hne : t ≠ tok) (h : q.pop tok = .ok (q', d)) : (t, c) ∈ q'.out := by
  obtain ⟨_, _, ho, _⟩ := pop_ok h
  rw [ho, List.mem_filter]
  exact ⟨hm, by simpa using hne⟩

/-- the record popped for a token has the shape of the chain submitted under that token -/
theorem pop_shape {q q' : Q} {tok : Nat} {c : Chain} {d : Done} (hw : WF q) (hm : (tok, c) ∈ q.out)
    (h : q.pop tok = .ok (q', d)) : d.data.map List.length = c.wr := by
  obtain ⟨hd, ht, _⟩ := pop_own hw h
  obtain ⟨c', hc', hs⟩ := hw.usedOut d hd
  rw [ht] at hc'
  rw [out_unique hw hm hc']; exact hs

/-! ### capacity -/

/-- `num_used` never exceeds the queue size -/
def Cap (q : Q) : Prop := q.numUsed ≤ q.size

theorem cap_init (n : Nat) (ind : Bool) : Cap (Q.init n ind) := by simp [Cap, Q.init, Q.numUsed]

theorem numUsed_append (q : Q) (tok : Nat) (c : Chain) :
    ({ q with out := q.out ++ [(tok, c)] } : Q).numUsed = q.numUsed + cost q.indirect c := by
  simp [Q.numUsed]

theorem cost_le (ind : Bool) (c : Chain) : cost ind c ≤ c.segs ∧ (ind = true → cost ind c ≤ 1) := by
  unfold cost
  by_cases h : 1 < c.segs <;> cases ind <;> simp [h] <;> omega

theorem cap_add {q q' : Q} {tok : Nat} {c : Chain} (hc : Cap q) (h : q.add tok c = .ok q') : Cap q' := by
  obtain ⟨rfl, _, hf, _, _⟩ := add_ok h
  simp only [Cap, numUsed_append]
  simp only [Q.full, Bool.or_eq_false_iff, decide_eq_false_iff_not, Nat.not_lt, Bool.and_eq_false_iff,
    Bool.not_eq_false] at hf
  obtain ⟨⟨h1, h2⟩, h3⟩ := hf
  have hcl := cost_le q.indirect c
  cases hi : q.indirect with
  | true => have := hcl.2 hi; simp only [hi] at this ⊢; omega
  | false =>
    rcases h3 with h3 | h3
    · simp [hi] at h3
    · have := hcl.1; simp only [hi] at this ⊢; omega

theorem cap_complete {q q' : Q} {d : Done} (hc : Cap q) (h : q.complete d = some q') : Cap q' := by
  obtain ⟨rfl, _⟩ := complete_some h
  exact hc

theorem sum_filter_le (l : List (Nat × Chain)) (f : Nat × Chain → Nat) (p : Nat × Chain → Bool) :
    ((l.filter p).map f).sum ≤ (l.map f).sum := by
  induction l with
  | nil => simp
  | cons a l ih =>
    simp only [List.filter_cons]
    split <;> simp <;> omega

theorem cap_pop {q q' : Q} {tok : Nat} {d : Done} (hc : Cap q) (h : q.pop tok = .ok (q', d)) : Cap q' := by
  obtain ⟨_, _, ho, hs, hi⟩ := pop_ok h
  simp only [Cap, Q.numUsed, ho, hs, hi]
  exact Nat.le_trans (sum_filter_le _ _ _) hc

/-- readiness: `available_desc() >= 2` holds exactly when a two-buffer chain would not be refused
    with `QueueFull` -/
theorem availableDesc_two (q : Q) (hc : Cap q) : decide (2 ≤ q.availableDesc) = !q.full 2 := by
  unfold Cap at hc
  unfold Q.availableDesc Q.full
  cases hi : q.indirect <;> simp only [Bool.false_eq_true, if_false, if_true, Bool.not_true, Bool.not_false,
    Bool.false_and, Bool.true_and, Bool.or_false]
  · by_cases h : 2 ≤ q.size - q.numUsed
    · have : ¬ q.size < q.numUsed + 1 ∧ ¬ q.size < 2 ∧ ¬ q.size < q.numUsed + 2 := by omega
      simp [h, this]
    · have : q.size < q.numUsed + 2 := by omega
      simp [h, this]
  · by_cases he : q.numUsed = q.size
    · have : q.size < q.numUsed + 1 := by omega
      simp [he]
    · by_cases h2 : 2 ≤ q.size
      · have : ¬ q.size < q.numUsed + 1 ∧ ¬ q.size < 2 := by omega
        simp [he, h2, this]
      · have : q.size < 2 := by omega
        simp [he, h2, this]

end VirtioVerif.AbsQueue
