import VirtioVerif.Model.Queue
import VirtioVerif.Lemmas.QueueFrame
/-!
What `add` / `pop_used` emit: platform (share/unshare) events and device-visible stores, in order.
-/
namespace VirtioVerif.Queue

def halOf : Ev → Option HalEv
  | .hal h => some h
  | .st _ => none

def storeOf : Ev → Option Store
  | .st s => some s
  | .hal _ => none

def hals (evs : List Ev) : List HalEv := evs.filterMap halOf
def stores (evs : List Ev) : List Store := evs.filterMap storeOf

@[simp] theorem hals_append (a b : List Ev) : hals (a ++ b) = hals a ++ hals b := by simp [hals]
@[simp] theorem stores_append (a b : List Ev) : stores (a ++ b) = stores a ++ stores b := by simp [stores]
@[simp] theorem hals_nil : hals [] = [] := rfl
@[simp] theorem stores_nil : stores [] = [] := rfl
@[simp] theorem hals_cons_hal (h : HalEv) (l : List Ev) : hals (.hal h :: l) = h :: hals l := by simp [hals, halOf]
@[simp] theorem hals_cons_st (s : Store) (l : List Ev) : hals (.st s :: l) = hals l := by
  simp [hals, List.filterMap_cons, halOf]
@[simp] theorem stores_cons_hal (h : HalEv) (l : List Ev) : stores (.hal h :: l) = stores l := by
  simp [stores, List.filterMap_cons, storeOf]
@[simp] theorem stores_cons_st (s : Store) (l : List Ev) : stores (.st s :: l) = s :: stores l := by simp [stores, storeOf]

/-- the share events `add` must emit for the caller's buffers: one per buffer, in order, with its
identity, length and direction, numbered from the platform's share counter -/
def expectedShares (ctr : Nat) : Nat → List (Buf × Bool) → List HalEv
  | _, [] => []
  | i, (b, w) :: rest => .share (ctr + i) b w :: expectedShares ctr (i + 1) rest

theorem hals_shareEvs (ctr : Nat) (bufs : List (Buf × Bool)) : ∀ i,
    hals (shareEvs ctr i bufs) = expectedShares ctr i bufs := by
  induction bufs with
  | nil => intro i; rfl
  | cons bw rest ih => intro i; obtain ⟨b, w⟩ := bw; simp [shareEvs, expectedShares, ih]

theorem stores_shareEvs (ctr : Nat) (bufs : List (Buf × Bool)) : ∀ i, stores (shareEvs ctr i bufs) = [] := by
  induction bufs with
  | nil => intro i; rfl
  | cons bw rest ih => intro i; obtain ⟨b, w⟩ := bw; simp [shareEvs, ih]

theorem expectedShares_length (ctr : Nat) (bufs : List (Buf × Bool)) : ∀ i,
    (expectedShares ctr i bufs).length = bufs.length := by
  induction bufs with
  | nil => intro i; rfl
  | cons bw rest ih => intro i; obtain ⟨b, w⟩ := bw; simp [expectedShares, ih]

theorem expectedShares_shift (ctr : Nat) (bufs : List (Buf × Bool)) : ∀ i,
    expectedShares (ctr + 1) i bufs = expectedShares ctr (i + 1) bufs := by
  induction bufs with
  | nil => intro i; rfl
  | cons bw rest ih =>
    intro i; obtain ⟨b, w⟩ := bw
    simp only [expectedShares, ih]
    congr 2
    omega

/-- the loop of `add_direct` emits exactly one share per buffer, in order -/
theorem addDirectLoop_hals (bufs : List (Buf × Bool)) :
    ∀ (q : Q) (last : Nat) (taken : List Nat) (evs : List Ev) (q' : Q) (last' : Nat) (taken' : List Nat)
      (evs' : List Ev),
      addDirectLoop q last taken bufs evs = some (q', last', taken', evs') →
      hals evs' = hals evs ++ expectedShares q.shareCtr 0 bufs ∧ q'.shareCtr = q.shareCtr + bufs.length := by
  induction bufs with
  | nil =>
    intro q last taken evs q' last' taken' evs' h
    simp [addDirectLoop] at h
    obtain ⟨h1, _, _, h4⟩ := h
    subst h1 h4
    simp [expectedShares]
  | cons bw rest ih =>
    intro q last taken evs q' last' taken' evs' h
    obtain ⟨b, w⟩ := bw
    simp only [addDirectLoop] at h
    split at h
    · simp at h
    · split at h
      · simp at h
      · have := ih _ _ _ _ _ _ _ _ h
        obtain ⟨h1, h2⟩ := this
        simp only [Q.writeDesc, Q.setShadow] at h1 h2
        constructor
        · rw [h1]
          simp [expectedShares, expectedShares_shift]
        · rw [h2]; simp; omega

/-- every store of the `add_direct` loop is a descriptor store -/
def isDescStore : Store → Bool
  | .desc _ _ => true
  | _ => false

theorem addDirectLoop_stores (bufs : List (Buf × Bool)) :
    ∀ (q : Q) (last : Nat) (taken : List Nat) (evs : List Ev) (r : Q × Nat × List Nat × List Ev),
      addDirectLoop q last taken bufs evs = some r →
      (∀ s ∈ stores evs, isDescStore s = true) → ∀ s ∈ stores r.2.2.2, isDescStore s = true := by
  induction bufs with
  | nil =>
    intro q last taken evs r h hs
    simp [addDirectLoop] at h
    subst h; exact hs
  | cons bw rest ih =>
    intro q last taken evs r h hs
    obtain ⟨b, w⟩ := bw
    simp only [addDirectLoop] at h
    split at h
    · simp at h
    · split at h
      · simp at h
      · refine ih _ _ _ _ _ h ?_
        intro s hsm
        simp only [Q.writeDesc, stores_append, stores_cons_hal, stores_cons_st, stores_nil,
          List.mem_append, List.mem_singleton] at hsm
        rcases hsm with hsm | hsm
        · exact hs s hsm
        · subst hsm; rfl

/-- events of a successful chain construction: exactly the shares of the caller's buffers (plus the
indirect table, shared last and device-readable), and only descriptor stores -/
theorem buildChain_events (q : Q) (ins outs : List Buf) (q1 : Q) (c : Chain) (evs : List Ev)
    (h : buildChain q ins outs = some (q1, c, evs)) :
    (hals evs = expectedShares q.shareCtr 0 (tagBufs ins outs) ++
        (match c.table with
         | some tid => [HalEv.shareTable tid (16 * (tagBufs ins outs).length)]
         | none => []))
      ∧ (∀ s ∈ stores evs, isDescStore s = true)
      ∧ c.firstShare = q.shareCtr := by
  unfold buildChain at h
  split at h
  · -- indirect
    unfold addIndirect at h
    simp only at h
    split at h
    · simp at h
    · split at h
      · simp at h
      · split at h
        · simp at h
        · simp only [Option.some.injEq, Prod.mk.injEq] at h
          obtain ⟨_, h2, h3⟩ := h
          subst h2 h3
          refine ⟨?_, ?_, rfl⟩
          · simp [hals_shareEvs, Q.writeDesc]
          · intro s hs
            simp [stores_shareEvs, Q.writeDesc] at hs
            subst hs; rfl
  · unfold addDirect at h
    split at h
    · simp at h
    · rename_i q2 last taken evs2 hl
      simp only at h
      split at h
      · simp at h
      · split at h
        · simp at h
        · simp only [Option.some.injEq, Prod.mk.injEq] at h
          obtain ⟨_, h2, h3⟩ := h
          subst h2 h3
          obtain ⟨e1, _⟩ := addDirectLoop_hals _ _ _ _ _ _ _ _ _ hl
          have e2 := addDirectLoop_stores _ _ _ _ _ _ hl (by simp)
          refine ⟨?_, ?_, rfl⟩
          · simp [e1, Q.writeDesc]
          · intro s hs
            simp only [Q.writeDesc, stores_append, stores_cons_st, stores_nil, List.mem_append,
              List.mem_singleton] at hs
            rcases hs with hs | hs
            · exact e2 s hs
            · subst hs; rfl

/-! ### pop_used -/

def unshareBuf : HalEv → Option (Buf × Bool)
  | .unshare _ b w => some (b, w)
  | _ => none

def isUnshare : HalEv → Bool
  | .unshare .. => true
  | .unshareTable .. => true
  | _ => false

theorem recycleLoop_hals (bufs : List (Buf × Bool)) :
    ∀ (q : Q) (orig : Nat) (next : Option Nat) (evs : List Ev) (r : Q × Option Nat × List Ev),
      recycleLoop q orig next bufs evs = some r →
      (hals r.2.2).filterMap unshareBuf = (hals evs).filterMap unshareBuf ++ bufs
        ∧ ((∀ h ∈ hals evs, isUnshare h = true) → ∀ h ∈ hals r.2.2, isUnshare h = true)
        ∧ ((∀ s ∈ stores evs, isDescStore s = true) → ∀ s ∈ stores r.2.2, isDescStore s = true) := by
  induction bufs with
  | nil =>
    intro q orig next evs r h
    simp [recycleLoop] at h
    subst h
    simp
  | cons bw rest ih =>
    intro q orig next evs r h
    obtain ⟨b, w⟩ := bw
    simp only [recycleLoop] at h
    split at h
    · simp at h
    · split at h
      · simp at h
      · split at h
        · simp at h
        · split at h
          · simp at h
          · obtain ⟨h1, h2, h3⟩ := ih _ _ _ _ _ h
            refine ⟨?_, ?_, ?_⟩
            · rw [h1]; simp [Q.writeDesc, unshareBuf]
            · intro hh
              apply h2
              intro x hx
              simp only [Q.writeDesc, hals_append, hals_cons_st, hals_cons_hal, hals_nil, List.mem_append,
                List.mem_singleton] at hx
              rcases hx with hx | hx
              · exact hh x hx
              · subst hx; rfl
            · intro hh
              apply h3
              intro x hx
              simp only [Q.writeDesc, stores_append, stores_cons_st, stores_cons_hal, stores_nil,
                List.mem_append, List.mem_singleton] at hx
              rcases hx with hx | hx
              · exact hh x hx
              · subst hx; rfl

theorem unshareEvs_hals (bufs : List (Buf × Bool)) : ∀ (t : List Desc) (l : List Ev),
    unshareEvs t bufs = some l →
      (hals l).filterMap unshareBuf = bufs ∧ (∀ h ∈ hals l, isUnshare h = true) ∧ stores l = [] := by
  induction bufs with
  | nil => intro t l h; simp [unshareEvs] at h; subst h; exact ⟨rfl, by simp, rfl⟩
  | cons bw rest ih =>
    intro t l h
    obtain ⟨b, w⟩ := bw
    unfold unshareEvs at h
    split at h
    · simp at h
    · split at h
      · simp at h
      · rename_i d t'
        cases hr : unshareEvs t' rest with
        | none => simp [hr] at h
        | some l' =>
          simp [hr] at h
          subst h
          obtain ⟨h1, h2, h3⟩ := ih _ _ hr
          refine ⟨by simp [unshareBuf, h1], ?_, by simp [h3]⟩
          intro x hx
          simp at hx
          rcases hx with hx | hx
          · subst hx; rfl
          · exact h2 x hx

/-- a successful `recycle_descriptors` unshares exactly the caller's buffers, each once, in order,
with the direction of its role (plus, first, the indirect table if the chain used one); it emits
nothing but unshares and descriptor stores -/
theorem recycle_events (q : Q) (head : Nat) (ins outs : List Buf) (q1 : Q) (evs : List Ev)
    (h : recycle q head ins outs = some (q1, evs)) :
    (hals evs).filterMap unshareBuf = tagBufs ins outs
      ∧ (∀ x ∈ hals evs, isUnshare x = true)
      ∧ (∀ s ∈ stores evs, isDescStore s = true) := by
  unfold recycle at h
  split at h
  · simp at h
  · split at h
    · unfold recycleIndirect at h
      split at h
      · simp at h
      · split at h
        · simp at h
        · split at h
          · simp at h
          · split at h
            · simp at h
            · rename_i l hl
              simp only [Option.some.injEq, Prod.mk.injEq] at h
              obtain ⟨_, h2⟩ := h
              subst h2
              obtain ⟨a, b, c⟩ := unshareEvs_hals _ _ _ hl
              refine ⟨by simp [List.filterMap_cons, unshareBuf, a], ?_, by simp [c]⟩
              intro x hx
              simp at hx
              rcases hx with hx | hx
              · subst hx; rfl
              · exact b x hx
    · unfold recycleDirect at h
      split at h
      · simp at h
      · rename_i q2 next evs2 hl
        split at h
        · simp at h
        · simp only [Option.some.injEq, Prod.mk.injEq] at h
          obtain ⟨_, h2⟩ := h
          subst h2
          obtain ⟨a, b, c⟩ := recycleLoop_hals _ _ _ _ _ _ hl
          exact ⟨by simpa using a, b (by simp), c (by simp)⟩

end VirtioVerif.Queue
