import VirtioVerif.Model.Vsock
namespace VirtioVerif.Lemmas.VsockRing
open VirtioVerif VirtioVerif.Vsock

theorem mod_lt2 (x c : Nat) (h : x < 2 * c) : x % c = if x < c then x else x - c := by
  split
  · exact Nat.mod_eq_of_lt (by assumption)
  · rw [Nat.mod_eq_sub_mod (by omega)]
    exact Nat.mod_eq_of_lt (by omega)

theorem writeAt_spec (buf data : List Byte) (pos : Nat) (h : pos + data.length ≤ buf.length) :
    ∃ b, Ring.writeAt? buf pos data = some b ∧ b.length = buf.length ∧
      ∀ j, b[j]? = if pos ≤ j ∧ j < pos + data.length then data[j - pos]? else buf[j]? := by
  refine ⟨buf.take pos ++ data ++ buf.drop (pos + data.length), by simp only [Ring.writeAt?, if_pos h], ?_, ?_⟩
  · simp only [List.length_append, List.length_take, List.length_drop]; omega
  · intro j
    simp only [List.getElem?_append, List.length_append, List.length_take,
      List.getElem?_take, List.getElem?_drop]
    have hm : min pos buf.length = pos := by omega
    rw [hm]
    by_cases h1 : j < pos
    · have : ¬ (pos ≤ j ∧ j < pos + data.length) := by omega
      simp [h1, this]
      intro h3; omega
    · by_cases h2 : j < pos + data.length
      · simp [h1, h2]
      · have : ¬ (pos ≤ j ∧ j < pos + data.length) := by omega
        simp only [this, if_false]
        have : ¬ (j < pos + data.length) := h2
        simp only [this, if_false]
        congr 1
        omega

theorem contents_length (r : Ring) : r.contents.length = r.used := by
  simp [Ring.contents]

theorem contents_getElem? (r : Ring) (i : Nat) :
    r.contents[i]? = if i < r.used then some (r.buf[(r.start + i) % r.cap]?.getD default) else none := by
  simp only [Ring.contents, List.getElem?_map]
  split <;> simp_all


theorem new_wf (c : Nat) (h0 : 0 < c) (h1 : c < U32) :
    (Ring.new c).Wf ∧ (Ring.new c).cap = c ∧ (Ring.new c).used = 0 ∧ (Ring.new c).contents = [] := by
  refine ⟨⟨?_, ?_, ?_, ?_⟩, ?_, ?_, ?_⟩ <;> simp [Ring.new, Ring.cap, Ring.contents] <;> assumption

theorem add_spec (r : Ring) (h : r.Wf) (bytes : List Byte) (hb : bytes.length ≤ r.free) :
    ∃ b1 b2 : List Byte, r.add? bytes = some ({ buf := b2, used := r.used + bytes.length, start := r.start }, true)
      ∧ b1.length = r.cap ∧ b2.length = r.cap
      ∧ (∀ j, b1[j]? = if (r.start + r.used) % r.cap ≤ j ∧
            j < (r.start + r.used) % r.cap + min bytes.length (r.cap - (r.start + r.used) % r.cap)
          then bytes[j - (r.start + r.used) % r.cap]? else r.buf[j]?)
      ∧ (∀ j, b2[j]? = if j < bytes.length - min bytes.length (r.cap - (r.start + r.used) % r.cap)
          then bytes[min bytes.length (r.cap - (r.start + r.used) % r.cap) + j]? else b1[j]?) := by
  obtain ⟨hc0, hc1, hu, hs⟩ := h
  have hfa : (r.start + r.used) % r.cap < r.cap := Nat.mod_lt _ hc0
  simp only [Ring.free] at hb
  generalize hfae : (r.start + r.used) % r.cap = fa at *
  generalize hke : min bytes.length (r.cap - fa) = k at *
  have hk1 : k ≤ bytes.length := by omega
  have hk2 : fa + k ≤ r.cap := by omega
  obtain ⟨b1, e1, l1, g1⟩ := writeAt_spec r.buf (bytes.take k) fa
    (by simp only [List.length_take, Ring.cap] at *; omega)
  obtain ⟨b2, e2, l2, g2⟩ := writeAt_spec b1 (bytes.drop k) 0
    (by simp only [List.length_drop, Ring.cap] at *; omega)
  refine ⟨b1, b2, ?_, l1, l2.trans l1, ?_, ?_⟩
  · have hU : (8589934592:Nat) < USIZE := by decide
    simp only [U32] at hc1
    simp only [Ring.add?, hfae, hke, e1, e2]
    rw [if_neg (by omega), if_neg (by omega), if_neg (by omega), if_neg (by omega), if_neg (by omega),
      if_neg (by omega)]
  · intro j
    rw [g1 j]
    simp only [List.length_take, List.getElem?_take]
    have : min k bytes.length = k := by omega
    rw [this]
    split
    · rw [if_pos (by omega)]
    · rfl
  · intro j
    rw [g2 j]
    simp only [List.length_drop, List.getElem?_drop, Nat.zero_add, Nat.sub_zero, Nat.zero_le, true_and]


theorem some_getD {α} (x : Option α) (y d : α) (h : x = some y) : x = some (x.getD d) := by
  rw [h]; rfl

/-- panic-freedom of `add` on well-formed rings -/
theorem add?_some (r : Ring) (h : r.Wf) (bytes : List Byte) : r.add? bytes = some (r.add bytes) := by
  by_cases hb : bytes.length ≤ r.free
  · obtain ⟨b1, b2, e, _⟩ := add_spec r h bytes hb
    exact some_getD _ _ _ e
  · apply some_getD _ (r, false)
    have := h.used_le
    simp only [Ring.free] at hb
    simp only [Ring.add?]
    rw [if_neg (by omega), if_pos (by omega)]

theorem add_full (r : Ring) (bytes : List Byte) (h : bytes.length > r.free) : r.add bytes = (r, false) := by
  simp only [Ring.add, Ring.add?, Ring.free] at *
  by_cases h1 : r.cap < r.used
  · rw [if_pos h1]; rfl
  · rw [if_neg h1, if_pos h]; rfl

theorem add_ok (r : Ring) (h : r.Wf) (bytes : List Byte) (hb : bytes.length ≤ r.free) :
    (r.add bytes).2 = true ∧ (r.add bytes).1.Wf ∧ (r.add bytes).1.cap = r.cap
      ∧ (r.add bytes).1.used = r.used + bytes.length ∧ (r.add bytes).1.start = r.start
      ∧ (r.add bytes).1.contents = r.contents ++ bytes := by
  obtain ⟨b1, b2, e, l1, l2, g1, g2⟩ := add_spec r h bytes hb
  have ea : r.add bytes = ({ buf := b2, used := r.used + bytes.length, start := r.start }, true) := by
    simp only [Ring.add, e]; rfl
  rw [ea]
  obtain ⟨hc0, hc1, hu, hs⟩ := h
  simp only [Ring.free] at hb
  refine ⟨rfl, ⟨?_, ?_, ?_, ?_⟩, l2, rfl, rfl, ?_⟩
  · show 0 < b2.length
    omega
  · show b2.length < U32
    omega
  · show r.used + bytes.length ≤ b2.length
    omega
  · show r.start < b2.length
    omega
  · apply List.ext_getElem?
    intro i
    rw [contents_getElem?, List.getElem?_append, contents_length, contents_getElem?]
    show (if i < r.used + bytes.length then some (b2[(r.start + i) % b2.length]?.getD default) else none) = _
    rw [l2, g2, g1]
    have hfa := mod_lt2 (r.start + r.used) r.cap (by omega)
    generalize (r.start + r.used) % r.cap = fa at *
    generalize hk : min bytes.length (r.cap - fa) = k at *
    by_cases hi : i < r.used + bytes.length
    · have hp := mod_lt2 (r.start + i) r.cap (by omega)
      generalize (r.start + i) % r.cap = p at *
      rw [if_pos hi]
      by_cases hi2 : i < r.used
      · rw [if_pos hi2, if_pos hi2, if_neg (by split at hfa <;> split at hp <;> omega),
          if_neg (by split at hfa <;> split at hp <;> omega)]
      · rw [if_neg hi2]
        have hlt : i - r.used < bytes.length := by omega
        rw [List.getElem?_eq_getElem hlt]
        split
        · rw [List.getElem?_eq_getElem (by omega)]
          simp only [Option.getD_some]
          congr 2
          split at hfa <;> split at hp <;> omega
        · rw [if_pos (by split at hfa <;> split at hp <;> omega),
            List.getElem?_eq_getElem (by split at hfa <;> split at hp <;> omega)]
          simp only [Option.getD_some]
          congr 2
          split at hfa <;> split at hp <;> omega
    · rw [if_neg hi, if_neg (by omega), List.getElem?_eq_none (by omega)]


theorem drain_spec (r : Ring) (h : r.Wf) (n : Nat) :
    r.drain? n = some ({ r with used := r.used - min r.used n, start := (r.start + min r.used n) % r.cap },
      (r.buf.drop r.start).take (min (min r.used n) (r.cap - r.start))
        ++ r.buf.take (min r.used n - min (min r.used n) (r.cap - r.start))) := by
  obtain ⟨hc0, hc1, hu, hs⟩ := h
  have hU : (8589934592:Nat) < USIZE := by decide
  simp only [U32] at hc1
  simp only [Ring.drain?]
  have hm : min r.used n ≤ r.used := Nat.min_le_left _ _
  generalize min r.used n = m at *
  generalize hb : min m (r.cap - r.start) = before at *
  rw [if_neg (by omega), if_neg (by omega), if_neg (by omega), if_neg (by omega), if_neg (by omega),
    if_neg (by omega), if_neg (by omega)]

/-- panic-freedom of `drain` on well-formed rings -/
theorem drain?_some (r : Ring) (h : r.Wf) (n : Nat) : r.drain? n = some (r.drain n) :=
  some_getD _ _ _ (drain_spec r h n)


theorem drain_eq (r : Ring) (h : r.Wf) (n : Nat) :
    (r.drain n).2 = r.contents.take n ∧ (r.drain n).1.contents = r.contents.drop n
      ∧ (r.drain n).1.Wf ∧ (r.drain n).1.cap = r.cap ∧ (r.drain n).1.used = r.used - min r.used n
      ∧ (r.drain n).2.length = min r.used n := by
  have ed := drain?_some r h n
  rw [drain_spec r h n] at ed
  rw [← Option.some.inj ed]
  clear ed
  obtain ⟨hc0, hc1, hu, hs⟩ := h
  have hmlt : (r.start + min r.used n) % r.cap < r.cap := Nat.mod_lt _ hc0
  refine ⟨?_, ?_, ⟨hc0, hc1, ?_, hmlt⟩, rfl, rfl, ?_⟩
  · apply List.ext_getElem?
    intro i
    simp only [Ring.cap] at *
    simp only [List.getElem?_append, List.length_take, List.length_drop, List.getElem?_take,
      List.getElem?_drop, contents_getElem?, Ring.cap]
    have hp := mod_lt2 (r.start + i) r.buf.length
    generalize (r.start + i) % r.buf.length = p at *
    by_cases h1 : i < n
    · rw [if_pos h1]
      by_cases h2 : i < r.used
      · rw [if_pos h2]
        have hp' := hp (by omega)
        rw [List.getElem?_eq_getElem (l := r.buf) (i := p) (by split at hp' <;> omega)]
        simp only [Option.getD_some]
        by_cases h3 : r.start + i < r.buf.length
        · rw [if_pos (by omega), if_pos (by omega), List.getElem?_eq_getElem (by omega)]
          congr 2
          split at hp' <;> omega
        · rw [if_neg (by omega), if_pos (by omega), List.getElem?_eq_getElem (by omega)]
          congr 2
          split at hp' <;> omega
      · rw [if_neg h2]
        split
        · rw [if_neg (by omega)]
        · rw [if_neg (by omega)]
    · rw [if_neg h1]
      split
      · rw [if_neg (by omega)]
      · rw [if_neg (by omega)]
  · apply List.ext_getElem?
    intro i
    rw [List.getElem?_drop, contents_getElem?, contents_getElem?]
    show (if i < r.used - min r.used n then
        some (r.buf[((r.start + min r.used n) % r.cap + i) % r.cap]?.getD default) else none) = _
    by_cases h1 : i < r.used - min r.used n
    · have : min r.used n = n := by omega
      rw [if_pos h1, if_pos (by omega), Nat.mod_add_mod, this, Nat.add_assoc]
    · rw [if_neg h1, if_neg (by omega)]
  · show r.used - min r.used n ≤ r.cap
    omega
  · simp only [List.length_append, List.length_take, List.length_drop, Ring.cap] at *
    omega

/-- capacity 0 (excluded by `Wf`): `drain` always panics (`% 0`), `add` of an empty slice panics -/
theorem cap0_drain_panics (r : Ring) (h : r.cap = 0) (hs : r.start = 0) (n : Nat) : r.drain? n = none := by
  simp [Ring.drain?, h, hs]

theorem cap0_add_empty_panics (r : Ring) (h : r.cap = 0) (hu : r.used = 0) (hs : r.start = 0) :
    r.add? [] = none := by
  simp [Ring.add?, h, hu, hs]

end VirtioVerif.Lemmas.VsockRing
