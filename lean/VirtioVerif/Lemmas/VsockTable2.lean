import VirtioVerif.Lemmas.VsockTable
/-! `updFirst` lemmas for updates that need to preserve the key only on the connection they hit. -/
namespace VirtioVerif.Lemmas.VsockTable
open VirtioVerif VirtioVerif.Vsock VirtioVerif.VsockConn

theorem updFirst_congr (p : Conn → Bool) (f g : Conn → Conn) (l : List Conn)
    (h : ∀ c, p c = true → f c = g c) : updFirst p f l = updFirst p g l := by
  induction l with
  | nil => rfl
  | cons a as ih =>
    unfold updFirst
    cases ha : p a with
    | true => simp [h a ha]
    | false => simp [ih]

/-- restrict an update to the connections with key `k` -/
def onKey (k : Key) (f : Conn → Conn) (c : Conn) : Conn := if Conn.hasKey k c then f c else c

theorem onKey_key (k : Key) (f : Conn → Conn) (hf : ∀ c, c.key = k → (f c).key = k) (c : Conn) :
    (onKey k f c).key = c.key := by
  unfold onKey
  cases h : Conn.hasKey k c with
  | true => simp; rw [hf c ((hasKey_iff k c).1 h), (hasKey_iff k c).1 h]
  | false => simp

theorem updFirst_onKey (k : Key) (f : Conn → Conn) (l : List Conn) :
    updFirst (Conn.hasKey k) f l = updFirst (Conn.hasKey k) (onKey k f) l :=
  updFirst_congr _ _ _ l (fun c hc => by simp [onKey, hc])

theorem find_updFirst_other_k (l : List Conn) (k k' : Key) (f : Conn → Conn) (hk : k' ≠ k)
    (hf : ∀ c, c.key = k → (f c).key = k) :
    (updFirst (Conn.hasKey k) f l).find? (Conn.hasKey k') = l.find? (Conn.hasKey k') := by
  rw [updFirst_onKey]; exact find_updFirst_other l k k' _ hk (onKey_key k f hf)

theorem find_updFirst_same_k (l : List Conn) (k : Key) (f : Conn → Conn) (c : Conn)
    (hf : ∀ c, c.key = k → (f c).key = k) (h : l.find? (Conn.hasKey k) = some c) :
    (updFirst (Conn.hasKey k) f l).find? (Conn.hasKey k) = some (f c) := by
  rw [updFirst_onKey, find_updFirst_same l k _ c (onKey_key k f hf) h]
  have := (find_some_key h).2
  simp [onKey, (hasKey_iff k c).2 this]

theorem nodup_updFirst_k (l : List Conn) (k : Key) (f : Conn → Conn)
    (hf : ∀ c, c.key = k → (f c).key = k) (h : NoDupKeys l) :
    NoDupKeys (updFirst (Conn.hasKey k) f l) := by
  rw [updFirst_onKey]; exact nodup_updFirst l k _ (onKey_key k f hf) h

end VirtioVerif.Lemmas.VsockTable
