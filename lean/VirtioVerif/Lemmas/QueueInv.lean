import VirtioVerif.Model.Queue
import VirtioVerif.Lemmas.Linked
import VirtioVerif.Lemmas.QueueFrame
/-!
The structural invariant of the split virtqueue driver state and its preservation by `add`.
-/
namespace VirtioVerif.Queue

def Q.nextFn (q : Q) : Nat → Nat := fun i => (q.get i).next

/-- device-visible copy of descriptor `i` -/
def Q.dv (q : Q) (i : Nat) : Desc := q.descTable.getD i default

def chainDescs (out : List Chain) : List Nat := out.flatMap (·.descs)

/-! ### array helpers -/

theorem get_setShadow (q : Q) (i j : Nat) (d : Desc) (hi : i < q.shadow.size) :
    (q.setShadow i d).get j = if j = i then d else q.get j := by
  simp only [Q.get, Q.setShadow, Array.getD_eq_getD_getElem?, Array.getElem?_setIfInBounds]
  by_cases h : i = j
  · subst h; simp [hi]
  · simp [h, Ne.symm h]

theorem vis_writeDesc (q : Q) (i j : Nat) (hi : i < q.descTable.size) :
    (q.writeDesc i).1.dv j = if j = i then q.get i else q.dv j := by
  simp only [Q.dv, Q.writeDesc, Array.getD_eq_getD_getElem?, Array.getElem?_setIfInBounds]
  by_cases h : i = j
  · subst h; simp [hi]
  · simp [h, Ne.symm h]

theorem get_writeDesc (q : Q) (i j : Nat) : (q.writeDesc i).1.get j = q.get j := rfl

/-! ### what descriptors say about buffers -/

/-- descriptors `ds` (shadow and device-visible copy) encode the buffers `bs`, share ids from `s` -/
def EncOk (q : Q) : Nat → List Nat → List (Buf × Bool) → Prop
  | _, [], [] => True
  | s, d :: ds, (b, w) :: bs =>
      (q.get d).addr = shareAddr s ∧ (q.get d).len = b.len
      ∧ (q.get d).flags = (if ds.isEmpty then 0 else fNEXT) ||| (if w then fWRITE else 0)
      ∧ q.dv d = q.get d
      ∧ EncOk q (s + 1) ds bs
  | _, _, _ => False

/-- as `EncOk`, but every descriptor still has NEXT set (state inside the `add_direct` loop) -/
def EncLoop (q : Q) : Nat → List Nat → List (Buf × Bool) → Prop
  | _, [], [] => True
  | s, d :: ds, (b, w) :: bs =>
      (q.get d).addr = shareAddr s ∧ (q.get d).len = b.len
      ∧ (q.get d).flags = fNEXT ||| (if w then fWRITE else 0)
      ∧ q.dv d = q.get d
      ∧ EncLoop q (s + 1) ds bs
  | _, _, _ => False

theorem encOk_congr (q q' : Q) (s : Nat) (ds : List Nat) (bs : List (Buf × Bool))
    (h : ∀ d ∈ ds, q'.get d = q.get d ∧ q'.dv d = q.dv d) : EncOk q' s ds bs ↔ EncOk q s ds bs := by
  induction ds generalizing s bs with
  | nil => cases bs <;> simp [EncOk]
  | cons d ds ih =>
    cases bs with
    | nil => simp [EncOk]
    | cons bw bs =>
      obtain ⟨b, w⟩ := bw
      simp only [EncOk]
      rw [(h d (by simp)).1, (h d (by simp)).2, ih _ _ (fun x hx => h x (by simp [hx]))]

theorem encLoop_congr (q q' : Q) (s : Nat) (ds : List Nat) (bs : List (Buf × Bool))
    (h : ∀ d ∈ ds, q'.get d = q.get d ∧ q'.dv d = q.dv d) : EncLoop q' s ds bs ↔ EncLoop q s ds bs := by
  induction ds generalizing s bs with
  | nil => cases bs <;> simp [EncLoop]
  | cons d ds ih =>
    cases bs with
    | nil => simp [EncLoop]
    | cons bw bs =>
      obtain ⟨b, w⟩ := bw
      simp only [EncLoop]
      rw [(h d (by simp)).1, (h d (by simp)).2, ih _ _ (fun x hx => h x (by simp [hx]))]

theorem encOk_length (q : Q) (s : Nat) (ds : List Nat) (bs : List (Buf × Bool)) (h : EncOk q s ds bs) :
    ds.length = bs.length := by
  induction ds generalizing s bs with
  | nil => cases bs <;> simp_all [EncOk]
  | cons d ds ih =>
    cases bs with
    | nil => simp [EncOk] at h
    | cons bw bs => obtain ⟨b, w⟩ := bw; simp only [EncOk] at h; simp [ih _ _ h.2.2.2.2]

/-! ### the invariant -/

def ChainOk (q : Q) (c : Chain) : Prop :=
  match c.table with
  | none => c.descs ≠ [] ∧ Linked q.nextFn c.head c.descs
      ∧ EncOk q c.firstShare c.descs (tagBufs c.ins c.outs)
  | some tid =>
      c.descs = [c.head] ∧ tid = c.firstShare + (tagBufs c.ins c.outs).length
      ∧ 1 < (tagBufs c.ins c.outs).length
      ∧ (q.get c.head).addr = shareAddr tid ∧ (q.get c.head).len = 16 * (tagBufs c.ins c.outs).length
      ∧ (q.get c.head).flags = fINDIRECT ∧ q.dv c.head = q.get c.head
      ∧ q.indirectLists.getD c.head none = some (mkTable c.firstShare 0 (tagBufs c.ins c.outs))

/-- the invariant, with the list of outstanding chains explicit -/
structure InvO (q : Q) (out : List Chain) : Prop where
  npos : 0 < q.n
  nle : q.n ≤ 32768
  szS : q.shadow.size = q.n
  szD : q.descTable.size = q.n
  szI : q.indirectLists.size = q.n
  numUsed : q.numUsed = (chainDescs out).length
  free : ∃ free, Linked q.nextFn q.freeHead free ∧ (free ++ chainDescs out).Nodup
      ∧ (∀ x ∈ free ++ chainDescs out, x < q.n) ∧ (free ++ chainDescs out).length = q.n
  chains : ∀ c ∈ out, ChainOk q c
  stale : ∀ i, i < q.n → (∀ c ∈ out, c.table.isSome → c.head ≠ i) → q.indirectLists.getD i none = none

def Inv (q : Q) : Prop := InvO q q.out

/-- `ChainOk` only looks at the chain's own descriptors, its table entry and `tables` -/
theorem chainOk_congr (q q' : Q) (c : Chain)
    (hg : ∀ d ∈ c.descs, q'.get d = q.get d ∧ q'.dv d = q.dv d)
    (hn : ∀ d ∈ c.descs, q'.nextFn d = q.nextFn d)
    (hi : q'.indirectLists.getD c.head none = q.indirectLists.getD c.head none)
    (h : ChainOk q c) : ChainOk q' c := by
  unfold ChainOk at *
  cases hc : c.table with
  | none =>
    rw [hc] at h
    simp only at h ⊢
    obtain ⟨h1, h2, h3⟩ := h
    exact ⟨h1, (linked_congr _ _ _ _ hn).mpr h2, (encOk_congr q q' _ _ _ hg).mpr h3⟩
  | some tid =>
    rw [hc] at h
    simp only at h ⊢
    obtain ⟨h1, h2, h3, h4, h5, h6, h7, h8⟩ := h
    have hm : c.head ∈ c.descs := by rw [h1]; simp
    obtain ⟨e1, e2⟩ := hg c.head hm
    exact ⟨h1, h2, h3, by rw [e1]; exact h4, by rw [e1]; exact h5, by rw [e1]; exact h6,
      by rw [e1, e2]; exact h7, by rw [hi]; exact h8⟩

/-! ### the `add_direct` loop -/

theorem addDirectLoop_spec (bufs : List (Buf × Bool)) :
    ∀ (q : Q) (last : Nat) (taken : List Nat) (evs : List Ev) (free : List Nat),
      q.shadow.size = q.n → q.descTable.size = q.n →
      Linked q.nextFn q.freeHead free → free.Nodup → (∀ x ∈ free, x < q.n) →
      bufs.length ≤ free.length → (∀ bw ∈ bufs, bw.1.len ≠ 0) →
      ∃ q' last' evs',
        addDirectLoop q last taken bufs evs = some (q', last', taken ++ free.take bufs.length, evs')
        ∧ q'.nextFn = q.nextFn
        ∧ q'.freeHead = after q.nextFn q.freeHead (free.take bufs.length)
        ∧ q'.shadow.size = q.n ∧ q'.descTable.size = q.n
        ∧ Frame q q'
        ∧ q'.numUsed = q.numUsed ∧ q'.indirectLists = q.indirectLists ∧ q'.tables = q.tables
        ∧ q'.shareCtr = q.shareCtr + bufs.length
        ∧ (∀ j, j ∉ free.take bufs.length → q'.get j = q.get j ∧ q'.dv j = q.dv j)
        ∧ EncLoop q' q.shareCtr (free.take bufs.length) bufs
        ∧ last' = ((free.take bufs.length).getLast?).getD last := by
  induction bufs with
  | nil =>
    intro q last taken evs free hs hd hl hn hlt hk hz
    exact ⟨q, last, evs, by simp [addDirectLoop], rfl, by simp [after], hs, hd, Frame.refl q, rfl, rfl, rfl,
      by simp, by simp, by simp [EncLoop], by simp⟩
  | cons bw rest ih =>
    intro q last taken evs free hs hd hl hn hlt hk hz
    obtain ⟨b, w⟩ := bw
    match free, hk, hl, hn, hlt with
    | a :: fr, hk, hl, hn, hlt =>
      obtain ⟨hfa, hrest⟩ := hl
      have ha : a < q.n := hlt a (by simp)
      have hfh : ¬ q.n ≤ q.freeHead := by rw [hfa]; omega
      have hb0 : b.len ≠ 0 := hz (b, w) (by simp)
      have hnd := List.nodup_cons.mp hn
      -- the state after one iteration
      let d' : Desc := { addr := shareAddr q.shareCtr, len := b.len,
                         flags := fNEXT ||| (if w then fWRITE else 0), next := (q.get q.freeHead).next }
      let q1 : Q := { (q.setShadow q.freeHead d') with freeHead := (q.get q.freeHead).next, shareCtr := q.shareCtr + 1 }
      let q2 : Q := (q1.writeDesc q.freeHead).1
      have hs1 : q.freeHead < q.shadow.size := by rw [hs, hfa]; exact ha
      have hget2 : ∀ j, q2.get j = if j = q.freeHead then d' else q.get j := by
        intro j
        show (q.setShadow q.freeHead d').get j = _
        exact get_setShadow q q.freeHead j d' hs1
      have hn2 : q2.nextFn = q.nextFn := by
        funext j
        simp only [Q.nextFn, hget2 j]
        split
        · rename_i e; subst e; rfl
        · rfl
      have hsz2 : q2.shadow.size = q2.n ∧ q2.descTable.size = q2.n := by
        constructor
        · show (q.shadow.setIfInBounds _ _).size = q.n; simp [hs]
        · show (q.descTable.setIfInBounds _ _).size = q.n; simp [hd]
      have hdv2 : ∀ j, q2.dv j = if j = q.freeHead then d' else q.dv j := by
        intro j
        have h1 := vis_writeDesc q1 q.freeHead j (by show q.freeHead < q.descTable.size; rw [hd, hfa]; exact ha)
        rw [show q2.dv j = (q1.writeDesc q.freeHead).1.dv j from rfl, h1]
        have : q1.get q.freeHead = d' := by
          show (q.setShadow q.freeHead d').get q.freeHead = d'
          rw [get_setShadow q q.freeHead q.freeHead d' hs1]; simp
        rw [this]
        rfl
      have hfree2 : q2.freeHead = q.nextFn a := by show (q.get q.freeHead).next = _; rw [hfa]; rfl
      obtain ⟨q', last', evs', h1, h2, h3, h4, h5, h6, h7, h8, h9, h10, h11, h12, h13⟩ :=
        ih q2 q.freeHead (taken ++ [q.freeHead]) (evs ++ [.hal (.share q.shareCtr b w), (q1.writeDesc q.freeHead).2]) fr
          hsz2.1 hsz2.2 (by rw [hn2, hfree2]; exact hrest) hnd.2
          (fun x hx => hlt x (by simp [hx])) (by simpa using hk)
          (fun bw hbw => hz bw (by simp [hbw]))
      refine ⟨q', last', evs', ?_, ?_, ?_, ?_, ?_, ?_, ?_, ?_, ?_, ?_, ?_, ?_, ?_⟩
      · simp only [addDirectLoop, hb0, hfh, if_false]
        simp only [List.length_cons, List.take_succ_cons]
        rw [show taken ++ a :: List.take rest.length fr = (taken ++ [q.freeHead]) ++ List.take rest.length fr by
          rw [hfa]; simp]
        exact h1
      · rw [h2, hn2]
      · rw [h3, hn2, hfree2]; simp [after, hfa]
      · exact h4
      · exact h5
      · exact Frame.trans (by constructor <;> rfl) h6
      · rw [h7]; rfl
      · rw [h8]; rfl
      · rw [h9]; rfl
      · rw [h10]; show q.shareCtr + 1 + rest.length = _; simp; omega
      · intro j hj
        simp only [List.length_cons, List.take_succ_cons, List.mem_cons, not_or] at hj
        obtain ⟨e1, e2⟩ := h11 j hj.2
        have hja : j ≠ q.freeHead := by rw [hfa]; exact hj.1
        rw [e1, e2, hget2 j, hdv2 j]
        simp [hja]
      · simp only [List.length_cons, List.take_succ_cons, EncLoop]
        have hanot : a ∉ List.take rest.length fr := fun hm => hnd.1 (List.mem_of_mem_take hm)
        obtain ⟨e1, e2⟩ := h11 a hanot
        have ea : q2.get a = d' := by rw [hget2 a]; simp [hfa]
        have eda : q2.dv a = d' := by rw [hdv2 a]; simp [hfa]
        refine ⟨by rw [e1, ea], by rw [e1, ea], by rw [e1, ea], by rw [e1, e2, ea, eda], ?_⟩
        exact h12
      · rw [h13]
        simp only [List.length_cons, List.take_succ_cons]
        cases hr : List.take rest.length fr with
        | nil => simp [hfa]
        | cons x xs =>
          obtain ⟨y, hy⟩ : ∃ y, (x :: xs).getLast? = some y := by
            cases h : (x :: xs).getLast? with
            | none => simp at h
            | some y => exact ⟨y, rfl⟩
          simp [List.getLast?_cons_cons, hy]

/-! ### `add_direct` preserves the invariant -/

theorem clearNext_flags (w : Bool) : clearNext (fNEXT ||| (if w then fWRITE else 0)) = 0 ||| (if w then fWRITE else 0) := by
  cases w <;> decide

/-- clearing NEXT on the last descriptor of a duplicate-free list turns the loop encoding into the
final encoding -/
theorem encOk_of_encLoop (q1 q3 : Q) (last : Nat) : ∀ (ds : List Nat) (s : Nat) (bs : List (Buf × Bool)),
    ds.Nodup → ds.getLast? = some last → EncLoop q1 s ds bs →
    (∀ j, j ≠ last → q3.get j = q1.get j ∧ q3.dv j = q1.dv j) →
    q3.get last = { q1.get last with flags := clearNext (q1.get last).flags } → q3.dv last = q3.get last →
    EncOk q3 s ds bs := by
  intro ds
  induction ds with
  | nil => intro s bs _ hl; simp at hl
  | cons d ds ih =>
    intro s bs hnd hl he hj hlast hdv
    cases bs with
    | nil => simp [EncLoop] at he
    | cons bw bs =>
      obtain ⟨b, w⟩ := bw
      simp only [EncLoop] at he
      obtain ⟨e1, e2, e3, e4, e5⟩ := he
      cases ds with
      | nil =>
        simp at hl
        subst hl
        cases bs with
        | cons _ _ => simp [EncLoop] at e5
        | nil =>
          simp only [EncOk, List.isEmpty_nil, if_true]
          rw [hlast]
          refine ⟨e1, e2, ?_, ?_, trivial⟩
          · simp only [e3]; exact clearNext_flags w
          · rw [hdv, hlast]
      | cons d2 ds' =>
        have hl' : (d2 :: ds').getLast? = some last := by simpa [List.getLast?_cons_cons] using hl
        have hnd' := List.nodup_cons.mp hnd
        have hdl : d ≠ last := by
          intro e
          exact hnd'.1 (e ▸ List.mem_of_getLast? hl')
        obtain ⟨g1, g2⟩ := hj d hdl
        simp only [EncOk, List.isEmpty_cons, Bool.false_eq_true, if_false]
        refine ⟨by rw [g1]; exact e1, by rw [g1]; exact e2, by rw [g1]; exact e3, by rw [g1, g2]; exact e4, ?_⟩
        exact ih _ _ hnd'.2 hl' e5 hj hlast hdv

theorem chainDescs_append (a b : List Chain) : chainDescs (a ++ b) = chainDescs a ++ chainDescs b := by
  simp [chainDescs]

theorem mem_chainDescs {out : List Chain} {c : Chain} (hc : c ∈ out) {d : Nat} (hd : d ∈ c.descs) :
    d ∈ chainDescs out := by
  simp only [chainDescs, List.mem_flatMap]
  exact ⟨c, hc, hd⟩

theorem tagBufs_length (ins outs : List Buf) : (tagBufs ins outs).length = ins.length + outs.length := by
  simp [tagBufs]

theorem tagBufs_len_ne (ins outs : List Buf) (h : ∀ b ∈ ins ++ outs, b.len ≠ 0) :
    ∀ bw ∈ tagBufs ins outs, bw.1.len ≠ 0 := by
  intro bw hbw
  simp only [tagBufs, List.mem_append, List.mem_map] at hbw
  rcases hbw with ⟨b, hb, e⟩ | ⟨b, hb, e⟩ <;> subst e <;> exact h b (by simp [hb])

theorem addDirect_inv (q : Q) (out : List Chain) (ins outs : List Buf) (h : InvO q out)
    (hk : 0 < ins.length + outs.length) (hz : ∀ b ∈ ins ++ outs, b.len ≠ 0)
    (hcap : q.numUsed + (ins.length + outs.length) ≤ q.n) :
    ∃ q3 c evs, addDirect q ins outs = some (q3, c, evs) ∧ InvO q3 (out ++ [c]) ∧ Frame q q3
      ∧ c.head = q.freeHead ∧ c.table = none ∧ c.ins = ins ∧ c.outs = outs ∧ c.firstShare = q.shareCtr
      ∧ c.descs.length = ins.length + outs.length ∧ q3.shareCtr = q.shareCtr + (ins.length + outs.length)
      ∧ q3.nextFn = q.nextFn ∧ q3.numUsed = q.numUsed + (ins.length + outs.length)
      ∧ (∀ a rest, Linked q.nextFn q.freeHead (a :: rest) → ins.length + outs.length = 1 → q3.freeHead = q.nextFn a) := by
  obtain ⟨free, hl, hnd, hlt, hlen⟩ := h.free
  have hk' : (tagBufs ins outs).length ≤ free.length := by
    rw [tagBufs_length]
    have := h.numUsed
    simp only [List.length_append] at hlen
    omega
  have hndf : free.Nodup := (List.nodup_append.mp hnd).1
  obtain ⟨q1, last, evs1, e1, e2, e3, e4, e5, e6, e7, e8, e9, e10, e11, e12, e13⟩ :=
    addDirectLoop_spec (tagBufs ins outs) q q.freeHead [] [] free h.szS h.szD hl hndf
      (fun x hx => hlt x (by simp [hx])) hk' (tagBufs_len_ne ins outs hz)
  rw [tagBufs_length] at e1 e3 e10 e11 e12 e13
  generalize hkk : ins.length + outs.length = k at *
  -- `last` is the last taken descriptor
  have htk : (free.take k).length = k := by
    rw [List.length_take]; rw [tagBufs_length, hkk] at hk'; omega
  have hne : free.take k ≠ [] := by intro e; rw [e] at htk; simp at htk; omega
  obtain ⟨lst, hlst⟩ : ∃ x, (free.take k).getLast? = some x := by
    cases hx : (free.take k).getLast? with
    | none => exact absurd (List.getLast?_eq_none_iff.mp hx) hne
    | some x => exact ⟨x, rfl⟩
  rw [hlst] at e13
  simp only [Option.getD_some] at e13
  subst e13
  have hlm : last ∈ free.take k := List.mem_of_getLast? hlst
  have hlf : last ∈ free := List.mem_of_mem_take hlm
  have hln : last < q.n := hlt last (by simp [hlf])
  have hn1 : q1.n = q.n := e6.n
  have hlast_lt : ¬ q1.n ≤ last := by omega
  -- the final state
  let dl := q1.get last
  let q2 := q1.setShadow last { dl with flags := clearNext dl.flags }
  let q3 := (q2.writeDesc last).1
  have hs1 : last < q1.shadow.size := by rw [e4]; exact hln
  have hget3 : ∀ j, q3.get j = if j = last then { dl with flags := clearNext dl.flags } else q1.get j := by
    intro j
    show (q1.setShadow last _).get j = _
    exact get_setShadow q1 last j _ hs1
  have hdv3 : ∀ j, q3.dv j = if j = last then q3.get last else q1.dv j := by
    intro j
    have := vis_writeDesc q2 last j (by show last < (q1.descTable).size; rw [e5]; exact hln)
    exact this
  have hn3 : q3.nextFn = q.nextFn := by
    rw [← e2]
    funext j
    simp only [Q.nextFn, hget3 j]
    split
    · rename_i e; subst e; rfl
    · rfl
  have hu : ¬ U16 ≤ q1.numUsed + k := by
    rw [e7]; have := h.nle; simp only [U16]; omega
  refine ⟨{ q3 with numUsed := q3.numUsed + k },
    { head := q.freeHead, descs := free.take k, ins, outs, firstShare := q.shareCtr, table := none }, evs1 ++ [(q2.writeDesc last).2], ?_, ?_, ?_, rfl, rfl, rfl, rfl, rfl, htk, ?_⟩
  · unfold addDirect
    rw [e1]
    simp only [List.nil_append, hlast_lt, if_false, hkk]
    have hu' : ¬ U16 ≤ ((q1.setShadow last { dl with flags := clearNext dl.flags }).writeDesc last).1.numUsed + k := hu
    rw [if_neg hu']
  · -- the invariant
    have hfr : Frame q q3 := Frame.trans e6 (by constructor <;> rfl)
    have hperm : (free.drop k ++ chainDescs (out ++ [{ head := q.freeHead, descs := free.take k, ins, outs, firstShare := q.shareCtr, table := none }])).Perm
        (free ++ chainDescs out) := by
      rw [chainDescs_append]
      simp only [chainDescs, List.flatMap_cons, List.flatMap_nil, List.append_nil]
      have h1 : (List.drop k free ++ (List.flatMap (fun x => x.descs) out ++ List.take k free)).Perm
          (List.take k free ++ (List.drop k free ++ List.flatMap (fun x => x.descs) out)) := by
        have := @List.perm_append_comm _ (List.drop k free ++ List.flatMap (fun x => x.descs) out) (List.take k free)
        rw [List.append_assoc] at this
        exact this
      have h2 : List.take k free ++ (List.drop k free ++ List.flatMap (fun x => x.descs) out)
          = free ++ List.flatMap (fun x => x.descs) out := by
        rw [← List.append_assoc, List.take_append_drop]
      rw [h2] at h1
      exact h1
    have hunch : ∀ j, j ∉ free.take k → q3.get j = q.get j ∧ q3.dv j = q.dv j := by
      intro j hj
      have hjl : j ≠ last := fun e => hj (e ▸ hlm)
      obtain ⟨a, b⟩ := e11 j hj
      rw [hget3 j, hdv3 j]
      simp [hjl, a, b]
    constructor
    · show 0 < q1.n; rw [hn1]; exact h.npos
    · show q1.n ≤ 32768; rw [hn1]; exact h.nle
    · show (q1.shadow.setIfInBounds _ _).size = q1.n; simp [e4, hn1]
    · show (q1.descTable.setIfInBounds _ _).size = q1.n; simp [e5, hn1]
    · show q1.indirectLists.size = q1.n; rw [e8, hn1]; exact h.szI
    · show q1.numUsed + k = _
      rw [e7, h.numUsed, chainDescs_append]
      simp [chainDescs, htk]
    · refine ⟨free.drop k, ?_, ?_, ?_, ?_⟩
      · show Linked q3.nextFn q1.freeHead _
        rw [hn3, e3]
        exact (linked_take_drop _ _ _ k hl).2
      · exact hperm.nodup_iff.mpr hnd
      · intro x hx
        show x < q1.n
        rw [hn1]
        exact hlt x (hperm.mem_iff.mp hx)
      · show _ = q1.n
        rw [hperm.length_eq, hlen, hn1]
    · intro c hc
      simp only [List.mem_append, List.mem_singleton] at hc
      rcases hc with hc | hc
      · -- an older chain: disjoint from the taken descriptors
        have hdis : ∀ d ∈ c.descs, d ∉ free.take k := by
          intro d hd hm
          have := (List.nodup_append.mp hnd).2.2 d (List.mem_of_mem_take hm) d (mem_chainDescs hc hd)
          exact this rfl
        refine chainOk_congr q _ c (fun d hd => ?_) (fun d hd => ?_) ?_ (h.chains c hc)
        · exact hunch d (hdis d hd)
        · show q3.nextFn d = _; rw [hn3]
        · show q1.indirectLists.getD _ _ = _; rw [e8]
      · subst hc
        unfold ChainOk
        simp only
        refine ⟨hne, ?_, ?_⟩
        · show Linked q3.nextFn _ _
          rw [hn3]; exact (linked_take_drop _ _ _ k hl).1
        · have hndt : (free.take k).Nodup := by
            have := List.take_append_drop k free ▸ hndf
            exact (List.nodup_append.mp this).1
          refine encOk_of_encLoop q1 _ last (free.take k) q.shareCtr (tagBufs ins outs) hndt hlst e12 ?_ ?_ ?_
          · intro j hj
            show q3.get j = _ ∧ q3.dv j = _
            rw [hget3 j, hdv3 j]; simp [hj]
          · show q3.get last = _
            rw [hget3 last]; simp only [if_true]; rfl
          · show q3.dv last = q3.get last
            rw [hdv3 last]; simp
    · intro i hi hno
      show q1.indirectLists.getD i none = none
      rw [e8]
      refine h.stale i (by rw [← hn1]; exact hi) (fun c hc => hno c (by simp [hc]))
  · exact Frame.trans e6 (by constructor <;> rfl)
  · refine ⟨by show q1.shareCtr = _; rw [e10], hn3, by show q1.numUsed + k = _; rw [e7], ?_⟩
    intro a rest hla hk1
    show q1.freeHead = _
    rw [e3, hk1]
    -- the free list starts with `a`
    match free, hl, htk, hk1 with
    | b :: fr, hl, _, _ =>
      have hb : b = a := by rw [← hl.1, hla.1]
      subst hb
      simp [after]
    | [], _, htk, hk1 => simp [hk1] at htk

/-! ### `add_indirect` preserves the invariant -/

theorem chainOk_head_mem (q : Q) (c : Chain) (h : ChainOk q c) : c.head ∈ c.descs := by
  unfold ChainOk at h
  cases hc : c.table with
  | none =>
    rw [hc] at h
    obtain ⟨h1, h2, _⟩ := h
    cases hd : c.descs with
    | nil => exact absurd hd h1
    | cons a l => rw [hd] at h2; rw [h2.1]; simp
  | some tid =>
    rw [hc] at h
    rw [h.1]; simp

theorem addIndirect_inv (q : Q) (out : List Chain) (ins outs : List Buf) (h : InvO q out)
    (hk : 1 < ins.length + outs.length) (hcap : q.numUsed + 1 ≤ q.n) :
    ∃ q3 c evs, addIndirect q ins outs = some (q3, c, evs) ∧ InvO q3 (out ++ [c]) ∧ Frame q q3
      ∧ c.head = q.freeHead ∧ c.table = some (q.shareCtr + (ins.length + outs.length))
      ∧ c.ins = ins ∧ c.outs = outs ∧ c.firstShare = q.shareCtr ∧ c.descs = [q.freeHead]
      ∧ q3.shareCtr = q.shareCtr + (ins.length + outs.length) + 1 := by
  obtain ⟨free, hl, hnd, hlt, hlen⟩ := h.free
  have hfl : 1 ≤ free.length := by
    have := h.numUsed
    simp only [List.length_append] at hlen
    omega
  match free, hfl, hl, hnd, hlt, hlen with
  | a :: fr, _, hl, hnd, hlt, hlen =>
    obtain ⟨hfa, hrest⟩ := hl
    have ha : a < q.n := hlt a (by simp)
    have hhead : ¬ q.n ≤ q.freeHead := by rw [hfa]; omega
    have hnd' := List.nodup_cons.mp (by simpa using hnd : (a :: (fr ++ chainDescs out)).Nodup)
    have ha_not : a ∉ chainDescs out := fun hm => hnd'.1 (by simp [hm])
    -- the head is not the head of an outstanding indirect chain, so its table slot is empty
    have hnone : q.indirectLists.getD q.freeHead none = none := by
      rw [hfa]
      refine h.stale a ha ?_
      intro c hc _ e
      exact ha_not (e ▸ mem_chainDescs hc (chainOk_head_mem q c (h.chains c hc)))
    generalize hkk : ins.length + outs.length = k at *
    have hlenb : (tagBufs ins outs).length = k := by rw [tagBufs_length, hkk]
    let table := mkTable q.shareCtr 0 (tagBufs ins outs)
    let tid := q.shareCtr + k
    let d' : Desc := { addr := shareAddr tid, len := 16 * k, flags := fINDIRECT, next := (q.get q.freeHead).next }
    let q1 : Q := { (q.setShadow q.freeHead d') with
                  indirectLists := q.indirectLists.setIfInBounds q.freeHead (some table),
                  freeHead := (q.get q.freeHead).next, shareCtr := tid + 1,
                  tables := (tid, table) :: q.tables }
    let q2 := (q1.writeDesc q.freeHead).1
    have hs1 : q.freeHead < q.shadow.size := by rw [h.szS, hfa]; exact ha
    have hget2 : ∀ j, q2.get j = if j = q.freeHead then d' else q.get j := by
      intro j
      show (q.setShadow q.freeHead d').get j = _
      exact get_setShadow q q.freeHead j d' hs1
    have hdv2 : ∀ j, q2.dv j = if j = q.freeHead then d' else q.dv j := by
      intro j
      have h1 := vis_writeDesc q1 q.freeHead j (by show q.freeHead < q.descTable.size; rw [h.szD, hfa]; exact ha)
      rw [show q2.dv j = (q1.writeDesc q.freeHead).1.dv j from rfl, h1]
      have : q1.get q.freeHead = d' := by
        show (q.setShadow q.freeHead d').get q.freeHead = d'
        rw [get_setShadow q q.freeHead q.freeHead d' hs1]; simp
      rw [this]; rfl
    have hn2 : q2.nextFn = q.nextFn := by
      funext j
      simp only [Q.nextFn, hget2 j]
      split
      · rename_i e; subst e; rfl
      · rfl
    have hu : ¬ U16 ≤ q2.numUsed + 1 := by
      show ¬ U16 ≤ q.numUsed + 1
      have := h.nle; simp only [U16]; omega
    have hil : ∀ j, q2.indirectLists.getD j none = if j = q.freeHead then some table else q.indirectLists.getD j none := by
      intro j
      show (q.indirectLists.setIfInBounds q.freeHead (some table)).getD j none = _
      simp only [Array.getD_eq_getD_getElem?, Array.getElem?_setIfInBounds]
      by_cases e : q.freeHead = j
      · subst e; simp [h.szI, hfa, ha]
      · simp [e, Ne.symm e]
    refine ⟨{ q2 with numUsed := q2.numUsed + 1 },
      { head := q.freeHead, descs := [q.freeHead], ins, outs, firstShare := q.shareCtr, table := some tid },
      shareEvs q.shareCtr 0 (tagBufs ins outs) ++ [.hal (.shareTable tid (16 * k)), (q1.writeDesc q.freeHead).2],
      ?_, ?_, ?_, rfl, rfl, rfl, rfl, rfl, rfl, rfl⟩
    · unfold addIndirect
      simp only [hhead, if_false, hnone, hlenb]
      rw [if_neg hu]
    · have hperm : (fr ++ chainDescs (out ++ [{ head := q.freeHead, descs := [q.freeHead], ins, outs, firstShare := q.shareCtr, table := some tid }])).Perm
          ((a :: fr) ++ chainDescs out) := by
        rw [chainDescs_append]
        simp only [chainDescs, List.flatMap_cons, List.flatMap_nil, List.append_nil, hfa]
        have := @List.perm_append_comm _ (fr ++ List.flatMap (fun x => x.descs) out) [a]
        rw [List.append_assoc] at this
        simpa using this
      constructor
      · exact h.npos
      · exact h.nle
      · show (q.shadow.setIfInBounds _ _).size = q.n; simp [h.szS]
      · show (q.descTable.setIfInBounds _ _).size = q.n; simp [h.szD]
      · show (q.indirectLists.setIfInBounds _ _).size = q.n; simp [h.szI]
      · show q.numUsed + 1 = _
        rw [h.numUsed, chainDescs_append]; simp [chainDescs]
      · refine ⟨fr, ?_, hperm.nodup_iff.mpr hnd, ?_, ?_⟩
        · show Linked q2.nextFn (q.get q.freeHead).next fr
          rw [hn2, hfa]; exact hrest
        · intro x hx; exact hlt x (hperm.mem_iff.mp hx)
        · rw [hperm.length_eq]; exact hlen
      · intro c hc
        simp only [List.mem_append, List.mem_singleton] at hc
        rcases hc with hc | hc
        · have hdis : ∀ d ∈ c.descs, d ≠ q.freeHead := by
            intro d hd e
            exact ha_not (hfa ▸ e ▸ mem_chainDescs hc hd)
          refine chainOk_congr q _ c (fun d hd => ?_) (fun d hd => ?_) ?_ (h.chains c hc)
          · show q2.get d = _ ∧ q2.dv d = _
            rw [hget2 d, hdv2 d]; simp [hdis d hd]
          · show q2.nextFn d = _; rw [hn2]
          · show q2.indirectLists.getD c.head none = _
            rw [hil c.head]
            simp [hdis c.head (chainOk_head_mem q c (h.chains c hc))]
        · subst hc
          unfold ChainOk
          simp only
          refine ⟨trivial, by rw [hlenb], by rw [hlenb]; omega, ?_, ?_, ?_, ?_, ?_⟩
          · show (q2.get q.freeHead).addr = _; rw [hget2]; simp [d', tid]
          · show (q2.get q.freeHead).len = _; rw [hget2]; simp [d', hlenb]
          · show (q2.get q.freeHead).flags = _; rw [hget2]; simp [d']
          · show q2.dv q.freeHead = q2.get q.freeHead; rw [hget2, hdv2]; simp
          · show q2.indirectLists.getD q.freeHead none = _; rw [hil]; simp [table]
      · intro i hi hno
        show q2.indirectLists.getD i none = none
        rw [hil i]
        have hne : i ≠ q.freeHead := by
          intro e
          exact hno _ (List.mem_append_right _ (List.mem_singleton.mpr rfl)) rfl e.symm
        simp only [hne, if_false]
        exact h.stale i hi (fun c hc => hno c (by simp [hc]))
    · constructor <;> rfl

/-! ### `add` preserves the invariant and cannot panic -/

theorem invO_of_same {q q' : Q} {o : List Chain} (h : InvO q o)
    (hn : q'.n = q.n) (hs : q'.shadow = q.shadow) (hd : q'.descTable = q.descTable)
    (hi : q'.indirectLists = q.indirectLists) (hu : q'.numUsed = q.numUsed) (hf : q'.freeHead = q.freeHead)
    (ht : q'.tables = q.tables) : InvO q' o := by
  have hget : ∀ j, q'.get j = q.get j := fun j => by simp [Q.get, hs]
  have hdv : ∀ j, q'.dv j = q.dv j := fun j => by simp [Q.dv, hd]
  have hnx : q'.nextFn = q.nextFn := by funext j; simp [Q.nextFn, hget]
  constructor
  · rw [hn]; exact h.npos
  · rw [hn]; exact h.nle
  · rw [hs, hn]; exact h.szS
  · rw [hd, hn]; exact h.szD
  · rw [hi, hn]; exact h.szI
  · rw [hu]; exact h.numUsed
  · obtain ⟨free, a, b, c, d⟩ := h.free
    exact ⟨free, by rw [hnx, hf]; exact a, b, by rw [hn]; exact c, by rw [hn]; exact d⟩
  · intro c hc
    exact chainOk_congr q q' c (fun d _ => ⟨hget d, hdv d⟩) (fun d _ => by rw [hnx]) (by rw [hi])
      (h.chains c hc)
  · intro i hi' hno
    rw [hi]; exact h.stale i (by rw [← hn]; exact hi') hno

/-- **`add` preserves the invariant** and, given non-empty buffers (the caller contract), never
panics: no index is out of range, no assertion fires, `num_used` does not overflow. -/
theorem add_inv (q : Q) (ins outs : List Buf) (h : Inv q) (hz : ∀ b ∈ ins ++ outs, b.len ≠ 0) :
    Inv (q.add ins outs).1 ∧ (q.add ins outs).2.1 ≠ .panic := by
  unfold Q.add
  split
  · exact ⟨h, by simp⟩
  · rename_i hk
    split
    · exact ⟨h, by simp⟩
    · rename_i hr
      have hr' : addRefused q (ins.length + outs.length) = false := by simpa using hr
      simp only [addRefused, Bool.or_eq_false_iff, Bool.and_eq_false_iff, decide_eq_false_iff_not,
        Bool.not_eq_eq_eq_not, Bool.not_false] at hr'
      obtain ⟨⟨r1, r2⟩, r3⟩ := hr'
      have hbuild : ∃ q1 c evs, buildChain q ins outs = some (q1, c, evs) ∧ InvO q1 (q.out ++ [c]) ∧ Frame q q1 := by
        unfold buildChain
        split
        · rename_i hc
          simp only [Bool.and_eq_true, decide_eq_true_eq] at hc
          obtain ⟨q3, c, evs, e, i, f, _⟩ := addIndirect_inv q q.out ins outs h hc.2 (by omega)
          exact ⟨q3, c, evs, e, i, f⟩
        · rename_i hc
          have hcap : q.numUsed + (ins.length + outs.length) ≤ q.n := by
            simp only [Bool.and_eq_true, decide_eq_true_eq, not_and, Nat.not_lt] at hc
            rcases r3 with r3 | r3
            · have hi : q.indirect = true := by simpa using r3
              have := hc hi
              omega
            · omega
          obtain ⟨q3, c, evs, e, i, f, _⟩ := addDirect_inv q q.out ins outs h (by omega) hz hcap
          exact ⟨q3, c, evs, e, i, f⟩
      obtain ⟨q1, c, evs, e, i, f⟩ := hbuild
      rw [e]
      refine ⟨?_, by simp⟩
      show InvO (publish q1 c).1 (publish q1 c).1.out
      have : (publish q1 c).1.out = q.out ++ [c] := by simp [publish, f.out]
      rw [this]
      exact invO_of_same i rfl rfl rfl rfl rfl rfl rfl

end VirtioVerif.Queue
