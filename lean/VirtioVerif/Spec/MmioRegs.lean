/-!
# virtio-mmio register map, written from the VirtIO specification (independent of the code)

Source: Virtual I/O Device (VIRTIO) 1.2, §4.2.2 "MMIO Device Register Layout" (Table 4.1) and
§4.2.4 "Legacy interface" (Table 4.2).  All registers are 32 bits wide ("The driver MUST only use
32 bit wide and aligned reads and writes to access the control registers", §4.2.2.2); the
device-specific configuration space starts at 0x100.

Nothing in this file mentions the implementation; `Props/C10.lean` relates the model of the code
to this table.
-/
namespace VirtioVerif.Spec.Mmio

/-- direction of a register as seen from the driver -/
inductive Dir | r | w | rw
deriving DecidableEq, Repr

/-- in which interface versions the register exists -/
inductive Avail | both | legacyOnly | modernOnly
deriving DecidableEq, Repr

/-- register names exactly as printed in the specification's tables -/
inductive Name
  | MagicValue | Version | DeviceID | VendorID | DeviceFeatures | DeviceFeaturesSel | DriverFeatures | DriverFeaturesSel | GuestPageSize | QueueSel | QueueNumMax | QueueNum | QueueAlign | QueuePFN | QueueReady | QueueNotify | InterruptStatus | InterruptACK | Status | QueueDescLow | QueueDescHigh | QueueDriverLow | QueueDriverHigh | QueueDeviceLow | QueueDeviceHigh | SHMSel | SHMLenLow | SHMLenHigh | SHMBaseLow | SHMBaseHigh | QueueReset | ConfigGeneration
deriving DecidableEq, Repr

structure RegSpec where
  off : Nat
  name : Name
  dir : Dir
  avail : Avail
  /-- "applies to the queue selected by writing to QueueSel" -/
  perQueue : Bool := false
deriving Repr

/-- Table 4.1 (modern, device version 2) merged with Table 4.2 (legacy, device version 1). -/
def regs : List RegSpec := [
  ⟨0x000, .MagicValue,        .r,  .both, false⟩,
  ⟨0x004, .Version,           .r,  .both, false⟩,
  ⟨0x008, .DeviceID,          .r,  .both, false⟩,
  ⟨0x00c, .VendorID,          .r,  .both, false⟩,
  ⟨0x010, .DeviceFeatures,    .r,  .both, false⟩,   -- legacy name: HostFeatures
  ⟨0x014, .DeviceFeaturesSel, .w,  .both, false⟩,   -- legacy name: HostFeaturesSel
  ⟨0x020, .DriverFeatures,    .w,  .both, false⟩,   -- legacy name: GuestFeatures
  ⟨0x024, .DriverFeaturesSel, .w,  .both, false⟩,   -- legacy name: GuestFeaturesSel
  ⟨0x028, .GuestPageSize,     .w,  .legacyOnly, false⟩,
  ⟨0x030, .QueueSel,          .w,  .both, false⟩,
  ⟨0x034, .QueueNumMax,       .r,  .both, true⟩,
  ⟨0x038, .QueueNum,          .w,  .both, true⟩,
  ⟨0x03c, .QueueAlign,        .w,  .legacyOnly, true⟩,
  ⟨0x040, .QueuePFN,          .rw, .legacyOnly, true⟩,
  ⟨0x044, .QueueReady,        .rw, .modernOnly, true⟩,
  ⟨0x050, .QueueNotify,       .w,  .both, false⟩,
  ⟨0x060, .InterruptStatus,   .r,  .both, false⟩,
  ⟨0x064, .InterruptACK,      .w,  .both, false⟩,
  ⟨0x070, .Status,            .rw, .both, false⟩,
  ⟨0x080, .QueueDescLow,      .w,  .modernOnly, true⟩,
  ⟨0x084, .QueueDescHigh,     .w,  .modernOnly, true⟩,
  ⟨0x090, .QueueDriverLow,    .w,  .modernOnly, true⟩,
  ⟨0x094, .QueueDriverHigh,   .w,  .modernOnly, true⟩,
  ⟨0x0a0, .QueueDeviceLow,    .w,  .modernOnly, true⟩,
  ⟨0x0a4, .QueueDeviceHigh,   .w,  .modernOnly, true⟩,
  ⟨0x0ac, .SHMSel,            .w,  .modernOnly, false⟩,
  ⟨0x0b0, .SHMLenLow,         .r,  .modernOnly, false⟩,
  ⟨0x0b4, .SHMLenHigh,        .r,  .modernOnly, false⟩,
  ⟨0x0b8, .SHMBaseLow,        .r,  .modernOnly, false⟩,
  ⟨0x0bc, .SHMBaseHigh,       .r,  .modernOnly, false⟩,
  ⟨0x0c0, .QueueReset,        .rw, .modernOnly, true⟩,
  ⟨0x0fc, .ConfigGeneration,  .r,  .modernOnly, false⟩
]

/-- the size of the register block: the configuration space starts here -/
def configOffset : Nat := 0x100

/-- register width in bytes -/
def regWidth : Nat := 4

/-- the magic value "virt" (little endian) -/
def magic : Nat := 0x74726976

def lookup (off : Nat) : Option RegSpec := regs.find? (·.off == off)

def availIn (a : Avail) (legacy : Bool) : Bool :=
  match a with
  | .both => true
  | .legacyOnly => legacy
  | .modernOnly => !legacy

def dirAllows (d : Dir) (write : Bool) : Bool :=
  match d with
  | .rw => true
  | .r => !write
  | .w => write

/-- An access of the given direction at the given offset is *legal* for a device of the given
interface version: the offset is a register of that version's table and the direction is
permitted (never read a write-only register, never write a read-only one). -/
def legal (legacy : Bool) (write : Bool) (off : Nat) : Bool :=
  match lookup off with
  | none => false
  | some r => availIn r.avail legacy && dirAllows r.dir write

/-- the register at this offset is one of those selected through `QueueSel` -/
def isPerQueue (off : Nat) : Bool :=
  match lookup off with
  | none => false
  | some r => r.perQueue

/-- offset of a named register -/
def offsetOf (name : Name) : Option Nat := (regs.find? (·.name == name)).map (·.off)

end VirtioVerif.Spec.Mmio
