/-!
Tables transcribed from the VirtIO specification (v1.2), §5.2 "Block Device" — written from the
specification text, not from the driver.

```
struct virtio_blk_req {
        le32 type;
        le32 reserved;
        le64 sector;
        u8 data[];
        u8 status;
};
```
-/
namespace VirtioVerif.Spec.Blk

/-- (field, byte offset, size in bytes) of the fixed-size, device-readable request header;
    all fields little-endian -/
def reqHeader : List (String × Nat × Nat) := [("type", 0, 4), ("reserved", 4, 4), ("sector", 8, 8)]

def reqHeaderSize : Nat := 16

/-- §5.2.6: request types -/
def VIRTIO_BLK_T_IN : Nat := 0
def VIRTIO_BLK_T_OUT : Nat := 1
def VIRTIO_BLK_T_FLUSH : Nat := 4
def VIRTIO_BLK_T_GET_ID : Nat := 8

/-- §5.2.6: status byte written by the device -/
def VIRTIO_BLK_S_OK : Nat := 0
def VIRTIO_BLK_S_IOERR : Nat := 1
def VIRTIO_BLK_S_UNSUPP : Nat := 2

/-- §5.2.3 feature bits -/
def VIRTIO_BLK_F_RO : Nat := 5
def VIRTIO_BLK_F_FLUSH : Nat := 9

/-- §5.2.6: GET_ID returns a 20-byte string -/
def VIRTIO_BLK_ID_BYTES : Nat := 20

/-- §5.2.4: `le64 capacity` at offset 0 of the configuration space, in 512-byte sectors -/
def sectorSize : Nat := 512

end VirtioVerif.Spec.Blk
