/-!
Tables transcribed from the VirtIO specification (v1.2), §5.1.6 "Device Operation" of the network
device — written from the specification text, not from the driver.

```
struct virtio_net_hdr {
        u8 flags;
        u8 gso_type;
        le16 hdr_len;
        le16 gso_size;
        le16 csum_start;
        le16 csum_offset;
        le16 num_buffers;
};
```
§5.1.6.1 (legacy interface): "The legacy driver only presented num_buffers in the struct
virtio_net_hdr when VIRTIO_NET_F_MRG_RXBUF was negotiated; without that feature the structure was
2 bytes shorter."
-/
namespace VirtioVerif.Spec.Net

/-- (field, size in bytes) in order -/
def hdrFields : List (String × Nat) :=
  [("flags", 1), ("gso_type", 1), ("hdr_len", 2), ("gso_size", 2), ("csum_start", 2),
   ("csum_offset", 2), ("num_buffers", 2)]

def VIRTIO_F_VERSION_1 : Nat := 32
def VIRTIO_NET_F_MRG_RXBUF : Nat := 15

/-- size of the header both sides use, given the negotiated feature bits -/
def hdrLenFor (negotiated : Nat) : Nat :=
  let full := (hdrFields.map (·.2)).sum
  if negotiated.testBit VIRTIO_F_VERSION_1 || negotiated.testBit VIRTIO_NET_F_MRG_RXBUF then full
  else full - 2

end VirtioVerif.Spec.Net
