import VirtioVerif.Model.Proto
import VirtioVerif.Model.EvQueue
/-!
Driver-level models of the queues that a driver keeps stocked with its own buffers, over the
abstract queue of `Model/EvQueue.lean`:

* `OwningQueue::{new, pop, add_buffer_to_queue, poll}` (`src/queue/owning.rs`, after fix 9818ce4:
  an oversized device length is reported as `IoError` *after* the buffer has been re-queued);
* `VirtIOInput::pop_pending_event` (`src/device/input.rs`): pop + immediate re-add,
  `assert_eq!(new_token, token)`;
* `VirtIOSound::latest_notification` (`src/device/sound.rs`): `OwningQueue::poll` with the
  notification parser as handler.

The fixed association `buffers[token]` is the `owner` field of the abstract chain: `new` posts
buffer `i` and asserts it got token `i`; `add_buffer_to_queue(t)` re-posts buffer `t` and asserts it
got token `t` again.  Whether those assertions can fire depends only on the allocator policy `A`.
-/
namespace VirtioVerif.EventQueues
open VirtioVerif VirtioVerif.EvQueue

structure OQ where
  size : Nat          -- SIZE
  bufSize : Nat       -- BUFFER_SIZE
  q : AQ
  notifies : Nat      -- device-visible: notifications sent (device does not suppress them)
deriving Repr

/-- the loop of `OwningQueue::new` / `VirtIOInput::new`: add buffer `i`, `assert_eq!(i, token)` -/
def addAll (A : Alloc) (bufSize : Nat) : List Nat → AQ → Except Fault AQ
  | [], q => .ok q
  | i :: is, q =>
    match q.add A i bufSize [] true with
    | .error f => .error f
    | .ok (t, q') => if t = i then addAll A bufSize is q' else .error .panic

/-- `OwningQueue::new(queue)` on a fresh queue -/
def OQ.new (A : Alloc) (size bufSize : Nat) : Except Fault OQ :=
  match addAll A bufSize (List.range' 0 size) (AQ.init size) with
  | .error f => .error f
  | .ok q => .ok ⟨size, bufSize, q, 0⟩

/-- what one pop hands to the handler: the token, the length the device reported, and either the
    first `len` bytes of the buffer or `IoError` when `len > BUFFER_SIZE` -/
structure Delivery where
  token : Nat
  len : Nat
  bytes : Except Err (List Nat)
deriving Repr

/-- `OwningQueue::pop` -/
def OQ.pop (A : Alloc) (o : OQ) : Except Fault (Option Delivery × OQ) :=
  match o.q.peekUsed with
  | .none => .ok (.none, o)
  | some t =>
    if o.size ≤ t then .error (.err .wrongToken)              -- `buffers.get_mut(token)`
    else match o.q.popUsed A t with
      | .error f => .error f
      | .ok (len, b, q') =>
        -- `len.try_into().unwrap()` (u32 → usize) cannot fail on the 64-bit targets considered
        let bytes := if o.bufSize < len then .error Err.ioError else .ok (padTo b.data len)
        .ok (some ⟨t, len, bytes⟩, { o with q := q' })

/-- `OwningQueue::add_buffer_to_queue(index, transport)`; the state is returned also on failure -/
def OQ.addBack (A : Alloc) (o : OQ) (t : Nat) : OQ × Option Fault :=
  if o.size ≤ t then (o, some (.err .wrongToken))
  else match o.q.add A t o.bufSize [] true with
    | .error f => (o, some f)
    | .ok (nt, q') =>
      let o' := { o with q := q' }
      if nt ≠ t then (o', some .panic)                        -- assert_eq!(new_token, index)
      else ({ o' with notifies := o'.notifies + 1 }, .none)

inductive PollOut (β : Type)
  | none                       -- `Ok(None)`: nothing pending, or the handler said `None`
  | val (v : β)                -- `Ok(Some(v))`
  | fault (f : Fault)
deriving Repr, DecidableEq

/-- `Result<Option<T>>` as an outcome -/
def resultOf {β : Type} (r : Except Err (Option β)) : PollOut β :=
  match r with
  | .ok .none => .none
  | .ok (some v) => .val v
  | .error e => .fault (.err e)

/-- `OwningQueue::poll(transport, handler)`; third component: what was popped (ghost) -/
def OQ.poll {β : Type} (A : Alloc) (o : OQ) (handler : List Nat → Except Err (Option β)) :
    OQ × PollOut β × Option Delivery :=
  match o.pop A with
  | .error f => (o, .fault f, .none)
  | .ok (.none, o) => (o, .none, .none)
  | .ok (some d, o1) =>
    let result := d.bytes.bind handler                        -- `buffer.and_then(handler)`
    match o1.addBack A d.token with
    | (o2, some f) => (o2, .fault f, some d)                  -- `?`: the result is dropped
    | (o2, .none) => (o2, resultOf result, some d)

/-! ### `VirtIOInput::pop_pending_event` -/

/-- `event_buf` has `size` entries of `evSize` (= 8) bytes; `Out`: `Some(event bytes)`, `None`, panic -/
structure Input where
  size : Nat
  evSize : Nat
  q : AQ
  notifies : Nat
deriving Repr

def Input.new (A : Alloc) (size evSize : Nat) : Except Fault Input :=
  match addAll A evSize (List.range' 0 size) (AQ.init size) with
  | .error f => .error f
  | .ok q => .ok ⟨size, evSize, q, 1⟩          -- `if should_notify() { notify }` once after DRIVER_OK

def Input.popPendingEvent (A : Alloc) (s : Input) : Input × PollOut (List Nat) × Option Delivery :=
  match s.q.peekUsed with
  | .none => (s, .none, .none)
  | some t =>
    if s.size ≤ t then (s, .fault .panic, .none)             -- `event_buf[token as usize]`
    else match s.q.popUsed A t with
      | .error _ => (s, .none, .none)                        -- `.ok()?`
      | .ok (len, b, q1) =>
        -- the whole event buffer is copied out, whatever length the device reported
        let ev := padTo b.data s.evSize
        let d : Delivery := ⟨t, len, .ok ev⟩
        match q1.add A t s.evSize [] true with
        | .error .panic => ({ s with q := q1 }, .fault .panic, some d)
        | .error .stuck => ({ s with q := q1 }, .fault .stuck, some d)
        | .error (.err _) => ({ s with q := q1 }, .none, some d)      -- event dropped silently
        | .ok (nt, q2) =>
          if nt ≠ t then ({ s with q := q2 }, .fault .panic, some d)  -- assert_eq!(new_token, token)
          else ({ s with q := q2, notifies := s.notifies + 1 }, .val ev, some d)

/-! ### `VirtIOSound::latest_notification` -/

def le32 (l : List Nat) : Nat := l.foldr (fun b acc => b + 256 * acc) 0

/-- the handler closure: `VirtIOSndEvent::read_from_bytes(buffer)` needs exactly 8 bytes, else
    `Ok(None)`; an unknown `command_code` is `Err(IoError)` -/
def sndHandler (bs : List Nat) : Except Err (Option (Nat × Nat)) :=
  if bs.length ≠ 8 then .ok .none
  else
    let code := le32 (bs.take 4)
    let data := le32 (bs.drop 4)
    if code = 0x1000 ∨ code = 0x1001 ∨ code = 0x1100 ∨ code = 0x1101 then .ok (some (code, data))
    else .error .ioError

def latestNotification (A : Alloc) (o : OQ) : OQ × PollOut (Nat × Nat) × Option Delivery :=
  o.poll A sndHandler

/-! ### line protocol -/

def hex2 (b : Nat) : String := String.ofList [Proto.hexDigit (b / 16 % 16), Proto.hexDigit (b % 16)]
def bytesStr (l : List Nat) : String := if l.isEmpty then "-" else String.join (l.map hex2)

/-- deterministic event payload: byte `j` of event number `k` (same formula in the harness) -/
def evByte (seed k j : Nat) : Nat := (seed * 7 + k * 31 + j * 13 + k / 256) % 256
def evBytes (seed k n : Nat) : List Nat := (List.range' 0 n).map (evByte seed k)

def le32bytes (v : Nat) : List Nat := [v % 256, v / 256 % 256, v / 65536 % 256, v / 16777216 % 256]

inductive Dom | owning | input | sound
deriving DecidableEq

structure PState where
  dom : Dom
  o : OQ
  seed : Nat
  evno : Nat
  alive : Bool

def PState.empty : PState := ⟨.owning, ⟨0, 0, AQ.init 0, 0⟩, 0, 0, false⟩

def A0 : Alloc := Alloc.stack

def tail (o : OQ) (nt0 : Nat) : String :=
  s!" | posted={o.q.posted.length} used={o.q.used.length} nt={o.notifies - nt0}"

def outStr {β : Type} (f : β → String) : PollOut β → String
  | .none => "ok none"
  | .val v => s!"ok {f v}"
  | .fault fl => fl.str

def isDead {β : Type} : PollOut β → Bool
  | .fault .panic => true
  | .fault .stuck => true
  | _ => false

/-- handlers used with the bare `OwningQueue`: `some` returns the bytes, `none` returns `Ok(None)`,
    `err` returns `Err(InvalidParam)` -/
def handlerOf (k : String) : List Nat → Except Err (Option (List Nat)) :=
  if k == "none" then fun _ => .ok .none
  else if k == "err" then fun _ => .error .invalidParam
  else fun bs => .ok (some bs)

def handle (st : PState) (op : String) (a : Proto.Args) : PState × String :=
  if op == "new" then
    let dom := if a.str "dom" == "input" then Dom.input else if a.str "dom" == "sound" then Dom.sound else Dom.owning
    let (size, bs) := (a.nat "size", a.nat "buf")
    match dom with
    | .input =>
      match Input.new A0 size bs with
      | .error f => ({ st with alive := false }, f.str)
      | .ok s => (⟨dom, ⟨s.size, s.evSize, s.q, s.notifies⟩, a.nat "seed", 0, true⟩, "ok" ++ tail ⟨s.size, s.evSize, s.q, s.notifies⟩ 0)
    | _ =>
      match OQ.new A0 size bs with
      | .error f => ({ st with alive := false }, f.str)
      | .ok o =>
        -- `VirtIOSound::new` notifies the event queue once after DRIVER_OK; the bare queue leaves
        -- that to its caller
        let o := if dom == .sound then { o with notifies := 1 } else o
        (⟨dom, o, a.nat "seed", 0, true⟩, "ok" ++ tail o 0)
  else if !st.alive then (st, "dead")
  else match op with
    | "dev" =>
      -- the device completes the `i`-th chain it holds (in the order it fetched them = posting
      -- order), having written `n` bytes of event number `evno`, reporting `len`
      let data := match a.nat? "code" with
        | some code => (le32bytes code ++ le32bytes (st.evno * 77 + st.seed)).take (a.nat "n")
        | .none => evBytes st.seed st.evno (a.nat "n")
      match st.o.q.devComplete (a.nat "i") data (a.nat "len") with
      | .none => (st, "nobuf")
      | some q =>
        let tok := ((st.o.q.posted[a.nat "i"]?).map (·.token)).getD 0
        ({ st with o := { st.o with q := q }, evno := st.evno + 1 }, s!"done tok={tok}" ++ tail { st.o with q := q } st.o.notifies)
    | "poll" =>
      match st.dom with
      | .owning =>
        let (o, r, _) := st.o.poll A0 (handlerOf (a.str "h"))
        ({ st with o := o, alive := !isDead r }, outStr bytesStr r ++ tail o st.o.notifies)
      | .sound =>
        let (o, r, _) := latestNotification A0 st.o
        ({ st with o := o, alive := !isDead r }, outStr (fun (p : Nat × Nat) => s!"{Proto.toHex p.1}:{p.2}") r ++ tail o st.o.notifies)
      | .input =>
        let (s, r, _) := Input.popPendingEvent A0 ⟨st.o.size, st.o.bufSize, st.o.q, st.o.notifies⟩
        let o : OQ := ⟨s.size, s.evSize, s.q, s.notifies⟩
        ({ st with o := o, alive := !isDead r }, outStr bytesStr r ++ tail o st.o.notifies)
    | _ => (st, "bad-op")

end VirtioVerif.EventQueues
