import VirtioVerif.Generated.Consts
import VirtioVerif.Model.Proto
/-!
Model of the virtio-mmio transport (`src/transport/mmio.rs`): for every `Transport` operation of
`MmioTransport` — legacy (device version 1) and modern (version 2) — the *ordered list of register
accesses* `(R|W, width, offset, value)` as a function of the operation's parameters and of the
values the device answers to reads; the probe (`MmioTransport::new` / `new_from_unique`); `Drop`.

Rust panics (`assert_eq!`, `unwrap`, `u64` subtraction overflow in legacy `queue_set`) are the
explicit result `Res.panic`; a read the device never answers (the `queue_unset` polling loop on a
device that never clears `QueueReady`) is `Res.stuck`.

`SomeTransport::Mmio` delegates every method unchanged (`src/transport/some.rs`), so the same model
describes it; the harness runs both.
-/
namespace VirtioVerif.Mmio
open VirtioVerif

inductive Version | legacy | modern
deriving DecidableEq, Repr

def Version.isLegacy : Version → Bool
  | .legacy => true
  | .modern => false

/-- the fields of `VirtIOHeader` that the transport touches -/
inductive Reg
  | magic | version | deviceId | vendorId
  | deviceFeatures | deviceFeaturesSel | driverFeatures | driverFeaturesSel
  | legacyGuestPageSize | queueSel | queueNumMax | queueNum | legacyQueueAlign | legacyQueuePfn
  | queueReady | queueNotify | interruptStatus | interruptAck | status
  | queueDescLow | queueDescHigh | queueDriverLow | queueDriverHigh | queueDeviceLow | queueDeviceHigh
  | configGeneration
deriving DecidableEq, Repr

/-- byte offset of the field in `#[repr(C)] struct VirtIOHeader` (every field is a `u32`; the
reserved arrays `__r1 … __r9` are counted). -/
def Reg.off : Reg → Nat
  | .magic => 0x000
  | .version => 0x004
  | .deviceId => 0x008
  | .vendorId => 0x00c
  | .deviceFeatures => 0x010
  | .deviceFeaturesSel => 0x014
  -- __r1: [u32; 2]
  | .driverFeatures => 0x020
  | .driverFeaturesSel => 0x024
  | .legacyGuestPageSize => 0x028
  -- __r2: u32
  | .queueSel => 0x030
  | .queueNumMax => 0x034
  | .queueNum => 0x038
  | .legacyQueueAlign => 0x03c
  | .legacyQueuePfn => 0x040
  | .queueReady => 0x044
  -- __r3: [u32; 2]
  | .queueNotify => 0x050
  -- __r4: [u32; 3]
  | .interruptStatus => 0x060
  | .interruptAck => 0x064
  -- __r5: [u32; 2]
  | .status => 0x070
  -- __r6: [u32; 3]
  | .queueDescLow => 0x080
  | .queueDescHigh => 0x084
  -- __r7: [u32; 2]
  | .queueDriverLow => 0x090
  | .queueDriverHigh => 0x094
  -- __r8: [u32; 2]
  | .queueDeviceLow => 0x0a0
  | .queueDeviceHigh => 0x0a4
  -- __r9: [u32; 21]
  | .configGeneration => 0x0fc

structure Access where
  write : Bool
  /-- bytes -/
  width : Nat
  off : Nat
  val : Nat
deriving DecidableEq, Repr

/-- `field!(header, r).write(v)`: one 32-bit store -/
def wr (r : Reg) (v : Nat) : Access := ⟨true, 4, r.off, v⟩
/-- `field_shared!(header, r).read()`: one 32-bit load answered with `v` -/
def rd (r : Reg) (v : Nat) : Access := ⟨false, 4, r.off, v⟩

inductive Res
  | unit
  | val (n : Nat)
  | bool (b : Bool)
  | panic
  | stuck
deriving DecidableEq, Repr

structure Out where
  trace : List Access
  res : Res
deriving DecidableEq, Repr

def U32 : Nat := 2 ^ 32
/-- `x as u32` -/
def lo32 (x : Nat) : Nat := x % U32
/-- `(x >> 32) as u32` -/
def hi32 (x : Nat) : Nat := x / U32 % U32

def PAGE : Nat := Generated.pageSize

/-- `lib.rs::align_up_phys`: `(size + PAGE_SIZE_PHYS) & !(PAGE_SIZE_PHYS - 1)` -/
def alignUpPhys (s : Nat) : Nat := (s + PAGE) / PAGE * PAGE

/-- the conditions legacy `queue_set` asserts before touching the device (`u64` arithmetic with
overflow checks: a negative difference panics as well) -/
def legacySetOk (size desc drv dev : Nat) : Bool :=
  desc ≤ drv && drv - desc == Generated.descSize * size
  && desc ≤ dev && dev - desc == alignUpPhys (Generated.descSize * size + 2 * (size + 3))
  && desc / PAGE < U32                      -- `(descriptors / PAGE_SIZE_PHYS).try_into().unwrap()`
  && desc / PAGE * PAGE == desc             -- `assert_eq!(u64::from(pfn) * PAGE_SIZE_PHYS, descriptors)`

inductive Op
  | readFeatures
  | writeFeatures (f : Nat)
  | maxQueueSize (q : Nat)
  | notify (q : Nat)
  | getStatus
  | setStatus (s : Nat)
  | setGuestPageSize (p : Nat)
  | queueSet (q size desc drv dev : Nat)
  | queueUnset (q : Nat)
  | queueUsed (q : Nat)
  | ackInterrupt
  | readGeneration
  | vendorId
  | drop
deriving DecidableEq, Repr

/-- `while queue_ready.read() != 0 {}`: consumes answers until a zero -/
def pollReady : List Nat → List Access × Bool
  | [] => ([], false)
  | r :: rs =>
    if r = 0 then ([rd .queueReady r], true)
    else let (t, ok) := pollReady rs; (rd .queueReady r :: t, ok)

/-- the writes that clear a modern queue's parameters after it has been disabled -/
def modernClear : List Access :=
  [wr .queueNum 0, wr .queueDescLow 0, wr .queueDescHigh 0, wr .queueDriverLow 0,
   wr .queueDriverHigh 0, wr .queueDeviceLow 0, wr .queueDeviceHigh 0]

/-- one read answered from the response list -/
def read1 (pre : List Access) (r : Reg) (rs : List Nat) (k : Nat → Out) : Out :=
  match rs with
  | [] => ⟨pre, .stuck⟩
  | x :: _ => let o := k x; ⟨pre ++ rd r x :: o.trace, o.res⟩

/-- The register accesses of one transport operation. `rs` are the values the device returns for
the reads of this operation, in order. -/
def run (v : Version) (op : Op) (rs : List Nat) : Out :=
  match op with
  | .readFeatures =>
    match rs with
    | [] => ⟨[wr .deviceFeaturesSel 0], .stuck⟩
    | [r0] => ⟨[wr .deviceFeaturesSel 0, rd .deviceFeatures r0, wr .deviceFeaturesSel 1], .stuck⟩
    | r0 :: r1 :: _ =>
      ⟨[wr .deviceFeaturesSel 0, rd .deviceFeatures r0, wr .deviceFeaturesSel 1, rd .deviceFeatures r1],
       .val (r0 + r1 * U32)⟩
  | .writeFeatures f =>
    ⟨[wr .driverFeaturesSel 0, wr .driverFeatures (lo32 f), wr .driverFeaturesSel 1,
      wr .driverFeatures (hi32 f)], .unit⟩
  | .maxQueueSize q => read1 [wr .queueSel q] .queueNumMax rs fun x => ⟨[], .val x⟩
  | .notify q => ⟨[wr .queueNotify q], .unit⟩
  | .getStatus => read1 [] .status rs fun x => ⟨[], .val x⟩
  | .setStatus s => ⟨[wr .status s], .unit⟩
  | .setGuestPageSize p =>
    match v with
    | .legacy => ⟨[wr .legacyGuestPageSize p], .unit⟩
    | .modern => ⟨[], .unit⟩
  | .queueSet q size desc drv dev =>
    match v with
    | .legacy =>
      if legacySetOk size desc drv dev then
        ⟨[wr .queueSel q, wr .queueNum size, wr .legacyQueueAlign PAGE, wr .legacyQueuePfn (desc / PAGE)],
         .unit⟩
      else ⟨[], .panic⟩
    | .modern =>
      ⟨[wr .queueSel q, wr .queueNum size,
        wr .queueDescLow (lo32 desc), wr .queueDescHigh (hi32 desc),
        wr .queueDriverLow (lo32 drv), wr .queueDriverHigh (hi32 drv),
        wr .queueDeviceLow (lo32 dev), wr .queueDeviceHigh (hi32 dev),
        wr .queueReady 1], .unit⟩
  | .queueUnset q =>
    match v with
    | .legacy =>
      ⟨[wr .queueSel q, wr .queueNum 0, wr .legacyQueueAlign 0, wr .legacyQueuePfn 0], .unit⟩
    | .modern =>
      let (poll, ok) := pollReady rs
      if ok then ⟨[wr .queueSel q, wr .queueReady 0] ++ poll ++ modernClear, .unit⟩
      else ⟨[wr .queueSel q, wr .queueReady 0] ++ poll, .stuck⟩
  | .queueUsed q =>
    match v with
    | .legacy => read1 [wr .queueSel q] .legacyQueuePfn rs fun x => ⟨[], .bool (x != 0)⟩
    | .modern => read1 [wr .queueSel q] .queueReady rs fun x => ⟨[], .bool (x != 0)⟩
  | .ackInterrupt =>
    read1 [] .interruptStatus rs fun x =>
      if x != 0 then ⟨[wr .interruptAck x], .val (x % 4)⟩   -- `from_bits_truncate`: two defined bits
      else ⟨[], .val 0⟩
  | .readGeneration =>
    match v with
    | .legacy => ⟨[], .val 0⟩   -- the legacy interface has no ConfigGeneration register: constant 0, no access
    | .modern => read1 [] .configGeneration rs fun x => ⟨[], .val x⟩
  | .vendorId => read1 [] .vendorId rs fun x => ⟨[], .val x⟩
  | .drop => ⟨[wr .status 0], .unit⟩

/-! ### probe: `MmioTransport::new(header, mmio_size)` -/

def MAGIC : Nat := 0x74726976
def CONFIG_SPACE_OFFSET : Nat := 0x100

/-- `DeviceType::try_from(u32)`, result as the enum's `u8` discriminant (id 5 is mapped to
`MemoryBalloon = 13` by the code) -/
def deviceType (id : Nat) : Option Nat :=
  if id = 5 then some 13
  else if (1 ≤ id ∧ id ≤ 13) ∨ (16 ≤ id ∧ id ≤ 25) then some id
  else none

inductive ProbeErr
  | regionTooSmall
  | badMagic (m : Nat)
  | invalidDeviceId (d : Nat)
  | unsupportedVersion (v : Nat)
deriving DecidableEq, Repr

structure Probed where
  version : Version
  deviceType : Nat
  /-- length of the configuration window -/
  configLen : Nat
deriving DecidableEq, Repr

structure ProbeOut where
  trace : List Access
  res : Except ProbeErr Probed

/-- `size`: the `mmio_size` argument; `magic`, `version`, `devid`: what the device answers when
the three identification registers are read. -/
def probe (size magic version devid : Nat) : ProbeOut :=
  if size < CONFIG_SPACE_OFFSET then ⟨[], .error .regionTooSmall⟩ else
  let t0 := [rd .magic magic]
  if magic ≠ MAGIC then ⟨t0, .error (.badMagic magic)⟩ else
  let t1 := t0 ++ [rd .deviceId devid]
  match deviceType devid with
  | none => ⟨t1, .error (.invalidDeviceId devid)⟩
  | some ty =>
    let t2 := t1 ++ [rd .version version]
    if version = 1 then ⟨t2, .ok ⟨.legacy, ty, size - CONFIG_SPACE_OFFSET⟩⟩
    else if version = 2 then ⟨t2, .ok ⟨.modern, ty, size - CONFIG_SPACE_OFFSET⟩⟩
    else ⟨t2, .error (.unsupportedVersion version)⟩

/-! ### `Transport::begin_init` on this transport (composition of the operations above) -/

def VERSION_1_BIT : Nat := 2 ^ 32

/-- `begin_init(supported)`: status 0, ACK|DRIVER, read features, write `offered & supported`,
FEATURES_OK, guest page size. The debug assertion "driver must accept VERSION_1 if offered" is a
panic (debug assertions are on in the harness). -/
def beginInit (v : Version) (supported : Nat) (rs : List Nat) : Out :=
  let a := (run v (.setStatus 0) []).trace ++ (run v (.setStatus 3) []).trace
  let rf := run v .readFeatures rs
  match rf.res with
  | .val offered =>
    let neg := offered &&& supported
    if offered &&& VERSION_1_BIT != 0 && neg &&& VERSION_1_BIT == 0 then ⟨a ++ rf.trace, .panic⟩
    else
      ⟨a ++ rf.trace ++ (run v (.writeFeatures neg) []).trace ++ (run v (.setStatus 11) []).trace
         ++ (run v (.setGuestPageSize PAGE) []).trace, .val neg⟩
  | r => ⟨a ++ rf.trace, r⟩

/-! ### line protocol -/

def Access.str (a : Access) : String :=
  s!"{if a.write then "W" else "R"}{a.width * 8}@{Proto.toHex a.off}={Proto.toHex a.val}"

def traceStr (t : List Access) : String :=
  if t.isEmpty then "-" else Proto.joinWith " " (t.map Access.str)

def Res.str : Res → String
  | .unit => "ok"
  | .val n => s!"ok {Proto.toHex n}"
  | .bool b => s!"ok {Proto.b2s b}"
  | .panic => "panic"
  | .stuck => "stuck"

def Out.str (o : Out) : String := s!"{traceStr o.trace} => {o.res.str}"

def verOfArgs (a : Proto.Args) : Version := if a.nat "ver" = 1 then .legacy else .modern

def ProbeErr.str : ProbeErr → String
  | .regionTooSmall => "MmioRegionTooSmall"
  | .badMagic m => s!"BadMagic({Proto.toHex m})"
  | .invalidDeviceId d => s!"InvalidDeviceID({Proto.toHex d})"
  | .unsupportedVersion v => s!"UnsupportedVersion({Proto.toHex v})"

def handle (op : String) (a : Proto.Args) : String :=
  let v := verOfArgs a
  let rs := a.nats "reads"
  let q := a.nat "q"
  match op with
  | "probe" =>
    let o := probe (a.nat "size") (a.nat "magic") (a.nat "version") (a.nat "devid")
    match o.res with
    -- only the verdict is compared: which header registers are read, and in which order, is not fixed
    -- by the property (the harness checks "writes nothing, reads only defined registers" directly)
    | .error e => s!"=> err {e.str}"
    | .ok p => s!"=> ok version={if p.version.isLegacy then 1 else 2} type={p.deviceType} cfglen={p.configLen}"
  | "begin_init" => (beginInit v (a.nat "supported") rs).str
  | "read_features" => (run v .readFeatures rs).str
  | "write_features" => (run v (.writeFeatures (a.nat "f")) rs).str
  | "max_queue_size" => (run v (.maxQueueSize q) rs).str
  | "notify" => (run v (.notify q) rs).str
  | "get_status" => (run v .getStatus rs).str
  | "set_status" => (run v (.setStatus (a.nat "s")) rs).str
  | "set_guest_page_size" => (run v (.setGuestPageSize (a.nat "p")) rs).str
  | "queue_set" =>
    let o := run v (.queueSet q (a.nat "size") (a.nat "desc") (a.nat "drv") (a.nat "dev")) rs
    -- modern interface: the parameter writes between QueueSel and QueueReady are printed as an unordered
    -- group (the comparison sorts inside `{ … }`)
    if !v.isLegacy && o.trace.length ≥ 3 then
      let strs := o.trace.map Access.str
      let ts := Proto.joinWith " " ([strs.headD ""] ++ ["{"] ++ (strs.drop 1).take (strs.length - 2) ++ ["}"] ++ [strs.getLastD ""])
      s!"{ts} => {o.res.str}"
    else o.str
  | "queue_unset" => (run v (.queueUnset q) rs).str
  | "queue_used" => (run v (.queueUsed q) rs).str
  | "ack_interrupt" => (run v .ackInterrupt rs).str
  | "read_generation" => (run v .readGeneration rs).str
  | "vendor_id" => (run v .vendorId rs).str
  | "drop" => (run v .drop rs).str
  | "requires_legacy_layout" => s!"- => ok {Proto.b2s v.isLegacy}"
  | _ => "bad-op"

end VirtioVerif.Mmio
