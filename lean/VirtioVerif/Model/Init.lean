import VirtioVerif.Generated.DropPlan
import VirtioVerif.Generated.Features
import VirtioVerif.Model.Layout
import VirtioVerif.Model.DropPlan
import VirtioVerif.Model.Proto
/-!
Model of device initialisation (`transport/mod.rs`: `begin_init`, `finish_init`) composed with
every driver's *generated* constructor skeleton (`Generated.DropPlan`) into the ordered list of
transport / HAL events of `new()`, including early returns (`?`) with Rust's drop order
(`Model.DropPlan`), and of dropping the constructed driver.
-/
namespace VirtioVerif.Init
open VirtioVerif VirtioVerif.Generated.DropPlan VirtioVerif.DropPlan

/-! ### status and feature bits (virtio 1.x §2.1, §6) -/
def ACK : Nat := 1
def DRIVER : Nat := 2
def DRIVER_OK : Nat := 4
def FEATURES_OK : Nat := 8
def bitIndirect : Nat := 28
def bitEventIdx : Nat := 29
def bitVersion1 : Nat := 32
def bitAccessPlatform : Nat := 33

/-- observable events of construction / drop, in order -/
inductive TEv
  | status (v : Nat)
  | readFeatures
  | writeFeatures                   -- the value written is `Outcome.written` (one write per construction)
  | pageSize (v : Nat)
  | cfg (ok : Bool)                 -- a maximal run of config-space accesses (`ok = false`: it failed)
  | lay (e : Layout.Ev)             -- queue_used / max_queue_size / requires_legacy_layout / dma_alloc / queue_set / dma_dealloc
  | notify (q : Nat)
  | queueUnset (q : Nat)
  | dropped                         -- transport value dropped (device reset)
  | freePosted                      -- heap buffer(s) still posted to the device were freed
deriving DecidableEq, Repr

/-- the set returned by `begin_init` and written to the device -/
def negotiated (supported offered : Nat) : Nat := offered &&& supported

/-- `Transport::begin_init`: the transport calls it makes -/
def beginInitEvs : List TEv :=
  [.status 0, .status (ACK ||| DRIVER), .readFeatures, .writeFeatures,
   .status (ACK ||| DRIVER ||| FEATURES_OK), .pageSize Generated.pageSize]

/-- `Transport::begin_init`: calls, and the value passed to `write_driver_features` (= the result) -/
def beginInit (supported offered : Nat) : List TEv × Nat := (beginInitEvs, negotiated supported offered)

/-- `Transport::finish_init` -/
def finishInit : List TEv := [.status (ACK ||| DRIVER ||| FEATURES_OK ||| DRIVER_OK)]

inductive Err
  | dma | cfgMissing | cfgTooSmall | invalidParam | alreadyUsed | panic | unsupported
deriving DecidableEq, Repr

def Err.str : Err → String
  | .dma => "DmaError" | .cfgMissing => "ConfigSpaceMissing" | .cfgTooSmall => "ConfigSpaceTooSmall"
  | .invalidParam => "InvalidParam" | .alreadyUsed => "AlreadyUsed" | .panic => "panic"
  | .unsupported => "unsupported-by-model"

structure Params where
  offered : Nat
  legacy : Bool := false
  /-- the k-th `dma_alloc` of the run fails (0 = none) -/
  failAt : Nat := 0
  /-- the g-th run of config reads fails (0 = none) with `cfgErr` -/
  cfgFail : Nat := 0
  cfgErr : Err := .cfgMissing
  /-- `max_queue_size` answer of the transport (same for every queue) -/
  maxQ : Nat := 65536
  /-- a posting loop fails in its first iteration (net: receive buffer shorter than the minimum) -/
  postFail : Bool := false
deriving Repr

/-- the negotiated set as the constructors use it: the three ring / platform bits that
    `VirtQueue::new` takes as flags -/
structure Neg where
  ind : Bool
  ev : Bool
  ap : Bool
deriving DecidableEq, Repr

def Neg.of (n : Nat) : Neg := ⟨n.testBit bitIndirect, n.testBit bitEventIdx, n.testBit bitAccessPlatform⟩

/-- a `VirtQueue::new` flag argument (only the three ring / platform bits can be named) -/
def flagEval (n : Neg) : Flag → Bool
  | .neg b => if b = bitIndirect then n.ind else if b = bitEventIdx then n.ev
              else if b = bitAccessPlatform then n.ap else false
  | .const c => c

def shiftAddr (base : Nat) (a : Layout.Addr) : Layout.Addr := ⟨a.region + base, a.off⟩

/-- region numbers of one queue's events → region numbers of the whole run -/
def shiftEv (base : Nat) : Layout.Ev → Layout.Ev
  | .queueSet q s a b c => .queueSet q s (shiftAddr base a) (shiftAddr base b) (shiftAddr base c)
  | .dealloc r p ap => .dealloc (r + base) p ap
  | e => e

def actEv : Act → List TEv
  | .unset q => [.queueUnset q]
  | .reset => [.dropped]
  | .dealloc r p ap => [.lay (.dealloc r p ap)]
  | .freeBuf true => [.freePosted]
  | .freeBuf false => []

def actsEvs (a : List Act) : List TEv := a.flatMap actEv

structure Outcome where
  evs : List TEv
  /-- on success: what dropping the constructed driver does -/
  result : Except Err (List Act)
deriving Repr

structure St where
  evs : List TEv := []
  locals : List Local := []
  attempts : Nat := 0
  regions : Nat := 0
  cfgRun : Bool := false
  cfgGroups : Nat := 0
  /-- value of the initialiser being evaluated -/
  cur : List Act := []
  built : Option (Option Nat × List Act) := none
deriving Repr

def mapLayErr : Layout.Err → Err
  | .alreadyUsed => .alreadyUsed | .invalidParam => .invalidParam | .dmaError => .dma | .panic => .panic

def countAllocs (l : List Layout.Ev) : Nat :=
  (l.filter fun | .alloc .. => true | _ => false).length

def queueSize (info : Generated.Features.Info) (q : Nat) : Nat :=
  match info.queues.find? (·.1 == q) with
  | some (_, n) => n
  | none => 0

/-- failure of a fallible call: `?` propagates the error, anything else (`unwrap`) panics; either
    way the live locals are dropped in reverse order -/
def failWith (s : St) (extra : List TEv) (tr : Bool) (e : Err) : St × Err :=
  ({ s with evs := s.evs ++ extra ++ actsEvs (dropLocals s.locals), locals := [] }, if tr then e else .panic)

def stepEv (d : Driver) (info : Generated.Features.Info) (neg : Neg) (p : Params) (inner : Option Outcome)
    (s : St) (e : CEv) : Except (St × Err) St :=
  match e with
  | .beginInit => .ok { s with evs := s.evs ++ beginInitEvs, cfgRun := false }
  | .finishInit => .ok { s with evs := s.evs ++ finishInit, cfgRun := false }
  | .cfgRead tr =>
    if s.cfgRun then .ok s else
    let g := s.cfgGroups + 1
    -- `InvalidParam`: the reads themselves succeed, the content is rejected (9p: zero-length mount tag)
    if p.cfgFail = g then .error (failWith s [.cfg (p.cfgErr == .invalidParam)] tr p.cfgErr)
    else .ok { s with evs := s.evs ++ [.cfg true], cfgRun := true, cfgGroups := g }
  | .queueNew q ind ev ap tr =>
    let c : Layout.Cfg :=
      { n := queueSize info q, idx := q, legacy := p.legacy, ap := flagEval neg ap, inUse := false,
        maxSize := p.maxQ, failAt := if p.failAt > s.attempts then p.failAt - s.attempts else 0 }
    let o := Layout.newQueue c
    let evs := o.events.map fun x => TEv.lay (shiftEv s.regions x)
    match o.result with
    | .ok plan =>
      .ok { s with evs := s.evs ++ evs, attempts := s.attempts + plan.regions.length,
                   regions := s.regions + plan.regions.length, cfgRun := false,
                   cur := (plan.regions.zipIdx).map fun ((pg, _), i) => Act.dealloc (s.regions + i) pg (flagEval neg ap) }
    | .error er => .error (failWith s evs tr (mapLayErr er))
  | .owningNew moved _ =>
    match moved with
    | none => .ok { s with cur := owningActs s.cur }
    | some id => .ok { s with cur := owningActs (findLocal s.locals id), locals := removeLocal s.locals id }
  | .dmaNew tr => .error (failWith s [] tr .unsupported)
  | .boxNew => .ok { s with cur := [.freeBuf false] }
  | .post _ tr notifies =>
    if p.postFail then .error (failWith s [] tr .invalidParam)
    else .ok { s with locals := markPostedLocals s.locals, cfgRun := false,
                      evs := s.evs ++ (match notifies with | some q => [.notify q] | none => []) }
  | .notify q => .ok { s with evs := s.evs ++ [.notify q], cfgRun := false }
  | .innerNew moved tr =>
    match inner with
    | none => .error (failWith s [] tr .unsupported)
    | some o =>
      let s1 := { s with locals := removeLocal s.locals moved }
      match o.result with
      | .ok acts =>
        .ok { s1 with evs := s1.evs ++ o.evs, cur := acts, cfgRun := false,
                      attempts := s1.attempts + countAllocs (o.evs.filterMap fun | .lay x => some x | _ => none),
                      regions := s1.regions + countAllocs (o.evs.filterMap fun | .lay x => some x | _ => none) }
      | .error er => .error (failWith s1 o.evs true er)
  | .build inits =>
    let fieldActs := inits.map fun | some id => findLocal s.locals id | none => []
    let locals := inits.foldl (fun ls i => match i with | some id => removeLocal ls id | none => ls) s.locals
    .ok { s with cur := dropStruct d fieldActs, locals := locals, built := some (none, dropStruct d fieldActs) }
  | .other tr => .ok s

def stepEvs (d : Driver) (info : Generated.Features.Info) (neg : Neg) (p : Params) (inner : Option Outcome) :
    St → List CEv → Except (St × Err) St
  | s, [] => .ok s
  | s, e :: es =>
    match stepEv d info neg p inner s e with
    | .ok s' => stepEvs d info neg p inner s' es
    | .error x => .error x

def stepStmt (d : Driver) (info : Generated.Features.Info) (neg : Neg) (p : Params) (inner : Option Outcome)
    (s : St) (st : Stmt) : Except (St × Err) St :=
  let hasRes := st.evs.any fun
    | .queueNew .. => true | .owningNew .. => true | .boxNew => true | .innerNew .. => true
    | .build .. => true | .dmaNew .. => true | _ => false
  match stepEvs d info neg p inner { s with cur := [] } st.evs with
  | .error x => .error x
  | .ok s' =>
    let isBuild := st.evs.any fun | .build .. => true | _ => false
    match st.bind with
    | none => .ok (if isBuild then { s' with built := some (none, s'.cur) } else s')
    | some id =>
      let acts := if hasRes then s'.cur else plainLocalActs d id
      .ok { s' with locals := s'.locals ++ [⟨id, acts⟩],
                    built := if isBuild then some (some id, acts) else s'.built }

def runStmts (d : Driver) (info : Generated.Features.Info) (neg : Neg) (p : Params) (inner : Option Outcome) :
    St → List Stmt → Except (St × Err) St
  | s, [] => .ok s
  | s, st :: sts =>
    match stepStmt d info neg p inner s st with
    | .ok s' => runStmts d info neg p inner s' sts
    | .error x => .error x

/-- `new()` of one driver: parameters are the first locals -/
def runBody (d : Driver) (info : Generated.Features.Info) (neg : Neg) (p : Params) (inner : Option Outcome) : Outcome :=
  let s0 : St := { locals := (List.range d.nparams).map fun i =>
    ⟨i, if i = 0 then [Act.reset] else []⟩ }
  match runStmts d info neg p inner s0 d.body with
  | .error (s, e) => ⟨s.evs, .error e⟩
  | .ok s =>
    match s.built with
    | none => ⟨s.evs, .error .unsupported⟩
    | some (some id, _) => ⟨s.evs, .ok (findLocal s.locals id)⟩
    | some (none, acts) => ⟨s.evs, .ok acts⟩

/-- number of the raw network driver in `Generated.DropPlan.all` (the buffered one wraps it) -/
def rawIndex : Nat := 4

def driverAt (i : Nat) : Option (Driver × Generated.Features.Info) :=
  match Generated.DropPlan.all[i]?, Generated.Features.all[i]? with
  | some d, some f => some (d, f)
  | _, _ => none

/-- construction of driver number `i`, given the negotiated set -/
def constructN (i : Nat) (neg : Neg) (p : Params) : Outcome :=
  match driverAt i with
  | none => ⟨[], .error .unsupported⟩
  | some (d, info) =>
    let inner := (driverAt rawIndex).map fun (dr, fr) => runBody dr fr neg p none
    runBody d info neg p inner

def supportedOf (i : Nat) : Nat := match driverAt i with | some (_, f) => f.supported | none => 0

/-- construction of driver number `i` on a device offering `p.offered` -/
def construct (i : Nat) (p : Params) : Outcome :=
  constructN i (Neg.of (negotiated (supportedOf i) p.offered)) p

/-- dropping the constructed driver; `fb`: a frame buffer `(region, pages, ap)` allocated by later
    use sits in the first `Option<Dma>` field -/
def withFrameBuffer (d : Driver) (acts : List Act) (fb : Option (Nat × Nat × Bool)) : List Act :=
  match fb with
  | none => acts
  | some (r, pg, ap) =>
    -- position: after the acts of all fields declared before the first `Option<Dma>` field; all
    -- drivers with such a field keep only the transport before it
    let pre := (if d.hasDrop then d.dropUnset.length else 0)
      + ((d.fields.takeWhile (· != .dmaOpt)).filter (· == .transport)).length
    acts.take pre ++ [Act.dealloc r pg ap] ++ acts.drop pre

/-! ### feature-gated operations (what they emit on the transport) -/

inductive GOp | blkFlush | consoleSize | consoleEmerg | gpuEdid
deriving DecidableEq, Repr

def GOp.bit : GOp → Nat
  | .blkFlush => 9 | .consoleSize => 0 | .consoleEmerg => 2 | .gpuEdid => 1

def GOp.driver : GOp → Nat
  | .blkFlush => 0 | .consoleSize => 1 | .consoleEmerg => 1 | .gpuEdid => 2

inductive GRes | ok | none | unsupported
deriving DecidableEq, Repr

/-- events on the transport and result of a feature-gated operation (device answers at once) -/
def gated (op : GOp) (neg : Nat) : List TEv × GRes :=
  if neg.testBit op.bit then
    match op with
    | .blkFlush => ([.notify 0], .ok)
    | .consoleSize => ([.cfg true], .ok)
    | .consoleEmerg => ([.cfg true], .ok)
    | .gpuEdid => ([.notify 0], .ok)
  else
    match op with
    | .blkFlush => ([], .ok)
    | .consoleSize => ([], .none)
    | .consoleEmerg => ([], .unsupported)
    | .gpuEdid => ([], .unsupported)

/-- `VirtIONetRaw::legacy_header` (`!VERSION_1 && !MRG_RXBUF`, bit 15) and the header length -/
def legacyHeader (neg : Nat) : Bool := !neg.testBit bitVersion1 && !neg.testBit 15
def netHdrLen (neg : Nat) : Nat := if legacyHeader neg then 10 else 12

/-! ### line protocol -/

def TEv.str (written : Nat) : TEv → String
  | .status v => s!"status({v})"
  | .readFeatures => "read_features"
  | .writeFeatures => s!"write_features({Proto.toHex written})"
  | .pageSize v => s!"page_size({v})"
  | .cfg ok => if ok then "cfg" else "cfg!"
  | .lay e => e.str
  | .notify q => s!"notify({q})"
  | .queueUnset q => s!"queue_unset({q})"
  | .dropped => "dropped"
  | .freePosted => "free_posted"

def evsStr (l : List TEv) (written : Nat := 0) : String :=
  if l.isEmpty then "-" else Proto.joinWith " " (l.map (TEv.str written))

/-- what a register-level trace of the real `MmioTransport` shows of an event list: the pure
    `requires_legacy_layout` query is invisible, the guest page size is written only by the legacy
    interface, and dropping the transport is a write of 0 to the status register -/
def mmioView (legacy : Bool) (l : List TEv) : List TEv :=
  l.filterMap fun
    | .lay .legacyQ => none
    | .pageSize v => if legacy then some (.pageSize v) else none
    | .dropped => some (.status 0)
    | e => some e

def viewOf (a : Proto.Args) (l : List TEv) : List TEv :=
  if a.str "view" "model" == "mmio" then mmioView (a.bool "legacy") l else l

def paramsOfArgs (a : Proto.Args) : Params :=
  { offered := a.nat "offered", legacy := a.bool "legacy", failAt := a.nat "fail",
    cfgFail := if a.str "cfg" "ok" == "ok" then 0 else 1,
    cfgErr := match a.str "cfg" "ok" with
      | "missing" => .cfgMissing | "short" => .cfgTooSmall | "zerotag" => .invalidParam | _ => .cfgMissing,
    maxQ := a.nat "max" 65536, postFail := a.bool "postfail" }

def gopOfStr : String → Option GOp
  | "blk_flush" => some .blkFlush | "console_size" => some .consoleSize
  | "console_emerg" => some .consoleEmerg | "gpu_edid" => some .gpuEdid | _ => none

def GRes.str : GRes → String
  | .ok => "ok" | .none => "none" | .unsupported => "err Unsupported"

def handle (op : String) (a : Proto.Args) : String :=
  let i := a.nat "drv"
  match op with
  | "new" =>
    let o := construct i (paramsOfArgs a)
    let w := negotiated (supportedOf i) (a.nat "offered")
    match o.result with
    | .ok _ => s!"{evsStr (viewOf a o.evs) w} => ok"
    | .error e => s!"{evsStr (viewOf a o.evs) w} => err {e.str}"
  | "drop" =>
    let o := construct i (paramsOfArgs a)
    match o.result, driverAt i with
    | .ok acts, some (d, _) =>
      let fb := if a.nat "fbpages" == 0 then none
        else some (a.nat "fbregion", a.nat "fbpages", (negotiated (supportedOf i) (a.nat "offered")).testBit bitAccessPlatform)
      evsStr (viewOf a (actsEvs (withFrameBuffer d acts fb)))
    | _, _ => "not-constructed"
  | "gated" =>
    match gopOfStr (a.str "op") with
    | none => "bad-op"
    | some g =>
      let (evs, r) := gated g (negotiated (supportedOf g.driver) (a.nat "offered"))
      s!"{evsStr evs} => {r.str}"
  | "hdr" => toString (netHdrLen (negotiated (supportedOf rawIndex) (a.nat "offered")))
  | _ => "bad-op"

end VirtioVerif.Init
