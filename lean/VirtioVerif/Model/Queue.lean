import VirtioVerif.Model.Proto
/-!
Executable model of the split virtqueue driver side (`/repo/src/queue.rs`), statement by
statement: `add` (`add_direct`, `add_indirect`), `pop_used` (`recycle_descriptors`), the queries
and the notification-suppression helpers, together with the device-visible memory, the platform
(share/unshare) events and the device's own writes (used ring, flags, event index — arbitrary
values, so a hostile device is just a particular choice of arguments).

Rust panics (`assert!`, `unwrap`, `expect`, out-of-bounds indexing, `u16` overflow with overflow
checks on) are the explicit outcome `Res.panic`; the theorems show they cannot happen under the
caller contract of the `unsafe fn`s.
-/
namespace VirtioVerif.Queue
open VirtioVerif

def fNEXT : Nat := 1
def fWRITE : Nat := 2
def fINDIRECT : Nat := 4
def U16 : Nat := 65536

structure Desc where
  addr : Nat := 0
  len : Nat := 0
  flags : Nat := 0
  next : Nat := 0
deriving DecidableEq, Repr, Inhabited

/-- a caller buffer: a name (stands for its address range) and its length -/
structure Buf where
  id : Nat
  len : Nat
deriving DecidableEq, Repr, Inhabited

/-- share bookkeeping of the bouncing platform: the k-th `share` call returns this device address -/
def shareBase : Nat := 0x600000000000
def shareStride : Nat := 0x100000
def shareAddr (k : Nat) : Nat := shareBase + k * shareStride

/-- inverse of `shareAddr` on addresses `share` can return (`none` otherwise, e.g. for 0) -/
def shareIdOf (a : Nat) : Option Nat :=
  if shareBase ≤ a ∧ (a - shareBase) % shareStride = 0 then some ((a - shareBase) / shareStride) else none

inductive HalEv
  | share (k : Nat) (b : Buf) (write : Bool)
  | shareTable (k : Nat) (len : Nat)
  | unshare (addr : Nat) (b : Buf) (write : Bool)
  | unshareTable (addr : Nat) (len : Nat)
deriving DecidableEq, Repr

inductive Store
  | desc (i : Nat) (d : Desc)
  | ring (slot : Nat) (v : Nat)
  | idx (v : Nat)
  | flags (v : Nat)
  | usedEvent (v : Nat)
deriving DecidableEq, Repr

inductive Ev
  | hal (h : HalEv)
  | st (s : Store)
deriving DecidableEq, Repr

/-- ghost record of an outstanding chain (never read by the modelled driver code) -/
structure Chain where
  head : Nat
  descs : List Nat
  ins : List Buf
  outs : List Buf
  firstShare : Nat           -- share id of the first buffer (buffer i has id firstShare + i)
  table : Option Nat         -- share id of the indirect table
deriving DecidableEq, Repr

inductive Err | queueFull | notReady | wrongToken | invalidParam
deriving DecidableEq, Repr

inductive Res
  | token (t : Nat)
  | len (l : Nat)
  | err (e : Err)
  | panic
  | unit
deriving DecidableEq, Repr

structure Q where
  n : Nat
  indirect : Bool
  eventIdx : Bool
  ap : Bool
  -- driver-private
  numUsed : Nat
  freeHead : Nat
  shadow : Array Desc
  availIdx : Nat
  lastUsedIdx : Nat
  indirectLists : Array (Option (List Desc))
  -- device-visible, driver-owned
  descTable : Array Desc
  availFlags : Nat
  availIdxMem : Nat
  availRing : Array Nat
  usedEvent : Nat
  tables : List (Nat × List Desc)
  -- device-owned
  usedFlags : Nat
  usedIdx : Nat
  usedRing : Array (Nat × Nat)
  availEvent : Nat
  -- platform
  shareCtr : Nat
  -- ghost
  out : List Chain
deriving Repr

/-- `VirtQueue::new` after allocation: free list `0 → 1 → … → n-1`, everything else zero -/
def Q.init (n : Nat) (indirect eventIdx ap : Bool) : Q :=
  let descs : Array Desc := (Array.range n).map fun i => { next := if i + 1 < n then i + 1 else 0 }
  { n, indirect, eventIdx, ap, numUsed := 0, freeHead := 0, shadow := descs, availIdx := 0,
    lastUsedIdx := 0, indirectLists := Array.replicate n none, descTable := descs, availFlags := 0,
    availIdxMem := 0, availRing := Array.replicate n 0, usedEvent := 0, tables := [],
    usedFlags := 0, usedIdx := 0, usedRing := Array.replicate n (0, 0), availEvent := 0,
    shareCtr := 0, out := [] }

def Q.get (q : Q) (i : Nat) : Desc := q.shadow.getD i default
def Q.setShadow (q : Q) (i : Nat) (d : Desc) : Q := { q with shadow := q.shadow.setIfInBounds i d }

/-- `write_desc`: copy the shadow descriptor to the device-visible table -/
def Q.writeDesc (q : Q) (i : Nat) : Q × Ev :=
  ({ q with descTable := q.descTable.setIfInBounds i (q.get i) }, .st (.desc i (q.get i)))

/-- `idx & (SIZE - 1)` -/
def slotOf (n i : Nat) : Nat := i &&& (n - 1)

/-- clear the NEXT bit (`flags.remove(DescFlags::NEXT)`) -/
def clearNext (f : Nat) : Nat := f / 2 * 2

def hasFlag (f bit : Nat) : Bool := f &&& bit != 0

/-! ### add -/

/-- the `for` loop of `add_direct` (`last` is the loop variable of the same name); also returns
    (ghost) the list of descriptors it took from the free list -/
def addDirectLoop (q : Q) (last : Nat) (taken : List Nat) :
    List (Buf × Bool) → List Ev → Option (Q × Nat × List Nat × List Ev)
  | [], evs => some (q, last, taken, evs)
  | (b, w) :: rest, evs =>
    if b.len = 0 then none                                   -- assert_ne!(buffer.len(), 0)
    else
      let i := q.freeHead
      if q.n ≤ i then none                                   -- index out of bounds
      else
        let d := q.get i
        let d' : Desc := { addr := shareAddr q.shareCtr, len := b.len,
                           flags := fNEXT ||| (if w then fWRITE else 0), next := d.next }
        let q1 := { (q.setShadow i d') with freeHead := d.next, shareCtr := q.shareCtr + 1 }
        let (q2, e) := q1.writeDesc i
        addDirectLoop q2 i (taken ++ [i]) rest (evs ++ [.hal (.share q.shareCtr b w), e])

def tagBufs (ins outs : List Buf) : List (Buf × Bool) :=
  ins.map (·, false) ++ outs.map (·, true)

def addDirect (q : Q) (ins outs : List Buf) : Option (Q × Chain × List Ev) :=
  let head := q.freeHead
  match addDirectLoop q q.freeHead [] (tagBufs ins outs) [] with
  | none => none
  | some (q1, last, taken, evs) =>
    if q1.n ≤ last then none else
    let dl := q1.get last
    let q2 := q1.setShadow last { dl with flags := clearNext dl.flags }
    let (q3, e) := q2.writeDesc last
    let k := ins.length + outs.length
    if U16 ≤ q3.numUsed + k then none                        -- u16 `+=` overflow
    else
      some ({ q3 with numUsed := q3.numUsed + k },
            { head, descs := taken, ins, outs, firstShare := q.shareCtr, table := none }, evs ++ [e])

/-- indirect table entries: `set_buf` then `next = i + 1`, NEXT removed on the last -/
def mkTable (ctr : Nat) : Nat → List (Buf × Bool) → List Desc
  | _, [] => []
  | i, (b, w) :: rest =>
    { addr := shareAddr (ctr + i), len := b.len,
      flags := (if rest.isEmpty then 0 else fNEXT) ||| (if w then fWRITE else 0), next := i + 1 }
      :: mkTable ctr (i + 1) rest

def shareEvs (ctr : Nat) : Nat → List (Buf × Bool) → List Ev
  | _, [] => []
  | i, (b, w) :: rest => .hal (.share (ctr + i) b w) :: shareEvs ctr (i + 1) rest

def addIndirect (q : Q) (ins outs : List Buf) : Option (Q × Chain × List Ev) :=
  let head := q.freeHead
  let bufs := tagBufs ins outs
  let k := bufs.length
  let table := mkTable q.shareCtr 0 bufs
  let evs := shareEvs q.shareCtr 0 bufs
  if q.n ≤ head then none else
  match q.indirectLists.getD head none with
  | some _ => none                                            -- assert!(…is_none())
  | none =>
    let d := q.get head
    let tid := q.shareCtr + k
    let d' : Desc := { addr := shareAddr tid, len := 16 * k, flags := fINDIRECT, next := d.next }
    let q1 := { (q.setShadow head d') with
                  indirectLists := q.indirectLists.setIfInBounds head (some table),
                  freeHead := d.next, shareCtr := tid + 1,
                  tables := (tid, table) :: q.tables }
    let (q2, e) := q1.writeDesc head
    if U16 ≤ q2.numUsed + 1 then none else
    some ({ q2 with numUsed := q2.numUsed + 1 },
          { head, descs := [head], ins, outs, firstShare := q.shareCtr, table := some tid },
          evs ++ [.hal (.shareTable tid (16 * k)), e])

/-- the capacity test at the top of `add` (alloc feature on) -/
def addRefused (q : Q) (k : Nat) : Bool :=
  decide (q.numUsed + 1 > q.n) || decide (k > q.n) || (!q.indirect && decide (q.numUsed + k > q.n))

/-- `add_indirect` if indirect descriptors are enabled and there is more than one buffer, else `add_direct` -/
def buildChain (q : Q) (ins outs : List Buf) : Option (Q × Chain × List Ev) :=
  if q.indirect && decide (ins.length + outs.length > 1) then addIndirect q ins outs
  else addDirect q ins outs

/-- the tail of `add`: ring slot store, (fence,) index store -/
def publish (q1 : Q) (c : Chain) : Q × List Ev :=
  let slot := slotOf q1.n q1.availIdx
  let ai := (q1.availIdx + 1) % U16
  ({ q1 with availRing := q1.availRing.setIfInBounds slot c.head, availIdx := ai, availIdxMem := ai,
             out := q1.out ++ [c] },
   [.st (.ring slot c.head), .st (.idx ai)])

def Q.add (q : Q) (ins outs : List Buf) : Q × Res × List Ev :=
  if ins.length + outs.length = 0 then (q, .err .invalidParam, [])
  else if addRefused q (ins.length + outs.length) then (q, .err .queueFull, [])
  else
    match buildChain q ins outs with
    | none => (q, .panic, [])
    | some (q1, c, evs) => ((publish q1 c).1, .token c.head, evs ++ (publish q1 c).2)

/-! ### pop_used -/

def Q.canPop (q : Q) : Bool := q.lastUsedIdx != q.usedIdx

/-- `peek_used`: the id is truncated `as u16` -/
def Q.peekUsed (q : Q) : Option Nat :=
  if q.canPop then some ((q.usedRing.getD (slotOf q.n q.lastUsedIdx) (0, 0)).1 % U16) else none

def Q.availableDesc (q : Q) : Nat :=
  if q.indirect then (if q.numUsed = q.n then 0 else q.n) else q.n - q.numUsed

/-- loop of the direct branch of `recycle_descriptors` -/
def recycleLoop (q : Q) (origFree : Nat) : Option Nat → List (Buf × Bool) → List Ev →
    Option (Q × Option Nat × List Ev)
  | next, [], evs => some (q, next, evs)
  | next, (b, w) :: rest, evs =>
    if b.len = 0 then none else                               -- assert_ne!
    match next with
    | none => none                                            -- expect("chain shorter than expected")
    | some di =>
      if q.n ≤ di then none else                              -- index out of bounds
      let d := q.get di
      if q.numUsed = 0 then none else                         -- u16 `-=` underflow
      let next' := if hasFlag d.flags fNEXT then some d.next else none
      let d' : Desc := { d with addr := 0, len := 0, next := if next'.isNone then origFree else d.next }
      let q1 := { (q.setShadow di d') with numUsed := q.numUsed - 1 }
      let (q2, e) := q1.writeDesc di
      recycleLoop q2 origFree next' rest (evs ++ [e, .hal (.unshare d.addr b w)])

def unshareEvs : List Desc → List (Buf × Bool) → Option (List Ev)
  | _, [] => some []
  | t, (b, w) :: rest =>
    if b.len = 0 then none else
    match t with
    | [] => none                                              -- indirect_list[i] out of bounds
    | d :: t' => (unshareEvs t' rest).map fun l => .hal (.unshare d.addr b w) :: l

/-- state after the indirect branch freed the head descriptor and its table -/
def indirectFreed (q0 : Q) (head origFree : Nat) : Q :=
  let hd := q0.get head
  { (q0.setShadow head { hd with addr := 0, len := 0, next := origFree }) with
      numUsed := q0.numUsed - 1,
      indirectLists := q0.indirectLists.setIfInBounds head none,
      tables := q0.tables.filter fun (t, _) => some t != shareIdOf hd.addr }

/-- indirect branch of `recycle_descriptors` (note: the head descriptor is *not* copied back to the
device-visible table here) -/
def recycleIndirect (q0 : Q) (head origFree : Nat) (ins outs : List Buf) : Option (Q × List Ev) :=
  match q0.indirectLists.getD head none with
  | none => none                                              -- take().unwrap()
  | some table =>
    if q0.numUsed = 0 then none else                          -- u16 `-=` underflow
    if table.length ≠ ins.length + outs.length then none else -- assert_eq!
    match unshareEvs table (tagBufs ins outs) with
    | none => none
    | some evs =>
      some (indirectFreed q0 head origFree, .hal (.unshareTable (q0.get head).addr (16 * table.length)) :: evs)

def recycleDirect (q0 : Q) (head origFree : Nat) (ins outs : List Buf) : Option (Q × List Ev) :=
  match recycleLoop q0 origFree (some head) (tagBufs ins outs) [] with
  | none => none
  | some (q1, next, evs) => if next.isSome then none else some (q1, evs)   -- "longer than expected"

def recycle (q : Q) (head : Nat) (ins outs : List Buf) : Option (Q × List Ev) :=
  if q.n ≤ head then none else
  if hasFlag (q.get head).flags fINDIRECT then recycleIndirect { q with freeHead := head } head q.freeHead ins outs
  else recycleDirect { q with freeHead := head } head q.freeHead ins outs

/-- the used-ring element the driver reads next: `(id, len)` -/
def Q.usedElem (q : Q) : Nat × Nat := q.usedRing.getD (slotOf q.n q.lastUsedIdx) (0, 0)

/-- the tail of `pop_used`: advance `last_used_idx`, re-arm `used_event` with event-index -/
def finishPop (q1 : Q) (index : Nat) : Q × List Ev :=
  let lu := (q1.lastUsedIdx + 1) % U16
  let q2 := { q1 with lastUsedIdx := lu, out := q1.out.filter fun c => c.head != index }
  if q2.eventIdx then ({ q2 with usedEvent := lu }, [.st (.usedEvent lu)]) else (q2, [])

def Q.popUsed (q : Q) (token : Nat) (ins outs : List Buf) : Q × Res × List Ev :=
  if !q.canPop then (q, .err .notReady, [])
  else if q.usedElem.1 % U16 ≠ token then (q, .err .wrongToken, [])
  else
    match recycle q (q.usedElem.1 % U16) ins outs with
    | none => (q, .panic, [])
    | some (q1, evs) =>
      ((finishPop q1 (q.usedElem.1 % U16)).1, .len q.usedElem.2, evs ++ (finishPop q1 (q.usedElem.1 % U16)).2)

/-! ### notification suppression -/

/-- `should_notify` (after fix f272f5e: serial-number comparison) -/
def Q.shouldNotify (q : Q) : Bool :=
  if q.eventIdx then decide ((q.availIdx + U16 - q.availEvent % U16 + U16 - 1) % U16 < 0x8000)
  else q.usedFlags &&& 1 == 0

def Q.setDevNotify (q : Q) (enable : Bool) : Q × List Ev :=
  let v := if enable then 0 else 1
  if !q.eventIdx then ({ q with availFlags := v }, [.st (.flags v)]) else (q, [])

/-- `add_notify_wait_pop`: add, notify if `should_notify`, wait for the device (which completes the
    chain with written length `devLen`), pop.  Returns whether `Transport::notify` was called. -/
def Q.addNotifyWaitPop (q : Q) (ins outs : List Buf) (devLen : Nat) : Q × Res × List Ev × Bool :=
  match q.add ins outs with
  | (q1, .token t, evs) =>
    let notified := q1.shouldNotify
    -- the wait loop ends when the device has used a buffer
    let q2 := { q1 with usedRing := q1.usedRing.setIfInBounds (q1.usedIdx % q1.n) (t, devLen),
                        usedIdx := (q1.usedIdx + 1) % U16 }
    let (q3, r, evs2) := q2.popUsed t ins outs
    (q3, r, evs ++ evs2, notified)
  | (q1, r, evs) => (q1, r, evs, false)

/-! ### the device's writes (any values: a hostile device is a choice of arguments) -/

def Q.devUsed (q : Q) (id len : Nat) : Q :=
  { q with usedRing := q.usedRing.setIfInBounds (q.usedIdx % q.n) (id, len), usedIdx := (q.usedIdx + 1) % U16 }

/-- an optional device completion -/
def Q.devUsedOpt (q : Q) : Option (Nat × Nat) → Q
  | some (id, len) => q.devUsed id len
  | none => q

/-- `add_notify_wait_pop` when the completion that ends its wait is **not** its own: the device
    reports `foreign = some (id, len)` during the wait, or (`none`) an earlier completion was already
    pending when the call was made.  The call submits, possibly notifies, and then pops with its own
    token. -/
def Q.addNotifyWaitPopForeign (q : Q) (ins outs : List Buf) (foreign : Option (Nat × Nat)) :
    Q × Res × List Ev × Bool :=
  match q.add ins outs with
  | (q1, .token t, evs) =>
    let (q3, r, evs2) := (q1.devUsedOpt foreign).popUsed t ins outs
    (q3, r, evs ++ evs2, q1.shouldNotify)
  | (q1, r, evs) => (q1, r, evs, false)

def Q.devSetUsedIdx (q : Q) (v : Nat) : Q := { q with usedIdx := v % U16 }
def Q.devSetUsedElem (q : Q) (slot id len : Nat) : Q :=
  { q with usedRing := q.usedRing.setIfInBounds slot (id, len) }
def Q.devSetUsedFlags (q : Q) (v : Nat) : Q := { q with usedFlags := v % U16 }
def Q.devSetAvailEvent (q : Q) (v : Nat) : Q := { q with availEvent := v % U16 }
/-- scribbling over driver-owned areas (which the device must not write) -/
def Q.devScribbleDesc (q : Q) (i : Nat) (d : Desc) : Q := { q with descTable := q.descTable.setIfInBounds i d }
def Q.devScribbleRing (q : Q) (slot v : Nat) : Q := { q with availRing := q.availRing.setIfInBounds slot v }
def Q.devScribbleIdx (q : Q) (v : Nat) : Q := { q with availIdxMem := v % U16 }

/-! ### line protocol -/

def dirStr (w : Bool) : String := if w then "DeviceToDriver" else "DriverToDevice"

def addrStr (a : Nat) : String :=
  match shareIdOf a with
  | some k => s!"S{k}"
  | none => "S?"

def descStr (d : Desc) : String := s!"({Proto.toHex d.addr},{d.len},{d.flags},{d.next})"

def HalEv.str (ap : Bool) : HalEv → String
  | .share k b w => s!"share(S{k},b{b.id},{b.len},{dirStr w},{Proto.b2s ap})"
  | .shareTable k len => s!"share(S{k},anon,{len},DriverToDevice,{Proto.b2s ap})"
  | .unshare a b w => s!"unshare({addrStr a},b{b.id},{b.len},{dirStr w},{Proto.b2s ap})"
  | .unshareTable a len => s!"unshare({addrStr a},anon,{len},DriverToDevice,{Proto.b2s ap})"

def Store.str : Store → String
  | .desc i d => s!"desc[{i}]={descStr d}"
  | .ring s v => s!"ring[{s}]={v}"
  | .idx v => s!"idx={v}"
  | .flags v => s!"flags={v}"
  | .usedEvent v => s!"used_event={v}"

def Ev.str (ap : Bool) : Ev → String
  | .hal h => h.str ap
  | .st s => s.str

def Err.str : Err → String
  | .queueFull => "QueueFull" | .notReady => "NotReady" | .wrongToken => "WrongToken"
  | .invalidParam => "InvalidParam"

def Res.str : Res → String
  | .token t => s!"ok token={t}"
  | .len l => s!"ok len={l}"
  | .err e => s!"err {e.str}"
  | .panic => "panic"
  | .unit => "ok"

def Q.privStr (q : Q) : String :=
  let pk := match q.peekUsed with | some t => toString t | none => "-"
  s!"priv={q.numUsed},{q.freeHead},{q.availIdx},{q.lastUsedIdx} q={q.availableDesc},{Proto.b2s q.canPop},{pk},{Proto.b2s q.shouldNotify}"

/-- device-visible driver-owned memory as the snapshot-diffing observer sees it -/
structure Vis where
  descTable : Array Desc
  availRing : Array Nat
  idx : Nat
  flags : Nat
  usedEvent : Nat

def Q.vis (q : Q) : Vis :=
  { descTable := q.descTable, availRing := q.availRing, idx := q.availIdxMem, flags := q.availFlags,
    usedEvent := q.usedEvent }

/-- a store that leaves the location unchanged is observed as `nochange` -/
def renderEvs (ap : Bool) : Vis → List Ev → List String
  | _, [] => []
  | v, .hal h :: rest => h.str ap :: renderEvs ap v rest
  | v, .st s :: rest =>
    match s with
    | .desc i d =>
      (if v.descTable.getD i default = d then "nochange" else s.str)
        :: renderEvs ap { v with descTable := v.descTable.setIfInBounds i d } rest
    | .ring sl x =>
      (if v.availRing.getD sl 0 = x then "nochange" else s.str)
        :: renderEvs ap { v with availRing := v.availRing.setIfInBounds sl x } rest
    | .idx x => (if v.idx = x then "nochange" else s.str) :: renderEvs ap { v with idx := x } rest
    | .flags x => (if v.flags = x then "nochange" else s.str) :: renderEvs ap { v with flags := x } rest
    | .usedEvent x =>
      (if v.usedEvent = x then "nochange" else s.str) :: renderEvs ap { v with usedEvent := x } rest

/-- apply the stores of an operation to the device-visible image -/
def Vis.apply (v : Vis) : List Ev → Vis
  | [] => v
  | .hal _ :: rest => v.apply rest
  | .st s :: rest =>
    match s with
    | .desc i d => ({ v with descTable := v.descTable.setIfInBounds i d }).apply rest
    | .ring sl x => ({ v with availRing := v.availRing.setIfInBounds sl x }).apply rest
    | .idx x => ({ v with idx := x }).apply rest
    | .flags x => ({ v with flags := x }).apply rest
    | .usedEvent x => ({ v with usedEvent := x }).apply rest

/-- the location a store writes, as a text key -/
def Store.key : Store → String
  | .desc i _ => s!"desc[{i}]"
  | .ring sl _ => s!"ring[{sl}]"
  | .idx _ => "idx"
  | .flags _ => "flags"
  | .usedEvent _ => "used_event"

/-- **Net effect** of an operation on driver-written device-visible memory, as the observer of the
harness sees it: the locations whose value after the operation differs from the value before it, as
sorted texts, the available index last.  Which intermediate values a location went through, and in which
order different locations were written before the index store, is not compared (the properties do
not fix it; "index last" is a theorem about the event list and an oracle on the real store sequence). -/
def netStores (v0 : Vis) (evs : List Ev) : List String :=
  let v1 := v0.apply evs
  let stores := evs.filterMap fun e => match e with | .st s => some s | .hal _ => none
  -- one representative per location touched
  let keys := stores.foldl (fun acc s => if acc.any (fun t => t.key == s.key) then acc else acc ++ [s]) []
  let final : Store → Option Store := fun s =>
    match s with
    | .desc i _ => if v1.descTable.getD i default = v0.descTable.getD i default then none else some (.desc i (v1.descTable.getD i default))
    | .ring sl _ => if v1.availRing.getD sl 0 = v0.availRing.getD sl 0 then none else some (.ring sl (v1.availRing.getD sl 0))
    | .idx _ => if v1.idx = v0.idx then none else some (.idx v1.idx)
    | .flags _ => if v1.flags = v0.flags then none else some (.flags v1.flags)
    | .usedEvent _ => if v1.usedEvent = v0.usedEvent then none else some (.usedEvent v1.usedEvent)
  let changed := keys.filterMap final
  let idx := changed.filter fun s => s.key == "idx"
  let rest := (changed.filter fun s => s.key != "idx").map Store.str
  (rest.toArray.qsort (· < ·)).toList ++ idx.map Store.str

def outStr (q0 q : Q) (r : Res) (evs : List Ev) (nost : Bool := false) : String :=
  -- `nost`: a hostile device scribbles over the driver-owned areas, so the snapshot-diffing
  -- observer cannot be predicted; only platform events are compared then
  let hal := evs.filterMap fun e => match e with | .hal h => some (h.str q.ap) | .st _ => none
  let toks := hal ++ (if nost then [] else netStores q0.vis evs)
  let e := if toks.isEmpty then "-" else Proto.joinWith " " toks
  s!"{r.str} | {e} | {q.privStr}"

/-- `id:len,id:len` -/
def parseBufs (s : String) : List Buf :=
  if s.isEmpty || s == "-" then [] else
  (s.splitOn ",").filterMap fun t =>
    match t.splitOn ":" with
    | [a, b] => match a.toNat?, b.toNat? with
      | some i, some l => some { id := i, len := l }
      | _, _ => none
    | _ => none

/-- one add/complete/pop cycle with a single 8-byte writable buffer (index soak) -/
def Q.cycle1 (q : Q) : Option Q :=
  match q.add [] [{ id := 0, len := 8 }] with
  | (q1, .token t, _) =>
    match (q1.devUsed t 8).popUsed t [] [{ id := 0, len := 8 }] with
    | (q2, .len _, _) => some q2
    | _ => none
  | _ => none

def Q.cycles : Nat → Q → Option Q
  | 0, q => some q
  | k + 1, q => match q.cycle1 with | some q' => Q.cycles k q' | none => none

/-- digest of one row of the `should_notify` truth table: all 2^16 event-index values -/
def tableRow (q : Q) (avail : Nat) : UInt64 := Id.run do
  let mut h : UInt64 := 0
  for e in [0:65536] do
    let b := ({ q with availIdx := avail, availEvent := e }).shouldNotify
    h := h * 6364136223846793005 + (if b then (e.toUInt64 + 1) else 0)
  return h

/-- digest over all 2^16 values of the device's `used.flags` word -/
def tableFlags (q : Q) : UInt64 := Id.run do
  let mut h : UInt64 := 0
  for f in [0:65536] do
    let b := ({ q with usedFlags := f }).shouldNotify
    h := h * 6364136223846793005 + (if b then (f.toUInt64 + 1) else 0)
  return h

def handle (q : Q) (op : String) (a : Proto.Args) : Q × String :=
  match op with
  | "table" => (q, s!"digest={(tableRow q (a.nat "a")).toNat}")
  | "tableflags" => (q, s!"digest={(tableFlags q).toNat}")
  | "anwpf" =>
    let f := match a.nat? "fid" with | some id => some (id, a.nat "flen") | none => none
    let (q', r, evs, nt) := q.addNotifyWaitPopForeign (parseBufs (a.str "in")) (parseBufs (a.str "out")) f
    (q', s!"{outStr q q' r evs} notify={Proto.b2s nt}")
  | "anwp" =>
    let (q', r, evs, nt) := q.addNotifyWaitPop (parseBufs (a.str "in")) (parseBufs (a.str "out")) (a.nat "len")
    (q', s!"{outStr q q' r evs} notify={Proto.b2s nt}")
  | "new" => let q' := Q.init (a.nat "n") (a.bool "ind") (a.bool "ev") (a.bool "ap"); (q', s!"ok | - | {q'.privStr}")
  | "add" =>
    let (q', r, evs) := q.add (parseBufs (a.str "in")) (parseBufs (a.str "out"))
    -- a panicking `add` (empty buffer on the direct path) ends the case: nothing after it is compared
    -- (today's code refuses it by a panic, which ends the case; a clean error return is the same refusal,
    -- after which the history goes on from the unchanged state)
    if r == .panic then (q', "refused-empty") else (q', outStr q q' r evs (a.bool "nost"))
  | "pop" =>
    let (q', r, evs) := q.popUsed (a.nat "tok") (parseBufs (a.str "in")) (parseBufs (a.str "out")); (q', outStr q q' r evs (a.bool "nost"))
  | "add_oom" =>
    -- the heap cannot supply the indirect table: `new_box_zeroed_with_elems(..).unwrap()` panics before
    -- anything is shared or written (a clean error return is printed alike)
    (q, "refused-oom")
  | "add_many" =>
    -- `k` one-byte device-readable buffers (k ≥ 2^16): refused like every chain longer than the queue
    let (q', r, evs) := q.add (List.replicate (a.nat "k") { id := 0, len := 1 }) []
    (q', outStr q q' r evs)
  | "add_huge" =>
    -- a buffer of 2^32 + 16 bytes: `buf.len().try_into().unwrap()` in `Descriptor::set_buf` panics
    (q, "panic")
  | "decide" =>
    -- stateless: the notification decision for the given device-side words (driver-level C05 stream)
    let q' : Q := { Q.init 1 false (a.bool "ev") false with
                    availIdx := a.nat "idx" % U16, availEvent := a.nat "avail_event" % U16, usedFlags := a.nat "flags" }
    (q, s!"notified={if q'.shouldNotify then 1 else 0}")
  | "notify" => let (q', evs) := q.setDevNotify (a.bool "en"); (q', outStr q q' .unit evs)
  | "used" => let q' := q.devUsed (a.nat "id") (a.nat "len"); (q', outStr q q' .unit [])
  | "usedidx" => let q' := q.devSetUsedIdx (a.nat "v"); (q', outStr q q' .unit [])
  | "usedelem" => let q' := q.devSetUsedElem (a.nat "slot") (a.nat "id") (a.nat "len"); (q', outStr q q' .unit [])
  | "usedflags" => let q' := q.devSetUsedFlags (a.nat "v"); (q', outStr q q' .unit [])
  | "availevent" => let q' := q.devSetAvailEvent (a.nat "v"); (q', outStr q q' .unit [])
  | "scribble" => (q, outStr q q .unit [])   -- driver-owned areas: no effect on anything the driver observes
  | "cycle" =>
    match Q.cycles (a.nat "k") q with
    | some q' => (q', outStr q q' .unit [])
    | none => (q, "cycle-failed")
  | _ => (q, "bad-op")

end VirtioVerif.Queue
