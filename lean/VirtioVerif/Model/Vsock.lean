import VirtioVerif.Model.VsockSpec
/-!
Model of the per-connection pieces of the vsock driver:

* `ConnectionInfo` credit arithmetic (`vsock.rs`: `update_for_event`, `done_forwarding`,
  `peer_free`, `new_header`, `VirtIOSocket::send` / `check_peer_buffer_is_sufficient`).  The counters
  are `u32`; they are modelled as `Nat` with explicit `% 2^32`.  The arithmetic comes in two
  flavours (`Arith.wrapping` = the tree after fix 770e6c2, `Arith.checked` = the tree before it,
  where `+`/`-` panic with overflow checks on); `none` is the Rust panic.
* `RingBuffer` of `connectionmanager.rs` (`buffer`, `used`, `start`; `add`, `drain`, `free`) with
  every checked `usize` operation, slice index and `% len` as an explicit panic outcome (`none`).
* construction of each packet header.
-/
namespace VirtioVerif.Vsock
open VirtioVerif

abbrev Byte := UInt8

def U32 : Nat := 4294967296
/-- `usize` on the 64-bit hosts the harness runs on -/
def USIZE : Nat := 18446744073709551616

/-! ### RingBuffer -/

structure Ring where
  buf : List Byte
  used : Nat
  start : Nat
deriving Repr, DecidableEq

namespace Ring

/-- `buffer.len()` -/
def cap (r : Ring) : Nat := r.buf.length

/-- `RingBuffer::new` -/
def new (capacity : Nat) : Ring := ⟨List.replicate capacity 0, 0, 0⟩

/-- `free()`: `self.buffer.len() - self.used` (truncated here; the panic on underflow is in `add?`) -/
def free (r : Ring) : Nat := r.cap - r.used

def isEmpty (r : Ring) : Bool := r.used == 0

/-- `dst[pos .. pos+data.len()].copy_from_slice(data)`; `none` = slice index out of range -/
def writeAt? (buf : List Byte) (pos : Nat) (data : List Byte) : Option (List Byte) :=
  if pos + data.length ≤ buf.length then
    some (buf.take pos ++ data ++ buf.drop (pos + data.length))
  else none

/-- `RingBuffer::add`; `none` = panic -/
def add? (r : Ring) (bytes : List Byte) : Option (Ring × Bool) :=
  -- free(): `buffer.len() - used`
  if r.cap < r.used then none else
  if bytes.length > r.cap - r.used then some (r, false) else
  -- `(start + used) % buffer.len()`
  if r.start + r.used ≥ USIZE then none else
  if r.cap = 0 then none else
  let firstAvailable := (r.start + r.used) % r.cap
  -- `buffer.len() - first_available`
  let k := min bytes.length (r.cap - firstAvailable)
  if firstAvailable + k ≥ USIZE then none else
  match writeAt? r.buf firstAvailable (bytes.take k) with
  | none => none
  | some b1 =>
    -- `bytes.get(k..)` is `Some` because `k ≤ bytes.len()`
    match writeAt? b1 0 (bytes.drop k) with
    | none => none
    | some b2 =>
      if r.used + bytes.length ≥ USIZE then none
      else some ({ buf := b2, used := r.used + bytes.length, start := r.start }, true)

/-- `RingBuffer::drain` into an output buffer of `n` bytes: the ring afterwards and the bytes
    written to `out[0..bytes_read]`; `none` = panic -/
def drain? (r : Ring) (n : Nat) : Option (Ring × List Byte) :=
  let bytesRead := min r.used n
  -- `buffer.len() - start`
  if r.cap < r.start then none else
  let before := min bytesRead (r.cap - r.start)
  -- `checked_sub(..).unwrap_or_default()`
  let after := bytesRead - before
  if r.start + before ≥ USIZE then none else
  -- `&self.buffer[start .. start+before]`, `&self.buffer[0 .. after]`, `out[before..bytes_read]`
  if r.start + before > r.cap then none else
  if after > r.cap then none else
  if before + after ≠ bytesRead then none else
  let out := (r.buf.drop r.start).take before ++ r.buf.take after
  -- `used -= bytes_read` cannot underflow (`bytes_read ≤ used`); `(start + bytes_read) % len`
  if r.start + bytesRead ≥ USIZE then none else
  if r.cap = 0 then none else
  some ({ r with used := r.used - bytesRead, start := (r.start + bytesRead) % r.cap }, out)

/-- total versions (what happens when nothing panics) -/
def add (r : Ring) (bytes : List Byte) : Ring × Bool := (r.add? bytes).getD (r, false)
def drain (r : Ring) (n : Nat) : Ring × List Byte := (r.drain? n).getD (r, [])

/-- the queue the ring represents: `used` bytes starting at `start`, wrapping inside the buffer -/
def contents (r : Ring) : List Byte :=
  (List.range r.used).map fun i => r.buf[(r.start + i) % r.cap]!

/-- representation invariant (capacity comes from a `u32`) -/
structure Wf (r : Ring) : Prop where
  cap_pos : 0 < r.cap
  cap_lt : r.cap < U32
  used_le : r.used ≤ r.cap
  start_lt : r.start < r.cap

end Ring

/-! ### ConnectionInfo -/

structure Addr where
  cid : Nat
  port : Nat
deriving DecidableEq, Repr

structure Info where
  dst : Addr
  srcPort : Nat
  peerBufAlloc : Nat := 0
  peerFwdCnt : Nat := 0
  txCnt : Nat := 0
  bufAlloc : Nat := 0
  fwdCnt : Nat := 0
  pendingCreditReq : Bool := false
deriving DecidableEq, Repr

/-- all `u32` fields are in range -/
structure Info.InRange (i : Info) : Prop where
  pba : i.peerBufAlloc < U32
  pfc : i.peerFwdCnt < U32
  tx : i.txCnt < U32
  ba : i.bufAlloc < U32
  fc : i.fwdCnt < U32

/-- which arithmetic the counters use -/
inductive Arith | wrapping | checked
deriving DecidableEq, Repr

/-- `a + b` on a byte counter: `wrapping_add` (current tree) or checked `+` (before 770e6c2) -/
def cntAdd : Arith → Nat → Nat → Option Nat
  | .wrapping, a, b => some ((a + b) % U32)
  | .checked, a, b => if a + b < U32 then some (a + b) else none

/-- `a - b` on byte counters: `wrapping_sub` or checked `-` -/
def cntSub : Arith → Nat → Nat → Option Nat
  | .wrapping, a, b => some ((a + U32 - b % U32) % U32)
  | .checked, a, b => if b ≤ a then some (a - b) else none

/-- `alloc - inflight`: `saturating_sub` or checked `-` -/
def freeSub : Arith → Nat → Nat → Option Nat
  | .wrapping, a, b => some (a - b)
  | .checked, a, b => if b ≤ a then some (a - b) else none

/-- `done_forwarding(length: usize)`: `fwd_cnt (+) (length as u32)` -/
def doneForwardingA (ar : Arith) (i : Info) (length : Nat) : Option Info :=
  (cntAdd ar i.fwdCnt (length % U32)).map fun f => { i with fwdCnt := f }

/-- `peer_free()` -/
def peerFreeA (ar : Arith) (i : Info) : Option Nat :=
  (cntSub ar i.txCnt i.peerFwdCnt).bind fun inflight => freeSub ar i.peerBufAlloc inflight

namespace Info

/-- `ConnectionInfo::new` (+ the `buf_alloc` the connection manager stores) -/
def new (dst : Addr) (srcPort : Nat) (bufAlloc : Nat := 0) : Info :=
  { dst := dst, srcPort := srcPort, bufAlloc := bufAlloc }

/-- bytes sent and not yet reported as forwarded by the peer, as the code computes it
    (`tx_cnt.wrapping_sub(peer_fwd_cnt)`) -/
def inFlight (i : Info) : Nat := (i.txCnt + U32 - i.peerFwdCnt % U32) % U32

/-- `peer_free()` of the current tree: `peer_buf_alloc.saturating_sub(in flight)` -/
def peerFree (i : Info) : Nat := i.peerBufAlloc - i.inFlight

/-- `done_forwarding` of the current tree -/
def doneForwarding (i : Info) (length : Nat) : Info :=
  { i with fwdCnt := (i.fwdCnt + length % U32) % U32 }

/-- `update_for_event`: peer credit is overwritten by every event; only a CREDIT_UPDATE clears the
    pending-request flag -/
def updateForEvent (i : Info) (bufAlloc fwdCnt : Nat) (isCreditUpdate : Bool) : Info :=
  { i with peerBufAlloc := bufAlloc, peerFwdCnt := fwdCnt,
           pendingCreditReq := if isCreditUpdate then false else i.pendingCreditReq }

end Info

/-! ### packet headers -/

structure Hdr where
  srcCid : Nat
  dstCid : Nat
  srcPort : Nat
  dstPort : Nat
  len : Nat := 0
  type : Nat := VsockSpec.TYPE_STREAM
  op : Nat := 0
  flags : Nat := 0
  bufAlloc : Nat := 0
  fwdCnt : Nat := 0
deriving DecidableEq, Repr

/-- wire image, laid out by the specification's table -/
def Hdr.encode (h : Hdr) : List Nat :=
  VsockSpec.leBytes h.srcCid 8 ++ VsockSpec.leBytes h.dstCid 8 ++ VsockSpec.leBytes h.srcPort 4
    ++ VsockSpec.leBytes h.dstPort 4 ++ VsockSpec.leBytes h.len 4 ++ VsockSpec.leBytes h.type 2
    ++ VsockSpec.leBytes h.op 2 ++ VsockSpec.leBytes h.flags 4 ++ VsockSpec.leBytes h.bufAlloc 4
    ++ VsockSpec.leBytes h.fwdCnt 4

/-- `ConnectionInfo::new_header(src_cid)`: `VirtioVsockHdr::default()` has type = stream and
    everything else zero -/
def Info.newHeader (i : Info) (srcCid : Nat) : Hdr :=
  { srcCid := srcCid, dstCid := i.dst.cid, srcPort := i.srcPort, dstPort := i.dst.port,
    bufAlloc := i.bufAlloc, fwdCnt := i.fwdCnt }

/-- header-only packets: `connect`, `accept`, `request_credit`, `credit_update`, `force_close` -/
def Info.ctlHeader (i : Info) (srcCid op : Nat) : Hdr := { (i.newHeader srcCid) with op := op }

/-- `shutdown`: `shutdown_with_hints(SEND | RECEIVE)` -/
def Info.shutdownHeader (i : Info) (srcCid : Nat) : Hdr :=
  { (i.newHeader srcCid) with
    op := VsockSpec.OP_SHUTDOWN
    flags := VsockSpec.SHUTDOWN_F_SEND + VsockSpec.SHUTDOWN_F_RECEIVE }

/-- data packet: `len = buffer.len() as u32` -/
def Info.rwHeader (i : Info) (srcCid len : Nat) : Hdr :=
  { (i.newHeader srcCid) with op := VsockSpec.OP_RW, len := len % U32 }

/-- outcome of `VirtIOSocket::send(buffer, info)` when the tx queue accepts the packet:
    the new info, whether it was accepted, the packets put on the tx queue -/
structure SendOut where
  info : Info
  accepted : Bool
  tx : List Hdr
deriving Repr

/-- `check_peer_buffer_is_sufficient` then `send`, in either arithmetic; `none` = panic -/
def sendA (ar : Arith) (i : Info) (srcCid len : Nat) : Option SendOut :=
  match peerFreeA ar i with
  | none => none
  | some free =>
    if free ≥ len then
      match cntAdd ar i.txCnt (len % U32) with
      | none => none
      | some t => some { info := { i with txCnt := t }, accepted := true, tx := [i.rwHeader srcCid len] }
    else if !i.pendingCreditReq then
      some { info := { i with pendingCreditReq := true }, accepted := false,
             tx := [i.ctlHeader srcCid VsockSpec.OP_CREDIT_REQUEST] }
    else some { info := i, accepted := false, tx := [] }

/-- `VirtIOSocket::send` of the current tree -/
def Info.send (i : Info) (srcCid len : Nat) : SendOut :=
  if i.peerFree ≥ len then
    { info := { i with txCnt := (i.txCnt + len % U32) % U32 }, accepted := true,
      tx := [i.rwHeader srcCid len] }
  else if !i.pendingCreditReq then
    { info := { i with pendingCreditReq := true }, accepted := false,
      tx := [i.ctlHeader srcCid VsockSpec.OP_CREDIT_REQUEST] }
  else { info := i, accepted := false, tx := [] }

end VirtioVerif.Vsock
