import VirtioVerif.Model.Proto
import VirtioVerif.Model.Bytes
import VirtioVerif.Model.AbsQueue
/-!
Model of the block driver (`src/device/blk.rs`) over the abstract queue.

* wire format of `BlkReq` (`#[repr(C)] { type_: u32, reserved: u32, sector: u64 }`, little-endian
  on every supported target) and of `BlkResp` (one status byte);
* the chain each operation submits: `request` = [header] / [status]; `request_read` =
  [header] / [data, status]; `request_write` = [header, data] / [status];
* `From<RespStatus> for Result`, total over all 256 status bytes;
* `new`: feature negotiation (`offered & SUPPORTED_FEATURES`), capacity `lo | hi << 32`, `readonly`;
* blocking operations (`add_notify_wait_pop`: add, the device acts while the driver spins, pop of
  *that* token) and the non-blocking API (`*_nb` = `add`, `complete_*` = `pop_used` + status).
-/
namespace VirtioVerif.Blk
open VirtioVerif VirtioVerif.AbsQueue VirtioVerif.Bytes

/-! ### wire format -/

/-- `ReqType` discriminants used by the driver -/
def T_IN : Nat := 0
def T_OUT : Nat := 1
def T_FLUSH : Nat := 4
def T_GET_ID : Nat := 8

structure Req where
  type : Nat
  reserved : Nat
  sector : Nat
deriving Repr, DecidableEq

/-- `BlkReq::as_bytes()` -/
def encodeReq (r : Req) : Bytes := le 4 r.type ++ le 4 r.reserved ++ le 8 r.sector

/-- how a device parses the 16-byte header -/
def decodeReq (b : Bytes) : Req :=
  { type := unle (b.take 4), reserved := unle ((b.drop 4).take 4), sector := unle ((b.drop 8).take 8) }

/-- `From<RespStatus> for Result` -/
def statusResult (s : Nat) : Except Err Unit :=
  if s = 0 then .ok ()
  else if s = 1 then .error .ioError
  else if s = 2 then .error .unsupported
  else if s = 3 then .error .notReady
  else .error .ioError

/-- `BlkResp::default()`: `NOT_READY` -/
def S_NOT_READY : Nat := 3

/-! ### features and configuration -/

def F_RO : Nat := 5
def F_FLUSH : Nat := 9
def F_INDIRECT : Nat := 28
def F_EVENT_IDX : Nat := 29
def F_VERSION_1 : Nat := 32
def F_ACCESS_PLATFORM : Nat := 33

/-- `SUPPORTED_FEATURES` of blk.rs -/
def SUPPORTED : Nat :=
  2 ^ F_RO ||| 2 ^ F_FLUSH ||| 2 ^ F_INDIRECT ||| 2 ^ F_EVENT_IDX ||| 2 ^ F_VERSION_1 ||| 2 ^ F_ACCESS_PLATFORM

def QUEUE_SIZE : Nat := 16
def SECTOR_SIZE : Nat := 512

structure State where
  q : Q
  /-- negotiated features -/
  features : Nat
  capacity : Nat
deriving Repr

/-- `VirtIOBlk::new` (with a config space that answers; failures of construction are C08/C09) -/
def new (offered capLo capHi : Nat) : State :=
  let neg := offered &&& SUPPORTED
  { q := Q.init QUEUE_SIZE (neg.testBit F_INDIRECT), features := neg,
    capacity := capLo ||| (capHi <<< 32) }

def State.readonly (st : State) : Bool := st.features.testBit F_RO
def State.flushOk (st : State) : Bool := st.features.testBit F_FLUSH

/-! ### chains -/

def readChain (sector len : Nat) : Chain := ⟨[encodeReq ⟨T_IN, 0, sector⟩], [len, 1]⟩
def writeChain (sector : Nat) (data : Bytes) : Chain := ⟨[encodeReq ⟨T_OUT, 0, sector⟩, data], [1]⟩
def flushChain : Chain := ⟨[encodeReq ⟨T_FLUSH, 0, 0⟩], [1]⟩
def idChain : Chain := ⟨[encodeReq ⟨T_GET_ID, 0, 0⟩], [20, 1]⟩

/-- `assert_ne!(buf.len(), 0); assert_eq!(buf.len() % SECTOR_SIZE, 0)` -/
def lenOk (len : Nat) : Bool := len != 0 && len % SECTOR_SIZE == 0

/-- the status byte the device left in the last writable segment -/
def Done.status (d : Done) : Nat := (d.data.getLast?.bind List.head?).getD S_NOT_READY

/-- the content of the data segment of a read-like chain ([data, status]) -/
def Done.rdata (d : Done) : Option Bytes := if d.data.length = 2 then d.data.head? else none

/-- what a blocking or completing call gives back -/
structure IoOut where
  res : Except Err Unit
  /-- new content of the caller's data buffer, if the call copied device data back into it -/
  buf : Option Bytes := none

/-- what the device does while a blocking call spins -/
structure DevResp where
  len : Nat
  data : List Bytes

/-- `VirtQueue::add_notify_wait_pop`: add; if nothing is in the used ring the driver spins and the
    device completes this chain; then `pop_used(token)` — which reports `WrongToken` when an older
    completion is at the head of the ring (the chain then stays in the queue). -/
def blocking (st : State) (tok : Nat) (c : Chain) (dev : DevResp) : State × Except Err Done :=
  match st.q.add tok c with
  | .error e => (st, .error e)
  | .ok q1 =>
    match (if q1.used.isEmpty then q1.complete ⟨tok, dev.len, dev.data⟩ else some q1) with
    | none => ({ st with q := q1 }, .error .hang)
    | some q2 =>
      match q2.pop tok with
      | .error e => ({ st with q := q2 }, .error e)
      | .ok (q3, d) => ({ st with q := q3 }, .ok d)

def ioOfDone (r : Except Err Done) : IoOut :=
  match r with
  | .error e => { res := .error e }
  | .ok d => { res := statusResult (Done.status d), buf := Done.rdata d }

/-- `read_blocks` -/
def readBlocks (st : State) (tok sector len : Nat) (dev : DevResp) : State × IoOut :=
  if !lenOk len then (st, { res := .error .panic }) else
  let (st', r) := blocking st tok (readChain sector len) dev
  (st', ioOfDone r)

/-- `write_blocks` -/
def writeBlocks (st : State) (tok sector : Nat) (data : Bytes) (dev : DevResp) : State × IoOut :=
  if !lenOk data.length then (st, { res := .error .panic }) else
  let (st', r) := blocking st tok (writeChain sector data) dev
  (st', { ioOfDone r with buf := none })

/-- `flush`: a request only if `VIRTIO_BLK_F_FLUSH` was negotiated, otherwise `Ok(())` at once.
    The flag says whether a chain was submitted. -/
def flush (st : State) (tok : Nat) (dev : DevResp) : State × IoOut × Bool :=
  if st.flushOk then
    let (st', r) := blocking st tok flushChain dev
    (st', { ioOfDone r with buf := none }, true)
  else (st, { res := .ok () }, false)

/-- `device_id`: on success the number of bytes before the first NUL (20 if none) -/
def deviceId (st : State) (tok : Nat) (dev : DevResp) : State × IoOut × Option Nat :=
  let (st', r) := blocking st tok idChain dev
  let o := ioOfDone r
  match o.res, o.buf with
  | .ok (), some b => (st', o, some ((b.findIdx? (· == 0)).getD 20))
  | _, _ => (st', o, none)

/-- `read_blocks_nb` -/
def readNb (st : State) (tok sector len : Nat) : State × Except Err Nat :=
  if !lenOk len then (st, .error .panic) else
  match st.q.add tok (readChain sector len) with
  | .error e => (st, .error e)
  | .ok q => ({ st with q := q }, .ok tok)

/-- `write_blocks_nb` -/
def writeNb (st : State) (tok sector : Nat) (data : Bytes) : State × Except Err Nat :=
  if !lenOk data.length then (st, .error .panic) else
  match st.q.add tok (writeChain sector data) with
  | .error e => (st, .error e)
  | .ok q => ({ st with q := q }, .ok tok)

/-- `complete_read_blocks` -/
def completeRead (st : State) (tok : Nat) : State × IoOut :=
  match st.q.pop tok with
  | .error e => (st, { res := .error e })
  | .ok (q, d) => ({ st with q := q }, ioOfDone (.ok d))

/-- `complete_write_blocks` -/
def completeWrite (st : State) (tok : Nat) : State × IoOut :=
  match st.q.pop tok with
  | .error e => (st, { res := .error e })
  | .ok (q, d) => ({ st with q := q }, { ioOfDone (.ok d) with buf := none })

/-- `peek_used` -/
def peekUsed (st : State) : Option Nat := st.q.peek

/-- device step -/
def devComplete (st : State) (d : Done) : Option State :=
  (st.q.complete d).map fun q => { st with q := q }

/-! ### line protocol -/

def segStrs (c : Chain) : List String :=
  c.rd.map (fun b => s!"R{b.length}:{canon b}") ++ c.wr.map (fun n => s!"W{n}")

def chainStr (c : Chain) : String := Proto.joinWith "|" (segStrs c)

def resStr (r : Except Err Unit) : String :=
  match r with
  | .ok () => "Ok"
  | .error e => e.str

def isPanic (r : Except Err Unit) : Bool :=
  match r with
  | .error .panic => true
  | _ => false

/-- the byte the generator pre-fills read buffers with -/
def FILL : Nat := 0xEE

def bufStr (o : IoOut) (len : Nat) : String := canon (o.buf.getD (List.replicate len FILL))

def tokArg (a : Proto.Args) : Nat := (a.nat? "tok").getD 1000000

/-- device-visible content of the writable segments, given the chain's shape -/
def devData (c : Chain) (wdata : Bytes) (status : Nat) : List Bytes :=
  if c.wr.length = 2 then [wdata, [status]] else [[status]]

def devArg (c : Chain) (a : Proto.Args) : DevResp :=
  { len := a.nat "ulen", data := devData c (parseHex (a.str "wdata")) (a.nat "status") }

/-- did the call submit a chain?  (`add` succeeded: the queue gained or kept-and-lost it) -/
def submitted (st : State) (tok : Nat) (c : Chain) : Bool :=
  match st.q.add tok c with
  | .ok _ => true
  | .error _ => false

def shown (st : State) (tok : Nat) (c : Chain) : String :=
  if submitted st tok c then chainStr c else "-"

def handle (st? : Option State) (op : String) (a : Proto.Args) : Option State × String :=
  match op, st? with
  | "new", _ =>
    let st := new (a.nat "feats") (a.nat "caplo") (a.nat "caphi")
    (some st, s!"ok neg={Proto.toHex st.features} cap={st.capacity} ro={Proto.b2s st.readonly}")
  | _, none => (none, "no-device")
  | "read", some st =>
    let (tok, sector, len) := (tokArg a, a.nat "sector", a.nat "len")
    let c := readChain sector len
    let (st', o) := readBlocks st tok sector len (devArg c a)
    if isPanic o.res then (some st', "panic") else
    (some st', s!"chain={shown st tok c} res={resStr o.res} buf={bufStr o len}")
  | "write", some st =>
    let (tok, sector, data) := (tokArg a, a.nat "sector", parseHex (a.str "data"))
    let c := writeChain sector data
    let (st', o) := writeBlocks st tok sector data (devArg c a)
    if isPanic o.res then (some st', "panic") else
    (some st', s!"chain={shown st tok c} res={resStr o.res}")
  | "flush", some st =>
    let tok := tokArg a
    let (st', o, sub) := flush st tok (devArg flushChain a)
    (some st', s!"chain={if sub then shown st tok flushChain else "-"} res={resStr o.res}")
  | "id", some st =>
    let tok := tokArg a
    let (st', o, n) := deviceId st tok (devArg idChain a)
    let ns := match n with | some k => toString k | none => "-"
    (some st', s!"chain={shown st tok idChain} res={resStr o.res} n={ns} buf={bufStr o 20}")
  | "read_nb", some st =>
    let (tok, sector, len) := (tokArg a, a.nat "sector", a.nat "len")
    match readNb st tok sector len with
    | (st', .ok t) => (some st', s!"ok {t} chain={chainStr (readChain sector len)}")
    | (st', .error .panic) => (some st', "panic")
    | (st', .error e) => (some st', s!"err {e.str}")
  | "write_nb", some st =>
    let (tok, sector, data) := (tokArg a, a.nat "sector", parseHex (a.str "data"))
    match writeNb st tok sector data with
    | (st', .ok t) => (some st', s!"ok {t} chain={chainStr (writeChain sector data)}")
    | (st', .error .panic) => (some st', "panic")
    | (st', .error e) => (some st', s!"err {e.str}")
  | "dev", some st =>
    let tok := tokArg a
    match st.q.out.find? (fun p => p.1 == tok) with
    | none => (some st, "bad-dev-op")
    | some (_, c) =>
      let dr := devArg c a
      match devComplete st ⟨tok, dr.len, dr.data⟩ with
      | none => (some st, "bad-dev-op")
      | some st' => (some st', "ok")
  | "peek", some st =>
    (some st, match peekUsed st with | none => "none" | some t => s!"some {t}")
  | "complete_read", some st =>
    let (st', o) := completeRead st (tokArg a)
    -- `ip=1`: the platform shares in place; before the completion is consumed the buffer's contents
    -- are unspecified (the device may already have written into it)
    let r := resStr o.res
    let b := if a.bool "ip" && (r == "WrongToken" || r == "NotReady") then "-" else bufStr o (a.nat "len")
    (some st', s!"res={r} buf={b}")
  | "complete_write", some st =>
    let (st', o) := completeWrite st (tokArg a)
    (some st', s!"res={resStr o.res}")
  | "outstanding", some st => (some st, s!"{st.q.out.length} pending={st.q.pending.length}")
  | _, some st => (some st, "bad-op")

end VirtioVerif.Blk
