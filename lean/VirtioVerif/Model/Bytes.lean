import VirtioVerif.Model.Proto
/-!
Byte-string helpers for the device-driver models: little-endian encoders, hex transport of byte
strings on the line protocol, canonical printing (hex up to 64 bytes, otherwise length + FNV-1a 64).
-/
namespace VirtioVerif.Bytes

/-- `n`-byte little-endian encoding of `v` (truncating, like an `as` cast to the field's width) -/
def le : Nat → Nat → List Nat
  | 0, _ => []
  | n + 1, v => (v % 256) :: le n (v / 256)

/-- little-endian decoding -/
def unle : List Nat → Nat
  | [] => 0
  | b :: r => b + 256 * unle r

def hexVal (c : Char) : Nat :=
  if c.isDigit then c.toNat - '0'.toNat
  else if 'a' ≤ c ∧ c ≤ 'f' then c.toNat - 'a'.toNat + 10
  else if 'A' ≤ c ∧ c ≤ 'F' then c.toNat - 'A'.toNat + 10
  else 0

def parseHexChars : List Char → List Nat
  | a :: b :: rest => (hexVal a * 16 + hexVal b) :: parseHexChars rest
  | _ => []

/-- `-` or empty = no bytes; otherwise an even number of hex digits, no prefix -/
def parseHex (s : String) : List Nat :=
  if s == "-" then [] else parseHexChars s.toList

def hexChars : List Nat → List Char
  | [] => []
  | b :: r => Proto.hexDigit (b / 16 % 16) :: Proto.hexDigit (b % 16) :: hexChars r

def toHexStr (bs : List Nat) : String := String.ofList (hexChars bs)

def fnv64 (bs : List Nat) : UInt64 :=
  bs.foldl (fun h b => (h ^^^ b.toUInt64) * 0x100000001b3) 0xcbf29ce484222325

/-- canonical form of a byte string -/
def canon (bs : List Nat) : String :=
  if bs.length ≤ 64 then "x" ++ toHexStr bs else s!"#{bs.length}:{Proto.toHex (fnv64 bs).toNat}"

def zeros (n : Nat) : List Nat := List.replicate n 0

end VirtioVerif.Bytes
