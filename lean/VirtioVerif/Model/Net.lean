import VirtioVerif.Model.Proto
import VirtioVerif.Model.Bytes
import VirtioVerif.Model.AbsQueue
/-!
Model of the network drivers (`src/device/net/{dev_raw.rs, dev.rs, net_buf.rs, mod.rs}`) over the
abstract queue: `VirtIONetRaw` (caller-provided buffers) and `VirtIONet` (driver-managed receive
buffers `rx_buffers[token]`).
-/
namespace VirtioVerif.Net
open VirtioVerif VirtioVerif.AbsQueue VirtioVerif.Bytes

def F_MAC : Nat := 5
def F_MRG_RXBUF : Nat := 15
def F_STATUS : Nat := 16
def F_INDIRECT : Nat := 28
def F_EVENT_IDX : Nat := 29
def F_VERSION_1 : Nat := 32
def F_ACCESS_PLATFORM : Nat := 33

/-- `SUPPORTED_FEATURES` of net/mod.rs -/
def SUPPORTED : Nat :=
  2 ^ F_MAC ||| 2 ^ F_STATUS ||| 2 ^ F_EVENT_IDX ||| 2 ^ F_INDIRECT ||| 2 ^ F_VERSION_1 ||| 2 ^ F_ACCESS_PLATFORM

def MIN_BUFFER_LEN : Nat := 1526
/-- `size_of::<VirtioNetHdrLegacy>()` -/
def HDR_LEGACY : Nat := 10
/-- `size_of::<VirtioNetHdr>()` -/
def HDR_MODERN : Nat := 12

/-! ### `VirtIONetRaw` -/

structure Raw where
  rx : Q
  tx : Q
  features : Nat
  /-- `legacy_header` -/
  legacy : Bool
deriving Repr

/-- `VirtIONetRaw::new` (construction failures are C08/C09) -/
def Raw.new (qsize offered : Nat) : Raw :=
  let neg := offered &&& SUPPORTED
  { rx := Q.init qsize (neg.testBit F_INDIRECT), tx := Q.init qsize (neg.testBit F_INDIRECT),
    features := neg, legacy := !neg.testBit F_VERSION_1 && !neg.testBit F_MRG_RXBUF }

def Raw.hdrLen (r : Raw) : Nat := if r.legacy then HDR_LEGACY else HDR_MODERN

/-- `can_send`: `send_queue.available_desc() >= 2` -/
def Raw.canSend (r : Raw) : Bool := decide (2 ≤ r.tx.availableDesc)

/-- `fill_buffer_header`: header length and the header bytes written at the start of the buffer -/
def Raw.fillHeader (r : Raw) (bufLen : Nat) : Except Err (Nat × Bytes) :=
  if bufLen < r.hdrLen then .error .invalidParam else .ok (r.hdrLen, zeros r.hdrLen)

/-- `transmit_begin`: the caller's buffer (header space included) as one device-readable segment -/
def Raw.transmitBegin (r : Raw) (tok : Nat) (buf : Bytes) : Raw × Except Err Nat :=
  if buf.length < r.hdrLen then (r, .error .invalidParam) else
  match r.tx.add tok ⟨[buf], []⟩ with
  | .error e => (r, .error e)
  | .ok q => ({ r with tx := q }, .ok tok)

def Raw.pollTransmit (r : Raw) : Option Nat := r.tx.peek

/-- `transmit_complete`: the used length -/
def Raw.transmitComplete (r : Raw) (tok : Nat) : Raw × Except Err Nat :=
  match r.tx.pop tok with
  | .error e => (r, .error e)
  | .ok (q, d) => ({ r with tx := q }, .ok d.len)

/-- `receive_begin` -/
def Raw.receiveBegin (r : Raw) (tok : Nat) (len : Nat) : Raw × Except Err Nat :=
  if len < MIN_BUFFER_LEN then (r, .error .invalidParam) else
  match r.rx.add tok ⟨[], [len]⟩ with
  | .error e => (r, .error e)
  | .ok q => ({ r with rx := q }, .ok tok)

def Raw.pollReceive (r : Raw) : Option Nat := r.rx.peek

/-- result of `receive_complete`: `(hdr_len, packet_len)`; `buf` is the buffer content the pop
    copied back (present whenever the pop itself succeeded, also for the `IoError` outcome) -/
structure RxOut where
  res : Except Err (Nat × Nat)
  buf : Option Bytes := none

/-- `receive_complete`: `len.checked_sub(hdr_size).ok_or(Error::IoError)` -/
def Raw.receiveComplete (r : Raw) (tok : Nat) : Raw × RxOut :=
  match r.rx.pop tok with
  | .error e => (r, { res := .error e })
  | .ok (q, d) =>
    let r' := { r with rx := q }
    if d.len < r.hdrLen then (r', { res := .error .ioError, buf := d.data.head? })
    else (r', { res := .ok (r.hdrLen, d.len - r.hdrLen), buf := d.data.head? })

/-- `add_notify_wait_pop` on a queue (see `Blk.blocking`) -/
def blockingQ (q : Q) (tok : Nat) (c : Chain) (len : Nat) (data : List Bytes) : Q × Except Err Done :=
  match q.add tok c with
  | .error e => (q, .error e)
  | .ok q1 =>
    match (if q1.used.isEmpty then q1.complete ⟨tok, len, data⟩ else some q1) with
    | none => (q1, .error .hang)
    | some q2 =>
      match q2.pop tok with
      | .error e => (q2, .error e)
      | .ok (q3, d) => (q3, .ok d)

/-- the chain `send` submits: a zeroed header of the negotiated size, then the payload — except
    that an empty payload is not added as a buffer -/
def Raw.sendChain (r : Raw) (payload : Bytes) : Chain :=
  if payload.isEmpty then ⟨[zeros r.hdrLen], []⟩ else ⟨[zeros r.hdrLen, payload], []⟩

/-- `send` (blocking); `ulen` is the used length the device reports -/
def Raw.send (r : Raw) (tok : Nat) (payload : Bytes) (ulen : Nat) : Raw × Except Err Unit :=
  let (q, res) := blockingQ r.tx tok (r.sendChain payload) ulen []
  ({ r with tx := q }, res.map fun _ => ())

/-- `receive_wait` (blocking): `receive_begin`, spin until `poll_receive` is `Some`, `receive_complete` -/
def Raw.receiveWait (r : Raw) (tok len : Nat) (ulen : Nat) (data : Bytes) : Raw × RxOut :=
  match r.receiveBegin tok len with
  | (r1, .error e) => (r1, { res := .error e })
  | (r1, .ok _) =>
    match (if r1.rx.used.isEmpty then r1.rx.complete ⟨tok, ulen, [data]⟩ else some r1.rx) with
    | none => (r1, { res := .error .hang })
    | some q2 => Raw.receiveComplete { r1 with rx := q2 } tok

/-! ### `RxBuffer` and `VirtIONet` -/

structure RxBuf where
  /-- which of the `QUEUE_SIZE` buffers allocated by `new` this is (not a field of the Rust
      struct: the identity of the heap allocation) -/
  id : Nat
  /-- `idx`: the token it is posted under -/
  idx : Nat
  /-- byte length of the backing `Vec<usize>` -/
  len : Nat
  data : Bytes
  packetLen : Nat
deriving Repr, DecidableEq

/-- `RxBuffer::new`: `vec![0; buf_len / size_of::<usize>()]` -/
def RxBuf.new (i bufLen : Nat) : RxBuf :=
  { id := i, idx := i, len := bufLen / 8 * 8, data := zeros (bufLen / 8 * 8), packetLen := 0 }

/-- `RxBuffer::packet`: `&buf[hdr_size..hdr_size + packet_len]`, `none` = slice index panic -/
def RxBuf.packet (b : RxBuf) (hdrLen : Nat) : Option Bytes :=
  if hdrLen + b.packetLen ≤ b.data.length then some ((b.data.drop hdrLen).take b.packetLen) else none

structure Dev where
  raw : Raw
  /-- `rx_buffers` -/
  rxBuffers : List (Option RxBuf)
  /-- buffers the caller got from `receive` and has not recycled (the caller's side of the world) -/
  held : List RxBuf
  /-- number of buffers dropped on an error path (neither posted nor with the caller) -/
  lost : Nat
deriving Repr

def Dev.posted (d : Dev) : Nat := (d.rxBuffers.filter Option.isSome).length

/-- the loop of `VirtIONet::new`; `toks[i]` is the token `receive_begin` returns for buffer `i` -/
def postAll (raw : Raw) (bufLen : Nat) : List Nat → Nat → List (Option RxBuf) → Except Err (Raw × List (Option RxBuf))
  | [], _, acc => .ok (raw, acc)
  | tok :: toks, i, acc =>
    let b := RxBuf.new i bufLen
    match raw.receiveBegin tok b.len with
    | (_, .error e) => .error e
    | (raw', .ok t) =>
      if t ≠ i then .error .panic   -- `assert_eq!(token, i as u16)`
      else postAll raw' bufLen toks (i + 1) (acc ++ [some b])

/-- `VirtIONet::new(transport, buf_len)` -/
def Dev.new (qsize offered bufLen : Nat) (toks : List Nat) : Except Err Dev :=
  match postAll (Raw.new qsize offered) bufLen (toks.take qsize ++ List.replicate (qsize - toks.length) 1000000) 0 [] with
  | .error e => .error e
  | .ok (raw, bufs) => .ok { raw := raw, rxBuffers := bufs, held := [], lost := 0 }

def Dev.canRecv (d : Dev) : Bool := d.raw.pollReceive.isSome
def Dev.canSend (d : Dev) : Bool := d.raw.canSend

/-- `VirtIONet::receive` -/
def Dev.receive (d : Dev) : Dev × Except Err RxBuf :=
  match d.raw.pollReceive with
  | none => (d, .error .notReady)
  | some token =>
    match d.rxBuffers[token]? with
    | none => (d, .error .panic)                    -- index out of bounds
    | some none => (d, .error .wrongToken)
    | some (some b) =>
      let bufs := d.rxBuffers.set token none        -- `.take()`
      if token ≠ b.idx then ({ d with rxBuffers := bufs, lost := d.lost + 1 }, .error .wrongToken)
      else
        match d.raw.receiveComplete token with
        | (raw', { res := .error e, .. }) =>
          -- `?`: the buffer taken out of `rx_buffers` is dropped
          ({ d with raw := raw', rxBuffers := bufs, lost := d.lost + 1 }, .error e)
        | (raw', { res := .ok (_, pkt), buf := data }) =>
          let b' := { b with packetLen := pkt, data := data.getD b.data }
          ({ d with raw := raw', rxBuffers := bufs, held := d.held ++ [b'] }, .ok b')

/-- `VirtIONet::recycle_rx_buffer` for a buffer the caller holds (`none`: not the caller's) -/
def Dev.recycle (d : Dev) (id : Nat) (tok : Nat) : Option (Dev × Except Err Unit) :=
  match d.held.find? (·.id == id) with
  | none => none
  | some b =>
    let held := d.held.eraseP (·.id == id)
    match d.raw.receiveBegin tok b.len with
    | (raw', .error e) => some ({ d with raw := raw', held := held, lost := d.lost + 1 }, .error e)
    | (raw', .ok newTok) =>
      match d.rxBuffers[newTok]? with
      | none => some ({ d with raw := raw', held := held, lost := d.lost + 1 }, .error .panic)
      | some (some _) => some ({ d with raw := raw', held := held, lost := d.lost + 1 }, .error .wrongToken)
      | some none =>
        some ({ d with raw := raw', held := held,
                       rxBuffers := d.rxBuffers.set newTok (some { b with idx := newTok }) }, .ok ())

/-- device step on the receive queue -/
def Dev.devRx (d : Dev) (dn : Done) : Option Dev :=
  (d.raw.rx.complete dn).map fun q => { d with raw := { d.raw with rx := q } }

/-- `VirtIONet::send` -/
def Dev.send (d : Dev) (tok : Nat) (payload : Bytes) (ulen : Nat) : Dev × Except Err Unit :=
  let (raw', r) := d.raw.send tok payload ulen
  ({ d with raw := raw' }, r)

/-! ### line protocol -/

inductive W
  | raw (r : Raw)
  | dev (d : Dev)

def chainStr (c : Chain) : String :=
  Proto.joinWith "|" (c.rd.map (fun b => s!"R{b.length}:{canon b}") ++ c.wr.map (fun n => s!"W{n}"))

def tokArg (a : Proto.Args) : Nat := (a.nat? "tok").getD 1000000

def resU (r : Except Err Unit) : String :=
  match r with
  | .ok () => "Ok"
  | .error e => e.str

def optTok (o : Option Nat) : String :=
  match o with
  | none => "none"
  | some t => s!"some {t}"

def added (q : Q) (tok : Nat) (c : Chain) : Bool :=
  match q.add tok c with
  | .ok _ => true
  | .error _ => false

/-- canonical result of a receive completion: lengths and the frame bytes -/
def rxStr (hdrLen : Nat) (o : RxOut) : String :=
  match o.res with
  | .error e => s!"err {e.str}"
  | .ok (h, p) =>
    let frame := ((o.buf.getD []).drop h).take p
    s!"ok hdr={h} pkt={p} frame={canon frame}"

def rawOf : W → Raw
  | .raw r => r
  | .dev d => d.raw

def setRaw (w : W) (r : Raw) : W :=
  match w with
  | .raw _ => .raw r
  | .dev d => .dev { d with raw := r }

def handle (w? : Option W) (op : String) (a : Proto.Args) : Option W × String :=
  match op, w? with
  | "new", _ =>
    if a.bool "raw" then
      let r := Raw.new (a.nat "q") (a.nat "feats")
      (some (.raw r), s!"ok neg={Proto.toHex r.features} hdr={r.hdrLen}")
    else
      match Dev.new (a.nat "q") (a.nat "feats") (a.nat "buflen") (a.nats "toks") with
      | .error .panic => (none, "panic")
      | .error e => (none, s!"err {e.str}")
      | .ok d => (some (.dev d), s!"ok neg={Proto.toHex d.raw.features} hdr={d.raw.hdrLen} posted={d.posted} blen={(d.rxBuffers.head?.bind id).map (·.len) |>.getD 0}")
  | _, none => (none, "no-device")
  | "can_send", some w => (some w, Proto.b2s (rawOf w).canSend)
  | "send", some w =>
    let r := rawOf w
    let (tok, payload) := (tokArg a, parseHex (a.str "data"))
    let c := r.sendChain payload
    let (r', res) := r.send tok payload (a.nat "ulen")
    (some (setRaw w r'), s!"chain={if added r.tx tok c then chainStr c else "-"} res={resU res}")
  | "fill_header", some w =>
    match (rawOf w).fillHeader (a.nat "len") with
    | .error e => (some w, s!"err {e.str}")
    | .ok (n, h) => (some w, s!"ok {n} {canon h}")
  | "tx_begin", some (.raw r) =>
    let buf := parseHex (a.str "data")
    match r.transmitBegin (tokArg a) buf with
    | (r', .ok t) => (some (.raw r'), s!"ok {t} chain={chainStr ⟨[buf], []⟩}")
    | (r', .error e) => (some (.raw r'), s!"err {e.str}")
  | "tx_poll", some (.raw r) => (some (.raw r), optTok r.pollTransmit)
  | "tx_complete", some (.raw r) =>
    match r.transmitComplete (tokArg a) with
    | (r', .ok n) => (some (.raw r'), s!"ok {n}")
    | (r', .error e) => (some (.raw r'), s!"err {e.str}")
  | "dev_tx", some (.raw r) =>
    match r.tx.complete ⟨tokArg a, a.nat "ulen", []⟩ with
    | none => (some (.raw r), "bad-dev-op")
    | some q => (some (.raw { r with tx := q }), "ok")
  | "rx_begin", some (.raw r) =>
    match r.receiveBegin (tokArg a) (a.nat "len") with
    | (r', .ok t) => (some (.raw r'), s!"ok {t} chain=W{a.nat "len"}")
    | (r', .error e) => (some (.raw r'), s!"err {e.str}")
  | "rx_poll", some (.raw r) => (some (.raw r), optTok r.pollReceive)
  | "rx_complete", some (.raw r) =>
    let (r', o) := r.receiveComplete (tokArg a)
    (some (.raw r'), rxStr r.hdrLen o)
  | "rx_wait", some (.raw r) =>
    let (r', o) := r.receiveWait (tokArg a) (a.nat "len") (a.nat "ulen") (parseHex (a.str "wdata"))
    (some (.raw r'), rxStr r.hdrLen o)
  | "dev_rx", some w =>
    let r := rawOf w
    match r.rx.complete ⟨tokArg a, a.nat "ulen", [parseHex (a.str "wdata")]⟩ with
    | none => (some w, "bad-dev-op")
    | some q => (some (setRaw w { r with rx := q }), "ok")
  | "can_recv", some (.dev d) => (some (.dev d), Proto.b2s d.canRecv)
  | "recv", some (.dev d) =>
    match d.receive with
    | (d', .error .panic) => (some (.dev d'), "panic")
    | (d', .error e) => (some (.dev d'), s!"err {e.str}")
    | (d', .ok b) =>
      let pk := match b.packet d.raw.hdrLen with
        | none => "panic"
        | some p => canon p
      (some (.dev d'), s!"ok buf={b.id} idx={b.idx} pkt={b.packetLen} frame={pk}")
  | "recycle", some (.dev d) =>
    match d.recycle (a.nat "buf") (tokArg a) with
    | none => (some (.dev d), "bad-op")
    | some (d', .error .panic) => (some (.dev d'), "panic")
    | some (d', r) => (some (.dev d'), resU r)
  | "posted", some (.dev d) =>
    (some (.dev d), s!"posted={d.posted} held={d.held.length} lost={d.lost} out={d.raw.rx.out.length}")
  | _, some w => (some w, "bad-op")

end VirtioVerif.Net
