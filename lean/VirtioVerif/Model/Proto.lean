/-!
Line protocol helpers shared by all model domains (import-free so the driver links natively).

A request line is `<domain> <op> k=v k=v …`; list values are comma-separated; the reply is one line.
-/
namespace VirtioVerif.Proto

abbrev Args := List (String × String)

def parseArgs (toks : List String) : Args :=
  toks.filterMap fun t =>
    match t.splitOn "=" with
    | [k, v] => some (k, v)
    | _ => none

def Args.get? (a : Args) (k : String) : Option String :=
  (a.find? (·.1 == k)).map (·.2)

/-- Decimal or `0x…` hexadecimal natural number. -/
def parseNat? (s : String) : Option Nat :=
  if s.startsWith "0x" then
    let ds := (s.drop 2).toString.toList
    if ds.isEmpty then none else
    ds.foldl (fun acc c =>
      match acc with
      | none => none
      | some n =>
        if c.isDigit then some (n * 16 + (c.toNat - '0'.toNat))
        else if 'a' ≤ c ∧ c ≤ 'f' then some (n * 16 + (c.toNat - 'a'.toNat + 10))
        else if 'A' ≤ c ∧ c ≤ 'F' then some (n * 16 + (c.toNat - 'A'.toNat + 10))
        else none) (some 0)
  else s.toNat?

def Args.nat? (a : Args) (k : String) : Option Nat := (a.get? k).bind parseNat?
def Args.nat (a : Args) (k : String) (d : Nat := 0) : Nat := (a.nat? k).getD d
def Args.bool (a : Args) (k : String) : Bool := a.nat k != 0
def Args.str (a : Args) (k : String) (d : String := "") : String := (a.get? k).getD d

/-- comma separated list of naturals; empty string or `-` is the empty list -/
def parseNatList (s : String) : List Nat :=
  if s.isEmpty || s == "-" then [] else (s.splitOn ",").filterMap parseNat?

def Args.nats (a : Args) (k : String) : List Nat := parseNatList (a.str k)

def hexDigit (n : Nat) : Char :=
  if n < 10 then Char.ofNat (n + '0'.toNat) else Char.ofNat (n - 10 + 'a'.toNat)

def toHexAux : Nat → Nat → List Char → List Char
  | 0, _, acc => acc
  | fuel + 1, n, acc => if n < 16 then hexDigit n :: acc else toHexAux fuel (n / 16) (hexDigit (n % 16) :: acc)

def toHex (n : Nat) : String := "0x" ++ String.ofList (toHexAux 64 n [])

def joinWith (sep : String) (l : List String) : String := sep.intercalate l

def natsStr (l : List Nat) : String := if l.isEmpty then "-" else joinWith "," (l.map toString)

def b2s (b : Bool) : String := if b then "1" else "0"

end VirtioVerif.Proto
