/-!
Abstract split-virtqueue used by the console (C15) and event-queue (C19, driver half) models.

Only what those drivers use is modelled: **one-descriptor chains**.  The queue is a map
`token ↦ outstanding buffer`:

* `posted` – chains the driver has made available and the device has not completed yet;
* `used`   – chains the device has completed (with the length it reported), in used-ring order,
             not yet popped by the driver;
* `free`   – the memory of the descriptor allocator; *which* token `add` hands out is the business
             of an `Alloc` policy, so the "same token again" behaviour that `OwningQueue` and
             `VirtIOInput` assert is an explicit hypothesis (`Alloc.Lifo`) of the theorems and not
             baked into this file.  The concrete free list of `queue.rs` (a LIFO stack threaded
             through `desc[i].next`, initially `0 → 1 → … → SIZE-1`) is the instance `Alloc.stack`.

Assumptions of this abstraction (to be discharged by the queue-core refinement, C01–C03/C19):
 A1 `VirtQueue::add` of a one-descriptor chain fails with `QueueFull` iff `num_used + 1 > SIZE`
    where `num_used` = posted + used-but-not-popped chains (all chains here have one descriptor,
    so the indirect/direct distinction never arises: `add` takes the indirect path only for
    `descriptors_needed > 1`); it panics (`assert_ne!(buffer.len(), 0)`) on an empty buffer.
 A2 `peek_used`/`pop_used` observe completions in used-ring order; `pop_used(t)` is `NotReady` on
    an empty ring and `WrongToken` if the head is another token; on success it returns the length
    the device reported, copies the device-visible bytes back into the driver's buffer
    (`Hal::unshare`) and frees the descriptor (`Alloc.give`).
 A3 the device completes only chains that are posted, each once, in any order, writing at most
    `cap` bytes into a device-writable chain and reporting any length (hostile ids / index jumps
    are C07's business, not modelled here).
 A4 token choice: `Alloc.InitSeq` (a fresh queue hands out 0,1,2,…) and `Alloc.Lifo` (after
    `pop_used t` of a one-descriptor chain the next `add` of one buffer returns `t`).
-/
namespace VirtioVerif.EvQueue

/-- the crate's `Error` values that can occur here -/
inductive Err
  | queueFull | notReady | wrongToken | invalidParam | ioError | unsupported
  | configSpaceMissing | configSpaceTooSmall
deriving DecidableEq, Repr

def Err.str : Err → String
  | .queueFull => "QueueFull" | .notReady => "NotReady" | .wrongToken => "WrongToken"
  | .invalidParam => "InvalidParam" | .ioError => "IoError" | .unsupported => "Unsupported"
  | .configSpaceMissing => "ConfigSpaceMissing" | .configSpaceTooSmall => "ConfigSpaceTooSmall"

/-- abnormal endings: an `Err(..)`, a Rust panic, or `stuck` = the allocator had no token although
    the occupancy check passed (impossible in `queue.rs`; kept explicit instead of totalised) -/
inductive Fault
  | err (e : Err) | panic | stuck
deriving DecidableEq, Repr

def Fault.str : Fault → String
  | .err e => s!"err {e.str}" | .panic => "panic" | .stuck => "stuck"

/-- a posted one-descriptor chain -/
structure Buf where
  token : Nat
  /-- which driver buffer backs the chain (`buffers[i]`, `event_buf[i]`; 0 for the console) -/
  owner : Nat
  cap : Nat
  /-- device-visible bytes: the driver's bytes for a device-readable chain; for a device-writable
      chain the prefix the device has written (the rest is whatever `Hal::share` exposed) -/
  data : List Nat
  writable : Bool
deriving DecidableEq, Repr

structure AQ where
  size : Nat
  free : List Nat
  posted : List Buf
  used : List (Buf × Nat)
deriving Repr

/-- descriptor allocation policy over an opaque free-token memory -/
structure Alloc where
  take : List Nat → Option (Nat × List Nat)
  give : List Nat → Nat → List Nat

/-- the free list of `queue.rs`: a stack -/
def Alloc.stack : Alloc where
  take | [] => none | t :: f => some (t, f)
  give f t := t :: f

/-- a first-in-first-out free list (used only for negative witnesses) -/
def Alloc.fifo : Alloc where
  take | [] => none | t :: f => some (t, f)
  give f t := f ++ [t]

/-- A4a: after `pop_used t`, `add` returns `t` and the allocator is back where it was -/
def Alloc.Lifo (A : Alloc) : Prop := ∀ f t, A.take (A.give f t) = some (t, f)

/-- A4b: a fresh queue hands out descriptors in index order -/
def Alloc.InitSeq (A : Alloc) : Prop :=
  ∀ k m, A.take (List.range' k (m + 1)) = some (k, List.range' (k + 1) m)

def AQ.init (n : Nat) : AQ := ⟨n, List.range' 0 n, [], []⟩

def AQ.inUse (q : AQ) : Nat := q.posted.length + q.used.length

/-- `VirtQueue::add(&[], &mut [buf])` / `add(&[buf], &mut [])` -/
def AQ.add (A : Alloc) (q : AQ) (owner cap : Nat) (data : List Nat) (writable : Bool) :
    Except Fault (Nat × AQ) :=
  if q.inUse + 1 > q.size then .error (.err .queueFull)
  else if cap = 0 then .error .panic
  else match A.take q.free with
    | none => .error .stuck
    | some (t, f) => .ok (t, { q with free := f, posted := q.posted ++ [⟨t, owner, cap, data, writable⟩] })

/-- `VirtQueue::peek_used` -/
def AQ.peekUsed (q : AQ) : Option Nat := q.used.head?.map (·.1.token)

/-- `VirtQueue::can_pop` -/
def AQ.canPop (q : AQ) : Bool := !q.used.isEmpty

/-- `VirtQueue::pop_used(token, …)`: reported length, the chain (with the device-visible bytes that
    `unshare` copies back), new queue -/
def AQ.popUsed (A : Alloc) (q : AQ) (t : Nat) : Except Fault (Nat × Buf × AQ) :=
  match q.used with
  | [] => .error (.err .notReady)
  | (b, len) :: rest =>
    if b.token ≠ t then .error (.err .wrongToken)
    else .ok (len, b, { q with used := rest, free := A.give q.free t })

/-- environment: the device completes the `i`-th posted chain, having written `data` (truncated to
    the capacity; ignored for a device-readable chain), reporting `len` -/
def AQ.devComplete (q : AQ) (i : Nat) (data : List Nat) (len : Nat) : Option AQ :=
  match q.posted[i]? with
  | none => none
  | some b =>
    some { q with posted := q.posted.take i ++ q.posted.drop (i + 1),
                  used := q.used ++ [({ b with data := if b.writable then data.take b.cap else b.data }, len)] }

/-- The byte the harness HAL pre-fills device-writable bounce buffers with: what the driver reads
    back from positions the device did not write.  (With an identity-mapping HAL these positions
    hold stale data instead; no theorem depends on the value.) -/
def POISON : Nat := 0xA5

/-- `l` as a buffer of exactly `n` bytes: truncated, or padded with the unwritten-byte value -/
def padTo (l : List Nat) (n : Nat) : List Nat := l.take n ++ List.replicate (n - l.length) POISON

def USIZE : Nat := 2 ^ 64

end VirtioVerif.EvQueue
