import VirtioVerif.Model.Wire
import VirtioVerif.Model.Proto
/-!
Models of the three single-request drivers: `src/device/rng.rs` (entropy), `src/device/rtc.rs`
(clock) and `src/device/virtio_9p.rs` (9P transport).  Each operation is one `add_notify_wait_pop`
round trip; the device is the environment (what it wrote and the length it reported are inputs).
`Spec` namespaces hold the structure tables written from the specifications: VirtIO 1.2 §5.4
(entropy), the VirtIO 1.4 RTC device section (`virtio_rtc_req_*` / `virtio_rtc_resp_*`), §5.? 9P
transport (`virtio_9p_config`) and the 9P message framing `size[4] type[1] tag[2]`.
-/
namespace VirtioVerif.Small
open VirtioVerif VirtioVerif.Wire

/-- content of device-writable memory the device did not write (the ledger platform's poison) -/
def POISON : Nat := 0xA5

/-- a device-writable buffer of `len` bytes after the device wrote `written` into it -/
def afterWrite (len : Nat) (written : Bytes) : Bytes := (written ++ List.replicate len POISON).take len

inductive Err | ioError | invalidParam | unsupported | cfgTooSmall | cfgMissing
deriving Repr, DecidableEq

def Err.str : Err → String
  | .ioError => "IoError" | .invalidParam => "InvalidParam" | .unsupported => "Unsupported"
  | .cfgTooSmall => "ConfigSpaceTooSmall" | .cfgMissing => "ConfigSpaceMissing"

/-- the descriptor chain an operation places on its queue -/
structure ChainShape where
  rd : List Bytes
  wr : List Nat
deriving Repr, DecidableEq

inductive Res (α : Type) | ok (a : α) | err (e : Err) | panic
deriving Repr

/-! ## entropy (§5.4): the driver offers one device-writable buffer; no request structure -/
namespace Rng

/-- `request_entropy(dst)`: chain, result = the used length the device reported -/
def requestEntropy (dstLen : Nat) (used : Nat) : Option ChainShape × Res Nat :=
  -- `add_direct` asserts every buffer is non-empty
  if dstLen = 0 then (none, .panic)
  else (some { rd := [], wr := [dstLen] }, .ok used)

end Rng

/-! ## clock (RTC) -/
namespace Rtc

def REQ_READ : Nat := 0x0001
def REQ_CFG : Nat := 0x1000
def REQ_CLOCK_CAP : Nat := 0x1001

/-- `VirtioRtcReqHead` -/
def encHead (msgType : Nat) : Bytes := le16 msgType ++ zeros 6
/-- `VirtioRtcReqHead { msg_type: CFG }` (the driver sends the bare head for `virtio_rtc_req_cfg`) -/
def encCfg : Bytes := encHead REQ_CFG
/-- `VirtioRtcReqClockCap` -/
def encClockCap (clock : Nat) : Bytes := encHead REQ_CLOCK_CAP ++ le16 clock ++ zeros 6
/-- `VirtioRtcReqRead` -/
def encRead (clock : Nat) : Bytes := encHead REQ_READ ++ le16 clock ++ zeros 6

namespace Spec
/-- `struct virtio_rtc_req_head { le16 msg_type; u8 reserved[6]; }` -/
def reqHead : List Field := [(0, 2), (2, 6)]
/-- `struct virtio_rtc_req_cfg { head; }` -/
def reqCfg : List Field := reqHead
/-- `struct virtio_rtc_req_clock_cap { head; le16 clock_id; u8 reserved[6]; }` -/
def reqClockCap : List Field := reqHead ++ [(8, 2), (10, 6)]
/-- `struct virtio_rtc_req_read { head; le16 clock_id; u8 reserved[6]; }` -/
def reqRead : List Field := reqHead ++ [(8, 2), (10, 6)]
/-- `struct virtio_rtc_resp_head { u8 status; u8 reserved[7]; }` -/
def respHead : List Field := [(0, 1), (1, 7)]
/-- `struct virtio_rtc_resp_cfg { head; le16 num_clocks; u8 reserved[6]; }` -/
def respCfg : List Field := respHead ++ [(8, 2), (10, 6)]
/-- `struct virtio_rtc_resp_clock_cap { head; u8 type; u8 leap_second_smearing; u8 flags; u8 reserved[5]; }` -/
def respClockCap : List Field := respHead ++ [(8, 1), (9, 1), (10, 1), (11, 5)]
/-- `struct virtio_rtc_resp_read { head; le64 clock_reading; }` -/
def respRead : List Field := respHead ++ [(8, 8)]
def VIRTIO_RTC_REQ_READ : Nat := 0x0001
def VIRTIO_RTC_REQ_CFG : Nat := 0x1000
def VIRTIO_RTC_REQ_CLOCK_CAP : Nat := 0x1001
def VIRTIO_RTC_S_OK : Nat := 0
end Spec

/-- the `match head.status` of `VirtIORtc::request` -/
def statusResult (status : Nat) : Option Err :=
  if status = 0 then none
  else if status = 2 then some .unsupported
  else if status = 3 ∨ status = 4 then some .invalidParam
  else some .ioError

/-- one round trip: request bytes, response structure size ↦ what the driver finds (`rsp` = bytes the
device wrote), `Ok(resp)` only for status 0 -/
def request (rspLen : Nat) (rsp : Bytes) : Except Err Bytes :=
  let r := afterWrite rspLen rsp
  match statusResult (fieldAt r 0 1) with
  | none => .ok r
  | some e => .error e

def numClocks (rsp : Bytes) : ChainShape × Except Err Nat :=
  ({ rd := [encCfg], wr := [16] }, (request 16 rsp).map fun r => fieldAt r 8 2)

inductive ClockType | utc | tai | monotonic | utcSmeared | utcMaybeSmeared
deriving Repr, DecidableEq
inductive Smear | noonLinear | utcSls
deriving Repr, DecidableEq

structure Caps where
  kind : ClockType
  smear : Option Smear
  alarm : Bool
deriving Repr, DecidableEq

def clockCap (clock : Nat) (rsp : Bytes) : ChainShape × Except Err Caps :=
  ({ rd := [encClockCap clock], wr := [16] },
   match request 16 rsp with
   | .error e => .error e
   | .ok r =>
     let kind? : Option ClockType := match fieldAt r 8 1 with
       | 0 => some .utc | 1 => some .tai | 2 => some .monotonic | 3 => some .utcSmeared
       | 4 => some .utcMaybeSmeared | _ => none
     match kind? with
     | none => .error .unsupported
     | some kind =>
       let smear? : Option (Option Smear) :=
         if kind = .utcSmeared then
           match fieldAt r 9 1 with
           | 0 => some none | 2 => some (some .utcSls) | 1 => some (some .noonLinear) | _ => none
         else some none
       match smear? with
       | none => .error .unsupported
       | some sm => .ok { kind := kind, smear := sm, alarm := fieldAt r 10 1 % 2 = 1 })

def read (clock : Nat) (rsp : Bytes) : ChainShape × Except Err Nat :=
  ({ rd := [encRead clock], wr := [16] }, (request 16 rsp).map fun r => fieldAt r 8 8)

end Rtc

/-! ## 9P -/
namespace P9

def P9_HEADER_SIZE : Nat := 7

namespace Spec
/-- 9P message framing: `size[4] type[1] tag[2]` — `size` counts the whole message, little-endian -/
def header : List Field := [(0, 4), (4, 1), (5, 2)]
/-- `struct virtio_9p_config { le16 tag_len; u8 tag[tag_len]; }` -/
def configTagLen : Field := (0, 2)
def configTagOff : Nat := 2
end Spec

/-- `VirtIO9p::request(req, resp)`: the request bytes go out verbatim as one readable buffer; the
response is accepted only if its 9P `size` field equals the length the device reported -/
def request (req : Bytes) (respLen : Nat) (written : Bytes) (used : Nat) :
    Option ChainShape × Except Err Nat × Bytes :=
  if req = [] ∨ respLen < P9_HEADER_SIZE then (none, .error .invalidParam, [])
  else
    let resp := afterWrite respLen written
    let size := fieldAt resp 0 4
    (some { rd := [req], wr := [respLen] }, if size ≠ used then .error .ioError else .ok used, resp)

/-- `read_mount_tag` over the device's configuration bytes (`utf8` = validity of the tag bytes) -/
def mountTag (cfg : Bytes) (utf8 : Bytes → Bool) : Except Err Bytes :=
  if cfg = [] then .error .cfgMissing
  else if cfg.length < 2 then .error .cfgTooSmall
  else
    let n := fieldAt cfg 0 2
    if n = 0 then .error .invalidParam
    else if cfg.length < 2 + n then .error .cfgTooSmall
    else
      let tag := (cfg.drop 2).take n
      if utf8 tag then .ok tag else .error .ioError

end P9

/-! ### line protocol -/

def chainStr : Option ChainShape → String
  | none => ""
  | some c => s!"chain(rd={Proto.joinWith "+" (c.rd.map hexOf)},wr={Proto.natsStr c.wr}) "

def utf8Valid (b : Bytes) : Bool :=
  (String.fromUTF8? (ByteArray.mk (b.map UInt8.ofNat).toArray)).isSome

def exStr {α : Type} (f : α → String) : Except Err α → String
  | .ok a => "ok " ++ f a
  | .error e => "err " ++ e.str

def handle (dom op : String) (a : Proto.Args) : String :=
  let bytes (k : String) : Bytes := unhex (a.str k "-")
  match dom, op with
  | "rng", "entropy" =>
    let (c, r) := Rng.requestEntropy (a.nat "len") (a.nat "used")
    chainStr c ++ "=> " ++ (match r with
      | .ok n => s!"ok {n} dst={fnv64 (afterWrite (a.nat "len") (bytes "w"))}"
      | .err e => s!"err {e.str}" | .panic => "panic")
  | "rtc", "num_clocks" =>
    let (c, r) := Rtc.numClocks (bytes "rsp"); chainStr (some c) ++ "=> " ++ exStr toString r
  | "rtc", "clock_cap" =>
    let (c, r) := Rtc.clockCap (a.nat "id") (bytes "rsp")
    chainStr (some c) ++ "=> " ++ exStr (fun (k : Rtc.Caps) =>
      let kind := match k.kind with
        | .utc => "Utc" | .tai => "Tai" | .monotonic => "Monotonic" | .utcSmeared => "UtcSmeared"
        | .utcMaybeSmeared => "UtcMaybeSmeared"
      let sm := match k.smear with | none => "None" | some .noonLinear => "NoonLinear" | some .utcSls => "UtcSls"
      s!"{kind},{sm},{Proto.b2s k.alarm}") r
  | "rtc", "read" =>
    let (c, r) := Rtc.read (a.nat "id") (bytes "rsp"); chainStr (some c) ++ "=> " ++ exStr toString r
  | "p9", "new" => "=> " ++ exStr hexOf (P9.mountTag (bytes "cfg") utf8Valid)
  | "p9", "request" =>
    let (c, r, resp) := P9.request (bytes "req") (a.nat "rlen") (bytes "w") (a.nat "used")
    chainStr c ++ "=> " ++ (match r with
      | .ok n => s!"ok {n} resp={fnv64 resp}"
      | .error e => s!"err {e.str}")
  | _, _ => "bad-op"

end VirtioVerif.Small
