import VirtioVerif.Model.Wire
import VirtioVerif.Model.Proto
import VirtioVerif.Model.Edid
/-!
Model of `src/device/gpu/mod.rs`: byte-level encoders of every command the driver emits, the
`check_type` response test, and the sequencing machines of the public operations
(`resolution`, `get_edid`, `setup_framebuffer`, `change_resolution`, `flush`, `setup_cursor`,
`move_cursor`, drop) including their DMA allocations and releases.

The device is the environment: `Dev` maps (index of the control request inside the operation,
request bytes) to the bytes found in the response buffer afterwards — any function whatsoever.
`Gpu.Spec` holds the structure tables of VirtIO 1.2 §5.7.6.7–§5.7.6.10 written from the
specification.
-/
namespace VirtioVerif.Gpu
open VirtioVerif VirtioVerif.Wire

/-! ### constants of the driver -/
def RESOURCE_ID_FB : Nat := 0xbabe
def RESOURCE_ID_CURSOR : Nat := 0xdade
def SCANOUT_ID : Nat := 0
def CURSOR_W : Nat := 64
def CURSOR_H : Nat := 64
def PAGE : Nat := 4096

def CMD_GET_DISPLAY_INFO : Nat := 0x100
def CMD_RESOURCE_CREATE_2D : Nat := 0x101
def CMD_RESOURCE_UNREF : Nat := 0x102
def CMD_SET_SCANOUT : Nat := 0x103
def CMD_RESOURCE_FLUSH : Nat := 0x104
def CMD_TRANSFER_TO_HOST_2D : Nat := 0x105
def CMD_RESOURCE_ATTACH_BACKING : Nat := 0x106
def CMD_RESOURCE_DETACH_BACKING : Nat := 0x107
def CMD_GET_EDID : Nat := 0x10a
def CMD_UPDATE_CURSOR : Nat := 0x300
def CMD_MOVE_CURSOR : Nat := 0x301
def RESP_OK_NODATA : Nat := 0x1100
def RESP_OK_DISPLAY_INFO : Nat := 0x1101
def RESP_OK_EDID : Nat := 0x1104
def FORMAT_B8G8R8A8_UNORM : Nat := 1

/-! ### encoders (`#[repr(C)]` structs written with `write_to_prefix`) -/

/-- `CtrlHeader::with_type` -/
def encHdr (t : Nat) : Bytes := le32 t ++ le32 0 ++ le64 0 ++ le32 0 ++ le32 0

def encRect (x y w h : Nat) : Bytes := le32 x ++ le32 y ++ le32 w ++ le32 h

def encGetDisplayInfo : Bytes := encHdr CMD_GET_DISPLAY_INFO
def encGetEdid (scanout : Nat) : Bytes := encHdr CMD_GET_EDID ++ le32 scanout ++ le32 0
def encResourceCreate2d (id w h : Nat) : Bytes :=
  encHdr CMD_RESOURCE_CREATE_2D ++ le32 id ++ le32 FORMAT_B8G8R8A8_UNORM ++ le32 w ++ le32 h
def encResourceUnref (id : Nat) : Bytes := encHdr CMD_RESOURCE_UNREF ++ le32 id ++ le32 0
def encSetScanout (x y w h scanout id : Nat) : Bytes :=
  encHdr CMD_SET_SCANOUT ++ encRect x y w h ++ le32 scanout ++ le32 id
def encResourceFlush (x y w h id : Nat) : Bytes :=
  encHdr CMD_RESOURCE_FLUSH ++ encRect x y w h ++ le32 id ++ le32 0
def encTransferToHost2d (x y w h off id : Nat) : Bytes :=
  encHdr CMD_TRANSFER_TO_HOST_2D ++ encRect x y w h ++ le64 off ++ le32 id ++ le32 0
/-- header + the single `virtio_gpu_mem_entry` the driver appends (`nr_entries` is always 1) -/
def encResourceAttachBacking (id addr len : Nat) : Bytes :=
  encHdr CMD_RESOURCE_ATTACH_BACKING ++ le32 id ++ le32 1 ++ le64 addr ++ le32 len ++ le32 0
def encResourceDetachBacking (id : Nat) : Bytes :=
  encHdr CMD_RESOURCE_DETACH_BACKING ++ le32 id ++ le32 0
def encCursor (isMove : Bool) (scanout x y id hotX hotY : Nat) : Bytes :=
  encHdr (if isMove then CMD_MOVE_CURSOR else CMD_UPDATE_CURSOR)
    ++ le32 scanout ++ le32 x ++ le32 y ++ le32 0 ++ le32 id ++ le32 hotX ++ le32 hotY ++ le32 0

/-- the commands the driver emits, as structured values (`region` names a DMA region of the
platform; its device address is `base + region * stride`) -/
inductive Cmd
  | getDisplayInfo
  | getEdid (scanout : Nat)
  | create2d (id w h : Nat)
  | unref (id : Nat)
  | setScanout (x y w h scanout id : Nat)
  | flush (x y w h id : Nat)
  | transfer (x y w h off id : Nat)
  | attach (id region len : Nat)
  | detach (id : Nat)
  | cursor (isMove : Bool) (scanout x y id hotX hotY : Nat)
deriving Repr, DecidableEq

/-- the bytes placed in the send buffer for a command -/
def Cmd.encode (base stride : Nat) : Cmd → Bytes
  | .getDisplayInfo => encGetDisplayInfo
  | .getEdid sc => encGetEdid sc
  | .create2d id w h => encResourceCreate2d id w h
  | .unref id => encResourceUnref id
  | .setScanout x y w h sc id => encSetScanout x y w h sc id
  | .flush x y w h id => encResourceFlush x y w h id
  | .transfer x y w h off id => encTransferToHost2d x y w h off id
  | .attach id region len => encResourceAttachBacking id (base + region * stride) len
  | .detach id => encResourceDetachBacking id
  | .cursor m sc x y id hx hy => encCursor m sc x y id hx hy

def Cmd.type : Cmd → Nat
  | .getDisplayInfo => CMD_GET_DISPLAY_INFO
  | .getEdid _ => CMD_GET_EDID
  | .create2d .. => CMD_RESOURCE_CREATE_2D
  | .unref _ => CMD_RESOURCE_UNREF
  | .setScanout .. => CMD_SET_SCANOUT
  | .flush .. => CMD_RESOURCE_FLUSH
  | .transfer .. => CMD_TRANSFER_TO_HOST_2D
  | .attach .. => CMD_RESOURCE_ATTACH_BACKING
  | .detach _ => CMD_RESOURCE_DETACH_BACKING
  | .cursor m .. => if m then CMD_MOVE_CURSOR else CMD_UPDATE_CURSOR

/-- the response type `check_type` is called with after this command -/
def Cmd.expected : Cmd → Nat
  | .getDisplayInfo => RESP_OK_DISPLAY_INFO
  | .getEdid _ => RESP_OK_EDID
  | _ => RESP_OK_NODATA

/-! ### specification tables (VirtIO 1.2 §5.7.6.7 ff.), `(offset, size)` little-endian -/
namespace Spec
/-- `struct virtio_gpu_ctrl_hdr { le32 type; le32 flags; le64 fence_id; le32 ctx_id; u8 ring_idx; u8 padding[3]; }` -/
def ctrlHdr : List Field := [(0, 4), (4, 4), (8, 8), (16, 4), (20, 4)]
/-- `struct virtio_gpu_rect { le32 x; le32 y; le32 width; le32 height; }` at offset `o` -/
def rect (o : Nat) : List Field := [(o, 4), (o + 4, 4), (o + 8, 4), (o + 12, 4)]
/-- `virtio_gpu_get_edid { hdr; le32 scanout; le32 padding; }` -/
def getEdid : List Field := ctrlHdr ++ [(24, 4), (28, 4)]
/-- `virtio_gpu_resource_create_2d { hdr; le32 resource_id; le32 format; le32 width; le32 height; }` -/
def resourceCreate2d : List Field := ctrlHdr ++ [(24, 4), (28, 4), (32, 4), (36, 4)]
/-- `virtio_gpu_resource_unref { hdr; le32 resource_id; le32 padding; }` -/
def resourceUnref : List Field := ctrlHdr ++ [(24, 4), (28, 4)]
/-- `virtio_gpu_set_scanout { hdr; rect r; le32 scanout_id; le32 resource_id; }` -/
def setScanout : List Field := ctrlHdr ++ rect 24 ++ [(40, 4), (44, 4)]
/-- `virtio_gpu_resource_flush { hdr; rect r; le32 resource_id; le32 padding; }` -/
def resourceFlush : List Field := ctrlHdr ++ rect 24 ++ [(40, 4), (44, 4)]
/-- `virtio_gpu_transfer_to_host_2d { hdr; rect r; le64 offset; le32 resource_id; le32 padding; }` -/
def transferToHost2d : List Field := ctrlHdr ++ rect 24 ++ [(40, 8), (48, 4), (52, 4)]
/-- `virtio_gpu_resource_attach_backing { hdr; le32 resource_id; le32 nr_entries; }` followed by
`virtio_gpu_mem_entry { le64 addr; le32 length; le32 padding; }` -/
def resourceAttachBacking1 : List Field := ctrlHdr ++ [(24, 4), (28, 4)] ++ [(32, 8), (40, 4), (44, 4)]
/-- `virtio_gpu_resource_detach_backing { hdr; le32 resource_id; le32 padding; }` -/
def resourceDetachBacking : List Field := ctrlHdr ++ [(24, 4), (28, 4)]
/-- `virtio_gpu_update_cursor { hdr; virtio_gpu_cursor_pos { le32 scanout_id; le32 x; le32 y; le32 padding; } pos;
le32 resource_id; le32 hot_x; le32 hot_y; le32 padding; }` -/
def updateCursor : List Field := ctrlHdr ++ [(24, 4), (28, 4), (32, 4), (36, 4)] ++ [(40, 4), (44, 4), (48, 4), (52, 4)]
/-- `virtio_gpu_resp_display_info { hdr; struct { rect r; le32 enabled; le32 flags; } pmodes[16]; }`: first mode -/
def respDisplayInfo0 : List Field := ctrlHdr ++ rect 24 ++ [(40, 4), (44, 4)]
/-- `virtio_gpu_resp_edid { hdr; le32 size; le32 padding; u8 edid[1024]; }`: numeric fields -/
def respEdidHead : List Field := ctrlHdr ++ [(24, 4), (28, 4)]
def respEdidBlobOff : Nat := 32
def respEdidBlobLen : Nat := 1024
/-- command and response type numbers, §5.7.6.7 `enum virtio_gpu_ctrl_type` -/
def T_GET_DISPLAY_INFO : Nat := 0x0100
def T_RESOURCE_CREATE_2D : Nat := 0x0101
def T_RESOURCE_UNREF : Nat := 0x0102
def T_SET_SCANOUT : Nat := 0x0103
def T_RESOURCE_FLUSH : Nat := 0x0104
def T_TRANSFER_TO_HOST_2D : Nat := 0x0105
def T_RESOURCE_ATTACH_BACKING : Nat := 0x0106
def T_RESOURCE_DETACH_BACKING : Nat := 0x0107
def T_GET_EDID : Nat := 0x010a
def T_UPDATE_CURSOR : Nat := 0x0300
def T_MOVE_CURSOR : Nat := 0x0301
def T_OK_NODATA : Nat := 0x1100
def T_OK_DISPLAY_INFO : Nat := 0x1101
def T_OK_EDID : Nat := 0x1104
/-- the success response type the specification defines for a command type -/
def okTypeFor (cmd : Nat) : Nat :=
  if cmd = T_GET_DISPLAY_INFO then T_OK_DISPLAY_INFO
  else if cmd = T_GET_EDID then T_OK_EDID
  else T_OK_NODATA
end Spec

/-! ### driver state and the sequencing machines -/

structure Dma where
  region : Nat
  pages : Nat
deriving Repr, DecidableEq

inductive Ev
  /-- a command placed on queue `q` (0 = control, 1 = cursor) -/
  | req (q : Nat) (cmd : Cmd)
  /-- `dma_alloc` of `pages` pages; on success the platform hands out region `region` -/
  | alloc (region pages : Nat) (ok : Bool)
  | dealloc (region pages : Nat)
deriving Repr, DecidableEq

inductive Err | ioError | dmaError | invalidParam | notReady | unsupported
deriving Repr, DecidableEq

def Err.str : Err → String
  | .ioError => "IoError" | .dmaError => "DmaError" | .invalidParam => "InvalidParam"
  | .notReady => "NotReady" | .unsupported => "Unsupported"

inductive Val
  | unit
  | fbLen (n : Nat)
  | res (w h : Nat)
  | edid (blob : Bytes) (size : Nat)
deriving Repr, DecidableEq

inductive Res | ok (v : Val) | err (e : Err) | panic
deriving Repr, DecidableEq

structure St where
  hasEdid : Bool := false
  ap : Bool := false
  rect : Option (Nat × Nat × Nat × Nat) := none
  fb : Option Dma := none
  cursor : Option Dma := none
  /-- index the next `dma_alloc` will get from the platform -/
  nextDma : Nat := 0
  /-- device address of region `k` is `base + k * stride` (a property of the platform) -/
  base : Nat := 0
  stride : Nat := 0
deriving Repr

/-- the device: (index of the control request within the operation, request) ↦ response buffer -/
abbrev Dev := Nat → Bytes → Bytes

structure Ctx where
  st : St
  evs : List Ev := []
  n : Nat := 0

structure Out where
  st : St
  evs : List Ev
  res : Res

@[reducible] def Ctx.finish (c : Ctx) (r : Res) : Out := ⟨c.st, c.evs, r⟩

def St.addr (s : St) (d : Dma) : Nat := s.base + d.region * s.stride

/-- `self.request(req)`: one control-queue round trip -/
@[reducible] def Ctx.ctrl (dev : Dev) (c : Ctx) (req : Cmd) : Ctx × Bytes :=
  ({ c with evs := c.evs ++ [.req 0 req], n := c.n + 1 }, dev c.n (req.encode c.st.base c.st.stride))

/-- `self.cursor_request(req)`: no response buffer -/
@[reducible] def Ctx.cursorReq (c : Ctx) (req : Cmd) : Ctx := { c with evs := c.evs ++ [.req 1 req] }

/-- `CtrlHeader::check_type` -/
def checkType (rsp : Bytes) (expected : Nat) : Bool := fieldAt rsp 0 4 == expected

/-- request followed by `rsp.check_type(OK_NODATA)` -/
@[reducible] def Ctx.nodata (dev : Dev) (c : Ctx) (req : Cmd) : Ctx × Bool :=
  let (c', r) := c.ctrl dev req
  (c', checkType r RESP_OK_NODATA)

@[reducible] def Ctx.allocOk (c : Ctx) (pages : Nat) : Ctx × Dma :=
  ({ c with st := { c.st with nextDma := c.st.nextDma + 1 }, evs := c.evs ++ [.alloc c.st.nextDma pages true] },
   ⟨c.st.nextDma, pages⟩)

@[reducible] def Ctx.allocFail (c : Ctx) (pages : Nat) : Ctx := { c with evs := c.evs ++ [.alloc c.st.nextDma pages false] }

@[reducible] def Ctx.dealloc (c : Ctx) (d : Dma) : Ctx := { c with evs := c.evs ++ [.dealloc d.region d.pages] }

/-- `lib.rs::pages` -/
def pagesFor (size : Nat) : Nat := (size + (PAGE - 1)) / PAGE

/-- `get_display_info` followed by `k` on success (continuation style keeps the definitions a plain
tree of `if`s) -/
def getDisplayInfoThen (dev : Dev) (c : Ctx) (k : Ctx → Nat → Nat → Out) : Out :=
  let (c, r) := c.ctrl dev .getDisplayInfo
  if checkType r RESP_OK_DISPLAY_INFO then k c (fieldAt r 32 4) (fieldAt r 36 4)
  else c.finish (.err .ioError)

/-- `resolution` -/
def resolution (dev : Dev) (s : St) : Out :=
  getDisplayInfoThen dev { st := s } fun c w h => c.finish (.ok (.res w h))

/-- `get_edid` -/
def getEdid (dev : Dev) (s : St) (scanout : Nat) : Out :=
  let c : Ctx := { st := s }
  if !s.hasEdid then c.finish (.err .unsupported)
  else
    let (c, r) := c.ctrl dev (.getEdid scanout)
    if checkType r RESP_OK_EDID then
      c.finish (.ok (.edid ((r.drop 32).take 1024) (fieldAt r 24 4)))
    else c.finish (.err .ioError)

/-- tear-down prefix of `change_resolution`, then `k` -/
def teardownThen (dev : Dev) (c : Ctx) (k : Ctx → Out) : Out :=
  match c.st.fb with
  | none => k c
  | some d =>
    let (c, ok) := c.nodata dev (.setScanout 0 0 0 0 SCANOUT_ID 0)
    if !ok then c.finish (.err .ioError) else
    let (c, ok) := c.nodata dev (.detach RESOURCE_ID_FB)
    if !ok then c.finish (.err .ioError) else
    let (c, ok) := c.nodata dev (.unref RESOURCE_ID_FB)
    if !ok then c.finish (.err .ioError) else
    let c := c.dealloc d
    k { c with st := { c.st with fb := none } }

/-- body of `change_resolution` (`allocFail`: the platform's `dma_alloc` returns 0) -/
def changeResolutionFrom (dev : Dev) (allocFail : Bool) (c : Ctx) (w h : Nat) : Out :=
  teardownThen dev c fun c =>
    let c := { c with st := { c.st with rect := some (0, 0, w, h) } }
    let (c, ok) := c.nodata dev (.create2d RESOURCE_ID_FB w h)
    if !ok then c.finish (.err .ioError) else
    -- `width * height * 4` in `u32` with overflow checks
    if w * h * 4 ≥ 2 ^ 32 then c.finish .panic else
    let size := w * h * 4
    let pages := pagesFor size
    if allocFail then (c.allocFail pages).finish (.err .dmaError) else
    let (c, d) := c.allocOk pages
    let (c, ok) := c.nodata dev (.attach RESOURCE_ID_FB d.region size)
    if !ok then (c.dealloc d).finish (.err .ioError) else
    -- the device refers to the buffer from here on: it is stored in `self` before anything else can
    -- fail (fix 1ac4978; before it, a failing SET_SCANOUT released the attached buffer)
    let c := { c with st := { c.st with fb := some d } }
    -- `raw_slice()` → `vaddr(0)` asserts `0 < pages * PAGE_SIZE`
    if pages = 0 then c.finish .panic else
    let (c, ok) := c.nodata dev (.setScanout 0 0 w h SCANOUT_ID RESOURCE_ID_FB)
    if !ok then c.finish (.err .ioError) else
    c.finish (.ok (.fbLen (pages * PAGE)))

def changeResolution (dev : Dev) (allocFail : Bool) (s : St) (w h : Nat) : Out :=
  changeResolutionFrom dev allocFail { st := s } w h

/-- `setup_framebuffer` -/
def setupFramebuffer (dev : Dev) (allocFail : Bool) (s : St) : Out :=
  getDisplayInfoThen dev { st := s } fun c w h => changeResolutionFrom dev allocFail c w h

/-- `flush` -/
def flush (dev : Dev) (s : St) : Out :=
  let c : Ctx := { st := s }
  match s.rect with
  | none => c.finish (.err .notReady)
  | some (x, y, w, h) =>
    let (c, ok) := c.nodata dev (.transfer x y w h 0 RESOURCE_ID_FB)
    if !ok then c.finish (.err .ioError) else
    let (c, ok) := c.nodata dev (.flush x y w h RESOURCE_ID_FB)
    if !ok then c.finish (.err .ioError) else
    c.finish (.ok .unit)

/-- `setup_cursor` (`imgLen` = length of the caller's image) -/
def setupCursor (dev : Dev) (allocFail : Bool) (s : St) (imgLen posX posY hotX hotY : Nat) : Out :=
  let c : Ctx := { st := s }
  let size := CURSOR_W * CURSOR_H * 4
  if imgLen ≠ size then c.finish (.err .invalidParam) else
  let pages := pagesFor size
  if allocFail then (c.allocFail pages).finish (.err .dmaError) else
  let (c, d) := c.allocOk pages
  let (c, ok) := c.nodata dev (.create2d RESOURCE_ID_CURSOR CURSOR_W CURSOR_H)
  if !ok then (c.dealloc d).finish (.err .ioError) else
  let (c, ok) := c.nodata dev (.attach RESOURCE_ID_CURSOR d.region size)
  if !ok then (c.dealloc d).finish (.err .ioError) else
  -- stored as soon as it is attached (fix 1ac4978); `self.cursor_buffer_dma = Some(..)` drops a
  -- previous cursor buffer, whose place as the resource's backing the new one has just taken
  let c := match c.st.cursor with
    | none => c
    | some old => c.dealloc old
  let c := { c with st := { c.st with cursor := some d } }
  let (c, ok) := c.nodata dev (.transfer 0 0 CURSOR_W CURSOR_H 0 RESOURCE_ID_CURSOR)
  if !ok then c.finish (.err .ioError) else
  let c := c.cursorReq (.cursor false SCANOUT_ID posX posY RESOURCE_ID_CURSOR hotX hotY)
  c.finish (.ok .unit)

/-- `move_cursor` -/
def moveCursor (s : St) (posX posY : Nat) : Out :=
  let c : Ctx := { st := s }
  (c.cursorReq (.cursor true SCANOUT_ID posX posY RESOURCE_ID_CURSOR 0 0)).finish (.ok .unit)

/-- dropping the driver: fields in declaration order (`frame_buffer_dma`, `cursor_buffer_dma`);
the transport (first field) has already reset the device -/
def dropDriver (s : St) : Out :=
  let c : Ctx := { st := s }
  let c := match s.fb with | none => c | some d => c.dealloc d
  let c := match s.cursor with | none => c | some d => c.dealloc d
  ({ c with st := { c.st with fb := none, cursor := none } }).finish (.ok .unit)

/-! ### operations as data (for statements over arbitrary histories) -/

inductive Op
  | resolution
  | getEdid (scanout : Nat)
  | setupFramebuffer (allocFail : Bool)
  | changeResolution (allocFail : Bool) (w h : Nat)
  | flush
  | setupCursor (allocFail : Bool) (imgLen posX posY hotX hotY : Nat)
  | moveCursor (posX posY : Nat)
deriving Repr

def step (dev : Dev) (s : St) : Op → Out
  | .resolution => resolution dev s
  | .getEdid sc => getEdid dev s sc
  | .setupFramebuffer f => setupFramebuffer dev f s
  | .changeResolution f w h => changeResolution dev f s w h
  | .flush => flush dev s
  | .setupCursor f n x y hx hy => setupCursor dev f s n x y hx hy
  | .moveCursor x y => moveCursor s x y

/-! ### line protocol -/

def Ev.str (base stride : Nat) : Ev → String
  | .req q c => s!"req({q},{hexOf (c.encode base stride)})"
  | .alloc _ p ok => s!"alloc({p},{if ok then "ok" else "fail"})"
  | .dealloc r p => s!"dealloc(D{r},{p})"

def Res.str : Res → String
  | .ok .unit => "ok"
  | .ok (.fbLen n) => s!"ok len={n}"
  | .ok (.res w h) => s!"ok res={w}x{h}"
  | .ok (.edid b sz) => s!"ok size={sz} fnv={fnv64 b} pref={Edid.prefStr b sz} std={Edid.stdStr b sz}"
  | .err e => s!"err {e.str}"
  | .panic => "panic"

def Out.str (o : Out) : String :=
  let es := Proto.joinWith " " (o.evs.map (Ev.str o.st.base o.st.stride))
  (if es.isEmpty then "" else es ++ " ") ++ "=> " ++ o.res.str

def devOfArgs (a : Proto.Args) : Dev :=
  let rsps := if (a.str "rsps" "-") == "-" then [] else ((a.str "rsps").splitOn ",").map unhex
  fun i _ => rsps.getD i []

def handle (s : St) (op : String) (a : Proto.Args) : St × String :=
  let dev := devOfArgs a
  let fin (o : Out) : St × String := (o.st, o.str)
  match op with
  | "new" =>
    ({ hasEdid := a.bool "edid", ap := a.bool "ap", nextDma := a.nat "next", base := a.nat "base",
       stride := a.nat "stride" }, "ok")
  | "resolution" => fin (resolution dev s)
  | "get_edid" => fin (getEdid dev s (a.nat "scanout"))
  | "setup_fb" => fin (setupFramebuffer dev (a.bool "fail") s)
  | "change_res" => fin (changeResolution dev (a.bool "fail") s (a.nat "w") (a.nat "h"))
  | "flush" => fin (flush dev s)
  | "setup_cursor" =>
    fin (setupCursor dev (a.bool "fail") s (a.nat "len") (a.nat "px") (a.nat "py") (a.nat "hx") (a.nat "hy"))
  | "move_cursor" => fin (moveCursor s (a.nat "x") (a.nat "y"))
  | "drop" => fin (dropDriver s)
  | _ => (s, "bad-op")

end VirtioVerif.Gpu
