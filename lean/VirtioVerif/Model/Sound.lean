import VirtioVerif.Model.Wire
import VirtioVerif.Model.Proto
import VirtioVerif.Model.CmdQueue
/-!
Model of `src/device/sound.rs`: encoders of every control request and of the PCM I/O message,
`set_up`, the control operations with their response checks, the capability getters, PCM chunking,
the blocking transfer loop `pcm_xfer` (over the abstract queue, against a scripted device that may
complete chunks late, in bursts, out of order or with error status) and the non-blocking pair
`pcm_xfer_nb` / `pcm_xfer_ok`.  `Sound.Spec` holds the structure tables of VirtIO 1.2 §5.14.6.
-/
namespace VirtioVerif.Sound
open VirtioVerif VirtioVerif.Wire VirtioVerif.CmdQueue

def QUEUE_SIZE : Nat := 32
def PAGE : Nat := 4096
/-- content of a device-writable buffer the device did not write (the ledger platform's poison) -/
def POISON : Nat := 0xA5

def R_JACK_INFO : Nat := 1
def R_JACK_REMAP : Nat := 2
def R_PCM_INFO : Nat := 0x0100
def R_PCM_SET_PARAMS : Nat := 0x0101
def R_PCM_PREPARE : Nat := 0x0102
def R_PCM_RELEASE : Nat := 0x0103
def R_PCM_START : Nat := 0x0104
def R_PCM_STOP : Nat := 0x0105
def R_CHMAP_INFO : Nat := 0x0200
def S_OK : Nat := 0x8000

def JACK_INFO_SIZE : Nat := 24
def PCM_INFO_SIZE : Nat := 32
def CHMAP_INFO_SIZE : Nat := 24

/-! ### encoders -/
/-- `VirtIOSndQueryInfo` -/
def encQueryInfo (code start count size : Nat) : Bytes := le32 code ++ le32 start ++ le32 count ++ le32 size
/-- `VirtIOSndJackRemap` -/
def encJackRemap (jack assoc seq : Nat) : Bytes := le32 R_JACK_REMAP ++ le32 jack ++ le32 assoc ++ le32 seq
/-- `VirtIOSndPcmHdr` -/
def encPcmHdr (code stream : Nat) : Bytes := le32 code ++ le32 stream
/-- `VirtIOSndPcmSetParams` -/
def encPcmSetParams (stream buffer period features channels format rate : Nat) : Bytes :=
  encPcmHdr R_PCM_SET_PARAMS stream ++ le32 buffer ++ le32 period ++ le32 features
    ++ le8 channels ++ le8 format ++ le8 rate ++ le8 0
/-- `VirtIOSndPcmXfer` (the I/O header that precedes the frames) -/
def encXferHdr (stream : Nat) : Bytes := le32 stream

/-! ### specification tables (VirtIO 1.2 §5.14.6), `(offset, size)` little-endian -/
namespace Spec
/-- `virtio_snd_query_info { virtio_snd_hdr hdr{le32 code}; le32 start_id; le32 count; le32 size; }` -/
def queryInfo : List Field := [(0, 4), (4, 4), (8, 4), (12, 4)]
/-- `virtio_snd_jack_remap { virtio_snd_jack_hdr { hdr; le32 jack_id; }; le32 association; le32 sequence; }` -/
def jackRemap : List Field := [(0, 4), (4, 4), (8, 4), (12, 4)]
/-- `virtio_snd_pcm_hdr { hdr; le32 stream_id; }` -/
def pcmHdr : List Field := [(0, 4), (4, 4)]
/-- `virtio_snd_pcm_set_params { virtio_snd_pcm_hdr hdr; le32 buffer_bytes; le32 period_bytes;
le32 features; u8 channels; u8 format; u8 rate; u8 padding; }` -/
def pcmSetParams : List Field := [(0, 4), (4, 4), (8, 4), (12, 4), (16, 4), (20, 1), (21, 1), (22, 1), (23, 1)]
/-- `virtio_snd_pcm_xfer { le32 stream_id; }` -/
def pcmXfer : List Field := [(0, 4)]
/-- `virtio_snd_pcm_status { le32 status; le32 latency_bytes; }` -/
def pcmStatus : List Field := [(0, 4), (4, 4)]
/-- `virtio_snd_jack_info { virtio_snd_info{le32 hda_fn_nid}; le32 features; le32 hda_reg_defconf;
le32 hda_reg_caps; u8 connected; u8 padding[7]; }` -/
def jackInfo : List Field := [(0, 4), (4, 4), (8, 4), (12, 4), (16, 1), (17, 7)]
/-- `virtio_snd_pcm_info { virtio_snd_info hdr; le32 features; le64 formats; le64 rates; u8 direction;
u8 channels_min; u8 channels_max; u8 padding[5]; }` -/
def pcmInfo : List Field := [(0, 4), (4, 4), (8, 8), (16, 8), (24, 1), (25, 1), (26, 1), (27, 5)]
/-- `virtio_snd_chmap_info { virtio_snd_info hdr; u8 direction; u8 channels; u8 positions[18]; }` -/
def chmapInfo : List Field := [(0, 4), (4, 1), (5, 1), (6, 18)]
def VIRTIO_SND_R_JACK_INFO : Nat := 1
def VIRTIO_SND_R_JACK_REMAP : Nat := 2
def VIRTIO_SND_R_PCM_INFO : Nat := 0x0100
def VIRTIO_SND_R_PCM_SET_PARAMS : Nat := 0x0101
def VIRTIO_SND_R_PCM_PREPARE : Nat := 0x0102
def VIRTIO_SND_R_PCM_RELEASE : Nat := 0x0103
def VIRTIO_SND_R_PCM_START : Nat := 0x0104
def VIRTIO_SND_R_PCM_STOP : Nat := 0x0105
def VIRTIO_SND_R_CHMAP_INFO : Nat := 0x0200
def VIRTIO_SND_S_OK : Nat := 0x8000
def VIRTIO_SND_D_OUTPUT : Nat := 0
def VIRTIO_SND_D_INPUT : Nat := 1
end Spec

/-! ### driver state -/

structure PcmInfo where
  features : Nat
  formats : Nat
  rates : Nat
  direction : Nat
  chMin : Nat
  chMax : Nat
deriving Repr, DecidableEq

structure Params where
  setup : Bool := false
  periodBytes : Nat := 0
deriving Repr, DecidableEq

inductive Err | ioError | invalidParam | unsupported | q (e : CmdQueue.Err)
deriving Repr, DecidableEq

def Err.str : Err → String
  | .ioError => "IoError" | .invalidParam => "InvalidParam" | .unsupported => "Unsupported"
  | .q e => e.str

structure St where
  jacks : Nat := 0
  streams : Nat := 0
  chmaps : Nat := 0
  setUp : Bool := false
  /-- `features` word of each jack (`jack_infos`) -/
  jackInfos : Option (List Nat) := none
  pcmInfos : Option (List PcmInfo) := none
  params : List Params := []
  tx : Q := { size := 32, indirect := false }
  /-- outstanding non-blocking transfers (`token_buf` / `token_rsp` keys): (ordinal of the
  `pcm_xfer_nb` call, queue token) -/
  nb : List (Nat × Nat) := []
  nbCount : Nat := 0
deriving Repr

/-- control device: (index of the request within the operation, request) ↦ response buffer -/
abbrev Dev := Nat → Bytes → Bytes

structure Ctx where
  st : St
  reqs : List Bytes := []
  n : Nat := 0

inductive Res (α : Type) | ok (a : α) | err (e : Err) | panic
deriving Repr

@[reducible] def Ctx.request (dev : Dev) (c : Ctx) (req : Bytes) : Ctx × Bytes :=
  ({ c with reqs := c.reqs ++ [req], n := c.n + 1 }, dev c.n req)

/-- `hdr == RequestStatusCode::Ok.into()` -/
def isOk (rsp : Bytes) : Bool := fieldAt rsp 0 4 == S_OK

/-- item `i` of an info response: `&queue_buf_recv[HDR + i*size .. HDR + (i+1)*size]` -/
def item (rsp : Bytes) (size i : Nat) : Bytes := (rsp.drop (4 + i * size)).take size

def parsePcmInfo (b : Bytes) : PcmInfo :=
  { features := fieldAt b 4 4, formats := fieldAt b 8 8, rates := fieldAt b 16 8, direction := fieldAt b 24 1,
    chMin := fieldAt b 25 1, chMax := fieldAt b 26 1 }

/-- an info query for `count` items starting at 0; `none` = slice index panic (response buffer is one page) -/
def infoQuery (dev : Dev) (c : Ctx) (code count size : Nat) : Ctx × Res (List Bytes) :=
  let (c, r) := c.request dev (encQueryInfo code 0 count size)
  if !isOk r then (c, .err .ioError)
  else if count ≠ 0 ∧ 4 + count * size > PAGE then (c, .panic)
  else (c, .ok ((List.range count).map (item r size)))

/-- `set_up`: `.ok c` / error / panic -/
def setUpDriver (dev : Dev) (c : Ctx) : Ctx × Res Unit :=
  -- jack infos: an error is swallowed (`jack_infos = Some(vec![])`)
  match infoQuery dev c R_JACK_INFO c.st.jacks JACK_INFO_SIZE with
  | (c, .panic) => (c, .panic)
  | (c, rj) =>
    let c := { c with st := { c.st with jackInfos := some (match rj with
        | .ok items => items.map (fun b => fieldAt b 4 4) | _ => []) } }
    match infoQuery dev c R_PCM_INFO c.st.streams PCM_INFO_SIZE with
    | (c, .panic) => (c, .panic)
    | (c, .err e) => (c, .err e)
    | (c, .ok items) =>
      let c := { c with st := { c.st with pcmInfos := some (items.map parsePcmInfo) } }
      match infoQuery dev c R_CHMAP_INFO c.st.chmaps CHMAP_INFO_SIZE with
      | (c, .panic) => (c, .panic)
      | (c, _) => (c, .ok ())

/-- the `if !self.set_up { self.set_up()?; self.set_up = true; }` prologue, then `k` -/
def withSetUp {α : Type} (dev : Dev) (c : Ctx) (k : Ctx → Ctx × Res α) : Ctx × Res α :=
  if c.st.setUp then k c
  else match setUpDriver dev c with
    | (c, .panic) => (c, .panic)
    | (c, .err e) => (c, .err e)
    | (c, .ok ()) => k { c with st := { c.st with setUp := true } }

/-- `pcm_prepare` / `pcm_release` / `pcm_start` / `pcm_stop` -/
def pcmSimple (dev : Dev) (c : Ctx) (code stream : Nat) : Ctx × Res Unit :=
  withSetUp dev c fun c =>
    let (c, r) := c.request dev (encPcmHdr code stream)
    if isOk r then (c, .ok ()) else (c, .err .ioError)

def setParamsAt : List Params → Nat → Params → List Params
  | [], _, _ => []
  | _ :: ps, 0, v => v :: ps
  | p :: ps, i + 1, v => p :: setParamsAt ps i v

/-- `pcm_set_params` -/
def pcmSetParams (dev : Dev) (c : Ctx) (stream buffer period features channels format rate : Nat) :
    Ctx × Res Unit :=
  withSetUp dev c fun c =>
    if period = 0 ∨ period > buffer ∨ buffer % period ≠ 0 then (c, .err .invalidParam)
    else
      let (c, r) := c.request dev (encPcmSetParams stream buffer period features channels format rate)
      if isOk r then
        -- `self.pcm_parameters[stream_id as usize] = …` (index panic for an unknown stream)
        if stream < c.st.params.length then
          ({ c with st := { c.st with params := setParamsAt c.st.params stream { setup := true, periodBytes := period } } }, .ok ())
        else (c, .panic)
      else (c, .err .ioError)

/-- `jack_remap` -/
def jackRemap (dev : Dev) (c : Ctx) (jack assoc seq : Nat) : Ctx × Res Unit :=
  withSetUp dev c fun c =>
    if c.st.jacks = 0 then (c, .err .invalidParam)
    else if jack ≥ c.st.jacks then (c, .err .invalidParam)
    else
      -- `self.jack_infos.as_ref().unwrap().get(jack_id).unwrap()`
      match (c.st.jackInfos.getD [])[jack]? with
      | none => (c, .panic)
      | some feat =>
        if feat % 2 = 0 then (c, .err .unsupported)
        else
          let (c, r) := c.request dev (encJackRemap jack assoc seq)
          if isOk r then (c, .ok ()) else (c, .err .unsupported)

/-! ### PCM chunking and the transfer loop -/

/-- `frames.chunks(period)` with explicit fuel (structural, so that it computes in the kernel) -/
def chunksAux (period : Nat) : Nat → Bytes → List Bytes
  | 0, _ => []
  | fuel + 1, l => if l = [] then [] else l.take period :: chunksAux period fuel (l.drop period)

/-- `frames.chunks(period)`; `period > 0` is guaranteed by `pcm_set_params` (Rust's `chunks(0)`
panics; the driver cannot reach it) -/
def pcmChunks (period : Nat) (frames : Bytes) : List Bytes :=
  if period = 0 then [] else chunksAux period frames.length frames

/-- what the device does in one busy-wait iteration -/
inductive Act
  /-- nothing -/
  | idle
  /-- complete the `i`-th oldest chain in flight with `status` (`i ≥ 1` = out of order) -/
  | complete (i : Nat) (status : Nat)
  /-- complete everything in flight, oldest first, with status OK -/
  | all
deriving Repr, DecidableEq

/-- one delivered PCM message as the device saw it: stream id field, frames, status it answered -/
structure Delivered where
  stream : Nat
  data : Bytes
  status : Nat
deriving Repr, DecidableEq

structure XS where
  q : Q
  remaining : List Bytes
  /-- the driver's occupied slots: (token, chunk) of every chunk added and not yet popped, in
  submission order (the Rust code keeps them in arbitrary array slots; only membership matters) -/
  ring : List (Nat × Bytes)
  script : List Act
  delivered : List Delivered := []
  submitted : Nat := 0
  maxOut : Nat := 0
  /-- `result`: the first failure; once set nothing more is submitted, outstanding chunks are drained -/
  failed : Option Err := none
  /-- ghost: the chunks submitted so far, in submission order -/
  sent : List Bytes := []
deriving Repr

def statusBytes (status : Nat) : Bytes := le32 status ++ le32 0

def deliver (x : XS) (i status : Nat) : XS :=
  match x.q.outstanding[i]? with
  | none => x
  | some c =>
    { x with q := complete x.q i (statusBytes status) 8,
             delivered := x.delivered ++ [{ stream := fromLE (c.rd.getD 0 []), data := c.rd.getD 1 [], status := status }] }

def deliverAll : Nat → XS → XS
  | 0, x => x
  | fuel + 1, x => if x.q.outstanding.isEmpty then x else deliverAll fuel (deliver x 0 S_OK)

/-- the device at one spin point: consume one script entry (after the script: complete everything) -/
def deviceStep (x : XS) : XS :=
  match x.script with
  | [] => deliverAll (x.q.outstanding.length) x
  | .idle :: rest => { x with script := rest }
  | .complete i st :: rest => deliver { x with script := rest } (min i (x.q.outstanding.length - 1)) st
  | .all :: rest => deliverAll (x.q.outstanding.length) { x with script := rest }

inductive XRes | ok | err (e : Err) | panic | fuel
deriving Repr, DecidableEq

/-- status word the driver reads back: device-written bytes, then poison -/
def effStatus (written : Bytes) : Nat := fieldAt (written ++ List.replicate 8 POISON) 0 4

/-- `VirtQueue::peek_used` -/
def peekUsed (q : Q) : Option Nat := q.used.head?.map (·.chain.tok)

/-- the add phase of one iteration of the `loop` in `pcm_xfer` -/
def xferAdd (stream : Nat) (x : XS) : XS :=
  if x.failed.isNone ∧ availableDesc x.q ≥ 3 then
    match x.remaining with
    | c :: rest =>
      match add x.q [encXferHdr stream, c] [8] with
      | .error e => { x with remaining := rest, failed := some (.q e) }
      | .ok (q', tok) =>
        let ring := x.ring ++ [(tok, c)]
        { x with q := q', remaining := rest, ring := ring, submitted := x.submitted + 1,
                 maxOut := max x.maxOut ring.length, sent := x.sent ++ [c] }
    | [] => x
  else x

/-- the result `pcm_xfer` returns once nothing is outstanding -/
def xferResult (x : XS) : XRes :=
  match x.failed with
  | none => .ok
  | some e => .err e

/-- one iteration of the `loop` in `pcm_xfer` (after repair F15: failures are remembered, outstanding
chunks are always drained, completions are matched to their slot by token, so any completion order
is accepted); `some r` = the function returns `r` -/
def xferIter (stream : Nat) (x : XS) : XS × Option XRes :=
  let x := xferAdd stream x
  if x.ring.isEmpty ∧ (x.failed.isSome ∨ x.remaining.isEmpty) then (x, some (xferResult x))
  else
    match peekUsed x.q with
    | none => (deviceStep x, none)
    | some tok =>
      match x.ring.find? (·.1 == tok) with
      | none => (x, some (.err (.q .wrongToken)))
      | some slot =>
        match popUsed x.q tok with
        | .error e => (x, some (.err (.q e)))
        | .ok (q', u) =>
          (deviceStep { x with q := q', ring := x.ring.erase slot,
                               failed := if x.failed.isNone ∧ effStatus u.written ≠ S_OK then some .ioError else x.failed },
           none)

def xferLoop (stream : Nat) : Nat → XS → XS × XRes
  | 0, x => (x, .fuel)
  | fuel + 1, x =>
    match xferIter stream x with
    | (x, some r) => (x, r)
    | (x, none) => xferLoop stream fuel x

/-- `pcm_xfer` after the prologue: start state of the loop -/
def xferStart (q : Q) (period : Nat) (frames : Bytes) (script : List Act) : XS :=
  { q := q, remaining := pcmChunks period frames, ring := [], script := script }

/-- enough iterations for any script: every script entry, then add and pop of every chunk -/
def xferFuel (period : Nat) (frames : Bytes) (script : List Act) : Nat :=
  script.length + 2 * (pcmChunks period frames).length + 4

/-- summary of a blocking transfer -/
structure XferOut where
  res : XRes
  x : XS

/-- `pcm_xfer` -/
def pcmXfer (dev : Dev) (c : Ctx) (stream : Nat) (frames : Bytes) (script : List Act) : Ctx × Res XferOut :=
  withSetUp dev c fun c =>
    -- `self.pcm_parameters[stream_id as usize]`
    match c.st.params[stream]? with
    | none => (c, .panic)
    | some p =>
      if !p.setup then (c, .err .ioError)
      else
        let (x, r) := xferLoop stream (xferFuel p.periodBytes frames script) (xferStart c.st.tx p.periodBytes frames script)
        ({ c with st := { c.st with tx := x.q } }, .ok ⟨r, x⟩)

/-- `pcm_xfer_nb`: returns the ordinal naming the token -/
def pcmXferNb (dev : Dev) (c : Ctx) (stream : Nat) (frames : Bytes) : Ctx × Res Nat :=
  withSetUp dev c fun c =>
    match c.st.params[stream]? with
    | none => (c, .panic)
    | some p =>
      if !p.setup then (c, .err .ioError)
      -- `assert_eq!(period_size, frames.len())`
      else if p.periodBytes ≠ frames.length then (c, .panic)
      else match add c.st.tx [encXferHdr stream ++ frames] [8] with
        | .error e => (c, .err (.q e))
        | .ok (q', tok) =>
          ({ c with st := { c.st with tx := q', nb := (c.st.nbCount, tok) :: c.st.nb, nbCount := c.st.nbCount + 1 } },
           .ok c.st.nbCount)

/-- `pcm_xfer_ok` (the harness names tokens by the ordinal of the `pcm_xfer_nb` call) -/
def pcmXferOk (s : St) (ord : Nat) : St × Res Unit :=
  match s.nb.find? (·.1 == ord) with
  | none => (s, .panic)   -- `assert!(self.token_buf.contains_key(&token))`
  | some (o, tok) =>
    match popUsed s.tx tok with
    | .error e => (s, .err (.q e))
    | .ok (q', u) =>
      -- (fix 097f5f5) the status word the device wrote is checked, as in the blocking `pcm_xfer`
      ({ s with tx := q', nb := s.nb.filter (·.1 != o) },
       if effStatus u.written = S_OK then .ok () else .err .ioError)

/-! ### line protocol -/

def reqsStr (l : List Bytes) : String :=
  if l.isEmpty then "" else Proto.joinWith " " (l.map fun b => s!"req({hexOf b})") ++ " "

def resStr {α : Type} (show_ : α → String) : Res α → String
  | .ok a => let s := show_ a; if s.isEmpty then "ok" else "ok " ++ s
  | .err e => s!"err {e.str}"
  | .panic => "panic"

def devOfArgs (a : Proto.Args) : Dev :=
  let rsps := if (a.str "rsps" "-") == "-" then [] else ((a.str "rsps").splitOn ",").map unhex
  fun i _ => rsps.getD i []

def parseAct (s : String) : Act :=
  match s.toList with
  | 'n' :: _ => .idle
  | 'a' :: _ => .all
  | 'r' :: rest => .complete ((String.ofList rest).toNat?.getD 0) S_OK
  | 'e' :: rest => .complete 0 ((String.ofList rest).toNat?.getD 0)
  | 'o' :: _ => .complete 0 S_OK
  | _ => .idle

/-- deterministic frame pattern shared with the harness -/
def pattern (len a b : Nat) : Bytes := (List.range len).map fun i => (a * i + b) % 256

def framesOfArgs (a : Proto.Args) : Bytes :=
  if (a.str "frames" "") != "" then unhex (a.str "frames") else pattern (a.nat "len") (a.nat "pa") (a.nat "pb")

def deliveredDigest (l : List Delivered) : Nat :=
  fnv64 (l.flatMap fun d => le32 d.stream ++ le32 d.status ++ d.data)

def getter (dev : Dev) (c : Ctx) (stream : Nat) (f : PcmInfo → String) : Ctx × Res String :=
  withSetUp dev c fun c =>
    match (c.st.pcmInfos.getD [])[stream]? with
    | none => (c, .err .invalidParam)
    | some i => (c, .ok (f i))

def handle (s : St) (op : String) (a : Proto.Args) : St × String :=
  let dev := devOfArgs a
  let c0 : Ctx := { st := s }
  let fin {α : Type} (show_ : α → String) (r : Ctx × Res α) : St × String :=
    (r.1.st, reqsStr r.1.reqs ++ "=> " ++ resStr show_ r.2)
  let unit := fun (_ : Unit) => ""
  match op with
  | "new" =>
    ({ jacks := a.nat "jacks", streams := a.nat "streams", chmaps := a.nat "chmaps",
       params := List.replicate (a.nat "streams") {}, tx := { size := 32, indirect := a.bool "indirect" } }, "ok")
  | "set_params" =>
    fin unit (pcmSetParams dev c0 (a.nat "stream") (a.nat "buffer") (a.nat "period") (a.nat "features")
      (a.nat "channels") (a.nat "format") (a.nat "rate"))
  | "prepare" => fin unit (pcmSimple dev c0 R_PCM_PREPARE (a.nat "stream"))
  | "release" => fin unit (pcmSimple dev c0 R_PCM_RELEASE (a.nat "stream"))
  | "start" => fin unit (pcmSimple dev c0 R_PCM_START (a.nat "stream"))
  | "stop" => fin unit (pcmSimple dev c0 R_PCM_STOP (a.nat "stream"))
  | "jack_remap" => fin unit (jackRemap dev c0 (a.nat "jack") (a.nat "assoc") (a.nat "seq"))
  | "output_streams" =>
    fin id (withSetUp dev c0 fun c => (c, .ok (Proto.natsStr
      (((c.st.pcmInfos.getD []).zipIdx.filter fun p => p.1.direction == 0).map (·.2)))))
  | "input_streams" =>
    fin id (withSetUp dev c0 fun c => (c, .ok (Proto.natsStr
      (((c.st.pcmInfos.getD []).zipIdx.filter fun p => p.1.direction == 1).map (·.2)))))
  | "rates" => fin id (getter dev c0 (a.nat "stream") fun i => toString i.rates)
  | "formats" => fin id (getter dev c0 (a.nat "stream") fun i => toString i.formats)
  | "features" => fin id (getter dev c0 (a.nat "stream") fun i => toString i.features)
  | "channels" => fin id (getter dev c0 (a.nat "stream") fun i => s!"{i.chMin}..={i.chMax}")
  | "xfer" =>
    let script := if (a.str "script" "-") == "-" then [] else ((a.str "script").splitOn ",").map parseAct
    fin (fun (o : XferOut) =>
        let r := match o.res with | .ok => "Ok" | .err e => e.str | .panic => "PANIC" | .fuel => "FUEL"
        s!"result={r} submitted={o.x.submitted} delivered={o.x.delivered.length} fnv={deliveredDigest o.x.delivered} shared={sharedBuffers o.x.q}")
      (match pcmXfer dev c0 (a.nat "stream") (framesOfArgs a) script with
       | (c, .ok o) => if o.res == .panic then (c, .panic) else (c, .ok o)
       | r => r)
  | "xfer_nb" => fin (fun (n : Nat) => s!"tok={n}") (pcmXferNb dev c0 (a.nat "stream") (framesOfArgs a))
  | "dev_complete" =>
    -- device op: complete the `idx`-th outstanding tx chain with `status`
    ({ s with tx := complete s.tx (a.nat "idx") (statusBytes (a.nat "status")) 8 }, "ok")
  | "xfer_ok" => let r := pcmXferOk s (a.nat "tok"); (r.1, "=> " ++ resStr unit r.2)
  | _ => (s, "bad-op")

end VirtioVerif.Sound
