import VirtioVerif.Model.Wire
/-!
Model of `src/device/gpu/edid.rs` as pure functions over a byte list, mirroring the code's index
arithmetic and bit operations exactly (a slice that would be out of bounds in Rust is the explicit
outcome `none` = panic), and — in `Edid.Spec` — an independent decode written from the VESA E-EDID
standard (Release A rev. 2, §3.9 "Standard Timing Identification", §3.10.2 "Detailed Timing
Descriptor") with plain arithmetic.
-/
namespace VirtioVerif.Edid
open VirtioVerif.Wire

def NUM_STANDARD_TIMINGS : Nat := 8
def DTD1_OFFSET : Nat := 0x36
def DTD_LEN : Nat := 18
def STANDARD_TIMINGS_OFFSET : Nat := 38
def STANDARD_TIMING_LEN : Nat := 2

/-- `&data[off..][..len]`: `none` models the slice-index panic -/
def slice (d : Bytes) (off len : Nat) : Option Bytes :=
  if off ≤ d.length ∧ len ≤ d.length - off then some ((d.drop off).take len) else none

/-- `AspectRatio::from_bits(..).v_pixels(h)` -/
def vPixels (bits h : Nat) : Nat :=
  match bits with
  | 0 => h * 10 / 16
  | 1 => h * 3 / 4
  | 2 => h * 4 / 5
  | _ => h * 9 / 16

/-- `StandardTiming::parse` -/
def stdParse (b0 b1 : Nat) : Option (Nat × Nat) :=
  if b0 = 0x01 ∧ b1 = 0x01 then none
  else
    let h := (b0 + 31) * 8
    some (h, vPixels ((b1 >>> 6) &&& 0x03) h)

/-- `DetailedTiming::parse` on an 18-byte slice -/
def dtdParse (bs : Bytes) : Option (Nat × Nat) :=
  let h := bs.getD 2 0 ||| ((bs.getD 4 0 &&& 0xF0) <<< 4)
  let v := bs.getD 5 0 ||| ((bs.getD 7 0 &&& 0xF0) <<< 4)
  if h = 0 ∨ v = 0 then none else some (h, v)

def hasBaseBlock (size : Nat) : Bool := size ≥ 128

/-- outcome of a parsing function: `none` = the Rust code would panic -/
abbrev P (α : Type) := Option α

/-- `Edid::first_detailed_timing` -/
def firstDetailedTiming (d : Bytes) (size : Nat) : P (Option (Nat × Nat)) :=
  if !hasBaseBlock size then some none
  else match slice d DTD1_OFFSET DTD_LEN with
    | none => none
    | some bs => some (dtdParse bs)

inductive Err | ioError
deriving DecidableEq, Repr

/-- `Edid::preferred_resolution` -/
def preferredResolution (d : Bytes) (size : Nat) : P (Except Err (Nat × Nat)) :=
  (firstDetailedTiming d size).map fun o =>
    match o with
    | none => .error .ioError
    | some r => .ok r

/-- `Edid::standard_timing(index)` -/
def standardTiming (d : Bytes) (index : Nat) : P (Option (Nat × Nat)) :=
  match slice d (STANDARD_TIMINGS_OFFSET + index * STANDARD_TIMING_LEN) STANDARD_TIMING_LEN with
  | none => none
  | some bs => some (stdParse (bs.getD 0 0) (bs.getD 1 0))

def area (r : Nat × Nat) : Nat := r.1 * r.2

/-- insertion into a list sorted by decreasing area, after the elements of equal area that are
already there … used as `sort (x :: xs) = insert x (sort xs)`, so `x` (which precedes `xs` in the
input) goes *before* equal elements: a stable sort, like `slice::sort_by` -/
def insertDesc (x : Nat × Nat) : List (Nat × Nat) → List (Nat × Nat)
  | [] => [x]
  | y :: ys => if area y ≤ area x then x :: y :: ys else y :: insertDesc x ys

def sortDesc : List (Nat × Nat) → List (Nat × Nat)
  | [] => []
  | x :: xs => insertDesc x (sortDesc xs)

/-- the `filter_map` over indices `0..8` (first panic wins) -/
def collectStd (d : Bytes) : List Nat → P (List (Nat × Nat))
  | [] => some []
  | i :: is =>
    match standardTiming d i with
    | none => none
    | some o =>
      match collectStd d is with
      | none => none
      | some rest => some (match o with | none => rest | some r => r :: rest)

/-- `Edid::standard_timings` -/
def standardTimings (d : Bytes) (size : Nat) : P (List (Nat × Nat)) :=
  if !hasBaseBlock size then some []
  else (collectStd d (List.range NUM_STANDARD_TIMINGS)).map sortDesc

/-! ### specification-level decode (VESA E-EDID, arithmetic form) -/
namespace Spec

/-- §3.9: byte 1 = (horizontal active / 8) − 31; byte 2 bits 7–6 = image aspect ratio
(00 = 16:10, 01 = 4:3, 10 = 5:4, 11 = 16:9); the pair 01h 01h marks an unused field. -/
def stdTiming (b0 b1 : Nat) : Option (Nat × Nat) :=
  if (b0, b1) = (1, 1) then none
  else
    let h := 8 * (b0 + 31)
    let (num, den) := match b1 / 64 % 4 with
      | 0 => (10, 16) | 1 => (3, 4) | 2 => (4, 5) | _ => (9, 16)
    some (h, h * num / den)

/-- §3.10.2: byte 2 = horizontal addressable pixels, low 8 bits; byte 4 upper nibble = its upper 4
bits; byte 5 = vertical addressable lines, low 8 bits; byte 7 upper nibble = its upper 4 bits. -/
def dtdActive (bs : Bytes) : Nat × Nat :=
  (bs.getD 2 0 + 256 * (bs.getD 4 0 / 16), bs.getD 5 0 + 256 * (bs.getD 7 0 / 16))

/-- the 8 standard timing fields are bytes 26h–35h of the base block -/
def stdEntries (d : Bytes) : List (Nat × Nat) :=
  (List.range 8).filterMap fun i => stdTiming (d.getD (0x26 + 2 * i) 0) (d.getD (0x26 + 2 * i + 1) 0)

/-- the first 18-byte descriptor occupies bytes 36h–47h; the preferred timing is reported only when
both addressable sizes are non-zero and the base block (128 bytes) is present -/
def preferred (d : Bytes) (size : Nat) : Option (Nat × Nat) :=
  if size < 128 then none
  else
    let r := dtdActive ((d.drop 0x36).take 18)
    if r.1 = 0 ∨ r.2 = 0 then none else some r

end Spec

/-! ### line protocol -/

def resStr (r : Nat × Nat) : String := s!"{r.1}x{r.2}"

def prefStr (d : Bytes) (size : Nat) : String :=
  match preferredResolution d size with
  | none => "panic"
  | some (.error _) => "err:IoError"
  | some (.ok r) => resStr r

def stdStr (d : Bytes) (size : Nat) : String :=
  match standardTimings d size with
  | none => "panic"
  | some l => if l.isEmpty then "-" else ",".intercalate (l.map resStr)

end VirtioVerif.Edid
