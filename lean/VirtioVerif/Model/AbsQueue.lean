/-!
Abstract split virtqueue used by the device-driver models (block, network).

The concrete queue (`queue.rs`, properties C01–C05) is proved separately; driver models are written
against this abstraction, which is to be reconciled with the concrete queue's refinement theorem:

* the state is a finite map *token ↦ outstanding chain* (`out`, in submission order) plus the FIFO
  of completions the device has published and the driver has not yet popped (`used`);
* a chain is the list of device-readable segments (their *contents*: the device may read them at
  any time while the chain is outstanding) followed by the device-writable segments (their lengths);
* `add` succeeds while the capacity rule of `VirtQueue::add` allows (descriptor accounting of the
  direct and the indirect mode), and yields a *fresh* token.  Which fresh token is the allocation
  policy of the concrete queue; here the token is an input (`tok`) that only has to be `< size`
  and not outstanding;
* the device (`complete`) may complete any outstanding, not yet completed chain, in any order,
  with any reported length and any contents of the writable segments.  `Done.data` is the
  *device-visible content of the writable segments at completion time*; by the `Hal::unshare`
  contract (C04) this is what the caller's buffers contain after a successful `pop_used`;
* `pop tok` succeeds only if `tok` is the next entry in used-ring order (`NotReady` if the ring is
  empty, `WrongToken` otherwise) and then returns the device's record for that entry.
-/
namespace VirtioVerif.AbsQueue

/-- bytes are naturals `< 256` -/
abbrev Bytes := List Nat

structure Chain where
  /-- device-readable segments, by content -/
  rd : List Bytes
  /-- device-writable segments, by length -/
  wr : List Nat
deriving Repr, DecidableEq

def Chain.segs (c : Chain) : Nat := c.rd.length + c.wr.length

/-- a completion published by the device -/
structure Done where
  tok : Nat
  /-- used length reported by the device -/
  len : Nat
  /-- device-visible content of each writable segment at completion time -/
  data : List Bytes
deriving Repr, DecidableEq

inductive Err
  | invalidParam | queueFull | notReady | wrongToken | ioError | unsupported
  /-- the environment offered a token that is not fresh (never produced by the concrete queue) -/
  | badToken
  /-- a Rust panic (`assert_ne!(buffer.len(), 0)` in `add_direct` / `add_indirect`) -/
  | panic
  /-- a blocking helper spins forever (the device never completes the request) -/
  | hang
deriving Repr, DecidableEq

def Err.str : Err → String
  | .invalidParam => "InvalidParam" | .queueFull => "QueueFull" | .notReady => "NotReady"
  | .wrongToken => "WrongToken" | .ioError => "IoError" | .unsupported => "Unsupported"
  | .badToken => "BadToken" | .panic => "panic" | .hang => "hang"

structure Q where
  size : Nat
  indirect : Bool
  out : List (Nat × Chain)
  used : List Done
deriving Repr

def Q.init (size : Nat) (indirect : Bool) : Q := { size, indirect, out := [], used := [] }

/-- descriptors taken from the table by one chain: all of them (direct) or a single one pointing to
    an indirect table (`self.indirect && descriptors_needed > 1`) -/
def cost (indirect : Bool) (c : Chain) : Nat := if indirect && decide (1 < c.segs) then 1 else c.segs

/-- `num_used` -/
def Q.numUsed (q : Q) : Nat := (q.out.map fun p => cost q.indirect p.2).sum

def Q.hasTok (q : Q) (t : Nat) : Bool := q.out.any fun p => p.1 == t

/-- the capacity rule of `VirtQueue::add` (feature `alloc` on) -/
def Q.full (q : Q) (segs : Nat) : Bool :=
  decide (q.size < q.numUsed + 1) || decide (q.size < segs) || (!q.indirect && decide (q.size < q.numUsed + segs))

/-- `VirtQueue::add` -/
def Q.add (q : Q) (tok : Nat) (c : Chain) : Except Err Q :=
  if c.segs = 0 then .error .invalidParam
  else if q.full c.segs then .error .queueFull
  else if c.rd.any (·.isEmpty) || c.wr.any (· == 0) then .error .panic
  else if decide (q.size ≤ tok) || q.hasTok tok then .error .badToken
  else .ok { q with out := q.out ++ [(tok, c)] }

/-- `VirtQueue::available_desc` -/
def Q.availableDesc (q : Q) : Nat :=
  if q.indirect then (if q.numUsed = q.size then 0 else q.size) else q.size - q.numUsed

/-- device step: publish a completion for an outstanding, not yet completed chain -/
def Q.complete (q : Q) (d : Done) : Option Q :=
  match q.out.find? (fun p => p.1 == d.tok) with
  | none => none
  | some (_, c) =>
    if q.used.any (fun u => u.tok == d.tok) then none
    else if d.data.map List.length != c.wr then none
    else some { q with used := q.used ++ [d] }

/-- `VirtQueue::peek_used` -/
def Q.peek (q : Q) : Option Nat := q.used.head?.map (·.tok)

/-- `VirtQueue::can_pop` -/
def Q.canPop (q : Q) : Bool := !q.used.isEmpty

/-- `VirtQueue::pop_used` (the caller passes the buffers it passed to `add`: safety contract) -/
def Q.pop (q : Q) (tok : Nat) : Except Err (Q × Done) :=
  match q.used with
  | [] => .error .notReady
  | d :: rest =>
    if d.tok != tok then .error .wrongToken
    else .ok ({ q with out := q.out.filter (fun p => p.1 != tok), used := rest }, d)

/-- chains the device has not completed yet -/
def Q.pending (q : Q) : List (Nat × Chain) := q.out.filter fun p => !q.used.any fun u => u.tok == p.1

end VirtioVerif.AbsQueue
